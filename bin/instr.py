"""Instrumented copy of /repo's state.go for the cluster family (overlay only; nothing is written to /repo).
Right after `defer m.nodeLock.Unlock()` in aliveNode / suspectNode / deadNode / resetNodes a call to a hook defined
in harness/zz_vf_cluster_test.go is inserted, so that a node's membership operations are logged in the order
in which they take effect.  The file is rewritten from the CURRENT working tree on every run; if a function or
its lock line cannot be found the caller reports that the correspondence could not be established."""
import os, re

HOOKS = [
    (r"func \(m \*Memberlist\) aliveNode\((\w+) \*alive, \w+ chan struct\{\}, (\w+) bool\) \{", "vfHookAlive(m, %s, %s)"),
    (r"func \(m \*Memberlist\) suspectNode\((\w+) \*suspect\) \{", "vfHookSuspect(m, %s)"),
    (r"func \(m \*Memberlist\) deadNode\((\w+) \*dead\) \{", "vfHookDead(m, %s)"),
    (r"func \(m \*Memberlist\) resetNodes\(\) \{", "vfHookReset(m)"),
]
LOCK = "defer m.nodeLock.Unlock()"


def instrument(repo, workdir):
    src = open(os.path.join(repo, "state.go")).read()
    for pat, call in HOOKS:
        m = re.search(pat, src)
        if not m:
            raise RuntimeError("state.go: cannot find %s" % pat)
        k = src.find(LOCK, m.end())
        nxt = src.find("\nfunc ", m.end())
        if k < 0 or (nxt >= 0 and k > nxt):
            raise RuntimeError("state.go: no `%s` in the function matching %s" % (LOCK, pat))
        k += len(LOCK)
        src = src[:k] + "\n\t" + (call % m.groups() if m.groups() else call) + src[k:]
    out = os.path.join(workdir, "state_instr.go")
    open(out, "w").write(src)
    return {os.path.join(repo, "state.go"): out}
