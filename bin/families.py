"""Per-family configuration of the correspondence harness (see DESIGN.md §2)."""

COMMON = ["zz_vf_common_test.go"]

FAMILIES = {
    "queue": {
        "name": "queue", "props": ["C10"], "models": "Queue.v",
        "harness": COMMON + ["zz_vf_queue_test.go"], "test": "TestVfQueue",
        "n": {"quick": 1500, "thorough": 30000},
        "codes": [(100, 199, ["C10"])],
        "code_names": {
            1: "undecodable case", 10: "model out of fuel", 20: "GetBroadcasts result differs", 21: "finished set differs",
            22: "NumQueued differs", 23: "panic outcome differs", 24: "trace length differs",
            100: "queue operation panicked", 101: "accounting: NumQueued != queued - finished (silent loss)",
            102: "completion callback ran twice in one call", 103: "completion callback for an item that is not queued (again or unknown)",
            104: "returned messages exceed the byte limit", 105: "selection is not least-transmitted/largest/newest first",
            106: "superseded broadcast was not completed", 107: "completion callback without a permitted reason",
            108: "retransmit limit reached but completion callback missing", 109: "returned a message that is not queued",
            110: "non-retrieval returned messages", 111: "Prune kept the wrong number of messages", 112: "Reset did not complete every queued message",
        },
        "assumptions": ["broadcast payloads are immutable while queued (harness broadcasts)",
                        "retransmitLimit (float64 log10) enters the model as the value the real function returned for that call",
                        "id generator wrap-around at MaxInt64 not modelled (unreachable: one id per submission)"],
    },
}

PROPS = {p: f for f, d in FAMILIES.items() for p in d["props"]}
