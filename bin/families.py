"""Per-family configuration of the correspondence harness (see DESIGN.md §2)."""

import os
import instr

COMMON = ["zz_vf_common_test.go"]
REPO = os.environ.get("VERIF_REPO", "/repo")

FAMILIES = {
    "queue": {
        "name": "queue", "props": ["C10"], "models": "Queue.v",
        "harness": COMMON + ["zz_vf_queue_test.go"], "test": "TestVfQueue",
        "n": {"quick": 1500, "thorough": 150000},
        "codes": [(100, 199, ["C10"])],
        "code_names": {
            1: "undecodable case", 10: "model out of fuel", 20: "GetBroadcasts result differs", 21: "finished set differs",
            22: "NumQueued differs", 23: "panic outcome differs", 24: "trace length differs",
            100: "queue operation panicked", 101: "accounting: NumQueued != queued - finished (silent loss)",
            102: "completion callback ran twice in one call", 103: "completion callback for an item that is not queued (again or unknown)",
            104: "returned messages exceed the byte limit", 105: "selection is not least-transmitted/largest/newest first",
            106: "superseded broadcast was not completed", 107: "completion callback without a permitted reason",
            108: "retransmit limit reached but completion callback missing", 109: "returned a message that is not queued",
            110: "non-retrieval returned messages", 111: "Prune kept the wrong number of messages", 112: "Reset did not complete every queued message",
        },
        "assumptions": ["broadcast payloads are immutable while queued (harness broadcasts)",
                        "retransmitLimit (float64 log10) enters the model as the value the real function returned for that call",
                        "id generator wrap-around at MaxInt64 not modelled (unreachable: one id per submission)"],
    },
}

CORE_NAMES = {
    1: "undecodable case", 20: "local incarnation differs", 21: "leave flag differs", 22: "health score differs",
    23: "node-count estimate differs", 24: "member records differ", 25: "suspicion-timer registration differs",
    26: "broadcast queue contents differ", 27: "events differ", 28: "Members() differs", 29: "virtual clock differs", 30: "panic outcome differs",
    100: "call panicked",
    110: "C01: a stale/weaker claim changed state, fired an event or was re-gossiped",
    111: "C01: a member's (incarnation, state) key regressed without a legitimate reclaim",
    112: "C01/C03: reaping (resetNodes at the wrap of the probe cursor) removed a record that is not an old dead/left one",
    120: "C02: running node does not list itself alive (or own record ahead of the local incarnation)",
    121: "C02: refutation does not outrank the accusation", 122: "C02: no alive broadcast carrying the new incarnation", 123: "C02: health score not raised by the refutation",
    130: "C07: replaying the events does not give Members()", 131: "C07: join/leave/update grammar broken", 132: "C07: callbacks overlapped (or a member joined twice under concurrent claims)",
    133: "C07: an event read from the library's ChannelEventDelegate after later changes no longer shows the member, address and metadata it had when it fired (the queued event aliases the live record)",
    140: "C08: a left member came back without a newer incarnation", 141: "C08: address of a live/suspect/recently-dead member changed",
    142: "C08: conflicting address claim was not (only) reported to the conflict delegate", 143: "C08: name of a left/reclaimable member could not be reused from a new address",
    144: "C08: Leave did not record the node as left", 145: "C08: departure broadcast is not the node's own leave message",
    146: "C08: the leaver queued an alive message newer than its departure",
    147: "C01/C08: an accepted departure/death was not recorded at its incarnation and state (left vs failed)",
    148: "C08: Leave returned without error while it listed a peer that is neither dead nor gone and its departure had not been handed out to a single packet",
    150: "C18: record with an address outside the allow-list", 151: "C18: alive from a disallowed source had an effect",
    152: "C18: event announced an address outside the allow-list", 153: "C18: Members() lists an address outside the allow-list",
    160: "C06: suspicion timer registered iff suspect is broken", 161: "C06: declared dead before the minimum / still suspect after the maximum timeout",
    162: "C06: declared dead earlier than the confirmation schedule allows (accuser / duplicate / stale timer counted)",
    163: "C06: a refutation accepted between the timeout's check and its death claim did not keep the peer",
    66: "a claim processed between the two halves of the suspicion timeout: outcome differs from the model (timer_fire check; claim; do_dead at the checked incarnation)",
    170: "C09: a peer's dead/suspect hearsay removed a member directly",
}
FAMILIES["core"] = {
    "name": "core", "props": ["C01", "C02", "C07", "C08", "C18", "C06", "C09", "C03"], "models": "Core.v",
    "harness": COMMON + ["zz_vf_core_test.go"], "test": "TestVfCore",
    "n": {"quick": 1200, "thorough": 80000},
    "codes": [(100, 109, ["C01", "C02", "C07", "C08", "C18", "C20"]), (110, 111, ["C01"]), (112, 112, ["C01", "C03"]), (113, 119, ["C01"]), (120, 129, ["C02"]), (130, 139, ["C07"]),
              (140, 146, ["C08"]), (147, 147, ["C08", "C01"]), (148, 149, ["C08"]), (150, 159, ["C18"]), (160, 169, ["C06"]), (170, 179, ["C09"])],
    "code_names": CORE_NAMES,
    "assumptions": ["suspicionTimeout / remainingSuspicionTime (float64 log) enter the model as the values the real functions returned (table per case, n <= 10 nodes)",
                    "allow-list membership of the test addresses is computed by the harness with net.IPNet.Contains, independently of Config.IPAllowed",
                    "one operation = one nodeLock critical section; no alive delegate configured"],
}

FAMILIES["susp"] = {
    "name": "susp", "props": ["C06"], "models": "Susp.v",
    "harness": COMMON + ["zz_vf_susp_test.go"], "test": "TestVfSusp",
    "n": {"quick": 600, "thorough": 150000},
    "codes": [(160, 169, ["C06"])],
    "code_names": {1: "undecodable case", 40: "Confirm results differ", 41: "firing instant differs",
                   164: "C06: schedule table leaves [min,max], is not non-increasing, or T(k) != min (float formula / clamp)",
                   165: "C06: timer fired outside [start+min, start+max] (or never)", 166: "C06: more than k confirmations accepted",
                   167: "C06: the accuser's own confirmation was counted", 168: "C06: a confirmer was counted twice",
                   169: "C06: with k < 1 the minimum timeout was not used"},
    "assumptions": ["remainingSuspicionTime (float64 log) enters the model as the table the real function returned for the case's (k,min,max); T_ok is evaluated on it",
                    "confirmation instants never coincide with a deadline (odd nanosecond offsets): equal-instant ordering is scheduler dependent"],
}

FAMILIES["keyring"] = {
    "name": "keyring", "props": ["C17"], "models": "Keyring.v",
    "harness": COMMON + ["zz_vf_keyring_test.go"], "test": "TestVfKeyring",
    "n": {"quick": 1500, "thorough": 150000},
    "codes": [(180, 189, ["C17"])],
    "code_names": {1: "undecodable case", 50: "call result (ok/error/panic) differs", 51: "returned key list / primary differs",
                   52: "content of a previously returned key list differs", 53: "NewKeyring outcome differs",
                   180: "C17: keyring call panicked", 181: "C17: a key list previously returned by GetKeys was altered by a later call",
                   182: "C17: duplicate key installed", 183: "C17: invalid-length key installed or accepted"},
    "assumptions": ["AES-GCM (crypto/cipher) is Go's; the rotation scenario uses the real encryptPayload/decryptPayload",
                    "the data race between GetKeys users and RemoveKey is a runtime notion; its logical effect (aliasing) is what is modelled"],
}

FAMILIES["wire"] = {
    "name": "wire", "props": ["C11", "C12", "C13", "C14", "C15", "C16"], "models": "Wire.v, Label.v",
    "harness": COMMON + ["zz_vf_wire_test.go", "zz_vf_sites_test.go"], "test": "TestVfWire",
    "n": {"quick": 120, "thorough": 2500}, "no_shrink": True,
    "env": {"VF_SHARD": "150"},
    "codes": [(200, 209, ["C12"]), (210, 219, ["C15"]), (220, 229, ["C16"]), (230, 239, ["C14"]), (240, 249, ["C13"]), (250, 259, ["C11"])],
    "code_names": {1: "undecodable case", 40: "bytes handed to the transport differ from the model's framing", 41: "messages handed to the handlers differ",
                   42: "model rejected the packet", 43: "panic outcome differs",
                   200: "C12: the receiver did not recover exactly the sender's message(s)",
                   210: "C15: packet does not open under the primary key with the label as associated data", 211: "C15: message bytes visible in clear on the wire",
                   221: "C16: a packet carrying the receiver's own label was not accepted", 220: "C16: a packet carrying another label (or a label header while the check is delegated) was acted on",
                   230: "C14: tampered/foreign traffic was acted on with a plaintext different from the original",
                   233: "C14: a copy with the version byte flipped was acted on although its padding is not well-formed under the other version", 231: "C14: version byte of genuine ciphertext flipped: a different plaintext was accepted",
                   232: "C14: traffic sealed under another label (associated data) was acted on",
                   234: "C14: traffic sealed under a key that is not installed when it arrives (never installed, or removed since, however often it had been added) was acted on",
                   241: "C13: a hand-off queue grew beyond HandoffQueueDepth", 240: "C13: packet path panicked",
                   250: "C11: assembled packet larger than the configured packet size", 251: "C11: receiver did not unpack exactly the piggy-backed messages"},
    "assumptions": ["AES-GCM open/seal results and LZW (de)compression enter the model as tables computed with the Go standard library / the package helpers for the bytes of each case",
                    "msgpack bodies are opaque bytes on the packet path",
                    "inline handlers (ping, indirect ping, ack, nack) are observed through their effects (reply sent, handler invoked), not their bodies"],
}

FAMILIES["stream"] = {
    "name": "stream", "props": ["C09", "C12", "C13", "C14", "C15", "C16"], "models": "Stream.v, VerifyProto.v, Label.v",
    "harness": COMMON + ["zz_vf_wire_test.go", "zz_vf_sites_test.go", "zz_vf_stream_test.go"], "test": "TestVfStream",
    "n": {"quick": 5, "thorough": 120}, "no_shrink": True,
    "env": {"VF_SHARD": "600"},
    "codes": [(300, 300, ["C09"]), (301, 301, ["C12"]), (302, 305, ["C13"]), (306, 306, ["C14"]), (307, 309, ["C16"]),
              (310, 329, ["C09"]), (330, 339, ["C15"]), (340, 344, ["C13"]), (345, 349, ["C16"])],
    "code_names": {1: "undecodable case", 60: "stream acted on although the framing layer yields no message", 61: "verifyProtocol result differs from the model",
                   62: "bytes written to the stream differ from the model's framing", 63: "panic outcome differs",
                   300: "C09: a state exchange cut before its end changed the receiving side",
                   301: "C12: the peer did not recover the complete message / state / payload from the stream",
                   313: "C09: a side that vetoed / could not verify the exchange still handed the peer's application state to its delegate", 314: "C09: an exchange carrying another label changed the receiving side", 302: "C13: stream handler panicked", 303: "C13: undecodable stream changed membership", 304: "C13: connection left open (or the handler was still blocked on a stalled peer after TCPTimeout)",
                   305: "C13: declared size beyond the cap was not refused before reading the data",
                   306: "C14: tampered / foreign-key / removed-key stream had an effect", 307: "C16: stream carrying another label had an effect or got a reply",
                   308: "C16: a correctly labelled stream was not accepted (label header fragmented across reads)",
                   309: "C16: adding the stream label header and removing it again did not give back the label and the payload (some fragmentation / read size)",
                   65: "RemoveLabelHeaderFromStream differs from the Label model",
                   345: "C16: with several labelled streams open at once (every header removed before the rest is read), a stream did not give back its own label and payload",
                   318: "C09: a compressed state exchange that inflates beyond the decompression cap changed the receiving side (merged / handed to a delegate)",
                   341: "C13: while refusing a compressed stream that inflates far beyond the decompression cap the receiver allocated more than six times the cap (the data was inflated and buffered before the cap was applied)",
                   340: "C13: a compressed stream inflating beyond the decompression cap was processed instead of being refused at the cap",
                   310: "C09: Join reported success but joiner and host do not list each other (and the host's members)",
                   311: "C09: host-side veto / incompatibility: Join succeeded one-sidedly (host replied before verifying and merging)",
                   312: "C09: failed Join changed the joiner's membership",
                   315: "C09: an exchange that fails authentication (tampered, foreign / removed key, or sent in clear to a node that authenticates) changed the receiving side",
                   316: "C09: a periodic push/pull between nodes whose version ranges do not overlap changed a side",
                   317: "C09: a periodic push/pull succeeded but the two sides do not list each other's members",
                   64: "a periodic push/pull between compatible nodes failed",
                   320: "C09: verifyProtocol differs from the range-intersection specification",
                   330: "C15: stream write does not open under the primary key with encryptMsg|length|label as associated data", 331: "C15: payload bytes visible in clear on the stream"},
    "assumptions": ["the msgpack layer below the framing (headers, node states) is not modelled: its effects are observed on the real nodes",
                    "AES-GCM results enter the model as tables computed with the Go standard library"],
}

FAMILIES["probe"] = {
    "name": "probe", "props": ["C19", "C03", "C13"], "models": "Probe.v",
    "harness": COMMON + ["zz_vf_wire_test.go", "zz_vf_sites_test.go", "zz_vf_probe_test.go"], "test": "TestVfProbe",
    "n": {"quick": 800, "thorough": 150000}, "no_shrink": True,
    "codes": [(400, 407, ["C19"]), (408, 408, ["C19", "C13"]), (409, 409, ["C03", "C19"]), (410, 411, ["C13", "C19"])],
    "code_names": {1: "undecodable case",
                   400: "C19: health score left [0, max-1]", 401: "C19: pending-probe record still registered after its deadline",
                   402: "C19: probe verdict differs from 'a matching ack arrived before the deadline (or the TCP fallback round-tripped)'",
                   403: "C19: health score moved by another amount than the probe outcome prescribes",
                   404: "C19: relayed ack does not carry the requester's sequence number", 405: "C19: relay reused the requester's sequence number",
                   406: "C19: relay sent more than one ack / nack, or both", 407: "C19: relay outcome differs from the model",
                   408: "C19: an ack / nack for a number nobody awaits a nack for made the packet handler panic",
                   409: "C03/C19: one probe kept the sequential probe loop busy for longer than its awareness-scaled interval (a dial / wait that ignores the probe deadline)",
                   410: "C13/C19: after the acks / nacks of the case the packet listener no longer takes packets (a ping put on the packet channel got no ack: a handler blocked the listener for good)",
                   411: "C13/C19: Shutdown of the node did not return"},
    "assumptions": ["arrivals never coincide with the probe timeout or deadline (odd microsecond offsets): equal-instant ordering is scheduler dependent",
                    "random peer selection (kRandomNodes) enters through what the transport observed"],
}

FAMILIES["life"] = {
    "name": "life", "props": ["C20"], "models": "Lifecycle.v, Core.v",
    "harness": COMMON + ["zz_vf_wire_test.go", "zz_vf_sites_test.go", "zz_vf_life_test.go"], "test": "TestVfLife",
    "n": {"quick": 600, "thorough": 60000},
    "codes": [(500, 509, ["C20"])],
    "code_names": {1: "undecodable case", 70: "panic outcome differs from the lifecycle model",
                   500: "C20: a public call panicked", 501: "C20: Leave / UpdateNode / another call blocked past its timeout",
                   502: "C20: the network was used after Shutdown had returned", 503: "C20: background activity continued after Shutdown",
                   504: "C20: Shutdown is not idempotent: the transport was shut down more than once",
                   505: "C20: Leave is not idempotent: after a Leave that returned nil a later Leave returned an error"},
    "assumptions": ["data races, deadlocks and goroutine termination are runtime behaviours: observed (bubble exit, -race stress in the thorough tier), not proved",
                    "the real-socket half of 'nothing reaches the network after Shutdown' uses loopback sockets outside the virtual-time bubble"],
}

FAMILIES["cluster"] = {
    "name": "cluster", "props": ["C03", "C04", "C05"], "models": "Cursor.v (probe schedule); detection bound of Cursor_proofs.v",
    "harness": COMMON + ["zz_vf_cluster_test.go"], "test": "TestVfCluster",
    "n": {"quick": 24, "thorough": 1200},
    "no_shrink": True, "env": {"VF_SHARD": "6", "VF_INSTR": "1"},
    "overlay_extra": lambda workdir: instr.instrument(REPO, workdir),
    "codes": [(520, 529, ["C05"]), (530, 539, ["C03"]), (540, 549, ["C04"])],
    "code_names": {1: "undecodable case", 2: "recorded suspicionTimeout is not what util.go computes",
                   60: "probe cursor: the next probe differs from the Cursor model (stable membership)",
                   61: "probe cursor: the node list was reordered without a wrap", 62: "probe cursor: the model selects nobody but the implementation probed",
                   63: "a node's linearised operation log (instrumented aliveNode / suspectNode / deadNode / resetNodes of a simulated cluster) replayed through Core.step does not give the node's records",
                   520: "C05: views did not converge within the settling time although the fresh-alive graph was connected when faults stopped",
                   522: "C05: a node holds a record of a member at an incarnation above every counter that member ever reached (C05_claims_below_owner / C05_claims_below_history)",
                   523: "C05: a stream write to an unresponsive host was still blocked long after every deadline (the periodic push/pull goroutine of that node is stuck: its anti-entropy has stopped)",
                   536: "C03: a stream write to an unresponsive host was still blocked long after every deadline (the probe's TCP fallback never returns: that node's failure detector has stopped)",
                   524: "C05: a member that a node held (alive or Suspect) throughout two passes of its probe cursor was not probed in the second: a suspected member is no longer pinged, so it is never handed the suspicion and its refutation has no acknowledgement to ride on",
                   521: "C05: views did not converge; the live nodes were connected through member lists but not through fresh Alive records (D-C05)",
                   530: "C03: a survivor that listed the crashed member delivered no leave event within the bound",
                   531: "C03: a survivor still lists the crashed member at the end",
                   532: "C03: a node probed itself", 533: "C03: a node probed a peer it held Dead/Left",
                   534: "C03: a peer that was live throughout two passes of the probe cursor was not probed in the second",
                   535: "C03: a pass over a stable member list did not probe every live peer exactly once",
                   546: "C04: while membership claims were being applied, a worker answering pings / reading the broadcast queue / reading the member list never came back (lock-order inversion: the packet listener of a healthy member wedges and it stops acknowledging probes)",
                   540: "C04: a suspect/dead accusation was put on the wire in a healthy cluster",
                   541: "C04: a leave event fired for a member that had not left",
                   542: "C04: a health score left zero", 545: "C04: a member that a node already held as departed re-entered its view", 543: "C04: a node held a responsive member Suspect/Dead (a leaver may only be held Left)"},
    "assumptions": ["goroutine scheduling inside a virtual instant, ticker behaviour and the Go timers are the runtime's: observed in virtual time, not proved",
                    "the simulated network (latency bound, loss, duplication, partitions, stream cuts) is the harness's; the real UDP/TCP transport is not exercised here",
                    "convergence for every schedule is not a theorem: peer selection is random in the code; the settling time is observed"],
}

FAMILIES["liferace"] = {
    "name": "liferace", "props": ["C20"], "models": "(none: runtime behaviour)", "tiers": ["thorough"],
    "harness": COMMON + ["zz_vf_wire_test.go", "zz_vf_sites_test.go", "zz_vf_life_test.go"], "test": "TestVfLifeRace",
    "goflags": ["-race"], "env": {"VF_RACE": "1", "VF_RACE_SECONDS": "60"},
    "n": {"quick": 0, "thorough": 0}, "no_shrink": True,
    "codes": [], "code_names": {},
    "assumptions": ["data races are observed with the Go race detector on randomly interleaved public calls from six goroutines against the background activity (60 s), not proved"],
}

FAMILIES["heal"] = {
    "name": "heal", "props": ["C05"], "models": "Exchange.v (merge_all / pushpull over Core.step)",
    "harness": COMMON + ["zz_vf_heal_test.go"], "test": "TestVfHeal",
    "n": {"quick": 400, "thorough": 20000}, "no_shrink": False,
    "codes": [(560, 569, ["C05"])],
    "code_names": {1: "undecodable case", 58: "a push/pull between two running nodes returned an error",
                   59: "records before the exchanges differ from the model (Core.run of the driving calls)",
                   60: "records after the first push/pull differ from the Exchange model",
                   61: "records after the second push/pull differ from the Exchange model",
                   560: "C05: after two complete push/pull exchanges a running node is not listed alive with its current address and metadata by its peer (C05_two_exchanges_heal on the implementation's records)",
                   561: "C05: a running node does not list itself alive with its own address and metadata after merging a peer's state"},
    "assumptions": ["the two exchanges run back to back with nothing else happening (no timer fires, no probe): the theorem is about the exchange itself",
                    "snapshot entries are merged in the sender's list order in the model and in the order of the sender's node list in the code; the compared records do not depend on it"],
}

# a property may be served by several families (run in order); the first is its primary one
PROPS = {}
for f, d in sorted(FAMILIES.items(), key=lambda kv: 0 if kv[0] in ("susp", "queue", "wire", "stream") else 1):
    for p in d["props"]:
        PROPS.setdefault(p, []).append(f)
PRIMARY = {"C06": "susp", "C09": "stream"}
