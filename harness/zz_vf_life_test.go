//go:build verif

package memberlist

// C20 harness: random sequences of public API calls and background steps on a real node
// (Create, background tickers running) through every lifecycle stage in virtual time; each call
// under recover() with its duration measured; everything the transport is asked to do after
// Shutdown returned is counted; the bubble must be able to exit (no goroutine left blocked).
// A second scenario uses the default NetTransport on real loopback sockets: after Shutdown
// returned, stream dials must be refused.  Thorough tier: the same sequences from several
// goroutines at once under the race detector.

import (
	"fmt"
	"net"
	"runtime"
	"strings"
	"sync"
	"sync/atomic"
	"testing"
	"testing/synctest"
	"time"
)

type vlTr struct {
	*vwTap
	m      *Memberlist
	after  atomic.Int64
	dials  atomic.Int64
	closed atomic.Bool
	// when set, Shutdown reports that it was entered and stays inside until released: a real transport
	// takes a while to tear down (it waits for its listener goroutines)
	entered chan struct{}
	gate    chan struct{}
	// a listener goroutine is blocked handing a datagram to the node (unbuffered channel, as in NetTransport)
	inflight bool
	// Shutdown closes the transport but reports an error (a user-supplied transport may; the node must still shut down)
	failShutdown bool
	shutCalls    atomic.Int64
}

func (t *vlTr) WriteTo(b []byte, a string) (time.Time, error) {
	if t.closed.Load() {
		t.after.Add(1)
	}
	return time.Now(), nil
}
func (t *vlTr) WriteToAddress(b []byte, a Address) (time.Time, error) { return t.WriteTo(b, a.Addr) }
func (t *vlTr) DialAddressTimeout(a Address, d time.Duration) (net.Conn, error) {
	if t.closed.Load() {
		t.dials.Add(1)
	}
	return nil, fmt.Errorf("no route")
}
func (t *vlTr) DialTimeout(a string, d time.Duration) (net.Conn, error) {
	return t.DialAddressTimeout(Address{Addr: a}, d)
}
func (t *vlTr) Shutdown() error {
	t.shutCalls.Add(1)
	if t.failShutdown {
		t.closed.Store(true)
		return fmt.Errorf("transport: listener did not stop cleanly")
	}
	if t.gate != nil {
		select {
		case t.entered <- struct{}{}:
		default:
		}
		<-t.gate
	}
	if t.inflight {
		t.inflight = false
		handed := make(chan struct{})
		go func() {
			t.vwTap.pk <- &Packet{Buf: []byte{byte(pingMsg)}, From: &net.UDPAddr{IP: net.IP{10, 0, 0, 1}, Port: 7946}, Timestamp: time.Now()}
			close(handed)
		}()
		<-handed // wg.Wait() on the listener
	}
	t.closed.Store(true)
	return nil
}

type vlDrain struct{ m **Memberlist }

func (d vlDrain) NotifyJoin(*Node)   {}
func (d vlDrain) NotifyUpdate(*Node) {}
func (d vlDrain) NotifyLeave(n *Node) {
	// the departure was queued just before this callback: hand it out until the queue reports it
	// finished, as a fast gossip round would between deadNode() and Leave()'s wait
	if m := *d.m; m != nil && n.Name == "self" {
		for i := 0; i < 64 && m.broadcasts.NumQueued() > 0; i++ {
			m.broadcasts.GetBroadcasts(0, 1400)
		}
	}
}

var vlNames = []string{"Members", "NumMembers", "LocalNode", "UpdateNode", "Leave", "Shutdown", "Health", "SendBestEffort", "SendReliable", "Ping", "Join", "Advance", "Reap"}

func vlName(op int64) string {
	switch op {
	case 27:
		return "LeaveLong"
	case 28:
		return "LeaveNoTimeout"
	}
	return vlNames[op]
}

// vlLeave: the three ways Leave is called: a short timeout, one long enough for the departure to be transmitted to
// a live peer by the gossip rounds, and no timeout.  limit = the time after which the call is given up on.
func vlLeave(op int64) (timeout, limit time.Duration, ok bool) {
	switch op {
	case 4:
		return 300 * time.Millisecond, 5 * time.Second, true
	case 27:
		return 10 * time.Second, 15 * time.Second, true
	case 28:
		return 0, time.Minute, true
	}
	return 0, 0, false
}

// the error returned is Leave's (every other call: nil)
func vlCall(m *Memberlist, op int64) error {
	peer := &Node{Name: "p1", Addr: []byte{10, 0, 0, 1}, Port: 7946}
	switch op {
	case 0:
		_ = m.Members()
	case 1:
		_ = m.NumMembers()
	case 2:
		_ = m.LocalNode().Name
	case 3:
		_ = m.UpdateNode(300 * time.Millisecond)
	case 4, 27, 28:
		d, _, _ := vlLeave(op)
		return m.Leave(d)
	case 5:
		_ = m.Shutdown()
	case 6:
		_ = m.GetHealthScore()
	case 7:
		_ = m.SendBestEffort(peer, []byte("x"))
	case 8:
		_ = m.SendReliable(peer, []byte("x"))
	case 9:
		_, _ = m.Ping("p1", &net.UDPAddr{IP: net.IP{10, 0, 0, 1}, Port: 7946})
	case 10:
		_, _ = m.Join([]string{"10.0.0.1:7946"})
	case 11:
		time.Sleep(31 * time.Second)
	case 12:
		m.resetNodes()
	}
	return nil
}

func vlRun(t *testing.T, c *vfCase, st *vfStats) {
	conf := DefaultLANConfig()
	conf.Name = "self"
	tr := &vlTr{vwTap: newVwTap()}
	tr.failShutdown = len(c.Cfg) > 1 && c.Cfg[1] == 1
	conf.Transport = tr
	conf.Logger = vwDiscard
	conf.GossipToTheDeadTime = 5 * time.Second
	conf.ProbeInterval = 200 * time.Millisecond
	conf.ProbeTimeout = 50 * time.Millisecond
	conf.Delegate = &vwUser{}
	var mp *Memberlist
	if len(c.Ops) > 0 && c.Ops[0][0] == 20 {
		tr.entered, tr.gate = make(chan struct{}, 1), make(chan struct{})
	}
	if len(c.Ops) > 0 && c.Ops[0][0] == 21 {
		conf.Events = vlDrain{&mp}
		conf.GossipInterval = time.Hour
	}
	if len(c.Ops) > 0 && (c.Ops[0][0] == 26 || c.Ops[0][0] == 29) {
		conf.GossipInterval = time.Hour
	}
	m, err := Create(conf)
	if err != nil {
		t.Fatal(err)
	}
	mp = m
	if c.Cfg[0] != 0 {
		m.aliveNode(&alive{Incarnation: 1, Node: "p1", Addr: []byte{10, 0, 0, 1}, Port: 7946, Vsn: []uint8{1, 5, 2, 0, 0, 0}}, nil, false)
	}
	c.Obs = nil
	shut := false
	if len(c.Ops) > 0 && c.Ops[0][0] == 20 {
		// two Shutdown calls overlapping: the second arrives while the first is inside the transport
		// teardown.  Runs in real time (a goroutine waiting for a mutex is not durably blocked, so a
		// synctest bubble cannot host this).
		var pan atomic.Bool
		var wg sync.WaitGroup
		call := func() {
			defer wg.Done()
			defer func() {
				if recover() != nil {
					pan.Store(true)
				}
			}()
			_ = m.Shutdown()
		}
		wg.Add(2)
		go call()
		<-tr.entered
		go call()
		time.Sleep(20 * time.Millisecond)
		close(tr.gate)
		wg.Wait()
		c.Obs = append(c.Obs, []int64{vwBool(pan.Load()), 0, 0}, []int64{0, 0, 0})
		st.Ops++
		st.OpHist["concurrent_shutdown"]++
		return
	}
	if len(c.Ops) > 0 && c.Ops[0][0] == 21 {
		// Leave with no timeout while the departure is transmitted completely before Leave starts waiting
		done := make(chan struct{})
		go func() { _ = m.Leave(0); close(done) }()
		time.Sleep(30 * time.Second)
		synctest.Wait()
		stuck := true
		select {
		case <-done:
			stuck = false
		default:
		}
		c.Obs = append(c.Obs, []int64{0, vwBool(stuck), 0}, []int64{0, 0, 0})
		st.Ops++
		st.OpHist["leave_signal"]++
		if stuck {
			// release the goroutine so that the bubble can end
			select {
			case m.leaveBroadcast <- struct{}{}:
			default:
			}
		}
		m.Shutdown()
		time.Sleep(time.Minute)
		return
	}
	if len(c.Ops) > 0 && (c.Ops[0][0] == 22 || c.Ops[0][0] == 23) {
		// every other member has left gracefully (its record is Left, not yet reaped): UpdateNode / Leave with
		// no timeout have nobody to wait for and must return
		m.deadNode(&dead{Incarnation: 1, Node: "p1", From: "p1"})
		done := make(chan struct{})
		go func() {
			if c.Ops[0][0] == 22 {
				_ = m.UpdateNode(0)
			} else {
				_ = m.Leave(0)
			}
			close(done)
		}()
		time.Sleep(30 * time.Second)
		synctest.Wait()
		stuck := true
		select {
		case <-done:
			stuck = false
		default:
		}
		c.Obs = append(c.Obs, []int64{0, vwBool(stuck), 0}, []int64{0, 0, 0})
		st.Ops++
		st.OpHist["all_peers_left"]++
		if stuck {
			// release the caller so that the bubble can end
			m.broadcasts.Reset()
			select {
			case m.leaveBroadcast <- struct{}{}:
			default:
			}
		}
		synctest.Wait()
		m.Shutdown()
		time.Sleep(time.Minute)
		return
	}
	if len(c.Ops) > 0 && c.Ops[0][0] == 25 {
		// readers and writers of the node table at the same time, in real time: UpdateNode from four goroutines while four
		// others feed claims that take the write lock.  Nothing may wedge.
		var wg sync.WaitGroup
		stop := make(chan struct{})
		for g := 0; g < 4; g++ {
			wg.Add(2)
			go func() {
				defer wg.Done()
				for i := 0; i < 150; i++ {
					_ = m.UpdateNode(time.Millisecond)
				}
			}()
			go func(g int) {
				defer wg.Done()
				for i := 0; ; i++ {
					select {
					case <-stop:
						return
					default:
					}
					m.suspectNode(&suspect{Incarnation: 1, Node: fmt.Sprintf("nobody%d", g), From: "x"})
					m.deadNode(&dead{Incarnation: 1, Node: fmt.Sprintf("nobody%d", g), From: "x"})
				}
			}(g)
		}
		done := make(chan struct{})
		go func() { wg.Wait(); close(done) }()
		go func() { time.Sleep(1500 * time.Millisecond); close(stop) }()
		stuck := false
		select {
		case <-done:
		case <-time.After(6 * time.Second):
			stuck = true
		}
		c.Obs = append(c.Obs, []int64{0, vwBool(stuck), 0}, []int64{0, 0, 0})
		st.Ops++
		st.OpHist["readers_and_writers"]++
		if !stuck {
			m.Shutdown()
		}
		return
	}
	if len(c.Ops) > 0 && c.Ops[0][0] == 26 {
		// Shutdown from another goroutine while Leave is waiting for its departure to go out (real time: mutexes).
		// Shutdown must not wait for Leave, and Leave must be back by its timeout.
		leaveDone, shutDone := make(chan struct{}), make(chan struct{})
		var pan atomic.Bool
		guard := func(f func(), done chan struct{}) {
			defer close(done)
			defer func() {
				if recover() != nil {
					pan.Store(true)
				}
			}()
			f()
		}
		go guard(func() { _ = m.Leave(1500 * time.Millisecond) }, leaveDone)
		for i := 0; i < 200 && !m.hasLeft(); i++ {
			time.Sleep(time.Millisecond)
		}
		time.Sleep(50 * time.Millisecond)
		t0 := time.Now()
		go guard(func() { _ = m.Shutdown() }, shutDone)
		stuck := false
		select {
		case <-shutDone:
		case <-time.After(700 * time.Millisecond):
			stuck = true
		}
		select {
		case <-leaveDone:
		case <-time.After(1500*time.Millisecond + time.Second - time.Since(t0)):
			stuck = true
		}
		c.Obs = append(c.Obs, []int64{vwBool(pan.Load()), vwBool(stuck), 0}, []int64{0, 0, 0})
		st.Ops++
		st.OpHist["shutdown_during_leave"]++
		if !stuck {
			<-shutDone
		}
		return
	}
	if len(c.Ops) > 0 && c.Ops[0][0] == 29 {
		// Leave from another goroutine while UpdateNode is still waiting for its announcement to go out (nobody
		// transmits: gossip is off).  Leave must be back by its own timeout, whatever UpdateNode is doing (real time).
		updDone, leaveDone := make(chan struct{}), make(chan struct{})
		var pan atomic.Bool
		guard := func(f func(), done chan struct{}) {
			defer close(done)
			defer func() {
				if recover() != nil {
					pan.Store(true)
				}
			}()
			f()
		}
		go guard(func() { _ = m.UpdateNode(2 * time.Second) }, updDone)
		time.Sleep(50 * time.Millisecond)
		go guard(func() { _ = m.Leave(300 * time.Millisecond) }, leaveDone)
		stuck := false
		select {
		case <-leaveDone:
		case <-time.After(time.Second):
			stuck = true
		}
		select {
		case <-updDone:
		case <-time.After(4 * time.Second):
			stuck = true
		}
		if stuck {
			select {
			case <-leaveDone:
			case <-time.After(4 * time.Second):
			}
		}
		c.Obs = append(c.Obs, []int64{vwBool(pan.Load()), vwBool(stuck), 0}, []int64{0, 0, 0})
		st.Ops++
		st.OpHist["leave_during_updatenode"]++
		m.Shutdown()
		return
	}
	if len(c.Ops) > 0 && c.Ops[0][0] == 24 {
		// Shutdown while the transport's listener is handing a datagram over: the transport is torn down first
		// and waits for its listener, which needs the node's packet loop to still be taking packets
		tr.inflight = true
		done := make(chan struct{})
		go func() { _ = m.Shutdown(); close(done) }()
		time.Sleep(30 * time.Second)
		synctest.Wait()
		stuck := true
		select {
		case <-done:
			stuck = false
		default:
		}
		c.Obs = append(c.Obs, []int64{0, vwBool(stuck), 0}, []int64{0, 0, 0})
		st.Ops++
		st.OpHist["shutdown_with_packet_in_flight"]++
		if stuck {
			select {
			case <-tr.vwTap.pk:
			default:
			}
		}
		synctest.Wait()
		time.Sleep(time.Minute)
		return
	}
	leftOK := false // a Leave has returned nil
	for _, op := range c.Ops {
		if op[0] == 5 {
			shut = true
		}
		t0 := time.Now()
		pan, stuck := false, false
		var lerr error
		a0, d0 := tr.after.Load(), tr.dials.Load()
		call := func() {
			defer func() {
				if recover() != nil {
					pan = true
				}
			}()
			lerr = vlCall(m, op[0])
		}
		if _, limit, isLeave := vlLeave(op[0]); isLeave {
			// a Leave that never comes back must be reported, not hang the run: it is given up on after a
			// (virtual) while and its caller is then let go so that the bubble can end
			done := make(chan struct{})
			go func() { defer close(done); call() }()
			select {
			case <-done:
			case <-time.After(limit):
				stuck = true
				select {
				case m.leaveBroadcast <- struct{}{}:
				default:
				}
				<-done
				pan, lerr = false, nil
			}
		} else {
			call()
		}
		dur := time.Since(t0)
		slow := stuck || (op[0] != 11 && op[0] != 27 && op[0] != 28 && dur > time.Second) || (op[0] == 27 && dur > 11*time.Second)
		net := tr.after.Load() != a0 || tr.dials.Load() != d0
		// a caller may still TRY to send after Shutdown: refusing is the (closed) transport's job, which the
		// real-socket scenario checks; what must not happen is background activity (final observation)
		_ = net
		if _, _, isLeave := vlLeave(op[0]); isLeave && !pan && !stuck {
			if leftOK && m.anyAlive() {
				st.ObsHist["leave_again_after_a_completed_leave_with_a_live_peer"]++
			}
			if leftOK && lerr != nil {
				st.ObsHist["leave_failed_after_a_completed_leave"]++
			}
			leftOK = leftOK || lerr == nil
		}
		c.Obs = append(c.Obs, []int64{vwBool(pan), vwBool(slow), 0, vwBool(lerr != nil)})
		st.Ops++
		st.OpHist[vlName(op[0])]++
		if pan {
			st.Panics++
		}
		st.class(fmt.Sprintf("%d|%v|%v|%v|%v", op[0], pan, slow, shut, m.hasLeft()))
		if stuck {
			// the call was forced back: nothing after it says anything about the library
			break
		}
		if pan {
			// a panic inside the library may have left a lock held: nothing after it can be trusted (or may return)
			break
		}
	}
	if !shut {
		m.Shutdown()
	}
	// all background activity must end within one awareness-scaled probe interval
	a1 := tr.after.Load()
	time.Sleep(time.Duration(conf.AwarenessMaxMultiplier) * conf.ProbeInterval)
	synctest.Wait()
	a2 := tr.after.Load()
	// ... including the node's own long-running loops (tickers, listeners, hand-off handler)
	gleft := vlLoops(m)
	time.Sleep(10 * time.Minute)
	synctest.Wait()
	late := tr.after.Load() - a2
	_ = a1
	extra := tr.shutCalls.Load() - 1
	if extra < 0 {
		extra = 0
	}
	c.Obs = append(c.Obs, []int64{gleft, late, 0, extra})
	if !m.hasShutdown() {
		// Shutdown returned without shutting the node down: stop it now so that the bubble can end
		tr.failShutdown = false
		m.Shutdown()
		time.Sleep(time.Minute)
	}
}

func vlGen(r *vfRng) vfCase {
	c := vfCase{Cfg: []int64{int64(r.n(2)), vwBool(r.chance(25))}}
	n := 4 + r.n(12)
	shut := false
	for i := 0; i < n; i++ {
		op := int64(r.n(13))
		if r.chance(20) {
			op = int64(r.pick([]int{4, 11, 12, 2, 3})) // steer towards left-and-reaped
		}
		if op == 4 && r.chance(30) {
			op = int64(r.pick([]int{27, 28})) // a Leave that can wait until its departure has gone out
		}
		if (op == 4 || op == 27 || op == 28) && shut {
			continue // documented to panic
		}
		if op == 5 {
			shut = true
		}
		c.Ops = append(c.Ops, []int64{op})
	}
	return c
}

// real sockets: after Shutdown returned, the default transport must refuse to dial
func vlRealSockets(st *vfStats) {
	mk := func(name string) (*Memberlist, *vwUser) {
		c := DefaultLocalConfig()
		c.Name = name
		c.BindAddr = "127.0.0.1"
		c.BindPort = 0
		c.Logger = vwDiscard
		d := &vwUser{}
		c.Delegate = d
		m, err := Create(c)
		if err != nil {
			st.Extra["realsocket_setup_failed"] = err.Error()
			return nil, nil
		}
		return m, d
	}
	m1, _ := mk("s1")
	m2, d2 := mk("s2")
	if m1 == nil || m2 == nil {
		return
	}
	defer m2.Shutdown()
	addr := fmt.Sprintf("127.0.0.1:%d", m2.config.BindPort)
	if _, err := m1.Join([]string{addr}); err != nil {
		st.Extra["realsocket_setup_failed"] = err.Error()
		m1.Shutdown()
		return
	}
	m1.Shutdown()
	d2.mu.Lock()
	before := len(d2.got)
	d2.mu.Unlock()
	// what an in-flight background goroutine or a late caller would do right after Shutdown returned
	err1 := m1.pushPullNode(Address{Addr: addr, Name: "s2"}, false)
	err2 := m1.SendReliable(m2.LocalNode(), []byte("after-shutdown"))
	time.Sleep(200 * time.Millisecond)
	d2.mu.Lock()
	delivered := len(d2.got) - before
	d2.mu.Unlock()
	st.Extra["realsocket_after_shutdown"] = fmt.Sprintf("pushPull err=%v sendReliable err=%v delivered=%d", err1, err2, delivered)
	if err1 == nil || err2 == nil || delivered != 0 {
		st.Extra["oracle_dial_after_shutdown"] = fmt.Sprintf("after Shutdown returned: pushPullNode err=%v, SendReliable err=%v, %d message(s) reached the peer", err1, err2, delivered)
	}
}

// goroutines still inside one of THIS node's long-running loops (the receiver pointer is the first argument shown
// in a stack trace)
func vlLoops(m *Memberlist) int64 {
	buf := make([]byte, 1<<20)
	buf = buf[:runtime.Stack(buf, true)]
	n := int64(0)
	for _, g := range strings.Split(string(buf), "\n\n") {
		for _, f := range []string{"(*Memberlist).triggerFunc", "(*Memberlist).pushPullTrigger", "(*Memberlist).packetListen", "(*Memberlist).streamListen", "(*Memberlist).packetHandler"} {
			if strings.Contains(g, fmt.Sprintf("%s(%p", f, m)) {
				n++
				break
			}
		}
	}
	return n
}

func TestVfLife(t *testing.T) {
	st := vfNewStats("life")
	st.Rule = "random sequences of Members/NumMembers/LocalNode/UpdateNode/Leave (300 ms, 10 s or no timeout; given up on after a virtual while)/Shutdown/GetHealthScore/SendBestEffort/SendReliable/Ping/Join plus time advances past GossipToTheDeadTime and reaping passes, steered towards the left-and-reaped stage, on a node created with Create (tickers running) in virtual time; Leave after Shutdown excluded (documented panic); plus Leave repeated after a Leave that completed towards a live peer; plus one real-socket scenario for dials after Shutdown; distinct = distinct (call, panicked, overran, shut down, left) tuples"
	cases, replay, err := vfLoadCases()
	if err != nil {
		t.Fatal(err)
	}
	if !replay {
		cases = vfLoadCorpus()
		r := &vfRng{s: vfSeed()*2654435761 + 80}
		n := vfEnvInt("VF_N", 600)
		for i := 0; i < n; i++ {
			cases = append(cases, vlGen(r))
		}
		for i := 0; i < 5; i++ {
			cases = append(cases, vfCase{Cfg: []int64{1}, Ops: [][]int64{{20}}}, vfCase{Cfg: []int64{1}, Ops: [][]int64{{21}}})
			if i < 2 {
				cases = append(cases, vfCase{Cfg: []int64{1}, Ops: [][]int64{{22}}}, vfCase{Cfg: []int64{1}, Ops: [][]int64{{23}}}, vfCase{Cfg: []int64{1}, Ops: [][]int64{{24}}})
			}
			if i == 0 {
				cases = append(cases, vfCase{Cfg: []int64{1}, Ops: [][]int64{{25}}}, vfCase{Cfg: []int64{1}, Ops: [][]int64{{26}}}, vfCase{Cfg: []int64{1}, Ops: [][]int64{{29}}})
			}
			if i < 2 {
				// Leave again after a Leave that completed (its departure was transmitted to a live peer by the
				// node's own gossip rounds): with a timeout, with none, with other calls in between
				for _, again := range [][][]int64{{{4}}, {{28}}, {{27}}, {{3}, {0}, {4}, {28}}, {{2}, {28}, {4}}} {
					cases = append(cases, vfCase{Cfg: []int64{1, 0}, Ops: append([][]int64{{27}}, again...)})
				}
			}
		}
		vlRealSockets(st)
	}
	for i := range cases {
		if len(cases[i].Ops) > 0 && (cases[i].Ops[0][0] == 20 || cases[i].Ops[0][0] == 25 || cases[i].Ops[0][0] == 26 || cases[i].Ops[0][0] == 29) {
			vlRun(t, &cases[i], st)
			continue
		}
		synctest.Test(t, func(t *testing.T) { vlRun(t, &cases[i], st) })
	}
	if err := vfEmit(st, cases, "From VF Require Import Raw LifeCheck.", "LifeCheck.check_case", true); err != nil {
		t.Fatal(err)
	}
}

// thorough tier, run with -race: the same calls from several goroutines against the background activity
func TestVfLifeRace(t *testing.T) {
	if vfEnvInt("VF_RACE", 0) == 0 {
		t.Skip("race stress only in the thorough tier")
	}
	r := &vfRng{s: vfSeed()*97 + 81}
	deadline := time.Now().Add(time.Duration(vfEnvInt("VF_RACE_SECONDS", 20)) * time.Second)
	rounds := 0
	for time.Now().Before(deadline) {
		conf := DefaultLANConfig()
		conf.Name = "self"
		conf.Transport = &vlTr{vwTap: newVwTap()}
		conf.Logger = vwDiscard
		conf.GossipToTheDeadTime = 20 * time.Millisecond
		conf.ProbeInterval = 5 * time.Millisecond
		conf.ProbeTimeout = 2 * time.Millisecond
		conf.GossipInterval = 2 * time.Millisecond
		conf.Delegate = &vwUser{}
		m, err := Create(conf)
		if err != nil {
			t.Fatal(err)
		}
		m.aliveNode(&alive{Incarnation: 1, Node: "p1", Addr: []byte{10, 0, 0, 1}, Port: 7946, Vsn: []uint8{1, 5, 2, 0, 0, 0}}, nil, false)
		var wg sync.WaitGroup
		var shut atomic.Bool
		var leaveMu sync.Mutex
		for g := 0; g < 6; g++ {
			seed := r.next()
			wg.Add(1)
			go func() {
				defer wg.Done()
				rr := &vfRng{s: seed}
				for i := 0; i < 40; i++ {
					op := int64(rr.n(13))
					switch op {
					case 11:
						time.Sleep(time.Millisecond)
					case 4:
						// Leave after Shutdown is documented to panic: callers must order them
						leaveMu.Lock()
						if !shut.Load() {
							_ = m.Leave(5 * time.Millisecond)
						}
						leaveMu.Unlock()
					case 5:
						leaveMu.Lock()
						shut.Store(true)
						_ = m.Shutdown()
						leaveMu.Unlock()
					case 3:
						_ = m.UpdateNode(5 * time.Millisecond)
					default:
						vlCall(m, op)
					}
				}
			}()
		}
		wg.Wait()
		m.Shutdown()
		rounds++
	}
	st := vfNewStats("liferace")
	st.Rule = "rounds of 6 goroutines x 40 random public calls each against a running node with 2-5 ms protocol intervals, under go test -race"
	st.Ops = rounds * 240
	st.OpHist["rounds"] = rounds
	if err := vfEmit(st, nil, "From VF Require Import Raw LifeCheck.", "LifeCheck.check_case", true); err != nil {
		t.Fatal(err)
	}
}
