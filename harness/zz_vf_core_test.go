//go:build verif

package memberlist

// Core harness (C01, C02, C07, C08, C18, parts of C06/C09): drives the REAL
// aliveNode / suspectNode / deadNode / mergeState / handleAlive / resetNodes /
// Leave / UpdateNode of one node inside a synctest bubble (virtual time, real
// suspicion timers) and records the whole observable node state after every
// operation.  Internal surface used: newMemberlist, setAlive, aliveNode,
// suspectNode, deadNode, mergeState, handleAlive, resetNodes, nodeMap,
// nodeTimers, incarnation, leave, numNodes, broadcasts.tm, awareness.

import (
	"sync"
	"sync/atomic"
	"bytes"
	"fmt"
	"io"
	"log"
	"net"
	"os"
	"sort"
	"testing"
	"testing/synctest"
	"time"
)

// ---- transport that swallows everything ----
type vcTr struct {
	pk chan *Packet
	st chan net.Conn
}

func (t *vcTr) FinalAdvertiseAddr(string, int) (net.IP, int, error) {
	return net.IP{10, 0, 0, 100}, 7946, nil
}
func (t *vcTr) WriteTo(b []byte, a string) (time.Time, error) { return time.Now(), nil }
func (t *vcTr) WriteToAddress(b []byte, a Address) (time.Time, error) {
	return time.Now(), nil
}
func (t *vcTr) PacketCh() <-chan *Packet { return t.pk }
func (t *vcTr) DialTimeout(a string, d time.Duration) (net.Conn, error) {
	return nil, fmt.Errorf("no route")
}
func (t *vcTr) DialAddressTimeout(a Address, d time.Duration) (net.Conn, error) {
	return nil, fmt.Errorf("no route")
}
func (t *vcTr) StreamCh() <-chan net.Conn { return t.st }
func (t *vcTr) Shutdown() error           { return nil }

var vcNames = []string{"self", "n1", "n2", "n3", "n4"}
var vcAddrs = []net.IP{
	{10, 0, 0, 100}, {10, 0, 0, 1}, {10, 0, 0, 2}, {192, 168, 0, 9},
	net.ParseIP("::ffff:10.0.0.3"), net.ParseIP("fe80::1"),
	// the same hosts on another port: a different address
	{10, 0, 0, 1}, {10, 0, 0, 2},
	// a genuine IPv6 address that merely ends in the bytes of 10.0.0.1
	net.ParseIP("2001:db8::a00:1"),
	// no address at all (the field absent on the wire): inside no network
	nil,
}
var vcPorts = []uint16{7946, 7946, 7946, 7946, 7946, 7946, 7947, 9000, 7946, 7946}

// source-only addresses (handleAlive `from`): ids continue after vcAddrs
var vcSrcExtra = []string{"[fe80::dead:beef%eth0]:7946", "not-an-ip:7946"}
var vcMetas = []string{"", "a", "b", "cc"}
var vcVsns = [][]uint8{nil, {1, 5, 2}, {1, 5, 2, 0, 0, 0}, {0, 5, 2, 0, 0, 0}, {1, 5, 3, 0, 0, 0}, {2, 5, 2, 1, 1, 1}, {6, 5, 2, 0, 0, 0}, {1, 5, 2, 0, 0, 0, 9}}

type vcAddr string

func (a vcAddr) Network() string { return "udp" }
func (a vcAddr) String() string  { return string(a) }

func vcAddrID(ip net.IP, port uint16) int64 {
	for i, a := range vcAddrs {
		if a.Equal(ip) && len(a) == len(ip) && port == vcPorts[i] {
			return int64(i)
		}
	}
	for i, a := range vcAddrs {
		if a.Equal(ip) && port == vcPorts[i] {
			return int64(i)
		}
	}
	return 900 + int64(port%50)
}
func vcNameID(s string) int64 {
	for i, n := range vcNames {
		if n == s {
			return int64(i)
		}
	}
	return 999
}
func vcMetaID(b []byte) int64 {
	for i, n := range vcMetas {
		if n == string(b) {
			return int64(i)
		}
	}
	return 999
}

type vcDelegate struct{ meta []byte }

func (d *vcDelegate) NodeMeta(limit int) []byte                  { return d.meta }
func (d *vcDelegate) NotifyMsg([]byte)                           {}
func (d *vcDelegate) GetBroadcasts(overhead, limit int) [][]byte { return nil }
func (d *vcDelegate) LocalState(join bool) []byte                { return nil }
func (d *vcDelegate) MergeRemoteState(buf []byte, join bool)     {}

type vcEvents struct {
	ev    [][]int64
	depth int
	conc  bool
	// every join / leave / update is also handed to the library's own ChannelEventDelegate (a buffered channel
	// that is drained only when the case is over) and remembered as it was when it fired
	fwd  *ChannelEventDelegate
	sent [][]int64
}

func (e *vcEvents) add(kind int64, n *Node) {
	e.depth++
	if e.depth > 1 {
		e.conc = true
	}
	v := []int64{kind, vcNameID(n.Name), vcAddrID(n.Addr, n.Port), vcMetaID(n.Meta)}
	e.ev = append(e.ev, v)
	if e.fwd != nil && len(e.sent) < cap(e.fwd.Ch)-1 {
		e.sent = append(e.sent, v)
		switch kind {
		case 0:
			e.fwd.NotifyJoin(n)
		case 1:
			e.fwd.NotifyLeave(n)
		case 2:
			e.fwd.NotifyUpdate(n)
		}
	}
	e.depth--
}
func (e *vcEvents) NotifyJoin(n *Node)   { e.add(0, n) }
func (e *vcEvents) NotifyLeave(n *Node)  { e.add(1, n) }
func (e *vcEvents) NotifyUpdate(n *Node) { e.add(2, n) }
func (e *vcEvents) NotifyConflict(a, b *Node) {
	e.ev = append(e.ev, []int64{3, vcNameID(a.Name), vcAddrID(a.Addr, a.Port), vcAddrID(b.Addr, b.Port)})
}

// cfg vector: see vcGenCfg
type vcCfg struct {
	reclaimMs, gtdMs, mult, intervalMs, maxMult, awMax int64
	conflict                                          bool
	cidr                                              int64
	bootMeta                                          int64
}

func vcIndepAllowed(nets []net.IPNet, ip net.IP) bool {
	for _, n := range nets {
		if n.Contains(ip) {
			return true
		}
	}
	return false
}

func vcRun(t *testing.T, c *vfCase, st *vfStats) {
	cfgv := c.Cfg
	cc := vcCfg{cfgv[0], cfgv[1], cfgv[2], cfgv[3], cfgv[4], cfgv[5], cfgv[6] != 0, cfgv[7], cfgv[8]}
	conf := DefaultLANConfig()
	conf.Name = "self"
	conf.Transport = &vcTr{make(chan *Packet), make(chan net.Conn)}
	conf.Logger = log.New(io.Discard, "", 0)
	evCh := make(chan NodeEvent, 1024)
	ev := &vcEvents{fwd: &ChannelEventDelegate{Ch: evCh}}
	conf.Events = ev
	if cc.conflict {
		conf.Conflict = ev
	}
	del := &vcDelegate{meta: []byte(vcMetas[cc.bootMeta])}
	conf.Delegate = del
	conf.DeadNodeReclaimTime = time.Duration(cc.reclaimMs) * time.Millisecond
	conf.GossipToTheDeadTime = time.Duration(cc.gtdMs) * time.Millisecond
	conf.SuspicionMult = int(cc.mult)
	conf.ProbeInterval = time.Duration(cc.intervalMs) * time.Millisecond
	conf.SuspicionMaxTimeoutMult = int(cc.maxMult)
	conf.AwarenessMaxMultiplier = int(cc.awMax)
	var nets []net.IPNet
	switch cc.cidr {
	case 1:
		nets, _ = ParseCIDRs([]string{"10.0.0.0/8"})
		conf.CIDRsAllowed = nets
	case 2:
		// prefixes that end inside a byte: 10.0.0.2 and ::ffff:10.0.0.3 share three whole bytes with the
		// second network but are outside it
		nets, _ = ParseCIDRs([]string{"10.0.0.100/32", "10.0.0.0/31", "fe80::/9"})
		conf.CIDRsAllowed = nets
	}
	m, err := newMemberlist(conf)
	if err != nil {
		t.Fatal(err)
	}
	t0 := time.Now()
	if err := m.setAlive(); err != nil {
		t.Fatal(err)
	}
	// ---- oracle values for the model (recorded from the code under test) ----
	smin := suspicionTimeout(conf.SuspicionMult, 1, conf.ProbeInterval)
	for n := 0; n <= 10; n++ {
		if suspicionTimeout(conf.SuspicionMult, n, conf.ProbeInterval) != smin {
			st.Extra["smin_not_constant"] = true
		}
	}
	k := conf.SuspicionMult - 2
	smax := time.Duration(conf.SuspicionMaxTimeoutMult) * smin
	full := append([]int64{}, cfgv[:9]...)
	vsn := conf.BuildVsnArray()
	for _, v := range vsn {
		full = append(full, int64(v))
	}
	var allowed []int64
	for i, a := range vcAddrs {
		if cc.cidr == 0 || vcIndepAllowed(nets, a) {
			allowed = append(allowed, int64(i))
		}
	}
	full = append(full, int64(len(allowed)))
	full = append(full, allowed...)
	full = append(full, int64(smin))
	if k < 0 {
		full = append(full, 0)
	} else {
		full = append(full, int64(k+1))
		for n := 0; n <= k; n++ {
			full = append(full, int64(remainingSuspicionTime(int32(n), int32(k), 0, smin, smax)))
		}
	}
	c.Cfg = full
	c.Obs = nil
	snapshot := func(pan bool) []int64 {
		o := []int64{0}
		if pan {
			o[0] = 1
		}
		lv := int64(0)
		if m.hasLeft() {
			lv = 1
		}
		o = append(o, int64(m.incarnation.Load()), lv, int64(m.GetHealthScore()), int64(m.estNumNodes()))
		m.nodeLock.RLock()
		var names []string
		for n := range m.nodeMap {
			names = append(names, n)
		}
		sort.Slice(names, func(i, j int) bool { return vcNameID(names[i]) < vcNameID(names[j]) })
		o = append(o, int64(len(names)))
		for _, n := range names {
			s := m.nodeMap[n]
			since := int64(0)
			if !s.StateChange.IsZero() {
				since = 1 + int64(s.StateChange.Sub(t0))
			}
			tm := int64(0)
			if _, ok := m.nodeTimers[n]; ok {
				tm = 1
			}
			o = append(o, vcNameID(n), int64(s.Incarnation), int64(s.State), vcAddrID(s.Addr, s.Port), vcMetaID(s.Meta),
				int64(s.PMin), int64(s.PMax), int64(s.PCur), int64(s.DMin), int64(s.DMax), int64(s.DCur), since, tm)
		}
		orphanTimers := int64(0)
		for n := range m.nodeTimers {
			if _, ok := m.nodeMap[n]; !ok {
				orphanTimers++
			}
		}
		m.nodeLock.RUnlock()
		o = append(o, orphanTimers)
		// broadcast queue content by key
		type be struct {
			key int64
			v   []int64
		}
		var bes []be
		m.broadcasts.mu.Lock()
		for key, lb := range m.broadcasts.tm {
			msg := lb.b.Message()
			var kid int64
			if id := vcNameID(key); id != 999 {
				kid = 2 * id
			} else if ip := net.ParseIP(key); ip != nil {
				kid = 2*vcAddrID(ip, 7946) + 1
			} else {
				kid = 1999
			}
			v := []int64{kid, int64(msg[0])}
			switch messageType(msg[0]) {
			case aliveMsg:
				var a alive
				if decode(msg[1:], &a) == nil {
					v = append(v, int64(a.Incarnation), vcNameID(a.Node), vcAddrID(a.Addr, a.Port), vcMetaID(a.Meta), int64(len(a.Vsn)))
					for i := 0; i < 7; i++ {
						if i < len(a.Vsn) {
							v = append(v, int64(a.Vsn[i]))
						} else {
							v = append(v, 0)
						}
					}
				}
			case suspectMsg:
				var s suspect
				if decode(msg[1:], &s) == nil {
					v = append(v, int64(s.Incarnation), vcNameID(s.Node), vcNameID(s.From))
				}
			case deadMsg:
				var d dead
				if decode(msg[1:], &d) == nil {
					v = append(v, int64(d.Incarnation), vcNameID(d.Node), vcNameID(d.From))
				}
			}
			for len(v) < 14 {
				v = append(v, 0)
			}
			bes = append(bes, be{kid, v})
		}
		nq := m.broadcasts.lenLocked()
		m.broadcasts.mu.Unlock()
		sort.Slice(bes, func(i, j int) bool { return bes[i].key < bes[j].key })
		o = append(o, int64(len(bes)))
		for _, b := range bes {
			o = append(o, b.v...)
		}
		o = append(o, int64(nq))
		// events of this step
		o = append(o, int64(len(ev.ev)))
		for _, e := range ev.ev {
			o = append(o, e...)
		}
		ev.ev = nil
		// Members()
		mem := m.Members()
		sort.Slice(mem, func(i, j int) bool { return vcNameID(mem[i].Name) < vcNameID(mem[j].Name) })
		o = append(o, int64(len(mem)))
		for _, n := range mem {
			o = append(o, vcNameID(n.Name), vcAddrID(n.Addr, n.Port), vcMetaID(n.Meta))
		}
		// elapsed virtual time (ns) since the case started
		o = append(o, int64(time.Since(t0)))
		if ev.conc {
			o = append(o, 1)
		} else {
			o = append(o, 0)
		}
		return o
	}
	// observation 0: the state after boot
	c.Obs = append(c.Obs, snapshot(false))
	srcOf := func(id int64) net.Addr {
		if int(id) < len(vcAddrs) {
			return vcAddr(net.JoinHostPort(vcAddrs[id].String(), fmt.Sprint(vcPorts[id])))
		}
		return vcAddr(vcSrcExtra[(int(id)-len(vcAddrs))%len(vcSrcExtra)])
	}
	leaveInc := int64(-1)
	for _, op := range c.Ops {
		panicked := false
		leaveBad := false
		func() {
			defer func() {
				if p := recover(); p != nil {
					panicked = true
				}
			}()
			switch op[0] {
			case 0:
				if op[6] != 0 {
					// a bootstrap announcement is only ever made by the node about itself with
					// the incarnation it has just drawn (setAlive / UpdateNode second half)
					op[1], op[2] = int64(m.incarnation.Load()), 0
				}
				a := alive{Incarnation: uint32(op[1]), Node: vcNames[op[2]], Addr: vcAddrs[op[3]], Port: vcPorts[op[3]], Meta: []byte(vcMetas[op[4]]), Vsn: vcVsns[op[5]]}
				m.aliveNode(&a, nil, op[6] != 0)
				st.OpHist["alive"]++
			case 1:
				a := alive{Incarnation: uint32(op[2]), Node: vcNames[op[3]], Addr: vcAddrs[op[4]], Port: vcPorts[op[4]], Meta: []byte(vcMetas[op[5]]), Vsn: vcVsns[op[6]]}
				buf, err := encode(aliveMsg, &a, false)
				if err != nil {
					t.Fatal(err)
				}
				m.handleAlive(buf.Bytes()[1:], srcOf(op[1]))
				st.OpHist["handleAlive"]++
			case 2:
				m.suspectNode(&suspect{Incarnation: uint32(op[1]), Node: vcNames[op[2]], From: vcNames[op[3]]})
				st.OpHist["suspect"]++
			case 3:
				m.deadNode(&dead{Incarnation: uint32(op[1]), Node: vcNames[op[2]], From: vcNames[op[3]]})
				st.OpHist["dead"]++
			case 4:
				m.mergeState([]pushNodeState{{Name: vcNames[op[3]], Addr: vcAddrs[op[4]], Port: vcPorts[op[4]], Meta: []byte(vcMetas[op[5]]),
					Incarnation: uint32(op[2]), State: NodeStateType(op[1]), Vsn: vcVsns[op[6]]}})
				st.OpHist["merge"]++
			case 5:
				time.Sleep(time.Duration(op[1])*time.Millisecond + 1)
				st.OpHist["advance"]++
			case 6:
				m.resetNodes()
				st.OpHist["reap"]++
			case 7:
				// first half of Leave: set the flag, read the own incarnation under the lock
				if !m.hasLeft() {
					m.leave.Store(1)
					m.nodeLock.Lock()
					if s, ok := m.nodeMap["self"]; ok {
						leaveInc = int64(s.Incarnation)
					}
					m.nodeLock.Unlock()
				}
				st.OpHist["leaveBegin"]++
			case 8:
				// second half of Leave: the incarnation was read in the first half
				if leaveInc >= 0 {
					op[1] = leaveInc
				}
				m.deadNode(&dead{Incarnation: uint32(op[1]), Node: "self", From: "self"})
				st.OpHist["leaveCommit"]++
			case 9:
				m.nextIncarnation()
				st.OpHist["incBegin"]++
			case 10:
				wasLeft := m.hasLeft()
				err := m.Leave(time.Millisecond)
				st.OpHist["leave"]++
				if err == nil && !wasLeft {
					// Leave reported success: if it lists a peer that is neither dead nor gone, the departure must have
					// been handed out to a packet at least once (nobody transmits in this harness, so it cannot have been)
					peer := false
					m.nodeLock.RLock()
					for _, n := range m.nodes {
						if n.Name != "self" && !n.DeadOrLeft() {
							peer = true
						}
					}
					m.nodeLock.RUnlock()
					unsent := false
					m.broadcasts.mu.Lock()
					if lb, ok := m.broadcasts.tm["self"]; ok && lb.transmits == 0 {
						if msg := lb.b.Message(); len(msg) > 0 && messageType(msg[0]) == deadMsg {
							unsent = true
						}
					}
					m.broadcasts.mu.Unlock()
					leaveBad = peer && unsent
				}
			case 11:
				del.meta = []byte(vcMetas[op[1]])
				m.UpdateNode(time.Millisecond)
				st.OpHist["update"]++
			case 13:
				// the application's metadata changes; it has not (yet) called UpdateNode: nothing may change
				del.meta = []byte(vcMetas[op[1]])
				st.OpHist["metaPending"]++
			case 12:
				// the application shuts the node down; claims already on their way, timers and reaping go on
				m.Shutdown()
				st.OpHist["shutdown"]++
			}
		}()
		synctest.Wait()
		o := snapshot(panicked)
		if leaveBad {
			o[len(o)-1] |= 4
		}
		c.Obs = append(c.Obs, o)
		st.Ops++
		if panicked {
			st.Panics++
			break
		}
	}
	// what a consumer of the library's channel delegate reads, long after the events fired, must be what each
	// event carried when it fired (kind, member, address, metadata)
	chanBad := false
	for _, want := range ev.sent {
		select {
		case e := <-evCh:
			if e.Node == nil || int64(e.Event) != want[0] || vcNameID(e.Node.Name) != want[1] || vcAddrID(e.Node.Addr, e.Node.Port) != want[2] || vcMetaID(e.Node.Meta) != want[3] {
				chanBad = true
			}
		default:
			chanBad = true
		}
	}
	if chanBad && len(c.Obs) > 0 {
		last := c.Obs[len(c.Obs)-1]
		last[len(last)-1] |= 2
	}
	// classes for the distinct-nontrivial count: (op kind, record-set change, #events)
	for i, op := range c.Ops {
		if i+1 < len(c.Obs) {
			a, b := c.Obs[i], c.Obs[i+1]
			changed := !vcSame(a, b)
			st.class(fmt.Sprintf("%d|%v|%d|%d", op[0], changed, len(b), b[3]))
			if changed {
				st.ObsHist["state_changed"]++
			} else {
				st.ObsHist["noop"]++
			}
		}
	}
	m.Shutdown()
	time.Sleep(3 * time.Hour) // let every pending suspicion timer fire inside the bubble
}

func vcSame(a, b []int64) bool {
	// ignore the trailing elapsed-time and concurrency fields
	if len(a) != len(b) {
		return false
	}
	return len(a) >= 2 && bytes.Equal(vcBytes(a[:len(a)-2]), vcBytes(b[:len(b)-2]))
}
func vcBytes(v []int64) []byte {
	b := make([]byte, 0, len(v)*8)
	for _, x := range v {
		for i := 0; i < 8; i++ {
			b = append(b, byte(x>>(8*uint(i))))
		}
	}
	return b
}

var vcIncs = []int64{0, 1, 2, 3, 4, 1 << 31, 1<<32 - 2, 1<<32 - 1}

func vcGen(r *vfRng) vfCase {
	c := vfCase{}
	reclaim := int64(r.pick([]int{0, 5000, 500000}))
	gtd := int64(r.pick([]int{30000, 30000, 8000}))
	mult := int64(r.pick([]int{4, 4, 3, 5, 2}))
	maxMult := int64(r.pick([]int{6, 2, 1}))
	awMax := int64(r.pick([]int{8, 8, 2}))
	conflict, cidr := int64(1), int64(0)
	if r.chance(20) {
		conflict = 0
	}
	if r.chance(40) {
		cidr = 1 + int64(r.n(2))
	}
	c.Cfg = []int64{reclaim, gtd, mult, 1000, maxMult, awMax, conflict, cidr, int64(r.n(2))}
	n := 6 + r.n(14)
	// half of the histories start with a small population of live members, so that
	// suspicion timers get k > 0 and later claims meet non-trivial prior views
	if r.chance(50) {
		for nm := 1; nm <= 2+r.n(3); nm++ {
			c.Ops = append(c.Ops, []int64{0, 1 + int64(r.n(2)), int64(nm), 1 + int64(r.n(2)), int64(r.n(len(vcMetas))), 2, 0})
		}
		if r.chance(50) {
			// a suspicion that is allowed to age
			nm := int64(1 + r.n(3))
			c.Ops = append(c.Ops, []int64{2, 1 + int64(r.n(2)), nm, int64(1 + r.n(4))})
			c.Ops = append(c.Ops, []int64{5, int64(r.pick([]int{1000, 2500, 4500, 7000, 9000}))})
			if r.chance(60) {
				c.Ops = append(c.Ops, []int64{0, 3 + int64(r.n(2)), nm, int64(r.n(len(vcAddrs))), int64(r.n(len(vcMetas))), 2, 0})
			}
		}
	}
	down := false
	for i := 0; i < n; i++ {
		name := int64(r.n(len(vcNames)))
		if r.chance(25) {
			name = 0
		}
		if !down && i > n/2 && r.chance(4) {
			// Shutdown in mid-history: what follows are claims still being processed, timers and reaping
			c.Ops = append(c.Ops, []int64{12})
			down = true
			continue
		}
		inc := vcIncs[r.n(5)]
		if r.chance(6) {
			inc = vcIncs[r.n(len(vcIncs))]
		}
		from := int64(r.n(len(vcNames)))
		var ai int64
		if name == 0 {
			ai = 0
			if r.chance(20) {
				ai = int64(r.n(len(vcAddrs)))
			}
		} else {
			ai = 1 + int64(r.n(2))
			if r.chance(25) {
				ai = int64(r.n(len(vcAddrs)))
			}
		}
		meta := int64(r.n(len(vcMetas)))
		vk := int64(2)
		if r.chance(30) {
			vk = int64(r.n(len(vcVsns)))
		}
		p := r.n(100)
		if r.chance(3) {
			c.Ops = append(c.Ops, []int64{13, meta})
			continue
		}
		if down && p >= 90 {
			p = 73 + p%13 // after Shutdown: no further API calls (Leave after Shutdown is documented to panic)
		}
		switch {
		case p < 26:
			b := int64(0)
			if r.chance(4) {
				b = 1
			}
			c.Ops = append(c.Ops, []int64{0, inc, name, ai, meta, vk, b})
		case p < 32:
			src := int64(r.n(len(vcAddrs) + len(vcSrcExtra)))
			c.Ops = append(c.Ops, []int64{1, src, inc, name, ai, meta, vk})
		case p < 50:
			c.Ops = append(c.Ops, []int64{2, inc, name, from})
		case p < 63:
			if r.chance(35) {
				from = name
			}
			c.Ops = append(c.Ops, []int64{3, inc, name, from})
		case p < 73:
			c.Ops = append(c.Ops, []int64{4, int64(r.n(4)), inc, name, ai, meta, vk})
		case p < 86:
			c.Ops = append(c.Ops, []int64{5, int64(r.pick([]int{1, 500, 1000, 2500, 4000, 4500, 7000, 9000, 12500, 31000, 601000}))})
		case p < 90:
			c.Ops = append(c.Ops, []int64{6})
		case p < 91:
			c.Ops = append(c.Ops, []int64{7})
		case p < 93:
			c.Ops = append(c.Ops, []int64{8, inc})
		case p < 94:
			c.Ops = append(c.Ops, []int64{9})
		case p < 96:
			c.Ops = append(c.Ops, []int64{10})
		default:
			c.Ops = append(c.Ops, []int64{11, meta})
		}
	}
	if cidr != 0 && r.chance(50) {
		// several alive messages from one sender in a row (the parts of one compound packet): each is vetted on its own
		src := int64(r.n(len(vcAddrs) + len(vcSrcExtra)))
		for k, nb := 0, 2+r.n(2); k < nb; k++ {
			c.Ops = append(c.Ops, []int64{1, src, vcIncs[3+r.n(2)], int64(1 + r.n(len(vcNames)-1)), 1 + int64(r.n(2)), int64(r.n(len(vcMetas))), 2})
		}
	}
	return c
}

// two goroutines in real time (a goroutine waiting for a mutex is not durably blocked, so no bubble): the first
// makes the node deliver a leave event whose callback is slow, the second meanwhile feeds a claim that
// produces another event.  Observation: did a callback start while another was running?
type vcSlowEvents struct {
	depth   atomic.Int32
	overlap atomic.Bool
	entered chan struct{}
	joinsC  atomic.Int32
}

// an alive delegate that takes its time (the library calls it while deciding about an alive claim)
type vcSlowAlive struct{}

func (vcSlowAlive) NotifyAlive(n *Node) error {
	if n.Name == "c" {
		time.Sleep(30 * time.Millisecond)
	}
	return nil
}

func (e *vcSlowEvents) enter(slow bool) {
	if e.depth.Add(1) > 1 {
		e.overlap.Store(true)
	}
	if slow {
		select {
		case e.entered <- struct{}{}:
		default:
		}
		time.Sleep(40 * time.Millisecond)
	}
	e.depth.Add(-1)
}
func (e *vcSlowEvents) NotifyJoin(n *Node) {
	if n.Name == "c" {
		e.joinsC.Add(1)
	}
	e.enter(false)
}
func (e *vcSlowEvents) NotifyLeave(n *Node)  { e.enter(true) }
func (e *vcSlowEvents) NotifyUpdate(n *Node) { e.enter(false) }

func vcSerial(t *testing.T, c *vfCase, st *vfStats) {
	conf := DefaultLANConfig()
	conf.Name = "self"
	conf.Transport = &vcTr{make(chan *Packet), make(chan net.Conn)}
	conf.Logger = log.New(io.Discard, "", 0)
	ev := &vcSlowEvents{entered: make(chan struct{}, 1)}
	conf.Events = ev
	if c.Ops[0][0] == 3 {
		conf.Alive = vcSlowAlive{}
	}
	m, err := newMemberlist(conf)
	if err != nil {
		t.Fatal(err)
	}
	if err := m.setAlive(); err != nil {
		t.Fatal(err)
	}
	vsn := []uint8{ProtocolVersionMin, ProtocolVersionMax, ProtocolVersion2Compatible, 0, 0, 0}
	m.aliveNode(&alive{Incarnation: 1, Node: "b", Addr: []byte{10, 0, 0, 2}, Port: 7946, Vsn: vsn}, nil, false)
	var wg sync.WaitGroup
	wg.Add(2)
	go func() {
		defer wg.Done()
		switch c.Ops[0][0] {
		case 0:
			m.deadNode(&dead{Incarnation: 1, Node: "b", From: "x"})
		case 1:
			m.deadNode(&dead{Incarnation: 1, Node: "b", From: "b"})
		case 3:
			// two claims about a member nobody has seen yet, processed at the same time
			m.aliveNode(&alive{Incarnation: 1, Node: "c", Addr: []byte{10, 0, 0, 3}, Port: 7946, Vsn: vsn}, nil, false)
		default:
			m.mergeState([]pushNodeState{{Name: "b", Addr: []byte{10, 0, 0, 2}, Port: 7946, Incarnation: 1, State: StateLeft, Vsn: vsn}})
		}
	}()
	go func() {
		defer wg.Done()
		if c.Ops[0][0] != 3 {
			select {
			case <-ev.entered:
			case <-time.After(2 * time.Second):
			}
		}
		m.aliveNode(&alive{Incarnation: 1, Node: "c", Addr: []byte{10, 0, 0, 3}, Port: 7946, Vsn: vsn}, nil, false)
	}()
	wg.Wait()
	// the new member must have joined exactly once and be listed once
	nc := 0
	for _, mem := range m.Members() {
		if mem.Name == "c" {
			nc++
		}
	}
	if ev.joinsC.Load() != 1 || nc != 1 {
		ev.overlap.Store(true)
	}
	c.Obs = [][]int64{{vcB(ev.overlap.Load())}}
	st.Ops += 2
	st.OpHist["concurrent_callbacks"]++
}

// the suspicion timeout callback has two halves: it checks that the member is still suspected, releases the node
// lock, logs, and only then applies the death claim.  A claim that gets in between (here: delivered from inside
// the log call, which runs with no lock held) is processed first; the death claim is then judged against what the
// node knows by then.  k: 0 the member's refutation (alive, incarnation + 1), 1 a stale alive at the suspected
// incarnation, 2 somebody else's death claim, 3 a newer suspicion from a peer
type vcHookWriter struct {
	fired bool
	hook  func()
}

func (w *vcHookWriter) Write(p []byte) (int, error) {
	if !w.fired && bytes.Contains(p, []byte("suspect timeout reached")) {
		w.fired = true
		w.hook()
	}
	return len(p), nil
}

type vcLeaves struct{ n atomic.Int32 }

func (e *vcLeaves) NotifyJoin(*Node)   {}
func (e *vcLeaves) NotifyUpdate(*Node) {}
func (e *vcLeaves) NotifyLeave(n *Node) {
	if n.Name == "b" {
		e.n.Add(1)
	}
}

func vcSplit(t *testing.T, c *vfCase, st *vfStats) {
	conf := DefaultLANConfig()
	conf.Name = "self"
	conf.Transport = &vcTr{make(chan *Packet), make(chan net.Conn)}
	w := &vcHookWriter{}
	conf.Logger = log.New(w, "", 0)
	ev := &vcLeaves{}
	conf.Events = ev
	m, err := newMemberlist(conf)
	if err != nil {
		t.Fatal(err)
	}
	if err := m.setAlive(); err != nil {
		t.Fatal(err)
	}
	vsn := []uint8{ProtocolVersionMin, ProtocolVersionMax, ProtocolVersion2Compatible, 0, 0, 0}
	m.aliveNode(&alive{Incarnation: 1, Node: "b", Addr: []byte{10, 0, 0, 2}, Port: 7946, Vsn: vsn}, nil, false)
	w.hook = func() {
		switch c.Ops[0][0] {
		case 0:
			m.aliveNode(&alive{Incarnation: 2, Node: "b", Addr: []byte{10, 0, 0, 2}, Port: 7946, Vsn: vsn}, nil, false)
		case 1:
			m.aliveNode(&alive{Incarnation: 1, Node: "b", Addr: []byte{10, 0, 0, 2}, Port: 7946, Vsn: vsn}, nil, false)
		case 2:
			m.deadNode(&dead{Incarnation: 1, Node: "b", From: "x"})
		default:
			m.suspectNode(&suspect{Incarnation: 2, Node: "b", From: "x"})
		}
	}
	m.suspectNode(&suspect{Incarnation: 1, Node: "b", From: "self"})
	// long enough for the first timeout, not for a suspicion started from inside the hook
	time.Sleep(suspicionTimeout(conf.SuspicionMult, 2, conf.ProbeInterval) + time.Millisecond)
	synctest.Wait()
	var state, inc int64 = -1, -1
	m.nodeLock.RLock()
	if ns, ok := m.nodeMap["b"]; ok {
		state, inc = int64(ns.State), int64(ns.Incarnation)
	}
	m.nodeLock.RUnlock()
	listed := false
	for _, mem := range m.Members() {
		if mem.Name == "b" {
			listed = true
		}
	}
	c.Obs = [][]int64{{vcB(w.fired), state, inc, vcB(listed), int64(ev.n.Load())}}
	st.Ops += 3
	st.OpHist["claim_between_timeout_check_and_death_claim"]++
	m.Shutdown()
	time.Sleep(3 * time.Hour)
}

func vcB(b bool) int64 {
	if b {
		return 1
	}
	return 0
}

func TestVfCore(t *testing.T) {
	st := vfNewStats("core")
	st.Rule = "random histories of alive/handleAlive/suspect/dead/push-pull entry/advance/reap/leave(+halves)/update on one real node in a synctest bubble; small value domains (5 names, 6+2 addresses, incarnations {0..4, 2^31, 2^32-2, 2^32-1}); distinct = distinct (op kind, state changed?, observation width, health score) tuples"
	cases, replay, err := vfLoadCases()
	if err != nil {
		t.Fatal(err)
	}
	if !replay {
		cases = vfLoadCorpus()
		r := &vfRng{s: vfSeed()*104729 + 20}
		n := vfEnvInt("VF_N", 1200)
		for i := 0; i < n; i++ {
			cases = append(cases, vcGen(r))
		}
	}
	if !replay && (vfPropEnv() == "" || vfPropEnv() == "C07") {
		for k := 0; k < 4; k++ {
			cases = append(cases, vfCase{Tag: "callbacks are serialised", Cfg: []int64{99}, Ops: [][]int64{{int64(k)}}})
		}
	}
	if !replay && (vfPropEnv() == "" || vfPropEnv() == "C06") {
		for k := 0; k < 4; k++ {
			cases = append(cases, vfCase{Tag: "a claim arrives between the suspicion timeout's check and its death claim", Cfg: []int64{98}, Ops: [][]int64{{int64(k)}}})
		}
	}
	for i := range cases {
		if len(cases[i].Cfg) == 1 && cases[i].Cfg[0] == 99 {
			vcSerial(t, &cases[i], st)
			continue
		}
		if len(cases[i].Cfg) == 1 && cases[i].Cfg[0] == 98 {
			synctest.Test(t, func(t *testing.T) { vcSplit(t, &cases[i], st) })
			continue
		}
		synctest.Test(t, func(t *testing.T) { vcRun(t, &cases[i], st) })
	}
	// the property whose monitor decides (code range / 10); 0 = all
	sel := map[string]string{"C01": "11", "C02": "12", "C07": "13", "C08": "14", "C18": "15", "C06": "16", "C09": "17", "C03": "11"}[os.Getenv("VF_PROP")]
	if sel == "" {
		sel = "0"
	}
	if err := vfEmit(st, cases, "From VF Require Import Raw CoreCheck.", "check_case "+sel, true); err != nil {
		t.Fatal(err)
	}
}
