//go:build verif

// Shared helpers of the /verif correspondence harness. These files are compiled
// into package memberlist through `go test -tags verif -overlay`, never
// committed to the repository.
//
//go:debug randseednop=0
package memberlist

import (
	"bufio"
	"encoding/json"
	"fmt"
	"os"
	"sort"
	"strconv"
	"strings"
)

// ---- deterministic PRNG: every random choice of a run derives from VERIF_SEED ----
type vfRng struct{ s uint64 }

func (r *vfRng) next() uint64 {
	r.s += 0x9e3779b97f4a7c15
	z := r.s
	z = (z ^ (z >> 30)) * 0xbf58476d1ce4e5b9
	z = (z ^ (z >> 27)) * 0x94d049bb133111eb
	return z ^ (z >> 31)
}
func (r *vfRng) n(k int) int {
	if k <= 0 {
		return 0
	}
	return int(r.next() % uint64(k))
}
func (r *vfRng) pick(xs []int) int { return xs[r.n(len(xs))] }
func (r *vfRng) chance(pct int) bool { return r.n(100) < pct }

func vfEnvInt(name string, def int) int {
	if v, err := strconv.Atoi(os.Getenv(name)); err == nil {
		return v
	}
	return def
}
func vfSeed() uint64 { return uint64(vfEnvInt("VERIF_SEED", 1)) }
func vfPropEnv() string { return os.Getenv("VF_PROP") }

// signed values are written with an offset so that Coq reads them as Uint63
const vfOff = int64(1) << 62

func vfS(v int64) int64 { return v + vfOff }

// ---- cases ----
// A case is a list of operations (each a vector of non-negative int64) and,
// after running, a list of observation vectors (one per executed operation).
type vfCase struct {
	Tag string    `json:"tag,omitempty"`
	Ops [][]int64 `json:"ops"`
	Obs [][]int64 `json:"obs,omitempty"`
	// operations as the Coq model sees them (oracle values filled in while
	// running); nil means: same as Ops
	Cops [][]int64 `json:"cops,omitempty"`
	// extra per-case parameters (configuration), family specific
	Cfg []int64 `json:"cfg,omitempty"`
}

type vfStats struct {
	Family    string         `json:"family"`
	Seed      uint64         `json:"seed"`
	Cases     int            `json:"cases"`
	Ops       int            `json:"ops"`
	OpHist    map[string]int `json:"op_hist"`
	ObsHist   map[string]int `json:"obs_hist"`
	Distinct  int            `json:"distinct_nontrivial"`
	Rule      string         `json:"rule"`
	Panics    int            `json:"panics"`
	Shards    []string       `json:"shards"`
	Extra     map[string]any `json:"extra,omitempty"`
	classes   map[string]bool
}

func vfNewStats(family string) *vfStats {
	return &vfStats{Family: family, Seed: vfSeed(), OpHist: map[string]int{}, ObsHist: map[string]int{}, classes: map[string]bool{}, Extra: map[string]any{}}
}
func (s *vfStats) class(k string) { s.classes[k] = true }

func vfWriteVec(w *bufio.Writer, v []int64) {
	w.WriteString("[")
	for i, x := range v {
		if i > 0 {
			w.WriteString(";")
		}
		w.WriteString(strconv.FormatInt(x, 10))
	}
	w.WriteString("]")
}
func vfWriteVecs(w *bufio.Writer, vs [][]int64) {
	w.WriteString("[")
	for i, v := range vs {
		if i > 0 {
			w.WriteString(";")
		}
		vfWriteVec(w, v)
	}
	w.WriteString("]")
}

// vfEmit writes the cases as Coq shards (cases_<k>.v) plus cases.json and
// stats.json into VF_OUT. `header` are the Coq lines placed before the case
// list (imports); `checker` is the Coq expression of type rawcase -> verdict
// (or cfgcase -> verdict when withCfg).
func vfEmit(stats *vfStats, cases []vfCase, imports string, checker string, withCfg bool) error {
	out := os.Getenv("VF_OUT")
	if out == "" {
		return fmt.Errorf("VF_OUT not set")
	}
	if err := os.MkdirAll(out, 0o755); err != nil {
		return err
	}
	per := vfEnvInt("VF_SHARD", 400)
	stats.Cases = len(cases)
	stats.Distinct = len(stats.classes)
	for k := 0; k*per < len(cases); k++ {
		name := fmt.Sprintf("cases_%d.v", k)
		f, err := os.Create(out + "/" + name)
		if err != nil {
			return err
		}
		w := bufio.NewWriterSize(f, 1<<20)
		w.WriteString("From Coq Require Import List NArith ZArith Uint63.\nImport ListNotations.\n")
		w.WriteString(imports + "\n")
		w.WriteString("Local Open Scope uint63_scope.\n")
		if withCfg {
			w.WriteString("Definition cases : list (list int * (list (list int) * list (list int))) := [\n")
		} else {
			w.WriteString("Definition cases : list (list (list int) * list (list int)) := [\n")
		}
		hi := (k + 1) * per
		if hi > len(cases) {
			hi = len(cases)
		}
		for i := k * per; i < hi; i++ {
			if i > k*per {
				w.WriteString(";\n")
			}
			w.WriteString("(")
			if withCfg {
				vfWriteVec(w, cases[i].Cfg)
				w.WriteString(",(")
			}
			if cases[i].Cops != nil {
				vfWriteVecs(w, cases[i].Cops)
			} else {
				vfWriteVecs(w, cases[i].Ops)
			}
			w.WriteString(",")
			vfWriteVecs(w, cases[i].Obs)
			if withCfg {
				w.WriteString(")")
			}
			w.WriteString(")")
		}
		w.WriteString("].\n")
		fmt.Fprintf(w, "Definition result := Eval vm_compute in (check_all (%s) cases).\nPrint result.\n", checker)
		if err := w.Flush(); err != nil {
			return err
		}
		f.Close()
		stats.Shards = append(stats.Shards, name)
	}
	jb, _ := json.Marshal(cases)
	if err := os.WriteFile(out+"/cases.json", jb, 0o644); err != nil {
		return err
	}
	sb, _ := json.MarshalIndent(stats, "", " ")
	return os.WriteFile(out+"/stats.json", sb, 0o644)
}

// vfLoadCases reads operation-only cases for replay / shrinking (VF_IN).
func vfLoadCases() ([]vfCase, bool, error) {
	in := os.Getenv("VF_IN")
	if in == "" {
		return nil, false, nil
	}
	b, err := os.ReadFile(in)
	if err != nil {
		return nil, true, err
	}
	var cs []vfCase
	if err := json.Unmarshal(b, &cs); err != nil {
		return nil, true, err
	}
	return cs, true, nil
}

// corpus cases (VF_CORPUS = directory of *.json files each holding a list of cases) run first
func vfLoadCorpus() []vfCase {
	dir := os.Getenv("VF_CORPUS")
	if dir == "" {
		return nil
	}
	ents, err := os.ReadDir(dir)
	if err != nil {
		return nil
	}
	var names []string
	for _, e := range ents {
		if strings.HasSuffix(e.Name(), ".json") {
			names = append(names, e.Name())
		}
	}
	sort.Strings(names)
	var out []vfCase
	for _, n := range names {
		b, err := os.ReadFile(dir + "/" + n)
		if err != nil {
			continue
		}
		var cs []vfCase
		if json.Unmarshal(b, &cs) == nil {
			for i := range cs {
				if cs[i].Tag == "" {
					cs[i].Tag = "corpus:" + n
				}
				cs[i].Obs = nil
			}
			out = append(out, cs...)
		}
	}
	return out
}
