//go:build verif

package memberlist

// Packet-path harness (C11, C12, C13, C14, C15, C16): real rawSendMsgPacket / sendMsg / gossip on
// a sending node with a transport tap, real ingestPacket on a receiving node; genuine sends,
// tampered / replayed copies, hostile bytes and budget runs.  AES-GCM and LZW results needed by
// the Coq model as oracle tables are computed here with the Go standard library (crypto/cipher)
// and the package's own (de)compression helpers.
// Internal surface used: newMemberlist, rawSendMsgPacket, encodeAndSendMsg, gossip, ingestPacket,
// highPriorityMsgQueue/lowPriorityMsgQueue, ackHandlers, nodeMap, broadcasts, encode,
// makeCompoundMessage, compressPayload, decompressPayload, decodeCompoundMessage.

import (
	"os"
	"syscall"
	"bytes"
	"crypto/aes"
	"crypto/cipher"
	crand "crypto/rand"
	"fmt"
	"io"
	"log"
	"net"
	"sync"
	"testing"
	"testing/synctest"
	"time"
)

type vwTap struct {
	mu   sync.Mutex
	bufs [][]byte
	dst  []string
	pk   chan *Packet
	st   chan net.Conn
	// the next write is recorded but reported as failed with this error
	failNext error
}

func newDiscardLogger() *log.Logger { return log.New(io.Discard, "", 0) }

var vwDiscard = newDiscardLogger()

func newVwTap() *vwTap { return &vwTap{pk: make(chan *Packet), st: make(chan net.Conn)} }
func (t *vwTap) FinalAdvertiseAddr(string, int) (net.IP, int, error) {
	return net.IP{10, 0, 0, 100}, 7946, nil
}
func (t *vwTap) WriteTo(b []byte, a string) (time.Time, error) {
	t.mu.Lock()
	t.bufs = append(t.bufs, append([]byte(nil), b...))
	t.dst = append(t.dst, a)
	err := t.failNext
	t.failNext = nil
	t.mu.Unlock()
	return time.Now(), err
}
func (t *vwTap) WriteToAddress(b []byte, a Address) (time.Time, error) { return t.WriteTo(b, a.Addr) }
func (t *vwTap) PacketCh() <-chan *Packet                               { return t.pk }
func (t *vwTap) DialTimeout(a string, d time.Duration) (net.Conn, error) {
	return nil, fmt.Errorf("no route")
}
func (t *vwTap) DialAddressTimeout(a Address, d time.Duration) (net.Conn, error) {
	return nil, fmt.Errorf("no route")
}
func (t *vwTap) StreamCh() <-chan net.Conn { return t.st }
func (t *vwTap) Shutdown() error           { return nil }
func (t *vwTap) take() ([][]byte, []string) {
	t.mu.Lock()
	defer t.mu.Unlock()
	b, d := t.bufs, t.dst
	t.bufs, t.dst = nil, nil
	return b, d
}

var vwKeys = [][]byte{nil, bytes.Repeat([]byte{0x11}, 16), bytes.Repeat([]byte{0x22}, 24), bytes.Repeat([]byte{0x33}, 32), bytes.Repeat([]byte{0x44}, 16)}
var vwLabels = []string{"", "a", "blue", "blu", "blue2", string(bytes.Repeat([]byte{'L'}, 255)), "red"}

// labels that a comparison which "normalises" operator-supplied names would take for l although they are other
// labels: l with the case of its letters changed (all of them, the first, the last) and l with a blank put in
// front / behind.  A node acts on traffic carrying exactly its label, so each of them is a stranger's label.
func vwNearLabels(l string) []string {
	// the letters at positions lo..hi-1 switched to the other case
	flip := func(s string, lo, hi int) string {
		b := []byte(s)
		for i := lo; i < hi; i++ {
			switch {
			case b[i] >= 'a' && b[i] <= 'z':
				b[i] -= 'a' - 'A'
			case b[i] >= 'A' && b[i] <= 'Z':
				b[i] += 'a' - 'A'
			}
		}
		return string(b)
	}
	var cand []string
	if l != "" {
		cand = append(cand, flip(l, 0, len(l)), flip(l, 0, 1), flip(l, len(l)-1, len(l)))
	}
	cand = append(cand, l+" ", " "+l)
	seen := map[string]bool{l: true}
	var out []string
	for _, c := range cand {
		if !seen[c] && len(c) <= LabelMaxSize {
			seen[c] = true
			out = append(out, c)
		}
	}
	return out
}

type vwUser struct {
	mu   sync.Mutex
	got  [][]byte
	out  [][]byte
	sent [][]byte
}

func (d *vwUser) NodeMeta(int) []byte { return nil }
func (d *vwUser) NotifyMsg(b []byte) {
	d.mu.Lock()
	d.got = append(d.got, append([]byte(nil), b...))
	d.mu.Unlock()
}
func (d *vwUser) GetBroadcasts(overhead, limit int) [][]byte {
	var out [][]byte
	used := 0
	for len(d.out) > 0 && used+overhead+len(d.out[0]) <= limit {
		used += overhead + len(d.out[0])
		out = append(out, d.out[0])
		d.sent = append(d.sent, d.out[0])
		d.out = d.out[1:]
	}
	return out
}
func (d *vwUser) LocalState(bool) []byte        { return nil }
func (d *vwUser) MergeRemoteState([]byte, bool) {}

type vwNodeCfg struct {
	lateKeys bool // start with an empty keyring and install the keys after the node exists
	// with lateKeys: one gossip round runs while the keyring is still empty (whatever the node works out on
	// its first round must not outlive the key installation)
	gossipFirst bool
	// with lateKeys: one plaintext packet is received while the keyring is still empty
	ingestFirst bool
	depth       int // HandoffQueueDepth (0: effectively unbounded)
	secret      bool // the first key is given as Config.SecretKey instead of a keyring
	name     string
	label    string
	skip     bool
	keys     []int // ids, primary first
	vout     bool
	vin      bool
	pv       uint8
	compress bool
	udp      int
	// key history applied to the node's keyring once it exists: {0,k} AddKey, {1,k} UseKey, {2,k} RemoveKey (ids)
	keyOps [][2]int
}

func vwNode(c vwNodeCfg) (*Memberlist, *vwTap, *vwUser) {
	conf := DefaultLANConfig()
	conf.Name = c.name
	tap := newVwTap()
	conf.Transport = tap
	conf.Logger = log.New(io.Discard, "", 0)
	conf.Label = c.label
	conf.SkipInboundLabelCheck = c.skip
	var lateKeys [][]byte
	if len(c.keys) > 0 {
		var ks [][]byte
		for _, id := range c.keys {
			ks = append(ks, vwKeys[id])
		}
		if c.lateKeys {
			kr, _ := NewKeyring(nil, nil)
			conf.Keyring = kr
			lateKeys = ks
		} else if c.secret {
			conf.SecretKey = ks[0]
		} else {
			kr, err := NewKeyring(ks, ks[0])
			if err != nil {
				panic(err)
			}
			conf.Keyring = kr
		}
	}
	conf.GossipVerifyOutgoing = c.vout
	conf.GossipVerifyIncoming = c.vin
	conf.ProtocolVersion = c.pv
	conf.EnableCompression = c.compress
	conf.HandoffQueueDepth = 100000
	if c.depth > 0 {
		conf.HandoffQueueDepth = c.depth
	}
	conf.RetransmitMult = 100
	if c.udp > 0 {
		conf.UDPBufferSize = c.udp
	}
	u := &vwUser{}
	conf.Delegate = u
	m, err := newMemberlist(conf)
	if err != nil {
		panic(err)
	}
	if c.gossipFirst {
		m.gossip()
	}
	if c.ingestFirst && len(lateKeys) > 0 {
		pb, _ := encode(pingMsg, &ping{SeqNo: 1, Node: c.name}, false)
		pkt := pb.Bytes()
		if c.label != "" {
			pkt, _ = AddLabelHeaderToPacket(pkt, c.label)
		}
		m.ingestPacket(pkt, &net.UDPAddr{IP: net.IP{10, 0, 0, 9}, Port: 7946}, time.Now())
		tap.take()
	}
	for _, k := range lateKeys {
		if err := m.config.Keyring.AddKey(k); err != nil {
			panic(err)
		}
	}
	for _, op := range c.keyOps {
		// the calls' own results are the keyring family's business; what counts here is which keys traffic opens under afterwards
		switch op[0] {
		case 0:
			_ = m.config.Keyring.AddKey(vwKeys[op[1]])
		case 1:
			_ = m.config.Keyring.UseKey(vwKeys[op[1]])
		case 2:
			_ = m.config.Keyring.RemoveKey(vwKeys[op[1]])
		}
	}
	m.Shutdown() // stop the background goroutines: the node is used as a host for direct calls
	synctest.Wait() // ... and make sure they are gone before anything is fed to the node
	return m, tap, u
}

func vwB(b []byte) []int64 {
	o := make([]int64, len(b))
	for i, x := range b {
		o[i] = int64(x)
	}
	return o
}
func vwCounted(b []byte) []int64 { return append([]int64{int64(len(b))}, vwB(b)...) }
func vwInts(xs []int) []int64 {
	o := []int64{int64(len(xs))}
	for _, x := range xs {
		o = append(o, int64(x))
	}
	return o
}
func vwBool(b bool) int64 {
	if b {
		return 1
	}
	return 0
}

func vwEncVsn(pv uint8) int64 {
	if pv == 1 {
		return 0
	}
	return 1
}

// cfg vector understood by Check/WireCheck.v
func vwCfg(kind, udp int, s, r vwNodeCfg, pm int, class int) []int64 {
	v := []int64{int64(kind), 0, int64(udp), vwBool(s.skip), vwBool(r.skip), vwBool(s.vout), vwBool(r.vin), vwEncVsn(s.pv), vwBool(s.compress), 1, int64(pm), int64(class)}
	v = append(v, vwInts(s.keys)...)
	v = append(v, vwInts(r.keys)...)
	v = append(v, vwCounted([]byte(s.label))...)
	v = append(v, vwCounted([]byte(r.label))...)
	// the receiver's key history (the installed set at the time of arrival is worked out by the checker)
	v = append(v, int64(2*len(r.keyOps)))
	for _, op := range r.keyOps {
		v = append(v, int64(op[0]), int64(op[1]))
	}
	return v
}

// strip a label header without using the package's own parser
func vwStripLabel(b []byte) ([]byte, []byte) {
	if len(b) >= 2 && b[0] == 244 && int(b[1]) >= 1 && len(b) >= 2+int(b[1]) {
		return b[2+int(b[1]):], b[2 : 2+int(b[1])]
	}
	return b, nil
}

// stdlib AES-GCM open of vsn||nonce||ct under a key: oracle entry [1, key, nonce, aad, plain, ct]
func vwAeadEntry(keyID int, buf, aad []byte) ([]int64, []byte, bool) {
	if len(buf) < 1+12+16 {
		return nil, nil, false
	}
	blk, err := aes.NewCipher(vwKeys[keyID])
	if err != nil {
		return nil, nil, false
	}
	gcm, _ := cipher.NewGCM(blk)
	nonce, ct := buf[1:13], buf[13:]
	plain, err := gcm.Open(nil, nonce, ct, aad)
	if err != nil {
		return nil, nil, false
	}
	e := []int64{1, int64(keyID)}
	e = append(e, vwB(nonce)...)
	e = append(e, vwCounted(aad)...)
	e = append(e, vwCounted(plain)...)
	e = append(e, vwB(ct)...)
	return e, plain, true
}

// collect decompression oracle entries for every compress wrapper reachable by the dispatcher
func vwCollectDecomp(buf []byte, depth int, out *[][]int64) {
	if depth <= 0 || len(buf) < 1 {
		return
	}
	switch messageType(buf[0]) {
	case compoundMsg:
		// this helper only collects decompression tables for the model; if the library's splitter panics on
		// these bytes that is for the receiver run to show, not for the helper to die of
		var parts [][]byte
		func() {
			defer func() { _ = recover() }()
			if _, ps, err := decodeCompoundMessage(buf[1:]); err == nil {
				parts = ps
			}
		}()
		for _, p := range parts {
			vwCollectDecomp(p, depth-1, out)
		}
	case compressMsg:
		body := buf[1:]
		p, err := decompressPayload(body)
		e := []int64{2, vwBool(err == nil)}
		e = append(e, vwCounted(body)...)
		if err == nil {
			e = append(e, vwB(p)...)
			*out = append(*out, e)
			vwCollectDecomp(p, depth-1, out)
		} else {
			*out = append(*out, e)
		}
	}
}

// one receiver-side observation run: feed the packet, record deliveries
type vwRx struct {
	m    *Memberlist
	tap  *vwTap
	user *vwUser
}

var vwFrom = &net.UDPAddr{IP: net.IP{10, 0, 0, 50}, Port: 7946}

func (rx *vwRx) feed(pkt []byte) (obs [][]int64, panicked bool) {
	var inl [][]int64
	// pre-registered handlers for the sequence numbers the generator uses
	rx.m.ackLock.Lock()
	for seq := uint32(7000); seq < 7400; seq++ {
		s := seq
		rx.m.ackHandlers[s] = &ackHandler{
			ackFn:  func([]byte, time.Time) { inl = append(inl, []int64{2, int64(ackRespMsg)}) },
			nackFn: func() { inl = append(inl, []int64{2, int64(nackRespMsg)}) },
			timer:  time.NewTimer(time.Hour),
		}
	}
	rx.m.ackLock.Unlock()
	rx.tap.take()
	func() {
		defer func() {
			if recover() != nil {
				panicked = true
			}
		}()
		rx.m.ingestPacket(pkt, vwFrom, time.Now())
	}()
	// the next datagram arrives before anybody has looked at the hand-off queues: a compressed acknowledgement
	// for a number nobody waits for (no effect of its own).  What the first packet queued must not change.
	func() {
		defer func() {
			if recover() != nil {
				panicked = true
			}
		}()
		rx.m.handleCompressed(vwChaser(), vwFrom, time.Now())
	}()
	_, dsts := rx.tap.take()
	for _, d := range dsts {
		if d == "10.0.0.9:7946" {
			inl = append(inl, []int64{2, int64(indirectPingMsg)})
		} else {
			inl = append(inl, []int64{2, int64(pingMsg)})
		}
	}
	var handoffs []msgHandoff
	rx.m.msgQueueLock.Lock()
	for _, q := range []int{1, 0} {
		l := rx.m.lowPriorityMsgQueue
		if q == 1 {
			l = rx.m.highPriorityMsgQueue
		}
		for e := l.Front(); e != nil; e = e.Next() {
			h := e.Value.(msgHandoff)
			handoffs = append(handoffs, h)
			o := []int64{int64(q), int64(h.msgType)}
			o = append(o, vwB(h.buf)...)
			obs = append(obs, o)
		}
		l.Init()
	}
	rx.m.msgQueueLock.Unlock()
	// what the packet handler goroutine would do with the queued messages: the handlers behind the queue
	// must survive whatever body a decodable frame carries
	for _, h := range handoffs {
		func() {
			defer func() {
				if recover() != nil {
					panicked = true
				}
			}()
			switch h.msgType {
			case suspectMsg:
				rx.m.handleSuspect(h.buf, h.from)
			case aliveMsg:
				rx.m.handleAlive(h.buf, h.from)
			case deadMsg:
				rx.m.handleDead(h.buf, h.from)
			case userMsg:
				rx.m.handleUser(h.buf, h.from)
			}
		}()
	}
	rx.m.ackLock.Lock()
	for k, h := range rx.m.ackHandlers {
		if h.timer != nil {
			h.timer.Stop()
		}
		delete(rx.m.ackHandlers, k)
	}
	rx.m.ackLock.Unlock()
	// inline deliveries are only compared as a multiset per type: sort by type
	for i := 0; i < len(inl); i++ {
		for j := i + 1; j < len(inl); j++ {
			if inl[j][1] < inl[i][1] {
				inl[i], inl[j] = inl[j], inl[i]
			}
		}
	}
	obs = append(obs, inl...)
	return obs, panicked
}

var vwChaserBuf []byte

func vwChaser() []byte {
	if vwChaserBuf == nil {
		cb, err := compressPayload(vwEnc(ackRespMsg, &ackResp{SeqNo: 0xfffffff0, Payload: bytes.Repeat([]byte{0xc5}, 700)}), false)
		if err != nil {
			panic(err)
		}
		vwChaserBuf = cb.Bytes()[1:]
	}
	return vwChaserBuf
}

// ---- message generation ----
func vwEnc(t messageType, v any) []byte {
	b, err := encode(t, v, false)
	if err != nil {
		panic(err)
	}
	return b.Bytes()
}

var vwAckSeq uint32

func vwOneMsg(r *vfRng) []byte { return vwOneMsgKind(r, r.n(9)) }

// a message of the given kind (0 ping, 1 ack, 2 nack, 3 indirect ping, 4 suspect, 5 alive, 6 dead, 7.. user).  Pings and
// indirect pings come bare (a sequence number only) and as the probe path writes them: addressed to the receiver by
// name, with the address / port / name to reply to, node names from one character to a long host name
func vwOneMsgKind(r *vfRng, kind int) []byte {
	name := []string{"", "n", string(bytes.Repeat([]byte{'x'}, 200))}[r.n(3)]
	meta := [][]byte{nil, {1}, bytes.Repeat([]byte{0xee}, 512)}[r.n(3)]
	inc := []uint32{0, 1, 1 << 31, 1<<32 - 1}[r.n(4)]
	var srcAddr []byte
	var srcPort uint16
	var srcNode string
	if r.chance(60) {
		srcAddr, srcPort = []byte{10, 0, 0, byte(60 + r.n(4))}, uint16(7000+r.n(1000))
		srcNode = []string{"", "s", "node-17.dc1.example.internal", string(bytes.Repeat([]byte{'y'}, 120))}[r.n(4)]
	}
	switch kind {
	case 0:
		return vwEnc(pingMsg, &ping{SeqNo: uint32(r.n(1000)), Node: []string{"", "rcv"}[r.n(2)], SourceAddr: srcAddr, SourcePort: srcPort, SourceNode: srcNode})
	case 1:
		vwAckSeq++
		return vwEnc(ackRespMsg, &ackResp{SeqNo: 7001 + vwAckSeq%390, Payload: meta})
	case 2:
		return vwEnc(nackRespMsg, &nackResp{SeqNo: 7000})
	case 3:
		return vwEnc(indirectPingMsg, &indirectPingReq{SeqNo: uint32(r.n(1000)), Target: []byte{10, 0, 0, 9}, Port: 7946, Node: []string{"t", "target-3.dc1.example.internal"}[r.n(2)], Nack: false,
			SourceAddr: srcAddr, SourcePort: srcPort, SourceNode: srcNode})
	case 4:
		return vwEnc(suspectMsg, &suspect{Incarnation: inc, Node: "q" + name, From: name})
	case 5:
		return vwEnc(aliveMsg, &alive{Incarnation: inc, Node: "q" + name, Addr: []byte{10, 0, 0, 7}, Port: uint16(r.n(65536)), Meta: meta, Vsn: []uint8{1, 5, 2, 0, 0, 0}})
	case 6:
		return vwEnc(deadMsg, &dead{Incarnation: inc, Node: "q" + name, From: name})
	default:
		n := []int{0, 1, 5, 64, 900}[r.n(5)]
		p := make([]byte, n)
		for i := range p {
			p[i] = byte(r.n(256))
		}
		if r.chance(30) {
			p = bytes.Repeat([]byte{'z'}, n) // compressible
		}
		return append([]byte{byte(userMsg)}, p...)
	}
}

// returns the message handed to rawSendMsgPacket and its constituent messages
func vwMsg(r *vfRng) ([]byte, [][]byte) {
	vwAckSeq = 0
	if r.chance(35) {
		n := 2 + r.n(5)
		if r.chance(10) {
			n = 255
		}
		var parts [][]byte
		for i := 0; i < n; i++ {
			p := vwOneMsg(r)
			if len(p) > 120 && n > 10 {
				p = p[:1+r.n(20)]
				p[0] = byte(userMsg)
			}
			parts = append(parts, p)
		}
		return makeCompoundMessage(parts).Bytes(), parts
	}
	m := vwOneMsg(r)
	return m, [][]byte{m}
}

func vwPartEntries(parts [][]byte) [][]int64 {
	var out [][]int64
	for _, p := range parts {
		out = append(out, append([]int64{3}, vwB(p)...))
	}
	return out
}

func vwFinal(pan bool, replies int, sealedOK, leak bool) []int64 {
	return []int64{vwBool(pan), int64(replies), vwBool(sealedOK), vwBool(leak)}
}

// a genuine send under a random configuration; returns the case and the pieces later kinds reuse
type vwSent struct {
	s, r     vwNodeCfg
	pm       int
	msg      []byte
	parts    [][]byte
	wire     []byte
	oracles  [][]int64
	compm    []byte
	sealedOK bool
}

// when set, the next genuine send carries exactly this message, under encryption version 1 (protocol 5), one key,
// no label, no compression: used for plaintexts of a chosen length and ending
var vwForceMsg []byte

func vwGenuine(r *vfRng, forceEnc bool) *vwSent {
	label := vwLabels[r.pick([]int{0, 0, 1, 2, 5})]
	var keys []int
	switch r.n(4) {
	case 0:
	case 1:
		keys = []int{1 + r.n(3)}
	default:
		keys = []int{1 + r.n(3), 4}
	}
	if forceEnc && len(keys) == 0 {
		keys = []int{2, 4}
	}
	pv := uint8(r.pick([]int{1, 2, 5}))
	s := vwNodeCfg{name: "snd", label: label, keys: keys, vout: true, vin: true, pv: pv, compress: r.chance(50), lateKeys: r.chance(25)}
	if !forceEnc && r.chance(10) {
		s.vout = false
	}
	forced := vwForceMsg
	vwForceMsg = nil
	if forced != nil {
		label, keys, pv = "", []int{1}, 5
		s = vwNodeCfg{name: "snd", keys: keys, vout: true, vin: true, pv: pv}
	}
	rk := append([]int(nil), keys...)
	if len(rk) > 1 && r.chance(50) {
		rk[0], rk[1] = rk[1], rk[0] // receiver's primary differs; sender's key is installed
	}
	rc := vwNodeCfg{name: "rcv", label: label, keys: rk, vout: true, vin: true, pv: pv}
	if len(rk) > 0 && r.chance(30) {
		rc.lateKeys, rc.ingestFirst = true, true
	}
	if len(keys) > 0 && !s.vout {
		rc.vin = false
	}
	if len(keys) > 0 && r.chance(10) {
		rc.vin = false
	}
	pm := r.pick([]int{0, 5, 6}) // 0: destination unknown; else PMax+1
	if forced != nil {
		pm = 0 // no checksum header: the plaintext is the message itself
	}
	msg, parts := vwMsg(r)
	if forced != nil {
		msg, parts = forced, [][]byte{forced}
	}
	return vwSend(s, rc, pm, msg, parts)
}

// one real send of msg by a node configured as s to a destination of protocol maximum pm-1 (0: unknown to the sender);
// rc is the receiver the packet is meant for
func vwSend(s, rc vwNodeCfg, pm int, msg []byte, parts [][]byte) *vwSent {
	keys, label, pv := s.keys, s.label, s.pv
	sm, stap, _ := vwNode(s)
	var node *Node
	if pm > 0 {
		node = &Node{Name: "10.0.0.1", Addr: []byte{10, 0, 0, 1}, Port: 7946, PMax: uint8(pm - 1)}
	}
	stap.take()
	if err := sm.rawSendMsgPacket(Address{Addr: "10.0.0.1:7946", Name: "x"}, node, msg); err != nil {
		return nil
	}
	bufs, _ := stap.take()
	if len(bufs) != 1 {
		return nil
	}
	out := &vwSent{s: s, r: rc, pm: pm, msg: msg, parts: parts, wire: bufs[0], sealedOK: true}
	if s.compress {
		if cb, err := compressPayload(msg, false); err == nil {
			out.compm = cb.Bytes()
		}
	}
	inner := bufs[0]
	if len(keys) > 0 && s.vout {
		body, lab := vwStripLabel(bufs[0])
		e, plain, ok := vwAeadEntry(keys[0], body, lab)
		if !ok || !bytes.Equal(lab, []byte(label)) {
			out.sealedOK = false
		} else {
			out.oracles = append(out.oracles, e)
			inner = plain
			if pv == 1 && len(plain) > 0 { // strip PKCS7 (independently of the package)
				n := int(plain[len(plain)-1])
				if n >= 1 && n <= len(plain) {
					inner = plain[:len(plain)-n]
				}
			}
		}
	} else {
		inner, _ = vwStripLabel(bufs[0])
	}
	if len(inner) >= 5 && inner[0] == byte(hasCrcMsg) {
		inner = inner[5:]
	}
	vwCollectDecomp(inner, 6, &out.oracles)
	vwCollectDecomp(msg, 6, &out.oracles)
	return out
}

// the stages of turning encryption on (or off) in a running cluster: the receiver has a keyring and does not insist on
// incoming encryption; the sender has no keys at all / has keys but still sends in clear / already seals.  Every
// message type in turn, alone (with and without the checksum header) and inside a compound: each pair is a compatible
// configuration, so the receiver must recover exactly what was sent
func vwTransition(r *vfRng, idx int) *vwSent {
	label := vwLabels[r.pick([]int{0, 0, 2, 5})]
	keys := []int{1 + r.n(3)}
	if r.chance(50) {
		keys = append(keys, 4)
	}
	pv := uint8(r.pick([]int{1, 2, 5}))
	s := vwNodeCfg{name: "snd", label: label, keys: keys, vout: false, vin: r.chance(50), pv: pv, compress: r.chance(20)}
	rk := append([]int(nil), keys...)
	if len(rk) > 1 && r.chance(50) {
		rk[0], rk[1] = rk[1], rk[0]
	}
	switch idx % 3 {
	case 0:
		s.keys = nil
	case 1:
	default:
		s.vout = true
	}
	rc := vwNodeCfg{name: "rcv", label: label, keys: rk, vout: r.chance(50), vin: false, pv: pv, secret: len(rk) == 1 && r.chance(30)}
	pm := []int{0, 5, 6, 0}[(idx/30)%4]
	kind := (idx / 3) % 10
	var msg []byte
	var parts [][]byte
	vwAckSeq = 0
	if kind == 9 {
		for i, n := 0, 2+r.n(4); i < n; i++ {
			parts = append(parts, vwOneMsg(r))
		}
		msg = makeCompoundMessage(parts).Bytes()
	} else {
		msg = vwOneMsgKind(r, kind)
		parts = [][]byte{msg}
	}
	return vwSend(s, rc, pm, msg, parts)
}

type vwFailReader struct{}

func (vwFailReader) Read([]byte) (int, error) { return 0, fmt.Errorf("entropy source unavailable") }

// kind 5: the nonce source fails while encryption is enforced: nothing may leave in clear
func vwCryptoFailure(r *vfRng, st *vfStats) vfCase {
	label := vwLabels[r.pick([]int{0, 2})]
	s := vwNodeCfg{name: "snd", label: label, keys: []int{1 + r.n(3)}, vout: true, vin: true, pv: uint8(r.pick([]int{1, 2, 5})), compress: r.chance(50)}
	sm, stap, _ := vwNode(s)
	msg, _ := vwMsg(r)
	stap.take()
	var sendErr error
	if r.chance(30) {
		// a node configured with SecretKey whose keyring is rotated afterwards: packets are sealed under the CURRENT
		// primary key
		old := s.keys[0]
		nw := 1 + (old % 3)
		s.secret = true
		sm, stap, _ = vwNode(s)
		kr := sm.config.Keyring
		if kr.AddKey(vwKeys[nw]) != nil || kr.UseKey(vwKeys[nw]) != nil {
			panic("rotation failed")
		}
		if r.chance(50) {
			kr.RemoveKey(vwKeys[old])
		}
		s.keys = []int{nw}
		stap.take()
		sendErr = sm.rawSendMsgPacket(Address{Addr: "10.0.0.1:7946", Name: "x"}, nil, msg)
	} else if r.chance(50) {
		saved := crand.Reader
		crand.Reader = vwFailReader{}
		sendErr = sm.rawSendMsgPacket(Address{Addr: "10.0.0.1:7946", Name: "x"}, nil, msg)
		crand.Reader = saved
	} else {
		// the socket refuses the datagram for a moment (ENOBUFS / EAGAIN): whatever is written, then or
		// on a retry, must be sealed
		errno := syscall.Errno(r.pick([]int{int(syscall.ENOBUFS), int(syscall.EAGAIN)}))
		stap.mu.Lock()
		stap.failNext = &net.OpError{Op: "write", Net: "udp", Err: os.NewSyscallError("sendto", errno)}
		stap.mu.Unlock()
		sendErr = sm.rawSendMsgPacket(Address{Addr: "10.0.0.1:7946", Name: "x"}, nil, msg)
	}
	bufs, _ := stap.take()
	c := vfCase{Cfg: vwCfg(5, 1400, s, s, 0, 0)}
	var wire []byte
	sealed, leak := true, false
	for _, b := range bufs {
		wire = b
		body, lab := vwStripLabel(b)
		_, _, ok := vwAeadEntry(s.keys[0], body, lab)
		sealed = sealed && ok
		leak = leak || vwLeak(b, msg)
		if !ok {
			break
		}
	}
	c.Ops = [][]int64{vwB(msg), vwB(wire), nil}
	c.Obs = [][]int64{{0, int64(len(bufs)), vwBool(sealed), vwBool(leak)}}
	st.Ops++
	st.OpHist["crypto_failure"]++
	st.class(fmt.Sprintf("5|%d|%v|%v", len(bufs), sendErr != nil, sealed))
	return c
}

// kind 6: a flood of decodable messages with nobody draining the hand-off queues
func vwFlood(r *vfRng, st *vfStats) vfCase {
	depth := 4 + r.n(12)
	rm, _, _ := vwNode(vwNodeCfg{name: "rcv", pv: 5, depth: depth})
	vsn := []uint8{1, 5, 2, 0, 0, 0}
	order := r.n(2)
	feed := func(kind int) {
		for i := 0; i < 3*depth+r.n(10); i++ {
			var b *bytes.Buffer
			if kind == 0 {
				b, _ = encode(aliveMsg, &alive{Incarnation: uint32(i + 1), Node: fmt.Sprintf("f%d", i), Addr: []byte{10, 0, 3, byte(i)}, Port: 7946, Vsn: vsn}, false)
			} else {
				b, _ = encode(suspectMsg, &suspect{Incarnation: 1, Node: fmt.Sprintf("f%d", i), From: "x"}, false)
			}
			rm.ingestPacket(b.Bytes(), vwFrom, time.Now())
		}
	}
	feed(order)
	feed(1 - order)
	rm.msgQueueLock.Lock()
	hi, lo := rm.highPriorityMsgQueue.Len(), rm.lowPriorityMsgQueue.Len()
	rm.msgQueueLock.Unlock()
	c := vfCase{Cfg: []int64{6, 0, 1400}}
	c.Ops = [][]int64{{int64(order)}}
	c.Obs = [][]int64{{int64(hi), int64(lo), int64(depth)}}
	st.Ops++
	st.OpHist["flood"]++
	st.class(fmt.Sprintf("6|%d|%v|%v", order, hi > depth, lo > depth))
	return c
}

func vwLeak(wire, msg []byte) bool {
	return len(msg) >= 12 && bytes.Contains(wire, msg[:12]) || (len(msg) >= 24 && bytes.Contains(wire, msg[len(msg)-12:]))
}

// decompression oracle entries for every way the receiver may come to look at this packet
func vwCollectFromPacket(pkt []byte, rc vwNodeCfg, out *[][]int64) {
	body, lab := vwStripLabel(pkt)
	if rc.skip {
		lab = []byte(rc.label)
	}
	walk := func(b []byte) {
		if len(b) >= 5 && b[0] == byte(hasCrcMsg) {
			vwCollectDecomp(b[5:], 8, out)
		}
		vwCollectDecomp(b, 8, out)
	}
	walk(body)
	for _, k := range rc.keys {
		if _, plain, ok := vwAeadEntry(k, body, lab); ok {
			walk(plain)
			if len(plain) > 0 {
				if n := int(plain[len(plain)-1]); n >= 1 && n <= len(plain) {
					walk(plain[:len(plain)-n])
				}
			}
		}
	}
}

func vwCaseFrom(kind, class int, g *vwSent, rcfg vwNodeCfg, pkt []byte, st *vfStats, extraOracles [][]int64) vfCase {
	if kind != 1 {
		gg := *g
		gg.oracles = append([][]int64(nil), g.oracles...)
		vwCollectFromPacket(pkt, rcfg, &gg.oracles)
		g = &gg
	}
	rm, rtap, ru := vwNode(rcfg)
	rx := &vwRx{rm, rtap, ru}
	obs, pan := rx.feed(pkt)
	c := vfCase{Cfg: vwCfg(kind, 1400, g.s, rcfg, g.pm, class)}
	c.Ops = [][]int64{vwB(g.msg), vwB(pkt), vwB(g.compm)}
	c.Ops = append(c.Ops, g.oracles...)
	c.Ops = append(c.Ops, extraOracles...)
	c.Ops = append(c.Ops, vwPartEntries(g.parts)...)
	enforced := len(g.s.keys) > 0 && g.s.vout
	leak := enforced && kind == 1 && vwLeak(pkt, g.msg)
	c.Obs = append(obs, vwFinal(pan, 0, g.sealedOK || !enforced || kind != 1, leak))
	st.Ops++
	if pan {
		st.Panics++
	}
	st.ObsHist[fmt.Sprintf("kind%d_deliveries_%d", kind, len(obs))]++
	st.class(fmt.Sprintf("%d|%d|%d|%v|%d|%d|%v", kind, class, len(obs), pan, len(g.s.keys), g.s.pv, g.s.compress))
	return c
}

// a history of keyring calls on a receiver; k0 is the key the traffic in flight was sealed under
func vwKeyHistory(r *vfRng, k0 int) [][2]int {
	var ops [][2]int
	for i, n := 0, r.n(5); i < n; i++ {
		ops = append(ops, [2]int{r.pick([]int{0, 0, 1, 2}), 1 + r.n(4)})
	}
	if r.chance(60) {
		// the sender's key is retired: another key is installed and made the primary, the old key is removed;
		// in between somebody may have installed the old key once more
		o := 1 + k0%4
		ops = append(ops, [2]int{0, o}, [2]int{1, o})
		for j, n := 0, r.n(3); j < n; j++ {
			ops = append(ops, [2]int{0, k0})
		}
		ops = append(ops, [2]int{2, k0})
		if r.chance(15) {
			ops = append(ops, [2]int{0, k0}) // ... and it comes back
		}
	}
	return ops
}

func vwFlip(b []byte, pos int, bit uint) []byte {
	o := append([]byte(nil), b...)
	if pos < len(o) {
		o[pos] ^= 1 << bit
	}
	return o
}

// tampered / replayed copies of one genuine encrypted packet
func vwTamper(r *vfRng, st *vfStats) []vfCase {
	if r.chance(30) {
		// a version-1 plaintext (type byte + payload, no checksum header) that is a whole number of cipher blocks
		// and ends in a byte that LOOKS like a PKCS7 pad length but is not preceded by a well-formed padding
		n := 16*(1+r.n(4)) - 1
		p := make([]byte, n)
		for i := range p {
			p[i] = byte(r.n(256))
		}
		p[n-1] = byte(2 + r.n(15))
		p[n-2] = 0
		vwForceMsg = append([]byte{byte(userMsg)}, p...)
	}
	g := vwGenuine(r, true)
	if g == nil || !g.sealedOK {
		return nil
	}
	var out []vfCase
	lh := 0
	if g.s.label != "" {
		lh = 2 + len(g.s.label)
	}
	add := func(class int, rc vwNodeCfg, pkt []byte, extra [][]int64) {
		out = append(out, vwCaseFrom(2, class, g, rc, pkt, st, extra))
		st.OpHist[fmt.Sprintf("tamper_class_%d", class)]++
	}
	rc := g.r
	rc.vin = true
	// 1: version byte (the known finding D-C14)
	add(1, rc, vwFlip(g.wire, lh, 0), nil)
	// 2: nonce, 3: body, 4: tag
	add(2, rc, vwFlip(g.wire, lh+1+r.n(12), uint(r.n(8))), nil)
	if len(g.wire) > lh+13+16 {
		add(3, rc, vwFlip(g.wire, lh+13+r.n(len(g.wire)-lh-13-16), uint(r.n(8))), nil)
	}
	add(4, rc, vwFlip(g.wire, len(g.wire)-1-r.n(16), uint(r.n(8))), nil)
	// 5: truncation
	add(5, rc, g.wire[:len(g.wire)-1-r.n(len(g.wire)-lh-1)], nil)
	// 6: splice: nonce of this packet, body of another genuine packet of the same sender
	if g2 := vwGenuine(r, true); g2 != nil && g2.sealedOK && len(g2.s.keys) > 0 {
		lh2 := 0
		if g2.s.label != "" {
			lh2 = 2 + len(g2.s.label)
		}
		sp := append([]byte(nil), g.wire[:lh+13]...)
		sp = append(sp, g2.wire[lh2+13:]...)
		add(6, rc, sp, nil)
	}
	// 7: sealed under a key the receiver never had
	rc7 := rc
	rc7.keys = []int{3}
	if g.s.keys[0] == 3 {
		rc7.keys = []int{1}
	}
	add(7, rc7, g.wire, nil)
	// 10: the packet is in flight while the receiver's keyring changes: keys are added (also ones that are installed
	// already: an install command that is run again), another key becomes the primary, keys are removed.  What counts on
	// arrival is whether the key the packet was sealed under is installed THEN
	for k := 0; k < 2; k++ {
		rc10 := rc
		rc10.secret = false
		rc10.keyOps = vwKeyHistory(r, g.s.keys[0])
		add(10, rc10, g.wire, nil)
	}
	// 8: plaintext traffic to a verifying receiver
	body, _ := vwStripLabel(g.wire)
	_ = body
	ps := g.s
	ps.keys = nil
	psm, pstap, _ := vwNode(ps)
	pstap.take()
	if psm.rawSendMsgPacket(Address{Addr: "10.0.0.1:7946", Name: "x"}, nil, g.msg) == nil {
		if b, _ := pstap.take(); len(b) == 1 {
			add(8, rc, b[0], nil)
		}
	}
	// 9: label bytes of an encrypted packet (label is the associated data)
	if lh > 2 {
		add(9, rc, vwFlip(g.wire, 2+r.n(lh-2), uint(r.n(8))), nil)
	}
	// 20: cross-label injection (C16): same keys, another label on the receiver
	// ... among them labels that differ from the sender's only in letter case or a surrounding blank
	for _, other := range append([]string{"", "blu", "blue2", "red", string(bytes.Repeat([]byte{'L'}, 254))}, vwNearLabels(g.s.label)...) {
		if other == g.s.label {
			continue
		}
		rc20 := rc
		rc20.label = other
		add(20, rc20, g.wire, nil)
		// and with the inbound check delegated: a labelled packet must be refused, an unlabelled one accepted only under the receiver's label as AAD
		// delegated check: a label header is then unexpected, and the receiver's own label is the
		// associated data, so traffic of another label still fails authentication
		rc21 := rc20
		rc21.skip = true
		add(20, rc21, g.wire, nil)
	}
	if g.s.label != "" {
		// same label, check delegated: the outer layer should have stripped the header already
		rc22 := rc
		rc22.skip = true
		add(20, rc22, g.wire, nil)
	}
	return out
}

// hostile bytes into a receiver that does not (or need not) authenticate
func vwHostile(r *vfRng, st *vfStats) []vfCase {
	g := vwGenuine(r, false)
	if g == nil {
		return nil
	}
	var out []vfCase
	rc := g.r
	add := func(class int, pkt []byte) {
		gg := *g
		gg.oracles = append([][]int64(nil), g.oracles...)
		body, _ := vwStripLabel(pkt)
		if len(body) >= 5 && body[0] == byte(hasCrcMsg) {
			vwCollectDecomp(body[5:], 8, &gg.oracles)
		}
		vwCollectDecomp(body, 8, &gg.oracles)
		out = append(out, vwCaseFrom(3, class, &gg, rc, pkt, st, nil))
		st.OpHist[fmt.Sprintf("hostile_class_%d", class)]++
	}
	// plaintext traffic only makes sense towards a receiver that would look at it
	plain := g.wire
	if len(g.s.keys) > 0 && g.s.vout {
		ps := g.s
		ps.keys = nil
		psm, pstap, _ := vwNode(ps)
		pstap.take()
		if psm.rawSendMsgPacket(Address{Addr: "10.0.0.1:7946", Name: "x"}, nil, g.msg) != nil {
			return nil
		}
		b, _ := pstap.take()
		if len(b) != 1 {
			return nil
		}
		plain = b[0]
		rc.vin = false
	}
	// 30: truncations, 31: single-byte mutations, 32: random bytes, 33: crafted compounds, 34: nested wrappers
	for k := 0; k < 6; k++ {
		add(30, plain[:r.n(len(plain)+1)])
	}
	for k := 0; k < 8; k++ {
		m := append([]byte(nil), plain...)
		if len(m) > 0 {
			m[r.n(len(m))] = byte(r.n(256))
		}
		add(31, m)
	}
	for k := 0; k < 3; k++ {
		n := r.n(64)
		b := make([]byte, n)
		for i := range b {
			b[i] = byte(r.n(256))
		}
		if r.chance(50) && n > 0 {
			b[0] = byte(r.pick([]int{7, 9, 12, 244, 10, 8, 0}))
		}
		add(32, b)
	}
	// 36: a decodable alive message whose version vector has every length from 0 to 8
	for L := 0; L <= 8; L++ {
		vs := []uint8{1, 5, 2, 0, 0, 0, 0, 0}[:L]
		a := alive{Incarnation: uint32(1 + r.n(5)), Node: fmt.Sprintf("h%d", r.n(4)), Addr: []byte{10, 0, 0, byte(20 + r.n(5))}, Port: 7946, Vsn: vs}
		ab, err := encode(aliveMsg, &a, false)
		if err != nil {
			continue
		}
		psm, pstap, _ := vwNode(g.s)
		pstap.take()
		if psm.rawSendMsgPacket(Address{Addr: "10.0.0.1:7946", Name: "x"}, nil, ab.Bytes()) != nil {
			continue
		}
		if b, _ := pstap.take(); len(b) == 1 {
			// what the stdlib says each installed key opens this packet to
			var extra [][]int64
			body, lab := vwStripLabel(b[0])
			if g.r.skip {
				lab = []byte(g.r.label)
			}
			for _, k := range g.r.keys {
				if e, _, ok := vwAeadEntry(k, body, lab); ok {
					extra = append(extra, e)
				}
			}
			out = append(out, vwCaseFrom(3, 36, g, g.r, b[0], st, extra))
			st.OpHist["hostile_class_36"]++
		}
	}
	// compound with lying count / lengths
	cp := []byte{byte(compoundMsg), byte(r.n(256))}
	for i := 0; i < r.n(6); i++ {
		cp = append(cp, byte(r.n(3)), byte(r.n(256)))
	}
	cp = append(cp, bytes.Repeat([]byte{byte(userMsg)}, r.n(40))...)
	add(33, cp)
	// 37: a well-formed compound message cut at every offset of its count byte, length table and first bytes
	{
		var parts [][]byte
		for i, np := 0, 1+r.n(3); i < np; i++ {
			parts = append(parts, vwOneMsg(r))
		}
		raw := makeCompoundMessage(parts).Bytes()
		for k := 0; k <= 2+2*len(parts)+2 && k <= len(raw); k++ {
			pkt := append([]byte(nil), raw[:k]...)
			if rc.label != "" && !rc.skip {
				pkt, _ = AddLabelHeaderToPacket(pkt, rc.label)
			}
			add(37, pkt)
		}
	}
	// compress wrapper around a compound around a compress wrapper ...
	inner := vwOneMsg(r)
	for d := 0; d < 1+r.n(5); d++ {
		if r.chance(50) {
			if cb, err := compressPayload(inner, false); err == nil {
				inner = cb.Bytes()
			}
		} else {
			inner = makeCompoundMessage([][]byte{inner, vwOneMsg(r)}).Bytes()
		}
	}
	add(34, inner)
	// a PKCS7 trap for encrypting receivers: version byte 0 on a version-1 ciphertext
	if len(g.s.keys) > 0 && g.s.vout && g.s.pv != 1 {
		lh := 0
		if g.s.label != "" {
			lh = 2 + len(g.s.label)
		}
		rc2 := g.r
		rc2.vin = true
		gg := *g
		out = append(out, vwCaseFrom(3, 35, &gg, rc2, vwFlip(g.wire, lh, 0), st, nil))
		st.OpHist["hostile_class_35"]++
	}
	return out
}

// budget: piggy-backing on pings/acks and a gossip round, from a full queue
var vwBudgetPadded bool

func vwBudget(r *vfRng, st *vfStats) vfCase {
	udp := r.pick([]int{300, 576, 1400, 1400, 9000})
	if r.chance(40) {
		// any size: the worst-case padding of the block-padded encryption version depends on the size modulo 16
		udp = 300 + r.n(1200)
	}
	label := vwLabels[r.pick([]int{0, 1, 2, 5})]
	var keys []int
	if r.chance(65) {
		keys = []int{1 + r.n(3)}
	}
	pv := uint8(r.pick([]int{1, 2, 5}))
	if vwBudgetPadded {
		// the block-padded encryption version, a full queue, any packet size
		keys, pv, udp = []int{1 + r.n(3)}, 1, 300+r.n(1200)
	}
	// the two verification flags are independent (a key roll-out runs with outgoing on, incoming off)
	s := vwNodeCfg{name: "snd", label: label, keys: keys, vout: !r.chance(20), vin: !r.chance(40), pv: pv, compress: r.chance(30), udp: udp}
	if len(keys) > 0 && r.chance(35) {
		s.lateKeys, s.gossipFirst = true, r.chance(70)
	}
	rc := s
	rc.name = "rcv"
	rc.compress = false
	rc.vin = s.vout && r.chance(70)
	sm, stap, su := vwNode(s)
	rm, rtap, ru := vwNode(rc)
	rx := &vwRx{rm, rtap, ru}
	peerPMax := uint8(4 + r.n(2))
	sm.aliveNode(&alive{Incarnation: 1, Node: "10.0.0.1", Addr: []byte{10, 0, 0, 1}, Port: 7946, Vsn: []uint8{1, peerPMax, 2, 0, 0, 0}}, nil, false)
	// a cluster in the middle of an upgrade: further peers, each speaking up to its own protocol version (the checksum
	// header goes only to those that understand it), and a gossip round that visits several of them
	if r.chance(70) {
		for j, np := 0, 1+r.n(4); j < np; j++ {
			pmax := uint8(r.pick([]int{2, 3, 4, 4, 5, 5, 5}))
			ip := []byte{10, 0, 0, byte(2 + j)}
			sm.aliveNode(&alive{Incarnation: 1, Node: net.IP(ip).String(), Addr: ip, Port: 7946, Vsn: []uint8{1, pmax, 2, 0, 0, 0}}, nil, false)
		}
		sm.config.GossipNodes = 1 + r.n(5)
	}
	sm.broadcasts.Reset()
	// queued membership broadcasts: unique payloads carrying an id
	nb := r.pick([]int{0, 5, 40, 300})
	if vwBudgetPadded {
		nb = 300
	}
	id := int64(1)
	want := map[string]int64{}
	for i := 0; i < nb; i++ {
		n := 1 + r.n(60)
		if r.chance(5) {
			n = 200 + r.n(200)
		}
		p := append([]byte{byte(suspectMsg)}, []byte(fmt.Sprintf("%06d", id))...)
		for len(p) < n+7 {
			p = append(p, byte(r.n(256)))
		}
		want[string(p)] = id
		sm.queueBroadcast(fmt.Sprintf("b%d", i), p, nil)
		id++
	}
	nu := r.pick([]int{0, 10, 300, 2000})
	for i := 0; i < nu; i++ {
		p := []byte(fmt.Sprintf("%06d", id))
		p = append(p, bytes.Repeat([]byte{'u'}, r.n(4))...)
		want[string(append([]byte{byte(userMsg)}, p...))] = id
		su.out = append(su.out, p)
		id++
	}
	if nu > 0 && r.chance(50) {
		// one broadcast with no payload at all: on the wire it is the type byte alone
		want[string([]byte{byte(userMsg)})] = id
		su.out = append([][]byte{{}}, su.out...)
		id++
	}
	before := map[string]int{}
	sm.broadcasts.mu.Lock()
	sm.broadcasts.walkReadOnlyLocked(false, func(lb *limitedBroadcast) bool { before[string(lb.b.Message())] = lb.transmits; return true })
	sm.broadcasts.mu.Unlock()
	stap.take()
	a := Address{Addr: "10.0.0.1:7946", Name: "10.0.0.1"}
	for i := 0; i < 1+r.n(4); i++ {
		sm.encodeAndSendMsg(a, pingMsg, &ping{SeqNo: uint32(9000 + i), Node: "zz"})
	}
	sm.gossip()
	var sent []int64
	sm.broadcasts.mu.Lock()
	sm.broadcasts.walkReadOnlyLocked(false, func(lb *limitedBroadcast) bool {
		for k := before[string(lb.b.Message())]; k < lb.transmits; k++ {
			sent = append(sent, want[string(lb.b.Message())])
		}
		return true
	})
	sm.broadcasts.mu.Unlock()
	for _, p := range su.sent {
		sent = append(sent, want[string(append([]byte{byte(userMsg)}, p...))])
	}
	bufs, _ := stap.take()
	c := vfCase{Cfg: vwCfg(4, udp, s, rc, int(peerPMax)+1, 0)}
	var recv []int64
	for _, b := range bufs {
		obs, _ := rx.feed(b)
		nq := int64(0)
		for _, o := range obs {
			if o[0] != 2 {
				nq++
			}
		}
		// length, and how many queued broadcasts the packet carried (a bare ping is not
		// "assembled from queued broadcasts")
		c.Ops = append(c.Ops, []int64{int64(len(b)), nq})
		for _, o := range obs {
			if o[0] == 2 {
				continue
			}
			full := []byte{byte(o[1])}
			for _, x := range o[2:] {
				full = append(full, byte(x))
			}
			if idv, ok := want[string(full)]; ok {
				recv = append(recv, idv)
			} else {
				recv = append(recv, 0)
			}
		}
	}
	// the monitor compares lengths via list length: expand each op to that many zeros is wasteful;
	// instead the op holds the length and WireCheck.check_budget reads it as a one-element vector
	c.Obs = [][]int64{sent, recv}
	st.Ops += len(bufs)
	st.OpHist["budget_packets"] += len(bufs)
	maxlen := 0
	for _, b := range bufs {
		if len(b) > maxlen {
			maxlen = len(b)
		}
	}
	st.class(fmt.Sprintf("4|%d|%d|%d|%d|%d", udp, len(keys), len(label), len(bufs), maxlen*10/udp))
	if cur, ok := st.Extra["budget_max_fill_permille"].(int); !ok || maxlen*1000/udp > cur {
		st.Extra["budget_max_fill_permille"] = maxlen * 1000 / udp
	}
	return c
}

func TestVfWire(t *testing.T) {
	st := vfNewStats("wire")
	st.Rule = "genuine packets (8 message types + compounds up to 255 parts, field extremes) under label x keys(0/1/2, 16/24/32 B) x encryption version x compression x CRC x verify flags, fed to a compatible real receiver; every message type (pings / indirect pings as the probe path writes them, with reply address and host names) alone and compounded, with / without checksum header, from a sender without keys / with keys but sending in clear / sealing to a receiver with a keyring that does not insist on incoming encryption; tampered/replayed copies (version, nonce, body, tag, truncation, splice, foreign key, key history on the receiver between send and arrival: AddKey (also of installed keys) / UseKey / RemoveKey, plaintext, label AAD, cross-label); hostile bytes (truncations, mutations, random, lying compounds, nested wrappers); budget runs (sendMsg piggy-back + gossip rounds to 1-5 targets of mixed protocol versions 2..5 from full queues); distinct = distinct (kind, class, #deliveries, panic, #keys, protocol version, compression) tuples"
	cases, replay, err := vfLoadCases()
	if err != nil {
		t.Fatal(err)
	}
	if replay {
		// wire cases are regenerated from the seed; a replay file names the seed/index in its tag
		cases = nil
	}
	if p := vfPropEnv(); p == "" || p == "C15" {
		vsCheckSendSites(st)
	}
	r := &vfRng{s: vfSeed()*49979687 + 50}
	n := vfEnvInt("VF_N", 120)
	for i := 0; i < n; i++ {
		// one bubble per round: the nodes' background goroutines and timers stay inside it
		synctest.Test(t, func(t *testing.T) {
			if g := vwGenuine(r, false); g != nil {
				cases = append(cases, vwCaseFrom(1, 0, g, g.r, g.wire, st, nil))
				st.OpHist["genuine"]++
			}
			if g := vwTransition(r, i); g != nil {
				cases = append(cases, vwCaseFrom(1, 0, g, g.r, g.wire, st, nil))
				st.OpHist["genuine_keyed_nonverifying_receiver"]++
			}
			if i%3 == 0 {
				cases = append(cases, vwTamper(r, st)...)
			}
			if i%4 == 1 {
				cases = append(cases, vwHostile(r, st)...)
			}
			if i%2 == 0 {
				cases = append(cases, vwBudget(r, st))
			}
			if i%6 == 3 {
				cases = append(cases, vwFlood(r, st))
			}
			if i%5 == 2 {
				cases = append(cases, vwCryptoFailure(r, st))
			}
			time.Sleep(3 * time.Hour)
		})
	}
	if p := vfPropEnv(); p == "" || p == "C11" {
		// the packet budget under the block-padded encryption version: the worst case needs the packet size, the
		// label length and the fill to line up, so it gets its own stream of cases
		vwBudgetPadded = true
		for i := 0; i < vfEnvInt("VF_BUDGET_PADDED", 2*n); i++ {
			synctest.Test(t, func(t *testing.T) {
				cases = append(cases, vwBudget(r, st))
				time.Sleep(3 * time.Hour)
			})
		}
		vwBudgetPadded = false
	}
	sel := map[string]string{"C11": "11", "C12": "12", "C13": "13", "C14": "14", "C15": "15", "C16": "16"}[vfPropEnv()]
	if sel == "" {
		sel = "0"
	}
	if err := vfEmit(st, cases, "From VF Require Import Raw WireCheck.", "check_any "+sel, true); err != nil {
		t.Fatal(err)
	}
}
