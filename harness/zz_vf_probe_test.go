//go:build verif

package memberlist

// C19 harness: real probeNode and handleIndirectPing in a synctest bubble against a scripted
// transport that injects acks / nacks (own, foreign, late, duplicated) at generated virtual
// instants, fails sends, and answers the TCP fallback.
// Internal surface used: newMemberlist, setAlive, aliveNode, probeNode, handleIndirectPing,
// awareness, ackHandlers, nodeMap, encode, decode.

import (
	"fmt"
	"net"
	"strings"
	"sync"
	"sync/atomic"
	"testing"
	"testing/synctest"
	"time"
)

type vpTr struct {
	mu      sync.Mutex
	pk      chan *Packet
	st      chan net.Conn
	onSend  func(to string, mt messageType, body []byte)
	dial    func(a Address, d time.Duration) (net.Conn, error)
	sendErr func(to string, mt messageType) error
	// tap sees every message the node hands to the transport (before the scripted send errors)
	tap func(to string, mt messageType, body []byte)
}

func (t *vpTr) FinalAdvertiseAddr(string, int) (net.IP, int, error) {
	return net.IP{10, 0, 0, 100}, 7946, nil
}
func (t *vpTr) WriteTo(b []byte, a string) (time.Time, error) {
	return t.WriteToAddress(b, Address{Addr: a})
}
func (t *vpTr) handle(to string, buf []byte) error {
	if len(buf) == 0 {
		return nil
	}
	mt := messageType(buf[0])
	if mt == compoundMsg {
		_, parts, _ := decodeCompoundMessage(buf[1:])
		var first error
		for _, p := range parts {
			if err := t.handle(to, p); err != nil && first == nil {
				first = err
			}
		}
		return first
	}
	t.mu.Lock()
	tap := t.tap
	t.mu.Unlock()
	if tap != nil {
		tap(to, mt, buf[1:])
	}
	if t.sendErr != nil {
		if err := t.sendErr(to, mt); err != nil {
			return err
		}
	}
	if t.onSend != nil {
		t.onSend(to, mt, buf[1:])
	}
	return nil
}
func (t *vpTr) WriteToAddress(b []byte, a Address) (time.Time, error) {
	return time.Now(), t.handle(a.Addr, append([]byte(nil), b...))
}
func (t *vpTr) PacketCh() <-chan *Packet { return t.pk }
func (t *vpTr) DialTimeout(a string, d time.Duration) (net.Conn, error) {
	return t.DialAddressTimeout(Address{Addr: a}, d)
}
func (t *vpTr) DialAddressTimeout(a Address, d time.Duration) (net.Conn, error) {
	if t.dial != nil {
		return t.dial(a, d)
	}
	return nil, fmt.Errorf("refused")
}
func (t *vpTr) StreamCh() <-chan net.Conn { return t.st }
func (t *vpTr) Shutdown() error           { return nil }

func (t *vpTr) inject(from string, mt messageType, v any, after time.Duration) {
	go func() {
		time.Sleep(after)
		buf, _ := encode(mt, v, false)
		ip, _, _ := net.SplitHostPort(from)
		t.pk <- &Packet{Buf: buf.Bytes(), From: &net.UDPAddr{IP: net.ParseIP(ip), Port: 7946}, Timestamp: time.Now()}
	}()
}

func vpUs(d time.Duration) int64 { return int64(d / time.Microsecond) }

// set by the two checks below when the node under test is stuck for good: the goroutines that are blocked inside it
// stay behind when the bubble ends, which the bubble reports as a deadlock; TestVfProbe lets that pass for a case that
// has already recorded the finding (codes 410 / 411) and for no other
var vpWedged bool

var vpLiveSeq uint32 = 4000000000

// C13 (no sequence of packets blocks a listener forever): after the packets of the case, is the packet listener still
// taking packets? One more ping is put on the packet channel; a live listener answers it with an ack carrying the
// ping's number in the same virtual instant. The limit is virtual time; a listener that is blocked inside a handler
// is reported, never waited for.
func vpListenerAlive(m *Memberlist, tr *vpTr, limit time.Duration) bool {
	vpLiveSeq++
	seq := vpLiveSeq
	var got atomic.Bool
	tr.mu.Lock()
	tr.tap = func(to string, mt messageType, body []byte) {
		if mt == ackRespMsg && to == "10.0.0.99:7946" {
			var a ackResp
			if decode(body, &a) == nil && a.SeqNo == seq {
				got.Store(true)
			}
		}
	}
	tr.mu.Unlock()
	tr.inject("10.0.0.99:7946", pingMsg, &ping{SeqNo: seq, Node: m.config.Name, SourceAddr: []byte{10, 0, 0, 99}, SourcePort: 7946, SourceNode: "chk"}, 0)
	time.Sleep(limit)
	synctest.Wait()
	tr.mu.Lock()
	tr.tap = nil
	tr.mu.Unlock()
	if !got.Load() {
		vpWedged = true
	}
	return got.Load()
}

// Shutdown from a goroutine of its own, with a (virtual) limit: a node whose Shutdown never returns is reported
func vpShutdown(m *Memberlist) bool {
	done := make(chan struct{})
	go func() { m.Shutdown(); close(done) }()
	select {
	case <-done:
		return true
	case <-time.After(10 * time.Second):
		vpWedged = true
		return false
	}
}

func vpProbeCase(r *vfRng, st *vfStats) vfCase {
	tr := &vpTr{pk: make(chan *Packet, 256), st: make(chan net.Conn)}
	cfg := DefaultLANConfig()
	cfg.Name = "self"
	cfg.Transport = tr
	cfg.Logger = vwDiscard
	cfg.ProbeInterval = time.Second
	cfg.ProbeTimeout = 300 * time.Millisecond
	cfg.IndirectChecks = r.n(4)
	cfg.DisableTcpPings = r.chance(40)
	cfg.EnableCompression = false
	cfg.AwarenessMaxMultiplier = r.pick([]int{4, 8, 2})
	m, err := newMemberlist(cfg)
	if err != nil {
		panic(err)
	}
	m.setAlive()
	score0 := r.n(cfg.AwarenessMaxMultiplier)
	m.awareness.ApplyDelta(score0)
	tgtPMax := uint8(2 + r.n(3))
	m.aliveNode(&alive{Incarnation: 1, Node: "tgt", Addr: []byte{10, 0, 0, 1}, Port: 7946, Vsn: []uint8{1, tgtPMax, 2, 0, 0, 0}}, nil, false)
	npeers := r.n(4)
	for i := 0; i < npeers; i++ {
		pm := uint8(3 + r.n(2))
		m.aliveNode(&alive{Incarnation: 1, Node: fmt.Sprintf("p%d", i), Addr: []byte{10, 0, 0, byte(10 + i)}, Port: 7946, Vsn: []uint8{1, pm, 2, 0, 0, 0}}, nil, false)
	}
	m.broadcasts.Reset()
	I := time.Duration(score0+1) * cfg.ProbeInterval
	P := cfg.ProbeTimeout
	grid := func() time.Duration {
		return time.Duration(1+r.n(int(2*I/time.Millisecond)))*time.Millisecond + time.Duration(1+2*r.n(400))*time.Microsecond
	}
	sendMode := r.pick([]int{0, 0, 0, 0, 0, 1, 2})
	directAck, directAt := r.chance(35), grid()
	dupAck := r.chance(15)
	foreignAck, foreignAt := r.chance(40), grid()
	type rel struct {
		ack, nack, foreign bool
		at                 time.Duration
	}
	script := map[string]rel{}
	for i := 0; i < npeers; i++ {
		a := fmt.Sprintf("10.0.0.%d:7946", 10+i)
		switch r.n(4) {
		case 0:
			script[a] = rel{ack: true, at: grid()}
		case 1:
			script[a] = rel{nack: true, at: grid()}
		case 2:
			script[a] = rel{foreign: true, at: grid()}
		default:
			script[a] = rel{}
		}
	}
	// one case in ten: nobody acknowledges, every relay answers with an early nack that the network duplicates, and
	// the health score starts above zero — a failed probe must not IMPROVE it, however many nacks come in
	nackStorm := npeers > 0 && r.chance(10)
	if nackStorm {
		directAck, foreignAck = false, false
		for a := range script {
			script[a] = rel{nack: true, at: time.Duration(1+r.n(int(P/time.Millisecond)))*time.Millisecond + time.Microsecond}
		}
	}
	tcpMode := r.n(4) // 0 refuse, 1 matching ack, 2 ack with another sequence number, 3 the host is gone: the dial waits out whatever timeout it was given
	if nackStorm {
		tcpMode = 0
	}
	tcpAt := grid()
	t0 := time.Now()
	var seq uint32
	expectedNacks := 0
	dupNacks := r.chance(25) || nackStorm
	var arrivals [][]int64
	var mu sync.Mutex
	first := true
	tr.sendErr = func(to string, mt messageType) error {
		if mt == pingMsg && first {
			first = false
			switch sendMode {
			case 1:
				return &net.OpError{Op: "write", Net: "udp", Err: fmt.Errorf("connection refused")}
			case 2:
				return fmt.Errorf("no route to host")
			}
		}
		return nil
	}
	tr.onSend = func(to string, mt messageType, body []byte) {
		mu.Lock()
		defer mu.Unlock()
		el := time.Since(t0)
		switch mt {
		case pingMsg:
			var p ping
			decode(body, &p)
			seq = p.SeqNo
			if directAck {
				tr.inject(to, ackRespMsg, &ackResp{SeqNo: p.SeqNo}, directAt)
				arrivals = append(arrivals, []int64{0, int64(p.SeqNo), vpUs(el + directAt)})
				if dupAck {
					tr.inject(to, ackRespMsg, &ackResp{SeqNo: p.SeqNo}, directAt+3*time.Millisecond)
					arrivals = append(arrivals, []int64{0, int64(p.SeqNo), vpUs(el + directAt + 3*time.Millisecond)})
				}
			}
			if foreignAck {
				tr.inject(to, ackRespMsg, &ackResp{SeqNo: p.SeqNo + 1000}, foreignAt)
				arrivals = append(arrivals, []int64{0, int64(p.SeqNo) + 1000, vpUs(el + foreignAt)})
				tr.inject(to, nackRespMsg, &nackResp{SeqNo: p.SeqNo + 1000}, foreignAt+time.Millisecond)
				arrivals = append(arrivals, []int64{1, int64(p.SeqNo) + 1000, vpUs(el + foreignAt + time.Millisecond)})
			}
		case indirectPingMsg:
			var ind indirectPingReq
			decode(body, &ind)
			if seq == 0 {
				seq = ind.SeqNo
			}
			if ind.Nack {
				expectedNacks++
			}
			sc := script[to]
			if sc.ack {
				tr.inject(to, ackRespMsg, &ackResp{SeqNo: ind.SeqNo}, sc.at)
				arrivals = append(arrivals, []int64{0, int64(ind.SeqNo), vpUs(el + sc.at)})
			}
			if sc.nack {
				tr.inject(to, nackRespMsg, &nackResp{SeqNo: ind.SeqNo}, sc.at)
				arrivals = append(arrivals, []int64{1, int64(ind.SeqNo), vpUs(el + sc.at)})
				if dupNacks {
					// the datagram is duplicated on the way: more nacks than were asked for
					for k := 1; k <= 2; k++ {
						at := sc.at + time.Duration(k)*time.Millisecond + time.Microsecond
						tr.inject(to, nackRespMsg, &nackResp{SeqNo: ind.SeqNo}, at)
						arrivals = append(arrivals, []int64{1, int64(ind.SeqNo), vpUs(el + at)})
					}
				}
			}
			if sc.foreign {
				tr.inject(to, ackRespMsg, &ackResp{SeqNo: ind.SeqNo + 5}, sc.at)
				arrivals = append(arrivals, []int64{0, int64(ind.SeqNo) + 5, vpUs(el + sc.at)})
			}
		}
	}
	var tcpStart time.Duration
	tcpUsed := false
	tr.dial = func(a Address, d time.Duration) (net.Conn, error) {
		tcpUsed = true
		tcpStart = time.Since(t0)
		if tcpMode == 0 {
			return nil, fmt.Errorf("refused")
		}
		if tcpMode == 3 {
			time.Sleep(d)
			return nil, fmt.Errorf("i/o timeout")
		}
		c1, c2 := net.Pipe()
		go func() {
			defer c2.Close()
			buf := make([]byte, 512)
			n, err := c2.Read(buf)
			if err != nil || n < 1 {
				return
			}
			var p ping
			decode(buf[1:n], &p)
			time.Sleep(tcpAt)
			s := p.SeqNo
			if tcpMode == 2 {
				s += 7
			}
			out, _ := encode(ackRespMsg, &ackResp{SeqNo: s}, false)
			c2.Write(out.Bytes())
		}()
		return c1, nil
	}
	m.nodeLock.RLock()
	tn := *m.nodeMap["tgt"]
	m.nodeLock.RUnlock()
	done := make(chan struct{})
	go func() { m.probeNode(&tn); close(done) }()
	<-done
	// how long the probe kept the (single, sequential) probe loop busy
	probeDur := time.Since(t0)
	time.Sleep(3 * I)
	synctest.Wait()
	m.nodeLock.RLock()
	ns := m.nodeMap["tgt"]
	suspected := ns.State != StateAlive
	m.nodeLock.RUnlock()
	m.ackLock.Lock()
	nh := len(m.ackHandlers)
	m.ackLock.Unlock()
	tcpEnabled := !cfg.DisableTcpPings && tgtPMax >= 3
	tm := int64(0)
	if tcpMode == 1 {
		tm = 1
	}
	c := vfCase{Cfg: []int64{1, int64(score0), int64(cfg.AwarenessMaxMultiplier), vpUs(cfg.ProbeInterval), vpUs(P), int64(sendMode), int64(expectedNacks),
		vwBool(tcpEnabled), tm, vpUs(tcpStart + tcpAt), int64(seq)}}
	c.Ops = arrivals
	if c.Ops == nil {
		c.Ops = [][]int64{}
	}
	ab := int64(0)
	if sendMode == 2 {
		ab = 1
	}
	scoreEnd := m.GetHealthScore()
	live := vpListenerAlive(m, tr, time.Second)
	_ = tcpUsed
	shut := vpShutdown(m)
	c.Obs = [][]int64{{vwBool(suspected), int64(scoreEnd), int64(nh), ab, vpUs(probeDur), vwBool(live), vwBool(shut)}}
	st.Ops++
	st.OpHist["probe"]++
	st.ObsHist[fmt.Sprintf("suspected_%v", suspected)]++
	st.ObsHist[fmt.Sprintf("listener_alive_%v", live)]++
	st.class(fmt.Sprintf("1|%v|%d|%d|%d|%d|%v|%d", suspected, scoreEnd-score0, sendMode, expectedNacks, len(arrivals), tcpEnabled, tcpMode))
	return c
}

// ---- several consecutive probes on ONE node ----
// What a probe leaves behind must not leak into the next one: nacks and acks that answered an earlier probe (their
// numbers have expired), late arrivals of the previous probe landing in the middle of the next, a guessed "next"
// number arriving before that number is in use. Each probe of the chain is checked against the Probe model with the
// health score chained from the previous probe's observed score.

type vpRel struct {
	ack, nack, foreign bool
	at                 time.Duration
}

// the script of one probe
type vpRound struct {
	sendMode                      int // 0 sent, 1 remote-failure send error, 2 other send error
	directAck, dupAck, foreignAck bool
	nextAck                       bool // an ack carrying the number the NEXT probe will use
	directAt, foreignAt, nextAt   time.Duration
	script                        map[string]vpRel
	dupNacks                      int // copies of every nack that the network adds
	tcpMode                       int // as in vpProbeCase
	tcpAt                         time.Duration
}

// what the scripted network saw and scheduled, all instants measured from the start of the case
type vpRec struct {
	mu            sync.Mutex
	arrivals      [][]int64
	seq           uint32
	expectedNacks int
	tcpStart      time.Duration
	first         bool
}

// profile: 0 anything; 1 nobody acknowledges, every relay's nack arrives in time; 2 nobody acknowledges, the relays
// are silent or their nacks come after the deadline; 3 nobody acknowledges, early nacks multiplied by the network
func vpGenRound(r *vfRng, profile int, peers []string, I, P time.Duration) *vpRound {
	odd := func() time.Duration { return time.Duration(1+2*r.n(400)) * time.Microsecond }
	grid := func() time.Duration { return time.Duration(1+r.n(int(2*I/time.Millisecond)))*time.Millisecond + odd() }
	rd := &vpRound{script: map[string]vpRel{}}
	rd.tcpAt = grid()
	rd.foreignAck, rd.foreignAt = r.chance(40), grid()
	rd.nextAck, rd.nextAt = r.chance(15), grid()
	if profile == 0 {
		rd.sendMode = r.pick([]int{0, 0, 0, 0, 0, 1, 2})
		rd.directAck, rd.directAt = r.chance(35), grid()
		rd.dupAck = r.chance(15)
		for _, a := range peers {
			switch r.n(4) {
			case 0:
				rd.script[a] = vpRel{ack: true, at: grid()}
			case 1:
				rd.script[a] = vpRel{nack: true, at: grid()}
			case 2:
				rd.script[a] = vpRel{foreign: true, at: grid()}
			default:
				rd.script[a] = vpRel{}
			}
		}
		if r.chance(25) {
			rd.dupNacks = 2
		}
		rd.tcpMode = r.n(4)
		return rd
	}
	rd.sendMode = r.pick([]int{0, 0, 0, 1})
	rd.tcpMode = r.pick([]int{0, 0, 2, 3})
	room := int((I - P) / time.Millisecond)
	for _, a := range peers {
		switch profile {
		case 1:
			rd.script[a] = vpRel{nack: true, at: time.Duration(1+r.n(room-10))*time.Millisecond + odd()}
		case 2:
			if r.chance(50) {
				rd.script[a] = vpRel{nack: true, at: I + time.Duration(1+r.n(500))*time.Millisecond + odd()}
			} else {
				rd.script[a] = vpRel{foreign: r.chance(30), at: grid()}
			}
		default:
			rd.script[a] = vpRel{nack: true, at: time.Duration(1+r.n(int(P/time.Millisecond)))*time.Millisecond + odd()}
		}
	}
	switch profile {
	case 1:
		if r.chance(30) {
			rd.dupNacks = 1 + r.n(2)
		}
	case 3:
		rd.dupNacks = 2 + r.n(5)
	}
	return rd
}

func (rd *vpRound) install(tr *vpTr, caseT0 time.Time, rec *vpRec) {
	rec.mu.Lock()
	rec.seq, rec.expectedNacks, rec.tcpStart, rec.first = 0, 0, 0, true
	rec.mu.Unlock()
	note := func(kind int64, seq uint32, at time.Duration) {
		rec.arrivals = append(rec.arrivals, []int64{kind, int64(seq), vpUs(at)})
	}
	tr.sendErr = func(to string, mt messageType) error {
		rec.mu.Lock()
		defer rec.mu.Unlock()
		if mt == pingMsg && rec.first {
			rec.first = false
			switch rd.sendMode {
			case 1:
				return &net.OpError{Op: "write", Net: "udp", Err: fmt.Errorf("connection refused")}
			case 2:
				return fmt.Errorf("no route to host")
			}
		}
		return nil
	}
	tr.onSend = func(to string, mt messageType, body []byte) {
		rec.mu.Lock()
		defer rec.mu.Unlock()
		el := time.Since(caseT0)
		switch mt {
		case pingMsg:
			var p ping
			decode(body, &p)
			rec.seq = p.SeqNo
			if rd.directAck {
				tr.inject(to, ackRespMsg, &ackResp{SeqNo: p.SeqNo}, rd.directAt)
				note(0, p.SeqNo, el+rd.directAt)
				if rd.dupAck {
					tr.inject(to, ackRespMsg, &ackResp{SeqNo: p.SeqNo}, rd.directAt+3*time.Millisecond)
					note(0, p.SeqNo, el+rd.directAt+3*time.Millisecond)
				}
			}
			if rd.foreignAck {
				tr.inject(to, ackRespMsg, &ackResp{SeqNo: p.SeqNo + 1000}, rd.foreignAt)
				note(0, p.SeqNo+1000, el+rd.foreignAt)
				tr.inject(to, nackRespMsg, &nackResp{SeqNo: p.SeqNo + 1000}, rd.foreignAt+time.Millisecond)
				note(1, p.SeqNo+1000, el+rd.foreignAt+time.Millisecond)
			}
			if rd.nextAck {
				tr.inject(to, ackRespMsg, &ackResp{SeqNo: p.SeqNo + 1}, rd.nextAt)
				note(0, p.SeqNo+1, el+rd.nextAt)
			}
		case indirectPingMsg:
			var ind indirectPingReq
			decode(body, &ind)
			if rec.seq == 0 {
				rec.seq = ind.SeqNo
			}
			if ind.Nack {
				rec.expectedNacks++
			}
			sc := rd.script[to]
			if sc.ack {
				tr.inject(to, ackRespMsg, &ackResp{SeqNo: ind.SeqNo}, sc.at)
				note(0, ind.SeqNo, el+sc.at)
			}
			if sc.nack {
				for k := 0; k <= rd.dupNacks; k++ {
					at := sc.at
					if k > 0 {
						at += time.Duration(k)*time.Millisecond + 2*time.Microsecond
					}
					tr.inject(to, nackRespMsg, &nackResp{SeqNo: ind.SeqNo}, at)
					note(1, ind.SeqNo, el+at)
				}
			}
			if sc.foreign {
				tr.inject(to, ackRespMsg, &ackResp{SeqNo: ind.SeqNo + 5}, sc.at)
				note(0, ind.SeqNo+5, el+sc.at)
			}
		}
	}
	tr.dial = func(a Address, d time.Duration) (net.Conn, error) {
		rec.mu.Lock()
		rec.tcpStart = time.Since(caseT0)
		rec.mu.Unlock()
		if rd.tcpMode == 0 {
			return nil, fmt.Errorf("refused")
		}
		if rd.tcpMode == 3 {
			time.Sleep(d)
			return nil, fmt.Errorf("i/o timeout")
		}
		c1, c2 := net.Pipe()
		go func() {
			defer c2.Close()
			buf := make([]byte, 512)
			n, err := c2.Read(buf)
			if err != nil || n < 1 {
				return
			}
			var p ping
			decode(buf[1:n], &p)
			time.Sleep(rd.tcpAt)
			s := p.SeqNo
			if rd.tcpMode == 2 {
				s += 7
			}
			out, _ := encode(ackRespMsg, &ackResp{SeqNo: s}, false)
			c2.Write(out.Bytes())
		}()
		return c1, nil
	}
}

func vpChainCase(r *vfRng, st *vfStats) vfCase {
	tr := &vpTr{pk: make(chan *Packet, 1024), st: make(chan net.Conn)}
	cfg := DefaultLANConfig()
	cfg.Name = "self"
	cfg.Transport = tr
	cfg.Logger = vwDiscard
	cfg.ProbeInterval = time.Second
	cfg.ProbeTimeout = 300 * time.Millisecond
	cfg.IndirectChecks = 1 + r.n(3)
	cfg.DisableTcpPings = r.chance(50)
	cfg.EnableCompression = false
	cfg.AwarenessMaxMultiplier = r.pick([]int{4, 8, 2})
	m, err := newMemberlist(cfg)
	if err != nil {
		panic(err)
	}
	m.setAlive()
	score0 := r.n(cfg.AwarenessMaxMultiplier)
	m.awareness.ApplyDelta(score0)
	tgtPMax := uint8(2 + r.n(3))
	tgtVsn := []uint8{1, tgtPMax, 2, 0, 0, 0}
	m.aliveNode(&alive{Incarnation: 1, Node: "tgt", Addr: []byte{10, 0, 0, 1}, Port: 7946, Vsn: tgtVsn}, nil, false)
	npeers := 1 + r.n(3)
	var peers []string
	for i := 0; i < npeers; i++ {
		pm := uint8(4)
		if r.chance(25) {
			pm = 3
		}
		m.aliveNode(&alive{Incarnation: 1, Node: fmt.Sprintf("p%d", i), Addr: []byte{10, 0, 0, byte(10 + i)}, Port: 7946, Vsn: []uint8{1, pm, 2, 0, 0, 0}}, nil, false)
		peers = append(peers, fmt.Sprintf("10.0.0.%d:7946", 10+i))
	}
	m.broadcasts.Reset()
	P := cfg.ProbeTimeout
	tcpEnabled := !cfg.DisableTcpPings && tgtPMax >= 3
	nprobes := 2 + r.n(2)
	rec := &vpRec{}
	caseT0 := time.Now()
	var rows [][]int64
	cls := ""
	for j := 0; j < nprobes; j++ {
		scoreIn := m.GetHealthScore()
		I := time.Duration(scoreIn+1) * cfg.ProbeInterval
		var profile int
		if j == 0 {
			profile = r.pick([]int{1, 1, 1, 1, 3, 3, 0, 0, 2, 2})
		} else {
			profile = r.pick([]int{2, 2, 2, 2, 0, 0, 1, 1, 3, 2})
		}
		rd := vpGenRound(r, profile, peers, I, P)
		rd.install(tr, caseT0, rec)
		m.nodeLock.RLock()
		tn := *m.nodeMap["tgt"]
		m.nodeLock.RUnlock()
		aliveAtEntry := tn.State == StateAlive
		start := time.Since(caseT0)
		done := make(chan struct{})
		go func() { m.probeNode(&tn); close(done) }()
		<-done
		now := time.Since(caseT0)
		dur := now - start
		// observe once the probe's record is due (start + I), at a whole millisecond: arrivals carry odd
		// microsecond offsets, so nothing ever coincides with a deadline of this probe or of the next
		at := now
		if start+I > at {
			at = start + I
		}
		at += time.Duration(1+r.n(40)) * time.Millisecond
		if r.chance(25) {
			at += 3 * I
		}
		at = (at + time.Millisecond - 1) / time.Millisecond * time.Millisecond
		time.Sleep(at - now)
		synctest.Wait()
		m.nodeLock.RLock()
		ns := m.nodeMap["tgt"]
		suspected := ns.State != StateAlive
		inc := ns.Incarnation
		m.nodeLock.RUnlock()
		m.ackLock.Lock()
		nh := len(m.ackHandlers)
		m.ackLock.Unlock()
		score := m.GetHealthScore()
		live := vpListenerAlive(m, tr, time.Millisecond)
		rec.mu.Lock()
		tm, ab := int64(0), int64(0)
		if rd.tcpMode == 1 {
			tm = 1
		}
		if rd.sendMode == 2 {
			ab = 1
		}
		tcpRel := rec.tcpStart - start + rd.tcpAt
		if tcpRel < 0 {
			tcpRel = 0
		}
		rows = append(rows, []int64{vwBool(suspected), int64(score), int64(nh), ab, vpUs(dur), vpUs(start), int64(rd.sendMode), int64(rec.expectedNacks),
			vwBool(tcpEnabled), tm, vpUs(tcpRel), int64(rec.seq), vwBool(aliveAtEntry), vwBool(live)})
		cls += fmt.Sprintf("|%d,%v,%d,%d,%v", profile, suspected, score-scoreIn, rec.expectedNacks, aliveAtEntry)
		rec.mu.Unlock()
		st.Ops++
		st.OpHist["chained probe"]++
		st.ObsHist[fmt.Sprintf("suspected_%v", suspected)]++
		st.ObsHist[fmt.Sprintf("listener_alive_%v", live)]++
		if !live {
			break
		}
		// mostly the target refutes the suspicion before it is probed again (the verdict of the next probe is then
		// visible in its state); otherwise it is probed while suspect (ping and suspect message in one packet)
		if suspected && j+1 < nprobes && r.chance(75) {
			m.aliveNode(&alive{Incarnation: inc + 1, Node: "tgt", Addr: []byte{10, 0, 0, 1}, Port: 7946, Vsn: tgtVsn}, nil, false)
		}
	}
	// let everything that is still scheduled arrive
	time.Sleep(20 * time.Second)
	synctest.Wait()
	shut := vpShutdown(m)
	c := vfCase{Cfg: []int64{3, int64(cfg.AwarenessMaxMultiplier), vpUs(cfg.ProbeInterval), vpUs(P), int64(score0), vwBool(shut)}}
	rec.mu.Lock()
	c.Ops = rec.arrivals
	rec.mu.Unlock()
	if c.Ops == nil {
		c.Ops = [][]int64{}
	}
	c.Obs = rows
	st.class("3" + cls)
	return c
}

func vpRelayCase(r *vfRng, st *vfStats) vfCase {
	tr := &vpTr{pk: make(chan *Packet, 256), st: make(chan net.Conn)}
	cfg := DefaultLANConfig()
	cfg.Name = "self"
	cfg.Transport = tr
	cfg.Logger = vwDiscard
	cfg.ProbeTimeout = 300 * time.Millisecond
	m, err := newMemberlist(cfg)
	if err != nil {
		panic(err)
	}
	m.setAlive()
	reqSeq := uint32(100 + r.n(5))
	// move the local counter near the requester's number so that a non-fresh number would collide
	for i := 0; i < 30+r.n(8); i++ {
		m.nextSeqNo()
	}
	wantNack := r.chance(60)
	P := cfg.ProbeTimeout
	at := time.Duration(1+r.n(600))*time.Millisecond + time.Duration(1+2*r.n(400))*time.Microsecond
	// 0 silent, 1 ack, 2 ack twice, 3 foreign ack only, 4 late ack and early foreign, 5 the relay's own ping cannot be sent,
	// 6 the target acks in time but handing the ack on to the requester fails once, 7 a third party sends a nack
	// carrying the relay's own fresh number before the target's ack
	mode := r.n(8)
	var arrivals [][]int64
	var localSeq uint32
	acks, nacks, acksOK := 0, 0, 0
	var mu sync.Mutex
	var handlerPanicked atomic.Bool
	if mode == 6 {
		failed := false
		tr.sendErr = func(to string, mt messageType) error {
			mu.Lock()
			defer mu.Unlock()
			if mt == ackRespMsg && to == "10.0.0.50:7946" && !failed {
				failed = true
				// the relay did try to pass the ack on
				acks++
				acksOK++
				return &net.OpError{Op: "write", Net: "udp", Err: fmt.Errorf("sendto: no buffer space available")}
			}
			return nil
		}
	}
	if mode == 5 {
		tr.sendErr = func(to string, mt messageType) error {
			if mt == pingMsg && to == "10.0.0.9:7946" {
				return &net.OpError{Op: "write", Net: "udp", Err: fmt.Errorf("sendto: network is unreachable")}
			}
			return nil
		}
	}
	tr.onSend = func(to string, mt messageType, body []byte) {
		mu.Lock()
		defer mu.Unlock()
		switch {
		case mt == pingMsg && to == "10.0.0.9:7946":
			var p ping
			decode(body, &p)
			localSeq = p.SeqNo
			if mode == 7 {
				// delivered on this goroutine's own stack so that a panic in the handler is observed, not fatal
				seq := p.SeqNo
				go func() {
					time.Sleep(at / 2)
					defer func() {
						if recover() != nil {
							handlerPanicked.Store(true)
						}
					}()
					nb, _ := encode(nackRespMsg, &nackResp{SeqNo: seq}, false)
					m.handleCommand(nb.Bytes(), &net.UDPAddr{IP: net.IP{10, 0, 0, 77}, Port: 7946}, time.Now())
				}()
				arrivals = append(arrivals, []int64{1, 0, vpUs(at / 2)})
			}
			switch mode {
			case 1, 2, 6, 7:
				tr.inject(to, ackRespMsg, &ackResp{SeqNo: p.SeqNo}, at)
				arrivals = append(arrivals, []int64{0, 0, vpUs(at)})
				if mode == 2 {
					tr.inject(to, ackRespMsg, &ackResp{SeqNo: p.SeqNo}, at+5*time.Millisecond)
					arrivals = append(arrivals, []int64{0, 0, vpUs(at + 5*time.Millisecond)})
				}
			case 3:
				tr.inject(to, ackRespMsg, &ackResp{SeqNo: p.SeqNo + 99}, at)
				arrivals = append(arrivals, []int64{0, 99, vpUs(at)})
			case 4:
				tr.inject(to, ackRespMsg, &ackResp{SeqNo: reqSeq}, at/2)
				arrivals = append(arrivals, []int64{0, 99, vpUs(at / 2)})
				tr.inject(to, ackRespMsg, &ackResp{SeqNo: p.SeqNo}, P+at)
				arrivals = append(arrivals, []int64{0, 0, vpUs(P + at)})
			}
		case mt == ackRespMsg && to == "10.0.0.50:7946":
			var a ackResp
			decode(body, &a)
			acks++
			if a.SeqNo == reqSeq {
				acksOK++
			}
		case mt == nackRespMsg && to == "10.0.0.50:7946":
			nacks++
		}
	}
	ind := indirectPingReq{SeqNo: reqSeq, Target: []byte{10, 0, 0, 9}, Port: 7946, Node: "tgt", Nack: wantNack,
		SourceAddr: []byte{10, 0, 0, 50}, SourcePort: 7946, SourceNode: "req"}
	buf, _ := encode(indirectPingMsg, &ind, false)
	m.handleIndirectPing(buf.Bytes()[1:], &net.UDPAddr{IP: net.IP{10, 0, 0, 50}, Port: 7946})
	time.Sleep(4 * P)
	synctest.Wait()
	m.ackLock.Lock()
	nh := len(m.ackHandlers)
	m.ackLock.Unlock()
	c := vfCase{Cfg: []int64{2, int64(reqSeq), vpUs(P), vwBool(wantNack)}}
	c.Ops = arrivals
	if c.Ops == nil {
		c.Ops = [][]int64{}
	}
	live := vpListenerAlive(m, tr, time.Second)
	shut := vpShutdown(m)
	mu.Lock()
	c.Obs = [][]int64{{int64(acks), int64(nacks), int64(acksOK), vwBool(localSeq != reqSeq), int64(nh), vwBool(handlerPanicked.Load()), vwBool(live), vwBool(shut)}}
	mu.Unlock()
	st.ObsHist[fmt.Sprintf("listener_alive_%v", live)]++
	st.Ops++
	st.OpHist["relay"]++
	st.class(fmt.Sprintf("2|%d|%d|%v|%d", acks, nacks, wantNack, mode))
	return c
}

func TestVfProbe(t *testing.T) {
	st := vfNewStats("probe")
	st.Rule = "probeNode against scripted arrivals: direct / indirect acks (own number, foreign numbers, duplicates), nacks, all before or after the timeout and the deadline (odd microsecond offsets, no ties), failed sends (remote / other), TCP fallback refusing / answering / answering with another number, IndirectChecks 0..3, peers speaking protocol 3 or 4, score 0..max-1, targets alive or already suspect; chains of 2-3 consecutive probes on one node (nacks answered / missed / multiplied per probe, late arrivals of one probe landing in the next, an ack carrying the next number, the target refuting in between or probed while suspect), each probe checked with the score chained from the previous one; after every case one more ping must be answered by the packet listener (C13) and Shutdown must return; handleIndirectPing with silent / acking / double-acking / foreign / late targets; distinct = distinct (suspected, score delta, send mode, expected nacks, #arrivals, tcp) tuples"
	var cases []vfCase
	r := &vfRng{s: vfSeed()*15487469 + 70}
	n := vfEnvInt("VF_N", 800)
	// a case that found the node stuck for good (a listener blocked inside a handler: 410, Shutdown not returning: 411)
	// leaves blocked goroutines behind, which the bubble reports as a deadlock when it ends: that report is the finding
	// the case has already recorded, not a reason to lose the run. Any other deadlock is passed on.
	bubble := func(f func()) {
		vpWedged = false
		recorded := false
		defer func() {
			if p := recover(); p != nil {
				if e, ok := p.(error); ok && recorded && vpWedged && strings.HasPrefix(e.Error(), "deadlock:") {
					st.ObsHist["bubble left with goroutines blocked inside the node"]++
					return
				}
				panic(p)
			}
		}()
		synctest.Test(t, func(t *testing.T) {
			f()
			recorded = true
			time.Sleep(time.Hour)
		})
	}
	for i := 0; i < n; i++ {
		bubble(func() {
			if i%4 == 3 {
				cases = append(cases, vpRelayCase(r, st))
			} else {
				cases = append(cases, vpProbeCase(r, st))
			}
		})
		if i%5 == 0 {
			bubble(func() { cases = append(cases, vpChainCase(r, st)) })
		}
	}
	if err := vfEmit(st, cases, "From VF Require Import Raw ProbeCheck.", "ProbeCheck.check_any", true); err != nil {
		t.Fatal(err)
	}
}
