//go:build verif

package memberlist

// C19 harness: real probeNode and handleIndirectPing in a synctest bubble against a scripted
// transport that injects acks / nacks (own, foreign, late, duplicated) at generated virtual
// instants, fails sends, and answers the TCP fallback.
// Internal surface used: newMemberlist, setAlive, aliveNode, probeNode, handleIndirectPing,
// awareness, ackHandlers, nodeMap, encode, decode.

import (
	"fmt"
	"net"
	"sync"
	"sync/atomic"
	"testing"
	"testing/synctest"
	"time"
)

type vpTr struct {
	mu      sync.Mutex
	pk      chan *Packet
	st      chan net.Conn
	onSend  func(to string, mt messageType, body []byte)
	dial    func(a Address, d time.Duration) (net.Conn, error)
	sendErr func(to string, mt messageType) error
}

func (t *vpTr) FinalAdvertiseAddr(string, int) (net.IP, int, error) {
	return net.IP{10, 0, 0, 100}, 7946, nil
}
func (t *vpTr) WriteTo(b []byte, a string) (time.Time, error) {
	return t.WriteToAddress(b, Address{Addr: a})
}
func (t *vpTr) handle(to string, buf []byte) error {
	if len(buf) == 0 {
		return nil
	}
	mt := messageType(buf[0])
	if mt == compoundMsg {
		_, parts, _ := decodeCompoundMessage(buf[1:])
		var first error
		for _, p := range parts {
			if err := t.handle(to, p); err != nil && first == nil {
				first = err
			}
		}
		return first
	}
	if t.sendErr != nil {
		if err := t.sendErr(to, mt); err != nil {
			return err
		}
	}
	if t.onSend != nil {
		t.onSend(to, mt, buf[1:])
	}
	return nil
}
func (t *vpTr) WriteToAddress(b []byte, a Address) (time.Time, error) {
	return time.Now(), t.handle(a.Addr, append([]byte(nil), b...))
}
func (t *vpTr) PacketCh() <-chan *Packet { return t.pk }
func (t *vpTr) DialTimeout(a string, d time.Duration) (net.Conn, error) {
	return t.DialAddressTimeout(Address{Addr: a}, d)
}
func (t *vpTr) DialAddressTimeout(a Address, d time.Duration) (net.Conn, error) {
	if t.dial != nil {
		return t.dial(a, d)
	}
	return nil, fmt.Errorf("refused")
}
func (t *vpTr) StreamCh() <-chan net.Conn { return t.st }
func (t *vpTr) Shutdown() error           { return nil }

func (t *vpTr) inject(from string, mt messageType, v any, after time.Duration) {
	go func() {
		time.Sleep(after)
		buf, _ := encode(mt, v, false)
		ip, _, _ := net.SplitHostPort(from)
		t.pk <- &Packet{Buf: buf.Bytes(), From: &net.UDPAddr{IP: net.ParseIP(ip), Port: 7946}, Timestamp: time.Now()}
	}()
}

func vpUs(d time.Duration) int64 { return int64(d / time.Microsecond) }

func vpProbeCase(r *vfRng, st *vfStats) vfCase {
	tr := &vpTr{pk: make(chan *Packet, 256), st: make(chan net.Conn)}
	cfg := DefaultLANConfig()
	cfg.Name = "self"
	cfg.Transport = tr
	cfg.Logger = vwDiscard
	cfg.ProbeInterval = time.Second
	cfg.ProbeTimeout = 300 * time.Millisecond
	cfg.IndirectChecks = r.n(4)
	cfg.DisableTcpPings = r.chance(40)
	cfg.EnableCompression = false
	cfg.AwarenessMaxMultiplier = r.pick([]int{4, 8, 2})
	m, err := newMemberlist(cfg)
	if err != nil {
		panic(err)
	}
	m.setAlive()
	score0 := r.n(cfg.AwarenessMaxMultiplier)
	m.awareness.ApplyDelta(score0)
	tgtPMax := uint8(2 + r.n(3))
	m.aliveNode(&alive{Incarnation: 1, Node: "tgt", Addr: []byte{10, 0, 0, 1}, Port: 7946, Vsn: []uint8{1, tgtPMax, 2, 0, 0, 0}}, nil, false)
	npeers := r.n(4)
	for i := 0; i < npeers; i++ {
		pm := uint8(3 + r.n(2))
		m.aliveNode(&alive{Incarnation: 1, Node: fmt.Sprintf("p%d", i), Addr: []byte{10, 0, 0, byte(10 + i)}, Port: 7946, Vsn: []uint8{1, pm, 2, 0, 0, 0}}, nil, false)
	}
	m.broadcasts.Reset()
	I := time.Duration(score0+1) * cfg.ProbeInterval
	P := cfg.ProbeTimeout
	grid := func() time.Duration {
		return time.Duration(1+r.n(int(2*I/time.Millisecond)))*time.Millisecond + time.Duration(1+2*r.n(400))*time.Microsecond
	}
	sendMode := r.pick([]int{0, 0, 0, 0, 0, 1, 2})
	directAck, directAt := r.chance(35), grid()
	dupAck := r.chance(15)
	foreignAck, foreignAt := r.chance(40), grid()
	type rel struct {
		ack, nack, foreign bool
		at                 time.Duration
	}
	script := map[string]rel{}
	for i := 0; i < npeers; i++ {
		a := fmt.Sprintf("10.0.0.%d:7946", 10+i)
		switch r.n(4) {
		case 0:
			script[a] = rel{ack: true, at: grid()}
		case 1:
			script[a] = rel{nack: true, at: grid()}
		case 2:
			script[a] = rel{foreign: true, at: grid()}
		default:
			script[a] = rel{}
		}
	}
	// one case in ten: nobody acknowledges, every relay answers with an early nack that the network duplicates, and
	// the health score starts above zero — a failed probe must not IMPROVE it, however many nacks come in
	nackStorm := npeers > 0 && r.chance(10)
	if nackStorm {
		directAck, foreignAck = false, false
		for a := range script {
			script[a] = rel{nack: true, at: time.Duration(1+r.n(int(P/time.Millisecond)))*time.Millisecond + time.Microsecond}
		}
	}
	tcpMode := r.n(4) // 0 refuse, 1 matching ack, 2 ack with another sequence number, 3 the host is gone: the dial waits out whatever timeout it was given
	if nackStorm {
		tcpMode = 0
	}
	tcpAt := grid()
	t0 := time.Now()
	var seq uint32
	expectedNacks := 0
	dupNacks := r.chance(25) || nackStorm
	var arrivals [][]int64
	var mu sync.Mutex
	first := true
	tr.sendErr = func(to string, mt messageType) error {
		if mt == pingMsg && first {
			first = false
			switch sendMode {
			case 1:
				return &net.OpError{Op: "write", Net: "udp", Err: fmt.Errorf("connection refused")}
			case 2:
				return fmt.Errorf("no route to host")
			}
		}
		return nil
	}
	tr.onSend = func(to string, mt messageType, body []byte) {
		mu.Lock()
		defer mu.Unlock()
		el := time.Since(t0)
		switch mt {
		case pingMsg:
			var p ping
			decode(body, &p)
			seq = p.SeqNo
			if directAck {
				tr.inject(to, ackRespMsg, &ackResp{SeqNo: p.SeqNo}, directAt)
				arrivals = append(arrivals, []int64{0, int64(p.SeqNo), vpUs(el + directAt)})
				if dupAck {
					tr.inject(to, ackRespMsg, &ackResp{SeqNo: p.SeqNo}, directAt+3*time.Millisecond)
					arrivals = append(arrivals, []int64{0, int64(p.SeqNo), vpUs(el + directAt + 3*time.Millisecond)})
				}
			}
			if foreignAck {
				tr.inject(to, ackRespMsg, &ackResp{SeqNo: p.SeqNo + 1000}, foreignAt)
				arrivals = append(arrivals, []int64{0, int64(p.SeqNo) + 1000, vpUs(el + foreignAt)})
				tr.inject(to, nackRespMsg, &nackResp{SeqNo: p.SeqNo + 1000}, foreignAt+time.Millisecond)
				arrivals = append(arrivals, []int64{1, int64(p.SeqNo) + 1000, vpUs(el + foreignAt + time.Millisecond)})
			}
		case indirectPingMsg:
			var ind indirectPingReq
			decode(body, &ind)
			if seq == 0 {
				seq = ind.SeqNo
			}
			if ind.Nack {
				expectedNacks++
			}
			sc := script[to]
			if sc.ack {
				tr.inject(to, ackRespMsg, &ackResp{SeqNo: ind.SeqNo}, sc.at)
				arrivals = append(arrivals, []int64{0, int64(ind.SeqNo), vpUs(el + sc.at)})
			}
			if sc.nack {
				tr.inject(to, nackRespMsg, &nackResp{SeqNo: ind.SeqNo}, sc.at)
				arrivals = append(arrivals, []int64{1, int64(ind.SeqNo), vpUs(el + sc.at)})
				if dupNacks {
					// the datagram is duplicated on the way: more nacks than were asked for
					for k := 1; k <= 2; k++ {
						at := sc.at + time.Duration(k)*time.Millisecond + time.Microsecond
						tr.inject(to, nackRespMsg, &nackResp{SeqNo: ind.SeqNo}, at)
						arrivals = append(arrivals, []int64{1, int64(ind.SeqNo), vpUs(el + at)})
					}
				}
			}
			if sc.foreign {
				tr.inject(to, ackRespMsg, &ackResp{SeqNo: ind.SeqNo + 5}, sc.at)
				arrivals = append(arrivals, []int64{0, int64(ind.SeqNo) + 5, vpUs(el + sc.at)})
			}
		}
	}
	var tcpStart time.Duration
	tcpUsed := false
	tr.dial = func(a Address, d time.Duration) (net.Conn, error) {
		tcpUsed = true
		tcpStart = time.Since(t0)
		if tcpMode == 0 {
			return nil, fmt.Errorf("refused")
		}
		if tcpMode == 3 {
			time.Sleep(d)
			return nil, fmt.Errorf("i/o timeout")
		}
		c1, c2 := net.Pipe()
		go func() {
			defer c2.Close()
			buf := make([]byte, 512)
			n, err := c2.Read(buf)
			if err != nil || n < 1 {
				return
			}
			var p ping
			decode(buf[1:n], &p)
			time.Sleep(tcpAt)
			s := p.SeqNo
			if tcpMode == 2 {
				s += 7
			}
			out, _ := encode(ackRespMsg, &ackResp{SeqNo: s}, false)
			c2.Write(out.Bytes())
		}()
		return c1, nil
	}
	m.nodeLock.RLock()
	tn := *m.nodeMap["tgt"]
	m.nodeLock.RUnlock()
	done := make(chan struct{})
	go func() { m.probeNode(&tn); close(done) }()
	<-done
	// how long the probe kept the (single, sequential) probe loop busy
	probeDur := time.Since(t0)
	time.Sleep(3 * I)
	synctest.Wait()
	m.nodeLock.RLock()
	ns := m.nodeMap["tgt"]
	suspected := ns.State != StateAlive
	m.nodeLock.RUnlock()
	m.ackLock.Lock()
	nh := len(m.ackHandlers)
	m.ackLock.Unlock()
	tcpEnabled := !cfg.DisableTcpPings && tgtPMax >= 3
	tm := int64(0)
	if tcpMode == 1 {
		tm = 1
	}
	c := vfCase{Cfg: []int64{1, int64(score0), int64(cfg.AwarenessMaxMultiplier), vpUs(cfg.ProbeInterval), vpUs(P), int64(sendMode), int64(expectedNacks),
		vwBool(tcpEnabled), tm, vpUs(tcpStart + tcpAt), int64(seq)}}
	c.Ops = arrivals
	if c.Ops == nil {
		c.Ops = [][]int64{}
	}
	ab := int64(0)
	if sendMode == 2 {
		ab = 1
	}
	c.Obs = [][]int64{{vwBool(suspected), int64(m.GetHealthScore()), int64(nh), ab, vpUs(probeDur)}}
	_ = tcpUsed
	m.Shutdown()
	st.Ops++
	st.OpHist["probe"]++
	st.ObsHist[fmt.Sprintf("suspected_%v", suspected)]++
	st.class(fmt.Sprintf("1|%v|%d|%d|%d|%d|%v|%d", suspected, m.GetHealthScore()-score0, sendMode, expectedNacks, len(arrivals), tcpEnabled, tcpMode))
	return c
}

func vpRelayCase(r *vfRng, st *vfStats) vfCase {
	tr := &vpTr{pk: make(chan *Packet, 256), st: make(chan net.Conn)}
	cfg := DefaultLANConfig()
	cfg.Name = "self"
	cfg.Transport = tr
	cfg.Logger = vwDiscard
	cfg.ProbeTimeout = 300 * time.Millisecond
	m, err := newMemberlist(cfg)
	if err != nil {
		panic(err)
	}
	m.setAlive()
	reqSeq := uint32(100 + r.n(5))
	// move the local counter near the requester's number so that a non-fresh number would collide
	for i := 0; i < 30+r.n(8); i++ {
		m.nextSeqNo()
	}
	wantNack := r.chance(60)
	P := cfg.ProbeTimeout
	at := time.Duration(1+r.n(600))*time.Millisecond + time.Duration(1+2*r.n(400))*time.Microsecond
	// 0 silent, 1 ack, 2 ack twice, 3 foreign ack only, 4 late ack and early foreign, 5 the relay's own ping cannot be sent,
	// 6 the target acks in time but handing the ack on to the requester fails once, 7 a third party sends a nack
	// carrying the relay's own fresh number before the target's ack
	mode := r.n(8)
	var arrivals [][]int64
	var localSeq uint32
	acks, nacks, acksOK := 0, 0, 0
	var mu sync.Mutex
	var handlerPanicked atomic.Bool
	if mode == 6 {
		failed := false
		tr.sendErr = func(to string, mt messageType) error {
			mu.Lock()
			defer mu.Unlock()
			if mt == ackRespMsg && to == "10.0.0.50:7946" && !failed {
				failed = true
				// the relay did try to pass the ack on
				acks++
				acksOK++
				return &net.OpError{Op: "write", Net: "udp", Err: fmt.Errorf("sendto: no buffer space available")}
			}
			return nil
		}
	}
	if mode == 5 {
		tr.sendErr = func(to string, mt messageType) error {
			if mt == pingMsg && to == "10.0.0.9:7946" {
				return &net.OpError{Op: "write", Net: "udp", Err: fmt.Errorf("sendto: network is unreachable")}
			}
			return nil
		}
	}
	tr.onSend = func(to string, mt messageType, body []byte) {
		mu.Lock()
		defer mu.Unlock()
		switch {
		case mt == pingMsg && to == "10.0.0.9:7946":
			var p ping
			decode(body, &p)
			localSeq = p.SeqNo
			if mode == 7 {
				// delivered on this goroutine's own stack so that a panic in the handler is observed, not fatal
				seq := p.SeqNo
				go func() {
					time.Sleep(at / 2)
					defer func() {
						if recover() != nil {
							handlerPanicked.Store(true)
						}
					}()
					nb, _ := encode(nackRespMsg, &nackResp{SeqNo: seq}, false)
					m.handleCommand(nb.Bytes(), &net.UDPAddr{IP: net.IP{10, 0, 0, 77}, Port: 7946}, time.Now())
				}()
				arrivals = append(arrivals, []int64{1, 0, vpUs(at / 2)})
			}
			switch mode {
			case 1, 2, 6, 7:
				tr.inject(to, ackRespMsg, &ackResp{SeqNo: p.SeqNo}, at)
				arrivals = append(arrivals, []int64{0, 0, vpUs(at)})
				if mode == 2 {
					tr.inject(to, ackRespMsg, &ackResp{SeqNo: p.SeqNo}, at+5*time.Millisecond)
					arrivals = append(arrivals, []int64{0, 0, vpUs(at + 5*time.Millisecond)})
				}
			case 3:
				tr.inject(to, ackRespMsg, &ackResp{SeqNo: p.SeqNo + 99}, at)
				arrivals = append(arrivals, []int64{0, 99, vpUs(at)})
			case 4:
				tr.inject(to, ackRespMsg, &ackResp{SeqNo: reqSeq}, at/2)
				arrivals = append(arrivals, []int64{0, 99, vpUs(at / 2)})
				tr.inject(to, ackRespMsg, &ackResp{SeqNo: p.SeqNo}, P+at)
				arrivals = append(arrivals, []int64{0, 0, vpUs(P + at)})
			}
		case mt == ackRespMsg && to == "10.0.0.50:7946":
			var a ackResp
			decode(body, &a)
			acks++
			if a.SeqNo == reqSeq {
				acksOK++
			}
		case mt == nackRespMsg && to == "10.0.0.50:7946":
			nacks++
		}
	}
	ind := indirectPingReq{SeqNo: reqSeq, Target: []byte{10, 0, 0, 9}, Port: 7946, Node: "tgt", Nack: wantNack,
		SourceAddr: []byte{10, 0, 0, 50}, SourcePort: 7946, SourceNode: "req"}
	buf, _ := encode(indirectPingMsg, &ind, false)
	m.handleIndirectPing(buf.Bytes()[1:], &net.UDPAddr{IP: net.IP{10, 0, 0, 50}, Port: 7946})
	time.Sleep(4 * P)
	synctest.Wait()
	m.ackLock.Lock()
	nh := len(m.ackHandlers)
	m.ackLock.Unlock()
	c := vfCase{Cfg: []int64{2, int64(reqSeq), vpUs(P), vwBool(wantNack)}}
	c.Ops = arrivals
	if c.Ops == nil {
		c.Ops = [][]int64{}
	}
	mu.Lock()
	c.Obs = [][]int64{{int64(acks), int64(nacks), int64(acksOK), vwBool(localSeq != reqSeq), int64(nh), vwBool(handlerPanicked.Load())}}
	mu.Unlock()
	m.Shutdown()
	st.Ops++
	st.OpHist["relay"]++
	st.class(fmt.Sprintf("2|%d|%d|%v|%d", acks, nacks, wantNack, mode))
	return c
}

func TestVfProbe(t *testing.T) {
	st := vfNewStats("probe")
	st.Rule = "probeNode against scripted arrivals: direct / indirect acks (own number, foreign numbers, duplicates), nacks, all before or after the timeout and the deadline (odd microsecond offsets, no ties), failed sends (remote / other), TCP fallback refusing / answering / answering with another number, IndirectChecks 0..3, peers speaking protocol 3 or 4, score 0..max-1, targets alive or already suspect; handleIndirectPing with silent / acking / double-acking / foreign / late targets; distinct = distinct (suspected, score delta, send mode, expected nacks, #arrivals, tcp) tuples"
	var cases []vfCase
	r := &vfRng{s: vfSeed()*15487469 + 70}
	n := vfEnvInt("VF_N", 800)
	for i := 0; i < n; i++ {
		synctest.Test(t, func(t *testing.T) {
			if i%4 == 3 {
				cases = append(cases, vpRelayCase(r, st))
			} else {
				cases = append(cases, vpProbeCase(r, st))
			}
			time.Sleep(time.Hour)
		})
	}
	if err := vfEmit(st, cases, "From VF Require Import Raw ProbeCheck.", "ProbeCheck.check_any", true); err != nil {
		t.Fatal(err)
	}
}
