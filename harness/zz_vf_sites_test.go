//go:build verif

// Structural tie for C15 ("every path that sends ..."): the Wire/Stream models cover rawSendMsgPacket and
// rawSendMsgStream (plus the label header writer).  This scan of the package's current source checks that these
// are the ONLY places where bytes are handed to a transport or written to a connection; a new send path that the
// models do not cover is reported instead of going unnoticed.
package memberlist

import (
	"fmt"
	"go/ast"
	"go/parser"
	"go/token"
	"os"
	"sort"
	"strings"
)

// transports implement the interface; they are below the sealing layer
var vsTransportFiles = map[string]bool{"net_transport.go": true, "transport.go": true, "mock_transport.go": true}

func vsSendSites() (sites []string, err error) {
	fset := token.NewFileSet()
	ents, err := os.ReadDir(".")
	if err != nil {
		return nil, err
	}
	for _, e := range ents {
		name := e.Name()
		if !strings.HasSuffix(name, ".go") || strings.HasSuffix(name, "_test.go") || vsTransportFiles[name] {
			continue
		}
		f, err := parser.ParseFile(fset, name, nil, 0)
		if err != nil {
			return nil, err
		}
		for _, d := range f.Decls {
			fd, ok := d.(*ast.FuncDecl)
			if !ok || fd.Body == nil {
				continue
			}
			ast.Inspect(fd.Body, func(n ast.Node) bool {
				call, ok := n.(*ast.CallExpr)
				if !ok {
					return true
				}
				sel, ok := call.Fun.(*ast.SelectorExpr)
				if !ok {
					return true
				}
				switch sel.Sel.Name {
				case "WriteTo", "WriteToAddress":
					sites = append(sites, fmt.Sprintf("%s:%s:%s", name, fd.Name.Name, sel.Sel.Name))
				case "Write":
					// a write on something that is, by its name, a network connection
					if id, ok := sel.X.(*ast.Ident); ok && (id.Name == "conn" || id.Name == "c" || strings.HasSuffix(strings.ToLower(id.Name), "conn") && id.Name != "bufConn") {
						sites = append(sites, fmt.Sprintf("%s:%s:%s.Write", name, fd.Name.Name, id.Name))
					}
				}
				return true
			})
		}
	}
	sort.Strings(sites)
	return sites, nil
}

// the sites the models cover
var vsExpected = []string{"label.go:AddLabelHeaderToStream:conn.Write", "net.go:rawSendMsgPacket:WriteToAddress", "net.go:rawSendMsgStream:conn.Write"}

func vsCheckSendSites(st *vfStats) {
	sites, err := vsSendSites()
	if err != nil {
		st.Extra["oracle_send_sites"] = "cannot scan the package source: " + err.Error()
		return
	}
	st.Extra["send_sites"] = sites
	if strings.Join(sites, " ") != strings.Join(vsExpected, " ") {
		st.Extra["oracle_send_sites"] = fmt.Sprintf("the places where bytes reach the network are %v, the models cover %v", sites, vsExpected)
	}
}
