//go:build verif

package memberlist

// Stream-path harness (C09; stream halves of C12 C13 C14 C15 C16): real pushPullNode /
// sendUserMsg / sendPingAndWaitForAck on an initiator writing into a recording connection,
// real handleConn on a host reading genuine, cut (every prefix), tampered, mislabelled,
// oversized (declared sizes, decompression bombs) and hostile byte streams from a fake connection; the exported
// stream label functions on one and on several interleaved streams; real Join between two nodes over
// in-memory pipes with vetoing merge delegates; verifyProtocol on random version matrices.
// Internal surface used: newMemberlist, pushPullNode, sendUserMsg, sendPingAndWaitForAck,
// handleConn, verifyProtocol, aliveNode, nodes/nodeMap, encode.

import (
	"runtime"
	"bytes"
	"crypto/aes"
	"crypto/cipher"
	crand "crypto/rand"
	"fmt"
	"io"
	"net"
	"sort"
	"strings"
	"sync"
	"testing"
	"testing/synctest"
	"time"
)

// ---- fake connection ----
type vtConn struct {
	failWrite bool
	mu       sync.Mutex
	rd       []byte
	chunk    int
	wr       bytes.Buffer
	closed   bool
	consumed int
	// called once, from Read, as soon as this many bytes have been handed out
	hookAt int
	hook   func()
}

func (c *vtConn) Read(p []byte) (int, error) {
	c.mu.Lock()
	defer c.mu.Unlock()
	if len(c.rd) == 0 {
		return 0, io.EOF
	}
	n := len(p)
	if c.chunk > 0 && n > c.chunk {
		n = c.chunk
	}
	if n > len(c.rd) {
		n = len(c.rd)
	}
	copy(p, c.rd[:n])
	c.rd = c.rd[n:]
	c.consumed += n
	if c.hook != nil && c.consumed >= c.hookAt {
		h := c.hook
		c.hook = nil
		h()
	}
	return n, nil
}
func (c *vtConn) Write(p []byte) (int, error) {
	c.mu.Lock()
	defer c.mu.Unlock()
	if c.closed || c.failWrite {
		return 0, io.ErrClosedPipe
	}
	return c.wr.Write(p)
}
func (c *vtConn) Close() error {
	c.mu.Lock()
	c.closed = true
	c.mu.Unlock()
	return nil
}
func (c *vtConn) LocalAddr() net.Addr  { return &net.TCPAddr{IP: net.IP{10, 0, 0, 100}, Port: 7946} }
func (c *vtConn) RemoteAddr() net.Addr { return &net.TCPAddr{IP: net.IP{10, 0, 0, 50}, Port: 40000} }
func (c *vtConn) SetDeadline(time.Time) error      { return nil }
func (c *vtConn) SetReadDeadline(time.Time) error  { return nil }
func (c *vtConn) SetWriteDeadline(time.Time) error { return nil }

// transport whose dials hand out a prepared connection
type vtTransport struct {
	*vwTap
	next func() net.Conn
}

func (t *vtTransport) DialAddressTimeout(a Address, d time.Duration) (net.Conn, error) {
	if t.next == nil {
		return nil, fmt.Errorf("no route")
	}
	return t.next(), nil
}
func (t *vtTransport) DialTimeout(a string, d time.Duration) (net.Conn, error) {
	return t.DialAddressTimeout(Address{Addr: a}, d)
}

type vtDelegate struct {
	mu        sync.Mutex
	state     []byte
	merged    [][]byte
	msgs      [][]byte
	mergeCall int
}

func (d *vtDelegate) NodeMeta(int) []byte { return nil }
func (d *vtDelegate) NotifyMsg(b []byte) {
	d.mu.Lock()
	d.msgs = append(d.msgs, append([]byte(nil), b...))
	d.mu.Unlock()
}
func (d *vtDelegate) GetBroadcasts(int, int) [][]byte { return nil }
func (d *vtDelegate) LocalState(bool) []byte          { return d.state }
func (d *vtDelegate) MergeRemoteState(b []byte, join bool) {
	d.mu.Lock()
	d.merged = append(d.merged, append([]byte(nil), b...))
	d.mu.Unlock()
}
func (d *vtDelegate) calls() int {
	d.mu.Lock()
	defer d.mu.Unlock()
	return len(d.merged) + len(d.msgs)
}

type vtMerge struct {
	veto  bool
	calls int
}

func (v *vtMerge) NotifyMerge(peers []*Node) error {
	v.calls++
	if v.veto {
		return fmt.Errorf("merge vetoed")
	}
	return nil
}

type vtNode struct {
	m   *Memberlist
	tr  *vtTransport
	del *vtDelegate
	mg  *vtMerge
	cfg vwNodeCfg
}

func vtMake(c vwNodeCfg, members []string, userState []byte, veto *vtMerge, background bool) *vtNode {
	conf := DefaultLANConfig()
	conf.Name = c.name
	tr := &vtTransport{vwTap: newVwTap()}
	conf.Transport = tr
	conf.Logger = vwDiscard
	conf.Label = c.label
	conf.SkipInboundLabelCheck = c.skip
	if len(c.keys) > 0 {
		var ks [][]byte
		for _, id := range c.keys {
			ks = append(ks, vwKeys[id])
		}
		kr, err := NewKeyring(ks, ks[0])
		if err != nil {
			panic(err)
		}
		conf.Keyring = kr
	}
	conf.GossipVerifyOutgoing = c.vout
	conf.GossipVerifyIncoming = c.vin
	conf.ProtocolVersion = c.pv
	conf.EnableCompression = c.compress
	conf.TCPTimeout = 2 * time.Second
	del := &vtDelegate{state: userState}
	conf.Delegate = del
	if veto != nil {
		conf.Merge = veto
	}
	m, err := newMemberlist(conf)
	if err != nil {
		panic(err)
	}
	if err := m.setAlive(); err != nil {
		panic(err)
	}
	for i, n := range members {
		m.aliveNode(&alive{Incarnation: 1, Node: n, Addr: []byte{10, 0, 1, byte(i + 1)}, Port: 7946, Meta: []byte("m" + n), Vsn: []uint8{1, 5, c.pv, 0, 0, 0}}, nil, false)
	}
	if !background {
		m.Shutdown()
		synctest.Wait()
	}
	return &vtNode{m, tr, del, veto, c}
}

func (n *vtNode) snapshot() string {
	n.m.nodeLock.RLock()
	defer n.m.nodeLock.RUnlock()
	var s []string
	for name, st := range n.m.nodeMap {
		s = append(s, fmt.Sprintf("%s/%d/%d/%s", name, st.State, st.Incarnation, st.Meta))
	}
	sort.Strings(s)
	return strings.Join(s, ",")
}
func (n *vtNode) lists(name string) bool {
	for _, m := range n.m.Members() {
		if m.Name == name {
			return true
		}
	}
	return false
}

// feed a byte stream to the host's real handleConn
type vtFeed struct {
	pan, changed, wrote, closed bool
	dcalls, consumed          int
	reply                     []byte
}

func (h *vtNode) feed(stream []byte, chunk int) vtFeed { return h.feedW(stream, chunk, false) }

func (h *vtNode) feedW(stream []byte, chunk int, failWrite bool) vtFeed {
	return h.feedH(stream, chunk, failWrite, 0, nil)
}

func (h *vtNode) feedH(stream []byte, chunk int, failWrite bool, hookAt int, hook func()) vtFeed {
	before := h.snapshot()
	d0 := h.del.calls()
	mg0 := 0
	if h.mg != nil {
		mg0 = h.mg.calls
	}
	conn := &vtConn{rd: append([]byte(nil), stream...), chunk: chunk, failWrite: failWrite, hookAt: hookAt, hook: hook}
	var f vtFeed
	func() {
		defer func() {
			if recover() != nil {
				f.pan = true
			}
		}()
		h.m.handleConn(conn)
	}()
	synctest.Wait()
	f.changed = h.snapshot() != before
	f.dcalls = h.del.calls() - d0
	if h.mg != nil {
		f.dcalls += h.mg.calls - mg0
	}
	f.wrote = conn.wr.Len() > 0
	f.closed = conn.closed
	f.consumed = conn.consumed
	f.reply = append([]byte(nil), conn.wr.Bytes()...)
	return f
}

// a peer that connects, sends a few bytes and then stalls with the connection held open: the handler must give
// up after TCPTimeout (net.Pipe honours deadlines; the fake connection above does not)
func (h *vtNode) stall(prefix []byte) vtFeed {
	before := h.snapshot()
	c1, c2 := net.Pipe()
	done := make(chan struct{})
	var f vtFeed
	go func() {
		defer close(done)
		defer func() {
			if recover() != nil {
				f.pan = true
			}
		}()
		h.m.handleConn(c1)
	}()
	go func() {
		if len(prefix) > 0 {
			c2.Write(prefix)
		}
	}()
	time.Sleep(h.m.config.TCPTimeout + time.Second)
	synctest.Wait()
	released := false
	select {
	case <-done:
		released = true
	default:
	}
	c2.Close()
	<-done
	synctest.Wait()
	f.closed = released
	f.changed = h.snapshot() != before
	f.consumed = len(prefix)
	return f
}

func vtLabelHeader(label string) []byte {
	if label == "" {
		return nil
	}
	return append([]byte{244, byte(len(label))}, []byte(label)...)
}

// stdlib open of an encrypted stream frame: encryptMsg | len32 | vsn | nonce | ct ; AAD = frame[:5] | label
func vtOpenFrame(frame []byte, label string, keyID int) (entry []int64, plain []byte, ok bool) {
	if len(frame) < 5+1+12+16 || frame[0] != byte(encryptMsg) {
		return nil, nil, false
	}
	n := int(frame[1])<<24 | int(frame[2])<<16 | int(frame[3])<<8 | int(frame[4])
	if len(frame) != 5+n {
		return nil, nil, false
	}
	aad := append(append([]byte(nil), frame[:5]...), []byte(label)...)
	blk, err := aes.NewCipher(vwKeys[keyID])
	if err != nil {
		return nil, nil, false
	}
	gcm, _ := cipher.NewGCM(blk)
	body := frame[5:]
	p, err := gcm.Open(nil, body[1:13], body[13:], aad)
	if err != nil {
		return nil, nil, false
	}
	e := []int64{1, int64(keyID)}
	e = append(e, vwB(body[1:13])...)
	e = append(e, vwCounted(aad)...)
	e = append(e, vwCounted(p)...)
	e = append(e, vwB(body[13:])...)
	plain = p
	if body[0] == 0 && len(p) > 0 { // PKCS7, independently of the package
		if k := int(p[len(p)-1]); k >= 1 && k <= len(p) {
			plain = p[:len(p)-k]
		}
	}
	return e, plain, true
}

func vtSealFrame(plain []byte, label string, keyID int, vsn byte) []byte {
	blk, _ := aes.NewCipher(vwKeys[keyID])
	gcm, _ := cipher.NewGCM(blk)
	nonce := make([]byte, 12)
	crand.Read(nonce)
	src := plain
	if vsn == 0 {
		pad := 16 - len(plain)%16
		src = append(append([]byte(nil), plain...), bytes.Repeat([]byte{byte(pad)}, pad)...)
	}
	n := 1 + 12 + len(src) + 16
	hdr := []byte{byte(encryptMsg), byte(n >> 24), byte(n >> 16), byte(n >> 8), byte(n)}
	aad := append(append([]byte(nil), hdr...), []byte(label)...)
	out := append(append([]byte(nil), hdr...), vsn)
	out = append(out, nonce...)
	return append(out, gcm.Seal(nil, nonce, src, aad)...)
}

func vtFrameCase(c vwNodeCfg, frame []byte, label string, clear [][]byte, st *vfStats) vfCase {
	cs := vfCase{Cfg: vwCfg(11, 0, c, c, 0, 0)}
	enforced := len(c.keys) > 0 && c.vout
	plain := frame
	sealed, leak := true, false
	cs.Ops = [][]int64{vwB(frame), nil}
	if enforced {
		e, p, ok := vtOpenFrame(frame, label, c.keys[0])
		sealed = ok
		if ok {
			cs.Ops = append(cs.Ops, e)
			plain = p
		}
		for _, cl := range clear {
			if len(cl) >= 8 && bytes.Contains(frame, cl) {
				leak = true
			}
		}
	}
	cs.Ops[1] = vwB(plain)
	cs.Obs = [][]int64{{vwBool(sealed), vwBool(leak)}}
	st.Ops++
	st.OpHist["frame"]++
	st.class(fmt.Sprintf("11|%v|%d|%d|%v", enforced, c.pv, len(label), c.compress))
	return cs
}

func vtFeedCase(class int, rc vwNodeCfg, sender vwNodeCfg, stream []byte, f vtFeed, effOK, labOK bool, st *vfStats) vfCase {
	cs := vfCase{Cfg: vwCfg(12, 0, sender, rc, 0, class)}
	body := stream
	if lh := vtLabelHeader(rc.label); len(lh) > 0 && bytes.HasPrefix(stream, lh) {
		body = stream[len(lh):]
	}
	if len(body) > 4096 {
		body = body[:4096] // the model only looks at the framing layer
	}
	cs.Ops = [][]int64{vwB(body)}
	if labOK && len(rc.keys) > 0 && len(stream) <= 4096+300 {
		full := stream
		if lh := vtLabelHeader(rc.label); len(lh) > 0 && bytes.HasPrefix(stream, lh) {
			full = stream[len(lh):]
		}
		for _, k := range rc.keys {
			if e, plain, ok := vtOpenFrame(full, rc.label, k); ok {
				cs.Ops = append(cs.Ops, e)
				var de [][]int64
				vwCollectDecomp(plain, 4, &de)
				cs.Ops = append(cs.Ops, de...)
				break
			}
		}
	}
	cs.Obs = [][]int64{{vwBool(f.pan), vwBool(f.changed), int64(f.dcalls), vwBool(f.wrote), vwBool(f.closed), vwBool(effOK), int64(f.consumed), vwBool(labOK && len(stream) <= 4096+300)}}
	st.Ops++
	st.OpHist[fmt.Sprintf("feed_class_%d", class)]++
	if f.pan {
		st.Panics++
	}
	st.class(fmt.Sprintf("12|%d|%v|%v|%d|%v|%d|%d", class, f.changed, f.wrote, f.dcalls, f.pan, len(rc.keys), rc.pv))
	return cs
}


// one round: an initiator and a host under one random configuration
func vtRound(r *vfRng, st *vfStats, allCuts bool, round int) []vfCase {
	var out []vfCase
	label := vwLabels[r.pick([]int{0, 0, 2, 5})]
	var keys []int
	if r.chance(60) {
		keys = []int{1 + r.n(3)}
		if r.chance(40) {
			keys = append(keys, 4)
		}
	}
	pv := uint8(r.pick([]int{1, 2, 5}))
	base := vwNodeCfg{label: label, keys: keys, vout: true, vin: true, pv: pv, compress: r.chance(50)}
	// the first rounds of every run are fixed corners of the configuration space
	switch round {
	case 0: // short label, encryption, no compression: small messages travel in a bare encryption frame
		base.label, base.keys, base.compress = "blue", []int{1}, false
	case 1: // no label, two keys, compression
		base.label, base.keys, base.compress = "", []int{2, 4}, true
	case 2: // the longest label there is (255 bytes), no encryption
		base.label, base.keys = vwLabels[5], nil
	}
	label, keys = base.label, base.keys
	ic, hc := base, base
	ic.name, hc.name = "ini", "hst"
	ustate := [][]byte{nil, []byte("U"), bytes.Repeat([]byte{'s'}, 5000)}[r.n(3)]
	ini := vtMake(ic, []string{"ia", "ib"}, ustate, nil, false)
	host := vtMake(hc, []string{"ha"}, []byte("H-state"), nil, false)
	addr := Address{Addr: "10.0.0.1:7946", Name: "hst"}

	capture := func(f func()) []byte {
		rec := &vtConn{}
		ini.tr.next = func() net.Conn { return rec }
		f()
		ini.tr.next = nil
		return append([]byte(nil), rec.wr.Bytes()...)
	}
	// ---- push/pull request ----
	join := r.chance(50)
	req := capture(func() { ini.m.pushPullNode(addr, join) })
	lh := vtLabelHeader(label)
	if !bytes.HasPrefix(req, lh) || len(req) <= len(lh) {
		st.Extra["oracle_label_header_missing"] = fmt.Sprintf("label %q: stream starts %v", label, req[:vfMin(len(req), 8)])
		return nil
	}
	out = append(out, vtFrameCase(ic, req[len(lh):], label, [][]byte{[]byte("ia"), ustate}, st))
	// genuine, complete, in chunks of various sizes (fragmentation also inside the label header)
	for _, chunk := range []int{0, 1, 2, 3, 7} {
		h := vtMake(hc, []string{"ha"}, []byte("H-state"), nil, false)
		f := h.feed(req, chunk)
		eff := h.lists("ia") && h.lists("ib") && h.lists("ini") && f.wrote
		if ustate != nil {
			eff = eff && len(h.del.merged) == 1 && bytes.Equal(h.del.merged[0], ustate)
		}
		out = append(out, vtFeedCase(1, hc, ic, req, f, eff, true, st))
		if chunk == 0 {
			// the host's reply is a stream write too (no label header on the way back)
			out = append(out, vtFrameCase(hc, f.reply, label, [][]byte{[]byte("H-state")}, st))
			// ---- the initiator reading the reply: complete, then cut at every offset ----
			resp := f.reply
			readResp := func(b []byte) (changed bool, dcalls int, err error) {
				before := ini.snapshot()
				d0 := ini.del.calls()
				ini.tr.next = func() net.Conn { return &vtConn{rd: append([]byte(nil), b...)} }
				err = ini.m.pushPullNode(addr, join)
				ini.tr.next = nil
				synctest.Wait()
				return ini.snapshot() != before, ini.del.calls() - d0, err
			}
			offs := vtOffsets(r, len(resp), allCuts)
			for _, n := range offs {
				ch, dc, err := readResp(resp[:n])
				f2 := vtFeed{changed: ch, dcalls: dc, closed: true}
				if err == nil {
					f2.changed = true // a cut reply reported as success is an effect by itself
				}
				out = append(out, vtFeedCase(2, ic, hc, resp[:n], f2, false, false, st))
			}
		}
	}
	// ---- a host in the middle of a key rotation: the sender's key is installed but is not the host's primary ----
	if len(keys) > 1 {
		sc := hc
		sc.keys = []int{keys[1], keys[0]}
		h := vtMake(sc, []string{"ha"}, []byte("H-state"), nil, false)
		f := h.feed(req, 0)
		eff := h.lists("ia") && h.lists("ib") && h.lists("ini") && f.wrote
		if ustate != nil {
			eff = eff && len(h.del.merged) == 1 && bytes.Equal(h.del.merged[0], ustate)
		}
		out = append(out, vtFeedCase(1, sc, ic, req, f, eff, true, st))
	}
	// ---- the reply cannot be delivered (the initiator is gone): the exchange failed for the
	//      initiator, so the host must not have merged its state either ----
	{
		h := vtMake(hc, []string{"ha"}, []byte("H-state"), nil, false)
		f := h.feedW(req, 0, true)
		out = append(out, vtFeedCase(8, hc, ic, req, f, false, true, st))
	}
	// ---- cut at every byte offset (request direction) ----
	for _, n := range vtOffsets(r, len(req), allCuts) {
		f := host.feed(req[:n], 0)
		out = append(out, vtFeedCase(2, hc, ic, req[:n], f, false, true, st))
	}
	// ---- a peer that stalls: nothing at all, inside the label header, right after it, inside the frame header ----
	{
		cuts := map[int]bool{0: true, 1: true, 2: true, len(lh) / 2: true, len(lh): true, len(lh) + 1: true, len(lh) + 3: true}
		for n := range cuts {
			if n <= len(req) {
				h := vtMake(hc, []string{"ha"}, nil, nil, false)
				out = append(out, vtFeedCase(10, hc, ic, req[:n], h.stall(req[:n]), false, false, st))
			}
		}
	}
	// ---- other label: unrelated ones, prefixes / extensions, and labels that differ from the sender's only in
	//      letter case or a surrounding blank (a node acts on traffic carrying EXACTLY its label) ----
	for _, other := range append([]string{"", "blu", "blue2", "red"}, vwNearLabels(label)...) {
		if other == label {
			continue
		}
		oc := hc
		oc.label = other
		h := vtMake(oc, []string{"ha"}, nil, nil, false)
		f := h.feed(req, 0)
		out = append(out, vtFeedCase(5, oc, ic, req, f, false, false, st))
		// the same stranger sending something the reader cannot make sense of: still no reply of any kind
		for _, body := range [][]byte{{0xff, 1, 2, 3}, {byte(compressMsg), 0x81, 0xa3}, append([]byte{byte(encryptMsg), 0, 0, 0, 40}, bytes.Repeat([]byte{9}, 40)...), {byte(pingMsg)}} {
			bad := append(append([]byte(nil), lh...), body...)
			h2 := vtMake(oc, []string{"ha"}, nil, nil, false)
			f2 := h2.feed(bad, 0)
			out = append(out, vtFeedCase(5, oc, ic, bad, f2, false, false, st))
		}
	}
	if len(keys) > 0 {
		// ---- tampered ciphertext: every header byte, sampled body bytes ----
		for k := 0; k < 10; k++ {
			pos := len(lh) + r.n(len(req)-len(lh))
			if k < 6 {
				pos = len(lh) + k // encryptMsg, 4 length bytes, version
			}
			f := host.feed(vwFlip(req, pos, uint(r.n(8))), 0)
			// a flipped version byte is the known finding of C14 on packets; on streams the AAD
			// covers the length, and the PKCS7 check rejects most; still: no effect expected
			class := 3
			if pos == len(lh)+5 {
				continue
			}
			out = append(out, vtFeedCase(class, hc, ic, vwFlip(req, pos, 0), f, false, true, st))
		}
		// ---- no key at all: a peer without encryption sends the same request in clear; and answers in clear ----
		{
			pc := ic
			pc.keys = nil
			pini := vtMake(pc, []string{"ia", "ib"}, ustate, nil, false)
			prec := &vtConn{}
			pini.tr.next = func() net.Conn { return prec }
			pini.m.pushPullNode(addr, join)
			pini.tr.next = nil
			preq := append([]byte(nil), prec.wr.Bytes()...)
			hp := vtMake(hc, []string{"ha"}, []byte("H-state"), nil, false)
			out = append(out, vtFeedCase(9, hc, pc, preq, hp.feed(preq, 0), false, true, st))
			phc := hc
			phc.keys = nil
			ph := vtMake(phc, []string{"ha"}, []byte("H-state"), nil, false)
			if pf := ph.feed(preq, 0); len(pf.reply) > 0 {
				before := ini.snapshot()
				d0 := ini.del.calls()
				ini.tr.next = func() net.Conn { return &vtConn{rd: append([]byte(nil), pf.reply...)} }
				err := ini.m.pushPullNode(addr, join)
				ini.tr.next = nil
				synctest.Wait()
				f2 := vtFeed{changed: ini.snapshot() != before || err == nil, dcalls: ini.del.calls() - d0, closed: true}
				out = append(out, vtFeedCase(9, ic, phc, pf.reply, f2, false, false, st))
			}
		}
		// ---- foreign key / removed key ----
		fc := hc
		fc.keys = []int{3}
		if keys[0] == 3 {
			fc.keys = []int{1}
		}
		hf := vtMake(fc, []string{"ha"}, nil, nil, false)
		out = append(out, vtFeedCase(7, fc, ic, req, hf.feed(req, 0), false, true, st))
		if len(keys) > 1 {
			// the receiver rotates: uses the other key, removes the sender's
			hr := vtMake(hc, []string{"ha"}, nil, nil, false)
			hr.m.config.Keyring.UseKey(vwKeys[keys[1]])
			// first let it see one genuine message, then remove the key
			hr.feed(req, 0)
			hr.m.config.Keyring.RemoveKey(vwKeys[keys[0]])
			rc := hc
			rc.keys = []int{keys[1]}
			out = append(out, vtFeedCase(7, rc, ic, req, hr.feed(req, 0), false, true, st))
			// the key is removed while the frame is arriving: header and one ciphertext byte are in, the
			// removal completes, the rest follows.  Only keys installed when the frame is opened count.
			hm := vtMake(hc, []string{"ha"}, nil, nil, false)
			hm.m.config.Keyring.UseKey(vwKeys[keys[1]])
			fm := hm.feedH(req, 2, false, len(lh)+5+1, func() { hm.m.config.Keyring.RemoveKey(vwKeys[keys[0]]) })
			out = append(out, vtFeedCase(7, rc, ic, req, fm, false, true, st))
		}
		// ---- an authentic frame with an EMPTY plaintext, and one whose plaintext is a lone type byte ----
		for _, pl := range [][]byte{{}, {byte(pushPullMsg)}, {byte(compressMsg)}} {
			fr := append(append([]byte(nil), lh...), vtSealFrame(pl, label, keys[0], byte(vwEncVsn(pv)))...)
			out = append(out, vtFeedCase(4, hc, ic, fr, host.feed(fr, 0), false, true, st))
		}
		// ---- declared encrypted length beyond the cap ----
		big := append(append([]byte(nil), lh...), byte(encryptMsg), 0x7f, 0xff, 0xff, 0xff)
		big = append(big, make([]byte, 1<<20)...)
		out = append(out, vtFeedCase(6, hc, ic, big, host.feed(big, 0), false, true, st))
	}
	// ---- user message, also the empty one ----
	payloads := [][]byte{{}, []byte("x"), bytes.Repeat([]byte{0xab}, 9000)}
	if len(keys) > 0 {
		// every residue of the plaintext length modulo the cipher block size
		for n := 2; n <= 34; n++ {
			payloads = append(payloads, bytes.Repeat([]byte{byte(n)}, n))
		}
	}
	for _, payload := range payloads {
		ureq := capture(func() { ini.m.sendUserMsg(addr, payload) })
		if len(ureq) <= len(lh) {
			continue
		}
		out = append(out, vtFrameCase(ic, ureq[len(lh):], label, [][]byte{payload}, st))
		h := vtMake(hc, nil, nil, nil, false)
		f := h.feed(ureq, r.pick([]int{0, 1, 5}))
		eff := len(h.del.msgs) == 1 && bytes.Equal(h.del.msgs[0], payload)
		out = append(out, vtFeedCase(1, hc, ic, ureq, f, eff, true, st))
		for _, n := range vtOffsets(r, len(ureq), false)[:vfMin(12, len(ureq))] {
			f := h.feed(ureq[:n], 0)
			f.dcalls = len(h.del.msgs) - 1
			if !eff {
				f.dcalls = len(h.del.msgs)
			}
			out = append(out, vtFeedCase(2, hc, ic, ureq[:n], f, false, true, st))
		}
	}
	// ---- TCP fallback ping ----
	preq := capture(func() {
		ini.m.sendPingAndWaitForAck(addr, ping{SeqNo: 77, Node: "hst"}, time.Now().Add(time.Second))
	})
	if len(preq) > len(lh) {
		out = append(out, vtFrameCase(ic, preq[len(lh):], label, nil, st))
		f := host.feed(preq, 0)
		out = append(out, vtFeedCase(1, hc, ic, preq, f, f.wrote && !f.changed, true, st))
		if f.wrote {
			out = append(out, vtFrameCase(hc, f.reply, label, nil, st))
		}
	}
	// ---- plaintext hostile streams towards a host that does not authenticate ----
	pc := hc
	pc.keys = nil
	ph := vtMake(pc, []string{"ha"}, nil, nil, false)
	pic := ic
	pic.keys = nil
	pini := vtMake(pic, []string{"ia"}, []byte("U"), nil, false)
	rec := &vtConn{}
	pini.tr.next = func() net.Conn { return rec }
	pini.m.pushPullNode(addr, false)
	preqPlain := append([]byte(nil), rec.wr.Bytes()...)
	for _, big := range [][]byte{bytes.Repeat([]byte{'B'}, 5000), bytes.Repeat([]byte{'C'}, 20000)} {
		bic := pic
		bic.compress = false
		bini := vtMake(bic, []string{"ia"}, big, nil, false)
		brec := &vtConn{}
		bini.tr.next = func() net.Conn { return brec }
		bini.m.pushPullNode(addr, false)
		breq := append([]byte(nil), brec.wr.Bytes()...)
		bhc := pc
		bhc.compress = false
		bh := vtMake(bhc, []string{"ha"}, nil, nil, false)
		f := bh.feed(breq, 0)
		eff := bh.lists("ia") && len(bh.del.merged) == 1 && bytes.Equal(bh.del.merged[0], big)
		fc := vtFeedCase(1, bhc, bic, breq[:vfMin(len(breq), 300)], f, eff, true, st)
		out = append(out, fc)
	}
	for k := 0; k < 12 && len(preqPlain) > len(lh)+1; k++ {
		m := append([]byte(nil), preqPlain...)
		m[len(lh)+r.n(len(m)-len(lh))] = byte(r.n(256))
		before := ph.snapshot()
		f := ph.feed(m, 0)
		// a mutation may still decode: then the effect must be a plain push/pull merge (names change is fine)
		_ = before
		out = append(out, vtFeedCase(4, pc, pic, m, f, true, true, st))
	}
	// a plain, uncompressed exchange carrying user state, cut at EVERY offset: no envelope (compression
	// or encryption frame) hides the boundary between the node list and the user state here
	{
		qic := pic
		qic.compress = false
		qini := vtMake(qic, []string{"ia", "ib"}, []byte("USER-STATE"), nil, false)
		qrec := &vtConn{}
		qini.tr.next = func() net.Conn { return qrec }
		qini.m.pushPullNode(addr, false)
		qreq := append([]byte(nil), qrec.wr.Bytes()...)
		qhc := pc
		qhc.compress = false
		qh := vtMake(qhc, []string{"ha"}, []byte("H-state"), nil, false)
		for n := 0; n < len(qreq); n++ {
			f := qh.feed(qreq[:n], 0)
			out = append(out, vtFeedCase(2, qhc, qic, qreq[:n], f, false, true, st))
		}
	}
	// the cap on concurrent push/pulls: with the limit reached a further request is refused before its
	// (large) state is read
	{
		bigU := bytes.Repeat([]byte{'D'}, 300000)
		cic := pic
		cic.compress = false
		cini := vtMake(cic, []string{"ia"}, bigU, nil, false)
		crec := &vtConn{}
		cini.tr.next = func() net.Conn { return crec }
		cini.m.pushPullNode(addr, false)
		creq := append([]byte(nil), crec.wr.Bytes()...)
		chc := pc
		chc.compress = false
		ch := vtMake(chc, []string{"ha"}, nil, nil, false)
		ch.m.pushPullReq.Store(maxPushPullRequests - 1)
		f := ch.feed(creq, 0)
		ch.m.pushPullReq.Store(0)
		out = append(out, vtFeedCase(6, chc, cic, creq[:vfMin(len(creq), 300)], f, false, true, st))
	}
	// ---- a decompression bomb on the stream path: a compressed (and, with keys, encrypted) push/pull whose node
	//      count and user-state length are inside their own limits and which is tiny on the wire, but which inflates
	//      beyond the cap on decompressed data (40 MiB).  Written by a real initiator whose member list carries large,
	//      highly compressible metadata.  The receiver must refuse it before any of it is merged or handed to a
	//      delegate.  A twin below the cap, built the same way, must be merged (so the refusal is not an accident of
	//      the construction).  One or two per run: the two fixed rounds, rarely afterwards. ----
	if round < 2 || r.chance(8) {
		const capBytes = 40 << 20
		meta := r.pick([]int{64 << 10, 256 << 10, 1 << 20})
		var bigU []byte
		budget := capBytes
		if r.chance(35) {
			// the user state alone is at (not over) its own limit; the node list takes the total over the cap
			bigU = make([]byte, 20<<20)
			budget -= len(bigU)
		}
		bc := ic
		bc.name = "bomber"
		bjoin := r.chance(50)
		twinN := 3 + r.n(6)
		twin := vtBulkRequest(bc, twinN, meta, []byte("twin-state"), addr, bjoin)
		bomb := vtBulkRequest(bc, budget/meta+1, meta, bigU, addr, bjoin)
		if len(twin) > len(lh) && len(bomb) > len(lh) {
			ht := vtMake(hc, []string{"ha"}, []byte("H-state"), nil, false)
			ft := ht.feed(twin, 0)
			eff := ht.lists("bomber") && ht.lists("big-0") && ht.lists(fmt.Sprintf("big-%d", twinN-1)) && ft.wrote &&
				len(ht.del.merged) == 1 && bytes.Equal(ht.del.merged[0], []byte("twin-state"))
			// (no framing-model tables for these: the decompressed bytes would run to megabytes)
			out = append(out, vtFeedCase(1, hc, bc, twin[:vfMin(len(twin), 300)], ft, eff, false, st))
			hb := vtMake(hc, []string{"ha"}, []byte("H-state"), nil, false)
			fb := hb.feed(bomb, r.pick([]int{0, 0, 1000}))
			out = append(out, vtFeedCase(11, hc, bc, bomb[:vfMin(len(bomb), 300)], fb, false, false, st))
			st.Extra["bomb_wire_bytes"] = len(bomb)
		}
	}
	// ---- a much larger bomb (256 MiB of zeros, a few hundred KB compressed) on a plaintext stream: the cap must stop
	//      the inflation itself — what the receiver allocates while it handles the stream stays within a few times the
	//      cap (measured: about 3.2 x 40 MiB), it does not grow with the size of the bomb.  Once per run. ----
	if round == 0 {
		if cb, err := compressPayload(make([]byte, 256<<20), false); err == nil {
			s := append(append([]byte(nil), lh...), cb.Bytes()...)
			var m0, m1 runtime.MemStats
			runtime.GC()
			runtime.ReadMemStats(&m0)
			f := ph.feed(s, 0)
			runtime.ReadMemStats(&m1)
			f.consumed = int((m1.TotalAlloc - m0.TotalAlloc) >> 20)
			st.Extra["big_bomb_allocated_mib"] = f.consumed
			out = append(out, vtFeedCase(12, pc, pic, s[:vfMin(len(s), 300)], f, false, false, st))
		}
		runtime.GC()
	}
	// oversized declared sizes on a plaintext stream
	for _, hdr := range []pushPullHeader{{Nodes: 1 << 21}, {Nodes: 0, UserStateLen: 21 * 1024 * 1024}, {Nodes: -1}} {
		b, _ := encode(pushPullMsg, &hdr, false)
		s := append(append([]byte(nil), lh...), b.Bytes()...)
		s = append(s, make([]byte, 1<<20)...)
		out = append(out, vtFeedCase(6, pc, pic, s, ph.feed(s, 0), false, true, st))
	}
	ub, _ := encode(userMsg, &userMsgHeader{UserMsgLen: 21 * 1024 * 1024}, false)
	us := append(append(append([]byte(nil), lh...), ub.Bytes()...), make([]byte, 1<<20)...)
	out = append(out, vtFeedCase(6, pc, pic, us, ph.feed(us, 0), false, true, st))
	for k := 0; k < 4; k++ {
		n := r.n(80)
		b := make([]byte, n)
		for i := range b {
			b[i] = byte(r.n(256))
		}
		s := append(append([]byte(nil), lh...), b...)
		out = append(out, vtFeedCase(4, pc, pic, s, ph.feed(s, 0), true, true, st))
	}
	// a compress wrapper that decompresses to nothing
	if cb, err := compressPayload([]byte{}, false); err == nil {
		s := append(append([]byte(nil), lh...), cb.Bytes()...)
		out = append(out, vtFeedCase(4, pc, pic, s, ph.feed(s, 0), false, true, st))
		s2 := append(append([]byte(nil), lh...), []byte{0x09, 0x82, 0xa4, 0x41, 0x6c, 0x67, 0x6f, 0x00, 0xa3, 0x42, 0x75, 0x66, 0xa3, 0x00, 0x03, 0x02}...)
		out = append(out, vtFeedCase(4, pc, pic, s2, ph.feed(s2, 0), false, true, st))
	}
	return out
}

// the push/pull request a real initiator writes (real sendLocalState: msgpack encoding, compression, encryption,
// label header) when its member list holds n further live members with meta zero bytes of metadata each
func vtBulkRequest(c vwNodeCfg, n, meta int, ustate []byte, addr Address, join bool) []byte {
	c.compress = true
	ini := vtMake(c, nil, ustate, nil, false)
	blob := make([]byte, meta)
	ini.m.nodeLock.Lock()
	for i := 0; i < n; i++ {
		ns := &nodeState{Node: Node{Name: fmt.Sprintf("big-%d", i), Addr: net.IP{10, 9, byte(i >> 8), byte(i)}, Port: 7946, Meta: blob,
			PMin: 1, PMax: 5, PCur: c.pv}, Incarnation: 1, State: StateAlive}
		ini.m.nodes = append(ini.m.nodes, ns)
		ini.m.nodeMap[ns.Name] = ns
	}
	ini.m.nodeLock.Unlock()
	rec := &vtConn{}
	ini.tr.next = func() net.Conn { return rec }
	ini.m.pushPullNode(addr, join)
	ini.tr.next = nil
	synctest.Wait()
	return append([]byte(nil), rec.wr.Bytes()...)
}

func vfMin(a, b int) int {
	if a < b {
		return a
	}
	return b
}

func vtOffsets(r *vfRng, n int, all bool) []int {
	var o []int
	if all || n <= 120 {
		for i := 0; i < n; i++ {
			o = append(o, i)
		}
		return o
	}
	for i := 0; i < 40; i++ {
		o = append(o, i)
	}
	for i := 0; i < 50; i++ {
		o = append(o, 40+r.n(n-40))
	}
	o = append(o, n-1, n-2, n-17)
	return o
}

// ---- Join between two live nodes over in-memory pipes ----
type vtNet struct {
	mu    sync.Mutex
	nodes map[string]*vtPipeTransport
}
type vtPipeTransport struct {
	*vwTap
	net  *vtNet
	addr string
}

func (t *vtPipeTransport) DialAddressTimeout(a Address, d time.Duration) (net.Conn, error) {
	t.net.mu.Lock()
	peer := t.net.nodes[a.Addr]
	t.net.mu.Unlock()
	if peer == nil {
		return nil, fmt.Errorf("no route to %s", a.Addr)
	}
	c1, c2 := net.Pipe()
	go func() { peer.st <- c2 }()
	return c1, nil
}
func (t *vtPipeTransport) DialTimeout(a string, d time.Duration) (net.Conn, error) {
	return t.DialAddressTimeout(Address{Addr: a}, d)
}
func (t *vtPipeTransport) FinalAdvertiseAddr(string, int) (net.IP, int, error) {
	h, _, _ := net.SplitHostPort(t.addr)
	return net.ParseIP(h), 7946, nil
}

func vtJoin(r *vfRng, st *vfStats) vfCase {
	nw := &vtNet{nodes: map[string]*vtPipeTransport{}}
	jv, hv, inc := r.chance(25), r.chance(35), r.chance(20)
	dels := map[string]*vtDelegate{}
	mk := func(name, addr string, veto bool, pv, dmin, dmax, dcur uint8, members []string) (*Memberlist, *vtMerge) {
		conf := DefaultLANConfig()
		conf.Name = name
		tr := &vtPipeTransport{vwTap: newVwTap(), net: nw, addr: addr}
		nw.nodes[addr] = tr
		conf.Transport = tr
		conf.Logger = vwDiscard
		conf.ProtocolVersion = pv
		conf.DelegateProtocolMin, conf.DelegateProtocolMax, conf.DelegateProtocolVersion = dmin, dmax, dcur
		conf.TCPTimeout = time.Second
		mg := &vtMerge{veto: veto}
		conf.Merge = mg
		dels[name] = &vtDelegate{state: []byte("state-of-" + name)}
		conf.Delegate = dels[name]
		m, err := newMemberlist(conf)
		if err != nil {
			panic(err)
		}
		m.setAlive()
		for i, n := range members {
			m.aliveNode(&alive{Incarnation: 1, Node: n, Addr: []byte{10, 0, 2, byte(i + 1)}, Port: 7946, Vsn: []uint8{1, 5, pv, dmin, dmax, dcur}}, nil, false)
		}
		return m, mg
	}
	hd := [3]uint8{0, 0, 0}
	if inc {
		hd = [3]uint8{2, 3, 2} // delegate versions the joiner (0..0) cannot speak
	}
	host, _ := mk("host", "10.0.0.2:7946", hv, 2, hd[0], hd[1], hd[2], []string{"hm1", "hm2"})
	joiner, _ := mk("joiner", "10.0.0.3:7946", jv, 2, 0, 0, 0, nil)
	snapshot := func(m *Memberlist) string {
		var s []string
		for _, n := range m.Members() {
			s = append(s, n.Name)
		}
		sort.Strings(s)
		return strings.Join(s, ",")
	}
	j0, h0 := snapshot(joiner), snapshot(host)
	n, err := joiner.Join([]string{"10.0.0.2:7946"})
	synctest.Wait()
	ok := err == nil && n == 1
	lists := func(m *Memberlist, name string) bool {
		for _, x := range m.Members() {
			if x.Name == name {
				return true
			}
		}
		return false
	}
	c := vfCase{Cfg: []int64{13, vwBool(jv), vwBool(hv), vwBool(inc)}}
	c.Ops = [][]int64{{0}}
	c.Obs = [][]int64{{vwBool(ok), vwBool(lists(joiner, "host")), vwBool(lists(host, "joiner")), vwBool(lists(joiner, "hm1") && lists(joiner, "hm2")),
		vwBool(snapshot(joiner) != j0 || (jv && dels["joiner"].calls() > 0)), vwBool(snapshot(host) != h0),
		// a side that vetoed (or could not verify) the exchange must not have handed the other side's application
		// state to its delegate either
		vwBool((jv || inc) && dels["joiner"].calls() > 0), vwBool((hv || inc) && dels["host"].calls() > 0)}}
	host.Shutdown()
	joiner.Shutdown()
	st.Ops++
	st.OpHist["join"]++
	st.class(fmt.Sprintf("13|%v|%v|%v|%v", jv, hv, inc, ok))
	return c
}

// ---- a periodic (non-join) push/pull between two live nodes, compatible or not ----
func vtExchange(r *vfRng, st *vfStats) vfCase {
	nw := &vtNet{nodes: map[string]*vtPipeTransport{}}
	inc := r.chance(50)
	dels := map[string]*vtDelegate{}
	mk := func(name, addr string, dmin, dmax, dcur uint8, members []string) *Memberlist {
		conf := DefaultLANConfig()
		conf.Name = name
		tr := &vtPipeTransport{vwTap: newVwTap(), net: nw, addr: addr}
		nw.nodes[addr] = tr
		conf.Transport = tr
		conf.Logger = vwDiscard
		conf.DelegateProtocolMin, conf.DelegateProtocolMax, conf.DelegateProtocolVersion = dmin, dmax, dcur
		conf.TCPTimeout = time.Second
		dels[name] = &vtDelegate{state: []byte("state-of-" + name)}
		conf.Delegate = dels[name]
		m, err := newMemberlist(conf)
		if err != nil {
			panic(err)
		}
		m.setAlive()
		for i, n := range members {
			m.aliveNode(&alive{Incarnation: 1, Node: n, Addr: []byte{10, 0, 2, byte(i + 1)}, Port: 7946, Vsn: []uint8{1, 5, 2, dmin, dmax, dcur}}, nil, false)
		}
		return m
	}
	hd := [3]uint8{0, 0, 0}
	if inc {
		hd = [3]uint8{2, 3, 2}
	}
	host := mk("host", "10.0.0.2:7946", hd[0], hd[1], hd[2], []string{"hm1"})
	ini := mk("ini", "10.0.0.3:7946", 0, 0, 0, []string{"im1"})
	snapshot := func(m *Memberlist) string {
		var s []string
		for _, n := range m.Members() {
			s = append(s, n.Name)
		}
		sort.Strings(s)
		return strings.Join(s, ",")
	}
	lists := func(m *Memberlist, name string) bool {
		for _, x := range m.Members() {
			if x.Name == name {
				return true
			}
		}
		return false
	}
	i0, h0 := snapshot(ini), snapshot(host)
	err := ini.pushPullNode(Address{Addr: "10.0.0.2:7946", Name: "host"}, false)
	synctest.Wait()
	c := vfCase{Cfg: []int64{14, vwBool(inc)}}
	c.Ops = [][]int64{{0}}
	c.Obs = [][]int64{{vwBool(err == nil), vwBool(snapshot(ini) != i0), vwBool(snapshot(host) != h0), int64(dels["ini"].calls()), int64(dels["host"].calls()),
		vwBool(lists(ini, "host") && lists(ini, "hm1")), vwBool(lists(host, "ini") && lists(host, "im1"))}}
	host.Shutdown()
	ini.Shutdown()
	st.Ops++
	st.OpHist["periodic_exchange"]++
	st.class(fmt.Sprintf("14|%v|%v", inc, err == nil))
	return c
}

// ---- the exported stream label functions used directly (an outer layer that strips the label itself):
//      add the header, write the payload in fragments, remove the header, read what is left with buffers of
//      every size ----
type vtFrags struct {
	vtConn
	frags [][]byte
}

func (c *vtFrags) Read(p []byte) (int, error) {
	if len(c.frags) == 0 {
		return 0, io.EOF
	}
	n := copy(p, c.frags[0])
	if n == len(c.frags[0]) {
		c.frags = c.frags[1:]
	} else {
		c.frags[0] = c.frags[0][n:]
	}
	return n, nil
}

// one labelled stream as its sender writes it: label, payload, and the fragments the receiver's Read calls deliver
func vtGenLabelStream(r *vfRng) (label string, payload []byte, frags [][]byte) {
	switch r.n(6) {
	case 0:
	case 1:
		label = "a"
	case 2:
		label = string(bytes.Repeat([]byte{'L'}, 255))
	default:
		label = string(bytes.Repeat([]byte{byte('a' + r.n(26))}, 1+r.n(40)))
	}
	payload = make([]byte, r.pick([]int{0, 1, 10, 100, 600, 3000, 4090, 4096, 5000}))
	for i := range payload {
		payload[i] = byte(r.n(256))
	}
	if len(payload) > 0 && r.chance(10) {
		payload[0] = 244 // an unlabelled stream that happens to start with the marker byte is a labelled one: skip
		label = "m"
	}
	hdr := &vtConn{}
	if err := AddLabelHeaderToStream(hdr, label); err != nil {
		panic(err)
	}
	stream := append(append([]byte(nil), hdr.wr.Bytes()...), payload...)
	hostile := r.chance(12)
	if hostile {
		stream = [][]byte{{244}, {244, 0}, {244, 0, 1, 2}, {244, 5, 'a', 'b'}, {244, 3, 'a', 'b'}, {}}[r.n(6)]
	}
	// the sender's writes
	for rest := stream; len(rest) > 0; {
		n := r.pick([]int{1, 2, 3, 7, 100, 512, 4096, 8192})
		if r.chance(30) {
			n = 1 + r.n(300)
		}
		if n > len(rest) {
			n = len(rest)
		}
		frags = append(frags, append([]byte(nil), rest[:n]...))
		rest = rest[n:]
	}
	return label, payload, frags
}

func vtLabelStream(r *vfRng, st *vfStats) vfCase {
	label, payload, frags := vtGenLabelStream(r)
	c := vfCase{Cfg: []int64{15}}
	for _, f := range frags {
		c.Ops = append(c.Ops, vwB(f))
	}
	if c.Ops == nil {
		c.Ops = [][]int64{}
	}
	conn := &vtFrags{frags: frags}
	out, lab, err := RemoveLabelHeaderFromStream(conn)
	var got []byte
	if err == nil {
		sizes := []int{1, 3, 7, 64, 500, 4096, 10000}
		first := r.n(len(sizes))
		for i := 0; ; i++ {
			buf := make([]byte, sizes[(first+i)%len(sizes)])
			n, rerr := out.Read(buf)
			got = append(got, buf[:n]...)
			if rerr != nil || i > 100000 {
				break
			}
		}
	}
	c.Obs = [][]int64{{vwBool(err != nil)}, vwB([]byte(lab)), vwB(got)}
	st.Ops++
	st.OpHist["label_stream"]++
	st.class(fmt.Sprintf("15|%d|%d|%d|%v", len(label), len(payload)/1000, len(frags)/10, err != nil))
	return c
}

// ---- several labelled streams open at the same time (a listener strips the header of every accepted connection
//      before any of them is read further): header removed from A, header removed from B (and C), only then the
//      rest of each is read, the reads interleaved.  Each stream must give back its own label and its own payload,
//      whatever the others carried.  ops: [stream index; fragment bytes...]; obs: per stream [error], label, bytes ----
func vtLabelStreams(r *vfRng, st *vfStats) vfCase {
	k := 2 + r.n(2)
	c := vfCase{Cfg: []int64{16, int64(k)}, Ops: [][]int64{}}
	conns := make([]net.Conn, k)
	labs := make([]string, k)
	errs := make([]error, k)
	got := make([][]byte, k)
	nfr, total := 0, 0
	for i := 0; i < k; i++ {
		_, payload, frags := vtGenLabelStream(r)
		if r.chance(50) {
			// written by the sender in one piece: header and the first payload bytes arrive together and are read
			// ahead while the header is looked at
			var all []byte
			for _, f := range frags {
				all = append(all, f...)
			}
			frags = nil
			if len(all) > 0 {
				frags = [][]byte{all}
			}
		}
		for _, f := range frags {
			c.Ops = append(c.Ops, append([]int64{int64(i)}, vwB(f)...))
		}
		nfr += len(frags)
		total += len(payload)
		conns[i], labs[i], errs[i] = RemoveLabelHeaderFromStream(&vtFrags{frags: frags})
	}
	sizes := []int{1, 3, 7, 64, 500, 4096, 10000}
	var open []int
	for i := 0; i < k; i++ {
		if errs[i] == nil {
			open = append(open, i)
		}
	}
	sequential := r.chance(30) // each stream drained in turn (in a random order) instead of read by read
	for step := 0; len(open) > 0 && step < 1000000; step++ {
		j := r.n(len(open))
		if sequential {
			j = 0
		}
		i := open[j]
		buf := make([]byte, sizes[r.n(len(sizes))])
		n, rerr := conns[i].Read(buf)
		got[i] = append(got[i], buf[:n]...)
		if rerr != nil {
			open = append(open[:j], open[j+1:]...)
		}
	}
	for i := 0; i < k; i++ {
		c.Obs = append(c.Obs, []int64{vwBool(errs[i] != nil)}, vwB([]byte(labs[i])), vwB(got[i]))
	}
	st.Ops++
	st.OpHist["label_streams_interleaved"]++
	st.class(fmt.Sprintf("16|%d|%d|%d|%v", k, total/2000, nfr/10, sequential))
	return c
}

// ---- verifyProtocol on random version matrices ----
func vtVerify(r *vfRng, st *vfStats) vfCase {
	conf := DefaultLANConfig()
	conf.Name = "self"
	conf.Transport = newVwTap()
	conf.Logger = vwDiscard
	m, err := newMemberlist(conf)
	if err != nil {
		panic(err)
	}
	m.Shutdown()
	c := vfCase{Cfg: []int64{10}}
	v := func() uint8 { return uint8(r.n(4)) }
	nl := r.n(3)
	for i := 0; i < nl; i++ {
		ns := &nodeState{Node: Node{Name: fmt.Sprintf("l%d", i), PMin: v(), PMax: v(), PCur: v(), DMin: v(), DMax: v(), DCur: v()}, State: NodeStateType(r.pick([]int{0, 0, 0, 1, 2}))}
		m.nodes = append(m.nodes, ns)
		m.nodeMap[ns.Name] = ns
		c.Ops = append(c.Ops, []int64{1, vwBool(ns.State == StateAlive), int64(ns.PMin), int64(ns.PMax), int64(ns.PCur), int64(ns.DMin), int64(ns.DMax), int64(ns.DCur)})
	}
	var remote []pushNodeState
	nr := r.n(4)
	for i := 0; i < nr; i++ {
		ln := r.pick([]int{6, 6, 6, 5, 3, 0, 7})
		vs := make([]uint8, ln)
		for j := range vs {
			vs[j] = v()
		}
		s := NodeStateType(r.pick([]int{0, 0, 0, 1, 2, 3}))
		remote = append(remote, pushNodeState{Name: fmt.Sprintf("r%d", i), State: s, Vsn: vs})
		e := []int64{0, vwBool(s == StateAlive)}
		for _, x := range vs {
			e = append(e, int64(x))
		}
		c.Ops = append(c.Ops, e)
	}
	if len(c.Ops) == 0 {
		c.Ops = [][]int64{}
	}
	acc := m.verifyProtocol(remote) == nil
	c.Obs = [][]int64{{vwBool(acc)}}
	st.Ops++
	st.OpHist["verifyProtocol"]++
	st.ObsHist[fmt.Sprintf("verify_accept_%v", acc)]++
	st.class(fmt.Sprintf("10|%d|%d|%v", nl, nr, acc))
	return c
}

func TestVfStream(t *testing.T) {
	st := vfNewStats("stream")
	st.Rule = "per round one initiator/host configuration (label x keys x encryption version x compression x user state): every stream write is checked for framing and sealing; the host is fed the genuine request whole (5 fragmentations), cut at every offset (all offsets for streams <= 120 B, first 40 + 50 random + last ones otherwise; all in the thorough tier), tampered in every header byte and sampled body bytes, under a foreign / removed key, under 4 other labels and the labels differing from its own only in letter case or a surrounding blank, with empty / one-byte authentic plaintexts, with declared sizes beyond each cap, with a compressed exchange inflating beyond the decompression cap (and its twin below the cap; the two fixed rounds, 8% of the others), mutated and random plaintext; the initiator is fed every cut of the reply; user messages incl. the empty one; TCP ping; the exported stream label functions on one fragmented stream and on 2-3 streams whose headers are all removed before the rest of each is read (interleaved reads); Join with vetoing / incompatible sides; verifyProtocol matrices over {0..3}; distinct = distinct (kind, class, changed, wrote, delegate calls, panic, #keys, version) tuples"
	var cases []vfCase
	r := &vfRng{s: vfSeed()*86028121 + 60}
	n := vfEnvInt("VF_N", 6)
	all := vfEnvInt("VF_ALLCUTS", 0) == 1
	for i := 0; i < n; i++ {
		synctest.Test(t, func(t *testing.T) {
			cases = append(cases, vtRound(r, st, all, i)...)
			for k := 0; k < 6; k++ {
				cases = append(cases, vtJoin(r, st))
			}
			for k := 0; k < 4; k++ {
				cases = append(cases, vtExchange(r, st))
			}
			for k := 0; k < 8; k++ {
				cases = append(cases, vtLabelStream(r, st))
			}
			for k := 0; k < 8; k++ {
				cases = append(cases, vtLabelStreams(r, st))
			}
			time.Sleep(3 * time.Hour)
		})
		for k := 0; k < 150; k++ {
			cases = append(cases, vtVerify(r, st))
		}
	}
	sel := map[string]string{"C09": "9", "C12": "12", "C13": "13", "C14": "14", "C15": "15", "C16": "16"}[vfPropEnv()]
	if sel == "" {
		sel = "0"
	}
	if err := vfEmit(st, cases, "From VF Require Import Raw StreamCheck.", "StreamCheck.check_any "+sel, true); err != nil {
		t.Fatal(err)
	}
}
