//go:build verif

package memberlist

// C06 harness: the real suspicion timer (newSuspicion / Confirm / time.AfterFunc) in a
// synctest bubble; confirmations at generated virtual instants; the exact firing instant and
// every Confirm result are recorded, together with the schedule table produced by the real
// remainingSuspicionTime for the case's (k, min, max).
// Internal surface used: newSuspicion, (*suspicion).Confirm, remainingSuspicionTime.

import (
	"fmt"
	"testing"
	"testing/synctest"
	"time"
)

var vsSenders = []string{"acc", "a", "b", "c", "d", "e", "f"}

// cfg: [S(k), min_ns, max_ns]; ops: [sender, absolute_time_ns]
func vsRun(t *testing.T, c *vfCase, st *vfStats) {
	k := int(c.Cfg[0] - vfOff)
	min := time.Duration(c.Cfg[1])
	max := time.Duration(c.Cfg[2])
	full := []int64{c.Cfg[0], c.Cfg[1], c.Cfg[2]}
	if k >= 1 {
		full = append(full, int64(k))
		for n := 1; n <= k; n++ {
			full = append(full, int64(remainingSuspicionTime(int32(n), int32(k), 0, min, max)))
		}
	} else {
		full = append(full, 0)
	}
	c.Cfg = full
	c.Obs = nil
	start := time.Now()
	var firedAt time.Time
	nfired := 0
	s := newSuspicion("acc", k, min, max, func(n int) { firedAt = time.Now(); nfired++ })
	for _, op := range c.Ops {
		at := start.Add(time.Duration(op[1]))
		if d := time.Until(at); d > 0 {
			time.Sleep(d)
		}
		synctest.Wait()
		res := s.Confirm(vsSenders[op[0]])
		synctest.Wait()
		r := int64(0)
		if res {
			r = 1
			st.ObsHist["accepted"]++
		} else {
			st.ObsHist["rejected"]++
		}
		c.Obs = append(c.Obs, []int64{r})
		st.Ops++
		st.OpHist["confirm"]++
	}
	time.Sleep(2*max + time.Second)
	synctest.Wait()
	f := int64(0)
	at := int64(0)
	if nfired > 0 {
		f = 1
		at = int64(firedAt.Sub(start))
	}
	if nfired > 1 {
		st.Extra["oracle_fired_twice"] = fmt.Sprintf("k=%d min=%v max=%v ops=%v", k, min, max, c.Ops)
	}
	c.Obs = append(c.Obs, []int64{f, at})
	acc := 0
	for _, o := range c.Obs[:len(c.Ops)] {
		acc += int(o[0])
	}
	st.class(fmt.Sprintf("%d|%d|%d|%d", k, acc, len(c.Ops), at/int64(min+1)))
}

func vsGen(r *vfRng) vfCase {
	k := r.n(8) - 1 // -1..6
	min := []time.Duration{700 * time.Microsecond, 3 * time.Millisecond, 2 * time.Second, 2500 * time.Millisecond, 10 * time.Second}[r.n(5)]
	max := min * time.Duration(1+r.n(6))
	c := vfCase{Cfg: []int64{vfS(int64(k)), int64(min), int64(max)}}
	n := r.n(10)
	now := int64(0)
	for i := 0; i < n; i++ {
		// strictly increasing, odd nanosecond offsets so that no confirmation coincides with a deadline
		now += int64(1+r.n(4000))*int64(max)/6000 + 1 + int64(r.n(3))*2
		if r.chance(8) {
			now += int64(max)
		}
		c.Ops = append(c.Ops, []int64{int64(r.n(len(vsSenders))), now | 1})
	}
	return c
}

func TestVfSusp(t *testing.T) {
	st := vfNewStats("susp")
	st.Rule = "timed confirmation schedules against the real suspicion timer in virtual time; k in -1..6, sub-millisecond to multi-second min, max = 1..6 x min, senders incl. the accuser and duplicates, arrivals also after the deadline; distinct = distinct (k, #accepted, #confirmations, firing instant / min) tuples"
	cases, replay, err := vfLoadCases()
	if err != nil {
		t.Fatal(err)
	}
	if !replay {
		cases = vfLoadCorpus()
		r := &vfRng{s: vfSeed()*15485863 + 30}
		n := vfEnvInt("VF_N", 600)
		for i := 0; i < n; i++ {
			cases = append(cases, vsGen(r))
		}
	}
	for i := range cases {
		synctest.Test(t, func(t *testing.T) { vsRun(t, &cases[i], st) })
	}
	if err := vfEmit(st, cases, "From VF Require Import Raw SuspCheck.", "check_case", true); err != nil {
		t.Fatal(err)
	}
}
