//go:build verif

package memberlist

// C10 harness: drives the real TransmitLimitedQueue with generated operation
// sequences and records, per operation: returned payloads (as uids), the uids
// whose Finished() ran, NumQueued() and whether the call panicked.
// Internal surface used: TransmitLimitedQueue (exported API), retransmitLimit.

import (
	"fmt"
	"testing"
)

type vqBase struct {
	uid int64
	msg []byte
	grp int64
	fin *[]int64
}

func (b *vqBase) Message() []byte { return b.msg }
func (b *vqBase) Finished()       { *b.fin = append(*b.fin, b.uid) }

type vqPlain struct{ vqBase }

func (b *vqPlain) Invalidates(o Broadcast) bool {
	// same group, or: a broadcast of group 6..8 supersedes every queued one of groups 0..5 with the same residue
	// mod 3 (so that one submission can invalidate several, possibly adjacent, queued broadcasts)
	if p, ok := o.(*vqPlain); ok {
		return p.grp == b.grp || (b.grp >= 6 && p.grp < 6 && p.grp%3 == b.grp%3)
	}
	return false
}

type vqNamed struct {
	vqBase
	name string
}

func (b *vqNamed) Invalidates(o Broadcast) bool { return false }
func (b *vqNamed) Name() string                 { return b.name }

type vqUnique struct{ vqBase }

func (b *vqUnique) Invalidates(o Broadcast) bool { return false }
func (b *vqUnique) UniqueBroadcast()             {}

var vqNames = []string{"", "a", "b", "c", "d"}

// replay-level ops:
//   [0, uid, len, kindtag, arg]         Queue (0 plain grp / 1 named idx / 2 unique)
//   [1, S(ov), S(lim), nodes]           Get   (tlimit is computed by the real retransmitLimit)
//   [2, S(k)]                           Prune
//   [3]                                 Reset
// cfg: [mult]
func vqRun(c *vfCase, st *vfStats) {
	mult := int(c.Cfg[0])
	nodes := 1
	q := &TransmitLimitedQueue{RetransmitMult: mult, NumNodes: func() int { return nodes }}
	var fin []int64
	payload := map[string]int64{}
	c.Obs = nil
	c.Cops = nil
	for _, op := range c.Ops {
		fin = fin[:0]
		var ret []int64
		panicked := false
		cop := op
		func() {
			defer func() {
				if p := recover(); p != nil {
					panicked = true
				}
			}()
			switch op[0] {
			case 0:
				uid, ln := op[1], int(op[2])
				msg := make([]byte, ln)
				// payload bytes identify the uid (len 0 payloads are matched by length only)
				for j := range msg {
					msg[j] = byte(uid >> (8 * uint(j%4)))
				}
				payload[fmt.Sprintf("%d/%x", ln, msg)] = uid
				base := vqBase{uid: uid, msg: msg, grp: op[4], fin: &fin}
				switch op[3] {
				case 0:
					q.QueueBroadcast(&vqPlain{base})
				case 1:
					q.QueueBroadcast(&vqNamed{base, vqNames[int(op[4])%len(vqNames)]})
				default:
					q.QueueBroadcast(&vqUnique{base})
				}
				st.OpHist["queue"]++
			case 1:
				nodes = int(op[3])
				tl := retransmitLimit(mult, nodes)
				cop = []int64{1, op[1], op[2], vfS(int64(tl))}
				got := q.GetBroadcasts(int(op[1]-vfOff), int(op[2]-vfOff))
				for _, g := range got {
					ret = append(ret, payload[fmt.Sprintf("%d/%x", len(g), g)])
				}
				st.OpHist["get"]++
				if len(got) == 0 {
					st.ObsHist["get_empty"]++
				} else {
					st.ObsHist["get_nonempty"]++
				}
			case 2:
				q.Prune(int(op[1] - vfOff))
				st.OpHist["prune"]++
			case 3:
				q.Reset()
				st.OpHist["reset"]++
			}
		}()
		nq := int64(0)
		if !panicked {
			func() {
				defer func() {
					if recover() != nil {
						panicked = true
					}
				}()
				nq = int64(q.NumQueued())
			}()
		}
		o := []int64{0, nq, int64(len(ret))}
		if panicked {
			o[0] = 1
			st.Panics++
		}
		o = append(o, ret...)
		o = append(o, fin...)
		if len(fin) > 0 {
			st.ObsHist["finished"] += len(fin)
		}
		c.Obs = append(c.Obs, o)
		c.Cops = append(c.Cops, cop)
		st.Ops++
		st.class(fmt.Sprintf("%d|%d|%d|%d|%v", op[0], len(ret), len(fin), nq, panicked))
		if panicked {
			break
		}
	}
}

func vqGen(r *vfRng) vfCase {
	c := vfCase{Cfg: []int64{int64(r.n(5))}}
	n := 4 + r.n(22)
	uid := int64(0)
	nodes := 1 + r.n(12)
	// uids are unique per case; payload identity requires distinct (len, bytes):
	// bytes are derived from the uid, zero-length payloads are used at most once at a time
	for i := 0; i < n; i++ {
		switch p := r.n(100); {
		case p < 46:
			uid++
			ln := int64(r.pick([]int{1, 1, 4, 4, 4, 7, 7, 20, 33}))
			kind := int64(r.n(3))
			arg := int64(r.n(3))
			if kind == 0 {
				arg = int64(r.n(9))
				if r.chance(70) {
					arg = int64(r.n(6))
				}
			}
			if kind == 1 {
				arg = int64(r.n(len(vqNames)))
			}
			c.Ops = append(c.Ops, []int64{0, uid, ln, kind, arg})
		case p < 86:
			ov := int64(r.n(4))
			lim := int64(r.pick([]int{0, 3, 8, 12, 30, 100, 1400}))
			if r.chance(20) {
				nodes = 1 + r.n(120)
			}
			if r.chance(3) {
				nodes = 0
			}
			c.Ops = append(c.Ops, []int64{1, vfS(ov), vfS(lim), int64(nodes)})
		case p < 94:
			k := int64(r.n(5)) - 1
			c.Ops = append(c.Ops, []int64{2, vfS(k)})
		case p < 97:
			c.Ops = append(c.Ops, []int64{3})
		default:
			// NumQueued is observed after every operation anyway
			c.Ops = append(c.Ops, []int64{1, vfS(0), vfS(0), int64(nodes)})
		}
	}
	return c
}

func TestVfQueue(t *testing.T) {
	st := vfNewStats("queue")
	st.Rule = "op sequences over QueueBroadcast(named/unique/plain, sizes from a small set so equal lengths are common)/GetBroadcasts/Prune/Reset with scripted NumNodes; distinct = distinct (op kind, #returned, #finished, NumQueued, panic) tuples observed"
	cases, replay, err := vfLoadCases()
	if err != nil {
		t.Fatal(err)
	}
	if !replay {
		cases = vfLoadCorpus()
		r := &vfRng{s: vfSeed()*7919 + 10}
		n := vfEnvInt("VF_N", 1500)
		for i := 0; i < n; i++ {
			cases = append(cases, vqGen(r))
		}
	}
	for i := range cases {
		vqRun(&cases[i], st)
	}
	fixed := "true"
	if vfEnvInt("VF_PINNED_MODEL", 0) == 1 {
		fixed = "false"
	}
	if err := vfEmit(st, cases, "From VF Require Import Raw QueueCheck.", "check_case "+fixed, false); err != nil {
		t.Fatal(err)
	}
}
