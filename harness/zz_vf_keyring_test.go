//go:build verif

package memberlist

// C17 harness: op-sequence diff of the real Keyring; every slice returned by GetKeys is
// held and re-read after every later operation (aliasing); plus the three-phase rotation
// over all per-phase node orderings with a real encrypt/decrypt between every ordered pair
// at every step.  Internal surface used: Keyring (exported API), encryptPayload, decryptPayload.

import (
	"bytes"
	"fmt"
	"io"
	"log"
	"runtime"
	"sync"
	"sync/atomic"
	"testing"
	"time"
)

var vkPool = [][]byte{
	nil, // id 0: unused
	bytes.Repeat([]byte{0xa1}, 16), bytes.Repeat([]byte{0xb2}, 16), bytes.Repeat([]byte{0xc3}, 24), bytes.Repeat([]byte{0xd4}, 32),
	bytes.Repeat([]byte{0xe5}, 10), {}, bytes.Repeat([]byte{0xf7}, 17),
	bytes.Repeat([]byte{0x18}, 20), bytes.Repeat([]byte{0x29}, 28), // between the valid lengths
}

func vkID(k []byte) int64 {
	for i := 1; i < len(vkPool); i++ {
		if bytes.Equal(vkPool[i], k) {
			return int64(i)
		}
	}
	return 99
}

// the same AddKey(key) from n goroutines that all arrive while the ring is busy (its lock is held by the
// harness), so that they enter together when it is released: result 0 all nil, 1 some error, 2 some panic.
// Whatever the interleaving, the ring afterwards must be what ONE AddKey(key) leaves.
func vkAddConcurrently(ring *Keyring, key []byte, n int) int64 {
	var started, errs, pans atomic.Int64
	var wg sync.WaitGroup
	ring.l.Lock()
	for g := 0; g < n; g++ {
		wg.Add(1)
		go func() {
			defer wg.Done()
			defer func() {
				if recover() != nil {
					pans.Add(1)
				}
			}()
			started.Add(1)
			if ring.AddKey(key) != nil {
				errs.Add(1)
			}
		}()
	}
	// every caller is running ...
	for started.Load() < int64(n) {
		runtime.Gosched()
	}
	// ... and has had time to get to the lock (or to return: an invalid key is refused before it)
	for i := 0; i < 20; i++ {
		runtime.Gosched()
	}
	time.Sleep(200 * time.Microsecond)
	ring.l.Unlock()
	wg.Wait()
	switch {
	case pans.Load() > 0:
		return 2
	case errs.Load() > 0:
		return 1
	}
	return 0
}

// cfg: [npre, pre..., primary]; ops: [0,k] AddKey [0,k,n] AddKey from n goroutines at once [1,k] UseKey [2,k] RemoveKey [3] GetKeys [4] GetPrimaryKey
func vkRun(c *vfCase, st *vfStats) {
	npre := int(c.Cfg[0])
	var pre [][]byte
	for _, id := range c.Cfg[1 : 1+npre] {
		pre = append(pre, vkPool[id])
	}
	prim := vkPool[c.Cfg[1+npre]]
	c.Obs = nil
	var held [][][]byte
	snapshotHeld := func(o []int64) []int64 {
		o = append(o, int64(len(held)))
		for _, h := range held {
			o = append(o, int64(len(h)))
			for _, k := range h {
				o = append(o, vkID(k))
			}
		}
		return o
	}
	ring, err := NewKeyring(pre, prim)
	if err != nil {
		c.Obs = append(c.Obs, []int64{1, 0, 0})
		st.ObsHist["new_error"]++
		return
	}
	c.Obs = append(c.Obs, []int64{0, 0, 0})
	for _, op := range c.Ops {
		res := int64(0)
		var ret []int64
		func() {
			defer func() {
				if recover() != nil {
					res = 2
				}
			}()
			var e error
			switch op[0] {
			case 0:
				if len(op) > 2 {
					switch vkAddConcurrently(ring, vkPool[op[1]], int(op[2])) {
					case 1:
						e = fmt.Errorf("AddKey failed")
					case 2:
						panic("AddKey panicked")
					}
					st.OpHist["add_concurrent"]++
					break
				}
				e = ring.AddKey(vkPool[op[1]])
				st.OpHist["add"]++
			case 1:
				e = ring.UseKey(vkPool[op[1]])
				st.OpHist["use"]++
			case 2:
				e = ring.RemoveKey(vkPool[op[1]])
				st.OpHist["remove"]++
			case 3:
				ks := ring.GetKeys()
				for _, k := range ks {
					ret = append(ret, vkID(k))
				}
				held = append(held, ks)
				st.OpHist["getkeys"]++
			case 4:
				if p := ring.GetPrimaryKey(); p != nil {
					ret = append(ret, vkID(p))
				}
				st.OpHist["getprimary"]++
			}
			if e != nil {
				res = 1
			}
		}()
		o := []int64{res, int64(len(ret))}
		o = append(o, ret...)
		if op[0] == 3 && res == 0 {
			// the slice just returned is compared from the next step on
			h := held[len(held)-1]
			held = held[:len(held)-1]
			o = snapshotHeld(o)
			held = append(held, h)
		} else {
			o = snapshotHeld(o)
		}
		c.Obs = append(c.Obs, o)
		st.Ops++
		st.ObsHist[fmt.Sprintf("res%d", res)]++
		st.class(fmt.Sprintf("%d|%d|%d|%d", op[0], res, len(ret), len(held)))
		if res == 2 {
			st.Panics++
			break
		}
	}
}

func vkGen(r *vfRng) vfCase {
	c := vfCase{}
	npre := r.n(4)
	cfg := []int64{int64(npre)}
	for i := 0; i < npre; i++ {
		id := 1 + r.n(4)
		if r.chance(10) {
			id = 1 + r.n(9)
		}
		cfg = append(cfg, int64(id))
	}
	prim := 1 + r.n(4)
	if r.chance(15) {
		prim = 6 // empty
	}
	if r.chance(5) {
		prim = 5
	}
	cfg = append(cfg, int64(prim))
	c.Cfg = cfg
	n := 4 + r.n(16)
	for i := 0; i < n; i++ {
		k := int64(1 + r.n(4))
		if r.chance(12) {
			k = int64(1 + r.n(9))
		}
		switch p := r.n(100); {
		case p < 4:
			// overlapping installs of one key, then a look at the ring
			c.Ops = append(c.Ops, []int64{0, k, int64(2 + r.n(2))}, []int64{3})
		case p < 25:
			c.Ops = append(c.Ops, []int64{0, k})
		case p < 45:
			c.Ops = append(c.Ops, []int64{1, k})
		case p < 70:
			c.Ops = append(c.Ops, []int64{2, k})
		case p < 90:
			c.Ops = append(c.Ops, []int64{3})
		default:
			c.Ops = append(c.Ops, []int64{4})
		}
	}
	return c
}

// rotation: every ordering of the nodes inside each of the three phases (barrier between phases),
// real encrypt under each node's primary / decrypt with each node's ring at every step
func vkRotation(st *vfStats, n int, r *vfRng, exhaustive bool) {
	old, nw := vkPool[1], vkPool[4]
	perms := vkPerms(n)
	steps, pairs := 0, 0
	check := func(rings []*Keyring, where string) {
		for i := range rings {
			for j := range rings {
				for _, vsn := range []encryptionVersion{0, 1} {
					var buf bytes.Buffer
					msg := []byte("rotation-probe-message")
					if err := encryptPayload(vsn, rings[i].GetPrimaryKey(), msg, []byte("lbl"), &buf); err != nil {
						st.Extra["oracle_rotation"] = fmt.Sprintf("%s: encrypt failed: %v", where, err)
						return
					}
					plain, err := decryptPayload(rings[j].GetKeys(), buf.Bytes(), []byte("lbl"))
					pairs++
					if err != nil || !bytes.Equal(plain, msg) {
						st.Extra["oracle_rotation"] = fmt.Sprintf("%s: node %d cannot read node %d (vsn %d): %v", where, j, i, vsn, err)
						return
					}
				}
				// the stream path (push/pull, reliable user messages, TCP ping) seals and opens with its own
				// functions
				// every other node was configured through Config.SecretKey (the key it started with), which the
				// node keeps in its configuration while its keyring moves on
				mi, mj := vkShell(rings[i], i%2 == 0, old), vkShell(rings[j], j%2 == 0, old)
				smsg := []byte("rotation-probe-stream")
				enc, err := mi.encryptLocalState(smsg, "lbl")
				pairs++
				if err != nil || len(enc) < 1 {
					st.Extra["oracle_rotation"] = fmt.Sprintf("%s: stream encrypt failed: %v", where, err)
					return
				}
				plain, err := mj.decryptRemoteState(bytes.NewReader(enc[1:]), "lbl")
				if err != nil || !bytes.Equal(plain, smsg) {
					st.Extra["oracle_rotation"] = fmt.Sprintf("%s: node %d cannot read node %d's stream: %v", where, j, i, err)
					return
				}
			}
		}
	}
	run := func(p1, p2, p3 []int) {
		rings := make([]*Keyring, n)
		for i := range rings {
			rings[i], _ = NewKeyring(nil, old)
		}
		check(rings, "start")
		for ph, order := range [][]int{p1, p2, p3} {
			for _, i := range order {
				switch ph {
				case 0:
					rings[i].AddKey(nw)
				case 1:
					rings[i].UseKey(nw)
				case 2:
					rings[i].RemoveKey(old)
				}
				steps++
				check(rings, fmt.Sprintf("phase %d after node %d (orders %v %v %v)", ph+1, i, p1, p2, p3))
			}
		}
	}
	if exhaustive {
		for _, a := range perms {
			for _, b := range perms {
				for _, c := range perms {
					run(a, b, c)
				}
			}
		}
	} else {
		for k := 0; k < 60; k++ {
			run(perms[r.n(len(perms))], perms[r.n(len(perms))], perms[r.n(len(perms))])
		}
	}
	st.Extra[fmt.Sprintf("rotation_n%d_steps", n)] = steps
	st.Extra[fmt.Sprintf("rotation_n%d_pair_checks", n)] = pairs
}

// every key length from 0 to 48 through every way of installing a key: only 16, 24 and 32 bytes are keys
func vkLengths(st *vfStats) {
	for l := 0; l <= 48; l++ {
		k := bytes.Repeat([]byte{byte(l + 1)}, l)
		want := l == 16 || l == 24 || l == 32
		if (ValidateKey(k) == nil) != want {
			st.Extra["oracle_key_lengths"] = fmt.Sprintf("ValidateKey accepts=%v a %d-byte key", !want, l)
			return
		}
		ring, _ := NewKeyring(nil, vkPool[1])
		if (ring.AddKey(k) == nil) != want || (len(ring.GetKeys()) == 2) != want {
			st.Extra["oracle_key_lengths"] = fmt.Sprintf("AddKey installs=%v a %d-byte key", !want, l)
			return
		}
		if _, err := NewKeyring([][]byte{k}, vkPool[1]); (err == nil) != want {
			st.Extra["oracle_key_lengths"] = fmt.Sprintf("NewKeyring accepts=%v a %d-byte key in the list", !want, l)
			return
		}
		if _, err := NewKeyring(nil, k); (err == nil) != (want || l == 0) {
			st.Extra["oracle_key_lengths"] = fmt.Sprintf("NewKeyring accepts=%v a %d-byte primary", !want, l)
			return
		}
	}
	st.Extra["key_lengths_swept"] = 49
}

// just enough of a node to use its stream sealing functions
func vkShell(r *Keyring, viaSecret bool, secret []byte) *Memberlist {
	cfg := DefaultLANConfig()
	cfg.Keyring = r
	if viaSecret {
		cfg.SecretKey = secret
	}
	cfg.Logger = log.New(io.Discard, "", 0)
	return &Memberlist{config: cfg, logger: cfg.Logger}
}

func vkPerms(n int) [][]int {
	if n == 1 {
		return [][]int{{0}}
	}
	var out [][]int
	for _, p := range vkPerms(n - 1) {
		for pos := 0; pos <= len(p); pos++ {
			q := append([]int{}, p[:pos]...)
			q = append(q, n-1)
			q = append(q, p[pos:]...)
			out = append(out, q)
		}
	}
	return out
}

func TestVfKeyring(t *testing.T) {
	st := vfNewStats("keyring")
	st.Rule = "NewKeyring + op sequences over AddKey/UseKey/RemoveKey/GetKeys/GetPrimaryKey (4% of the steps: the same AddKey from 2-3 goroutines that enter together, followed by GetKeys) with keys from a pool of 4 valid (16/16/24/32 B) and 3 invalid (10, 0, 17 B) keys; every returned slice re-read after each later call; plus all 216 per-phase orderings of the 3-node rotation with real encrypt/decrypt between all ordered pairs at every step; distinct = distinct (op, result, #returned, #held slices) tuples"
	cases, replay, err := vfLoadCases()
	if err != nil {
		t.Fatal(err)
	}
	r := &vfRng{s: vfSeed()*32452843 + 40}
	if !replay {
		cases = vfLoadCorpus()
		n := vfEnvInt("VF_N", 1500)
		for i := 0; i < n; i++ {
			cases = append(cases, vkGen(r))
		}
		vkRotation(st, 3, r, true)
		vkLengths(st)
		vkRotation(st, 5, r, false)
	}
	for i := range cases {
		vkRun(&cases[i], st)
	}
	fixed := "true"
	if vfEnvInt("VF_PINNED_MODEL", 0) == 1 {
		fixed = "false"
	}
	if err := vfEmit(st, cases, "From VF Require Import Raw KeyringCheck.", "check_case "+fixed, true); err != nil {
		t.Fatal(err)
	}
}
