//go:build verif

// Cluster simulations for C03 / C04 / C05: N real nodes (Create) in one synctest bubble on a simulated,
// fault-injecting network.  The harness only records what happened (probe targets with the prober's own
// node list, leave events, accusations on the wire, polled views, views at the moment faults stop and at the
// end); every judgement is made by Check/ClusterCheck.v on that record.
package memberlist

import (
	"bytes"
	"os"
	"syscall"
	"fmt"
	"io"
	"log"
	"math/rand"
	"net"
	"runtime"
	"strconv"
	"strings"
	"sync"
	"testing"
	"testing/synctest"
	"time"
)

var vkDiscardLog = log.New(io.Discard, "", 0)

func vkBool(b bool) int64 {
	if b {
		return 1
	}
	return 0
}

type vkNet struct {
	mu     sync.Mutex
	byAddr map[string]*vkTr
	r      *vfRng
	maxLat time.Duration
	loss   int
	dup    int
	cut    int
	group  map[int]int
	block  map[[2]int]bool
	t0     time.Time
	ev     [][]int64
	nodes  []*Memberlist // current incarnation of node i (nil = none)
	label  string
	keys   [][]byte
	pkts   int
	tapOn  bool
	// writes to a crashed host return an error
	unreach   bool
	slowWrite bool
	// a crashed host is frozen, not gone: its address still accepts connections, nothing ever reads them
	// members live on IPv6 addresses
	v6        bool
	// per-node operation logs written by the instrumented state.go (under each node's own lock)
	lmu  sync.Mutex
	logs map[int]*vkLog
	stall     bool
	stallLim  time.Duration
	held      []net.Conn
	stuck     map[*vkStuck]time.Time
}

// the initiator's end of a connection to a frozen host.  Like a TCP connection whose peer never reads, it takes
// a little data (the socket buffers: 256 bytes here) and then blocks the writer until the write deadline; reads
// block until the read deadline.  A write that is still blocked long after every deadline the code can have set
// is recorded (kind 18 row).
type vkStuck struct {
	n      *vkNet
	id     int
	mu     sync.Mutex
	taken  int
	wdl    time.Time
	rdl    time.Time
	closed chan struct{}
	once   sync.Once
}

func (c *vkStuck) wait(dl time.Time) error {
	var tc <-chan time.Time
	if !dl.IsZero() {
		tm := time.NewTimer(time.Until(dl))
		defer tm.Stop()
		tc = tm.C
	}
	select {
	case <-c.closed:
		return io.ErrClosedPipe
	case <-tc:
		return vkTimeout{}
	}
}
func (c *vkStuck) Write(b []byte) (int, error) {
	c.mu.Lock()
	if c.taken+len(b) <= 256 {
		c.taken += len(b)
		c.mu.Unlock()
		return len(b), nil
	}
	dl := c.wdl
	c.mu.Unlock()
	c.n.mu.Lock()
	c.n.stuck[c] = time.Now()
	c.n.mu.Unlock()
	err := c.wait(dl)
	c.n.mu.Lock()
	if d := time.Since(c.n.stuck[c]); d > c.n.stallLim {
		c.n.logEv(c.n.now(), 18, int64(c.id), int64(d/time.Millisecond))
	}
	delete(c.n.stuck, c)
	c.n.mu.Unlock()
	return 0, err
}
func (c *vkStuck) Read(b []byte) (int, error) {
	c.mu.Lock()
	dl := c.rdl
	c.mu.Unlock()
	return 0, c.wait(dl)
}
func (c *vkStuck) Close() error         { c.once.Do(func() { close(c.closed) }); return nil }
func (c *vkStuck) LocalAddr() net.Addr  { return &net.TCPAddr{IP: net.IPv4(10, 0, 0, 0), Port: 1} }
func (c *vkStuck) RemoteAddr() net.Addr { return &net.TCPAddr{IP: net.IPv4(10, 0, 0, 0), Port: 2} }
func (c *vkStuck) SetDeadline(t time.Time) error {
	c.mu.Lock()
	c.wdl, c.rdl = t, t
	c.mu.Unlock()
	return nil
}
func (c *vkStuck) SetReadDeadline(t time.Time) error {
	c.mu.Lock()
	c.rdl = t
	c.mu.Unlock()
	return nil
}
func (c *vkStuck) SetWriteDeadline(t time.Time) error {
	c.mu.Lock()
	c.wdl = t
	c.mu.Unlock()
	return nil
}

type vkTr struct {
	n        *vkNet
	id       int
	ip       net.IP
	packetCh chan *Packet
	streamCh chan net.Conn
	down     bool
}

func (n *vkNet) now() int64 { return int64(time.Since(n.t0) / time.Millisecond) }
func (n *vkNet) logEv(v ...int64) {
	n.ev = append(n.ev, v)
}
func (n *vkNet) ipOf(i int) net.IP {
	if n.v6 {
		return net.ParseIP(fmt.Sprintf("fd00::%x", i%16+1))
	}
	return net.IPv4(10, 0, 0, byte(i%16+1)).To4()
}
func (n *vkNet) add(i int) *vkTr {
	t := &vkTr{n: n, id: i, ip: n.ipOf(i), packetCh: make(chan *Packet, 8192), streamCh: make(chan net.Conn, 256)}
	n.mu.Lock()
	n.byAddr[net.JoinHostPort(t.ip.String(), "7946")] = t
	n.mu.Unlock()
	return t
}
func vkID(name string) int64 {
	i, err := strconv.Atoi(strings.TrimPrefix(name, "n"))
	if err != nil {
		return 99
	}
	return int64(i)
}

// blocked: the packet from a to b is dropped by a partition or a one-way block
func (n *vkNet) blocked(a, b int) bool {
	return n.group[a] != n.group[b] || n.block[[2]int{a, b}]
}

// scan: what a packet carries (after label, encryption, checksum, compression, compound)
func (n *vkNet) scan(from int, buf []byte, top bool, ping *string) {
	if top {
		b, _, err := RemoveLabelHeaderFromPacket(buf)
		if err != nil {
			return
		}
		buf = b
		if n.keys != nil {
			p, err := decryptPayload(n.keys, buf, []byte(n.label))
			if err != nil {
				return
			}
			buf = p
		}
		if len(buf) >= 5 && messageType(buf[0]) == hasCrcMsg {
			buf = buf[5:]
		}
	}
	if len(buf) == 0 {
		return
	}
	switch messageType(buf[0]) {
	case compoundMsg:
		_, parts, _ := decodeCompoundMessage(buf[1:])
		for _, p := range parts {
			n.scan(from, p, false, ping)
		}
	case compressMsg:
		if p, err := decompressPayload(buf[1:]); err == nil {
			n.scan(from, p, false, ping)
		}
	case pingMsg:
		var p ping_
		if decode(buf[1:], &p) == nil && ping != nil && *ping == "" {
			*ping = p.Node
		}
	case suspectMsg:
		var s suspect
		if decode(buf[1:], &s) == nil {
			n.logEv(n.now(), 2, int64(from), vkID(s.Node), int64(s.Incarnation), 0, vkID(s.From))
		}
	case deadMsg:
		var d dead
		if decode(buf[1:], &d) == nil && d.Node != d.From {
			n.logEv(n.now(), 2, int64(from), vkID(d.Node), int64(d.Incarnation), 1, vkID(d.From))
		}
	}
}

type ping_ = ping

func vkInProbe() bool {
	var pcs [32]uintptr
	k := runtime.Callers(3, pcs[:])
	fr := runtime.CallersFrames(pcs[:k])
	for {
		f, more := fr.Next()
		if strings.HasSuffix(f.Function, "(*Memberlist).probeNode") {
			return true
		}
		if !more {
			return false
		}
	}
}

func (t *vkTr) FinalAdvertiseAddr(string, int) (net.IP, int, error) { return t.ip, 7946, nil }
func (t *vkTr) WriteTo(b []byte, addr string) (time.Time, error) {
	return t.WriteToAddress(b, Address{Addr: addr})
}
func (t *vkTr) WriteToAddress(b []byte, a Address) (time.Time, error) {
	now := time.Now()
	inProbe := vkInProbe()
	n := t.n
	n.mu.Lock()
	if t.down {
		n.mu.Unlock()
		return now, fmt.Errorf("use of closed network connection")
	}
	dest := n.byAddr[a.Addr]
	n.pkts++
	target := ""
	if n.tapOn {
		n.scan(t.id, b, true, &target)
	}
	m := n.nodes[t.id]
	lat := time.Duration(1+n.r.n(int(n.maxLat/time.Microsecond))) * time.Microsecond
	drop := dest == nil || n.blocked(t.id, dest.id) || (n.loss > 0 && n.r.n(100) < n.loss)
	unreach := n.unreach && dest != nil && dest.down
	dup := n.dup > 0 && n.r.n(100) < n.dup
	lat2 := time.Duration(1+n.r.n(int(n.maxLat/time.Microsecond))) * time.Microsecond
	n.mu.Unlock()
	if inProbe && target != "" && m != nil && n.tapOn {
		// the direct ping of a probe: record the prober's list as it stands (this is the probe goroutine,
		// so probeIndex is read without a race)
		row := []int64{n.now(), 5, int64(t.id), vkID(target), int64(m.probeIndex)}
		m.nodeLock.RLock()
		row = append(row, int64(len(m.nodes)))
		for _, ns := range m.nodes {
			row = append(row, vkID(ns.Name), vkBool(ns.DeadOrLeft()))
		}
		m.nodeLock.RUnlock()
		n.mu.Lock()
		n.logEv(row...)
		n.mu.Unlock()
	}
	if unreach {
		return now, &net.OpError{Op: "write", Net: "udp", Addr: &net.UDPAddr{IP: dest.ip, Port: 7946}, Err: os.NewSyscallError("sendto", syscall.EHOSTUNREACH)}
	}
	if drop {
		return now, nil
	}
	buf := append([]byte(nil), b...)
	from := &net.UDPAddr{IP: t.ip, Port: 7946}
	deliver := func(lat time.Duration) {
		time.Sleep(lat)
		n.mu.Lock()
		dd := dest.down
		n.mu.Unlock()
		if dd {
			return
		}
		select {
		case dest.packetCh <- &Packet{Buf: buf, From: from, Timestamp: time.Now()}:
		default:
		}
	}
	go deliver(lat)
	if dup {
		go deliver(lat2)
	}
	if n.slowWrite && inProbe {
		time.Sleep(2*n.maxLat + 2*time.Microsecond)
	}
	return now, nil
}
func (t *vkTr) PacketCh() <-chan *Packet { return t.packetCh }
func (t *vkTr) DialTimeout(addr string, d time.Duration) (net.Conn, error) {
	return t.DialAddressTimeout(Address{Addr: addr}, d)
}

// a buffered in-memory stream: like TCP, a write does not wait for the reader
type vkHalf struct {
	ch     chan []byte
	closed chan struct{}
	once   sync.Once
}

func (h *vkHalf) close() { h.once.Do(func() { close(h.closed) }) }

type vkConn struct {
	rd, wr *vkHalf
	mu     sync.Mutex
	rbuf   []byte
	rdl    time.Time
	left   int // > 0: the stream breaks after this many more bytes written
}

type vkTimeout struct{}

func (vkTimeout) Error() string   { return "i/o timeout" }
func (vkTimeout) Timeout() bool   { return true }
func (vkTimeout) Temporary() bool { return true }

func vkPipe() (*vkConn, *vkConn) {
	a, b := &vkHalf{ch: make(chan []byte, 4096), closed: make(chan struct{})}, &vkHalf{ch: make(chan []byte, 4096), closed: make(chan struct{})}
	return &vkConn{rd: a, wr: b}, &vkConn{rd: b, wr: a}
}
func (c *vkConn) Read(b []byte) (int, error) {
	c.mu.Lock()
	defer c.mu.Unlock()
	if len(c.rbuf) == 0 {
		select {
		case d := <-c.rd.ch:
			c.rbuf = d
		default:
			var tc <-chan time.Time
			if !c.rdl.IsZero() {
				tm := time.NewTimer(time.Until(c.rdl))
				defer tm.Stop()
				tc = tm.C
			}
			select {
			case d := <-c.rd.ch:
				c.rbuf = d
			case <-c.rd.closed:
				select {
				case d := <-c.rd.ch:
					c.rbuf = d
				default:
					return 0, io.EOF
				}
			case <-tc:
				return 0, vkTimeout{}
			}
		}
	}
	k := copy(b, c.rbuf)
	c.rbuf = c.rbuf[k:]
	return k, nil
}
func (c *vkConn) Write(b []byte) (int, error) {
	select {
	case <-c.wr.closed:
		return 0, io.ErrClosedPipe
	default:
	}
	if c.left > 0 && len(b) >= c.left {
		k := c.left
		c.wr.ch <- append([]byte(nil), b[:k]...)
		c.Close()
		return k, fmt.Errorf("connection reset")
	}
	if c.left > 0 {
		c.left -= len(b)
	}
	select {
	case c.wr.ch <- append([]byte(nil), b...):
		return len(b), nil
	default:
		return 0, fmt.Errorf("buffer full")
	}
}
func (c *vkConn) Close() error                       { c.rd.close(); c.wr.close(); return nil }
func (c *vkConn) LocalAddr() net.Addr                { return &net.TCPAddr{IP: net.IPv4(10, 0, 0, 0), Port: 1} }
func (c *vkConn) RemoteAddr() net.Addr               { return &net.TCPAddr{IP: net.IPv4(10, 0, 0, 0), Port: 2} }
func (c *vkConn) SetDeadline(t time.Time) error      { c.rdl = t; return nil }
func (c *vkConn) SetReadDeadline(t time.Time) error  { c.rdl = t; return nil }
func (c *vkConn) SetWriteDeadline(t time.Time) error { return nil }

func (t *vkTr) DialAddressTimeout(a Address, d time.Duration) (net.Conn, error) {
	n := t.n
	n.mu.Lock()
	dest := n.byAddr[a.Addr]
	down := t.down
	bad := dest == nil || dest.down
	blocked := !bad && (n.blocked(t.id, dest.id) || n.blocked(dest.id, t.id))
	lossy := n.loss > 0 && n.r.n(100) < n.loss
	cut := 0
	if n.cut > 0 && n.r.n(100) < n.cut {
		cut = 1 + n.r.n(400)
	}
	lat := time.Duration(1+n.r.n(int(n.maxLat/time.Microsecond))) * time.Microsecond
	n.mu.Unlock()
	if down {
		return nil, fmt.Errorf("use of closed network connection")
	}
	if bad && dest != nil && n.stall {
		time.Sleep(lat)
		sc := &vkStuck{n: n, id: t.id, closed: make(chan struct{})}
		n.mu.Lock()
		n.held = append(n.held, sc)
		n.mu.Unlock()
		return sc, nil
	}
	if bad {
		time.Sleep(lat)
		return nil, fmt.Errorf("connection refused")
	}
	if blocked || lossy {
		time.Sleep(d)
		return nil, fmt.Errorf("i/o timeout")
	}
	time.Sleep(lat)
	p1, p2 := vkPipe()
	p1.left = cut
	select {
	case dest.streamCh <- p1:
	default:
		return nil, fmt.Errorf("backlog")
	}
	return p2, nil
}
func (t *vkTr) StreamCh() <-chan net.Conn { return t.streamCh }
func (t *vkTr) Shutdown() error {
	t.n.mu.Lock()
	t.down = true
	t.n.mu.Unlock()
	return nil
}

type vkEv struct {
	n  *vkNet
	id int
}

func (e *vkEv) NotifyJoin(nd *Node) {
	e.n.mu.Lock()
	if e.n.tapOn {
		e.n.logEv(e.n.now(), 11, int64(e.id), vkID(nd.Name))
	}
	e.n.mu.Unlock()
}
func (e *vkEv) NotifyUpdate(*Node) {}
func (e *vkEv) NotifyLeave(nd *Node) {
	e.n.mu.Lock()
	e.n.logEv(e.n.now(), 1, int64(e.id), vkID(nd.Name))
	e.n.mu.Unlock()
}

type vkDel struct {
	mu     sync.Mutex
	meta   int64
	chatty bool
	slow   time.Duration
}

// metadata version 999 of a life means "no metadata at all"; views record it as vkNoMeta
const vkNoMeta = 999999999

func (d *vkDel) NodeMeta(int) []byte {
	d.mu.Lock()
	defer d.mu.Unlock()
	if d.meta%1000 == 999 {
		return nil
	}
	return []byte(strconv.FormatInt(d.meta, 10))
}
func vkMetaNum(b []byte) int64 {
	if len(b) == 0 {
		return vkNoMeta
	}
	mv, err := strconv.ParseInt(string(b), 10, 64)
	if err != nil {
		return 0
	}
	return mv
}
func (d *vkDel) NotifyMsg([]byte) {
	// an application that is slow to take its messages keeps the hand-off handler busy; the packet listener
	// (which answers pings inline) must not care
	if d.slow > 0 {
		time.Sleep(d.slow)
	}
}
func (d *vkDel) GetBroadcasts(overhead, limit int) [][]byte {
	if !d.chatty || 255*(1+overhead) > limit {
		return nil
	}
	out := make([][]byte, 255)
	for i := range out {
		out[i] = []byte{byte(i)}
	}
	return out
}
func (d *vkDel) LocalState(bool) []byte          { return nil }
func (d *vkDel) MergeRemoteState([]byte, bool)   {}


// ---- per-node operation logs --------------------------------------------------------------------------
// When the check overlays an instrumented copy of state.go, aliveNode / suspectNode / deadNode / resetNodes call
// these hooks right after taking the node lock, so a node's log is the linearised sequence of its membership
// operations.  The log of (the first life of) a few nodes per simulated cluster is replayed through Core.step
// in Coq and the node's records at the end of the log must be what the model computes (code 63).
type vkLog struct {
	owner *Memberlist
	ops   [][]int64
	final [][]int64
	done  bool
	bad   bool // something the replay does not express (a foreign version vector)
}

const vkLogMax = 800

func vfInstrumented() bool { return true }

func vkAddrNum(ip net.IP, port uint16) int64 {
	n := int64(0)
	if len(ip) > 0 {
		n = int64(ip[len(ip)-1])
	}
	if len(ip) == 16 && ip.To4() == nil {
		n += 256
	}
	if port != 7946 {
		n += 512
	}
	return n
}

func vkRecords(m *Memberlist) [][]int64 {
	var out [][]int64
	for name, s := range m.nodeMap {
		out = append(out, []int64{vkID(name), int64(s.Incarnation), int64(s.State), vkAddrNum(s.Addr, s.Port), vkMetaNum(s.Meta)})
	}
	out = append(out, []int64{-1, int64(m.incarnation.Load()), vkBool(m.hasLeft())})
	return out
}

// called with m.nodeLock held for writing
func vkLogOp(m *Memberlist, op []int64, bad bool) {
	tr, ok := m.config.Transport.(*vkTr)
	if !ok {
		return
	}
	n := tr.n
	n.lmu.Lock()
	lg := n.logs[tr.id]
	if lg != nil && lg.owner == nil {
		lg.owner = m
	}
	n.lmu.Unlock()
	if lg == nil || lg.owner != m || lg.done {
		return
	}
	if len(lg.ops) >= vkLogMax {
		// the state before this operation is the state after the logged ones
		lg.final = vkRecords(m)
		lg.done = true
		return
	}
	if bad {
		lg.bad = true
	}
	row := append([]int64{int64(time.Since(n.t0)), vkBool(m.hasLeft())}, op...)
	lg.ops = append(lg.ops, row)
}

var vkStdVsn = []byte{1, 5, 2, 0, 0, 0}

func vfHookAlive(m *Memberlist, a *alive, bootstrap bool) {
	vkLogOp(m, []int64{0, vkID(a.Node), int64(a.Incarnation), vkAddrNum(a.Addr, a.Port), vkMetaNum(a.Meta), vkBool(bootstrap)}, !bytes.Equal(a.Vsn, vkStdVsn))
}
func vfHookSuspect(m *Memberlist, s *suspect) {
	vkLogOp(m, []int64{1, vkID(s.Node), int64(s.Incarnation), vkID(s.From), 0, 0}, false)
}
func vfHookDead(m *Memberlist, d *dead) {
	vkLogOp(m, []int64{2, vkID(d.Node), int64(d.Incarnation), vkID(d.From), 0, 0}, false)
}
func vfHookReset(m *Memberlist) {
	vkLogOp(m, []int64{3, 0, 0, 0, 0, 0}, false)
}

// rows: kind 20 = one logged operation, kind 21 = one record at the end of the log, kind 22 = counter / flag / usable
func (s *vkSim) emitLogs() {
	vn := s.vn
	for id, lg := range vn.logs {
		if lg.owner == nil {
			continue
		}
		if !lg.done {
			lg.owner.nodeLock.Lock()
			lg.final = vkRecords(lg.owner)
			lg.done = true
			lg.owner.nodeLock.Unlock()
		}
		vn.mu.Lock()
		for _, op := range lg.ops {
			vn.logEv(append([]int64{0, 20, int64(id)}, op...)...)
		}
		for _, r := range lg.final {
			if r[0] < 0 {
				vn.logEv(0, 22, int64(id), r[1], r[2], vkBool(lg.bad))
			} else {
				vn.logEv(append([]int64{0, 21, int64(id)}, r...)...)
			}
		}
		vn.mu.Unlock()
	}
}

// ---- a case ----
// cfg: [kind; N; PI_ms; ptdiv; indirect; flags(1 tcp pings off, 2 compression, 4 encryption, 8 label); aw_max;
//       susp_max_mult; settle_ms; mult_0; smin_0 (ms, suspicionTimeout(mult_0, N, PI)); mult_1; smin_1; ...]
// ops:  [dt_ms; code; a; b] executed in order, each after sleeping dt_ms:
//   0 nothing          1 node a: new metadata version b + UpdateNode      2 node a leaves (b=0 stays up, b=1 shuts down)
//   3 node a crashes   4 node a restarts at its address and joins b        5 loss percent a, duplicates percent b
//   6 partition: bit i of a = group of node i   7 heal partitions/blocks   8 one-way block a -> b
//   9 node a joins b   10 faults stop (everything healed), views recorded  11 end: final views recorded
//   12 stream cut percent a    13 poll for b*PI/8 steps of PI/8 (views and health recorded when abnormal)
//   17 everything node a sends is lost until the next heal
//   14 a new process named n(a+16) takes over crashed a's address and joins b    16 marker: faults begin
const (
	vkTcpOff = 1
	vkComp   = 2
	vkEnc    = 4
	vkLabel  = 8
	// gossip once per probe interval, push/pull just as often: state exchanges overtake gossip
	vkSlowGossip = 16
	// a datagram to a crashed host fails at the sender with "no route to host" instead of vanishing
	vkUnreach = 32
	// the sender is descheduled right after the datagram left: a probe's write returns only after the
	// answer has had time to come back
	vkSlowWrite = 64
	// the application always has exactly 255 one-byte broadcasts to piggy-back
	vkChatty = 128
	// a crashed host is frozen: connections to its address are accepted and never read
	vkStall = 256
	// the members have IPv6 addresses
	vkV6 = 512
	// the application takes a quarter of a probe interval to handle each message it is given
	vkSlowApp = 1024
	// compression is switched on at every other member only
	vkMixComp = 2048
	vkMax     = 32
)

type vkSim struct {
	t     *testing.T
	c     *vfCase
	vn    *vkNet
	N     int
	pi    time.Duration
	ms    []*Memberlist
	dels  []*vkDel
	gen   []int64
	live  []bool
	left  []bool
	ready []bool
}

func (s *vkSim) mk(i int) *Memberlist {
	c := s.c.Cfg
	cfg := DefaultLANConfig()
	cfg.Name = fmt.Sprintf("n%d", i)
	cfg.Transport = s.vn.add(i)
	cfg.BindPort = 7946
	cfg.AdvertisePort = 7946
	cfg.Logger = vkDiscardLog
	cfg.ProbeInterval = s.pi
	cfg.ProbeTimeout = vkProbeTimeout(s.pi, c[3])
	cfg.GossipInterval = s.pi / 5
	cfg.PushPullInterval = 8 * s.pi
	if c[5]&vkSlowGossip != 0 {
		cfg.GossipInterval = s.pi
		cfg.PushPullInterval = s.pi
	}
	cfg.IndirectChecks = int(c[4])
	cfg.DisableTcpPings = c[5]&vkTcpOff != 0
	cfg.EnableCompression = c[5]&vkComp != 0
	if c[5]&vkMixComp != 0 {
		// mid-rollout: every other member compresses what it sends
		cfg.EnableCompression = i%2 == 1
	}
	if c[5]&vkEnc != 0 {
		cfg.SecretKey = s.vn.keys[0]
	}
	if c[5]&vkLabel != 0 {
		cfg.Label = s.vn.label
	}
	cfg.AwarenessMaxMultiplier = int(c[6])
	cfg.SuspicionMaxTimeoutMult = int(c[7])
	cfg.SuspicionMult = int(c[9+2*(i%16)])
	cfg.GossipToTheDeadTime = 150 * s.pi
	cfg.TCPTimeout = 2 * s.pi
	cfg.Events = &vkEv{n: s.vn, id: i}
	s.gen[i]++
	d := &vkDel{meta: s.gen[i] * 1000, chatty: c[5]&vkChatty != 0}
	if c[5]&vkSlowApp != 0 {
		d.slow = s.pi / 4
	}
	cfg.Delegate = d
	s.dels[i] = d
	m, err := Create(cfg)
	if err != nil {
		s.t.Fatal(err)
	}
	s.vn.mu.Lock()
	s.vn.nodes[i] = m
	s.vn.mu.Unlock()
	s.ms[i] = m
	s.live[i] = true
	s.left[i] = false
	return m
}

// cfg[3]: ProbeTimeout = ProbeInterval / cfg[3]; 0 stands for one and a half probe intervals (nothing in
// Config forbids a timeout longer than the interval)
func vkProbeTimeout(pi time.Duration, div int64) time.Duration {
	if div == 0 {
		return pi * 3 / 2
	}
	return pi / time.Duration(div)
}

func (s *vkSim) addr(i int) string { return net.JoinHostPort(s.vn.ipOf(i).String(), "7946") }

// kind 17 row: the incarnation a process had reached when it was stopped (nothing it announces later can leave it)
func (s *vkSim) endOfLife(a int) {
	s.vn.mu.Lock()
	s.vn.logEv(s.vn.now(), 17, int64(a), int64(s.ms[a].incarnation.Load()))
	s.vn.mu.Unlock()
}

// views of every live node: kind 8 rows (node, subject, state, incarnation) and kind 9 (node, own incarnation, meta)
func (s *vkSim) snapshot(kindView, kindOwn int64) {
	vn := s.vn
	for i, m := range s.ms {
		if m == nil || !s.live[i] {
			continue
		}
		m.nodeLock.RLock()
		var rows [][]int64
		var own int64
		for _, ns := range m.nodes {
			if ns.Name == m.config.Name {
				own = int64(ns.Incarnation)
				continue
			}
			rows = append(rows, []int64{vn.now(), kindView, int64(i), vkID(ns.Name), int64(ns.State), int64(ns.Incarnation)})
		}
		m.nodeLock.RUnlock()
		s.dels[i].mu.Lock()
		meta := s.dels[i].meta
		if meta%1000 == 999 {
			meta = vkNoMeta
		}
		s.dels[i].mu.Unlock()
		vn.mu.Lock()
		vn.ev = append(vn.ev, rows...)
		vn.logEv(vn.now(), kindOwn, int64(i), own, meta, vkBool(s.left[i]))
		vn.mu.Unlock()
	}
}

func (s *vkSim) final() {
	vn := s.vn
	for i, m := range s.ms {
		if m == nil || !s.live[i] {
			continue
		}
		for _, mem := range m.Members() {
			mv := vkMetaNum(mem.Meta)
			vn.mu.Lock()
			vn.logEv(vn.now(), 10, int64(i), vkID(mem.Name), mv)
			vn.mu.Unlock()
		}
		vn.mu.Lock()
		vn.logEv(vn.now(), 12, int64(i), int64(m.GetHealthScore()))
		vn.mu.Unlock()
	}
}

func (s *vkSim) poll(steps int) {
	vn := s.vn
	for k := 0; k < steps; k++ {
		time.Sleep(s.pi / 8)
		for i, m := range s.ms {
			if m == nil || !s.live[i] {
				continue
			}
			if h := m.GetHealthScore(); h != 0 {
				vn.mu.Lock()
				vn.logEv(vn.now(), 3, int64(i), int64(h))
				vn.mu.Unlock()
			}
			m.nodeLock.RLock()
			for _, ns := range m.nodes {
				// every record that is not Alive, and every record of a member that has left (also an Alive one)
				if id := vkID(ns.Name); ns.State != StateAlive || (id < vkMax && s.left[id]) {
					vn.mu.Lock()
					vn.logEv(vn.now(), 4, int64(i), id, int64(ns.State))
					vn.mu.Unlock()
				}
			}
			m.nodeLock.RUnlock()
		}
	}
}

func vkRun(t *testing.T, c *vfCase, st *vfStats) {
	N := int(c.Cfg[1])
	pi := time.Duration(c.Cfg[2]) * time.Millisecond
	r := &vfRng{s: uint64(c.Cfg[8])*7919 + uint64(len(c.Ops))}
	rand.Seed(int64(r.next() >> 1))
	maxLat := vkProbeTimeout(pi, c.Cfg[3]) / 2
	if maxLat > pi/4 {
		maxLat = pi / 4
	}
	vn := &vkNet{byAddr: map[string]*vkTr{}, r: r, maxLat: maxLat, group: map[int]int{}, block: map[[2]int]bool{},
		t0: time.Now(), nodes: make([]*Memberlist, vkMax), tapOn: c.Cfg[0] == 1}
	if c.Cfg[5]&vkEnc != 0 {
		vn.keys = [][]byte{bytes.Repeat([]byte{7}, 16)}
	}
	if c.Cfg[5]&vkLabel != 0 {
		vn.label = "vk"
	}
	vn.unreach = c.Cfg[5]&vkUnreach != 0
	vn.slowWrite = c.Cfg[5]&vkSlowWrite != 0
	vn.logs = map[int]*vkLog{}
	if os.Getenv("VF_INSTR") != "" && (c.Cfg[0] == 1 || c.Cfg[0] == 2) {
		// fault histories: three nodes; healthy-then-crash histories: two
		for i := 0; i < 4-int(c.Cfg[0]) && i < N; i++ {
			vn.logs[i] = &vkLog{}
		}
	}
	vn.stall = c.Cfg[5]&vkStall != 0
	vn.v6 = c.Cfg[5]&vkV6 != 0
	vn.stuck = map[*vkStuck]time.Time{}
	// the longest deadline the code sets on a stream: the TCP fallback ping's (the awareness-scaled probe
	// interval); push/pull and user streams use TCPTimeout = 2 probe intervals
	vn.stallLim = time.Duration(c.Cfg[6]+2) * pi
	s := &vkSim{t: t, c: c, vn: vn, N: N, pi: pi, ms: make([]*Memberlist, vkMax), dels: make([]*vkDel, vkMax), gen: make([]int64, vkMax), live: make([]bool, vkMax), left: make([]bool, vkMax)}
	for _, op := range c.Ops {
		time.Sleep(time.Duration(op[0]) * time.Millisecond)
		a, b := int(op[2]), int(op[3])
		st.Ops++
		switch op[1] {
		case 1:
			if s.live[a] && !s.left[a] {
				s.dels[a].mu.Lock()
				s.dels[a].meta = s.gen[a]*1000 + int64(b)
				s.dels[a].mu.Unlock()
				s.ms[a].UpdateNode(pi)
			}
		case 2:
			if s.live[a] && !s.left[a] {
				s.left[a] = true
				vn.mu.Lock()
				vn.logEv(vn.now(), 13, int64(a))
				vn.mu.Unlock()
				s.ms[a].Leave(2 * pi)
				if b == 1 {
					// the usual way to depart: Leave, then Shutdown
					s.ms[a].Shutdown()
					s.live[a] = false
					s.endOfLife(a)
				}
			}
		case 3:
			if s.live[a] {
				vn.mu.Lock()
				vn.logEv(vn.now(), 6, int64(a))
				vn.mu.Unlock()
				for j, m := range s.ms {
					if j == a || m == nil || !s.live[j] {
						continue
					}
					for _, mem := range m.Members() {
						if mem.Name == s.ms[a].config.Name {
							vn.mu.Lock()
							vn.logEv(vn.now(), 7, int64(j), int64(a))
							vn.mu.Unlock()
						}
					}
				}
				s.ms[a].transport.Shutdown()
				s.ms[a].Shutdown()
				s.live[a] = false
				s.endOfLife(a)
			}
		case 4:
			if s.ms[a] != nil && !s.live[a] {
				m := s.mk(a)
				vn.mu.Lock()
				vn.logEv(vn.now(), 14, int64(a))
				vn.mu.Unlock()
				if s.live[b] && b != a {
					m.Join([]string{s.addr(b)})
				}
			}
		case 14:
			// a process with a new name takes over the address of the crashed node a and joins b
			if s.ms[a] != nil && !s.live[a] && s.ms[a+16] == nil {
				m := s.mk(a + 16)
				vn.mu.Lock()
				vn.logEv(vn.now(), 14, int64(a+16))
				vn.mu.Unlock()
				if s.ms[b] != nil && s.live[b] {
					m.Join([]string{s.addr(b)})
				}
			}
		case 16:
			vn.mu.Lock()
			vn.logEv(vn.now(), 16)
			vn.mu.Unlock()
		case 17:
			// everything node a sends is lost (it still hears the others)
			vn.mu.Lock()
			for j := 0; j < vkMax; j++ {
				if j != a {
					vn.block[[2]int{a, j}] = true
				}
			}
			vn.mu.Unlock()
		case 5:
			vn.mu.Lock()
			vn.loss, vn.dup = a, b
			vn.mu.Unlock()
		case 6:
			vn.mu.Lock()
			for i := 0; i < N; i++ {
				vn.group[i] = (a >> i) & 1
			}
			vn.mu.Unlock()
		case 7:
			vn.mu.Lock()
			vn.group = map[int]int{}
			vn.block = map[[2]int]bool{}
			vn.mu.Unlock()
		case 8:
			vn.mu.Lock()
			vn.block[[2]int{a, b}] = true
			vn.mu.Unlock()
		case 9:
			if s.ms[a] == nil {
				s.mk(a)
			}
			if a != b && s.ms[b] != nil && s.live[b] {
				if _, err := s.ms[a].Join([]string{s.addr(b)}); err != nil {
					vn.mu.Lock()
					vn.logEv(vn.now(), 15, int64(a), int64(b))
					vn.mu.Unlock()
				}
			}
		case 10:
			vn.mu.Lock()
			vn.loss, vn.dup, vn.cut = 0, 0, 0
			vn.group = map[int]int{}
			vn.block = map[[2]int]bool{}
			vn.mu.Unlock()
			// packets already in flight arrive within the latency bound
			time.Sleep(vn.maxLat + time.Millisecond)
			s.snapshot(8, 9)
		case 11:
			s.final()
			s.emitLogs()
		case 12:
			vn.mu.Lock()
			vn.cut = a
			vn.mu.Unlock()
		case 13:
			s.poll(b)
		}
		st.OpHist[fmt.Sprintf("op%d", op[1])]++
	}
	vn.mu.Lock()
	for sc, since := range vn.stuck {
		if d := time.Since(since); d > vn.stallLim {
			vn.logEv(vn.now(), 18, int64(sc.id), int64(d/time.Millisecond))
		}
	}
	held := vn.held
	vn.held = nil
	vn.mu.Unlock()
	for _, h := range held {
		h.Close()
	}
	vn.mu.Lock()
	vn.tapOn = false
	c.Obs = vn.ev
	st.ObsHist["packets"] += vn.pkts
	vn.mu.Unlock()
	for i, m := range s.ms {
		if m != nil && s.live[i] {
			m.Shutdown()
		}
	}
	time.Sleep(time.Hour)
	synctest.Wait()
}

func vkCfg(r *vfRng, kind int, N int) []int64 {
	pi := int64([]int{200, 1000}[r.n(2)])
	ptdiv := int64(2 + r.n(3))
	if r.chance(15) {
		ptdiv = int64(r.n(2)) // ProbeTimeout as long as ProbeInterval or longer: the ack timer of a probe expires before its wait does
	}
	flags := int64(r.n(64))
	if r.chance(25) {
		flags |= vkSlowWrite
	}
	if r.chance(15) {
		flags |= vkChatty
	}
	awmax := int64([]int{8, 4}[r.n(2)])
	smm := int64([]int{6, 3}[r.n(2)])
	cfg := []int64{int64(kind), int64(N), pi, ptdiv, int64(r.n(4)), flags, awmax, smm, int64(r.n(1 << 30))}
	if cfg[8]%4 == 0 {
		cfg[5] |= vkStall
	}
	if (cfg[8]/4)%3 == 0 {
		cfg[5] |= vkV6
	}
	if (cfg[8]/12)%4 == 0 {
		cfg[5] |= vkMixComp
	}
	if (cfg[8]/48)%5 == 0 && cfg[5]&vkChatty != 0 {
		cfg[5] |= vkSlowApp
	}
	mult := 2 + r.n(4)
	for i := 0; i < N; i++ {
		cfg = append(cfg, int64(mult), int64(suspicionTimeout(mult, N, time.Duration(pi)*time.Millisecond)/time.Millisecond))
	}
	return cfg
}

// kind 1: staggered joins, a healthy period with user operations (polled), then one or two crashes, each
// followed by a watch as long as the detection bound
func vkGenHealthy(r *vfRng, thorough bool) vfCase {
	N := 3 + r.n(6)
	if thorough && r.chance(20) {
		N = 9 + r.n(8)
	}
	cfg := vkCfg(r, 1, N)
	pi := cfg[2]
	var ops [][]int64
	ops = append(ops, []int64{0, 9, 0, 0})
	for i := 1; i < N; i++ {
		ops = append(ops, []int64{int64(r.n(300)), 9, int64(i), int64(r.n(i))})
	}
	leaver := -1
	steps := 12 + r.n(20)
	for k := 0; k < steps; k++ {
		a := r.n(N)
		switch r.n(7) {
		case 0, 1:
			if a != leaver {
				ops = append(ops, []int64{0, 1, int64(a), int64(k + 1)})
			}
		case 2:
			if leaver < 0 && N > 3 && k > steps/3 {
				leaver = a
				ops = append(ops, []int64{0, 2, int64(a), 0})
				if r.chance(60) {
					// somebody exchanges state with the leaver straight away (Join to an existing member)
					x := r.n(N)
					for x == a {
						x = r.n(N)
					}
					ops = append(ops, []int64{int64(r.n(30)), 9, int64(x), int64(a)})
				}
			}
		case 3:
			// Join between two members: one more push/pull
			b := r.n(N)
			if a != b && a != leaver {
				ops = append(ops, []int64{0, 9, int64(a), int64(b)})
			}
		}
		ops = append(ops, []int64{0, 13, 0, int64(2 + r.n(40))})
	}
	// crash phase
	smin := cfg[10]
	bound := pi + 2*int64(N)*cfg[6]*pi + cfg[7]*smin
	ncrash := 1
	if N > 4 && r.chance(30) {
		ncrash = 2
	}
	ops = append(ops, []int64{0, 16, 0, 0})
	used := map[int]bool{leaver: true}
	for k := 0; k < ncrash; k++ {
		v := r.n(N)
		for used[v] {
			v = r.n(N)
		}
		used[v] = true
		if r.chance(50) {
			// the victim is falsely suspected first: what it sends is lost for a while (shorter than the
			// shortest suspicion timeout), it hears the accusations and refutes
			if r.chance(50) {
				ops = append(ops, []int64{0, 17, int64(v), 0})
			} else {
				a := r.n(N)
				for a == v || a == leaver {
					a = r.n(N)
				}
				ops = append(ops, []int64{0, 8, int64(v), int64(a)})
			}
			ops = append(ops, []int64{pi*12/10 + int64(r.n(int(pi*8/10))), 7, 0, 0}, []int64{int64(3+r.n(6)) * pi, 0, 0, 0})
		}
		ops = append(ops, []int64{int64(r.n(int(pi))), 3, int64(v), 0})
		if r.chance(35) {
			// another process takes over the address
			b := r.n(N)
			for used[b] {
				b = r.n(N)
			}
			gap := int64(r.n(int(2 * pi)))
			if r.chance(50) {
				gap = int64(r.n(3)) // the replacement is up before anybody has probed the old name
			}
			ops = append(ops, []int64{gap, 14, int64(v), int64(b)})
		}
		if k+1 < ncrash {
			ops = append(ops, []int64{int64(r.n(int(3 * pi))), 0, 0, 0})
		}
	}
	ops = append(ops, []int64{bound + pi, 11, 0, 0})
	return vfCase{Cfg: cfg, Ops: ops}
}

// kind 2: a fault period (loss, duplication, partitions, one-way blocks, stream cuts, crashes, same-address
// restarts, leaves, metadata updates), then faults stop; after the settling time the final views are recorded
func vkGenFaults(r *vfRng, thorough bool) vfCase {
	N := 4 + r.n(5)
	cfg := vkCfg(r, 2, N)
	cfg[5] &^= vkChatty | vkSlowWrite // healthy-period scenarios; ten virtual minutes of them cost too much here
	cfg[2] = 200
	cfg[6], cfg[7] = 8, 6
	for i := 0; i < N; i++ {
		cfg[9+2*i] = 3
		cfg[10+2*i] = int64(suspicionTimeout(3, N, 200*time.Millisecond) / time.Millisecond)
	}
	var ops [][]int64
	ops = append(ops, []int64{0, 9, 0, 0})
	for i := 1; i < N; i++ {
		ops = append(ops, []int64{int64(r.n(100)), 9, int64(i), 0})
	}
	ops = append(ops, []int64{5000, 0, 0, 0})
	live := make([]bool, N)
	taken := make([]bool, N)
	nlive := N
	for i := range live {
		live[i] = true
	}
	steps := 4 + r.n(18)
	for k := 0; k < steps; k++ {
		dt := int64(200 + r.n(1500))
		switch r.n(13) {
		case 0:
			ops = append(ops, []int64{dt, 5, int64([]int{0, 20, 50, 90}[r.n(4)]), int64([]int{0, 0, 30}[r.n(3)])})
		case 1:
			ops = append(ops, []int64{dt, 6, int64(r.n(1 << N)), 0})
		case 2:
			ops = append(ops, []int64{dt, 7, 0, 0})
		case 3:
			a := r.n(N)
			if live[a] && nlive > 3 {
				live[a] = false
				nlive--
				ops = append(ops, []int64{dt, 3, int64(a), 0})
			}
		case 4:
			for a := 0; a < N; a++ {
				if !live[a] && !taken[a] {
					b := r.n(N)
					for !live[b] {
						b = r.n(N)
					}
					live[a] = true
					nlive++
					ops = append(ops, []int64{dt, 4, int64(a), int64(b)})
					break
				}
			}
		case 5:
			mv := int64(1 + r.n(900))
			if r.chance(25) {
				mv = 999 // the metadata is cleared
			}
			ops = append(ops, []int64{dt, 1, int64(r.n(N)), mv})
		case 6:
			a, b := r.n(N), r.n(N)
			if a != b {
				ops = append(ops, []int64{dt, 8, int64(a), int64(b)})
			}
		case 7:
			ops = append(ops, []int64{dt, 12, int64([]int{0, 30, 80}[r.n(3)]), 0})
		case 9:
			// rapid restart: back before anybody has suspected it
			a := r.n(N)
			if live[a] {
				b := r.n(N)
				for !live[b] || b == a {
					b = r.n(N)
				}
				ops = append(ops, []int64{dt, 3, int64(a), 0}, []int64{int64(20 + r.n(150)), 4, int64(a), int64(b)})
			}
		case 11:
			// a member that has raised its incarnation crashes, comes back at the same address (its new life
			// starts below what the peers remember), and later changes its metadata again
			a := r.n(N)
			if live[a] {
				b := r.n(N)
				for !live[b] || b == a {
					b = r.n(N)
				}
				ops = append(ops, []int64{dt, 1, int64(a), int64(1 + r.n(900))}, []int64{int64(100 + r.n(300)), 1, int64(a), int64(1 + r.n(900))},
					[]int64{int64(300 + r.n(600)), 3, int64(a), 0}, []int64{int64(20 + r.n(2000)), 4, int64(a), int64(b)},
					[]int64{int64(500 + r.n(1500)), 1, int64(a), int64(1 + r.n(900))})
			}
		case 12:
			// a member crashes and a process with another name takes over its address
			a := r.n(N)
			if live[a] && nlive > 3 && !taken[a] {
				b := r.n(N)
				for !live[b] || b == a {
					b = r.n(N)
				}
				live[a] = false
				nlive--
				taken[a] = true
				gap := int64(20 + r.n(400))
				if r.chance(50) {
					gap = int64(r.n(3))
				}
				ops = append(ops, []int64{dt, 3, int64(a), 0}, []int64{gap, 14, int64(a), int64(b)})
			}
		case 10:
			// accused, refutes, then really crashes
			a, b := r.n(N), r.n(N)
			if live[a] && live[b] && a != b && nlive > 3 {
				live[a] = false
				nlive--
				ops = append(ops, []int64{dt, 8, int64(a), int64(b)}, []int64{int64(400 + r.n(400)), 7, 0, 0}, []int64{int64(600 + r.n(1500)), 3, int64(a), 0})
			}
		case 8:
			a := r.n(N)
			if live[a] && nlive > 3 && r.chance(40) {
				live[a] = false
				nlive--
				ops = append(ops, []int64{dt, 2, int64(a), 1})
			} else {
				ops = append(ops, []int64{dt, 0, 0, 0})
			}
		}
	}
	ops = append(ops, []int64{int64(200 + r.n(1500)), 10, 0, 0})
	ops = append(ops, []int64{vkSettle(cfg), 11, 0, 0})
	return vfCase{Cfg: cfg, Ops: ops}
}

// settling time granted after faults stop
func vkSettle(cfg []int64) int64 { return 600 * cfg[2] * 5 }

// ---- kind 3: contention in real time (a goroutine waiting for a mutex is not durably blocked, so no bubble).
// One real node with a few members; for a third of a second, at the same time: membership claims are applied
// (node lock, then the broadcast queue), pings arrive and are answered with piggy-backed broadcasts (the queue,
// then whatever its callbacks need), suspicions are raised and refuted, the application reads the member list.
// A healthy member must keep answering: every worker has to come back.  Row kind 19 = some worker never did.
type vkNull struct {
	pk chan *Packet
	st chan net.Conn
}

func (t *vkNull) FinalAdvertiseAddr(string, int) (net.IP, int, error) { return net.IP{10, 0, 0, 1}, 7946, nil }
func (t *vkNull) WriteTo(b []byte, a string) (time.Time, error)       { return time.Now(), nil }
func (t *vkNull) WriteToAddress(b []byte, a Address) (time.Time, error) {
	return time.Now(), nil
}
func (t *vkNull) PacketCh() <-chan *Packet { return t.pk }
func (t *vkNull) StreamCh() <-chan net.Conn { return t.st }
func (t *vkNull) Shutdown() error          { return nil }
func (t *vkNull) DialTimeout(string, time.Duration) (net.Conn, error) {
	return nil, fmt.Errorf("refused")
}
func (t *vkNull) DialAddressTimeout(Address, time.Duration) (net.Conn, error) {
	return nil, fmt.Errorf("refused")
}

func vkContend(t *testing.T, c *vfCase, st *vfStats) {
	cfg := DefaultLANConfig()
	cfg.Name = "n0"
	cfg.Transport = &vkNull{pk: make(chan *Packet), st: make(chan net.Conn)}
	cfg.Logger = vkDiscardLog
	cfg.Delegate = &vkDel{meta: 1000}
	m, err := newMemberlist(cfg)
	if err != nil {
		t.Fatal(err)
	}
	if err := m.setAlive(); err != nil {
		t.Fatal(err)
	}
	peer := func(i int) string { return fmt.Sprintf("n%d", i) }
	for i := 1; i <= 3; i++ {
		m.aliveNode(&alive{Incarnation: 1, Node: peer(i), Addr: []byte{10, 0, 0, byte(i + 1)}, Port: 7946, Vsn: []uint8{1, 5, 2, 0, 0, 0}}, nil, false)
	}
	stop := make(chan struct{})
	var wg sync.WaitGroup
	work := func(f func(k int)) {
		wg.Add(1)
		go func() {
			defer wg.Done()
			for k := 0; ; k++ {
				select {
				case <-stop:
					return
				default:
				}
				f(k)
			}
		}()
	}
	// membership claims: metadata updates of the peers at rising incarnations
	work(func(k int) {
		m.aliveNode(&alive{Incarnation: uint32(2 + k), Node: peer(1 + k%3), Addr: []byte{10, 0, 0, byte(2 + k%3)}, Port: 7946, Meta: []byte{byte(k)}, Vsn: []uint8{1, 5, 2, 0, 0, 0}}, nil, false)
	})
	// pings from a member, answered inline with whatever broadcasts fit
	from := &net.UDPAddr{IP: net.IP{10, 0, 0, 2}, Port: 7946}
	work(func(k int) {
		buf, _ := encode(pingMsg, &ping{SeqNo: uint32(k + 1), Node: "n0"}, false)
		m.handleCommand(buf.Bytes(), from, time.Now())
	})
	// what gossip() does with the queue
	work(func(k int) { m.getBroadcasts(compoundOverhead, 1400) })
	// accusations against ourselves (refuted) and against a peer (taken back by the next alive claim)
	work(func(k int) {
		m.suspectNode(&suspect{Incarnation: m.incarnation.Load(), Node: "n0", From: peer(1)})
		m.suspectNode(&suspect{Incarnation: uint32(2 + k), Node: peer(1 + k%3), From: peer(2)})
	})
	// the application reads the member list
	work(func(k int) { m.Members(); m.NumMembers(); m.GetHealthScore() })
	time.Sleep(300 * time.Millisecond)
	close(stop)
	done := make(chan struct{})
	go func() { wg.Wait(); close(done) }()
	c.Obs = [][]int64{{0, 0}}
	select {
	case <-done:
		m.Shutdown()
	case <-time.After(10 * time.Second):
		c.Obs = append(c.Obs, []int64{10300, 19, 0})
		st.ObsHist["contention_deadlock"]++
	}
	st.Ops++
	st.OpHist["contention"]++
}

func TestVfCluster(t *testing.T) {
	st := vfNewStats("cluster")
	cases, replay, err := vfLoadCases()
	if err != nil {
		t.Fatal(err)
	}
	if !replay {
		cases = vfLoadCorpus()
		r := &vfRng{s: vfSeed()*2654435761 + 90}
		n := vfEnvInt("VF_N", 24)
		thorough := n > 100
		prop := vfPropEnv()
		for i := 0; i < n; i++ {
			switch {
			case prop == "C05":
				cases = append(cases, vkGenFaults(r, thorough))
			case prop == "C03" || prop == "C04":
				cases = append(cases, vkGenHealthy(r, thorough))
			case i%2 == 0:
				cases = append(cases, vkGenHealthy(r, thorough))
			default:
				cases = append(cases, vkGenFaults(r, thorough))
			}
		}
		if prop != "C05" && prop != "C03" {
			for k := 0; k < 3; k++ {
				cases = append(cases, vfCase{Cfg: []int64{3, 4, 200, 3, 1, 0, 8, 6, int64(k)}, Ops: [][]int64{{0, 0, 0, 0}}})
			}
		}
	}
	// the real-time contention cases first: when they find the node wedged, the simulated clusters would only hang
	stats := make([]*vfStats, len(cases))
	wedged := false
	for i := range cases {
		stats[i] = vfNewStats("cluster")
		if cases[i].Cfg[0] == 3 {
			vkContend(t, &cases[i], stats[i])
			wedged = wedged || len(cases[i].Obs) > 1
		}
	}
	// cases are independent: run them in parallel bubbles
	var wg sync.WaitGroup
	sem := make(chan struct{}, runtime.NumCPU())
	for i := range cases {
		if wedged {
			break
		}
		wg.Add(1)
		sem <- struct{}{}
		go func(i int) {
			defer wg.Done()
			defer func() { <-sem }()
			if cases[i].Cfg[0] == 3 {
				return // real-time cases run on their own, below
			}
			synctest.Test(t, func(t *testing.T) { vkRun(t, &cases[i], stats[i]) })
		}(i)
	}
	wg.Wait()
	for _, s := range stats {
		st.Ops += s.Ops
		for k, v := range s.OpHist {
			st.OpHist[k] += v
		}
		for k, v := range s.ObsHist {
			st.ObsHist[k] += v
		}
	}
	for i := range cases {
		st.class(fmt.Sprintf("k%d-n%d-f%d", cases[i].Cfg[0], cases[i].Cfg[1], cases[i].Cfg[5]))
	}
	vkDistribution(st, cases)
	sel := map[string]string{"C03": "3", "C04": "4", "C05": "5"}[vfPropEnv()]
	if sel == "" {
		sel = "0"
	}
	if err := vfEmit(st, cases, "From VF Require Import Raw ClusterCheck.", "(ClusterCheck.check_case "+sel+"%Z)", true); err != nil {
		t.Fatal(err)
	}
}

// what the generated cases looked like (evidence only; nothing here decides a property)
func vkDistribution(st *vfStats, cases []vfCase) {
	sizes := map[string]int{}
	var probes, crashes, listed, detected, kind2, pre, conv int
	worst := 0.0
	for _, c := range cases {
		sizes[fmt.Sprintf("kind%d_n%d", c.Cfg[0], c.Cfg[1])]++
		if c.Cfg[0] == 1 {
			for _, r := range c.Obs {
				switch r[1] {
				case 5:
					probes++
				case 6:
					crashes++
				case 7:
					listed++
					j, v, tc := r[2], r[3], r[0]
					smin := c.Cfg[10+2*(j%16)]
					bound := c.Cfg[2] + 2*c.Cfg[1]*c.Cfg[6]*c.Cfg[2] + c.Cfg[7]*smin
					for _, e := range c.Obs {
						if e[1] == 1 && e[2] == j && e[3] == v && e[0] >= tc {
							detected++
							if f := float64(e[0]-tc) / float64(bound); f > worst {
								worst = f
							}
							break
						}
					}
				}
			}
			continue
		}
		kind2++
		var ids []int64
		meta := map[int64]int64{}
		lists := map[[2]int64]bool{}
		for _, r := range c.Obs {
			if r[1] == 9 && r[5] == 0 {
				ids = append(ids, r[2])
				meta[r[2]] = r[4]
			}
			if r[1] == 8 && r[4] < 2 {
				lists[[2]int64{r[2], r[3]}] = true
			}
		}
		if len(ids) == 0 {
			continue
		}
		seen := map[int64]bool{ids[0]: true}
		for ch := true; ch; {
			ch = false
			for _, y := range ids {
				if seen[y] {
					continue
				}
				for x := range seen {
					if lists[[2]int64{x, y}] || lists[[2]int64{y, x}] {
						seen[y], ch = true, true
						break
					}
				}
			}
		}
		if len(seen) != len(ids) {
			continue
		}
		pre++
		ok := true
		for _, i := range ids {
			got := map[int64]int64{}
			for _, r := range c.Obs {
				if r[1] == 10 && r[2] == i {
					got[r[3]] = r[4]
				}
			}
			if len(got) != len(ids) {
				ok = false
			}
			for _, j := range ids {
				if got[j] != meta[j] {
					ok = false
				}
			}
		}
		if ok {
			conv++
		}
	}
	st.Extra["cases_by_kind_and_size"] = sizes
	st.Extra["probes_recorded"] = probes
	st.Extra["crashes"] = crashes
	st.Extra["survivor_listings_at_crash"] = listed
	st.Extra["survivor_detections"] = detected
	st.Extra["worst_detection_as_fraction_of_bound"] = worst
	st.Extra["fault_histories"] = kind2
	st.Extra["fault_histories_meeting_the_connectivity_precondition"] = pre
	st.Extra["of_those_converged_within_the_settling_time"] = conv
	st.Rule = "a class is (kind, cluster size, configuration flags); kind 1 = healthy period + crashes (C03, C04), kind 2 = fault history then faults stop (C05)"
}
