//go:build verif

package memberlist

// C05 harness (family "heal"): two REAL nodes x and y are driven into arbitrary views of each other and of
// two third parties (real aliveNode / suspectNode / deadNode / UpdateNode calls), then perform two complete
// push/pull exchanges over in-memory pipes with the real pushPullNode / handleConn / mergeRemoteState /
// mergeState.  Recorded: every record of both nodes (name, incarnation, state, address, metadata) before,
// between and after the exchanges.  Coq side (Check/HealCheck.v): the Exchange model (merge_all over the
// whole snapshot, entry by entry through Core.step) must predict exactly those records, and the statement
// of theorem C05_two_exchanges_heal is evaluated on the implementation's own records.
// Internal surface used: newMemberlist, setAlive, aliveNode, suspectNode, deadNode, UpdateNode,
// pushPullNode, nodeMap under nodeLock.

import (
	"fmt"
	"io"
	"log"
	"net"
	"os"
	"sort"
	"sync"
	"testing"
	"testing/synctest"
	"time"
)

type vhNet struct {
	mu    sync.Mutex
	nodes map[string]*vhTransport
}
type vhTransport struct {
	net  *vhNet
	addr string
	pk   chan *Packet
	st   chan net.Conn
}

func (t *vhTransport) FinalAdvertiseAddr(string, int) (net.IP, int, error) {
	h, _, _ := net.SplitHostPort(t.addr)
	return net.ParseIP(h).To4(), 7946, nil
}
func (t *vhTransport) WriteTo(b []byte, a string) (time.Time, error)          { return time.Now(), nil }
func (t *vhTransport) WriteToAddress(b []byte, a Address) (time.Time, error) { return time.Now(), nil }
func (t *vhTransport) PacketCh() <-chan *Packet                              { return t.pk }
func (t *vhTransport) StreamCh() <-chan net.Conn                             { return t.st }
func (t *vhTransport) Shutdown() error                                       { return nil }
func (t *vhTransport) DialTimeout(a string, d time.Duration) (net.Conn, error) {
	return t.DialAddressTimeout(Address{Addr: a}, d)
}
func (t *vhTransport) DialAddressTimeout(a Address, d time.Duration) (net.Conn, error) {
	t.net.mu.Lock()
	peer := t.net.nodes[a.Addr]
	t.net.mu.Unlock()
	if peer == nil {
		return nil, fmt.Errorf("no route to %s", a.Addr)
	}
	c1, c2 := net.Pipe()
	go func() { peer.st <- c2 }()
	return c1, nil
}

type vhDelegate struct {
	mu   sync.Mutex
	meta []byte
}

func (d *vhDelegate) NodeMeta(int) []byte {
	d.mu.Lock()
	defer d.mu.Unlock()
	return d.meta
}
func (d *vhDelegate) NotifyMsg([]byte)                {}
func (d *vhDelegate) GetBroadcasts(int, int) [][]byte { return nil }
func (d *vhDelegate) LocalState(bool) []byte          { return nil }
func (d *vhDelegate) MergeRemoteState([]byte, bool)   {}

var vhNames = map[int64]string{1: "x", 2: "y", 3: "z1", 4: "z2"}

func vhNameID(s string) int64 {
	for k, v := range vhNames {
		if v == s {
			return k
		}
	}
	return 99
}
func vhMeta(id int64) []byte { return []byte{'m', byte(id)} }
func vhMetaID(b []byte) int64 {
	if len(b) == 2 && b[0] == 'm' {
		return int64(b[1])
	}
	return 0
}
func vhAddr(id int64) []byte { return []byte{10, 0, 0, byte(id)} }

func vhRecords(m *Memberlist) []int64 {
	m.nodeLock.RLock()
	defer m.nodeLock.RUnlock()
	var names []string
	for n := range m.nodeMap {
		names = append(names, n)
	}
	sort.Slice(names, func(i, j int) bool { return vhNameID(names[i]) < vhNameID(names[j]) })
	out := []int64{int64(len(names))}
	for _, n := range names {
		s := m.nodeMap[n]
		a := int64(0)
		if ip := s.Addr.To4(); ip != nil {
			a = int64(ip[3])
		}
		out = append(out, vhNameID(n), int64(s.Incarnation), int64(s.State), a, vhMetaID(s.Meta))
	}
	return out
}

// cfg: [nameX nameY metaX0 metaY0 initiator1 initiator2]; ops: [who code args...]
func vhRun(t *testing.T, c *vfCase, st *vfStats) {
	nw := &vhNet{nodes: map[string]*vhTransport{}}
	mk := func(id int64, meta int64) (*Memberlist, *vhDelegate) {
		conf := DefaultLANConfig()
		conf.Name = vhNames[id]
		addr := fmt.Sprintf("10.0.0.%d:7946", id)
		tr := &vhTransport{net: nw, addr: addr, pk: make(chan *Packet), st: make(chan net.Conn)}
		nw.nodes[addr] = tr
		conf.Transport = tr
		conf.Logger = log.New(io.Discard, "", 0)
		if os.Getenv("VF_DEBUG") != "" {
			conf.Logger = log.New(os.Stderr, conf.Name+" ", 0)
		}
		conf.TCPTimeout = time.Second
		del := &vhDelegate{meta: vhMeta(meta)}
		conf.Delegate = del
		m, err := newMemberlist(conf)
		if err != nil {
			t.Fatal(err)
		}
		if err := m.setAlive(); err != nil {
			t.Fatal(err)
		}
		return m, del
	}
	x, dx := mk(1, c.Cfg[2])
	y, dy := mk(2, c.Cfg[3])
	nodes := []*Memberlist{x, y}
	dels := []*vhDelegate{dx, dy}
	for _, op := range c.Ops {
		m := nodes[op[0]]
		switch op[1] {
		case 0:
			m.aliveNode(&alive{Incarnation: uint32(op[2]), Node: vhNames[op[3]], Addr: vhAddr(op[4]), Port: 7946, Meta: vhMeta(op[5]), Vsn: []uint8{1, 5, 2, 0, 0, 0}}, nil, false)
			st.OpHist["alive"]++
		case 2:
			m.suspectNode(&suspect{Incarnation: uint32(op[2]), Node: vhNames[op[3]], From: vhNames[op[4]]})
			st.OpHist["suspect"]++
		case 3:
			m.deadNode(&dead{Incarnation: uint32(op[2]), Node: vhNames[op[3]], From: vhNames[op[4]]})
			st.OpHist["dead"]++
		case 11:
			d := dels[op[0]]
			d.mu.Lock()
			d.meta = vhMeta(op[2])
			d.mu.Unlock()
			m.UpdateNode(time.Millisecond)
			st.OpHist["update"]++
		}
		synctest.Wait()
		st.Ops++
	}
	snap := func(errs int64) []int64 {
		v := vhRecords(x)
		v = append(v, vhRecords(y)...)
		return append(v, errs)
	}
	c.Obs = [][]int64{snap(0)}
	for k := 0; k < 2; k++ {
		ini, peer := nodes[c.Cfg[4+k]], 1-c.Cfg[4+k]
		err := ini.pushPullNode(Address{Addr: fmt.Sprintf("10.0.0.%d:7946", peer+1), Name: vhNames[peer+1]}, false)
		synctest.Wait()
		e := int64(0)
		if err != nil {
			e = 1
			st.ObsHist["exchange_error"]++
		}
		c.Obs = append(c.Obs, snap(e))
		st.OpHist["pushpull"]++
		st.Ops++
	}
	x.Shutdown()
	y.Shutdown()
	synctest.Wait()
	// classes: what each side held about the other before, and whether it lists it afterwards
	held := func(v []int64, at int, name int64) string {
		// v = [nX recs.. nY recs.. err]; at = 0 for x's table, 1 for y's
		i := 0
		for side := 0; side < 2; side++ {
			n := int(v[i])
			i++
			for j := 0; j < n; j++ {
				if side == at && v[i] == name {
					return fmt.Sprintf("%d@%d", v[i+2], v[i+1])
				}
				i += 5
			}
		}
		return "none"
	}
	cls := fmt.Sprintf("%s|%s|%s|%s", held(c.Obs[0], 1, 1), held(c.Obs[0], 0, 2), held(c.Obs[2], 1, 1), held(c.Obs[2], 0, 2))
	st.class(cls)
	st.ObsHist["y_holds_x_before:"+held(c.Obs[0], 1, 1)[:1]]++
}

func vhGen(r *vfRng) vfCase {
	var ops [][]int64
	meta := []int64{10, 20}
	inc := []int64{1, 1}
	upd := func(who int64) {
		meta[who]++
		inc[who]++
		ops = append(ops, []int64{who, 11, meta[who]})
	}
	for who := int64(0); who < 2; who++ {
		for i := r.n(3); i > 0; i-- {
			upd(who)
		}
	}
	// what `who` holds about the member `name` (owner index o)
	know := func(who, name, o int64) {
		if r.chance(10) {
			return
		}
		j := inc[o] + int64(r.pick([]int{-1, 0, 0, 0, 1, 3}))
		if j < 1 {
			j = 1
		}
		m := meta[o]
		if r.chance(30) {
			m--
		}
		a := name
		if r.chance(6) {
			a = 9
		}
		ops = append(ops, []int64{who, 0, j, name, a, m})
		j2 := j + int64(r.pick([]int{0, 0, 1}))
		switch r.n(7) {
		case 2:
			ops = append(ops, []int64{who, 2, j2, name, 3})
		case 3:
			ops = append(ops, []int64{who, 3, j2, name, 3})
		case 4:
			ops = append(ops, []int64{who, 3, j2, name, name})
		case 5:
			ops = append(ops, []int64{who, 2, j2, name, 3}, []int64{who, 2, j2, name, 4})
		}
	}
	third := func(who int64) {
		for z := int64(3); z <= 4; z++ {
			if !r.chance(65) {
				continue
			}
			j := int64(1 + r.n(3))
			ops = append(ops, []int64{who, 0, j, z, z, 30 + z})
			switch r.n(6) {
			case 0:
				ops = append(ops, []int64{who, 2, j, z, 1 + who})
			case 1:
				ops = append(ops, []int64{who, 3, j + int64(r.n(2)), z, 1 + who})
			case 2:
				ops = append(ops, []int64{who, 3, j, z, z})
			}
		}
	}
	if r.chance(70) {
		third(0)
		third(1)
	}
	know(1, 1, 0)
	know(0, 2, 1)
	// the owner moves on after the other side learnt of it
	for who := int64(0); who < 2; who++ {
		if r.chance(30) {
			upd(who)
		}
		if r.chance(10) { // an accusation reaches the owner before the exchange: it refutes
			ops = append(ops, []int64{who, 2, inc[who] + int64(r.n(2)), 1 + who, 3})
			inc[who] += 2
		}
	}
	if r.chance(30) {
		third(int64(r.n(2)))
	}
	return vfCase{Cfg: []int64{1, 2, 10, 20, int64(r.n(2)), int64(r.n(2))}, Ops: ops}
}

func TestVfHeal(t *testing.T) {
	st := vfNewStats("heal")
	st.Rule = "two real nodes with generated views of each other (absent / stale / equal / ahead incarnation; alive, suspect, dead, left; stale metadata; another address) and of two third parties, then two real push/pull exchanges (either side initiating); distinct = distinct (y's record of x before, x's record of y before, after, after) tuples"
	cases, replay, err := vfLoadCases()
	if err != nil {
		t.Fatal(err)
	}
	if !replay {
		cases = vfLoadCorpus()
		r := &vfRng{s: vfSeed()*32452843 + 77}
		n := vfEnvInt("VF_N", 400)
		for i := 0; i < n; i++ {
			cases = append(cases, vhGen(r))
		}
	}
	for i := range cases {
		synctest.Test(t, func(t *testing.T) { vhRun(t, &cases[i], st) })
	}
	if err := vfEmit(st, cases, "From VF Require Import Raw HealCheck.", "check_case", true); err != nil {
		t.Fatal(err)
	}
}
