(* C02 — a running node always defends itself: refutation outranks every accusation. *)
From Coq Require Import List NArith ZArith Bool.
Import ListNotations.
From VF Require Import Base Core Core_lemmas Core_inv Core_props.

(* over every history (no Leave, incarnations below the largest representable value) the node
   lists itself as a live member and its record is Alive -- never suspect, dead or left *)
Theorem C02_self_listed : forall c, fixed c = true -> forall ops s,
  FInv c s -> run_ok c s ops ->
  let s' := fst (run c s ops) in
  leaving s' = false ->
  exists r, lk s' (self c) = Some r /\ rst r = Alive /\ In (self c, (raddr r, rmeta r)) (members s').
Proof. exact self_listed. Qed.
Print Assumptions C02_self_listed.

(* what a refutation does: the new incarnation is strictly above the claim and above the old one,
   the own record carries it, an alive message with it is queued, the health score rises by one (clamped) *)
Theorem C02_refute_outranks : forall c s r accused,
  below_max accused -> below_max (linc s) -> refutation_of c s (refute c s r accused) r accused.
Proof. exact refute_effect. Qed.
Print Assumptions C02_refute_outranks.

(* every accusation at an incarnation >= the own one is answered by exactly that refutation:
   suspect (gossip, piggyback, push/pull hearsay) *)
Theorem C02_suspect_refuted : forall c s inc from r,
  Inv c s -> leaving s = false -> lk s (self c) = Some r -> rst r = Alive -> (rinc r <= inc)%N ->
  do_suspect c s inc (self c) from = (refute c s r inc, []).
Proof. exact suspect_self_refuted. Qed.
Print Assumptions C02_suspect_refuted.

(* dead, whoever signed it *)
Theorem C02_dead_refuted : forall c s inc from r,
  Inv c s -> leaving s = false -> lk s (self c) = Some r -> rst r = Alive -> (rinc r <= inc)%N ->
  do_dead c s inc (self c) from = (refute c s r inc, []).
Proof. exact dead_self_refuted. Qed.
Print Assumptions C02_dead_refuted.

(* an alive claim about itself that is newer, or equal in incarnation but different in metadata/versions *)
Theorem C02_alive_refuted : forall c s inc meta vsn r,
  Inv c s -> leaving s = false -> lk s (self c) = Some r -> rst r = Alive -> vsn_bad vsn = false ->
  ((rinc r < inc)%N \/ (inc = rinc r /\ (N.eqb meta (rmeta r) && Nlist_eqb vsn (rvsn r)) = false)) ->
  do_alive c s inc (self c) (raddr r) meta vsn false = (refute c s r inc, []).
Proof. exact alive_self_refuted. Qed.
Print Assumptions C02_alive_refuted.

(* the bound in the property text is necessary: at the largest incarnation the counter wraps *)
Example C02_wrap_refuted :
  refute_inc (mkS [] 0 [] 4294967295 false 0 [] 0) 4294967295 = 0%N.
Proof. vm_compute. reflexivity. Qed.

(* non-vacuity *)
Example C02_hypotheses_satisfiable :
  let c := cfg_ex in let s := boot c 1 in
  exists r, lk s (self c) = Some r /\ rst r = Alive /\ leaving s = false
            /\ fst (do_suspect c s 7 0 3) = refute c s r 7 /\ linc (refute c s r 7) = 8%N.
Proof. vm_compute. eexists. repeat split. Qed.
