(* C09 — join and push/pull are mutual, all-or-nothing, vetoable; hearsay never kills.
   Models: Model/VerifyProto.v, Model/Stream.v (framing), Model/Core.v (merge of remote entries). *)
From Coq Require Import List NArith ZArith Bool.
Import ListNotations.
From VF Require Import Base Label Wire Wire_proofs Stream Stream_proofs VerifyProto VerifyProto_proofs
                       Core Core_lemmas Core_inv Core_props.

(* verifyProtocol accepts a remote state list iff every speaker (each remote entry, its current
   versions read as 0 when the vector has fewer than 6 bytes; each local node) lies inside the
   protocol and delegate ranges advertised by every ALIVE node (remote ones with at least 5 version
   bytes, and local ones).  Closed statement over all byte-valued version vectors and list lengths. *)
Theorem C09_verify_spec : forall remote local,
  (forall s, In s (speakers remote local) -> byte_ok (fst s) /\ byte_ok (snd s)) ->
  (verify_protocol remote local = true <->
   forall s, In s (speakers remote local) -> forall r, In r (ranges remote local) -> in_range r (fst s) (snd s) = true).
Proof. exact verify_spec. Qed.
Print Assumptions C09_verify_spec.

(* an encrypted state exchange cut at ANY byte offset never yields a message: the reader runs out of
   bytes (an io error in the code), so nothing is merged (with C09_hearsay / Core: no merge, no change) *)
Theorem C09_cut_is_error : forall seal open comp decomp,
  (forall k n p ad, open k n (seal k n p ad) ad = Some p) ->
  (forall k k' n p ad, k <> k' -> open k' n (seal k n p ad) ad = None) ->
  (forall k n p ad, length (seal k n p ad) = (length p + 16)%nat) ->
  (forall m, exists body, comp m = t_compress :: body /\ decomp body = Some m) ->
  forall cs cr label payload nonce n,
  length nonce = 12%nat -> (encvsn cs = 0 \/ encvsn cs = 1)%N ->
  enc_on cs && verify_out cs = true -> enc_on cr = true ->
  (encrypted_length (encvsn cs) (blen (if compress_on cs then comp payload else payload)) <= max_push_state_bytes)%N ->
  (n < length (stream_frame seal comp cs label payload nonce))%nat ->
  read_stream open decomp cr label (firstn n (stream_frame seal comp cs label payload nonce)) = SNeedMore.
Proof. exact cut_encrypted_is_error. Qed.
Print Assumptions C09_cut_is_error.

(* the size cap on an encrypted exchange is checked on the 5 header bytes, before anything is read *)
Theorem C09_caps_before_buffer : forall open decomp c label l1 l2 l3 l4 rest,
  enc_on c = true -> (max_push_state_bytes < rd32 l1 l2 l3 l4)%N ->
  read_stream open decomp c label (t_encrypt :: l1 :: l2 :: l3 :: l4 :: rest) = SErr 31.
Proof. intros open decomp. exact (stream_cap_before_read (fun _ _ _ _ => []) open (fun x => x) decomp). Qed.
Print Assumptions C09_caps_before_buffer.

(* hearsay: a remote Dead / Suspect entry about a member the node holds alive only starts local
   suspicion -- the member stays in Members() and no event fires *)
Theorem C09_hearsay : forall c s rs inc n addr meta vsn r,
  Inv c s -> lk s n = Some r -> rst r = Alive -> n <> self c -> (rs = Dead \/ rs = Suspect) ->
  let '(s', evs) := do_merge c s rs inc n addr meta vsn in
  evs = [] /\ view s' n = view s n.
Proof. exact hearsay_keeps_member. Qed.
Print Assumptions C09_hearsay.

(* a remote Left entry is the member's own departure (C08_peer_records_left); a remote Alive entry is
   an ordinary alive claim (C01 / C08): merging a list is the fold of its entries through [step] *)
Theorem C09_merge_is_fold : forall c s rs inc n addr meta vsn,
  step c s (OMerge rs inc n addr meta vsn) = do_merge c s rs inc n addr meta vsn.
Proof. reflexivity. Qed.
Print Assumptions C09_merge_is_fold.

(* mutuality fails when the HOST vetoes or is incompatible: its handler replies before it verifies
   and merges (known finding D-C09, reproduced on every run by the join scenarios of the stream
   harness); the model-level reason: the reply is produced independently of the merge result *)
Example C09_verify_rejects_example :
  verify_protocol [mkRN true [1;5;2;0;0;0]%N] [mkLN true 1 5 2 2 3 2] = false.
Proof. vm_compute. reflexivity. Qed.
