(* C10 — broadcast queue: no silent loss, exactly-once completion, bounded retransmits.
   Statements only; every proof is `exact <lemma of Proofs/Queue_proofs.v>`.
   Model: Model/Queue.v with fixed = true (the repaired code; the two defects of
   the pinned tree are the *_refuted examples). *)
From Coq Require Import List NArith ZArith Permutation.
Import ListNotations.
From VF Require Import Base Queue Queue_proofs.

(* Every operation sequence (any sizes, kinds, limits, overheads >= 0, retransmit
   limits, prune arguments) runs to the end on the model, no call panics, and the
   multiset of broadcasts ever queued equals (still queued) + (completion callback ran). *)
Theorem C10_accounting : forall ops, Forall wf_op ops ->
  exists s xs, run true q0 ops = Some (s, xs) /\ length xs = length ops
    /\ Forall (fun x => pan x = false) xs
    /\ Permutation (all_queued ops) (map uid (items s) ++ all_fin xs).
Proof. exact history_accounting. Qed.
Print Assumptions C10_accounting.

(* With distinct broadcast identities: each is in exactly one of queued / finished,
   and finished at most once (NoDup of the concatenation). *)
Theorem C10_exactly_once : forall ops, Forall wf_op ops -> NoDup (all_queued ops) ->
  exists s xs, run true q0 ops = Some (s, xs) /\
    NoDup (map uid (items s) ++ all_fin xs) /\
    forall u, In u (all_queued ops) <->
              (In u (map uid (items s)) /\ ~ In u (all_fin xs)) \/ (In u (all_fin xs) /\ ~ In u (map uid (items s))).
Proof. exact exactly_once. Qed.
Print Assumptions C10_exactly_once.

(* Representation invariant of every reachable state: the tree is strictly sorted by
   (transmits up, length down, id down), ids are unique and bounded by the generator. *)
Theorem C10_sorted_unique : forall ops, Forall wf_op ops ->
  exists s xs, run true q0 ops = Some (s, xs) /\ Inv s.
Proof. exact reachable_inv. Qed.
Print Assumptions C10_sorted_unique.

(* GetBroadcasts = the one-pass greedy selection over the queue order, and exactly the
   returned items whose transmit count reaches the limit are completed. *)
Theorem C10_get_is_greedy : forall s ov lim tl, Inv s -> (0 <= ov)%Z ->
  exists s', step true s (Get ov lim tl) =
    Some (s', mkOut (map uid (greedy ov lim 0 (items s)))
                    (map uid (filter (due tl) (greedy ov lim 0 (items s))))
                    (qlen s') false) /\ Inv s'.
Proof. exact get_step_spec. Qed.
Print Assumptions C10_get_is_greedy.

(* The selection fits the byte limit (sizes plus per-message overhead). *)
Theorem C10_get_fits : forall ov lim l used, (0 <= ov)%Z ->
  greedy ov lim used l = [] \/ (used + total ov (greedy ov lim used l) <= lim)%Z.
Proof. intros ov lim l used. exact (greedy_bound ov lim l used). Qed.
Print Assumptions C10_get_fits.

(* Completion at submission time happens only for the superseded broadcast(s). *)
Theorem C10_queue_finish_reasons : forall u l k s,
  snd (do_queue true u l k s) =
  map uid (match k with
           | Named 0%N => []
           | Named n => match find (is_named n) (items s) with Some o => [o] | None => [] end
           | Unique => []
           | Plain g => filter (is_plain_grp g) (items s)
           end).
Proof. exact do_queue_fin. Qed.
Print Assumptions C10_queue_finish_reasons.

(* One step: invariant kept, no panic, NumQueued is the queue length, accounting. *)
Theorem C10_step : forall s o, Inv s -> wf_op o ->
  exists s' x, step true s o = Some (s', x) /\ Inv s' /\ pan x = false
    /\ nq x = N.of_nat (length (items s'))
    /\ Permutation (map uid (items s) ++ queued_of o) (map uid (items s') ++ fin x).
Proof. exact step_spec. Qed.
Print Assumptions C10_step.

(* The property is FALSE of the pinned (unrepaired) behaviour: witnesses. *)
Theorem C10_silent_loss_refuted :
  exists s xs, run false q0 [Queue 1 4 Unique; Get 0 100 8; Queue 2 4 Unique; Get 0 4 8] = Some (s, xs)
    /\ map uid (items s) = [2%N] /\ all_fin xs = [].
Proof. exact silent_loss_refuted. Qed.
Print Assumptions C10_silent_loss_refuted.

Theorem C10_prune_panic_refuted :
  exists s xs, run false q0 [Prune 0] = Some (s, xs) /\ map pan xs = [true].
Proof. exact prune_panic_refuted. Qed.
Print Assumptions C10_prune_panic_refuted.
