(* C01 — stale or weaker membership claims never override newer knowledge.
   Model: Model/Core.v (one node's SWIM state machine; one operation = one nodeLock
   critical section).  Statements only; proofs are `exact <lemma>` from Proofs/. *)
From Coq Require Import List NArith ZArith Bool.
Import ListNotations.
From VF Require Import Base Core Core_lemmas Core_inv Core_props.

(* ---- a stale claim is a no-op: the WHOLE node state is unchanged and nothing is emitted ---- *)

(* alive about another member, same address, incarnation not newer *)
Theorem C01_stale_alive_other : forall c s inc name addr meta vsn b r,
  alookup name (recs s) = Some r -> raddr r = addr -> name <> self c -> (inc <= rinc r)%N ->
  do_alive c s inc name addr meta vsn b = (s, []).
Proof. exact alive_stale_other. Qed.
Print Assumptions C01_stale_alive_other.

(* alive about the local node itself, strictly older *)
Theorem C01_stale_alive_self : forall c s inc addr meta vsn b r,
  alookup (self c) (recs s) = Some r -> raddr r = addr -> (inc < rinc r)%N ->
  do_alive c s inc (self c) addr meta vsn b = (s, []).
Proof. exact alive_stale_self. Qed.
Print Assumptions C01_stale_alive_self.

(* suspect about an unknown member, with an older incarnation, or about a dead/left member
   (first premise: no suspicion timer is registered for it -- an invariant of reachable states,
   [C01_timer_only_for_suspects]; or one of the two cases that do not consult the timer) *)
Theorem C01_stale_suspect : forall c s inc name from,
  no_live name (timers s) \/ (exists r, alookup name (recs s) = Some r /\ (inc < rinc r)%N) \/ alookup name (recs s) = None ->
  match alookup name (recs s) with
  | None => True
  | Some r => (inc < rinc r)%N \/ rst r = Dead \/ rst r = Left
  end ->
  do_suspect c s inc name from = (s, []).
Proof. exact suspect_stale. Qed.
Print Assumptions C01_stale_suspect.

Theorem C01_stale_dead : forall c s inc name from,
  no_live name (timers s) \/ (exists r, alookup name (recs s) = Some r /\ (inc < rinc r)%N) \/ alookup name (recs s) = None ->
  match alookup name (recs s) with
  | None => True
  | Some r => (inc < rinc r)%N \/ rst r = Dead \/ rst r = Left
  end ->
  do_dead c s inc name from = (s, []).
Proof. exact dead_stale. Qed.
Print Assumptions C01_stale_dead.

(* in every reachable state a live suspicion timer exists only for a suspected member *)
Theorem C01_timer_only_for_suspects : forall c, fixed c = true -> forall ops s,
  FInv c s -> run_ok c s ops ->
  forall t, In t (timers (fst (run c s ops))) -> tlive t = true ->
  exists r, lk (fst (run c s ops)) (tname t) = Some r /\ rst r = Suspect.
Proof. intros c Hf ops s HI HR. exact (inv_t _ _ (proj1 (run_FInv c Hf ops s HI HR))). Qed.
Print Assumptions C01_timer_only_for_suspects.

(* ---- every operation moves every member's (incarnation, state) key forward, except:
        a different allowed address reclaiming a left / long-enough-dead name (alive-type claims only),
        and the reaping pass deleting an old dead/left record of another node ---- *)
Theorem C01_step_monotone : forall c, fixed c = true -> forall s o,
  FInv c s -> op_ok c s o ->
  forall n r, lk s n = Some r ->
    let s' := fst (step c s o) in
    (exists r', lk s' n = Some r' /\
        (key_le r r' \/ (exists addr, reclaim_step c s s' n addr /\
                          match o with OAlive _ n' a _ _ _ | OHandleAlive _ _ n' a _ _ | OMerge Alive _ n' a _ _ => n' = n /\ a = addr | _ => False end)))
    \/ (o = OReap /\ lk s' n = None /\ reapable c s r /\ n <> self c).
Proof. exact step_monotone. Qed.
Print Assumptions C01_step_monotone.

(* the invariant used above holds in the boot state and along every history *)
Theorem C01_reachable_inv : forall c, fixed c = true -> forall meta ops,
  is_allowed c (self_addr c) = true -> vsn_bad (self_vsn c) = false ->
  run_ok c (boot c meta) ops -> FInv c (fst (run c (boot c meta) ops)).
Proof. intros c Hf meta ops Al Vb HR. apply run_FInv; [exact Hf | apply boot_FInv; assumption | exact HR]. Qed.
Print Assumptions C01_reachable_inv.

(* non-vacuity: a concrete history meets the hypotheses *)
Example C01_hypotheses_satisfiable :
  let s := fst (run cfg_ex (boot cfg_ex 1) [OAlive 1 1 1 0 [1;5;2;0;0;0]%N false; OSuspect 1 1 2; OAdvance 1000000001]) in
  exists r, lk s 1 = Some r /\ rst r = Suspect /\ do_alive cfg_ex s 1 1 1 0 [] false = (s, []).
Proof. vm_compute. eexists. repeat split. Qed.
