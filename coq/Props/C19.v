(* C19 — probe acknowledgements are correctly correlated, relayed and cleaned up.  Model: Model/Probe.v. *)
From Coq Require Import List NArith ZArith Bool.
Import ListNotations.
From VF Require Import Base Probe Probe_proofs.
Local Open Scope Z_scope.

Theorem C19_answered_iff : forall pi, p_send pi <> 2 ->
  (probe_outcome pi = Answered <->
   (exists t, In (Ack (p_seq pi) t) (p_arrivals pi) /\ t < p_interval pi) \/ tcp_contact pi = true).
Proof. exact answered_iff. Qed.
Print Assumptions C19_answered_iff.

Theorem C19_foreign_arrivals_irrelevant : forall pi extra,
  Forall (fun a => match a with Ack s _ | Nack s _ => s <> p_seq pi end) extra ->
  let pi' := mkPI (p_seq pi) (p_interval pi) (p_timeout pi) (p_send pi) (p_arrivals pi ++ extra)
                  (p_expected_nacks pi) (p_tcp pi) (p_tcp_enabled pi) in
  probe_outcome pi' = probe_outcome pi /\ probe_delta pi' = probe_delta pi.
Proof. exact foreign_arrivals_irrelevant. Qed.
Print Assumptions C19_foreign_arrivals_irrelevant.

Theorem C19_foreign_ack_noop : forall h seq now, (forall e, In e h -> fst e <> seq) -> h_ack h seq now = (false, h_advance h now).
Proof. exact foreign_ack_noop. Qed.
Print Assumptions C19_foreign_ack_noop.

Theorem C19_expired_ack_noop : forall h seq now, (forall e, In e h -> fst e = seq -> snd e <= now) -> fst (h_ack h seq now) = false.
Proof. exact expired_ack_noop. Qed.
Print Assumptions C19_expired_ack_noop.

Theorem C19_handlers_reaped : forall h now, (forall e, In e h -> snd e <= now) -> h_advance h now = [].
Proof. exact handlers_reaped. Qed.
Print Assumptions C19_handlers_reaped.

Theorem C19_ack_consumes_record : forall h seq now, fst (h_ack h seq now) = true ->
  forall e, In e (snd (h_ack h seq now)) -> fst e <> seq.
Proof. exact ack_consumes_record. Qed.
Print Assumptions C19_ack_consumes_record.

Theorem C19_relay : forall ri,
  let '(a, n) := relay_result ri in
  0 <= a <= 1 /\ 0 <= n <= 1 /\ a + n <= 1 /\ (n = 1 <-> (r_want_nack ri = true /\ a = 0)).
Proof. exact relay_exclusive. Qed.
Print Assumptions C19_relay.

Theorem C19_score_range : forall mx score delta, 1 <= mx -> 0 <= apply_delta mx score delta <= mx - 1.
Proof. exact score_range. Qed.
Print Assumptions C19_score_range.

Theorem C19_score_direction : forall mx score delta, 0 <= score <= mx - 1 ->
  (score < apply_delta mx score delta -> 0 < delta) /\ (apply_delta mx score delta < score -> delta < 0).
Proof. exact score_direction. Qed.
Print Assumptions C19_score_direction.

Theorem C19_delta : forall pi,
  (probe_delta pi < 0 -> probe_outcome pi = Answered /\ p_send pi = 0) /\
  (0 < probe_delta pi -> probe_outcome pi = Failed).
Proof. exact delta_sign. Qed.
Print Assumptions C19_delta.

Example C19_nonvacuous :
  probe_outcome (mkPI 7 1000 300 0 [Ack 8 100; Ack 7 999; Nack 7 400] 2 None true) = Answered /\
  probe_outcome (mkPI 7 1000 300 0 [Ack 8 100; Ack 7 1000; Nack 7 400] 2 None true) = Failed /\
  probe_delta (mkPI 7 1000 300 0 [Ack 8 100; Ack 7 1000; Nack 7 400] 2 None true) = 1.
Proof. vm_compute. repeat split. Qed.
