(* C11 — piggyback packing is lossless and stays within the packet budget.  Model: Model/Wire.v. *)
From Coq Require Import List NArith ZArith Bool.
Import ListNotations.
From VF Require Import Base Label Wire Wire_proofs.
Local Open Scope N_scope.

(* one compound: at most 255 parts, each below 64 KiB, decode to exactly those parts *)
Theorem C11_compound_roundtrip : forall msgs, (length msgs <= 255)%nat -> small_parts msgs ->
  match make_compound msgs with
  | t :: body => t = t_compound /\ decode_compound body = Ok (O, msgs)
  | [] => False
  end.
Proof. exact compound_roundtrip. Qed.
Print Assumptions C11_compound_roundtrip.

(* any number of parts: the receiver unpacks exactly the packed messages, in full and in order *)
Theorem C11_compounds_roundtrip : forall msgs, small_parts msgs -> decode_all (make_compounds msgs) = msgs.
Proof. exact compounds_roundtrip. Qed.
Print Assumptions C11_compounds_roundtrip.

(* why a single compound is not enough (what the pinned sendMsg did): the count byte wraps *)
Theorem C11_single_compound_refuted : nth 1 (make_compound (repeat [1] 300)) 0 = 44.
Proof. exact single_compound_wraps. Qed.
Print Assumptions C11_single_compound_refuted.

(* on-wire length = label header + encryption framing (version, nonce, padding, tag) around the
   CRC header and the compound; with the repaired budgets it never exceeds the configured size,
   for every label length, encryption version, verify-outgoing setting and selection that fits *)
Theorem C11_sendmsg_budget : forall c udp msg extra,
  (encvsn c = 0 \/ encvsn c = 1) ->
  let avail := udp - blen msg - 2 - 2 - 5 - label_overhead (plabel c)
               - (if enc_on c && verify_out c then enc_overhead (encvsn c) else 0) in
  blen msg + 2 + 2 + 5 + label_overhead (plabel c) + (if enc_on c && verify_out c then enc_overhead (encvsn c) else 0) <= udp ->
  parts_size extra <= avail -> (length (msg :: extra) <= 255)%nat ->
  wire_len c (5 + blen (make_compound (msg :: extra))) <= udp.
Proof. exact sendmsg_budget. Qed.
Print Assumptions C11_sendmsg_budget.

Theorem C11_gossip_budget : forall c udp msgs,
  (encvsn c = 0 \/ encvsn c = 1) ->
  let avail := udp - 2 - 5 - label_overhead (plabel c) - (if enc_on c then enc_overhead (encvsn c) else 0) in
  2 + 5 + label_overhead (plabel c) + (if enc_on c then enc_overhead (encvsn c) else 0) <= udp ->
  parts_size msgs <= avail -> (length msgs <= 255)%nat ->
  wire_len c (5 + blen (make_compound msgs)) <= udp.
Proof. exact gossip_budget. Qed.
Print Assumptions C11_gossip_budget.

Theorem C11_encrypted_length_bound : forall vsn n, (vsn = 0 \/ vsn = 1) -> encrypted_length vsn n <= n + enc_overhead vsn.
Proof. exact encrypted_length_bound. Qed.
Print Assumptions C11_encrypted_length_bound.

(* the pinned budget forgot the first part's length slot and the CRC header: 1407 bytes for a 1400 limit *)
Theorem C11_budget_refuted :
  let c := mkP [97;98;99] false [1] true true 1 false false in
  let udp := 1400 in let msg := repeat 0 20 in
  let avail_pinned := udp - blen msg - 2 - label_overhead (plabel c) - enc_overhead 1 in
  let extra := [repeat 0 (N.to_nat (avail_pinned - 2))] in
  parts_size extra <= avail_pinned /\ wire_len c (5 + blen (make_compound (msg :: extra))) = 1407.
Proof. exact sendmsg_budget_pinned_refuted. Qed.
Print Assumptions C11_budget_refuted.
