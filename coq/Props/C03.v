(* C03 — a crashed member is removed by every live node within a bounded time.
   Model: Model/Cursor.v (probe schedule).  The probe outcome and the suspicion timer are the
   subjects of C19 and C06; the last theorem composes the three into the bound the monitor applies. *)
From Coq Require Import List NArith ZArith Bool.
Import ListNotations.
From VF Require Import Base Core Core_lemmas Cursor Cursor_proofs Probe Probe_proofs Extra_proofs.

(* never itself, never a Dead/Left peer: [el] is "not this node and not Dead/Left" at the tick *)
Theorem C03_never_self_or_dead : forall el rs s s' x w,
  tick el rs s = (s', Some x, w) -> idx s <= length (order s) ->
  el x = true /\ (In x (order s) \/ In x rs).
Proof. exact tick_selects_eligible. Qed.
Print Assumptions C03_never_self_or_dead.

(* at least once per pass for every peer that is in the list when the pass begins and probe-able
   at every tick of it — under arbitrary insertions, status changes and shuffles *)
Theorem C03_pass_visits_all : forall o acts c sn,
  In (c, sn) (passes (grun (ginit0 o) acts)) -> incl c sn.
Proof. exact pass_visits_all. Qed.
Print Assumptions C03_pass_visits_all.

(* exactly once each while membership is stable *)
Theorem C03_stable_pass_exact : forall el o acts c sn,
  Forall (only_ticks el) acts -> In (c, sn) (passes (grun (ginit0 o) acts)) -> rev sn = c.
Proof. exact stable_pass_exact. Qed.
Print Assumptions C03_stable_pass_exact.

(* a peer that stays listed and probe-able is handed to probeNode within 2n ticks (two passes) *)
Theorem C03_two_passes : forall v n ts s,
  RI v n s -> Forall (tick_ok v n) ts -> 2 * n <= length ts ->
  exists k, k < 2 * n /\ nth_error (tick_run s ts) k = Some (Some v).
Proof. exact ticks_until_selected. Qed.
Print Assumptions C03_two_passes.

(* the hypothesis "the list resetNodes leaves behind still contains the peer" ([tick_ok]) on the Core model of
   the reap: every record that is not Dead/Left survives it, and only old Dead/Left ones go *)
Theorem C03_reap_keeps_live : forall c s n r,
  lk s n = Some r -> dead_or_left (rst r) = false -> lk (do_reap c s) n = Some r.
Proof. exact reap_keeps_live. Qed.
Print Assumptions C03_reap_keeps_live.

Theorem C03_reap_removes_only_old_dead : forall c s n r,
  keys_ok s -> lk s n = Some r -> lk (do_reap c s) n = None ->
  dead_or_left (rst r) = true /\ (gtd c < now s - rsince r)%Z.
Proof. exact reap_removes_only_old_dead. Qed.
Print Assumptions C03_reap_removes_only_old_dead.

(* a probe of a member that answers nothing fails (Probe model; then the node suspects it, and the suspicion
   ends in Dead by start + max: C06_bounds) *)
Theorem C03_silent_target_fails : forall pi,
  p_send pi <> 2%Z -> p_tcp pi = None ->
  Forall (fun a => match a with Ack s _ => s <> p_seq pi | Nack _ _ => True end) (p_arrivals pi) ->
  probe_outcome pi = Failed.
Proof. exact silent_target_fails. Qed.
Print Assumptions C03_silent_target_fails.

(* the time bound: two full passes at the slowest awareness-scaled pace plus the maximum suspicion timeout *)
Theorem C03_compose : forall (n : nat) pi awmax smax tc (starts : list Z) k tk e dl,
  (0 <= pi -> 1 <= awmax ->
  paced (awmax * pi) (tc + pi - awmax * pi) starts ->
  (k < 2 * n)%nat -> nth_error starts k = Some tk ->
  e <= tk + awmax * pi -> dl <= e + smax ->
  dl <= tc + detect_bound (Z.of_nat n) pi awmax smax)%Z.
Proof. exact detection_composes. Qed.
Print Assumptions C03_compose.

(* non-vacuity: a four-entry list, node 0 probing, node 2 dead; an insertion in the middle of a pass *)
Example C03_example :
  let el := fun x => negb (N.eqb x 0) && negb (N.eqb x 2) in
  let rs1 := [3; 1; 0; 4; 2]%N in let rs2 := [1; 3; 4; 0; 2]%N in
  let g := grun (ginit0 [0; 1; 2; 3]%N)
                [ATick el rs1; AInsert 4%N 1; ATick el rs1; ATick el rs1; ATick el rs1; ATick el rs1;
                 ATick el rs1; ATick el rs2; ATick el rs2; ATick el rs2] in
  rev (sels g) = [Some 1; Some 3; Some 1; Some 3; Some 1; Some 4; Some 1; Some 3; Some 4]%N /\
  passes g = [([3; 1; 4], [4; 1; 3]); ([1; 3], [1; 3; 1])]%N.
Proof. vm_compute. split; reflexivity. Qed.
