(* C13 — hostile bytes never crash the node (packet path here; stream path in the second half).
   Every Go slice/index operation of the modelled parsers is guarded in the model by the same
   length test the code makes; where the code makes none the model returns [Panic]. *)
From Coq Require Import List NArith ZArith Bool.
Import ListNotations.
From VF Require Import Base Label Wire Wire_proofs Stream Stream_proofs.

(* for every byte string, configuration and behaviour of the AEAD / decompressor, the repaired
   packet path does not panic *)
Theorem C13_no_panic_packet : forall open decomp fuel c pkt, fixed c = true -> ingest open decomp fuel c pkt <> Panic.
Proof. exact ingest_no_panic. Qed.
Print Assumptions C13_no_panic_packet.

Theorem C13_decrypt_no_panic : forall open c msg aad, fixed c = true -> decrypt_payload open c msg aad <> Panic.
Proof. intro open. exact (decrypt_no_panic open (fun _ => None)). Qed.
Print Assumptions C13_decrypt_no_panic.

(* stream path: the repaired reader never panics on any bytes, and a declared encrypted length beyond
   the cap is refused on the header alone *)
Theorem C13_no_panic_stream : forall open decomp c label b, fixed c = true -> read_stream open decomp c label b <> SPanic.
Proof. exact read_stream_no_panic. Qed.
Print Assumptions C13_no_panic_stream.

Theorem C13_caps_first : forall open decomp c label l1 l2 l3 l4 rest,
  enc_on c = true -> (max_push_state_bytes < rd32 l1 l2 l3 l4)%N ->
  read_stream open decomp c label (t_encrypt :: l1 :: l2 :: l3 :: l4 :: rest) = SErr 31.
Proof. intros open decomp. exact (stream_cap_before_read (fun _ _ _ _ => []) open (fun x => x) decomp). Qed.
Print Assumptions C13_caps_first.

(* the pinned reader indexed an empty decrypted plaintext *)
Example C13_empty_plain_refuted :
  let open := fun (_ : N) (_ _ _ : bytes) => Some (@nil N) in
  read_stream open (fun _ => None) (mkP [] false [1%N] true true 1 false false) []
              (t_encrypt :: 0 :: 0 :: 0 :: 29 :: 1 :: repeat 0 28)%N = SPanic.
Proof. exact empty_plain_panic_refuted. Qed.

(* the pinned code strips PKCS7 padding without validating it: a version-0 frame whose plaintext ends
   in a byte larger than its length slices with a negative bound *)
Example C13_pkcs7_panic_refuted :
  let open := fun (_ : N) (_ _ _ : bytes) => Some (repeat 255%N 16) in
  decrypt_payload open (mkP [] false [1%N] true true 0 false false) (0%N :: repeat 0%N 60) [] = Panic.
Proof. vm_compute. reflexivity. Qed.

Example C13_pkcs7_fixed :
  let open := fun (_ : N) (_ _ _ : bytes) => Some (repeat 255%N 16) in
  decrypt_payload open (mkP [] false [1%N] true true 0 false true) (0%N :: repeat 0%N 60) [] = Err 24.
Proof. vm_compute. reflexivity. Qed.
