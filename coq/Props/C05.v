(* C05 — views re-converge to the live set once faults stop. *)
From Coq Require Import List NArith ZArith Bool.
Import ListNotations.
From VF Require Import Base Core Core_lemmas Core_inv Core_props.

(* false accusations do not stick: an accusation that reaches its subject at an incarnation not
   below the subject's own is answered by an incarnation above it ... *)
Theorem C05_accusation_refuted : forall c s inc from r,
  Inv c s -> leaving s = false -> lk s (self c) = Some r -> rst r = Alive -> (rinc r <= inc)%N ->
  do_suspect c s inc (self c) from = (refute c s r inc, []) /\
  do_dead c s inc (self c) from = (refute c s r inc, []).
Proof. intros. split; [apply suspect_self_refuted | apply dead_self_refuted]; assumption. Qed.
Print Assumptions C05_accusation_refuted.

(* ... with the refutation queued for gossip *)
Theorem C05_refutation_outranks : forall c s r accused,
  below_max accused -> below_max (linc s) -> refutation_of c s (refute c s r accused) r accused.
Proof. exact refute_effect. Qed.
Print Assumptions C05_refutation_outranks.
