(* C05 — views re-converge to the live set once faults stop.
   Models: Model/Core.v, Model/Cluster.v (the general cluster: failed probes, timers, accusations,
   refutations, gossip, push/pull, duplication/reordering/loss, UpdateNode, Leave).
   What is proved is the safety half the convergence argument rests on — no claim ever outruns its
   subject, so a refutation outranks everything and is accepted wherever it arrives.  What is NOT proved,
   and is false as the property is worded: that the refutation (or anything else) ever arrives — see the
   end of this file. *)
From Coq Require Import List NArith ZArith Bool.
Import ListNotations.
From VF Require Import Base Core Core_lemmas Core_inv Core_props Cluster Cluster_proofs Below_proofs Below_cluster Below_restart Extra_proofs Exchange Heal_proofs Heal_cluster.

(* in every reachable state of the cluster, under every schedule, every claim about a member — a record
   held by any node, a broadcast queued anywhere, anything ever put on the network — carries at most
   that member's own incarnation counter *)
Theorem C05_claims_below_owner : forall cs acts,
  Forall (fun cm => good_cfg (fst cm)) cs -> NoDup (map (fun cm => self (fst cm)) cs) ->
  grun_ok (boot_world cs) acts ->
  let w := fst (grun (boot_world cs) acts) in
  forall cx sx, In (cx, sx) (wnodes w) ->
    (forall c s n r, In (c, s) (wnodes w) -> lk s n = Some r -> n = self cx -> (rinc r <= linc sx)%N) /\
    (forall c s k m, In (c, s) (wnodes w) -> In (k, m) (bq s) -> mname m = self cx -> (minc m <= linc sx)%N) /\
    (forall p, In p (wpool w) -> pname p = self cx -> (pinc p <= linc sx)%N).
Proof. exact claims_below_owner. Qed.
Print Assumptions C05_claims_below_owner.

(* the inductive step: one action of the cluster keeps the invariant [BW] *)
Theorem C05_step_invariant : forall w g, BW w -> gact_ok w g ->
  BW (fst (gstep w g)) /\ (forall n inc, owner_le w n inc -> owner_le (fst (gstep w g)) n inc).
Proof. exact gstep_BW. Qed.
Print Assumptions C05_step_invariant.

(* false accusations do not stick: a running member that hears an accusation at or above its record's
   incarnation moves strictly above every record of it held anywhere, every queued broadcast about it and
   everything ever sent about it, and queues its alive message *)
Theorem C05_refutation_outranks_all : forall w i c s r inc from,
  BW w -> nth_error (wnodes w) i = Some (c, s) -> leaving s = false ->
  lk s (self c) = Some r -> rst r = Alive -> (rinc r <= inc)%N -> below_max inc -> below_max (linc s) ->
  let s' := fst (do_suspect c s inc (self c) from) in
  s' = refute c s r inc /\
  alookup (kaddr (raddr r)) (bq s') = Some (BAlive (linc s') (self c) (raddr r) (rmeta r) (rvsn r)) /\
  (forall cj sj rj, In (cj, sj) (wnodes w) -> lk sj (self c) = Some rj -> (rinc rj < linc s')%N) /\
  (forall cj sj k m, In (cj, sj) (wnodes w) -> In (k, m) (bq sj) -> mname m = self c -> (minc m < linc s')%N) /\
  (forall p, In p (wpool w) -> pname p = self c -> (pinc p < linc s')%N).
Proof. exact refutation_outranks_all. Qed.
Print Assumptions C05_refutation_outranks_all.

(* the same for a dead claim *)
Theorem C05_accusation_refuted : forall c s inc from r,
  Inv c s -> leaving s = false -> lk s (self c) = Some r -> rst r = Alive -> (rinc r <= inc)%N ->
  do_suspect c s inc (self c) from = (refute c s r inc, []) /\
  do_dead c s inc (self c) from = (refute c s r inc, []).
Proof. intros. split; [apply suspect_self_refuted | apply dead_self_refuted]; assumption. Qed.
Print Assumptions C05_accusation_refuted.

(* ... and whoever processes that alive message while holding any older record of the member at the
   same address — Alive, Suspect, Dead or Left — lists it alive with the metadata the message carries *)
Theorem C05_refutation_accepted : forall c s inc name addr meta vsn r,
  lk s name = Some r -> name <> self c -> raddr r = addr -> (rinc r < inc)%N -> vsn_bad vsn = false ->
  let s' := fst (do_alive c s inc name addr meta vsn false) in
  exists r', lk s' name = Some r' /\ rst r' = Alive /\ rinc r' = inc /\ raddr r' = addr /\ rmeta r' = meta.
Proof. exact newer_alive_accepted. Qed.
Print Assumptions C05_refutation_accepted.

(* push/pull: an entry that reports a member Alive at incarnation i lifts the receiver's record of that member
   (same address) to at least i, whatever it held, and never lowers it *)
Theorem C05_exchange_lifts_alive : forall c s inc name addr meta vsn r,
  lk s name = Some r -> name <> self c -> raddr r = addr -> vsn_bad vsn = false ->
  exists r', lk (fst (do_merge c s Alive inc name addr meta vsn)) name = Some r' /\ (inc <= rinc r')%N /\ (rinc r <= rinc r')%N.
Proof. exact merge_alive_lifts. Qed.
Print Assumptions C05_exchange_lifts_alive.

(* hearsay (a peer's Suspect/Dead entry in a push/pull) never removes a member: C09_hearsay *)
Theorem C05_hearsay_only_suspects : forall c s rs inc n addr meta vsn r,
  Inv c s -> lk s n = Some r -> rst r = Alive -> n <> self c -> (rs = Dead \/ rs = Suspect) ->
  let '(s', evs) := do_merge c s rs inc n addr meta vsn in
  evs = [] /\ view s' n = view s n.
Proof. exact hearsay_keeps_member. Qed.
Print Assumptions C05_hearsay_only_suspects.

(* non-vacuity: three nodes learn each other; node 1's probe of member 2 fails and the suspicion is
   gossiped; member 2 hears it, refutes (incarnation 2) and node 1 accepts the refutation; member 2's own
   probe of member 3 fails and its timer fires *)
Definition cfgn (n : N) : cfg :=
  mkCfg n n [1;5;2;0;0;0]%N 0 30000000000 2 4000000000 6 [24000000000;11381000000;4000000000]%Z 8 true false [] true.
Definition sched : list gact :=
  [GA (WSnapshot 0); GA (WSnapshot 1); GA (WSnapshot 2);
   GA (WDeliver 0 0); GA (WDeliver 0 1); GA (WDeliver 1 1); GA (WDeliver 1 2); GA (WDeliver 2 2); GA (WDeliver 2 0); GA (WDeliver 1 0);
   GProbeFail 0 2; GA (WGossip 0); GA (WDeliver 1 0); GA (WDeliver 1 1); GA (WDeliver 1 2); GA (WGossip 1);
   GA (WDeliver 0 0); GA (WDeliver 0 1); GA (WDeliver 0 2); GA (WDeliver 0 3); GA (WDeliver 0 4);
   GProbeFail 1 3; GA (WAdvance 1 30000000000); GA (WGossip 1)].
Example C05_nonvacuous :
  let cs := [(cfgn 1, 10%N); (cfgn 2, 20%N); (cfgn 3, 30%N)] in
  Forall (fun cm => good_cfg (fst cm)) cs /\ NoDup (map (fun cm => self (fst cm)) cs) /\
  grun_ok (boot_world cs) sched /\
  let '(w, evs) := grun (boot_world cs) sched in
  map (fun cs => (linc (snd cs), map (fun p => (fst p, rinc (snd p), rst (snd p))) (recs (snd cs)))) (wnodes w) =
    [(1, [(1, 1, Alive); (3, 1, Alive); (2, 2, Alive)]);
     (2, [(2, 2, Alive); (1, 1, Alive); (3, 1, Dead)]);
     (1, [(3, 1, Alive); (1, 1, Alive)])]%N /\
  evs = [EvJoin 3 3 30; EvJoin 2 2 20; EvJoin 1 1 10; EvJoin 1 1 10; EvJoin 3 3 30; EvLeave 3 3 30]%N.
Proof.
  cbv zeta. split; [|split; [|split]].
  - repeat constructor.
  - cbn. repeat constructor; cbn; intuition discriminate.
  - apply grun_okb_ok. vm_compute. reflexivity.
  - vm_compute. split; reflexivity.
Qed.

(* ---------- members that crash and come back under the same name ---------- *)
(* A restarted member starts again at incarnation 1 while claims from its earlier life are still held by
   others and still on the network, so "at most the owner's current counter" stops being an invariant
   (the example below reaches such a state).  For every schedule of the cluster with restarts: every claim
   about a member carries an incarnation the member itself reached at some moment of the run, or a lower one *)
Theorem C05_claims_below_history : forall cs acts,
  Forall (fun cm => good_cfg (fst cm)) cs -> NoDup (map (fun cm => self (fst cm)) cs) ->
  rrun_ok (boot_world cs) acts ->
  let w := fst (rrun (boot_world cs) [boot_world cs] acts) in
  let tr := snd (rrun (boot_world cs) [boot_world cs] acts) in
  (forall c s n r, In (c, s) (wnodes w) -> lk s n = Some r -> hle tr n (rinc r)) /\
  (forall c s k m, In (c, s) (wnodes w) -> In (k, m) (bq s) -> hle tr (mname m) (minc m)) /\
  (forall p, In p (wpool w) -> hle tr (pname p) (pinc p)).
Proof. exact claims_below_history. Qed.
Print Assumptions C05_claims_below_history.

(* the inductive step with restarts *)
Theorem C05_restart_step : forall tr w a, RW tr w -> ract_ok w a -> RW (rstep w a :: tr) (rstep w a).
Proof. exact rstep_RW. Qed.
Print Assumptions C05_restart_step.

(* a member — freshly restarted or not — that hears an accusation at or above its own record (for a
   restarted member: any claim left over from its earlier life) moves strictly above it and queues its
   alive message; by C05_refutation_accepted whoever holds the older record then lists it alive *)
Theorem C05_restarted_member_overtakes : forall c s r inc from,
  Inv c s -> leaving s = false -> lk s (self c) = Some r -> rst r = Alive -> (rinc r <= inc)%N ->
  below_max inc -> below_max (linc s) ->
  let s' := fst (do_suspect c s inc (self c) from) in
  (inc < linc s')%N /\ (linc s < linc s')%N /\
  alookup (kaddr (raddr r)) (bq s') = Some (BAlive (linc s') (self c) (raddr r) (rmeta r) (rvsn r)).
Proof. exact restarted_member_overtakes. Qed.
Print Assumptions C05_restarted_member_overtakes.

(* non-vacuity: member 1 updates its metadata (incarnation 2) and member 2 learns it; member 1 crashes and
   restarts (incarnation 1) — member 2 now holds a record of it ABOVE its counter; member 2's push/pull
   state reaches member 1, which jumps to incarnation 3, and member 2 accepts that *)
Definition rsched1 : list ract :=
  [RA (GA (WSnapshot 0)); RA (GA (WDeliver 1 0)); RA (GA (WUpdate 0 11 0)); RA (GA (WGossip 0)); RA (GA (WDeliver 1 0));
   RRestart 0 12].
Definition rsched2 : list ract :=
  [RA (GA (WSnapshot 1)); RA (GA (WDeliver 0 1)); RA (GA (WGossip 0)); RA (GA (WDeliver 1 1))].
Definition rview (w : world) :=
  map (fun cs => (linc (snd cs), map (fun p => (fst p, rinc (snd p), rst (snd p))) (recs (snd cs)))) (wnodes w).
Example C05_restart_nonvacuous :
  let cs := [(cfgn 1, 10%N); (cfgn 2, 20%N)] in
  Forall (fun cm => good_cfg (fst cm)) cs /\ NoDup (map (fun cm => self (fst cm)) cs) /\
  rrun_ok (boot_world cs) (rsched1 ++ rsched2) /\
  rview (fst (rrun (boot_world cs) [boot_world cs] rsched1)) =
    [(1, [(1, 1, Alive)]); (1, [(2, 1, Alive); (1, 2, Alive)])]%N /\
  rview (fst (rrun (boot_world cs) [boot_world cs] (rsched1 ++ rsched2))) =
    [(3, [(1, 3, Alive)]); (1, [(2, 1, Alive); (1, 3, Alive)])]%N.
Proof.
  cbv zeta. split; [|split; [|split; [|split]]].
  - repeat constructor.
  - cbn. repeat constructor; cbn; intuition discriminate.
  - apply rrun_okb_ok. vm_compute. reflexivity.
  - vm_compute. reflexivity.
  - vm_compute. reflexivity.
Qed.

(* ---------- anti-entropy heals a pair (a liveness step, proved for EVERY pair of node states) ---------- *)
(* x is a running node that has not called Leave and lists itself alive (C02: every reachable state);
   y holds about x nothing at all, or ANY record at x's address — a stale incarnation, Suspect, Dead,
   Left, stale metadata, even an incarnation x never reached (a restart).  After two complete push/pull
   exchanges between them (each = both sides write their whole state, then both merge what they read,
   entry by entry) y lists x alive with x's address and current metadata, and x still lists itself with
   them.  No cluster invariant and no fairness premise is used: the exchange itself forces the refutation
   (x reads y's accusation, moves above it) and delivers it (the second exchange carries the new
   incarnation).  This is the step the convergence argument of the property rests on; that the pair ever
   exchanges is what the connectivity premise is for, and is not proved (see the end of this file). *)
Theorem C05_two_exchanges_heal : forall cx sx cy sy rx,
  keys_ok sx -> keys_ok sy -> self cx <> self cy ->
  SelfGood cx sx rx -> (0 < rinc rx)%N -> vsn_bad (rvsn rx) = false -> below_max (linc sx) ->
  ((lk sy (self cx) = None /\ is_allowed cy (raddr rx) = true) \/
   (exists ry, lk sy (self cx) = Some ry /\ raddr ry = raddr rx /\ vsn_bad (rvsn ry) = false /\ below_max (rinc ry))) ->
  let '(sx2, sy2) := pushpull2 cx sx cy sy in
  (exists r', lk sy2 (self cx) = Some r' /\ rst r' = Alive /\ raddr r' = raddr rx /\ rmeta r' = rmeta rx) /\
  (exists rx2, SelfGood cx sx2 rx2 /\ raddr rx2 = raddr rx /\ rmeta rx2 = rmeta rx).
Proof. exact two_pushpulls_heal. Qed.
Print Assumptions C05_two_exchanges_heal.

(* both directions at once, in terms of what Members() shows *)
Theorem C05_two_exchanges_heal_mutual : forall cx sx cy sy rx ry,
  self cx <> self cy -> heal_self cx sx rx -> heal_self cy sy ry ->
  heal_prior cy sy cx rx -> heal_prior cx sx cy ry ->
  let '(sx2, sy2) := pushpull2 cx sx cy sy in
  listed sy2 (self cx) = Some (raddr rx, rmeta rx) /\ listed sx2 (self cy) = Some (raddr ry, rmeta ry) /\
  listed sx2 (self cx) = Some (raddr rx, rmeta rx) /\ listed sy2 (self cy) = Some (raddr ry, rmeta ry).
Proof. exact two_pushpulls_heal_mutual. Qed.
Print Assumptions C05_two_exchanges_heal_mutual.

(* while it merges a whole state list a running node keeps listing itself with its address and metadata,
   and every entry about itself at or above its incarnation that is not an exact echo of its own record
   has been outranked when the merge ends: no false accusation carried by a push/pull sticks *)
Theorem C05_merge_refutes_every_accusation : forall c l, NoDup (map fst l) -> forall s r, SelfGood c s r ->
  (forall q, In (self c, q) l -> below_max (rinc q) /\ below_max (linc s)) ->
  exists r', SelfGood c (merge_all c s (map ent l)) r' /\ raddr r' = raddr r /\ rmeta r' = rmeta r /\ rvsn r' = rvsn r
    /\ (rinc r <= rinc r')%N
    /\ (forall q, In (self c, q) l -> raddr q = raddr r -> vsn_bad (rvsn q) = false -> (rinc r <= rinc q)%N ->
          (rst q = Alive /\ rinc q = rinc r /\ rmeta q = rmeta r) \/ (rinc q < rinc r')%N).
Proof. exact x_merges. Qed.
Print Assumptions C05_merge_refutes_every_accusation.

(* non-vacuity, and "two" is tight: member 1 updates its metadata (incarnation 2); member 2 — which knew it
   at incarnation 1 — is then told by somebody that member 1 is dead at incarnation 2 and believes it.
   One exchange: member 1 refutes (incarnation 3) but member 2 has merged the OLD snapshot and still
   holds it Dead, i.e. does not list it; the second exchange delivers the refutation. *)
Definition hx0 : nstate := fst (step (cfgn 1) (boot (cfgn 1) 10) (OUpdate 11 0)).
Definition hy0 : nstate :=
  fst (run (cfgn 2) (boot (cfgn 2) 20) [OAlive 1 1 1 10 [1;5;2;0;0;0]%N false; OAlive 2 1 1 11 [1;5;2;0;0;0]%N false; ODead 2 1 3]).
Example C05_heal_nonvacuous :
  (exists rx ry, heal_self (cfgn 1) hx0 rx /\ heal_self (cfgn 2) hy0 ry /\ heal_prior (cfgn 2) hy0 (cfgn 1) rx /\ heal_prior (cfgn 1) hx0 (cfgn 2) ry) /\
  listed hy0 1 = None /\
  (let '(sx1, sy1) := pushpull (cfgn 1) hx0 (cfgn 2) hy0 in
   listed sy1 1 = None /\ linc sx1 = 3%N /\ listed sx1 2 = Some (2, 20)%N) /\
  (let '(sx2, sy2) := pushpull2 (cfgn 1) hx0 (cfgn 2) hy0 in
   listed sy2 1 = Some (1, 11)%N /\ listed sx2 2 = Some (2, 20)%N /\
   map (fun p => (fst p, rinc (snd p), rst (snd p))) (recs sy2) = [(2, 1, Alive); (1, 3, Alive)]%N).
Proof.
  split.
  - exists (mkRec 2 Alive 1 11 [1;5;2;0;0;0]%N 0), (mkRec 1 Alive 2 20 [1;5;2;0;0;0]%N 0).
    unfold heal_self, heal_prior, SelfGood, keys_ok, no_live, below_max.
    split; [|split; [|split]].
    + split; [vm_compute; repeat constructor; cbn; intuition discriminate|]. repeat split; vm_compute; reflexivity.
    + split; [vm_compute; repeat constructor; cbn; intuition discriminate|]. repeat split; vm_compute; reflexivity.
    + right. eexists. split; [vm_compute; reflexivity|]. repeat split; vm_compute; reflexivity.
    + left. split; vm_compute; reflexivity.
  - vm_compute. repeat split; reflexivity.
Qed.

(* an exchange IS a schedule of the cluster model — both nodes put their whole state on the network, then each
   processes the other's entries in order — so every theorem about every schedule (C05_claims_below_owner, ...)
   holds across exchanges, and nothing else in the cluster is touched *)
Theorem C05_exchange_is_a_schedule : forall w i j ci si cj sj,
  i <> j -> nth_error (wnodes w) i = Some (ci, si) -> nth_error (wnodes w) j = Some (cj, sj) ->
  let w' := fst (wrun w (exchange_sched w i j)) in
  nth_error (wnodes w') i = Some (ci, fst (pushpull ci si cj sj)) /\
  nth_error (wnodes w') j = Some (cj, snd (pushpull ci si cj sj)) /\
  (forall k, k <> i -> k <> j -> nth_error (wnodes w') k = nth_error (wnodes w) k) /\
  wpool w' = snapshot sj ++ snapshot si ++ wpool w.
Proof. exact exchange_is_a_schedule. Qed.
Print Assumptions C05_exchange_is_a_schedule.

(* ... and in ANY state the cluster can reach (BW: the invariant every schedule from booted nodes with distinct
   names preserves — failed probes, accusations, timers, loss, duplication, reordering included), two members that
   have not called Leave and hold each other's address (or nothing) list each other alive with current metadata after
   the two-exchange schedule *)
Theorem C05_heal_in_reachable : forall w i j ci si cj sj,
  BW w -> i <> j -> nth_error (wnodes w) i = Some (ci, si) -> nth_error (wnodes w) j = Some (cj, sj) ->
  leaving si = false -> leaving sj = false ->
  forall ri rj, lk si (self ci) = Some ri -> lk sj (self cj) = Some rj ->
  (0 < rinc ri)%N -> (0 < rinc rj)%N -> vsn_bad (rvsn ri) = false -> vsn_bad (rvsn rj) = false ->
  below_max (linc si) -> below_max (linc sj) ->
  heal_prior cj sj ci ri -> heal_prior ci si cj rj ->
  let w' := fst (wrun w (exchange2_sched w i j)) in
  exists si' sj', nth_error (wnodes w') i = Some (ci, si') /\ nth_error (wnodes w') j = Some (cj, sj') /\
    listed sj' (self ci) = Some (raddr ri, rmeta ri) /\ listed si' (self cj) = Some (raddr rj, rmeta rj) /\
    listed si' (self ci) = Some (raddr ri, rmeta ri) /\ listed sj' (self cj) = Some (raddr rj, rmeta rj).
Proof. exact heal_in_reachable. Qed.
Print Assumptions C05_heal_in_reachable.

(* The property as worded ("if the live nodes' member lists still connect them ... then every live node's
   Members() is exactly the live set") is FALSE of the implementation: known finding D-C05, with a
   deterministic two-node replay in corpus/cluster/defects.json that the check re-runs on every invocation.
   The network pool of this model never forgets a message, so the decisive fact of that history — the
   refutation's retransmissions are used up while nobody can hear them, and nothing re-sends it because
   accusations at the stale incarnation are ignored by their subject, acknowledgements do not clear a
   suspicion and push/pull only ever picks Alive peers — is outside what this model can express; no
   [_refuted] theorem is therefore stated here.  What IS proved about liveness is the pairwise step above
   (C05_two_exchanges_heal: any two running nodes that complete two push/pull exchanges list each other
   with current metadata, whatever they held); that every pair the connectivity premise connects
   eventually exchanges is not a theorem of any faithful model (peer selection is random in the code, and
   pushPull() only picks peers held Alive — which is the substance of D-C05). *)
