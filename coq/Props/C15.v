(* C15 — outbound confidentiality (packet path here; stream path in the second half). *)
From Coq Require Import List NArith ZArith Bool.
Import ListNotations.
From VF Require Import Base Label Wire Wire_proofs Stream Stream_proofs.

(* with a keyring and outgoing verification on, whatever rawSendMsgPacket hands to the (label
   wrapping) transport is: the cleartext label header, the version byte, the nonce, and the AEAD
   sealing under the PRIMARY key with the label as associated data -- for every message, peer
   version, compression and checksum setting *)
Theorem C15_packet_sealed : forall seal comp c pm msg nonce,
  enc_on c = true -> verify_out c = true -> label_ok (plabel c) ->
  exists body, send_packet seal comp c pm msg nonce =
    Ok (label_header (plabel c) ++ encvsn c :: nonce ++
        seal (primary c) nonce (if N.eqb (encvsn c) 0 then pkcs7_pad body else body) (plabel c)).
Proof. exact packet_sealed. Qed.
Print Assumptions C15_packet_sealed.

(* streams (user messages, both directions of push/pull, TCP pings and their acks, error replies all
   go through rawSendMsgStream): encryptMsg || length || version || nonce || sealing under the
   primary key, with  encryptMsg || length || label  as associated data *)
Theorem C15_stream_sealed : forall seal comp c label payload nonce,
  enc_on c = true -> verify_out c = true ->
  exists s1, stream_frame seal comp c label payload nonce =
    let hdr := t_encrypt :: be32 (encrypted_length (encvsn c) (blen s1)) in
    hdr ++ encvsn c :: nonce ++ seal (primary c) nonce (if N.eqb (encvsn c) 0 then pkcs7_pad s1 else s1) (hdr ++ label).
Proof. exact stream_sealed. Qed.
Print Assumptions C15_stream_sealed.
