(* C15 — outbound confidentiality (packet path here; stream path in the second half). *)
From Coq Require Import List NArith ZArith Bool.
Import ListNotations.
From VF Require Import Base Label Wire Wire_proofs.

(* with a keyring and outgoing verification on, whatever rawSendMsgPacket hands to the (label
   wrapping) transport is: the cleartext label header, the version byte, the nonce, and the AEAD
   sealing under the PRIMARY key with the label as associated data -- for every message, peer
   version, compression and checksum setting *)
Theorem C15_packet_sealed : forall seal comp c pm msg nonce,
  enc_on c = true -> verify_out c = true -> label_ok (plabel c) ->
  exists body, send_packet seal comp c pm msg nonce =
    Ok (label_header (plabel c) ++ encvsn c :: nonce ++
        seal (primary c) nonce (if N.eqb (encvsn c) 0 then pkcs7_pad body else body) (plabel c)).
Proof. exact packet_sealed. Qed.
Print Assumptions C15_packet_sealed.
