(* C14 — inbound authentication (packet path here; stream path in the second half).
   Ideal AEAD assumption: [open] succeeds only on genuine sealings ([genuine], a parameter). *)
From Coq Require Import List NArith ZArith Bool.
Import ListNotations.
From VF Require Import Base Label Wire Wire_proofs Stream Stream_proofs.

(* whatever decryptPayload accepts is a genuine sealing under an INSTALLED key, with the given
   associated data, of exactly the received nonce and ciphertext -- and the plaintext handed on is
   that sealing's plaintext, EXCEPT that the unauthenticated version byte decides whether PKCS7
   padding is stripped from it (known finding D-C14; hence "_partial") *)
Theorem C14_accept_implies_genuine_partial : forall open (genuine : N -> bytes -> bytes -> bytes -> bytes -> Prop),
  (forall k n ct ad p, open k n ct ad = Some p -> genuine k n p ad ct) ->
  forall c msg aad p, decrypt_payload open c msg aad = Ok p ->
  exists vsn k p0, hd_error msg = Some vsn /\ (vsn = 0 \/ vsn = 1)%N /\ In k (keys c)
    /\ genuine k (firstn 12 (skipn 1 msg)) p0 aad (skipn 13 msg)
    /\ ((vsn = 1%N /\ p = p0) \/ (vsn = 0%N /\ pkcs7_unpad_raw p0 = Ok p /\ (fixed c = true -> pkcs7_valid p0 = true))).
Proof. intros open genuine H. exact (decrypt_accepts_only_genuine open (fun _ => None) genuine H). Qed.
Print Assumptions C14_accept_implies_genuine_partial.

(* with a keyring and incoming verification on, a packet has an effect only after such a decryption,
   with the node's own label as the associated data *)
Theorem C14_effect_requires_decryption : forall open decomp fuel c pkt ds,
  enc_on c = true -> verify_in c = true -> ingest open decomp fuel c pkt = Ok ds -> ds <> [] ->
  exists buf lab p, remove_label pkt = Ok (buf, lab) /\
    decrypt_payload open c buf (if skip_label c then plabel c else lab) = Ok p /\
    list_eqb N.eqb (plabel c) (if skip_label c then plabel c else lab) = true.
Proof. exact ingest_authenticated. Qed.
Print Assumptions C14_effect_requires_decryption.

(* streams: with a keyring and incoming verification on, a message is read only through a successful
   authenticated decryption whose associated data is  encryptMsg || length || the node's label *)
Theorem C14_stream_authenticated : forall open decomp c label b t body,
  enc_on c = true -> verify_in c = true -> read_stream open decomp c label b = SOk t body ->
  exists l1 l2 l3 l4 rest plain, b = t_encrypt :: l1 :: l2 :: l3 :: l4 :: rest /\
    decrypt_payload open c (firstn (N.to_nat (rd32 l1 l2 l3 l4)) rest) (t_encrypt :: l1 :: l2 :: l3 :: l4 :: label) = Ok plain.
Proof. exact stream_authenticated. Qed.
Print Assumptions C14_stream_authenticated.

(* the unconditional statement ("exactly the original plaintext") is false: flipping the version byte
   of a genuine version-1 sealing whose plaintext happens to end in valid padding drops bytes *)
Example C14_full_refuted :
  let p0 := [48;49;50;51;52;53;54;55;56;57;97;98;99;100;101;1]%N in
  let open := fun (k : N) (_ _ _ : bytes) => if N.eqb k 1 then Some p0 else None in
  decrypt_payload open (mkP [] false [1%N] true true 1 false true) (1%N :: repeat 0%N 60) [] = Ok p0 /\
  decrypt_payload open (mkP [] false [1%N] true true 1 false true) (0%N :: repeat 0%N 60) [] = Ok (firstn 15 p0).
Proof. vm_compute. split; reflexivity. Qed.
