(* C12 — the wire pipeline round-trips every message under every configuration (packet path here;
   stream path in the second half).  AES-GCM and the LZW/msgpack compress wrapper are hypotheses
   (Section variables of Proofs/Wire_proofs.v), validated on recorded values on every run. *)
From Coq Require Import List NArith ZArith Bool.
Import ListNotations.
From VF Require Import Base Label Wire Wire_proofs Stream Stream_proofs.
Local Open Scope N_scope.

Theorem C12_packet_roundtrip : forall seal open comp decomp,
  (forall k n p ad, open k n (seal k n p ad) ad = Some p) ->
  (forall k k' n p ad, k <> k' -> open k' n (seal k n p ad) ad = None) ->
  (forall k n p ad, length (seal k n p ad) = (length p + 16)%nat) ->
  (forall m, exists body, comp m = t_compress :: body /\ decomp body = Some m) ->
  forall cs cr pm msg nonce fuel,
  compatible cs cr -> length nonce = 12%nat -> msg_start_ok msg -> msg <> [] ->
  exists pkt, send_packet seal comp cs pm msg nonce = Ok pkt /\
    exists f', (f' = fuel \/ f' = S fuel) /\ ingest open decomp (S fuel) cr pkt = Ok (handle_command decomp f' msg)
               /\ (compress_on cs = false -> f' = S fuel).
Proof. exact packet_roundtrip_pipeline. Qed.
Print Assumptions C12_packet_roundtrip.

Theorem C12_decrypt_encrypt : forall seal open (comp : bytes -> bytes) (decomp : bytes -> option bytes),
  (forall k n p ad, open k n (seal k n p ad) ad = Some p) ->
  (forall k k' n p ad, k <> k' -> open k' n (seal k n p ad) ad = None) ->
  (forall k n p ad, length (seal k n p ad) = (length p + 16)%nat) ->
  (forall m, exists body, comp m = t_compress :: body /\ decomp body = Some m) ->
  forall c vsn k nonce m aad,
  length nonce = 12%nat -> (vsn = 0 \/ vsn = 1) -> In k (keys c) ->
  decrypt_payload open c (encrypt_payload seal vsn k nonce m aad) aad = Ok m.
Proof. exact decrypt_encrypt. Qed.
Print Assumptions C12_decrypt_encrypt.

Theorem C12_pkcs7 : forall b, pkcs7_unpad_raw (pkcs7_pad b) = Ok b /\ pkcs7_valid (pkcs7_pad b) = true.
Proof. exact pkcs7_roundtrip. Qed.
Print Assumptions C12_pkcs7.

Theorem C12_crc_header : forall x, x < 4294967296 -> match be32 x with [a; b; c; d] => rd32 a b c d = x | _ => False end.
Proof. exact rd32_be32. Qed.
Print Assumptions C12_crc_header.

(* stream path: rawSendMsgStream (+ encryptLocalState) then readStream (+ decryptRemoteState):
   the peer gets the message type and body back, for user messages (any payload incl. the empty one),
   push/pull state and pings alike *)
Theorem C12_stream_roundtrip : forall seal open comp decomp,
  (forall k n p ad, open k n (seal k n p ad) ad = Some p) ->
  (forall k k' n p ad, k <> k' -> open k' n (seal k n p ad) ad = None) ->
  (forall k n p ad, length (seal k n p ad) = (length p + 16)%nat) ->
  (forall m, exists body, comp m = t_compress :: body /\ decomp body = Some m) ->
  forall cs cr label t body nonce,
  length nonce = 12%nat -> (encvsn cs = 0 \/ encvsn cs = 1) ->
  t <> t_compress -> t <> t_encrypt ->
  encrypted_length (encvsn cs) (blen (if compress_on cs then comp (t :: body) else t :: body)) <= max_push_state_bytes ->
  ((enc_on cs && verify_out cs = true /\ In (primary cs) (keys cr)) \/ (enc_on cs && verify_out cs = false /\ enc_on cr = false)) ->
  read_stream open decomp cr label (stream_frame seal comp cs label (t :: body) nonce) = SOk t body.
Proof. exact stream_roundtrip. Qed.
Print Assumptions C12_stream_roundtrip.

Example C12_crc_check_value : crc32 [49;50;51;52;53;54;55;56;57] = 3421780262.
Proof. vm_compute. reflexivity. Qed.
