(* C16 — labels isolate logical clusters.  Models: Model/Label.v, Model/Wire.v. *)
From Coq Require Import List NArith ZArith Bool.
Import ListNotations.
From VF Require Import Base Label Label_proofs Wire Wire_proofs.

(* packets: add then remove returns payload and label, for every label of 1..255 bytes and every payload *)
Theorem C16_packet_roundtrip : forall label buf, label <> [] -> (length label <= 255)%nat ->
  match add_label buf label with Ok p => remove_label p = Ok (buf, label) | _ => False end.
Proof. exact packet_roundtrip. Qed.
Print Assumptions C16_packet_roundtrip.

Theorem C16_no_header_passthrough : forall buf,
  (forall b r, buf = b :: r -> b <> has_label_msg) -> remove_label buf = Ok (buf, []).
Proof. exact no_header_passthrough. Qed.
Print Assumptions C16_no_header_passthrough.

Theorem C16_overlong_label_err : forall label buf, (255 < length label)%nat -> add_label buf label = Err 1.
Proof. exact overlong_label_err. Qed.
Print Assumptions C16_overlong_label_err.

Theorem C16_truncated_header_err :
  remove_label [has_label_msg] = Err 2 /\
  forall sz rest, (1 <= sz)%N -> (length rest < N.to_nat sz)%nat -> remove_label (has_label_msg :: sz :: rest) = Err 2.
Proof. exact truncated_header_err. Qed.
Print Assumptions C16_truncated_header_err.

(* streams: header + payload delivered in ANY fragmentation (each Read returns any non-empty piece,
   also pieces that end inside the header): the label comes back and what the continuation
   (peeked bytes, then the connection) yields is exactly the payload *)
Theorem C16_stream_roundtrip : forall label payload frags,
  label <> [] -> (length label <= 255)%nat ->
  concat frags = label_header label ++ payload ->
  exists pc, remove_label_stream frags = Ok (label, pc) /\ drain pc = payload.
Proof. exact stream_roundtrip. Qed.
Print Assumptions C16_stream_roundtrip.

Theorem C16_stream_no_header_passthrough : forall frags b rest,
  concat frags = b :: rest -> b <> has_label_msg ->
  exists pc, remove_label_stream frags = Ok ([], pc) /\ drain pc = b :: rest.
Proof. exact stream_no_header_passthrough. Qed.
Print Assumptions C16_stream_no_header_passthrough.

(* isolation: a packet reaches a handler only if it carried exactly the node's label, or, when the
   inbound check is delegated to an outer layer, no label header at all *)
Theorem C16_isolation : forall open decomp fuel c pkt ds,
  ingest open decomp fuel c pkt = Ok ds -> ds <> [] ->
  exists buf lab, remove_label pkt = Ok (buf, lab) /\
    ((skip_label c = false /\ lab = plabel c) \/ (skip_label c = true /\ lab = [])).
Proof. exact ingest_label_isolation. Qed.
Print Assumptions C16_isolation.

Example C16_nonvacuous :
  remove_label_stream [[244]; [3; 97]; [98; 99; 7]; [8; 9]]%N = Ok ([97; 98; 99]%N, mkPC [7]%N [[8; 9]%N]).
Proof. vm_compute. reflexivity. Qed.
