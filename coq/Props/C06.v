(* C06 — suspicion timeout respects the Lifeguard bounds and confirmation rules.
   Model: Model/Susp.v (the timer) and Model/Core.v (its use by the node).  [T n] is the float64
   schedule remainingSuspicionTime(n,k,0,min,max); the theorems hold for every T with [T_ok]
   (within [min,max], non-increasing in n), which is evaluated on the code's own table on every run. *)
From Coq Require Import List NArith ZArith Bool.
Import ListNotations.
From VF Require Import Base Susp Susp_proofs Core Core_lemmas Core_inv Core_props Extra_proofs.
Local Open Scope Z_scope.

(* every timed sequence of confirmations (any senders, duplicates, the accuser, any non-decreasing
   times, also after the deadline): the firing instant stays within [start+min, start+max] and the
   deadline only ever moves earlier *)
Theorem C06_bounds : forall T k mn mx, T_ok T k mn mx ->
  forall cs st s t0, SInv T k mn mx st s -> st <= t0 -> times_ok t0 cs ->
  let s' := fst (srun T s cs) in
  SInv T k mn mx st s' /\ st + mn <= sdeadline s' <= st + mx /\ sdeadline s' <= sdeadline s.
Proof. exact srun_bounds. Qed.
Print Assumptions C06_bounds.

Theorem C06_new_inv : forall T k mn mx, T_ok T k mn mx -> forall from st, SInv T k mn mx st (snew from k mn mx st).
Proof. exact snew_inv. Qed.
Print Assumptions C06_new_inv.

(* one confirmation, exactly: accepted iff fewer than k so far and the sender is new (the accuser is
   in the set from the start); the new deadline is max(now, start + T(n+1)) -- never later than before,
   and nothing moves once the timer has fired *)
Theorem C06_confirm : forall T k mn mx, T_ok T k mn mx -> forall st s from now,
  SInv T k mn mx st s -> st <= now ->
  let '(s', b) := sconfirm T s from now in
  SInv T k mn mx st s'
  /\ sdeadline s' <= sdeadline s
  /\ (sfired (stick s now) = true -> sdeadline s' = sdeadline s)
  /\ (b = true -> Nmem from (sconfs s) = false /\ sn s < k /\ sn s' = sn s + 1 /\ sconfs s' = from :: sconfs s)
  /\ (b = false -> sn s' = sn s /\ sconfs s' = sconfs s /\ sdeadline s' = sdeadline s)
  /\ (b = true -> sfired (stick s now) = false ->
        sdeadline s' = Z.max now (st + T (sn s + 1)) /\ sfired s' = (st + T (sn s + 1) <=? now)).
Proof. exact sconfirm_spec. Qed.
Print Assumptions C06_confirm.

(* over a whole schedule: accepted confirmations = growth of n; every accepted sender is recorded
   (so it cannot count twice); at most k are accepted; with k < 1 none is *)
Theorem C06_confirmers : forall T k mn mx, T_ok T k mn mx ->
  forall cs st s t0, SInv T k mn mx st s -> st <= t0 -> times_ok t0 cs ->
  let '(s', bs) := srun T s cs in
  sn s' - sn s = Z.of_nat (length (filter (fun b => b) bs))
  /\ (forall x, Nmem x (sconfs s) = true -> Nmem x (sconfs s') = true)
  /\ Forall2 (fun c b => b = true -> Nmem (fst c) (sconfs s') = true) cs bs
  /\ (1 <= k -> sn s' <= k) /\ (k < 1 -> Forall (fun b => b = false) bs).
Proof. exact srun_confirmers. Qed.
Print Assumptions C06_confirmers.

Theorem C06_k0_min : forall k mn mx from st, k < 1 -> sdeadline (snew from k mn mx st) = st + mn.
Proof. exact k0_min. Qed.
Print Assumptions C06_k0_min.

(* on the node: a fired timer kills only the suspicion it was created for -- a timer whose creation
   time differs from the record's state-change time, or whose member is no longer suspect
   (refuted, re-suspected later, dead), does nothing *)
Theorem C06_stale_timer_harmless : forall c s t,
  (forall r, alookup (tname t) (recs s) = Some r -> rst r <> Suspect \/ rsince r <> tct t) ->
  timer_fire c s t = (s, []).
Proof.
  intros c s t H. unfold timer_fire. destruct (alookup (tname t) (recs s)) as [r|]; [|reflexivity].
  destruct (H r eq_refl) as [E|E].
  - destruct (rst r); try reflexivity. contradiction.
  - destruct (Z.eqb_spec (rsince r) (tct t)); [contradiction|]. rewrite andb_false_r. reflexivity.
Qed.
Print Assumptions C06_stale_timer_harmless.

(* ... and in every reachable node state a registered (live) timer belongs to a suspected member *)
Theorem C06_timer_only_for_suspects : forall c, fixed c = true -> forall ops s,
  FInv c s -> run_ok c s ops ->
  forall t, In t (timers (fst (run c s ops))) -> tlive t = true ->
  exists r, lk (fst (run c s ops)) (tname t) = Some r /\ rst r = Suspect.
Proof. intros c Hf ops s HI HR. exact (inv_t _ _ (proj1 (run_FInv c Hf ops s HI HR))). Qed.
Print Assumptions C06_timer_only_for_suspects.

(* "... unless it first accepts a refutation (the peer stays)": the timeout callback checks under the lock, releases
   it, and applies its death claim at the incarnation it checked.  If the member's alive message at a higher
   incarnation is processed in between, the death claim is stale: nothing changes and the member is listed alive
   (the harness drives exactly this interleaving on the implementation, CoreCheck.check_split) *)
Theorem C06_refutation_before_death_claim : forall c s inc name addr meta vsn r from,
  lk s name = Some r -> name <> self c -> raddr r = addr -> (rinc r < inc)%N -> vsn_bad vsn = false ->
  let s' := fst (do_alive c s inc name addr meta vsn false) in
  do_dead c s' (rinc r) name from = (s', []) /\
  exists r', lk s' name = Some r' /\ rst r' = Alive /\ rinc r' = inc.
Proof. exact refutation_before_death_claim. Qed.
Print Assumptions C06_refutation_before_death_claim.

(* non-vacuity: the schedule table of SuspicionMult = 4, 1 s interval (k = 2, min 4 s, max 24 s) *)
Example C06_table_ok : T_ok (T_of [0; 11381000000; 4000000000] 4000000000) 2 4000000000 24000000000.
Proof.
  unfold T_ok, T_of. repeat split; try lia.
  - assert (n = 1 \/ n = 2) as [->| ->] by lia; vm_compute; discriminate.
  - assert (n = 1 \/ n = 2) as [->| ->] by lia; vm_compute; discriminate.
  - intros n m H1 H2. assert ((n = 1 /\ m = 1) \/ (n = 1 /\ m = 2) \/ (n = 2 /\ m = 2)) as [[-> ->]|[[-> ->]|[-> ->]]] by lia;
      vm_compute; discriminate.
Qed.

Example C06_run :
  let T := T_of [0; 11381000000; 4000000000] 4000000000 in
  let '(s, bs) := srun T (snew 0 2 4000000000 24000000000 0) [(1%N, 1000000000); (0%N, 2000000000); (1%N, 3000000000); (2%N, 5000000000); (3%N, 6000000000)] in
  bs = [true; false; false; true; false] /\ sdeadline s = 5000000000 /\ sfired s = true.
Proof. vm_compute. repeat split. Qed.
