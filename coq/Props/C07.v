(* C07 — membership events are a serialized, faithful log of Members(). *)
From Coq Require Import List NArith ZArith Bool.
Import ListNotations.
From VF Require Import Base Core Core_lemmas Core_inv Core_props.

(* [ev_ok v evs v'] (Proofs/Core_props.v): delivered in order from member set v, every join is of an
   absent member, every leave/update of a present one (the leave naming it as listed, the update
   changing something), and replaying them all gives exactly v'. *)

(* one operation (claim, timer expiries during a time advance, reaping, Leave, UpdateNode):
   its events turn the member set before into the member set after -- so no change of Members()
   happens without its event and no event without its change *)
Theorem C07_step_events : forall c, fixed c = true -> forall s o, FInv c s ->
  ev_ok (view s) (no_conflict (snd (step c s o))) (view (fst (step c s o))).
Proof. exact step_events. Qed.
Print Assumptions C07_step_events.

(* every history: replaying all events delivered so far yields the current member set *)
Theorem C07_log_equals_members : forall c, fixed c = true -> forall ops s, FInv c s -> run_ok c s ops ->
  ev_ok (view s) (no_conflict (concat (snd (run c s ops)))) (view (fst (run c s ops))).
Proof. exact run_events. Qed.
Print Assumptions C07_log_equals_members.

(* from boot: the log starts with the node's own join *)
Theorem C07_boot : forall c meta, is_allowed c (self_addr c) = true -> vsn_bad (self_vsn c) = false ->
  ev_ok (fun _ => None) [EvJoin (self c) (self_addr c) meta] (view (boot c meta)).
Proof.
  intros c meta Al Vb. rewrite boot_eq by assumption. cbn [ev_ok]. split; [reflexivity|].
  intro n. unfold upd, view, lk; cbn [recs alookup]. destruct (N.eqb n (self c)); reflexivity.
Qed.
Print Assumptions C07_boot.

(* Members() (a list) is the member set (names are unique in every reachable state) *)
Theorem C07_members_is_view : forall s n a m, keys_ok s ->
  (In (n, (a, m)) (members s) <-> view s n = Some (a, m)).
Proof. exact members_view. Qed.
Print Assumptions C07_members_is_view.

(* sequential composition, used above: grammar and replay compose over concatenation *)
Theorem C07_compose : forall e1 v v1 e2 v2, ev_ok v e1 v1 -> ev_ok v1 e2 v2 -> ev_ok v (e1 ++ e2) v2.
Proof. exact ev_ok_app. Qed.
Print Assumptions C07_compose.

Example C07_nonvacuous :
  let c := cfg_ex in
  let '(s, evs) := run c (boot c 1) [OAlive 1 1 1 0 [1;5;2;0;0;0]%N false; OAlive 2 1 1 2 [1;5;2;0;0;0]%N false;
                                    ODead 2 1 1; OAlive 3 1 2 0 [1;5;2;0;0;0]%N false] in
  concat evs = [EvJoin 1 1 0; EvUpdate 1 1 2; EvLeave 1 1 2; EvJoin 1 2 0] /\ members s = [(0, (0, 1)); (1, (2, 0))]%N.
Proof. vm_compute. split; reflexivity. Qed.
