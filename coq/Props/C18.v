(* C18 — the CIDR allowlist is enforced on every admission path.
   [is_allowed c a] is true when no allowlist is configured or [a] lies in it; the theorems are
   parametric in the list (the harness fills it with net.IPNet.Contains on the test addresses). *)
From Coq Require Import List NArith ZArith Bool.
Import ListNotations.
From VF Require Import Base Core Core_lemmas Core_inv Core_props.

(* in every reachable state, every record -- hence every member -- carries an allowed address *)
Theorem C18_records_allowed : forall c, fixed c = true -> forall ops s, FInv c s -> run_ok c s ops ->
  forall n r, lk (fst (run c s ops)) n = Some r -> is_allowed c (raddr r) = true.
Proof. intros c Hf ops s HI HR. exact (inv_allowed _ _ (proj1 (run_FInv c Hf ops s HI HR))). Qed.
Print Assumptions C18_records_allowed.

Theorem C18_members_allowed : forall c, fixed c = true -> forall ops s, FInv c s -> run_ok c s ops ->
  forall n a m, In (n, (a, m)) (members (fst (run c s ops))) -> is_allowed c a = true.
Proof.
  intros c Hf ops s HI HR n a m Hin. pose proof (run_FInv c Hf ops s HI HR) as [HI' K].
  apply (members_view _ _ _ _ K) in Hin. unfold view in Hin.
  destruct (lk (fst (run c s ops)) n) as [r|] eqn:L; [|discriminate].
  destruct (dead_or_left (rst r)); [discriminate|]. inversion Hin; subst. eapply (inv_allowed _ _ HI'). exact L.
Qed.
Print Assumptions C18_members_allowed.

(* every join / leave / update event of every operation announces an allowed address *)
Theorem C18_events_allowed : forall c, fixed c = true -> forall s o, FInv c s -> op_ok c s o ->
  Forall (ev_allowed c) (snd (step c s o)).
Proof. exact step_ev_allowed. Qed.
Print Assumptions C18_events_allowed.

(* alive gossip from a disallowed source address, or claiming a disallowed address, is ignored entirely *)
Theorem C18_source_gate : forall c s src inc name addr meta vsn,
  is_allowed c src = false \/ is_allowed c addr = false ->
  step c s (OHandleAlive src inc name addr meta vsn) = (s, []).
Proof. exact handle_alive_gate. Qed.
Print Assumptions C18_source_gate.

(* on every other path (push/pull entry, piggyback, address change, name reclaim): a claim whose
   address is disallowed and differs from what the node holds is a no-op *)
Theorem C18_no_disallowed_adoption : forall c s inc name addr meta vsn b,
  is_allowed c addr = false ->
  (forall r, alookup name (recs s) = Some r -> raddr r <> addr) ->
  do_alive c s inc name addr meta vsn b = (s, []).
Proof. exact alive_disallowed. Qed.
Print Assumptions C18_no_disallowed_adoption.

Example C18_nonvacuous :
  let c := mkCfg 0 0 [1;5;2;0;0;0]%N 0 30000000000 2 4000000000 6 [] 8 true true [0;1;2]%N true in
  let s := boot c 0 in
  is_allowed c 3 = false /\ do_alive c s 5 1 3 0 [] false = (s, []) /\
  fst (step c s (OHandleAlive 3 5 1 1 0 [])) = s /\
  members (fst (do_alive c s 5 1 1 0 [] false)) = [(0, (0, 0)); (1, (1, 0))]%N.
Proof. vm_compute. repeat split. Qed.
