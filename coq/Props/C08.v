(* C08 — graceful leave is final; a member's name and address cannot be hijacked. *)
From Coq Require Import List NArith ZArith Bool.
Import ListNotations.
From VF Require Import Base Core Core_lemmas Core_inv Core_props Exchange Heal_proofs Leave_proofs.

(* --- peers: a departure (dead message signed by the node itself) is recorded as Left --- *)
Theorem C08_peer_records_left : forall c s inc name r,
  name <> self c -> lk s name = Some r -> dead_or_left (rst r) = false -> (rinc r <= inc)%N ->
  let '(s', evs) := do_dead c s inc name name in
  lk s' name = Some (mkRec inc Left (raddr r) (rmeta r) (rvsn r) (now s))
  /\ evs = [EvLeave name (raddr r) (rmeta r)].
Proof. exact peer_records_left. Qed.
Print Assumptions C08_peer_records_left.

(* ... unless the peer remembers a newer incarnation (the exception in the property): C01_stale_dead *)

(* --- no resurrection: Left absorbs alive <= departure (same address), every suspect, every dead --- *)
Theorem C08_no_resurrection_alive : forall c s inc name meta vsn b r,
  lk s name = Some r -> rst r = Left -> (inc <= rinc r)%N -> name <> self c ->
  do_alive c s inc name (raddr r) meta vsn b = (s, []).
Proof. exact left_absorbing_alive. Qed.
Print Assumptions C08_no_resurrection_alive.

Theorem C08_no_resurrection_suspect : forall c s inc name from r,
  Inv c s -> lk s name = Some r -> rst r = Left -> do_suspect c s inc name from = (s, []).
Proof. exact left_absorbing_suspect. Qed.
Print Assumptions C08_no_resurrection_suspect.

Theorem C08_no_resurrection_dead : forall c s inc name from r,
  Inv c s -> lk s name = Some r -> rst r = Left -> do_dead c s inc name from = (s, []).
Proof. exact left_absorbing_dead. Qed.
Print Assumptions C08_no_resurrection_dead.

(* --- the leaver: after Leave has started, alive and suspect claims about itself are dropped
       (so its incarnation can no longer move and the departure cannot go stale: D-C08), and any
       dead claim it accepts about itself is recorded and announced as its own departure (D-C08b) --- *)
Theorem C08_leaving_alive_dropped : forall c s inc addr meta vsn b,
  leaving s = true -> do_alive c s inc (self c) addr meta vsn b = (s, []).
Proof. exact leaving_alive_dropped. Qed.
Print Assumptions C08_leaving_alive_dropped.

Theorem C08_leave_atomic : forall c, fixed c = true -> forall s inc from r,
  Inv c s -> leaving s = true -> lk s (self c) = Some r -> rst r <> Suspect ->
  do_suspect c s inc (self c) from = (s, []).
Proof. exact leaving_suspect_dropped. Qed.
Print Assumptions C08_leave_atomic.

Theorem C08_leave_commit_left : forall c, fixed c = true -> forall s inc from r,
  Inv c s -> leaving s = true -> lk s (self c) = Some r -> dead_or_left (rst r) = false -> (rinc r <= inc)%N ->
  let '(s', evs) := do_dead c s inc (self c) from in
  lk s' (self c) = Some (mkRec inc Left (raddr r) (rmeta r) (rvsn r) (now s))
  /\ alookup (kname (self c)) (bq s') = Some (BDead inc (self c) (self c))
  /\ evs = [EvLeave (self c) (raddr r) (rmeta r)].
Proof. exact leaving_dead_is_departure. Qed.
Print Assumptions C08_leave_commit_left.

(* --- address conflicts: a different address for an alive, suspect or not-yet-reclaimable dead
       member changes nothing; only the conflict delegate (if any) is told --- *)
Theorem C08_conflict : forall c s inc name addr meta vsn b r,
  negb (leaving s && N.eqb name (self c)) = true -> vsn_bad vsn = false ->
  alookup name (recs s) = Some r -> raddr r <> addr -> is_allowed c addr = true ->
  can_replace c s r = false ->
  do_alive c s inc name addr meta vsn b =
  (s, if has_conflict c then [EvConflict name (raddr r) addr] else []).
Proof. exact alive_conflict. Qed.
Print Assumptions C08_conflict.

(* [can_replace] is exactly: Left, or Dead with a positive reclaim time that has elapsed *)
Theorem C08_can_replace_spec : forall c s r,
  can_replace c s r = true <->
  (rst r = Left \/ (rst r = Dead /\ (0 < reclaim c)%Z /\ (reclaim c < now s - rsince r)%Z)).
Proof.
  intros c s r. unfold can_replace. destruct (rst r); cbn; split; intro H;
    try discriminate; try (destruct H as [H|[H _]]; discriminate); auto.
  - right. apply andb_true_iff in H. destruct H as [H1 H2]. apply Z.ltb_lt in H1. apply Z.ltb_lt in H2. auto.
  - destruct H as [H|[_ [H1 H2]]]; [discriminate|]. apply andb_true_iff. split; apply Z.ltb_lt; assumption.
Qed.
Print Assumptions C08_can_replace_spec.

(* --- name reuse from a new allowed address: accepted at any incarnation, at once for Left,
       for Dead only after the reclaim time --- *)
Theorem C08_reclaim : forall c s inc name addr meta vsn r,
  name <> self c -> vsn_bad vsn = false -> lk s name = Some r -> raddr r <> addr -> is_allowed c addr = true ->
  can_replace c s r = true ->
  let '(s', evs) := do_alive c s inc name addr meta vsn false in
  lk s' name = Some (mkRec inc Alive addr meta (if (6 <=? length vsn)%nat then firstn 6 vsn else rvsn r) (now s))
  /\ evs = [EvJoin name addr meta].
Proof. exact reclaim_accepted. Qed.
Print Assumptions C08_reclaim.

(* the defect of the pinned tree (D-C08), as a witness on the unrepaired model: Leave's flag,
   then a suspicion about ourselves, then Leave's own dead message: the node stays alive *)
Example C08_leave_race_refuted :
  let c := mkCfg 0 0 [1;5;2;0;0;0]%N 0 30000000000 2 4000000000 6 [] 8 true false [] false in
  let s := fst (run c (boot c 1) [OLeaveBegin; OSuspect 1 0 1; OLeaveCommit 1]) in
  leaving s = true /\ exists r, lk s 0 = Some r /\ rst r = Alive /\ rinc r = 2%N /\ alookup (kname 0) (bq s) = Some (BAlive 1 0 0 1 [1;5;2;0;0;0]%N).
Proof. vm_compute. split; [reflexivity|]. eexists. repeat split. Qed.

(* the same history on the repaired model: the node has left *)
Example C08_leave_race_fixed :
  let c := cfg_ex in
  let s := fst (run c (boot c 1) [OLeaveBegin; OSuspect 1 0 1; OLeaveCommit 1]) in
  exists r, lk s 0 = Some r /\ rst r = Left /\ alookup (kname 0) (bq s) = Some (BDead 1 0 0).
Proof. vm_compute. eexists. repeat split. Qed.

(* ---------- whole histories ---------- *)
(* Leave on a running node that lists itself: flag set, own record Left at the incarnation it had, no
   suspicion timer about itself *)
Theorem C08_leave_reaches_left : forall c, fixed c = true -> forall s r w,
  Inv c s -> leaving s = false -> lk s (self c) = Some r -> rst r = Alive ->
  exists r', Gone c (fst (step c s (OLeave w))) r' /\ rinc r' = rinc r.
Proof. exact leave_is_gone. Qed.
Print Assumptions C08_leave_reaches_left.

(* ... and from then on NO operation and no sequence of operations — alive, suspect or dead claims about
   itself or anybody else by gossip or push/pull, at any incarnation, from any address; timers; reaping
   (the own record is kept); UpdateNode, a second Leave — changes its own record or clears the flag: the
   node never lists itself again, whatever arrives and in whatever order *)
Theorem C08_left_is_final : forall c, fixed c = true -> forall ops s r,
  Gone c s r -> Gone c (fst (run c s ops)) r /\ listed (fst (run c s ops)) (self c) = None.
Proof. exact gone_run. Qed.
Print Assumptions C08_left_is_final.

Theorem C08_left_is_final_step : forall c, fixed c = true -> forall s r o, Gone c s r -> Gone c (fst (step c s o)) r.
Proof. exact gone_step. Qed.
Print Assumptions C08_left_is_final_step.

(* the leaver's own queued messages: in every state of every history from boot, every alive message about
   the node itself that sits in its broadcast queue carries at most the incarnation of its own record.
   Once that record is the departure (Left at i) every such message is therefore no newer than the
   departure, and by C08_no_resurrection_alive a peer that recorded the departure ignores it — in whatever
   order the refutation's alive message (queued under the address key, which the departure does not
   supersede) and the departure are transmitted *)
Theorem C08_own_alive_not_newer : forall c, fixed c = true -> forall meta ops,
  is_allowed c (self_addr c) = true -> vsn_bad (self_vsn c) = false -> run_ok c (boot c meta) ops ->
  forall k i a m v, In (k, BAlive i (self c) a m v) (bq (fst (run c (boot c meta) ops))) ->
  exists r, lk (fst (run c (boot c meta) ops)) (self c) = Some r /\ (i <= rinc r)%N.
Proof.
  intros c Hf meta ops Al Vb HR. apply (Q_run c Hf ops (boot c meta)); [apply boot_FInv; assumption | exact HR | apply Q_boot; assumption].
Qed.
Print Assumptions C08_own_alive_not_newer.

Theorem C08_own_alive_step : forall c, fixed c = true -> forall s o, FInv c s -> op_ok c s o -> QInv c s -> QInv c (fst (step c s o)).
Proof. exact Q_step. Qed.
Print Assumptions C08_own_alive_step.

(* non-vacuity: the node is accused (refutes: incarnation 2, alive message queued under its address key),
   updates its metadata (incarnation 3), leaves (Left at 3, departure queued under its name), and is then
   hit by its own old alive message, an accusation, a death claim, a newer alive about itself from another
   address, a reap after a long time and a second Leave: nothing changes; both queued alive messages are
   below the departure *)
Example C08_history_nonvacuous :
  let c := cfg_ex in
  let ops1 := [OSuspect 1 0 7; OUpdate 5 0; OLeave 0] in
  let ops2 := [OAlive 3 0 0 5 [1;5;2;0;0;0]%N false; OSuspect 9 0 7; ODead 9 0 7; OAlive 9 0 4 6 [1;5;2;0;0;0]%N false;
               OAdvance 100000000000; OReap; OLeave 0; OUpdate 8 0] in
  run_ok c (boot c 1) (ops1 ++ ops2) /\
  (exists r, Gone c (fst (run c (boot c 1) ops1)) r /\ rinc r = 3%N) /\
  (let s := fst (run c (boot c 1) (ops1 ++ ops2)) in
   listed s 0 = None /\
   map (fun e => match snd e with BAlive i n _ _ _ => (1%N, i, n) | BSuspect i n _ => (2%N, i, n) | BDead i n _ => (3%N, i, n) end) (bq s)
     = [(3, 3, 0); (1, 2, 0)]%N).
Proof.
  cbv zeta. split; [|split].
  - apply run_okb_ok. vm_compute. reflexivity.
  - eexists. unfold Gone, no_live. vm_compute. repeat split; reflexivity.
  - vm_compute. split; reflexivity.
Qed.
