(* C08 — graceful leave is final; a member's name and address cannot be hijacked. *)
From Coq Require Import List NArith ZArith Bool.
Import ListNotations.
From VF Require Import Base Core Core_lemmas Core_inv Core_props.

(* --- peers: a departure (dead message signed by the node itself) is recorded as Left --- *)
Theorem C08_peer_records_left : forall c s inc name r,
  name <> self c -> lk s name = Some r -> dead_or_left (rst r) = false -> (rinc r <= inc)%N ->
  let '(s', evs) := do_dead c s inc name name in
  lk s' name = Some (mkRec inc Left (raddr r) (rmeta r) (rvsn r) (now s))
  /\ evs = [EvLeave name (raddr r) (rmeta r)].
Proof. exact peer_records_left. Qed.
Print Assumptions C08_peer_records_left.

(* ... unless the peer remembers a newer incarnation (the exception in the property): C01_stale_dead *)

(* --- no resurrection: Left absorbs alive <= departure (same address), every suspect, every dead --- *)
Theorem C08_no_resurrection_alive : forall c s inc name meta vsn b r,
  lk s name = Some r -> rst r = Left -> (inc <= rinc r)%N -> name <> self c ->
  do_alive c s inc name (raddr r) meta vsn b = (s, []).
Proof. exact left_absorbing_alive. Qed.
Print Assumptions C08_no_resurrection_alive.

Theorem C08_no_resurrection_suspect : forall c s inc name from r,
  Inv c s -> lk s name = Some r -> rst r = Left -> do_suspect c s inc name from = (s, []).
Proof. exact left_absorbing_suspect. Qed.
Print Assumptions C08_no_resurrection_suspect.

Theorem C08_no_resurrection_dead : forall c s inc name from r,
  Inv c s -> lk s name = Some r -> rst r = Left -> do_dead c s inc name from = (s, []).
Proof. exact left_absorbing_dead. Qed.
Print Assumptions C08_no_resurrection_dead.

(* --- the leaver: after Leave has started, alive and suspect claims about itself are dropped
       (so its incarnation can no longer move and the departure cannot go stale: D-C08), and any
       dead claim it accepts about itself is recorded and announced as its own departure (D-C08b) --- *)
Theorem C08_leaving_alive_dropped : forall c s inc addr meta vsn b,
  leaving s = true -> do_alive c s inc (self c) addr meta vsn b = (s, []).
Proof. exact leaving_alive_dropped. Qed.
Print Assumptions C08_leaving_alive_dropped.

Theorem C08_leave_atomic : forall c, fixed c = true -> forall s inc from r,
  Inv c s -> leaving s = true -> lk s (self c) = Some r -> rst r <> Suspect ->
  do_suspect c s inc (self c) from = (s, []).
Proof. exact leaving_suspect_dropped. Qed.
Print Assumptions C08_leave_atomic.

Theorem C08_leave_commit_left : forall c, fixed c = true -> forall s inc from r,
  Inv c s -> leaving s = true -> lk s (self c) = Some r -> dead_or_left (rst r) = false -> (rinc r <= inc)%N ->
  let '(s', evs) := do_dead c s inc (self c) from in
  lk s' (self c) = Some (mkRec inc Left (raddr r) (rmeta r) (rvsn r) (now s))
  /\ alookup (kname (self c)) (bq s') = Some (BDead inc (self c) (self c))
  /\ evs = [EvLeave (self c) (raddr r) (rmeta r)].
Proof. exact leaving_dead_is_departure. Qed.
Print Assumptions C08_leave_commit_left.

(* --- address conflicts: a different address for an alive, suspect or not-yet-reclaimable dead
       member changes nothing; only the conflict delegate (if any) is told --- *)
Theorem C08_conflict : forall c s inc name addr meta vsn b r,
  negb (leaving s && N.eqb name (self c)) = true -> vsn_bad vsn = false ->
  alookup name (recs s) = Some r -> raddr r <> addr -> is_allowed c addr = true ->
  can_replace c s r = false ->
  do_alive c s inc name addr meta vsn b =
  (s, if has_conflict c then [EvConflict name (raddr r) addr] else []).
Proof. exact alive_conflict. Qed.
Print Assumptions C08_conflict.

(* [can_replace] is exactly: Left, or Dead with a positive reclaim time that has elapsed *)
Theorem C08_can_replace_spec : forall c s r,
  can_replace c s r = true <->
  (rst r = Left \/ (rst r = Dead /\ (0 < reclaim c)%Z /\ (reclaim c < now s - rsince r)%Z)).
Proof.
  intros c s r. unfold can_replace. destruct (rst r); cbn; split; intro H;
    try discriminate; try (destruct H as [H|[H _]]; discriminate); auto.
  - right. apply andb_true_iff in H. destruct H as [H1 H2]. apply Z.ltb_lt in H1. apply Z.ltb_lt in H2. auto.
  - destruct H as [H|[_ [H1 H2]]]; [discriminate|]. apply andb_true_iff. split; apply Z.ltb_lt; assumption.
Qed.
Print Assumptions C08_can_replace_spec.

(* --- name reuse from a new allowed address: accepted at any incarnation, at once for Left,
       for Dead only after the reclaim time --- *)
Theorem C08_reclaim : forall c s inc name addr meta vsn r,
  name <> self c -> vsn_bad vsn = false -> lk s name = Some r -> raddr r <> addr -> is_allowed c addr = true ->
  can_replace c s r = true ->
  let '(s', evs) := do_alive c s inc name addr meta vsn false in
  lk s' name = Some (mkRec inc Alive addr meta (if (6 <=? length vsn)%nat then firstn 6 vsn else rvsn r) (now s))
  /\ evs = [EvJoin name addr meta].
Proof. exact reclaim_accepted. Qed.
Print Assumptions C08_reclaim.

(* the defect of the pinned tree (D-C08), as a witness on the unrepaired model: Leave's flag,
   then a suspicion about ourselves, then Leave's own dead message: the node stays alive *)
Example C08_leave_race_refuted :
  let c := mkCfg 0 0 [1;5;2;0;0;0]%N 0 30000000000 2 4000000000 6 [] 8 true false [] false in
  let s := fst (run c (boot c 1) [OLeaveBegin; OSuspect 1 0 1; OLeaveCommit 1]) in
  leaving s = true /\ exists r, lk s 0 = Some r /\ rst r = Alive /\ rinc r = 2%N /\ alookup (kname 0) (bq s) = Some (BAlive 1 0 0 1 [1;5;2;0;0;0]%N).
Proof. vm_compute. split; [reflexivity|]. eexists. repeat split. Qed.

(* the same history on the repaired model: the node has left *)
Example C08_leave_race_fixed :
  let c := cfg_ex in
  let s := fst (run c (boot c 1) [OLeaveBegin; OSuspect 1 0 1; OLeaveCommit 1]) in
  exists r, lk s 0 = Some r /\ rst r = Left /\ alookup (kname 0) (bq s) = Some (BDead 1 0 0).
Proof. vm_compute. eexists. repeat split. Qed.
