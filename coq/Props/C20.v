(* C20 — lifecycle safety.  Models: Model/Lifecycle.v (API x lifecycle stage), Model/Core.v (why the
   accessors cannot fail: the own record is never reaped).  Data races, deadlocks and goroutine
   termination are runtime behaviours: observed by the harness (-race stress, bubble exit), not proved. *)
From Coq Require Import List NArith ZArith Bool.
Import ListNotations.
From VF Require Import Base Lifecycle Lifecycle_proofs Core Core_lemmas Core_inv Core_props.

(* over every sequence of public calls and background steps (time passing, reaping) that does not
   call Leave after Shutdown, no call panics *)
Theorem C20_no_panic : forall cs s, self_present s = true -> allowed_seq (shut s) cs = true ->
  Forall (fun r => lpanic r = false) (snd (lrun true s cs)).
Proof. exact no_panic. Qed.
Print Assumptions C20_no_panic.

Theorem C20_shutdown_idempotent : forall s, let s1 := fst (lstep true s LShutdown) in lstep true s1 LShutdown = (s1, mkLR false false).
Proof. exact shutdown_idempotent. Qed.
Print Assumptions C20_shutdown_idempotent.

Theorem C20_leave_idempotent : forall s, shut s = false -> self_present s = true ->
  let s1 := fst (lstep true s LLeave) in lstep true s1 LLeave = (s1, mkLR false false).
Proof. exact leave_idempotent. Qed.
Print Assumptions C20_leave_idempotent.

(* Shutdown closes the transport first; afterwards no call uses the network *)
Theorem C20_silent_after_shutdown : forall cs s, shut s = true -> transport_open s = false ->
  Forall (fun r => lsent r = false) (snd (lrun true s cs)).
Proof. exact silent_after_shutdown. Qed.
Print Assumptions C20_silent_after_shutdown.

Theorem C20_shutdown_closes_transport : forall s, let s1 := fst (lstep true s LShutdown) in shut s1 = true /\ transport_open s1 = false.
Proof. exact shutdown_closes_transport. Qed.
Print Assumptions C20_shutdown_closes_transport.

(* the membership model: the node's own record survives every operation, in particular every reaping
   pass after it has left and aged out *)
Theorem C20_self_record_kept : forall c, fixed c = true -> forall s o r,
  FInv c s -> op_ok c s o -> lk s (self c) = Some r -> exists r', lk (fst (step c s o)) (self c) = Some r'.
Proof. exact self_record_kept. Qed.
Print Assumptions C20_self_record_kept.

(* the defects of the pinned tree *)
Theorem C20_localnode_refuted :
  map lpanic (snd (lrun false l0 [LLeave; LAdvance; LReap; LLocalNode; LUpdateNode])) = [false; false; false; true; true].
Proof. exact localnode_refuted. Qed.
Print Assumptions C20_localnode_refuted.

Theorem C20_dial_after_shutdown_refuted : map lsent (snd (lrun false l0 [LShutdown; LSendReliable])) = [false; true].
Proof. exact dial_after_shutdown_refuted. Qed.
Print Assumptions C20_dial_after_shutdown_refuted.
