(* C04 — no false suspicion in a healthy cluster (placeholder header; theorems below). *)
From Coq Require Import List NArith ZArith Bool.
Import ListNotations.
From VF Require Import Base Probe Probe_proofs.
Local Open Scope Z_scope.

(* an acknowledgement with the probe's own sequence number that arrives before the scaled interval
   ends makes the probe succeed, whatever else arrives *)
Theorem C04_ack_in_time_success : forall pi, p_send pi <> 2 ->
  (probe_outcome pi = Answered <->
   (exists t, In (Ack (p_seq pi) t) (p_arrivals pi) /\ t < p_interval pi) \/ tcp_contact pi = true).
Proof. exact answered_iff. Qed.
Print Assumptions C04_ack_in_time_success.

(* the health score cannot leave its range and only moves in the direction of the delta *)
Theorem C04_score_range : forall mx score delta, 1 <= mx -> 0 <= apply_delta mx score delta <= mx - 1.
Proof. exact score_range. Qed.
Print Assumptions C04_score_range.
