(* C04 — no false suspicion in a healthy cluster.
   Models: Model/Core.v (one node), Model/Cluster.v (N nodes + everything ever put on the network),
   Model/Probe.v (why a probe of a responsive member succeeds). *)
From Coq Require Import List NArith ZArith Bool.
Import ListNotations.
From VF Require Import Base Core Core_lemmas Core_inv Healthy_proofs Cluster Cluster_proofs Agree_proofs Agree_cluster Probe Probe_proofs.

(* The healthy cluster: nodes booted from good configurations with distinct names, an empty network,
   and then ANY interleaving of gossip transmissions, push/pull snapshots (joins are push/pulls),
   deliveries of anything ever sent — any number of times, in any order, or never —, UpdateNode, Leave,
   the passage of time and reaping.  There is no failed-probe step (see C04_ack_in_time_success).
   Then, in every reachable state and for all events delivered on the way:
   no node has a suspicion timer, no record is Suspect or Dead, no suspect message and no dead message
   signed by somebody else is queued anywhere or on the network, no snapshot entry is Suspect/Dead, and the
   only leave events are for members that have called Leave.  Incarnations are assumed to stay below
   2^32-1 ([run_ok]), the bound also present in C02. *)
Theorem C04_no_accusation : forall cs acts,
  Forall (fun cm => good_cfg (fst cm)) cs -> NoDup (map (fun cm => self (fst cm)) cs) ->
  run_ok (boot_world cs) acts ->
  let '(w, evs) := wrun (boot_world cs) acts in
  (forall c s, In (c, s) (wnodes w) ->
      timers s = [] /\
      (forall n r, lk s n = Some r -> rst r <> Suspect /\ rst r <> Dead) /\
      (forall k m, In (k, m) (bq s) -> accusation (PB m) = false)) /\
  (forall p, In p (wpool w) -> accusation p = false) /\
  (forall e, In e evs -> match e with
                         | EvLeave n _ _ => departed w n = true
                         | EvPanic => False
                         | _ => True
                         end).
Proof. exact no_accusation_ever. Qed.
Print Assumptions C04_no_accusation.

(* one step of one node, for any set [dep] of departed names: the inductive core of the above *)
Theorem C04_step_clean : forall dep c, fixed c = true -> forall s o,
  clean dep c s -> benign dep c s o ->
  let '(s', evs) := step c s o in
  clean dep c s' /\ Forall (ev_quiet dep) evs /\ (leaving s = true -> leaving s' = true)
  /\ match o with OLeave _ => leaving s' = true | _ => True end.
Proof. exact step_clean. Qed.
Print Assumptions C04_step_clean.

(* "every node's health score stays at zero": in every reachable state of the healthy cluster.  The
   invariant behind it ([AW]): every alive claim about a member — held, queued or in flight anywhere — is an
   echo of that member's own record or older than it, so no node ever has anything to refute.
   [good_cfg6] adds to [good_cfg] that the node's own version vector has its six bytes. *)
Theorem C04_scores_stay_zero : forall cs acts,
  Forall (fun cm => good_cfg6 (fst cm)) cs -> NoDup (map (fun cm => self (fst cm)) cs) ->
  run_ok (boot_world cs) acts ->
  forall c s, In (c, s) (wnodes (fst (wrun (boot_world cs) acts))) -> score s = 0%Z.
Proof. exact scores_stay_zero. Qed.
Print Assumptions C04_scores_stay_zero.

(* its inductive step: one action of the cluster keeps [AW] *)
Theorem C04_agreement_step : forall w a, AW w -> act_ok w a -> AW (fst (wstep w a)).
Proof. exact wstep_AW. Qed.
Print Assumptions C04_agreement_step.

(* and for one node: fed only echoes of, or claims older than, its own record it never refutes; its score
   does not move; what it holds afterwards it held before, was fed, or is its own new announcement *)
Theorem C04_step_agree : forall dep c, fixed c = true -> length (self_vsn c) = 6%nat -> forall s o,
  clean dep c s -> own_inc c s -> left_inv c s -> benign dep c s o -> agreeable c s o ->
  agree_step c s (fst (step c s o)) o.
Proof. exact step_agree. Qed.
Print Assumptions C04_step_agree.

(* why there is no failed-probe step: an acknowledgement with the probe's own sequence number that
   arrives before the scaled interval ends makes the probe succeed, whatever else arrives *)
Theorem C04_ack_in_time_success : forall pi, (p_send pi <> 2)%Z ->
  (probe_outcome pi = Answered <->
   (exists t, In (Ack (p_seq pi) t) (p_arrivals pi) /\ (t < p_interval pi)%Z) \/ tcp_contact pi = true).
Proof. exact answered_iff. Qed.
Print Assumptions C04_ack_in_time_success.

Theorem C04_score_range : forall mx score delta, (1 <= mx -> 0 <= apply_delta mx score delta <= mx - 1)%Z.
Proof. exact score_range. Qed.
Print Assumptions C04_score_range.

(* non-vacuity: three nodes; gossip, snapshots, deliveries (some twice), an UpdateNode, a Leave, time, a reap *)
Definition cfgn (n : N) : cfg :=
  mkCfg n n [1;5;2;0;0;0]%N 0 30000000000 2 4000000000 6 [24000000000;11381000000;4000000000]%Z 8 true false [] true.
Definition sched : list wact :=
  [WGossip 0; WDeliver 1 0; WSnapshot 1; WDeliver 2 0; WDeliver 2 1; WSnapshot 2; WDeliver 0 0; WDeliver 0 1; WDeliver 0 2;
   WUpdate 1 21%N 100; WGossip 1; WDeliver 0 0; WDeliver 0 1; WLeave 2 100; WGossip 2; WDeliver 0 0; WDeliver 0 1;
   WDeliver 0 2; WDeliver 0 3; WAdvance 0 50000000000; WReap 0].
Example C04_nonvacuous :
  let cs := [(cfgn 1, 10%N); (cfgn 2, 20%N); (cfgn 3, 30%N)] in
  Forall (fun cm => good_cfg6 (fst cm)) cs /\ NoDup (map (fun cm => self (fst cm)) cs) /\
  run_ok (boot_world cs) sched /\
  let '(w, evs) := wrun (boot_world cs) sched in
  map (fun cs => members (snd cs)) (wnodes w) =
    [[(1, (1, 10)); (2, (2, 21))]; [(2, (2, 21)); (1, (1, 10))]; [(2, (2, 20)); (1, (1, 10))]]%N /\
  evs = [EvJoin 1 1 10; EvJoin 2 2 20; EvJoin 1 1 10; EvJoin 3 3 30; EvJoin 2 2 20; EvUpdate 2 2 21;
         EvUpdate 2 2 21; EvLeave 3 3 30; EvLeave 3 3 30]%N.
Proof.
  cbv zeta. split; [|split; [|split]].
  - repeat constructor.
  - cbn. repeat constructor; cbn; intuition discriminate.
  - vm_compute. repeat split.
  - vm_compute. split; reflexivity.
Qed.
