(* C17 — keyring integrity and zero-downtime key rotation.
   Model: Model/Keyring.v (backing arrays explicit, so that Go slice aliasing is expressible). *)
From Coq Require Import List NArith ZArith Bool.
Import ListNotations.
From VF Require Import Base Keyring Keyring_proofs.

(* every sequence of AddKey/UseKey/RemoveKey/GetKeys/GetPrimaryKey with any keys keeps the ring
   duplicate-free, made of valid-length keys only, with the primary (head) installed *)
Theorem C17_inv_all_histories : forall valid fixed ops s,
  RingInv valid s -> RingInv valid (fst (krun valid fixed s ops)).
Proof. exact krun_inv. Qed.
Print Assumptions C17_inv_all_histories.

Theorem C17_step_inv : forall valid fixed s o, RingInv valid s -> RingInv valid (fst (kstep valid fixed s o)).
Proof. exact kstep_inv. Qed.
Print Assumptions C17_step_inv.

(* no call panics (repaired code) *)
Theorem C17_no_panic : forall valid ops s, Forall (fun x => kres x <> 2%N) (snd (krun valid true s ops)).
Proof. exact krun_no_panic. Qed.
Print Assumptions C17_no_panic.

(* a key list handed out by GetKeys is never altered by later calls (repaired code):
   every backing array that exists keeps its content over every history *)
Theorem C17_returned_lists_immutable : forall valid ops s h, h < length (arrs s) ->
  nth h (arrs (fst (krun valid true s ops))) [] = nth h (arrs s) [].
Proof. exact krun_arrays_frozen. Qed.
Print Assumptions C17_returned_lists_immutable.

(* exact error conditions and effects (by computation on the model's definition) *)
Theorem C17_remove_primary_refused : forall valid fixed s p r, ring s = p :: r ->
  kstep valid fixed s (KRemove p) = (s, mkKO 1 [] None).
Proof. intros valid fixed s p r E. cbn [kstep]. rewrite E, N.eqb_refl. reflexivity. Qed.
Print Assumptions C17_remove_primary_refused.

Theorem C17_use_requires_installed : forall valid fixed s k, Nmem k (ring s) = false ->
  kstep valid fixed s (KUse k) = (s, mkKO 1 [] None).
Proof. intros valid fixed s k E. cbn [kstep]. rewrite E. reflexivity. Qed.
Print Assumptions C17_use_requires_installed.

Theorem C17_invalid_key_refused : forall valid fixed s k, valid k = false ->
  kstep valid fixed s (KAdd k) = (s, mkKO 1 [] None).
Proof. intros valid fixed s k E. cbn [kstep]. rewrite E. reflexivity. Qed.
Print Assumptions C17_invalid_key_refused.

(* rotation: with a barrier between the phases, in whatever order the nodes perform each phase,
   every node's primary key is installed on every node *)
Theorem C17_rotation_safe : forall old new ps, old <> new -> window_ok ps ->
  forall pi pj, In pi ps -> In pj ps ->
  exists prim, hd_error (ring_at_phase old new pi) = Some prim /\ In prim (ring_at_phase old new pj).
Proof. exact rotation_safe. Qed.
Print Assumptions C17_rotation_safe.

(* the defects of the pinned tree *)
Theorem C17_alias_refuted :
  let '(s, xs) := krun vtrue false (mkK [[1; 2; 3]%N] 0) [KGetKeys; KRemove 2] in
  nth 0 (arrs s) [] = [1; 3; 3]%N /\ ring s = [1; 3]%N.
Proof. exact alias_refuted. Qed.
Print Assumptions C17_alias_refuted.

Theorem C17_remove_empty_refuted :
  map kres (snd (krun vtrue false (mkK [[]] 0) [KRemove 1])) = [2%N].
Proof. exact remove_empty_refuted. Qed.
Print Assumptions C17_remove_empty_refuted.

Example C17_nonvacuous : RingInv vtrue (mkK [[1; 2; 3]%N] 0) /\ window_ok [1; 2; 2; 1].
Proof.
  split.
  - unfold RingInv, ring; cbn. repeat split; try lia. repeat constructor; cbn; intuition discriminate. repeat constructor.
  - right. left. repeat constructor; lia.
Qed.
