(* Agree_cluster.v — C04, the health score, for the whole healthy cluster: every alive claim about a
   member — wherever it is held, queued or in flight — is an echo of that member's own record or
   older than it.  Hence no node ever has to refute anything, and every health score stays at zero. *)
From Coq Require Import List NArith ZArith Bool Lia.
Import ListNotations.
From VF Require Import Base Core Core_lemmas Core_inv Healthy_proofs Cluster Cluster_proofs Agree_proofs.
Local Open Scope Z_scope.

Definition pool_claim (p : pmsg) : option aclaim :=
  match p with
  | PB (BAlive inc n a m v) | PS Alive inc n a m v => Some (mkA n inc a m v)
  | _ => None
  end.

Definition world_holds (w : world) (a : aclaim) : Prop :=
  (exists c s, In (c, s) (wnodes w) /\ holds s a) \/ (exists p, In p (wpool w) /\ pool_claim p = Some a).

Record AW (w : world) : Prop := mkAW {
  aw_wi : WI w;
  aw_nodes : forall c s, In (c, s) (wnodes w) ->
               length (self_vsn c) = 6%nat /\ own_inc c s /\ left_inv c s /\ score s = 0;
  aw_len : forall a, world_holds w a -> length (a_vsn a) = 6%nat;
  aw_agree : forall a, world_holds w a -> forall c s r, In (c, s) (wnodes w) -> self c = a_name a ->
               lk s (self c) = Some r -> eos r a }.

Lemma eos_same r r' a : same_fields r r' -> eos r a -> eos r' a.
Proof. intros [E1 [E2 [E3 E4]]] [H|[H1 [H2 [H3 H4]]]]; [left; lia | right; repeat split; congruence]. Qed.

Lemma eos_newer r r' a : (rinc r < rinc r')%N -> eos r a -> eos r' a.
Proof. intros Lt [H|[H1 _]]; left; lia. Qed.

Lemma In_upd_idx {A} (f : A -> A) : forall l i x, In x (upd i f l) ->
  (exists j, j <> i /\ nth_error l j = Some x) \/ (exists y, nth_error l i = Some y /\ x = f y).
Proof.
  induction l as [|y l IH]; intros i x H; cbn in H; [destruct i; contradiction|].
  destruct i as [|i]; cbn in H.
  - destruct H as [<-|H]; [right; exists y; split; reflexivity|].
    left. destruct (In_nth_error _ _ H) as [j Hj]. exists (S j). split; [discriminate | exact Hj].
  - destruct H as [<-|H]; [left; exists 0%nat; split; [discriminate | reflexivity]|].
    destruct (IH i x H) as [[j [Hj1 Hj2]]|[z [H1 H2]]].
    + left. exists (S j). split; [intro E; apply Hj1; inversion E; reflexivity | exact Hj2].
    + right. exists z. split; assumption.
Qed.

(* distinct names: a name sits at one index only *)
Lemma name_index w i j c1 s1 c2 s2 :
  NoDup (names w) -> nth_error (wnodes w) i = Some (c1, s1) -> nth_error (wnodes w) j = Some (c2, s2) ->
  self c1 = self c2 -> i = j.
Proof.
  intros ND Hi Hj E. unfold names in ND.
  assert (Li : (i < length (map (fun cs => self (fst cs)) (wnodes w)))%nat).
  { rewrite map_length. apply nth_error_Some. rewrite Hi. discriminate. }
  apply (proj1 (NoDup_nth_error _) ND i j Li).
  rewrite !nth_error_map, Hi, Hj. cbn. rewrite E. reflexivity.
Qed.

(* ---------- one Core operation at one node ---------- *)
Lemma at_node_AW w i o c s :
  AW w -> nth_error (wnodes w) i = Some (c, s) ->
  (forall dep', (forall n, departed w n = true -> dep' n = true) ->
                (match o with OLeave _ => dep' (self c) = true | _ => True end) ->
                benign dep' c s o) ->
  agreeable c s o ->
  (forall a, op_claim o = Some a -> world_holds w a) ->
  AW (fst (at_node w i o)).
Proof.
  intros [HW Hn Hl Ha] Hi Hb Hag Hop.
  pose proof (at_node_WI w i o c s HW Hi Hb) as P.
  assert (Hin : In (c, s) (wnodes w)) by (eapply nth_error_In; exact Hi).
  destruct (Hn c s Hin) as [Hv [Hoi [Hli Hsc]]].
  pose proof HW as [Wn Wp Wu]. destruct (Wn c s Hin) as [Hf Hc].
  (* the node-level step, with an admissible set of departed names *)
  pose (dep0 := fun n => departed w n || N.eqb n (self c)).
  assert (M0 : forall n, departed w n = true -> dep0 n = true) by (intros n H; unfold dep0; rewrite H; reflexivity).
  assert (B0 : benign dep0 c s o).
  { apply Hb; [exact M0|]. destruct o; auto. unfold dep0. rewrite N.eqb_refl. apply orb_true_r. }
  pose proof (step_agree dep0 c Hf Hv s o (clean_mono _ _ c s M0 Hc) Hoi Hli B0 Hag) as [S1 S2 S3 S4 S5].
  unfold at_node in *. rewrite Hi in *. destruct (step c s o) as [s' evs] eqn:Est. cbn [fst] in *.
  destruct P as [PW _].
  set (w' := mkW (upd i (fun _ => (c, s')) (wnodes w)) (wpool w)) in *.
  (* what the new world holds: what the old one held, or node i's new announcement (echoed by its record) *)
  assert (Hold : forall a, world_holds w' a -> world_holds w a \/
            (a_name a = self c /\ a_vsn a = self_vsn c /\ exists r', lk s' (self c) = Some r' /\ rec_claim (self c) r' = a)).
  { intros a [[c0 [s0 [H0 Hh]]]|[p [Hp Hc']]].
    - destruct (In_upd_idx (fun _ => (c, s')) (wnodes w) i (c0, s0) H0) as [[j [Hj1 Hj2]]|[y [K1 K2]]].
      + left. left. exists c0, s0. split; [eapply nth_error_In; exact Hj2 | exact Hh].
      + inversion K2; subst c0 s0. destruct (S1 a Hh) as [H|[H|[meta [wt [r0 [r' [_ [_ [Ea [Lr' Ec]]]]]]]]]].
        * left. left. exists c, s. auto.
        * left. apply Hop. exact H.
        * right. rewrite Ea. cbn. split; [reflexivity|]. split; [reflexivity|]. exists r'. rewrite <- Ea. auto.
    - left. right. exists p. auto. }
  constructor.
  - exact PW.
  - intros c0 s0 H0. destruct (In_upd_idx (fun _ => (c, s')) (wnodes w) i (c0, s0) H0) as [[j [Hj1 Hj2]]|[y [K1 K2]]].
    + apply Hn. eapply nth_error_In; exact Hj2.
    + inversion K2; subst c0 s0. split; [exact Hv|]. split; [exact S4|]. split; [exact S5 | rewrite S2; exact Hsc].
  - intros a Hh. destruct (Hold a Hh) as [H|[_ [Ev _]]]; [apply Hl; exact H | rewrite Ev; exact Hv].
  - intros a Hh c0 s0 r0 H0 En L0.
    destruct (In_upd_idx (fun _ => (c, s')) (wnodes w) i (c0, s0) H0) as [[j [Hj1 Hj2]]|[y [K1 K2]]].
    + (* another node, unchanged *)
      destruct (Hold a Hh) as [H|[Na _]]; [apply (Ha a H c0 s0 r0 (nth_error_In _ _ Hj2) En L0)|].
      exfalso. apply Hj1. symmetry. apply (name_index w i j c s c0 s0 Wu Hi Hj2). congruence.
    + inversion K2; subst c0 s0.
      destruct (cl_self _ _ _ Hc) as [r Lr]. destruct (S3 r Lr) as [r' [Lr' Hrel]].
      rewrite L0 in Lr'. inversion Lr'; subst r'.
      destruct (Hold a Hh) as [H|[_ [_ [r1 [Lr1 Ec]]]]].
      * pose proof (Ha a H c s r Hin En Lr) as E0.
        destruct Hrel as [Sf|[meta [wt [_ [Lt _]]]]]; [eapply eos_same; eassumption | eapply eos_newer; eassumption].
      * rewrite L0 in Lr1. inversion Lr1; subst r1. right. rewrite <- Ec. cbn. repeat split.
Qed.

(* a world that only grew its pool by claims some node holds *)
Lemma AW_pool_grow w extra :
  AW w -> WI (mkW (wnodes w) (extra ++ wpool w)) ->
  (forall p a, In p extra -> pool_claim p = Some a -> exists c s, In (c, s) (wnodes w) /\ holds s a) ->
  AW (mkW (wnodes w) (extra ++ wpool w)).
Proof.
  intros [HW Hn Hl Ha] HW' Hex.
  assert (Hold : forall a, world_holds (mkW (wnodes w) (extra ++ wpool w)) a -> world_holds w a).
  { intros a [H|[p [Hp Hc]]]; [left; exact H|]. cbn [wpool] in Hp. apply in_app_or in Hp. destruct Hp as [Hp|Hp].
    - left. apply (Hex p a Hp Hc).
    - right. exists p. auto. }
  constructor; cbn [wnodes]; auto.
  intros a Hh c s r Hin En L. apply (Ha a (Hold a Hh) c s r Hin En L).
Qed.

Theorem wstep_AW w a : AW w -> act_ok w a -> AW (fst (wstep w a)).
Proof.
  intros HA Hok. pose proof HA as [HW Hn Hl Ha]. pose proof HW as [Wn Wp Wu].
  pose proof (wstep_WI w a HW Hok) as PW.
  destruct a as [i | i | i k | i meta wt | i wt | i dt | i]; cbn [wstep act_ok] in *.
  - destruct (nth_error (wnodes w) i) as [[c s]|] eqn:Hi; [|exact HA]. cbn [fst] in *.
    apply AW_pool_grow; [exact HA | apply PW|].
    intros p a Hp Hc. apply in_map_iff in Hp. destruct Hp as [[k m] [E Hin]]. subst p. cbn [snd] in Hc.
    destruct m; cbn in Hc; try discriminate. inversion Hc; subst a.
    exists c, s. split; [eapply nth_error_In; exact Hi|]. right. exists k. exact Hin.
  - destruct (nth_error (wnodes w) i) as [[c s]|] eqn:Hi; [|exact HA]. cbn [fst] in *.
    apply AW_pool_grow; [exact HA | apply PW|].
    intros p a Hp Hc. unfold snapshot in Hp. apply in_map_iff in Hp. destruct Hp as [[n r] [E Hin]]. subst p. cbn [fst snd] in Hc.
    destruct (rst r) eqn:Er; cbn in Hc; try discriminate. inversion Hc; subst a.
    exists c, s. split; [eapply nth_error_In; exact Hi|]. left. exists r. cbn [a_name]. auto.
  - destruct (nth_error (wpool w) k) as [p|] eqn:Hk; [|exact HA].
    destruct (nth_error (wnodes w) i) as [[c s]|] eqn:Hi.
    2:{ unfold at_node. rewrite Hi. exact HA. }
    destruct Hok as [Bl Bp].
    assert (Hin : In (c, s) (wnodes w)) by (eapply nth_error_In; exact Hi).
    pose proof (Wp p (nth_error_In _ _ Hk)) as Cp.
    assert (Hp : forall a, pool_claim p = Some a -> world_holds w a).
    { intros a Ea. right. exists p. split; [eapply nth_error_In; exact Hk | exact Ea]. }
    apply (at_node_AW w i (op_of p) c s HA Hi).
    + intros dep' M _.
      assert (Own : forall n, departed w n = true -> n = self c -> leaving s = true).
      { intros n Hd En. apply departed_spec in Hd. destruct Hd as [c0 [s0 [H0 [E0 L0]]]].
        assert (E : (c0, s0) = (c, s)) by (apply (unique_node w); [exact Wu | exact H0 | exact Hin | congruence]).
        inversion E; subst. exact L0. }
      split; [exact Bl|].
      destruct p as [[inc name addr meta vsn | inc name from | inc name from] | rs inc name addr meta vsn]; cbn [op_of clean_pmsg clean_msg] in *.
      * split; [reflexivity|]. split; assumption.
      * contradiction.
      * destruct Cp as [-> D]. split; [reflexivity|]. split; [apply M; exact D | apply Own; exact D].
      * destruct rs; try contradiction.
        -- split; assumption.
        -- split; [apply M; exact Cp | apply Own; exact Cp].
    + (* the claim is six bytes of versions and, if about this node, an echo or older *)
      destruct p as [[inc name addr meta vsn | inc name from | inc name from] | rs inc name addr meta vsn]; cbn [op_of agreeable]; try exact I.
      * split; [apply (Hl _ (Hp _ eq_refl))|]. intros En r L. apply (Ha _ (Hp _ eq_refl) c s r Hin); [cbn; congruence | exact L].
      * destruct rs; try exact I.
        split; [apply (Hl _ (Hp _ eq_refl))|]. intros En r L. apply (Ha _ (Hp _ eq_refl) c s r Hin); [cbn; congruence | exact L].
    + intros a Ea. apply Hp. rewrite <- Ea.
      destruct p as [[inc name addr meta vsn | inc name from | inc name from] | rs inc name addr meta vsn]; cbn [op_of op_claim pool_claim]; try reflexivity.
  - destruct (nth_error (wnodes w) i) as [[c s]|] eqn:Hi.
    2:{ unfold at_node. rewrite Hi. exact HA. }
    apply (at_node_AW w i (OUpdate meta wt) c s HA Hi); [intros dep' _ _; split; [exact Hok | exact I] | exact I | intros a E; discriminate].
  - destruct (nth_error (wnodes w) i) as [[c s]|] eqn:Hi.
    2:{ unfold at_node. rewrite Hi. exact HA. }
    apply (at_node_AW w i (OLeave wt) c s HA Hi); [intros dep' _ D; split; [exact Hok | exact D] | exact I | intros a E; discriminate].
  - destruct (nth_error (wnodes w) i) as [[c s]|] eqn:Hi.
    2:{ unfold at_node. rewrite Hi. exact HA. }
    apply (at_node_AW w i (OAdvance dt) c s HA Hi); [intros dep' _ _; split; [exact Hok | exact I] | exact I | intros a E; discriminate].
  - destruct (nth_error (wnodes w) i) as [[c s]|] eqn:Hi.
    2:{ unfold at_node. rewrite Hi. exact HA. }
    apply (at_node_AW w i OReap c s HA Hi); [intros dep' _ _; split; [exact Hok | exact I] | exact I | intros a E; discriminate].
Qed.

Theorem wrun_AW : forall l w, AW w -> run_ok w l -> AW (fst (wrun w l)).
Proof.
  induction l as [|a l IH]; intros w HA Hok; cbn [wrun]; [exact HA|].
  destruct Hok as [Ha Hl]. pose proof (wstep_AW w a HA Ha) as P.
  destruct (wstep w a) as [w1 e1]. cbn [fst] in *. specialize (IH w1 P Hl).
  destruct (wrun w1 l) as [w2 e2]. exact IH.
Qed.

(* ---------- from the start ---------- *)
Definition good_cfg6 (c : cfg) : Prop := good_cfg c /\ length (self_vsn c) = 6%nat.

Lemma boot_world_AW cs :
  Forall (fun cm => good_cfg6 (fst cm)) cs -> NoDup (map (fun cm => self (fst cm)) cs) -> AW (boot_world cs).
Proof.
  intros Hg Hu.
  assert (Hg' : Forall (fun cm => good_cfg (fst cm)) cs) by (eapply Forall_impl; [|exact Hg]; intros x [H _]; exact H).
  assert (Node : forall c s, In (c, s) (wnodes (boot_world cs)) -> exists m, good_cfg6 c /\
             s = mkS [(self c, mkRec 1 Alive (self_addr c) m (self_vsn c) 0)] 1 [] 1 false 0
                     [(kname (self c), BAlive 1 (self c) (self_addr c) m (self_vsn c))] 0).
  { intros c s Hin. unfold boot_world in Hin; cbn [wnodes] in Hin. apply in_map_iff in Hin.
    destruct Hin as [[c0 m0] [E Hin]]. cbn [fst snd] in E. inversion E; subst c s.
    rewrite Forall_forall in Hg. pose proof (Hg _ Hin) as G. cbn [fst] in G. exists m0. split; [exact G|].
    destruct G as [[F [V A]] L6]. rewrite (boot_eq c0 m0 A V). rewrite L6. cbn [Nat.leb].
    rewrite <- L6 at 1. rewrite firstn_all. reflexivity. }
  assert (Held : forall a, world_holds (boot_world cs) a -> exists c s m, In (c, s) (wnodes (boot_world cs)) /\ good_cfg6 c /\
                   a = mkA (self c) 1 (self_addr c) m (self_vsn c) /\
                   lk s (self c) = Some (mkRec 1 Alive (self_addr c) m (self_vsn c) 0)).
  { intros a [[c [s [Hin Hh]]]|[p [[] _]]]. destruct (Node c s Hin) as [m [G Es]].
    exists c, s, m. split; [exact Hin|]. split; [exact G|]. subst s.
    split; [|unfold lk; cbn; rewrite N.eqb_refl; reflexivity].
    destruct Hh as [[r [Hr [_ Er]]]|[k Hk]].
    - cbn in Hr. destruct Hr as [E|[]]. inversion E; subst. rewrite <- Er. unfold rec_claim. cbn. rewrite <- H0. reflexivity.
    - cbn in Hk. destruct Hk as [E|[]]. inversion E. destruct a; cbn in *; subst. reflexivity. }
  constructor.
  - apply boot_world_WI; assumption.
  - intros c s Hin. destruct (Node c s Hin) as [m [[G L6] ->]]. split; [exact L6|]. split; [|split; [|reflexivity]].
    + intros r L. unfold lk in L. cbn in L. rewrite N.eqb_refl in L. inversion L; subst. cbn. lia.
    + intros Lv. discriminate.
  - intros a Hh. destruct (Held a Hh) as [c [s [m [_ [[_ L6] [-> _]]]]]]. exact L6.
  - intros a Hh c0 s0 r0 H0 En L0. destruct (Held a Hh) as [c [s [m [Hin [_ [Ea Lk]]]]]].
    assert (X : (c0, s0) = (c, s)).
    { apply (unique_node (boot_world cs)); auto.
      - unfold names, boot_world; cbn [wnodes]. rewrite map_map. cbn [fst]. exact Hu.
      - rewrite En, Ea. reflexivity. }
    inversion X; subst c0 s0. rewrite Lk in L0. inversion L0; subst r0. rewrite Ea. right. cbn. repeat split.
Qed.

(* C04: every health score stays at zero — in every reachable state of the healthy cluster *)
Theorem scores_stay_zero cs acts :
  Forall (fun cm => good_cfg6 (fst cm)) cs -> NoDup (map (fun cm => self (fst cm)) cs) ->
  run_ok (boot_world cs) acts ->
  forall c s, In (c, s) (wnodes (fst (wrun (boot_world cs) acts))) -> score s = 0.
Proof.
  intros Hg Hu Hok c s Hin. pose proof (wrun_AW acts _ (boot_world_AW cs Hg Hu) Hok) as [_ Hn _ _].
  apply (Hn c s Hin).
Qed.
