(* Queue_proofs.v — proofs about Model/Queue.v (the repaired behaviour, fixed = true). *)
From Coq Require Import List NArith ZArith Bool Lia Permutation Sorted.
Import ListNotations.
From VF Require Import Base Queue.

Local Open Scope N_scope.

(* ------------------------------------------------------------------ order *)
Definition lt_item (a b : item) : Prop := less a b = true.

Ltac less_cases :=
  unfold less in *;
  repeat match goal with
         | |- context [N.ltb ?a ?b] => destruct (N.ltb_spec a b)
         | H : context [N.ltb ?a ?b] |- _ => destruct (N.ltb_spec a b)
         end; try discriminate; try lia; auto.

Lemma less_irrefl a : less a a = false.
Proof. less_cases. Qed.

Lemma less_trans a b c : less a b = true -> less b c = true -> less a c = true.
Proof. intros H1 H2. less_cases. Qed.

Lemma less_asym a b : less a b = true -> less b a = false.
Proof. intros H. less_cases. Qed.

Lemma less_total a b : id a <> id b -> less a b = true \/ less b a = true.
Proof. intro H. less_cases. Qed.

Lemma less_tr a b : less a b = true -> tr a <= tr b.
Proof. intro H. less_cases. Qed.

Lemma key_eq_id a b : key_eq a b = true -> id a = id b.
Proof.
  unfold key_eq. intro H. apply andb_true_iff in H. destruct H as [H1 H2].
  apply negb_true_iff in H1. apply negb_true_iff in H2. less_cases.
Qed.

Lemma key_eq_refl a : key_eq a a = true.
Proof. unfold key_eq. rewrite less_irrefl. reflexivity. Qed.

Lemma less_not_key_eq a b : less a b = true -> key_eq a b = false.
Proof. intro H. unfold key_eq. rewrite H. reflexivity. Qed.

Lemma less_not_key_eq' a b : less a b = true -> key_eq b a = false.
Proof. intro H. unfold key_eq. rewrite H. simpl. apply andb_false_r. Qed.

(* ------------------------------------------------------------------ insert / delete on sorted lists *)
Definition sorted (l : list item) : Prop := StronglySorted lt_item l.

Lemma sorted_app_inv l1 l2 : sorted (l1 ++ l2) ->
  sorted l1 /\ sorted l2 /\ (forall x y, In x l1 -> In y l2 -> less x y = true).
Proof.
  induction l1 as [|a l1 IH]; simpl; intro H.
  - repeat split; [constructor | exact H | intros x y []].
  - inversion H as [|? ? Hs Hall]; subst. destruct (IH Hs) as [S1 [S2 S3]].
    rewrite Forall_forall in Hall.
    repeat split.
    + constructor; [exact S1|]. rewrite Forall_forall. intros x Hx. apply Hall. apply in_or_app. left. exact Hx.
    + exact S2.
    + intros x y [->|Hx] Hy; [apply Hall, in_or_app; right; exact Hy | apply S3; assumption].
Qed.

Lemma sorted_app l1 l2 : sorted l1 -> sorted l2 ->
  (forall x y, In x l1 -> In y l2 -> less x y = true) -> sorted (l1 ++ l2).
Proof.
  induction l1 as [|a l1 IH]; simpl; intros S1 S2 H; [exact S2|].
  inversion S1 as [|? ? Hs Hall]; subst. constructor.
  - apply IH; auto.
  - rewrite Forall_forall in *. intros x Hx. apply in_app_or in Hx. destruct Hx as [Hx|Hx]; [apply Hall; exact Hx | apply H; auto].
Qed.

Lemma sorted_remove_mid l1 x l2 : sorted (l1 ++ x :: l2) -> sorted (l1 ++ l2).
Proof.
  intro H. apply sorted_app_inv in H. destruct H as [S1 [S2 S3]].
  inversion S2; subst. apply sorted_app; auto. intros a b Ha Hb. apply S3; [exact Ha | right; exact Hb].
Qed.

Lemma insert_fresh x l : sorted l -> ~ In (id x) (map id l) ->
  sorted (insert x l) /\ Permutation (x :: l) (insert x l).
Proof.
  induction l as [|y l IH]; simpl; intros S Hn.
  - split; [repeat constructor | apply Permutation_refl].
  - inversion S as [|? ? Sl Hall]; subst.
    destruct (less x y) eqn:Lxy.
    + split; [|apply Permutation_refl]. constructor; [exact S|].
      constructor; [exact Lxy|]. rewrite Forall_forall in *. intros z Hz. eapply less_trans; [exact Lxy | apply Hall; exact Hz].
    + assert (Hid : id x <> id y) by (intro E; apply Hn; left; symmetry; exact E).
      destruct (less_total x y Hid) as [C|C]; [congruence|]. rewrite C.
      destruct IH as [S' P']; [exact Sl | intro I; apply Hn; right; exact I |].
      split.
      * constructor; [exact S'|]. rewrite Forall_forall in *. intros z Hz.
        apply (Permutation_in _ (Permutation_sym P')) in Hz. destruct Hz as [<-|Hz]; [exact C | apply Hall; exact Hz].
      * eapply Permutation_trans; [apply perm_swap|]. apply perm_skip. exact P'.
Qed.

Lemma delete_mid l1 x l2 : sorted (l1 ++ x :: l2) -> delete x (l1 ++ x :: l2) = l1 ++ l2.
Proof.
  induction l1 as [|a l1 IH]; simpl; intro S.
  - rewrite key_eq_refl. reflexivity.
  - inversion S as [|? ? Sl Hall]; subst. rewrite Forall_forall in Hall.
    assert (L : less a x = true) by (apply Hall, in_or_app; right; left; reflexivity).
    rewrite (less_not_key_eq' _ _ L). f_equal. apply IH. exact Sl.
Qed.

(* ------------------------------------------------------------------ greedy facts *)
Local Open Scope Z_scope.

Definition fitsZ (ov lim used : Z) (x : item) : Prop := 0 < lim - used - ov /\ Z.of_N (len x) <= lim - used - ov.

Lemma greedy_skip_prefix ov lim used p q :
  (forall x, In x p -> ~ fitsZ ov lim used x) -> greedy ov lim used (p ++ q) = greedy ov lim used q.
Proof.
  induction p as [|a p IH]; simpl; intro H; [reflexivity|].
  destruct (Z.leb_spec (lim - used - ov) 0) as [Hf|Hf].
  - destruct q; simpl; [reflexivity|]. destruct (Z.leb_spec (lim - used - ov) 0); [reflexivity|lia].
  - destruct (Z.leb_spec (Z.of_N (len a)) (lim - used - ov)) as [Hl|Hl].
    + exfalso. apply (H a); [left; reflexivity | split; lia].
    + apply IH. intros x Hx. apply H. right. exact Hx.
Qed.

Lemma greedy_none ov lim used l :
  (forall x, In x l -> ~ fitsZ ov lim used x) -> greedy ov lim used l = [].
Proof.
  intro H. rewrite <- (app_nil_r l). rewrite greedy_skip_prefix by exact H. reflexivity.
Qed.

Lemma greedy_take ov lim used x l :
  fitsZ ov lim used x -> greedy ov lim used (x :: l) = x :: greedy ov lim (used + ov + Z.of_N (len x)) l.
Proof.
  intros [H1 H2]. simpl.
  destruct (Z.leb_spec (lim - used - ov) 0); [lia|].
  destruct (Z.leb_spec (Z.of_N (len x)) (lim - used - ov)); [reflexivity|lia].
Qed.

Lemma fits_spec t free x : fits t free x = true <-> (tr x = t /\ Z.of_N (len x) <= free).
Proof.
  unfold fits. rewrite andb_true_iff, N.eqb_eq, Z.leb_le. tauto.
Qed.

Lemma find_split {A} (p : A -> bool) l x : find p l = Some x ->
  exists l1 l2, l = l1 ++ x :: l2 /\ p x = true /\ forall y, In y l1 -> p y = false.
Proof.
  induction l as [|a l IH]; simpl; [discriminate|].
  destruct (p a) eqn:Pa; intro H.
  - inversion H; subst. exists [], l. repeat split; auto. intros y [].
  - destruct (IH H) as [l1 [l2 [E [Px Hn]]]]. exists (a :: l1), l2. subst. repeat split; auto.
    intros y [<-|Hy]; auto.
Qed.

Lemma find_none {A} (p : A -> bool) l : find p l = None -> forall y, In y l -> p y = false.
Proof.
  induction l as [|a l IH]; simpl; [intros _ y []|].
  destruct (p a) eqn:Pa; [discriminate|]. intros H y [<-|Hy]; auto.
Qed.

(* ------------------------------------------------------------------ the tier loop computes the one-pass greedy selection *)
Definition due (tl : Z) (x : item) : bool := (tl <=? Z.of_N (tr x) + 1).

Definition minus (l T : list item) : list item :=
  filter (fun x => negb (existsb (fun y => N.eqb (id x) (id y)) T)) l.

(* result of the loop, generalised over the accumulated state *)
Lemma get_loop_spec : forall (fuel : nat) ov lim tl t maxT used l idg ini r f re,
  0 <= ov ->
  sorted l ->
  (forall x, In x l -> (tr x <= maxT)%N) ->
  (forall x, In x l -> (tr x < t)%N -> ~ fitsZ ov lim used x) ->
  (length l + N.to_nat (maxT + 1 - t) < fuel)%nat ->
  exists l',
    get_loop true fuel ov lim tl t maxT used (mkQ l idg ini) r f re =
    Some (mkQ l' idg ini,
          r ++ map uid (greedy ov lim used l),
          f ++ map uid (filter (due tl) (greedy ov lim used l)),
          re ++ map bump (filter (fun x => negb (due tl x)) (greedy ov lim used l)))
    /\ Permutation l (greedy ov lim used l ++ l') /\ sorted l'.
Proof.
  induction fuel as [|fuel IH]; intros ov lim tl t maxT used l idg ini r f re Hov S Hmax Hlow Hfuel; [lia|].
  cbn [get_loop].
  destruct (N.ltb_spec maxT t) as [Ht|Ht].
  { (* past the last tier: nothing fits *)
    assert (G : greedy ov lim used l = []).
    { apply greedy_none. intros x Hx. apply Hlow; [exact Hx|]. specialize (Hmax x Hx). lia. }
    rewrite G. simpl. rewrite !app_nil_r. exists l. repeat split; auto. }
  destruct (Z.leb_spec (lim - used - ov) 0) as [Hf|Hf].
  { assert (G : greedy ov lim used l = []).
    { apply greedy_none. intros x _ [H1 _]. lia. }
    rewrite G. simpl. rewrite !app_nil_r. exists l. repeat split; auto. }
  cbn [items].
  destruct (find (fits t (lim - used - ov)) l) as [keep|] eqn:F.
  - (* an item of the current tier fits *)
    destruct (find_split _ _ _ F) as [l1 [l2 [E [Pk Hn]]]]. subst l.
    apply fits_spec in Pk. destruct Pk as [Ktr Klen].
    pose proof (sorted_app_inv _ _ S) as [S1 [S2 S3]].
    assert (Hpre : forall x, In x l1 -> ~ fitsZ ov lim used x).
    { intros x Hx. destruct (N.ltb_spec (tr x) t) as [Lt|Ge].
      - apply Hlow; [apply in_or_app; left; exact Hx | exact Lt].
      - intros [_ Hfit]. assert (Lk : less x keep = true) by (apply S3; [exact Hx | left; reflexivity]).
        apply less_tr in Lk. assert (tr x = t) by lia.
        specialize (Hn x Hx). apply not_true_iff_false in Hn. apply Hn. apply fits_spec. split; assumption. }
    assert (Hk : fitsZ ov lim used keep) by (split; lia).
    rewrite (greedy_skip_prefix _ _ _ l1 (keep :: l2) Hpre).
    rewrite (greedy_take _ _ _ keep l2 Hk).
    set (used' := used + ov + Z.of_N (len keep)).
    assert (Hdel : delete_item true keep (mkQ (l1 ++ keep :: l2) idg ini) = mkQ (l1 ++ l2) idg ini).
    { unfold delete_item. cbn [items idgen inited]. rewrite delete_mid by exact S. reflexivity. }
    rewrite Hdel.
    assert (S' : sorted (l1 ++ l2)) by (eapply sorted_remove_mid; exact S).
    assert (Hpre' : forall x, In x l1 -> ~ fitsZ ov lim used' x).
    { intros x Hx [A B]. apply (Hpre x Hx). unfold used' in *. split; lia. }
    assert (G' : greedy ov lim used' (l1 ++ l2) = greedy ov lim used' l2) by (apply greedy_skip_prefix; exact Hpre').
    assert (Hmax' : forall x, In x (l1 ++ l2) -> (tr x <= maxT)%N).
    { intros x Hx. apply Hmax. apply in_app_or in Hx. apply in_or_app. destruct Hx; [left|right; right]; assumption. }
    assert (Hlow' : forall x, In x (l1 ++ l2) -> (tr x < t)%N -> ~ fitsZ ov lim used' x).
    { intros x Hx Lt [A B]. apply (Hlow x); [| exact Lt | unfold used' in *; split; lia].
      apply in_app_or in Hx. apply in_or_app. destruct Hx; [left|right; right]; assumption. }
    assert (Hfuel' : (length (l1 ++ l2) + N.to_nat (maxT + 1 - t) < fuel)%nat).
    { rewrite app_length in *. simpl in Hfuel. lia. }
    change (tl <=? Z.of_N (tr keep) + 1) with (due tl keep).
    cbn [filter]. 
    destruct (due tl keep) eqn:D; cbn [negb].
    + destruct (IH ov lim tl t maxT used' (l1 ++ l2) idg ini (r ++ [uid keep]) (f ++ [uid keep]) re Hov S' Hmax' Hlow' Hfuel')
        as [l' [E [P SS]]].
      exists l'. rewrite E, G'.
      cbn [map]. rewrite <- !app_assoc. cbn [app]. repeat split; auto.
      rewrite G' in P. eapply Permutation_trans; [apply Permutation_sym, Permutation_middle|].
      simpl. apply perm_skip. exact P.
    + destruct (IH ov lim tl t maxT used' (l1 ++ l2) idg ini (r ++ [uid keep]) f (re ++ [bump keep]) Hov S' Hmax' Hlow' Hfuel')
        as [l' [E [P SS]]].
      exists l'. rewrite E, G'.
      cbn [map]. rewrite <- !app_assoc. cbn [app]. repeat split; auto.
      rewrite G' in P. eapply Permutation_trans; [apply Permutation_sym, Permutation_middle|].
      simpl. apply perm_skip. exact P.
  - (* nothing of this tier fits: next tier *)
    assert (Hlow' : forall x, In x l -> (tr x < t + 1)%N -> ~ fitsZ ov lim used x).
    { intros x Hx Lt. destruct (N.eq_dec (tr x) t) as [Eq|Ne].
      - intros [_ Hfit]. pose proof (find_none _ _ F x Hx) as Hn. apply not_true_iff_false in Hn. apply Hn.
        apply fits_spec. split; assumption.
      - apply Hlow; [exact Hx | lia]. }
    assert (Hfuel' : (length l + N.to_nat (maxT + 1 - (t + 1)) < fuel)%nat) by lia.
    destruct (IH ov lim tl (t + 1)%N maxT used l idg ini r f re Hov S Hmax Hlow' Hfuel') as [l' [E [P SS]]].
    exists l'. rewrite E. repeat split; auto.
Qed.

Lemma NoDup_app_remove_l {A} (l l' : list A) : NoDup (l ++ l') -> NoDup l'.
Proof. induction l as [|a l IH]; simpl; intro H; [exact H|]. inversion H; auto. Qed.

(* ------------------------------------------------------------------ invariant *)
Local Open Scope N_scope.

Record Inv (s : qstate) : Prop := mkInv {
  inv_sorted : sorted (items s);
  inv_ids : forall x, In x (items s) -> id x <= idgen s;
  inv_nodup : NoDup (map id (items s)) }.

Lemma Inv_q0 : Inv q0.
Proof. split; simpl; [constructor | intros x [] | constructor]. Qed.

Lemma sorted_min_max l x : sorted l -> In x l -> min_tr l <= tr x /\ tr x <= max_tr l.
Proof.
  intros S Hx. split.
  - destruct l as [|a l]; [destruct Hx|]. simpl. destruct Hx as [<-|Hx]; [lia|].
    inversion S as [|? ? _ Hall]; subst. rewrite Forall_forall in Hall. apply less_tr. apply Hall. exact Hx.
  - unfold max_tr. destruct (exists_last (l := l)) as [l0 [z E]]; [intro E; subst; destruct Hx|].
    subst l. rewrite last_last. apply in_app_or in Hx. destruct Hx as [Hx|[<-|[]]]; [|lia].
    apply sorted_app_inv in S. destruct S as [_ [_ S3]]. apply less_tr. apply S3; [exact Hx | left; reflexivity].
Qed.

Lemma delete_in l x : sorted l -> In x l ->
  sorted (delete x l) /\ Permutation l (x :: delete x l).
Proof.
  intros S Hx. apply in_split in Hx. destruct Hx as [l1 [l2 E]]. subst l.
  rewrite delete_mid by exact S. split; [eapply sorted_remove_mid; exact S | apply Permutation_sym, Permutation_middle].
Qed.

Lemma delete_all_spec xs : forall s, sorted (items s) -> NoDup xs -> incl xs (items s) ->
  let s' := delete_all true xs s in
  sorted (items s') /\ Permutation (items s) (xs ++ items s') /\ idgen s' = idgen s /\ inited s' = inited s.
Proof.
  induction xs as [|x xs IH]; intros s S ND Hin; simpl.
  - repeat split; auto.
  - inversion ND as [|? ? Hnx ND']; subst.
    destruct (delete_in (items s) x S) as [S1 P1]; [apply Hin; left; reflexivity|].
    assert (Hin' : incl xs (items (delete_item true x s))).
    { intros y Hy. unfold delete_item; cbn [items].
      assert (In y (x :: delete x (items s))) by (eapply Permutation_in; [exact P1 | apply Hin; right; exact Hy]).
      destruct H as [<-|H]; [contradiction | exact H]. }
    destruct (IH (delete_item true x s) S1 ND' Hin') as [S2 [P2 [I2 J2]]].
    repeat split; auto.
    eapply Permutation_trans; [exact P1|]. apply perm_skip. exact P2.
Qed.

Lemma fold_insert_fresh re : forall l, sorted l -> NoDup (map id (re ++ l)) ->
  sorted (fold_left (fun l x => insert x l) re l) /\ Permutation (re ++ l) (fold_left (fun l x => insert x l) re l).
Proof.
  induction re as [|x re IH]; intros l S ND; simpl.
  - split; [exact S | apply Permutation_refl].
  - simpl in ND. inversion ND as [|? ? Hnx ND']; subst.
    rewrite map_app in Hnx.
    destruct (insert_fresh x l S) as [S1 P1]; [intro I; apply Hnx, in_or_app; right; exact I|].
    destruct (IH (insert x l) S1) as [S2 P2].
    { rewrite map_app in *. eapply Permutation_NoDup; [|exact ND].
      eapply Permutation_trans; [apply Permutation_middle|].
      apply Permutation_app_head. apply (Permutation_map id) in P1. exact P1. }
    split; [exact S2|]. eapply Permutation_trans; [|exact P2].
    eapply Permutation_trans; [apply Permutation_middle|]. apply Permutation_app_head. exact P1.
Qed.

Lemma bump_id x : id (bump x) = id x. Proof. reflexivity. Qed.
Lemma bump_uid x : uid (bump x) = uid x. Proof. reflexivity. Qed.

Lemma map_id_bump l : map id (map bump l) = map id l.
Proof. rewrite map_map. apply map_ext. intro; reflexivity. Qed.
Lemma map_uid_bump l : map uid (map bump l) = map uid l.
Proof. rewrite map_map. apply map_ext. intro; reflexivity. Qed.

Lemma filter_split {A} (p : A -> bool) l : Permutation l (filter p l ++ filter (fun x => negb (p x)) l).
Proof.
  induction l as [|a l IH]; simpl; [constructor|]. destruct (p a); simpl.
  - apply perm_skip. exact IH.
  - eapply Permutation_trans; [apply perm_skip; exact IH|]. apply Permutation_middle.
Qed.

Definition wf_op (o : op) : Prop := match o with Get ov _ _ => (0 <= ov)%Z | _ => True end.
Definition queued_of (o : op) : list N := match o with Queue u _ _ => [u] | _ => [] end.

(* ------------------------------------------------------------------ Get *)
Lemma do_get_spec ov lim tl s : Inv s -> (0 <= ov)%Z ->
  exists s',
    do_get true ov lim tl s =
      Some (s', map uid (greedy ov lim 0 (items s)), map uid (filter (due tl) (greedy ov lim 0 (items s))))
    /\ Inv s'
    /\ Permutation (map uid (items s))
                   (map uid (items s') ++ map uid (filter (due tl) (greedy ov lim 0 (items s)))).
Proof.
  intros HI Hov. unfold do_get.
  destruct (items s) as [|a l] eqn:E.
  - exists s. simpl. rewrite E. repeat split; auto; try apply HI.
  - destruct HI as [S I ND]. rewrite <- E in *.
    destruct s as [its idg ini]. cbn [items idgen inited] in *.
    destruct (get_loop_spec (get_fuel its) ov lim tl (min_tr its) (max_tr its) 0%Z its idg ini [] [] [] Hov S)
      as [l' [EQ [P S']]].
    + intros x Hx. apply (sorted_min_max its x S Hx).
    + intros x Hx Lt. pose proof (sorted_min_max its x S Hx). lia.
    + unfold get_fuel. assert (min_tr its <= max_tr its).
      { subst its. pose proof (sorted_min_max (a :: l) a S (or_introl eq_refl)). lia. }
      lia.
    + rewrite EQ. cbn [app idgen inited items].
      set (T := greedy ov lim 0%Z its) in *.
      set (re := map bump (filter (fun x => negb (due tl x)) T)).
      assert (NDr : NoDup (map id (re ++ l'))).
      { unfold re. rewrite map_app, map_id_bump.
        assert (PP : Permutation (map id its) (map id (filter (due tl) T) ++ (map id (filter (fun x => negb (due tl x)) T) ++ map id l'))).
        { rewrite <- !map_app. apply Permutation_map. eapply Permutation_trans; [exact P|].
          rewrite app_assoc. apply Permutation_app_tail. apply filter_split. }
        eapply Permutation_NoDup in ND; [|exact PP]. apply NoDup_app_remove_l in ND. exact ND. }
      destruct (fold_insert_fresh re l' S' NDr) as [S2 P2].
      set (fin_items := fold_left (fun l x => insert x l) re l') in *.
      assert (Pu : Permutation (map uid its) (map uid fin_items ++ map uid (filter (due tl) T))).
      { eapply Permutation_trans; [apply Permutation_map; exact P|].
        rewrite map_app.
        eapply Permutation_trans; [apply Permutation_app_tail; apply Permutation_map; apply (filter_split (due tl))|].
        rewrite map_app. rewrite <- app_assoc. eapply Permutation_trans; [apply Permutation_app_comm|].
        apply Permutation_app_tail.
        eapply Permutation_trans; [|apply Permutation_map; exact P2].
        unfold re. rewrite map_app, map_uid_bump. apply Permutation_refl. }
      assert (Iall : forall x, In x fin_items -> id x <= idg).
      { intros x Hx. apply (Permutation_in _ (Permutation_sym P2)) in Hx. apply in_app_or in Hx.
        destruct Hx as [Hx|Hx].
        - unfold re in Hx. apply in_map_iff in Hx. destruct Hx as [y [<- Hy]]. apply filter_In in Hy. destruct Hy as [Hy _].
          rewrite bump_id. apply I. eapply Permutation_in; [apply Permutation_sym; exact P|]. apply in_or_app. left. exact Hy.
        - apply I. eapply Permutation_in; [apply Permutation_sym; exact P|]. apply in_or_app. right. exact Hx. }
      unfold reset_if_idle. cbn [items].
      destruct fin_items as [|b fl] eqn:EF.
      * eexists. split; [reflexivity|]. split; [|exact Pu].
        split; simpl; [constructor | intros x [] | constructor].
      * eexists. split; [reflexivity|]. split; [|exact Pu].
        split; cbn [items idgen]; [exact S2 | exact Iall |].
        eapply Permutation_NoDup; [apply Permutation_map; exact P2 | exact NDr].
Qed.

(* ------------------------------------------------------------------ Queue *)
Lemma filter_NoDup_id (p : item -> bool) l : NoDup (map id l) -> NoDup (filter p l).
Proof.
  intro ND. apply NoDup_filter. eapply NoDup_map_inv. exact ND.
Qed.

Lemma do_queue_spec u l k s : Inv s ->
  let '(s', f) := do_queue true u l k s in
  Inv s' /\ Permutation (map uid (items s) ++ [u]) (map uid (items s') ++ f).
Proof.
  intros [S I ND]. unfold do_queue.
  set (idg := idgen s + 1). set (lb := mkItem u 0 l idg k).
  (* generic: removing a duplicate-free sub-list rm of the items, then inserting lb *)
  assert (Gen : forall rm, NoDup rm -> incl rm (items s) ->
     Inv (mkQ (insert lb (items (delete_all true rm (mkQ (items s) idg true))))
              (idgen (delete_all true rm (mkQ (items s) idg true))) true) /\
     Permutation (map uid (items s) ++ [u])
                 (map uid (insert lb (items (delete_all true rm (mkQ (items s) idg true)))) ++ map uid rm)).
  { intros rm NDrm Hin.
    destruct (delete_all_spec rm (mkQ (items s) idg true) S NDrm Hin) as [S2 [P2 [I2 _]]].
    cbn [items idgen] in *. set (s2 := delete_all true rm (mkQ (items s) idg true)) in *.
    assert (Fresh : ~ In (id lb) (map id (items s2))).
    { intro H. apply in_map_iff in H. destruct H as [y [Ey Hy]].
      assert (In y (items s)) by (eapply Permutation_in; [apply Permutation_sym; exact P2 | apply in_or_app; right; exact Hy]).
      specialize (I y H). simpl in Ey. unfold idg in Ey. lia. }
    destruct (insert_fresh lb (items s2) S2 Fresh) as [S3 P3].
    split.
    - split; cbn [items idgen].
      + exact S3.
      + rewrite I2. intros x Hx. apply (Permutation_in _ (Permutation_sym P3)) in Hx. destruct Hx as [<-|Hx]; [simpl; lia|].
        assert (In x (items s)) by (eapply Permutation_in; [apply Permutation_sym; exact P2 | apply in_or_app; right; exact Hx]).
        specialize (I x H). unfold idg. lia.
      + eapply Permutation_NoDup; [apply Permutation_map; exact P3|]. simpl. constructor; [exact Fresh|].
        apply (Permutation_map id) in P2. rewrite map_app in P2. eapply Permutation_NoDup in ND; [|exact P2].
        apply NoDup_app_remove_l in ND. exact ND.
    - eapply Permutation_trans; [apply Permutation_app_tail; apply Permutation_map; exact P2|].
      rewrite map_app. rewrite <- app_assoc. eapply Permutation_trans; [apply Permutation_app_comm|].
      apply Permutation_app_tail.
      eapply Permutation_trans; [|apply Permutation_map; exact P3]. simpl.
      eapply Permutation_trans; [apply Permutation_app_comm|]. apply Permutation_refl. }
  assert (G0 := Gen [] (NoDup_nil _) (incl_nil_l _)).
  cbn [delete_all map items idgen] in G0.
  destruct k as [n| |g].
  - destruct n as [|p]; [cbn [items idgen]; exact G0|].
    cbn [items idgen].
    destruct (find (is_named (N.pos p)) (items s)) as [old|] eqn:F; cbn [items idgen];
      [|exact G0].
    apply find_some in F. destruct F as [Hold _].
    assert (G1 := Gen [old] ltac:(repeat constructor; intros []) ltac:(intros y [<-|[]]; exact Hold)).
    cbn [delete_all map] in G1. exact G1.
  - cbn [items idgen]; exact G0.
  - cbn [items idgen].
    apply (Gen (filter (is_plain_grp g) (items s))); [apply filter_NoDup_id; exact ND | apply incl_filter].
Qed.

(* ------------------------------------------------------------------ Prune *)
Lemma prune_loop_spec fuel : forall k s f, Inv s ->
  let '(s', f') := prune_loop true fuel k s f in
  exists g, f' = f ++ g /\ Inv s' /\ Permutation (map uid (items s)) (map uid (items s') ++ g) /\ idgen s' = idgen s.
Proof.
  induction fuel as [|fuel IH]; intros k s f HI; simpl.
  - exists []. rewrite !app_nil_r. repeat split; auto using Permutation_refl; apply HI.
  - destruct (Z.ltb_spec k (Z.of_nat (length (items s)))).
    + destruct (items s) as [|x0 l0] eqn:E.
      * exists []. rewrite !app_nil_r. repeat split; auto using Permutation_refl; try apply HI. rewrite E; constructor.
      * rewrite <- E in *. set (m := last (items s) x0).
        assert (Hm : In m (items s)).
        { unfold m. rewrite E. destruct (exists_last (l := x0 :: l0)) as [l1 [z Ez]]; [discriminate|].
          rewrite Ez. rewrite last_last. apply in_or_app. right. left. reflexivity. }
        destruct HI as [S I ND].
        destruct (delete_in (items s) m S Hm) as [S1 P1].
        assert (HI' : Inv (delete_item true m s)).
        { unfold delete_item. split; cbn [items idgen].
          - exact S1.
          - intros x Hx. apply I. eapply Permutation_in; [apply Permutation_sym; exact P1 | right; exact Hx].
          - apply (Permutation_map id) in P1. eapply Permutation_NoDup in ND; [|exact P1]. inversion ND; assumption. }
        specialize (IH k (delete_item true m s) (f ++ [uid m]) HI').
        destruct (prune_loop true fuel k (delete_item true m s) (f ++ [uid m])) as [s' f'].
        destruct IH as [g [Ef [HI2 [P2 Ig]]]]. exists (uid m :: g). rewrite Ef, <- app_assoc.
        split; [reflexivity|]. split; [exact HI2|]. split; [|exact Ig].
        eapply Permutation_trans; [apply Permutation_map; exact P1|]. simpl.
        eapply Permutation_trans; [apply perm_skip; exact P2|]. apply Permutation_middle.
    + exists []. rewrite !app_nil_r. repeat split; auto using Permutation_refl; apply HI.
Qed.

Lemma reset_if_idle_inv s : Inv s -> Inv (reset_if_idle true s) /\ items (reset_if_idle true s) = items s.
Proof.
  intros HI. unfold reset_if_idle. destruct (items s) eqn:E; [|split; [exact HI | exact E]].
  split; [|simpl; auto]. split; simpl; [constructor | intros x [] | constructor].
Qed.

Ltac spl := repeat match goal with |- _ /\ _ => split end.

(* ------------------------------------------------------------------ one step *)
Theorem step_spec s o : Inv s -> wf_op o ->
  exists s' x, step true s o = Some (s', x) /\ Inv s' /\ pan x = false
    /\ nq x = N.of_nat (length (items s'))
    /\ Permutation (map uid (items s) ++ queued_of o) (map uid (items s') ++ fin x).
Proof.
  intros HI W. destruct o as [u l k|ov lim tl|k|]; cbn [step].
  - pose proof (do_queue_spec u l k s HI) as H. destruct (do_queue true u l k s) as [s' f].
    destruct H as [HI' P]. exists s', (mkOut [] f (qlen s') false). spl; auto using Permutation_refl.
  - destruct (do_get_spec ov lim tl s HI W) as [s' [E [HI' P]]]. rewrite E.
    eexists _, _. split; [reflexivity|]. cbn [pan nq fin queued_of]. rewrite app_nil_r. spl; auto using Permutation_refl.
  - cbn [negb andb].
    pose proof (prune_loop_spec (length (items s)) k s [] HI) as H.
    destruct (prune_loop true (length (items s)) k s []) as [s' f].
    destruct H as [g [Ef [HI' [P Ig]]]]. simpl in Ef. subst f.
    destruct (reset_if_idle_inv s' HI') as [HI2 E2].
    eexists _, _. split; [reflexivity|]. cbn [pan nq fin queued_of]. unfold qlen. rewrite app_nil_r, E2. spl; auto using Permutation_refl.
  - eexists _, _. split; [reflexivity|]. cbn [pan nq fin queued_of items]. rewrite app_nil_r. spl; auto using Permutation_refl.
    + split; simpl; [constructor | intros x [] | constructor].
Qed.

(* ------------------------------------------------------------------ histories *)
Definition all_fin (xs : list out) : list N := concat (map fin xs).
Definition all_queued (ops : list op) : list N := concat (map queued_of ops).

Theorem run_spec : forall ops s, Inv s -> Forall wf_op ops ->
  exists s' xs, run true s ops = Some (s', xs) /\ Inv s' /\ length xs = length ops
    /\ Forall (fun x => pan x = false) xs
    /\ Permutation (map uid (items s) ++ all_queued ops) (map uid (items s') ++ all_fin xs).
Proof.
  induction ops as [|o ops IH]; intros s HI W; cbn [run].
  - exists s, []. unfold all_queued, all_fin. simpl. rewrite !app_nil_r. spl; auto using Permutation_refl.
  - inversion W as [|? ? Wo Wops]; subst.
    destruct (step_spec s o HI Wo) as [s1 [x [E [HI1 [Px [_ P1]]]]]]. rewrite E, Px.
    destruct (IH s1 HI1 Wops) as [s2 [xs [E2 [HI2 [L2 [F2 P2]]]]]]. rewrite E2.
    exists s2, (x :: xs). split; [reflexivity|]. split; [exact HI2|]. split; [simpl; congruence|]. split; [constructor; assumption|].
    unfold all_queued, all_fin in *. cbn [map concat].
    rewrite app_assoc. eapply Permutation_trans; [apply Permutation_app_tail; exact P1|].
    rewrite <- app_assoc.
    eapply Permutation_trans; [apply Permutation_app_head; apply Permutation_app_comm|].
    rewrite app_assoc. eapply Permutation_trans; [apply Permutation_app_tail; exact P2|].
    rewrite <- !app_assoc. apply Permutation_app_head. apply Permutation_app_comm.
Qed.

(* ------------------------------------------------------------------ corollaries *)
Local Open Scope Z_scope.

Definition total (ov : Z) (l : list item) : Z := fold_right (fun x a => ov + Z.of_N (len x) + a) 0 l.

Lemma greedy_bound ov lim : forall l used, 0 <= ov ->
  greedy ov lim used l = [] \/ used + total ov (greedy ov lim used l) <= lim.
Proof.
  induction l as [|x l IH]; intros used Hov; simpl; [left; reflexivity|].
  destruct (Z.leb_spec (lim - used - ov) 0); [left; reflexivity|].
  destruct (Z.leb_spec (Z.of_N (len x)) (lim - used - ov)).
  - right. simpl. destruct (IH (used + ov + Z.of_N (len x)) Hov) as [E|B].
    + rewrite E. simpl. lia.
    + lia.
  - apply IH. exact Hov.
Qed.

Lemma greedy_sublist ov lim : forall l used x, In x (greedy ov lim used l) -> In x l.
Proof.
  induction l as [|a l IH]; intros used x; simpl; [intros []|].
  destruct (Z.leb_spec (lim - used - ov) 0); [intros []|].
  destruct (Z.leb_spec (Z.of_N (len a)) (lim - used - ov)).
  - intros [<-|H']; [left; reflexivity | right; eapply IH; exact H'].
  - intro H'. right. eapply IH; exact H'.
Qed.

Theorem get_step_spec s ov lim tl : Inv s -> 0 <= ov ->
  exists s', step true s (Get ov lim tl) =
    Some (s', mkOut (map uid (greedy ov lim 0 (items s)))
                    (map uid (filter (due tl) (greedy ov lim 0 (items s))))
                    (qlen s') false) /\ Inv s'.
Proof.
  intros HI Hov. destruct (do_get_spec ov lim tl s HI Hov) as [s' [E [HI' _]]].
  exists s'. cbn [step]. rewrite E. split; [reflexivity | exact HI'].
Qed.

Lemma do_queue_fin u l k s :
  snd (do_queue true u l k s) =
  map uid (match k with
           | Named 0%N => []
           | Named n => match find (is_named n) (items s) with Some o => [o] | None => [] end
           | Unique => []
           | Plain g => filter (is_plain_grp g) (items s)
           end).
Proof.
  unfold do_queue. destruct k as [[|p]| |g]; cbn [items idgen]; try reflexivity.
  destruct (find (is_named (N.pos p)) (items s)); reflexivity.
Qed.

(* reachable states *)
Theorem reachable_inv ops : Forall wf_op ops ->
  exists s xs, run true q0 ops = Some (s, xs) /\ Inv s.
Proof.
  intro W. destruct (run_spec ops q0 Inv_q0 W) as [s [xs [E [HI _]]]]. exists s, xs. split; assumption.
Qed.

Theorem history_accounting ops : Forall wf_op ops ->
  exists s xs, run true q0 ops = Some (s, xs) /\ length xs = length ops
    /\ Forall (fun x => pan x = false) xs
    /\ Permutation (all_queued ops) (map uid (items s) ++ all_fin xs).
Proof.
  intro W. destruct (run_spec ops q0 Inv_q0 W) as [s [xs [E [HI [L [F P]]]]]].
  exists s, xs. repeat split; auto.
Qed.

Corollary exactly_once ops : Forall wf_op ops -> NoDup (all_queued ops) ->
  exists s xs, run true q0 ops = Some (s, xs) /\
    NoDup (map uid (items s) ++ all_fin xs) /\
    forall u, In u (all_queued ops) <->
              (In u (map uid (items s)) /\ ~ In u (all_fin xs)) \/ (In u (all_fin xs) /\ ~ In u (map uid (items s))).
Proof.
  intros W ND. destruct (history_accounting ops W) as [s [xs [E [_ [_ P]]]]].
  exists s, xs. split; [exact E|].
  assert (ND' : NoDup (map uid (items s) ++ all_fin xs)) by (eapply Permutation_NoDup; [exact P | exact ND]).
  split; [exact ND'|]. intro u. split.
  - intro Hu. apply (Permutation_in _ P) in Hu. apply in_app_or in Hu. destruct Hu as [Hu|Hu].
    + left. split; [exact Hu|]. intro Hf. revert ND' Hu Hf. generalize (map uid (items s)) (all_fin xs).
      induction l as [|a l IHl]; simpl; intros l' ND' Hu Hf; [destruct Hu|].
      inversion ND' as [|? ? Hn ND'']; subst. destruct Hu as [->|Hu].
      * apply Hn. apply in_or_app. right. exact Hf.
      * eapply IHl; eauto.
    + right. split; [exact Hu|]. intro Hl. revert ND' Hu Hl. generalize (map uid (items s)) (all_fin xs).
      induction l as [|a l IHl]; simpl; intros l' ND' Hu Hl; [destruct Hl|].
      inversion ND' as [|? ? Hn ND'']; subst. destruct Hl as [->|Hl].
      * apply Hn. apply in_or_app. right. exact Hu.
      * eapply IHl; eauto.
  - intros [[Hu _]|[Hu _]]; apply (Permutation_in _ (Permutation_sym P)); apply in_or_app; [left|right]; exact Hu.
Qed.

(* ------------------------------------------------------------------ the defects of the pinned tree, as witnesses on the unrepaired model *)
Example silent_loss_refuted :
  exists s xs, run false q0 [Queue 1 4 Unique; Get 0 100 8; Queue 2 4 Unique; Get 0 4 8] = Some (s, xs)
    /\ map uid (items s) = [2%N] /\ all_fin xs = [].
Proof. eexists _, _. vm_compute. repeat split. Qed.

Example silent_loss_getfree_refuted :
  exists s xs, run false q0 [Queue 1 4 (Named 1); Queue 2 4 (Named 1); Queue 3 4 (Named 2); Queue 4 4 (Named 3)] = Some (s, xs)
    /\ map uid (items s) = [4%N; 3%N] /\ all_fin xs = [1%N].
Proof. eexists _, _. vm_compute. repeat split. Qed.

Example prune_panic_refuted :
  exists s xs, run false q0 [Prune 0] = Some (s, xs) /\ map pan xs = [true].
Proof. eexists _, _. vm_compute. repeat split. Qed.

(* the same histories on the repaired model *)
Example silent_loss_fixed :
  exists s xs, run true q0 [Queue 1 4 Unique; Get 0 100 8; Queue 2 4 Unique; Get 0 4 8] = Some (s, xs)
    /\ map uid (items s) = [2%N; 1%N] /\ all_fin xs = [].
Proof. eexists _, _. vm_compute. repeat split. Qed.
