(* Core_lemmas.v — proofs about Model/Core.v. *)
From Coq Require Import List NArith ZArith Bool Lia.
Import ListNotations.
From VF Require Import Base Core.

Local Open Scope Z_scope.

(* ------------------------------------------------------------------ association lists *)
Lemma alookup_aset_same {A} k (v : A) l : alookup k (aset k v l) = Some v.
Proof.
  induction l as [|[k' v'] l IH]; simpl.
  - rewrite N.eqb_refl. reflexivity.
  - destruct (N.eqb_spec k k'); simpl.
    + rewrite N.eqb_refl. reflexivity.
    + destruct (N.eqb_spec k k'); [contradiction | exact IH].
Qed.

Lemma alookup_aset_other {A} k k' (v : A) l : k <> k' -> alookup k' (aset k v l) = alookup k' l.
Proof.
  intro H. induction l as [|[k2 v2] l IH]; simpl.
  - destruct (N.eqb_spec k' k); [congruence | reflexivity].
  - destruct (N.eqb_spec k k2); simpl.
    + subst. destruct (N.eqb_spec k' k2); [congruence | reflexivity].
    + destruct (N.eqb_spec k' k2); [reflexivity | exact IH].
Qed.

Lemma alookup_app_new {A} k (v : A) l : alookup k l = None -> alookup k (l ++ [(k, v)]) = Some v.
Proof.
  induction l as [|[k' v'] l IH]; simpl; intro H.
  - rewrite N.eqb_refl. reflexivity.
  - destruct (N.eqb_spec k k'); [discriminate | apply IH; exact H].
Qed.

Lemma alookup_app_other {A} k k' (v : A) l : k <> k' -> alookup k' (l ++ [(k, v)]) = alookup k' l.
Proof.
  intro H. induction l as [|[k2 v2] l IH]; simpl.
  - destruct (N.eqb_spec k' k); [congruence | reflexivity].
  - destruct (N.eqb_spec k' k2); [reflexivity | exact IH].
Qed.

Lemma alookup_filter_keep {A} (p : N * A -> bool) k l v :
  alookup k l = Some v -> p (k, v) = true -> alookup k (filter p l) = Some v.
Proof.
  induction l as [|[k' v'] l IH]; simpl; [discriminate|].
  destruct (N.eqb_spec k k').
  - intros E Hp. inversion E; subst. rewrite Hp. simpl. rewrite N.eqb_refl. reflexivity.
  - intros E Hp. destruct (p (k', v')); simpl; [destruct (N.eqb_spec k k'); [contradiction|]|]; apply IH; assumption.
Qed.

Lemma alookup_filter_some {A} (p : N * A -> bool) k l v :
  alookup k (filter p l) = Some v -> exists w, alookup k l = Some w.
Proof.
  induction l as [|[k' v'] l IH]; simpl; [discriminate|].
  destruct (N.eqb_spec k k').
  - intros _. eexists. reflexivity.
  - destruct (p (k', v')); simpl; [destruct (N.eqb_spec k k'); [contradiction|]|]; exact IH.
Qed.

(* ------------------------------------------------------------------ timers *)
Definition no_live (n : N) (ts : list ptimer) : Prop := live_timer n ts = None.

Lemma orphan_no_live n ts : no_live n ts -> orphan n ts = ts.
Proof.
  unfold no_live, live_timer, orphan. induction ts as [|t ts IH]; simpl; [reflexivity|].
  destruct (N.eqb (tname t) n && tlive t) eqn:E; [discriminate|]. intro H. f_equal. apply IH. exact H.
Qed.

(* ------------------------------------------------------------------ C01: a stale or weaker claim is a no-op *)
Section Stale.
Variable c : cfg.
Variable s : nstate.

Lemma set_timers_same : set_timers s (timers s) = s.
Proof. destruct s; reflexivity. Qed.

(* alive about another member, same address, not newer *)
Lemma alive_stale_other inc name addr meta vsn b r :
  alookup name (recs s) = Some r -> raddr r = addr -> name <> self c -> (inc <= rinc r)%N ->
  do_alive c s inc name addr meta vsn b = (s, []).
Proof.
  intros L A Hn Hi. unfold do_alive, alive_find, alive_apply. rewrite L.
  destruct (N.eqb_spec name (self c)); [contradiction|]. rewrite andb_false_r.
  destruct (vsn_bad vsn); [reflexivity|].
  subst addr. rewrite N.eqb_refl. cbn [negb andb].
  assert (E : (inc <=? rinc r)%N = true) by (apply N.leb_le; exact Hi). rewrite E. reflexivity.
Qed.

(* alive about the local node, same address, strictly older *)
Lemma alive_stale_self inc addr meta vsn b r :
  alookup (self c) (recs s) = Some r -> raddr r = addr -> (inc < rinc r)%N ->
  do_alive c s inc (self c) addr meta vsn b = (s, []).
Proof.
  intros L A Hi. unfold do_alive, alive_find, alive_apply. rewrite L. rewrite N.eqb_refl.
  destruct (leaving s); [reflexivity|]. cbn [andb].
  destruct (vsn_bad vsn); [reflexivity|].
  subst addr. rewrite N.eqb_refl. cbn [negb andb].
  rewrite andb_false_r.
  assert (E : (inc <? rinc r)%N = true) by (apply N.ltb_lt; exact Hi). rewrite E. reflexivity.
Qed.

(* alive with a different address that may not reclaim: only the conflict delegate hears of it *)
Lemma alive_conflict inc name addr meta vsn b r :
  negb (leaving s && N.eqb name (self c)) = true -> vsn_bad vsn = false ->
  alookup name (recs s) = Some r -> raddr r <> addr -> is_allowed c addr = true ->
  can_replace c s r = false ->
  do_alive c s inc name addr meta vsn b =
  (s, if has_conflict c then [EvConflict name (raddr r) addr] else []).
Proof.
  intros Hl Hv L A Hal Hst. unfold do_alive, alive_find. apply negb_true_iff in Hl. rewrite Hl, Hv, L.
  destruct (N.eqb_spec (raddr r) addr); [contradiction|]. rewrite Hal, Hst. reflexivity.
Qed.

(* alive with a disallowed different address: nothing at all *)
Lemma alive_disallowed inc name addr meta vsn b :
  is_allowed c addr = false ->
  (forall r, alookup name (recs s) = Some r -> raddr r <> addr) ->
  do_alive c s inc name addr meta vsn b = (s, []).
Proof.
  intros Hal Hne. unfold do_alive, alive_find.
  destruct (leaving s && N.eqb name (self c)); [reflexivity|].
  destruct (vsn_bad vsn); [reflexivity|].
  destruct (alookup name (recs s)) as [r|] eqn:L.
  - specialize (Hne r eq_refl). destruct (N.eqb_spec (raddr r) addr); [contradiction|]. rewrite Hal. reflexivity.
  - rewrite Hal. reflexivity.
Qed.

(* suspect: unknown member, older incarnation, or member already dead/left *)
Lemma suspect_stale inc name from :
  no_live name (timers s) \/ (exists r, alookup name (recs s) = Some r /\ (inc < rinc r)%N) \/ alookup name (recs s) = None ->
  (match alookup name (recs s) with
   | None => True
   | Some r => (inc < rinc r)%N \/ rst r = Dead \/ rst r = Left
   end) ->
  do_suspect c s inc name from = (s, []).
Proof.
  intros HT H. unfold do_suspect. destruct (alookup name (recs s)) as [r|] eqn:L; [|reflexivity].
  destruct (N.ltb_spec inc (rinc r)) as [Lt|Ge]; [reflexivity|].
  destruct H as [H|H]; [lia|].
  destruct HT as [HT|[[r' [E Lt]]|E]]; [|inversion E; subst; lia|discriminate].
  unfold no_live in HT. rewrite HT.
  destruct H as [E|E]; rewrite E; reflexivity.
Qed.

(* dead: unknown member, older incarnation, or member already dead/left *)
Lemma dead_stale inc name from :
  no_live name (timers s) \/ (exists r, alookup name (recs s) = Some r /\ (inc < rinc r)%N) \/ alookup name (recs s) = None ->
  (match alookup name (recs s) with
   | None => True
   | Some r => (inc < rinc r)%N \/ rst r = Dead \/ rst r = Left
   end) ->
  do_dead c s inc name from = (s, []).
Proof.
  intros HT H. unfold do_dead. destruct (alookup name (recs s)) as [r|] eqn:L; [|reflexivity].
  destruct (N.ltb_spec inc (rinc r)) as [Lt|Ge]; [reflexivity|].
  destruct H as [H|H]; [lia|].
  destruct HT as [HT|[[r' [E Lt]]|E]]; [|inversion E; subst; lia|discriminate].
  rewrite (orphan_no_live _ _ HT), set_timers_same.
  destruct H as [E|E]; rewrite E; reflexivity.
Qed.

End Stale.

Ltac spl := repeat match goal with |- _ /\ _ => split end.

(* ------------------------------------------------------------------ local effect of the three claim handlers *)
Definition frame (name : N) (s s' : nstate) : Prop :=
  forall n, n <> name -> alookup n (recs s') = alookup n (recs s).

Definition lk (s : nstate) (n : N) : option rec := alookup n (recs s).

Lemma lk_set_rec_same s n r : lk (set_rec s n r) n = Some r.
Proof. unfold lk, set_rec; cbn [recs]. apply alookup_aset_same. Qed.
Lemma lk_set_rec_other s n r n' : n <> n' -> lk (set_rec s n r) n' = lk s n'.
Proof. unfold lk, set_rec; cbn [recs]. apply alookup_aset_other. Qed.
Lemma lk_set_bq s k m n : lk (set_bq s k m) n = lk s n. Proof. reflexivity. Qed.
Lemma lk_set_timers s ts n : lk (set_timers s ts) n = lk s n. Proof. reflexivity. Qed.

(* refute *)
Definition refute_inc (s : nstate) (accused : N) : N :=
  let i0 := ((linc s + 1) mod two32)%N in
  if (i0 <=? accused)%N then ((i0 + (accused - i0 + 1)) mod two32)%N else i0.

Lemma refute_spec c s me accused :
  let s' := refute c s me accused in
  lk s' (self c) = Some (mkRec (refute_inc s accused) (rst me) (raddr me) (rmeta me) (rvsn me) (rsince me))
  /\ frame (self c) s s'
  /\ linc s' = refute_inc s accused
  /\ leaving s' = leaving s /\ timers s' = timers s /\ now s' = now s /\ nnodes s' = nnodes s
  /\ score s' = clamp_score c (score s + 1)
  /\ alookup (kaddr (raddr me)) (bq s') =
     Some (BAlive (refute_inc s accused) (self c) (raddr me) (rmeta me) (rvsn me)).
Proof.
  unfold refute, refute_inc. cbv zeta. repeat split; try reflexivity.
  - unfold lk, set_bq; cbn [recs]. apply alookup_aset_same.
  - intros n Hn. unfold set_bq; cbn [recs]. apply alookup_aset_other. intro E; apply Hn; symmetry; exact E.
  - unfold set_bq; cbn [bq]. apply alookup_aset_same.
Qed.

Lemma refute_outranks s accused :
  (accused < two32 - 1)%N -> (linc s < two32 - 1)%N ->
  (accused < refute_inc s accused)%N /\ (linc s < refute_inc s accused)%N.
Proof.
  intros Ha Hl. unfold refute_inc, two32 in *. cbv zeta.
  rewrite (N.mod_small (linc s + 1)) by lia.
  destruct (N.leb_spec (linc s + 1) accused).
  - rewrite N.mod_small by lia. lia.
  - lia.
Qed.

(* deadNode *)
Inductive dead_result (c : cfg) (s : nstate) (inc name from : N) (s' : nstate) (evs : list event) : Prop :=
| DeadIgnored : evs = [] ->
    (s' = s \/ (s' = set_timers s (orphan name (timers s)) /\ exists r, lk s name = Some r /\ dead_or_left (rst r) = true)) ->
    (lk s name = None \/ exists r, lk s name = Some r /\ ((inc < rinc r)%N \/ dead_or_left (rst r) = true)) ->
    dead_result c s inc name from s' evs
| DeadRefuted r : lk s name = Some r -> name = self c -> leaving s = false -> (rinc r <= inc)%N ->
    dead_or_left (rst r) = false ->
    s' = refute c (set_timers s (orphan name (timers s))) r inc -> evs = [] ->
    dead_result c s inc name from s' evs
| DeadAccepted r from' : lk s name = Some r -> (rinc r <= inc)%N -> dead_or_left (rst r) = false ->
    (name = self c -> leaving s = true) ->
    from' = (if N.eqb name (self c) && fixed c then name else from) ->
    lk s' name = Some (mkRec inc (if N.eqb name from' then Left else Dead) (raddr r) (rmeta r) (rvsn r) (now s)) ->
    evs = [EvLeave name (raddr r) (rmeta r)] ->
    linc s' = linc s -> score s' = score s ->
    alookup (kname name) (bq s') = Some (BDead inc name from') ->
    timers s' = orphan name (timers s) ->
    dead_result c s inc name from s' evs.

Lemma do_dead_spec c s inc name from :
  let '(s', evs) := do_dead c s inc name from in
  dead_result c s inc name from s' evs /\ frame name s s'
  /\ leaving s' = leaving s /\ now s' = now s /\ nnodes s' = nnodes s
  /\ (forall t, In t (timers s') -> In t (timers s) \/ exists u, In u (timers s) /\ tname u = name /\ tlive t = false /\ tname t = name /\ tdeadline t = tdeadline u /\ tct t = tct u).
Proof.
  unfold do_dead. destruct (alookup name (recs s)) as [r|] eqn:L.
  2:{ spl; [apply DeadIgnored; auto | intros n _; reflexivity | reflexivity | reflexivity | reflexivity | intros t Ht; left; exact Ht]. }
  destruct (N.ltb_spec inc (rinc r)) as [Lt|Ge].
  { spl; [apply DeadIgnored; auto; right; exists r; split; auto | intros n _; reflexivity | reflexivity | reflexivity | reflexivity | intros t Ht; left; exact Ht]. }
  assert (HT : forall t, In t (orphan name (timers s)) -> In t (timers s) \/ exists u, In u (timers s) /\ tname u = name /\ tlive t = false /\ tname t = name /\ tdeadline t = tdeadline u /\ tct t = tct u).
  { intros t Ht. unfold orphan in Ht. apply in_map_iff in Ht. destruct Ht as [u [E Hu]].
    destruct (N.eqb_spec (tname u) name); cbn [andb] in E.
    - destruct (tlive u) eqn:Lu.
      + right. exists u. subst t. cbn. repeat split; auto.
      + left. subst t. exact Hu.
    - left. subst t. exact Hu. }
  destruct (dead_or_left (rst r)) eqn:DL.
  { spl; [apply DeadIgnored; auto; [right; split; [reflexivity | exists r; split; auto] | right; exists r; split; auto] | intros n _; reflexivity | reflexivity | reflexivity | reflexivity | exact HT]. }
  destruct (N.eqb_spec name (self c)) as [Es|Ns]; cbn [andb].
  - destruct (leaving s) eqn:Lv; cbn [negb].
    + (* our own departure *)
      spl; [ | | cbn; exact Lv | reflexivity | reflexivity | exact HT].
      * assert (Eb : N.eqb name (self c) = true) by (apply N.eqb_eq; exact Es).
        eapply DeadAccepted with (r := r) (from' := if fixed c then name else from); eauto;
          try (rewrite Eb; reflexivity); try (rewrite lk_set_rec_same; reflexivity);
          try (unfold set_rec, set_bq; cbn [bq]; apply alookup_aset_same).
      * intros n Hn. unfold set_rec; cbn [recs]. apply alookup_aset_other. intro E; apply Hn; symmetry; exact E.
    + pose proof (refute_spec c (set_timers s (orphan name (timers s))) r inc) as RS. cbv zeta in RS.
      destruct RS as [R1 [R2 [R3 [R4 [R5 [R6 [R7 [R8 R9]]]]]]]].
      spl; [ | | rewrite R4; cbn; exact Lv | exact R6 | exact R7 | rewrite R5; exact HT].
      * eapply DeadRefuted; eauto.
      * subst name. exact R2.
  - spl; [ | | reflexivity | reflexivity | reflexivity | exact HT].
    + assert (Eb : N.eqb name (self c) = false) by (apply N.eqb_neq; exact Ns).
      eapply DeadAccepted with (r := r) (from' := from); eauto;
        try (intro; contradiction); try (rewrite Eb; reflexivity); try (rewrite lk_set_rec_same; reflexivity);
        try (unfold set_rec, set_bq; cbn [bq]; apply alookup_aset_same).
    + intros n Hn. unfold set_rec; cbn [recs]. apply alookup_aset_other. intro E; apply Hn; symmetry; exact E.
Qed.

(* suspectNode *)
Inductive suspect_result (c : cfg) (s : nstate) (inc name from : N) (s' : nstate) (evs : list event) : Prop :=
| SuspIgnored : s' = s -> evs = [] ->
    suspect_result c s inc name from s' evs
| SuspConfirmed r t sA : lk s name = Some r -> (rinc r <= inc)%N -> live_timer name (timers s) = Some t ->
    (tn t < tk t) -> Nmem from (tconfs t) = false ->
    (forall n, lk sA n = lk s n) -> now sA = now s -> linc sA = linc s -> leaving sA = leaving s -> score sA = score s ->
    nnodes sA = nnodes s ->
    alookup (kname name) (bq sA) = Some (BSuspect inc name from) ->
    (forall u, In u (timers sA) -> tlive u = true -> In u (timers s) \/ tname u = name) ->
    (* the record itself is untouched unless the shortened timer fires at once *)
    ((s' = sA /\ evs = []) \/
     (exists t', (s', evs) = timer_fire c sA t' /\ tname t' = name /\ tct t' = tct t)) ->
    suspect_result c s inc name from s' evs
| SuspRefuted r : lk s name = Some r -> name = self c -> (rinc r <= inc)%N -> rst r = Alive ->
    live_timer name (timers s) = None -> (fixed c && leaving s = false) ->
    s' = refute c s r inc -> evs = [] ->
    suspect_result c s inc name from s' evs
| SuspStarted r : lk s name = Some r -> name <> self c -> (rinc r <= inc)%N -> rst r = Alive ->
    live_timer name (timers s) = None ->
    lk s' name = Some (mkRec inc Suspect (raddr r) (rmeta r) (rvsn r) (now s)) -> evs = [] ->
    linc s' = linc s -> score s' = score s ->
    alookup (kname name) (bq s') = Some (BSuspect inc name from) ->
    (exists t, timers s' = timers s ++ [t] /\ tname t = name /\ tlive t = true /\ tct t = now s /\ tstart t = now s
               /\ tdeadline t = now s + (if tk t <? 1 then smin c else smaxmult c * smin c)
               /\ tk t = (if nnodes s - 2 <? kcfg c then 0 else kcfg c) /\ tn t = 0 /\ tconfs t = [from]) ->
    suspect_result c s inc name from s' evs.

Lemma timer_fire_frame c s t :
  let '(s', evs) := timer_fire c s t in
  frame (tname t) s s' /\ leaving s' = leaving s /\ now s' = now s /\ nnodes s' = nnodes s.
Proof.
  unfold timer_fire. destruct (alookup (tname t) (recs s)) as [r|]; [|spl; auto; intros n _; reflexivity].
  destruct (st_eqb (rst r) Suspect && Z.eqb (rsince r) (tct t)); [|spl; auto; intros n _; reflexivity].
  pose proof (do_dead_spec c s (rinc r) (tname t) (self c)) as H.
  destruct (do_dead c s (rinc r) (tname t) (self c)) as [s' evs]. destruct H as [_ [F [L [N1 [N2 _]]]]]. auto.
Qed.

Lemma do_suspect_spec c s inc name from :
  let '(s', evs) := do_suspect c s inc name from in
  suspect_result c s inc name from s' evs /\ frame name s s'
  /\ leaving s' = leaving s /\ now s' = now s /\ nnodes s' = nnodes s.
Proof.
  unfold do_suspect. fold (lk s name). destruct (lk s name) as [r|] eqn:L.
  2:{ spl; auto; [apply SuspIgnored; auto | intros n _; reflexivity]. }
  destruct (N.ltb_spec inc (rinc r)) as [Lt|Ge].
  { spl; auto; [apply SuspIgnored; auto | intros n _; reflexivity]. }
  destruct (live_timer name (timers s)) as [t|] eqn:LT.
  - destruct (Z.leb_spec (tk t) (tn t)) as [Hk|Hk]; cbn [orb].
    { spl; auto; [apply SuspIgnored; auto | intros n _; reflexivity]. }
    destruct (Nmem from (tconfs t)) eqn:Hm.
    { spl; auto; [apply SuspIgnored; auto | intros n _; reflexivity]. }
    set (n' := tn t + 1).
    set (remaining := tnth (ttab c) (Z.to_nat n') (smin c) - (now s - tstart t)).
    set (t' := mkT (tname t) (tct t) (tk t) n' (from :: tconfs t) (tstart t) (if 0 <? remaining then now s + remaining else now s) true).
    set (ts' := map (fun u => if N.eqb (tname u) name && tlive u then t' else u) (timers s)).
    set (s1 := set_bq (set_timers s ts') (kname name) (BSuspect inc name from)).
    assert (Tn : tname t = name).
    { unfold live_timer in LT. apply find_some in LT. destruct LT as [_ E]. apply andb_true_iff in E. destruct E as [E _]. apply N.eqb_eq in E. exact E. }
    assert (HTS : forall u, In u ts' -> tlive u = true -> In u (timers s) \/ tname u = name).
    { intros u Hu _. unfold ts' in Hu. apply in_map_iff in Hu. destruct Hu as [w [E Hw]].
      destruct (N.eqb (tname w) name && tlive w); [right; subst u; exact Tn | left; subst u; exact Hw]. }
    assert (BQ1 : alookup (kname name) (bq s1) = Some (BSuspect inc name from)).
    { unfold s1, set_bq, set_timers; cbn [bq]. apply alookup_aset_same. }
    destruct (Z.ltb_spec 0 remaining) as [Hr|Hr].
    + spl; auto; [|intros n _; reflexivity].
      assert (D : (s1 = s1 /\ @nil event = []) \/ (exists t'0, (s1, @nil event) = timer_fire c s1 t'0 /\ tname t'0 = name /\ tct t'0 = tct t))
        by (left; split; reflexivity).
      eapply SuspConfirmed with (r := r) (t := t) (sA := s1); eauto.
    + set (s2 := set_timers s1 (remove_timer t' (timers s1))).
      pose proof (timer_fire_frame c s2 t') as TF. destruct (timer_fire c s2 t') as [s' evs] eqn:ETF.
      destruct TF as [F [L1 [N1 N2]]].
      assert (Tn' : tname t' = name) by (unfold t'; cbn; exact Tn).
      assert (BQ2 : alookup (kname name) (bq s2) = Some (BSuspect inc name from)) by exact BQ1.
      assert (HT2 : forall u, In u (timers s2) -> tlive u = true -> In u (timers s) \/ tname u = name).
      { intros u Hu Lu. unfold s2, set_timers in Hu; cbn [timers] in Hu. unfold remove_timer in Hu.
        apply filter_In in Hu. destruct Hu as [Hu _]. unfold s1, set_bq, set_timers in Hu; cbn [timers] in Hu.
        apply HTS; assumption. }
      assert (D : (s' = s2 /\ evs = []) \/ (exists t'0, (s', evs) = timer_fire c s2 t'0 /\ tname t'0 = name /\ tct t'0 = tct t)).
      { right. exists t'. spl; auto. }
      spl; auto.
      * eapply SuspConfirmed with (r := r) (t := t) (sA := s2); eauto.
      * rewrite Tn' in F. exact F.
  - destruct (st_eqb (rst r) Alive) eqn:SA; cbn [negb].
    2:{ spl; auto; [apply SuspIgnored; auto | intros n _; reflexivity]. }
    assert (EA : rst r = Alive) by (destruct (rst r); try discriminate; reflexivity).
    destruct (N.eqb_spec name (self c)) as [Es|Ns].
    + destruct (fixed c && leaving s) eqn:FL.
      { spl; auto; [apply SuspIgnored; auto | intros n _; reflexivity]. }
      pose proof (refute_spec c s r inc) as RS. cbv zeta in RS.
      destruct RS as [R1 [R2 [R3 [R4 [R5 [R6 [R7 [R8 R9]]]]]]]].
      spl; auto.
      * eapply SuspRefuted; eauto.
      * subst name. exact R2.
    + spl; auto.
      * eapply SuspStarted with (r := r); eauto.
        -- rewrite lk_set_timers, lk_set_rec_same. reflexivity.
        -- unfold set_timers, set_rec, set_bq; cbn [bq]. apply alookup_aset_same.
        -- eexists. split; [reflexivity|]. cbn. spl; auto.
      * intros n Hn. unfold set_timers, set_rec; cbn [recs]. apply alookup_aset_other. intro E; apply Hn; symmetry; exact E.
Qed.

(* aliveNode *)
Lemma alive_find_spec c s name addr meta vsn :
  match alive_find c s name addr meta vsn with
  | AFIgnore => is_allowed c addr = false
  | AFConflict r => lk s name = Some r /\ raddr r <> addr /\ is_allowed c addr = true /\ can_replace c s r = false
  | AFProceed s1 r updates =>
      lk s1 name = Some r
      /\ (forall n, n <> name -> lk s1 n = lk s n)
      /\ linc s1 = linc s /\ leaving s1 = leaving s /\ score s1 = score s /\ bq s1 = bq s /\ now s1 = now s
      /\ timers s1 = timers s
      /\ ((lk s name = Some r /\ s1 = s /\
           ((raddr r = addr /\ updates = false) \/
            (raddr r <> addr /\ is_allowed c addr = true /\ can_replace c s r = true /\ updates = true)))
          \/ (lk s name = None /\ r = new_rec addr meta vsn /\ updates = false /\ is_allowed c addr = true
              /\ recs s1 = recs s ++ [(name, r)] /\ nnodes s1 = nnodes s + 1))
  end.
Proof.
  unfold alive_find. fold (lk s name). destruct (lk s name) as [r|] eqn:L.
  - destruct (N.eqb_spec (raddr r) addr) as [E|N1].
    + spl; auto. left. spl; auto; left; spl; auto.
    + destruct (is_allowed c addr) eqn:AL; [|reflexivity].
      destruct (can_replace c s r) eqn:CR.
      * spl; auto. left. spl; auto; right; spl; auto.
      * spl; auto.
  - destruct (is_allowed c addr) eqn:AL; [|reflexivity].
    spl; auto.
    + unfold lk; cbn [recs]. apply alookup_app_new. exact L.
    + intros n Hn. unfold lk; cbn [recs]. apply alookup_app_other. intro E; apply Hn; symmetry; exact E.
    + right. spl; auto.
Qed.

Inductive apply_result (c : cfg) (s1 : nstate) (r : rec) (updates : bool) (inc name addr meta : N) (vsn : list N) (b : bool)
          (s' : nstate) (evs : list event) : Prop :=
| ApIgnored : s' = s1 -> evs = [] ->
    ((inc <= rinc r)%N /\ name <> self c /\ updates = false \/ (inc < rinc r)%N /\ name = self c) ->
    apply_result c s1 r updates inc name addr meta vsn b s' evs
| ApSelfSame : name = self c -> b = false -> inc = rinc r -> meta = rmeta r ->
    s' = set_timers s1 (orphan name (timers s1)) -> evs = [] ->
    apply_result c s1 r updates inc name addr meta vsn b s' evs
| ApRefuted : name = self c -> b = false -> (rinc r <= inc)%N ->
    s' = refute c (set_timers s1 (orphan name (timers s1))) r inc ->
    evs = (if dead_or_left (rst r) then [EvJoin name (raddr r) (rmeta r)] else []) ->
    apply_result c s1 r updates inc name addr meta vsn b s' evs
| ApAccepted : ((rinc r < inc)%N \/ (name = self c /\ (rinc r <= inc)%N) \/ updates = true) ->
    (name = self c -> b = true) ->
    lk s' name = Some (mkRec inc Alive addr meta (if (6 <=? length vsn)%nat then firstn 6 vsn else rvsn r)
                             (if st_eqb (rst r) Alive then rsince r else now s1)) ->
    evs = (if dead_or_left (rst r) then [EvJoin name addr meta]
           else if negb (N.eqb (rmeta r) meta) then [EvUpdate name addr meta] else []) ->
    linc s' = linc s1 -> score s' = score s1 ->
    alookup (kname name) (bq s') = Some (BAlive inc name addr meta vsn) ->
    timers s' = orphan name (timers s1) ->
    (forall n, n <> name -> lk s' n = lk s1 n) ->
    apply_result c s1 r updates inc name addr meta vsn b s' evs.

Ltac fin :=
  try solve [ intro; contradiction
            | rewrite lk_set_rec_same; reflexivity
            | unfold set_rec, set_bq; cbn [bq]; apply alookup_aset_same
            | let n := fresh in let Hn := fresh in
              intros n Hn; rewrite lk_set_rec_other by (let E := fresh in intro E; apply Hn; symmetry; exact E); reflexivity ].

Lemma alive_apply_spec c s1 r updates inc name addr meta vsn b :
  let '(s', evs) := alive_apply c s1 r updates inc name addr meta vsn b in
  apply_result c s1 r updates inc name addr meta vsn b s' evs
  /\ leaving s' = leaving s1 /\ now s' = now s1 /\ nnodes s' = nnodes s1.
Proof.
  unfold alive_apply.
  destruct (N.eqb_spec name (self c)) as [Es|Ns]; cbn [negb andb].
  - rewrite andb_false_r. cbn [andb]. rewrite andb_true_r.
    destruct (N.ltb_spec inc (rinc r)) as [Lt|Ge].
    { spl; auto. apply ApIgnored; auto. }
    destruct b; cbn [negb andb].
    + spl; auto. eapply ApAccepted; eauto; fin.
    + pose proof (refute_spec c (set_timers s1 (orphan name (timers s1))) r inc) as RS. cbv zeta in RS.
      destruct RS as [R1 [R2 [R3 [R4 [R5 [R6 [R7 [R8 R9]]]]]]]].
      destruct (N.eqb inc (rinc r) && N.eqb meta (rmeta r) && Nlist_eqb vsn (rvsn r)) eqn:Same.
      * apply andb_true_iff in Same. destruct Same as [Same _]. apply andb_true_iff in Same. destruct Same as [S1 S2].
        apply N.eqb_eq in S1. apply N.eqb_eq in S2.
        spl; auto. eapply ApSelfSame; eauto.
      * spl; auto. eapply ApRefuted; eauto.
  - rewrite andb_true_r, andb_false_r.
    destruct ((inc <=? rinc r)%N && negb updates) eqn:G.
    + apply andb_true_iff in G. destruct G as [G1 G2]. apply N.leb_le in G1. apply negb_true_iff in G2.
      spl; auto. apply ApIgnored; auto.
    + rewrite andb_false_r.
      assert (D : (rinc r < inc)%N \/ (name = self c /\ (rinc r <= inc)%N) \/ updates = true).
      { apply andb_false_iff in G. destruct G as [G|G].
        - left. apply N.leb_gt in G. exact G.
        - right. right. apply negb_false_iff in G. exact G. }
      spl; auto. eapply ApAccepted; eauto; fin.
Qed.

(* ------------------------------------------------------------------ orphaning timers *)
Lemma orphan_spec name ts t :
  In t (orphan name ts) ->
  In t ts /\ (tname t <> name \/ tlive t = false) \/
  exists u, In u ts /\ tname u = name /\ tlive u = true /\ tlive t = false /\ tname t = name /\ tdeadline t = tdeadline u /\ tct t = tct u.
Proof.
  intro Ht. unfold orphan in Ht. apply in_map_iff in Ht. destruct Ht as [u [E Hu]].
  destruct (N.eqb_spec (tname u) name) as [En|Nn]; cbn [andb] in E.
  - destruct (tlive u) eqn:Lu.
    + right. exists u. subst t. cbn. repeat split; auto.
    + left. subst t. split; [exact Hu | right; exact Lu].
  - left. subst t. split; [exact Hu | left; exact Nn].
Qed.

Lemma orphan_no_live_after name ts : live_timer name (orphan name ts) = None.
Proof.
  unfold live_timer, orphan. induction ts as [|t ts IH]; simpl; [reflexivity|].
  destruct (N.eqb_spec (tname t) name) as [E|N1]; cbn [andb].
  - destruct (tlive t) eqn:Lv; cbn [tname tlive].
    + rewrite andb_false_r. exact IH.
    + destruct (N.eqb_spec (tname t) name); [|contradiction]. rewrite Lv. cbn [andb]. exact IH.
  - destruct (N.eqb_spec (tname t) name); [contradiction|]. cbn [andb]. exact IH.
Qed.

Lemma orphan_live_other name ts n : n <> name -> live_timer n (orphan name ts) = live_timer n ts.
Proof.
  intro Hn. unfold live_timer, orphan. induction ts as [|t ts IH]; simpl; [reflexivity|].
  destruct (N.eqb_spec (tname t) name) as [E|N1]; cbn [andb].
  - destruct (tlive t) eqn:Lv; cbn [tname tlive].
    + destruct (N.eqb_spec (tname t) n); [congruence|]. cbn [andb]. exact IH.
    + rewrite Lv, andb_false_r. exact IH.
  - destruct (N.eqb (tname t) n && tlive t); [reflexivity | exact IH].
Qed.

(* ------------------------------------------------------------------ member names stay unique *)
Definition keys_ok (s : nstate) : Prop := NoDup (map fst (recs s)).

Lemma alookup_none_notin {A} k (l : list (N * A)) : alookup k l = None -> ~ In k (map fst l).
Proof.
  induction l as [|[k' v] l IH]; simpl; [intros _ []|].
  destruct (N.eqb_spec k k'); [discriminate|]. intros H [E|Hin]; [congruence | exact (IH H Hin)].
Qed.

Lemma alookup_some_in {A} k (l : list (N * A)) v : alookup k l = Some v -> In (k, v) l.
Proof.
  induction l as [|[k' v'] l IH]; simpl; [discriminate|].
  destruct (N.eqb_spec k k'); [intro H; inversion H; subst; left; reflexivity | intro H; right; apply IH; exact H].
Qed.

Lemma in_alookup_nodup {A} k (l : list (N * A)) v : NoDup (map fst l) -> In (k, v) l -> alookup k l = Some v.
Proof.
  induction l as [|[k' v'] l IH]; simpl; [intros _ []|].
  intros ND [E|Hin].
  - inversion E; subst. rewrite N.eqb_refl. reflexivity.
  - inversion ND as [|? ? Hn ND']; subst. destruct (N.eqb_spec k k') as [E|N1].
    + subst. exfalso. apply Hn. apply (in_map fst) in Hin. exact Hin.
    + apply IH; assumption.
Qed.

Lemma map_fst_aset {A} k (v : A) l :
  map fst (aset k v l) = if match alookup k l with Some _ => true | None => false end then map fst l else map fst l ++ [k].
Proof.
  induction l as [|[k' v'] l IH]; simpl.
  - reflexivity.
  - destruct (N.eqb_spec k k'); simpl.
    + subst. reflexivity.
    + rewrite IH. destruct (alookup k l); reflexivity.
Qed.

Lemma NoDup_app_one {A} (l : list A) x : NoDup l -> ~ In x l -> NoDup (l ++ [x]).
Proof.
  induction l as [|a l IH]; simpl; intros ND Hn.
  - constructor; [intros [] | constructor].
  - inversion ND; subst. constructor.
    + intro H. apply in_app_or in H. destruct H as [H|[H|[]]]; [contradiction | subst; apply Hn; left; reflexivity].
    + apply IH; [assumption | intro H; apply Hn; right; exact H].
Qed.

Lemma NoDup_aset {A} k (v : A) l : NoDup (map fst l) -> NoDup (map fst (aset k v l)).
Proof.
  intro ND. rewrite map_fst_aset. destruct (alookup k l) eqn:E; [exact ND|].
  apply NoDup_app_one; [exact ND | apply alookup_none_notin; exact E].
Qed.

Lemma NoDup_map_filter {A} (p : N * A -> bool) l : NoDup (map fst l) -> NoDup (map fst (filter p l)).
Proof.
  induction l as [|[k v] l IH]; simpl; intro ND; [constructor|].
  inversion ND as [|? ? Hn ND']; subst. destruct (p (k, v)); simpl; [|apply IH; exact ND'].
  constructor; [|apply IH; exact ND']. intro H. apply Hn. apply in_map_iff in H. destruct H as [[k' v'] [E Hin]].
  apply filter_In in Hin. destruct Hin as [Hin _]. simpl in E. subst. apply (in_map fst) in Hin. exact Hin.
Qed.

Lemma alookup_filter_nodup {A} (p : N * A -> bool) k l v : NoDup (map fst l) ->
  alookup k (filter p l) = Some v -> alookup k l = Some v /\ p (k, v) = true.
Proof.
  intros ND H. apply alookup_some_in in H. apply filter_In in H. destruct H as [Hin Hp].
  split; [apply in_alookup_nodup; assumption | exact Hp].
Qed.

Lemma refute_keys c s me acc : keys_ok s -> keys_ok (refute c s me acc).
Proof. unfold keys_ok, refute, set_bq. cbn [recs]. apply NoDup_aset. Qed.

Lemma do_dead_keys c s inc name from : keys_ok s -> keys_ok (fst (do_dead c s inc name from)).
Proof.
  intro K. unfold do_dead. destruct (alookup name (recs s)) as [r|]; [|exact K].
  destruct (inc <? rinc r)%N; [exact K|]. destruct (dead_or_left (rst r)); [exact K|].
  destruct (N.eqb name (self c) && negb (leaving s)); cbn [fst].
  - apply refute_keys. exact K.
  - unfold keys_ok, set_rec, set_bq, set_timers; cbn [recs]. apply NoDup_aset. exact K.
Qed.

Lemma timer_fire_keys c s t : keys_ok s -> keys_ok (fst (timer_fire c s t)).
Proof.
  intro K. unfold timer_fire. destruct (alookup (tname t) (recs s)) as [r|]; [|exact K].
  destruct (st_eqb (rst r) Suspect && Z.eqb (rsince r) (tct t)); [|exact K]. apply do_dead_keys. exact K.
Qed.

Lemma do_suspect_keys c s inc name from : keys_ok s -> keys_ok (fst (do_suspect c s inc name from)).
Proof.
  intro K. unfold do_suspect. destruct (alookup name (recs s)) as [r|]; [|exact K].
  destruct (inc <? rinc r)%N; [exact K|].
  destruct (live_timer name (timers s)) as [t|].
  - destruct ((tk t <=? tn t) || Nmem from (tconfs t)); [exact K|].
    match goal with |- context [if ?b then _ else _] => destruct b end; [exact K|].
    apply timer_fire_keys. exact K.
  - destruct (negb (st_eqb (rst r) Alive)); [exact K|].
    destruct (N.eqb name (self c)).
    + destruct (fixed c && leaving s); [exact K|]. cbn [fst]. apply refute_keys. exact K.
    + cbn [fst]. unfold keys_ok, set_rec, set_bq, set_timers; cbn [recs]. apply NoDup_aset. exact K.
Qed.

Lemma do_alive_keys c s inc name addr meta vsn b : keys_ok s -> keys_ok (fst (do_alive c s inc name addr meta vsn b)).
Proof.
  intro K. unfold do_alive. destruct (leaving s && N.eqb name (self c)); [exact K|].
  destruct (vsn_bad vsn); [exact K|].
  assert (G : forall s1 r u, keys_ok s1 -> keys_ok (fst (alive_apply c s1 r u inc name addr meta vsn b))).
  { intros s1 r u K1. unfold alive_apply.
    destruct ((inc <=? rinc r)%N && negb (N.eqb name (self c)) && negb u); [exact K1|].
    destruct ((inc <? rinc r)%N && N.eqb name (self c)); [exact K1|].
    destruct (negb b && N.eqb name (self c)).
    - destruct (N.eqb inc (rinc r) && N.eqb meta (rmeta r) && Nlist_eqb vsn (rvsn r)); cbn [fst]; [exact K1|].
      apply refute_keys. exact K1.
    - cbn [fst]. unfold keys_ok, set_rec, set_bq, set_timers; cbn [recs]. apply NoDup_aset. exact K1. }
  unfold alive_find. destruct (alookup name (recs s)) as [r|] eqn:L.
  - destruct (N.eqb (raddr r) addr); [apply G; exact K|].
    destruct (is_allowed c addr); [|exact K]. destruct (can_replace c s r); [apply G; exact K | exact K].
  - destruct (is_allowed c addr); [|exact K]. apply G. unfold keys_ok; cbn [recs]. rewrite map_app. cbn.
    apply NoDup_app_one; [exact K | apply alookup_none_notin; exact L].
Qed.
