(* Extra_proofs.v — small lemmas closing hypotheses of other theorems. *)
From Coq Require Import List NArith ZArith Bool Lia.
Import ListNotations.
From VF Require Import Base Core Core_lemmas Core_inv Core_props Below_cluster.
Local Open Scope Z_scope.

(* C03: resetNodes (the reap at the wrap of the probe cursor) keeps every record that is not Dead/Left;
   this is the hypothesis "the reset list still contains the peer" of Cursor_proofs.ticks_until_selected *)
Lemma reap_keeps_live c s n r :
  lk s n = Some r -> dead_or_left (rst r) = false -> lk (do_reap c s) n = Some r.
Proof.
  intros L D. unfold do_reap, lk; cbn [recs]. apply alookup_filter_keep; [exact L|].
  cbn [fst snd]. rewrite D. reflexivity.
Qed.

(* ... and only removes Dead/Left records older than GossipToTheDeadTime *)
Lemma reap_removes_only_old_dead c s n r :
  keys_ok s -> lk s n = Some r -> lk (do_reap c s) n = None ->
  dead_or_left (rst r) = true /\ gtd c < now s - rsince r.
Proof.
  intros K L Hn. unfold do_reap, lk in Hn; cbn [recs] in Hn.
  destruct (dead_or_left (rst r) && (gtd c <? now s - rsince r)) eqn:E.
  - apply andb_true_iff in E. destruct E as [E1 E2]. apply Z.ltb_lt in E2. auto.
  - rewrite (alookup_filter_keep _ n (recs s) r L) in Hn; [discriminate|]. cbn [fst snd]. rewrite E. reflexivity.
Qed.

(* C05: one entry of a push/pull snapshot that reports a member Alive at incarnation i lifts the
   receiver's record of that member (same address) to at least i, whatever it held *)
Lemma merge_alive_lifts c s inc name addr meta vsn r :
  lk s name = Some r -> name <> self c -> raddr r = addr -> vsn_bad vsn = false ->
  exists r', lk (fst (do_merge c s Alive inc name addr meta vsn)) name = Some r' /\ (inc <= rinc r')%N /\ (rinc r <= rinc r')%N.
Proof.
  intros L Hn Ea Vb. cbn [do_merge]. destruct (N.lt_ge_cases (rinc r) inc) as [Lt|Ge].
  - destruct (newer_alive_accepted c s inc name addr meta vsn r L Hn Ea Lt Vb) as [r' [L' [_ [Ei _]]]].
    exists r'. split; [exact L'|]. lia.
  - exists r. split; [|lia]. unfold do_alive.
    assert (E0 : N.eqb name (self c) = false) by (apply N.eqb_neq; exact Hn).
    rewrite E0, andb_false_r, Vb. unfold alive_find. fold (lk s name). rewrite L.
    assert (E1 : N.eqb (raddr r) addr = true) by (apply N.eqb_eq; exact Ea). rewrite E1.
    unfold alive_apply. rewrite E0. cbn [negb andb].
    assert (E2 : (inc <=? rinc r)%N = true) by (apply N.leb_le; exact Ge). rewrite E2. cbn [andb fst]. exact L.
Qed.

(* C03: a crashed target sends nothing, so no acknowledgement with the probe's own sequence number ever
   arrives and a TCP fallback finds nobody: the probe fails (and the node suspects the target), unless the
   ping could not even be handed to the network for a local reason *)
From VF Require Import Probe Probe_proofs.
Lemma silent_target_fails pi :
  p_send pi <> 2 -> p_tcp pi = None ->
  Forall (fun a => match a with Ack s _ => s <> p_seq pi | Nack _ _ => True end) (p_arrivals pi) ->
  probe_outcome pi = Failed.
Proof.
  intros Hs Ht Hf.
  destruct (probe_outcome pi) eqn:E; [| |reflexivity].
  - apply (answered_iff pi Hs) in E. destruct E as [[t [Hin _]]|Htc].
    + rewrite Forall_forall in Hf. specialize (Hf _ Hin). cbn in Hf. congruence.
    + unfold tcp_contact in Htc. rewrite Ht in Htc. rewrite andb_false_r in Htc. discriminate.
  - unfold probe_outcome in E. destruct (Z.eqb_spec (p_send pi) 2); [contradiction|].
    destruct (matching_ack_before pi (p_interval pi) || tcp_contact pi); discriminate.
Qed.

(* ---------- C06: a refutation that gets in between the two halves of the timeout callback ---------- *)
(* the callback checks, unlocks, and then applies a death claim at the incarnation it checked; if the member's
   alive message at a higher incarnation is processed in between, the death claim is stale and changes nothing *)
Lemma refutation_before_death_claim c s inc name addr meta vsn r from :
  lk s name = Some r -> name <> self c -> raddr r = addr -> (rinc r < inc)%N -> vsn_bad vsn = false ->
  let s' := fst (do_alive c s inc name addr meta vsn false) in
  do_dead c s' (rinc r) name from = (s', []) /\
  exists r', lk s' name = Some r' /\ rst r' = Alive /\ rinc r' = inc.
Proof.
  intros L Hn Ea Lt Vb. cbv zeta.
  destruct (newer_alive_accepted c s inc name addr meta vsn r L Hn Ea Lt Vb) as [r' [L' [A' [I' _]]]].
  split; [|exists r'; auto].
  unfold do_dead. unfold lk in L'. rewrite L'.
  assert (E : (rinc r <? rinc r')%N = true) by (apply N.ltb_lt; rewrite I'; exact Lt).
  rewrite E. reflexivity.
Qed.
