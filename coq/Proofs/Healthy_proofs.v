(* Healthy_proofs.v — C04 at the level of one node: a node that holds no suspicion and no
   accusation, and that is only fed claims which are not accusations (alive claims, self-announced
   departures of members that have left, snapshots holding only Alive/Left entries, user calls,
   the passage of time), never comes to hold one: no timer, no Suspect/Dead record, no suspect or
   foreign dead message queued, no leave event except for a member that has left. *)
From Coq Require Import List NArith ZArith Bool Lia.
Import ListNotations.
From VF Require Import Base Core Core_lemmas Core_inv.
Local Open Scope Z_scope.

Section Node.
Variable dep : N -> bool.        (* names of members that have called Leave *)
Variable c : cfg.
Hypothesis Hfixed : fixed c = true.

Definition quiet_rec (n : N) (r : rec) : Prop := rst r = Alive \/ (rst r = Left /\ dep n = true).
Definition clean_msg (m : bmsg) : Prop :=
  match m with
  | BAlive inc _ _ _ _ => (0 < inc)%N
  | BDead _ n from => from = n /\ dep n = true
  | BSuspect _ _ _ => False
  end.

Record clean (s : nstate) : Prop := mkClean {
  cl_timers : timers s = [];
  cl_recs : forall n r, lk s n = Some r -> quiet_rec n r;
  cl_pos : forall n r, lk s n = Some r -> rst r = Alive -> (0 < rinc r)%N;
  cl_bq : forall k m, In (k, m) (bq s) -> clean_msg m;
  cl_leaving : leaving s = true -> dep (self c) = true;
  cl_self : exists r, lk s (self c) = Some r;
  cl_keys : keys_ok s }.

Definition ev_quiet (e : event) : Prop :=
  match e with EvLeave n _ _ => dep n = true | EvPanic => False | _ => True end.

(* operations that are not accusations *)
Definition benign (s : nstate) (o : op) : Prop :=
  below_max (linc s) /\
  match o with
  | OAlive inc _ _ _ _ b => b = false /\ (0 < inc)%N /\ below_max inc
  | OHandleAlive _ inc _ _ _ _ => (0 < inc)%N /\ below_max inc
  | ODead _ name from => from = name /\ dep name = true /\ (name = self c -> leaving s = true)
  | OMerge Alive inc _ _ _ _ => (0 < inc)%N /\ below_max inc
  | OMerge Left _ name _ _ _ => dep name = true /\ (name = self c -> leaving s = true)
  | OMerge _ _ _ _ _ _ => False
  | OSuspect _ _ _ => False
  | OAdvance _ | OReap | OUpdate _ _ => True
  | OLeave _ => dep (self c) = true
  | OLeaveBegin | OLeaveCommit _ | OIncBegin => False
  end.

(* ---------- primitive state changes ---------- *)
Lemma In_aset {A} k (v : A) k0 v0 l : In (k, v) (aset k0 v0 l) -> (k, v) = (k0, v0) \/ In (k, v) l.
Proof.
  induction l as [|[k1 v1] l IH]; cbn.
  - intros [E|[]]. left. symmetry. exact E.
  - destruct (N.eqb k0 k1).
    + intros [E|H]; [left; symmetry; exact E | right; right; exact H].
    + intros [E|H]; [right; left; exact E|]. destruct (IH H) as [E|H']; [left; exact E | right; right; exact H'].
Qed.

Lemma clean_set_bq s k m : clean s -> clean_msg m -> clean (set_bq s k m).
Proof.
  intros [H1 H2 HP H3 H4 H5 H6] Hm. constructor; cbn; auto.
  intros k' m' Hin. apply In_aset in Hin. destruct Hin as [E|Hin]; [inversion E; subst; exact Hm | eapply H3; exact Hin].
Qed.

Lemma clean_set_rec s n r : clean s -> quiet_rec n r -> (rst r = Alive -> (0 < rinc r)%N) -> clean (set_rec s n r).
Proof.
  intros [H1 H2 HP H3 H4 H5 H6] Hq Hpos. constructor; cbn [timers bq leaving set_rec]; auto.
  - intros n' r' L. destruct (N.eq_dec n n') as [->|Hne].
    + rewrite lk_set_rec_same in L. inversion L; subst. exact Hq.
    + rewrite lk_set_rec_other in L by exact Hne. eapply H2; exact L.
  - intros n' r' L. destruct (N.eq_dec n n') as [->|Hne].
    + rewrite lk_set_rec_same in L. inversion L; subst. exact Hpos.
    + rewrite lk_set_rec_other in L by exact Hne. eapply HP; exact L.
  - destruct (N.eq_dec n (self c)) as [->|Hne].
    + exists r. apply lk_set_rec_same.
    + destruct H5 as [r0 L0]. exists r0. rewrite lk_set_rec_other by exact Hne. exact L0.
  - unfold keys_ok, set_rec; cbn [recs]. apply NoDup_aset. exact H6.
Qed.

Lemma orphan_nil s n : timers s = [] -> set_timers s (orphan n (timers s)) = s.
Proof. destruct s; cbn. intros ->. reflexivity. Qed.
Lemma clean_orphan s n : clean s -> set_timers s (orphan n (timers s)) = s.
Proof. intros [H1 _ _ _ _ _ _]. apply orphan_nil. exact H1. Qed.

Lemma clean_refute s me acc : clean s -> lk s (self c) = Some me -> below_max acc -> below_max (linc s) ->
  clean (refute c s me acc).
Proof.
  intros Hc L Ba Bl. pose proof Hc as [H1 H2 HP H3 H4 H5 H6].
  pose proof (refute_outranks s acc Ba Bl) as [_ Hgt].
  unfold refute. cbv zeta. fold (refute_inc s acc).
  apply clean_set_bq; [|cbn; lia].
  set (me' := mkRec _ (rst me) (raddr me) (rmeta me) (rvsn me) (rsince me)).
  constructor; cbn [timers bq leaving recs]; auto.
  - intros n r L'. unfold lk in L'; cbn [recs] in L'. destruct (N.eq_dec (self c) n) as [<-|Hne].
    + rewrite alookup_aset_same in L'. inversion L'; subst r. unfold me'.
      destruct (H2 _ _ L) as [A|[A B]]; [left|right; split]; cbn; auto.
    + rewrite alookup_aset_other in L' by exact Hne. eapply H2; exact L'.
  - intros n r L' A. unfold lk in L'; cbn [recs] in L'. destruct (N.eq_dec (self c) n) as [<-|Hne].
    + rewrite alookup_aset_same in L'. inversion L'; subst r. unfold me'. cbn. lia.
    + rewrite alookup_aset_other in L' by exact Hne. eapply HP; [exact L'|exact A].
  - exists me'. unfold lk; cbn [recs]. apply alookup_aset_same.
  - unfold keys_ok; cbn [recs]. apply NoDup_aset. exact H6.
Qed.

Lemma score_set_bq s k m : score (set_bq s k m) = score s. Proof. reflexivity. Qed.

(* ---------- aliveNode ---------- *)
Lemma clean_alive s inc name addr meta vsn :
  clean s -> (0 < inc)%N -> below_max inc -> below_max (linc s) ->
  let '(s', evs) := do_alive c s inc name addr meta vsn false in
  clean s' /\ Forall ev_quiet evs /\ leaving s' = leaving s.
Proof.
  intros Hc Hinc Binc Bl. pose proof Hc as [H1 H2 HP H3 H4 H5 H6].
  unfold do_alive.
  destruct (leaving s && N.eqb name (self c)); [split; [exact Hc|split; [constructor|reflexivity]]|].
  destruct (vsn_bad vsn); [split; [exact Hc|split; [constructor|reflexivity]]|].
  pose proof (alive_find_spec c s name addr meta vsn) as FS.
  destruct (alive_find c s name addr meta vsn) as [|r|s1 r updates].
  - split; [exact Hc|split; [constructor|reflexivity]].
  - split; [exact Hc|]. split; [|reflexivity]. destruct (has_conflict c); repeat constructor.
  - destruct FS as [L1 [Fr [E1 [E2 [E3 [E4 [E5 [E6 Hcase]]]]]]]].
    (* s1 is clean except, possibly, for the freshly inserted placeholder record of [name] *)
    assert (T1 : timers s1 = []) by congruence.
    assert (B1 : forall k m, In (k, m) (bq s1) -> clean_msg m) by (rewrite E4; exact H3).
    assert (Lv1 : leaving s1 = true -> dep (self c) = true) by (rewrite E2; exact H4).
    assert (K1 : keys_ok s1).
    { destruct Hcase as [[_ [-> _]] | [Ln [_ [_ [_ [Er _]]]]]]; [exact H6|].
      unfold keys_ok. rewrite Er, map_app. cbn. apply NoDup_app_one; [exact H6|].
      apply alookup_none_notin. exact Ln. }
    assert (R1 : forall n r', n <> name -> lk s1 n = Some r' -> quiet_rec n r' /\ (rst r' = Alive -> (0 < rinc r')%N)).
    { intros n r' Hn L. rewrite Fr in L by exact Hn. split; [eapply H2; exact L | eapply HP; exact L]. }
    assert (S1 : name <> self c -> exists r0, lk s1 (self c) = Some r0).
    { intro Hn. destruct H5 as [r0 L0]. exists r0. rewrite Fr by (intro E; apply Hn; symmetry; exact E). exact L0. }
    unfold alive_apply.
    assert (Hr0 : lk s name = None -> rinc r = 0%N).
    { intro Ln. destruct Hcase as [[L0 _] | [_ [Er _]]]; [congruence|]. subst r. reflexivity. }
    destruct ((inc <=? rinc r)%N && negb (N.eqb name (self c)) && negb updates) eqn:G1.
    { apply andb_true_iff in G1. destruct G1 as [G1 _]. apply andb_true_iff in G1. destruct G1 as [G1 _].
      apply N.leb_le in G1. destruct Hcase as [[L0 [-> _]] | [Ln _]]; [split; [exact Hc|split; [constructor|reflexivity]]|].
      pose proof (Hr0 Ln). lia. }
    destruct ((inc <? rinc r)%N && N.eqb name (self c)) eqn:G2.
    { apply andb_true_iff in G2. destruct G2 as [G2 _]. apply N.ltb_lt in G2.
      destruct Hcase as [[L0 [-> _]] | [Ln _]]; [split; [exact Hc|split; [constructor|reflexivity]]|].
      pose proof (Hr0 Ln). lia. }
    rewrite (orphan_nil s1 name T1).
    (* a clean version of s1 once the record of [name] is overwritten by a quiet one *)
    assert (Over : forall r', quiet_rec name r' -> (rst r' = Alive -> (0 < rinc r')%N) ->
                   forall k m, clean_msg m -> clean (set_rec (set_bq s1 k m) name r')).
    { intros r' Hq Hpos k m Hm. constructor.
      - exact T1.
      - intros n r2 L. destruct (N.eq_dec name n) as [<-|Hne].
        + rewrite lk_set_rec_same in L. inversion L; subst. exact Hq.
        + rewrite lk_set_rec_other in L by exact Hne. apply (R1 n r2); [intro E; apply Hne; symmetry; exact E | exact L].
      - intros n r2 L. destruct (N.eq_dec name n) as [<-|Hne].
        + rewrite lk_set_rec_same in L. inversion L; subst. exact Hpos.
        + rewrite lk_set_rec_other in L by exact Hne. apply (R1 n r2); [intro E; apply Hne; symmetry; exact E | exact L].
      - intros k' m' Hin. cbn [bq set_rec set_bq] in Hin. apply In_aset in Hin.
        destruct Hin as [E|Hin]; [inversion E; subst; exact Hm | eapply B1; exact Hin].
      - exact Lv1.
      - destruct (N.eq_dec name (self c)) as [E|Hne].
        + exists r'. rewrite <- E. apply lk_set_rec_same.
        + destruct (S1 Hne) as [r0 L0]. exists r0. rewrite lk_set_rec_other by exact Hne. exact L0.
      - unfold keys_ok, set_rec, set_bq; cbn [recs]. apply NoDup_aset. exact K1. }
    destruct (negb false && N.eqb name (self c)) eqn:G3.
    + (* about this node itself: its record exists, so s1 = s *)
      cbn [negb andb] in G3. apply N.eqb_eq in G3.
      assert (Es1 : s1 = s /\ lk s name = Some r).
      { destruct Hcase as [[L0 [-> _]] | [Ln _]]; [split; [reflexivity|exact L0]|].
        destruct H5 as [r0 L0]. rewrite G3 in Ln. congruence. }
      destruct Es1 as [-> L0].
      destruct (N.eqb inc (rinc r) && N.eqb meta (rmeta r) && Nlist_eqb vsn (rvsn r)).
      * split; [exact Hc|split; [constructor|reflexivity]].
      * split; [apply clean_refute; [exact Hc | rewrite <- G3; exact L0 | exact Binc | exact Bl]|].
        split; [|reflexivity]. destruct (dead_or_left (rst r)); repeat constructor.
    + split; [|split; [|exact E2]].
      * apply Over; [left; reflexivity | intros _; exact Hinc | exact Hinc].
      * destruct (dead_or_left (rst r)); [repeat constructor|].
        destruct (negb (N.eqb (rmeta r) meta)); repeat constructor.
Qed.

(* ---------- a self-announced departure ---------- *)
Lemma clean_leave_claim s inc name :
  clean s -> dep name = true -> (name = self c -> leaving s = true) ->
  let '(s', evs) := do_dead c s inc name name in
  clean s' /\ Forall ev_quiet evs /\ leaving s' = leaving s.
Proof.
  intros Hc Hd Hs. pose proof Hc as [H1 H2 HP H3 H4 H5 H6].
  unfold do_dead. fold (lk s name). destruct (lk s name) as [r|] eqn:L; [|split; [exact Hc|split; [constructor|reflexivity]]].
  destruct (inc <? rinc r)%N; [split; [exact Hc|split; [constructor|reflexivity]]|].
  rewrite (clean_orphan s name Hc).
  destruct (dead_or_left (rst r)); [split; [exact Hc|split; [constructor|reflexivity]]|].
  destruct (N.eqb_spec name (self c)) as [E|Hne]; cbn [andb].
  - pose proof (Hs E) as Lv. rewrite Lv. cbn [negb]. rewrite Hfixed, N.eqb_refl.
    split; [|split; [constructor; [exact Hd|constructor] | cbn; exact Lv]].
    apply clean_set_rec; [apply clean_set_bq; [exact Hc | split; [reflexivity|exact Hd]] | right; split; [reflexivity|exact Hd] | discriminate].
  - rewrite N.eqb_refl.
    split; [|split; [constructor; [exact Hd|constructor] | reflexivity]].
    apply clean_set_rec; [apply clean_set_bq; [exact Hc | split; [reflexivity|exact Hd]] | right; split; [reflexivity|exact Hd] | discriminate].
Qed.

(* ---------- time passing with no timer pending ---------- *)
Lemma fire_due_clean fuel target s evs :
  timers s = [] -> fire_due fuel c target s evs = (set_now s target, evs).
Proof. intro T. destruct fuel; cbn [fire_due]; [reflexivity|]. rewrite T. reflexivity. Qed.

Lemma clean_set_now s t : clean s -> clean (set_now s t).
Proof. intros [H1 H2 HP H3 H4 H5 H6]. constructor; cbn; auto. Qed.

Lemma wait_bcast_clean w s evs : clean s -> Forall ev_quiet evs ->
  let '(s', evs') := wait_bcast c w (s, evs) in clean s' /\ Forall ev_quiet evs' /\ leaving s' = leaving s.
Proof.
  intros Hc He. unfold wait_bcast. destruct (any_alive_other c s).
  - rewrite fire_due_clean by (apply Hc). split; [apply clean_set_now; exact Hc | split; [exact He | reflexivity]].
  - split; [exact Hc | split; [exact He | reflexivity]].
Qed.

(* ---------- reaping ---------- *)
Lemma clean_reap s : clean s -> clean (do_reap c s).
Proof.
  intros [H1 H2 HP H3 H4 H5 H6]. unfold do_reap. rewrite Hfixed. constructor; cbn [timers bq leaving recs]; auto.
  - intros n r L. unfold lk in L; cbn [recs] in L. apply alookup_filter_nodup in L; [|exact H6].
    destruct L as [L _]. eapply H2; exact L.
  - intros n r L. unfold lk in L; cbn [recs] in L. apply alookup_filter_nodup in L; [|exact H6].
    destruct L as [L _]. eapply HP; exact L.
  - destruct H5 as [r0 L0]. exists r0. unfold lk; cbn [recs]. apply alookup_filter_keep; [exact L0|].
    cbn [fst snd andb]. rewrite N.eqb_refl. apply orb_true_r.
  - unfold keys_ok; cbn [recs]. apply NoDup_map_filter. exact H6.
Qed.

(* ---------- one operation ---------- *)
(* C04 (one node): fed no accusation, a node holding none never produces one.  The health score can
   only move through a refutation of an alive claim about the node itself (alive_self_refuted). *)
Theorem step_clean s o :
  clean s -> benign s o ->
  let '(s', evs) := step c s o in
  clean s' /\ Forall ev_quiet evs /\ (leaving s = true -> leaving s' = true)
  /\ match o with OLeave _ => leaving s' = true | _ => True end.
Proof.
  intros Hc [Bl Hb]. pose proof Hc as [H1 H2 HP H3 H4 H5 H6].
  destruct o as [inc name addr meta vsn b | src inc name addr meta vsn | inc name from | inc name from
                | rs inc name addr meta vsn | dt | | | inc | | w | meta w]; cbn [step] in *.
  - destruct Hb as [-> [Hi Bi]]. pose proof (clean_alive s inc name addr meta vsn Hc Hi Bi Bl) as P.
    destruct (do_alive c s inc name addr meta vsn false) as [s' evs]. destruct P as [P1 [P2 P3]].
    rewrite P3. auto.
  - destruct Hb as [Hi Bi].
    destruct (negb (is_allowed c src)); [auto using Forall_nil|].
    destruct (negb (is_allowed c addr)); [auto using Forall_nil|].
    pose proof (clean_alive s inc name addr meta vsn Hc Hi Bi Bl) as P.
    destruct (do_alive c s inc name addr meta vsn false) as [s' evs]. destruct P as [P1 [P2 P3]].
    rewrite P3. auto.
  - contradiction.
  - destruct Hb as [-> [Hd Hs]]. pose proof (clean_leave_claim s inc name Hc Hd Hs) as P.
    destruct (do_dead c s inc name name) as [s' evs]. destruct P as [P1 [P2 P3]]. rewrite P3. auto.
  - destruct rs; cbn [do_merge]; try contradiction.
    + destruct Hb as [Hi Bi]. pose proof (clean_alive s inc name addr meta vsn Hc Hi Bi Bl) as P.
      destruct (do_alive c s inc name addr meta vsn false) as [s' evs]. destruct P as [P1 [P2 P3]].
      rewrite P3. auto.
    + destruct Hb as [Hd Hs]. pose proof (clean_leave_claim s inc name Hc Hd Hs) as P.
      destruct (do_dead c s inc name name) as [s' evs]. destruct P as [P1 [P2 P3]]. rewrite P3. auto.
  - rewrite fire_due_clean by exact H1. split; [apply clean_set_now; exact Hc | auto using Forall_nil].
  - split; [apply clean_reap; exact Hc | auto using Forall_nil].
  - contradiction.
  - contradiction.
  - contradiction.
  - destruct (leaving s) eqn:Lv; [auto using Forall_nil|].
    assert (Hc1 : clean (set_leaving s)).
    { constructor; cbn; auto. }
    destruct H5 as [r0 L0]. change (alookup (self c) (recs (set_leaving s))) with (lk s (self c)). rewrite L0.
    pose proof (clean_leave_claim (set_leaving s) (rinc r0) (self c) Hc1 Hb (fun _ => eq_refl)) as P.
    destruct (do_dead c (set_leaving s) (rinc r0) (self c) (self c)) as [s1 e1]. destruct P as [P1 [P2 P3]].
    pose proof (wait_bcast_clean w s1 e1 P1 P2) as Q.
    destruct (wait_bcast c w (s1, e1)) as [s2 e2]. destruct Q as [Q1 [Q2 Q3]].
    assert (leaving s2 = true) by (rewrite Q3, P3; reflexivity). auto.
  - assert (Hc1 : clean (bump_linc s)).
    { constructor; cbn; auto. }
    assert (Hl1 : (0 < linc (bump_linc s))%N).
    { unfold bump_linc; cbn [linc]. unfold below_max, two32 in *. rewrite N.mod_small by lia. lia. }
    destruct H5 as [r0 L0]. change (alookup (self c) (recs (bump_linc s))) with (lk s (self c)). rewrite L0.
    (* the node's own alive with bootstrap = true: accepted or ignored, never an accusation *)
    assert (P : let '(s1, e1) := do_alive c (bump_linc s) (linc (bump_linc s)) (self c) (raddr r0) meta (self_vsn c) true in
                clean s1 /\ Forall ev_quiet e1 /\ leaving s1 = leaving s).
    { unfold do_alive. destruct (leaving (bump_linc s) && N.eqb (self c) (self c)); [split; [exact Hc1|split; [constructor|reflexivity]]|].
      destruct (vsn_bad (self_vsn c)); [split; [exact Hc1|split; [constructor|reflexivity]]|].
      unfold alive_find. change (alookup (self c) (recs (bump_linc s))) with (lk s (self c)). rewrite L0, N.eqb_refl.
      unfold alive_apply. rewrite N.eqb_refl. cbn [negb andb]. rewrite andb_false_r. cbn [andb]. rewrite andb_true_r.
      destruct (linc (bump_linc s) <? rinc r0)%N; [split; [exact Hc1|split; [constructor|reflexivity]]|].
      rewrite (clean_orphan _ (self c) Hc1).
      split; [|split; [|reflexivity]].
      - apply clean_set_rec; [apply clean_set_bq; [exact Hc1 | exact Hl1] | left; reflexivity | intros _; exact Hl1].
      - destruct (dead_or_left (rst r0)); [repeat constructor|].
        destruct (negb (N.eqb (rmeta r0) meta)); repeat constructor. }
    destruct (do_alive c (bump_linc s) (linc (bump_linc s)) (self c) (raddr r0) meta (self_vsn c) true) as [s1 e1].
    destruct P as [P1 [P2 P3]].
    pose proof (wait_bcast_clean w s1 e1 P1 P2) as Q.
    destruct (wait_bcast c w (s1, e1)) as [s2 e2]. destruct Q as [Q1 [Q2 Q3]].
    rewrite Q3, P3. auto.
Qed.

(* what a clean node holds and says *)
Theorem clean_no_accusation s : clean s ->
  timers s = [] /\
  (forall n r, lk s n = Some r -> rst r <> Suspect /\ rst r <> Dead) /\
  (forall k m, In (k, m) (bq s) -> match m with BSuspect _ _ _ => False | BDead _ n f => f = n | _ => True end).
Proof.
  intros [H1 H2 _ H3 _ _ _]. split; [exact H1|]. split.
  - intros n r L. destruct (H2 n r L) as [E|[E _]]; rewrite E; split; discriminate.
  - intros k m Hin. specialize (H3 k m Hin). destruct m; cbn in *; auto. destruct H3; auto.
Qed.
End Node.

(* more departures keep a node clean *)
Lemma clean_mono (dep dep' : N -> bool) c s :
  (forall n, dep n = true -> dep' n = true) -> clean dep c s -> clean dep' c s.
Proof.
  intros M [H1 H2 HP H3 H4 H5 H6]. constructor; auto.
  - intros n r L. destruct (H2 n r L) as [E|[E D]]; [left; exact E | right; split; [exact E | apply M; exact D]].
  - intros k m Hin. specialize (H3 k m Hin). destruct m; cbn in *; auto. destruct H3 as [E D]. split; [exact E | apply M; exact D].
Qed.

(* the state a node starts from *)
Lemma boot_clean dep c meta :
  fixed c = true -> vsn_bad (self_vsn c) = false -> is_allowed c (self_addr c) = true -> clean dep c (boot c meta).
Proof.
  intros Hf Hv A. unfold boot. cbn [step]. unfold do_alive, init, bump_linc. cbn [leaving andb].
  rewrite Hv. unfold alive_find. cbn [recs alookup]. rewrite A.
  unfold alive_apply, new_rec. cbn [rinc rst]. rewrite N.eqb_refl. cbn [negb andb].
  rewrite andb_false_r. cbn [andb fst].
  constructor; cbn.
  - reflexivity.
  - intros n r L. unfold lk in L. cbn in L. rewrite N.eqb_refl in L. cbn in L.
    destruct (N.eqb n (self c)); [inversion L; subst; left; reflexivity | discriminate].
  - intros n r L _. unfold lk in L. cbn in L. rewrite N.eqb_refl in L. cbn in L.
    destruct (N.eqb n (self c)); [inversion L; subst; cbn; lia | discriminate].
  - intros k m [E|[]]. inversion E; subst. cbn. lia.
  - discriminate.
  - eexists. unfold lk. cbn. rewrite N.eqb_refl. cbn. rewrite N.eqb_refl. reflexivity.
  - unfold keys_ok. cbn. rewrite N.eqb_refl. cbn. constructor; [intros []|constructor].
Qed.

(* without failed probes and accusations the health score can move only when a node processes an alive
   claim about itself (and then only if it has to refute it: alive_self_refuted, alive_stale_self) *)
Lemma do_alive_score c s inc name addr meta vsn :
  let '(s', evs) := do_alive c s inc name addr meta vsn false in
  score s' = score s \/ (name = self c /\ leaving s = false).
Proof.
  unfold do_alive.
  destruct (leaving s && N.eqb name (self c)) eqn:G0; [left; reflexivity|].
  destruct (vsn_bad vsn); [left; reflexivity|].
  pose proof (alive_find_spec c s name addr meta vsn) as FS.
  destruct (alive_find c s name addr meta vsn) as [|r|s1 r updates]; [left; reflexivity | left; reflexivity |].
  destruct FS as [L1 [Fr [E1 [E2 [E3 [E4 [E5 [E6 Hcase]]]]]]]].
  unfold alive_apply.
  destruct ((inc <=? rinc r)%N && negb (N.eqb name (self c)) && negb updates); [left; exact E3|].
  destruct ((inc <? rinc r)%N && N.eqb name (self c)) eqn:G2; [left; exact E3|].
  destruct (negb false && N.eqb name (self c)) eqn:G3.
  - cbn [negb andb] in G3. apply N.eqb_eq in G3.
    destruct (N.eqb inc (rinc r) && N.eqb meta (rmeta r) && Nlist_eqb vsn (rvsn r)); [left; exact E3|].
    right. split; [exact G3|].
    destruct (leaving s); [|reflexivity]. rewrite G3, N.eqb_refl in G0. discriminate.
  - left. cbn. exact E3.
Qed.
