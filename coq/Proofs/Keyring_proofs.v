(* Keyring_proofs.v *)
From Coq Require Import List NArith ZArith Bool Lia.
Import ListNotations.
From VF Require Import Base Keyring.

Section WithValid.
Variable valid : N -> bool.

Definition RingInv (s : kstate) : Prop :=
  NoDup (ring s) /\ Forall (fun k => valid k = true) (ring s) /\ cur s < length (arrs s).

Lemma ring_install s keys p : ring (install s keys p) = p :: filter (fun k => negb (N.eqb k p)) keys.
Proof. unfold ring, install; cbn [arrs cur]. rewrite app_nth2 by lia. rewrite Nat.sub_diag. reflexivity. Qed.

Lemma NoDup_filter_ne p l : NoDup l -> NoDup (p :: filter (fun k => negb (N.eqb k p)) l).
Proof.
  intro ND. constructor.
  - intro H. apply filter_In in H. destruct H as [_ H]. rewrite N.eqb_refl in H. discriminate.
  - apply NoDup_filter. exact ND.
Qed.

Lemma Forall_filter {A} (P : A -> Prop) f l : Forall P l -> Forall P (filter f l).
Proof. intro H. rewrite Forall_forall in *. intros x Hx. apply filter_In in Hx. apply H. tauto. Qed.

Lemma remove_at_incl {A} i (l : list A) : incl (remove_at i l) l.
Proof.
  revert i. induction l as [|a l IH]; intros [|i]; cbn; intros x Hx; auto.
  - right. exact Hx.
  - destruct Hx as [<-|Hx]; [left; reflexivity | right; eapply IH; exact Hx].
Qed.

Lemma remove_at_NoDup {A} i (l : list A) : NoDup l -> NoDup (remove_at i l).
Proof.
  revert i. induction l as [|a l IH]; intros [|i] ND; cbn; auto; inversion ND; subst; auto.
  constructor; [|apply IH; assumption]. intro H. apply remove_at_incl in H. contradiction.
Qed.

Lemma Nmem_false_notin k l : Nmem k l = false -> ~ In k l.
Proof. intros H Hin. apply Nmem_In in Hin. congruence. Qed.

Lemma NoDup_snoc (l : list N) k : NoDup l -> ~ In k l -> NoDup (l ++ [k]).
Proof.
  induction l as [|a l IH]; cbn; intros ND Hn; [constructor; [intros []|constructor]|].
  inversion ND; subst. constructor.
  - intro H. apply in_app_or in H. destruct H as [H|[H|[]]]; [contradiction | subst; apply Hn; left; reflexivity].
  - apply IH; [assumption | intro H; apply Hn; right; exact H].
Qed.

(* every operation, repaired or not, keeps the ring well formed *)
Theorem kstep_inv fixed s o : RingInv s -> RingInv (fst (kstep valid fixed s o)).
Proof.
  intros HI. pose proof HI as [ND [FV Hc]]. destruct o as [k|k|k| |]; cbn [kstep].
  - destruct (valid k) eqn:V; cbn [negb]; [|exact HI].
    destruct (Nmem k (ring s)) eqn:M; [exact HI|]. cbn [fst].
    unfold RingInv. rewrite ring_install.
    assert (NDk : NoDup (ring s ++ [k])) by (apply NoDup_snoc; [exact ND | apply Nmem_false_notin; exact M]).
    assert (FVk : Forall (fun k0 => valid k0 = true) (ring s ++ [k])) by (apply Forall_app; split; [exact FV | repeat constructor; exact V]).
    split; [apply NoDup_filter_ne; exact NDk|]. split.
    + constructor; [|apply Forall_filter; exact FVk].
      destruct (ring s) as [|p r]; [exact V | inversion FV; assumption].
    + unfold install; cbn. rewrite app_length. cbn. lia.
  - destruct (Nmem k (ring s)) eqn:M; [|exact HI]. cbn [fst]. unfold RingInv. rewrite ring_install.
    split; [apply NoDup_filter_ne; exact ND|]. split.
    + constructor; [|apply Forall_filter; exact FV]. apply Nmem_In in M. rewrite Forall_forall in FV. apply FV. exact M.
    + unfold install; cbn. rewrite app_length. cbn. lia.
  - remember (ring s) as rs eqn:R. destruct rs as [|p r]; [destruct fixed; exact HI|].
    destruct (N.eqb k p); [exact HI|].
    destruct (index_of k (p :: r)) as [i|]; [|exact HI]. cbn [fst].
    unfold RingInv. rewrite ring_install.
    assert (ND' : NoDup (remove_at i (p :: r))) by (apply remove_at_NoDup; exact ND).
    assert (FV' : Forall (fun k0 => valid k0 = true) (remove_at i (p :: r))).
    { rewrite Forall_forall in *. intros x Hx. apply FV. eapply remove_at_incl. exact Hx. }
    split; [apply NoDup_filter_ne; exact ND'|]. split.
    + constructor; [inversion FV; assumption | apply Forall_filter; exact FV'].
    + destruct fixed; unfold install; cbn; rewrite app_length; cbn; lia.
  - exact HI.
  - exact HI.
Qed.

(* the repaired code never panics *)
Theorem kstep_no_panic s o : kres (snd (kstep valid true s o)) <> 2%N.
Proof.
  destruct o as [k|k|k| |]; cbn [kstep].
  - destruct (negb (valid k)); [cbn; discriminate|]. destruct (Nmem k (ring s)); cbn; discriminate.
  - destruct (Nmem k (ring s)); cbn; discriminate.
  - destruct (ring s) as [|p r]; [cbn; discriminate|]. destruct (N.eqb k p); [cbn; discriminate|].
    destruct (index_of k (p :: r)); cbn; discriminate.
  - cbn; discriminate.
  - cbn; discriminate.
Qed.

(* the repaired code never changes an array once it exists: a list handed out by GetKeys is immutable *)
Theorem kstep_arrays_frozen s o :
  exists ext, arrs (fst (kstep valid true s o)) = arrs s ++ ext.
Proof.
  destruct o as [k|k|k| |]; cbn [kstep].
  - destruct (negb (valid k)); [exists []; rewrite app_nil_r; reflexivity|].
    destruct (Nmem k (ring s)); [exists []; rewrite app_nil_r; reflexivity|]. cbn. eexists. reflexivity.
  - destruct (Nmem k (ring s)); [cbn; eexists; reflexivity | exists []; rewrite app_nil_r; reflexivity].
  - destruct (ring s) as [|p r]; [exists []; rewrite app_nil_r; reflexivity|].
    destruct (N.eqb k p); [exists []; rewrite app_nil_r; reflexivity|].
    destruct (index_of k (p :: r)); [cbn; eexists; reflexivity | exists []; rewrite app_nil_r; reflexivity].
  - exists []; rewrite app_nil_r; reflexivity.
  - exists []; rewrite app_nil_r; reflexivity.
Qed.

Theorem krun_inv fixed : forall ops s, RingInv s -> RingInv (fst (krun valid fixed s ops)).
Proof.
  induction ops as [|o ops IH]; intros s H; cbn [krun]; [exact H|].
  pose proof (kstep_inv fixed s o H) as H1. destruct (kstep valid fixed s o) as [s1 x]. cbn [fst] in H1.
  destruct (N.eqb (kres x) 2); [exact H1|]. specialize (IH s1 H1). destruct (krun valid fixed s1 ops) as [s2 xs]. exact IH.
Qed.

Theorem krun_arrays_frozen : forall ops s h, h < length (arrs s) ->
  nth h (arrs (fst (krun valid true s ops))) [] = nth h (arrs s) [].
Proof.
  induction ops as [|o ops IH]; intros s h Hh; cbn [krun]; [reflexivity|].
  destruct (kstep_arrays_frozen s o) as [ext E]. pose proof (kstep_no_panic s o) as NP.
  destruct (kstep valid true s o) as [s1 x]. cbn [fst snd] in *.
  destruct (N.eqb_spec (kres x) 2); [contradiction|].
  specialize (IH s1 h). destruct (krun valid true s1 ops) as [s2 xs]. cbn [fst] in *.
  rewrite IH by (rewrite E, app_length; lia). rewrite E. apply app_nth1. exact Hh.
Qed.

Theorem krun_no_panic : forall ops s, Forall (fun x => kres x <> 2%N) (snd (krun valid true s ops)).
Proof.
  induction ops as [|o ops IH]; intros s; cbn [krun]; [constructor|].
  pose proof (kstep_no_panic s o) as NP. destruct (kstep valid true s o) as [s1 x]. cbn [snd] in NP.
  destruct (N.eqb_spec (kres x) 2); [contradiction|]. specialize (IH s1). destruct (krun valid true s1 ops) as [s2 xs].
  constructor; assumption.
Qed.

End WithValid.

(* ---------- zero-downtime rotation: install new everywhere, use new everywhere, remove old everywhere ---------- *)
Definition vtrue (k : N) : bool := true.
Definition ring_at_phase (old new : N) (p : nat) : list N :=
  ring (fst (krun vtrue true (mkK [[old]] 0) (firstn p [KAdd new; KUse new; KRemove old]))).

Lemma ring_phases old new : old <> new ->
  ring_at_phase old new 0 = [old] /\ ring_at_phase old new 1 = [old; new]
  /\ ring_at_phase old new 2 = [new; old] /\ ring_at_phase old new 3 = [new].
Proof.
  intro H. assert (E1 : N.eqb new old = false) by (apply N.eqb_neq; intro; apply H; symmetry; assumption).
  assert (E2 : N.eqb old new = false) by (apply N.eqb_neq; exact H).
  unfold ring_at_phase, vtrue.
  repeat split; unfold ring, install; repeat (cbn; rewrite ?E1, ?E2, ?N.eqb_refl); reflexivity.
Qed.

(* phases of all nodes lie within one barrier window *)
Definition window_ok (ps : list nat) : Prop :=
  Forall (fun p => p <= 1) ps \/ Forall (fun p => 1 <= p <= 2) ps \/ Forall (fun p => 2 <= p <= 3) ps.

Theorem rotation_safe old new ps : old <> new -> window_ok ps ->
  forall pi pj, In pi ps -> In pj ps ->
  exists prim, hd_error (ring_at_phase old new pi) = Some prim /\ In prim (ring_at_phase old new pj).
Proof.
  intros Hne W pi pj Hi Hj. destruct (ring_phases old new Hne) as [R0 [R1 [R2 R3]]].
  assert (Cases : forall p, p <= 3 -> p = 0 \/ p = 1 \/ p = 2 \/ p = 3) by (intros; lia).
  destruct W as [W|[W|W]]; rewrite Forall_forall in W; pose proof (W pi Hi) as Bi; pose proof (W pj Hj) as Bj.
  - assert (pi = 0 \/ pi = 1) as [->| ->] by lia; assert (pj = 0 \/ pj = 1) as [->| ->] by lia;
      rewrite ?R0, ?R1; eexists; split; try reflexivity; cbn; auto.
  - assert (pi = 1 \/ pi = 2) as [->| ->] by lia; assert (pj = 1 \/ pj = 2) as [->| ->] by lia;
      rewrite ?R1, ?R2; eexists; split; try reflexivity; cbn; auto.
  - assert (pi = 2 \/ pi = 3) as [->| ->] by lia; assert (pj = 2 \/ pj = 3) as [->| ->] by lia;
      rewrite ?R2, ?R3; eexists; split; try reflexivity; cbn; auto.
Qed.

(* the defects of the pinned tree, as witnesses on the unrepaired model *)
Example alias_refuted :
  let '(s, xs) := krun vtrue false (mkK [[1; 2; 3]%N] 0) [KGetKeys; KRemove 2] in
  nth 0 (arrs s) [] = [1; 3; 3]%N /\ ring s = [1; 3]%N.
Proof. vm_compute. split; reflexivity. Qed.

Example remove_empty_refuted :
  map kres (snd (krun vtrue false (mkK [[]] 0) [KRemove 1])) = [2%N].
Proof. vm_compute. reflexivity. Qed.
