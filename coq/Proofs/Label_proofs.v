(* Label_proofs.v — C16 codec theorems. *)
From Coq Require Import List NArith ZArith Bool Lia.
Import ListNotations.
From VF Require Import Base Label.

Lemma blen_nat l : (length l <= 255)%nat -> N.to_nat (blen l) = length l.
Proof. intros _. unfold blen. apply Nat2N.id. Qed.

(* adding then removing the packet header returns payload and label, for every label of 1..255 bytes *)
Theorem packet_roundtrip label buf :
  label <> [] -> (length label <= 255)%nat ->
  match add_label buf label with
  | Ok p => remove_label p = Ok (buf, label)
  | _ => False
  end.
Proof.
  intros Hne Hlen. unfold add_label. destruct label as [|l0 ls]; [contradiction|].
  assert (E : (255 <? blen (l0 :: ls))%N = false).
  { apply N.ltb_ge. unfold blen. lia. }
  rewrite E. unfold remove_label. unfold has_label_msg at 1. rewrite N.eqb_refl. cbn [negb].
  assert (E1 : (blen (l0 :: ls) <? 1)%N = false) by (apply N.ltb_ge; unfold blen; cbn; lia).
  rewrite E1. rewrite blen_nat by exact Hlen.
  assert (E2 : (length ((l0 :: ls) ++ buf) <? length (l0 :: ls))%nat = false).
  { apply Nat.ltb_ge. rewrite app_length. lia. }
  rewrite E2. f_equal. f_equal.
  - rewrite skipn_app, Nat.sub_diag, skipn_all. reflexivity.
  - rewrite firstn_app, Nat.sub_diag, firstn_all. cbn [firstn]. rewrite app_nil_r. reflexivity.
Qed.

(* an over-long label is refused; the empty label adds nothing *)
Theorem overlong_label_err label buf : (255 < length label)%nat -> add_label buf label = Err 1.
Proof.
  intro H. unfold add_label. destruct label as [|l0 ls]; [cbn in H; lia|].
  assert (E : (255 <? blen (l0 :: ls))%N = true) by (apply N.ltb_lt; unfold blen; lia). rewrite E. reflexivity.
Qed.

(* no header byte: the packet passes through unchanged with the empty label *)
Theorem no_header_passthrough buf : (forall b r, buf = b :: r -> b <> has_label_msg) -> remove_label buf = Ok (buf, []).
Proof.
  intro H. destruct buf as [|b r]; [reflexivity|]. cbn. specialize (H b r eq_refl).
  destruct (N.eqb_spec b has_label_msg); [contradiction | reflexivity].
Qed.

(* truncated headers are errors, never a (mis)parsed label *)
Theorem truncated_header_err :
  remove_label [has_label_msg] = Err 2 /\
  forall sz rest, (1 <= sz)%N -> (length rest < N.to_nat sz)%nat -> remove_label (has_label_msg :: sz :: rest) = Err 2.
Proof.
  split; [reflexivity|]. intros sz rest H1 H2. unfold remove_label. rewrite N.eqb_refl. cbn [negb].
  destruct (N.ltb_spec sz 1); [lia|]. destruct (Nat.ltb_spec (length rest) (N.to_nat sz)); [reflexivity | lia].
Qed.

(* ---- streams: bufio.Peek through any fragmentation ---- *)
Lemma fill_until_spec n : forall frags buf,
  (length buf <= bufsize)%nat ->
  let '(b, f) := fill_until n buf frags in
  b ++ concat f = buf ++ concat frags
  /\ (length buf <= length b)%nat /\ (length b <= bufsize)%nat
  /\ ((n <= length b)%nat \/ (f = [] ) \/ length b = bufsize).
Proof.
  induction frags as [|fr frags IH]; intros buf Hb; cbn [fill_until].
  - destruct (Nat.leb_spec n (length buf)); repeat split; auto; lia.
  - destruct (Nat.leb_spec n (length buf)) as [H|H]; [repeat split; auto; lia|].
    destruct (Nat.leb_spec (length fr) (bufsize - length buf)) as [Hr|Hr].
    + specialize (IH (buf ++ fr)). rewrite app_length in IH. specialize (IH ltac:(lia)).
      destruct (fill_until n (buf ++ fr) frags) as [b f]. destruct IH as [I1 [I2 [I3 I4]]].
      repeat split; auto; try lia. rewrite I1. cbn [concat]. rewrite app_assoc. reflexivity.
    + repeat split.
      * cbn [concat]. rewrite <- app_assoc. f_equal. rewrite app_assoc. f_equal. apply firstn_skipn.
      * rewrite app_length. lia.
      * rewrite app_length, firstn_length. lia.
      * right. right. rewrite app_length, firstn_length. lia.
Qed.

Lemma firstn_app_exact {A} (a b : list A) : firstn (length a) (a ++ b) = a.
Proof. rewrite firstn_app, Nat.sub_diag, firstn_all. cbn. apply app_nil_r. Qed.
Lemma skipn_app_exact {A} (a b : list A) : skipn (length a) (a ++ b) = b.
Proof. rewrite skipn_app, Nat.sub_diag, skipn_all. reflexivity. Qed.

Lemma prefix_of_concat (b : list N) (f : list (list N)) (h p : list N) :
  b ++ concat f = h ++ p -> (length h <= length b)%nat -> firstn (length h) b = h /\ skipn (length h) b ++ concat f = p.
Proof.
  intros E Hl. assert (Eb : b = firstn (length h) b ++ skipn (length h) b) by (symmetry; apply firstn_skipn).
  rewrite Eb in E. rewrite <- app_assoc in E.
  assert (Lf : length (firstn (length h) b) = length h) by (rewrite firstn_length; lia).
  assert (H1 : firstn (length h) b = h).
  { apply (f_equal (firstn (length h))) in E. rewrite <- Lf in E at 1. rewrite firstn_app_exact in E.
    rewrite firstn_app_exact in E. exact E. }
  split; [exact H1|]. rewrite H1 in E. apply app_inv_head in E. exact E.
Qed.

(* header + payload delivered in ANY fragmentation (also splits inside the header): the label comes
   back and the continuation yields exactly the payload *)
Theorem stream_roundtrip label payload frags :
  label <> [] -> (length label <= 255)%nat ->
  concat frags = label_header label ++ payload ->
  exists pc, remove_label_stream frags = Ok (label, pc) /\ drain pc = payload.
Proof.
  intros Hne Hlen Hc. unfold remove_label_stream.
  destruct label as [|l0 ls]; [contradiction|]. cbn [label_header] in Hc.
  set (lab := l0 :: ls) in *.
  pose proof (fill_until_spec 1 frags [] ltac:(cbn; unfold bufsize; lia)) as S1.
  destruct (fill_until 1 [] frags) as [b1 f1]. destruct S1 as [A1 [A2 [A3 A4]]]. cbn [app] in A1.
  assert (T1 : b1 ++ concat f1 = has_label_msg :: blen lab :: lab ++ payload) by (rewrite A1; exact Hc).
  assert (L1 : (1 <= length b1)%nat).
  { destruct A4 as [H|[H|H]]; [exact H | | unfold bufsize in H; lia].
    subst f1. cbn in T1. rewrite app_nil_r in T1. rewrite T1. cbn. lia. }
  destruct b1 as [|b0 b1']; [cbn in L1; lia|].
  assert (B0 : b0 = has_label_msg) by (cbn in T1; inversion T1; reflexivity).
  subst b0. rewrite N.eqb_refl. cbn [negb].
  pose proof (fill_until_spec 2 f1 (has_label_msg :: b1') A3) as S2.
  destruct (fill_until 2 (has_label_msg :: b1') f1) as [b2 f2]. destruct S2 as [C1 [C2 [C3 C4]]].
  assert (T2 : b2 ++ concat f2 = has_label_msg :: blen lab :: lab ++ payload) by (rewrite C1; exact T1).
  assert (L2 : (2 <= length b2)%nat).
  { destruct C4 as [H|[H|H]]; [exact H | | unfold bufsize in H; lia].
    subst f2. cbn in T2. rewrite app_nil_r in T2. rewrite T2. cbn. lia. }
  destruct b2 as [|x0 [|sz b2']]; [cbn in L2; lia | cbn in L2; lia |].
  assert (Esz : sz = blen lab) by (cbn in T2; inversion T2; reflexivity).
  subst sz.
  assert (E1 : (blen lab <? 1)%N = false) by (apply N.ltb_ge; unfold blen, lab; cbn; lia).
  rewrite E1. rewrite blen_nat by exact Hlen.
  pose proof (fill_until_spec (2 + length lab) f2 (x0 :: blen lab :: b2') C3) as S3.
  destruct (fill_until (2 + length lab) (x0 :: blen lab :: b2') f2) as [b3 f3]. destruct S3 as [D1 [D2 [D3 D4]]].
  assert (T3 : b3 ++ concat f3 = (has_label_msg :: blen lab :: lab) ++ payload).
  { rewrite D1, T2. cbn. reflexivity. }
  assert (L3 : (2 + length lab <= length b3)%nat).
  { destruct D4 as [H|[H|H]]; [exact H | | unfold bufsize in H; lia].
    subst f3. cbn in T3. rewrite app_nil_r in T3. rewrite T3. cbn. rewrite app_length. lia. }
  destruct (Nat.ltb_spec (length b3) (2 + length lab)); [lia|].
  assert (Hh : length (has_label_msg :: blen lab :: lab) = (2 + length lab)%nat) by reflexivity.
  destruct (prefix_of_concat b3 f3 (has_label_msg :: blen lab :: lab) payload T3 ltac:(rewrite Hh; lia)) as [P1 P2].
  rewrite Hh in P1, P2.
  exists (mkPC (skipn (2 + length lab) b3) f3). split; [|unfold drain; cbn [peeked rest_frags]; exact P2].
  f_equal. f_equal.
  assert (Eb3 : b3 = firstn (2 + length lab) b3 ++ skipn (2 + length lab) b3) by (symmetry; apply firstn_skipn).
  rewrite P1 in Eb3. rewrite Eb3. cbn [skipn app]. apply firstn_app_exact.
Qed.

(* an unlabeled stream (first byte is not the header byte) is passed on untouched *)
Theorem stream_no_header_passthrough frags b rest :
  concat frags = b :: rest -> b <> has_label_msg ->
  exists pc, remove_label_stream frags = Ok ([], pc) /\ drain pc = b :: rest.
Proof.
  intros Hc Hb. unfold remove_label_stream.
  pose proof (fill_until_spec 1 frags [] ltac:(cbn; unfold bufsize; lia)) as S1.
  destruct (fill_until 1 [] frags) as [b1 f1]. destruct S1 as [A1 [A2 [A3 A4]]]. cbn [app] in A1.
  assert (L1 : (1 <= length b1)%nat).
  { destruct A4 as [H|[H|H]]; [exact H | | unfold bufsize in H; lia].
    subst f1. cbn in A1. rewrite app_nil_r in A1. rewrite A1, Hc. cbn. lia. }
  destruct b1 as [|b0 b1']; [cbn in L1; lia|].
  assert (B0 : b0 = b) by (rewrite Hc in A1; cbn in A1; inversion A1; reflexivity). subst b0.
  destruct (N.eqb_spec b has_label_msg); [contradiction|]. cbn [negb].
  eexists. split; [reflexivity|]. unfold drain; cbn [peeked rest_frags]. rewrite A1. exact Hc.
Qed.
