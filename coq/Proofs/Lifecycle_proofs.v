From Coq Require Import List NArith ZArith Bool Lia.
Import ListNotations.
From VF Require Import Base Lifecycle Core Core_lemmas Core_inv Core_props.

Ltac brute s c := destruct s as [[] [] [] [] []]; destruct c; cbn; intros; try reflexivity; try discriminate; try congruence.

(* repaired code: the own record is never lost *)
Lemma lstep_keeps_self s c : self_present s = true -> self_present (fst (lstep true s c)) = true.
Proof. brute s c. Qed.

Lemma shut_step lf s c : shut (fst (lstep lf s c)) = match c with LShutdown => true | _ => shut s end.
Proof. destruct lf; brute s c. Qed.

Lemma lstep_shut_mono lf s c : shut s = true -> shut (fst (lstep lf s c)) = true.
Proof. intro H. rewrite shut_step. destruct c; auto. Qed.

Lemma allowed_cons sh c cs : allowed_seq sh (c :: cs) =
  (match c with LLeave => negb sh | _ => true end) && allowed_seq (match c with LShutdown => true | _ => sh end) cs.
Proof. destruct c; reflexivity. Qed.

Lemma lstep_no_panic s c : self_present s = true -> (match c with LLeave => negb (shut s) | _ => true end) = true ->
  lpanic (snd (lstep true s c)) = false.
Proof. brute s c. Qed.

(* C20: no allowed sequence of public calls and background steps panics *)
Theorem no_panic : forall cs s, self_present s = true -> allowed_seq (shut s) cs = true ->
  Forall (fun r => lpanic r = false) (snd (lrun true s cs)).
Proof.
  induction cs as [|c cs IH]; intros s Hp Ha; cbn [lrun]; [constructor|].
  rewrite allowed_cons in Ha. apply andb_true_iff in Ha. destruct Ha as [Hh Ha].
  pose proof (lstep_keeps_self s c Hp) as Hp1.
  pose proof (lstep_no_panic s c Hp Hh) as Hr.
  pose proof (shut_step true s c) as Hs.
  destruct (lstep true s c) as [s1 r]. cbn [fst snd] in *. rewrite <- Hs in Ha. specialize (IH s1 Hp1 Ha).
  destruct (lrun true s1 cs) as [s2 rs]. cbn [snd] in *. constructor; assumption.
Qed.

(* Shutdown and Leave are idempotent *)
Theorem shutdown_idempotent s : let s1 := fst (lstep true s LShutdown) in lstep true s1 LShutdown = (s1, mkLR false false).
Proof. destruct s; reflexivity. Qed.

Theorem leave_idempotent s : shut s = false -> self_present s = true ->
  let s1 := fst (lstep true s LLeave) in lstep true s1 LLeave = (s1, mkLR false false).
Proof. intros H1 H2. destruct s as [sh lf sp ag tr]; cbn in *. subst. destruct lf; reflexivity. Qed.

(* once Shutdown has returned nothing uses the network any more *)
Lemma lstep_silent s c : shut s = true -> transport_open s = false ->
  lsent (snd (lstep true s c)) = false /\ transport_open (fst (lstep true s c)) = false.
Proof. brute s c; split; reflexivity. Qed.

Theorem silent_after_shutdown : forall cs s, shut s = true -> transport_open s = false ->
  Forall (fun r => lsent r = false) (snd (lrun true s cs)).
Proof.
  induction cs as [|c cs IH]; intros s Hs Ht; cbn [lrun]; [constructor|].
  destruct (lstep_silent s c Hs Ht) as [Hr Ht1].
  pose proof (lstep_shut_mono true s c Hs) as Hs1.
  destruct (lstep true s c) as [s1 r]. cbn [fst snd] in *. specialize (IH s1 Hs1 Ht1).
  destruct (lrun true s1 cs) as [s2 rs]. constructor; assumption.
Qed.

Theorem shutdown_closes_transport s : let s1 := fst (lstep true s LShutdown) in shut s1 = true /\ transport_open s1 = false.
Proof. destruct s; split; reflexivity. Qed.

(* the link to the membership model: in every reachable node state of the repaired code the node's own
   record exists -- the reaping pass never removes it (what LocalNode / UpdateNode / Leave dereference) *)
Theorem self_record_kept c : fixed c = true -> forall s o r,
  FInv c s -> op_ok c s o -> lk s (self c) = Some r -> exists r', lk (fst (step c s o)) (self c) = Some r'.
Proof.
  intros Hf s o r HI Ho L. destruct (step_monotone c Hf s o HI Ho (self c) r L) as [[r' [L' _]]|[_ [_ [_ Hn]]]].
  - exists r'. exact L'.
  - contradiction.
Qed.

(* the pinned tree: leave, let the own record age out, reap, then use an accessor *)
Example localnode_refuted :
  map lpanic (snd (lrun false l0 [LLeave; LAdvance; LReap; LLocalNode; LUpdateNode])) = [false; false; false; true; true].
Proof. vm_compute. reflexivity. Qed.

Example dial_after_shutdown_refuted :
  map lsent (snd (lrun false l0 [LShutdown; LSendReliable])) = [false; true].
Proof. vm_compute. reflexivity. Qed.

Example core_reaps_self_refuted :
  let c := mkCfg 0 0 [1;5;2;0;0;0]%N 0 30000000000 2 4000000000 6 [] 8 true false [] false in
  let s := fst (run c (boot c 1) [OLeave 1000000; OAdvance 31000000001; OReap]) in
  lk s 0 = None /\ snd (step c s (OUpdate 2 1000000)) = [EvPanic].
Proof. vm_compute. split; reflexivity. Qed.
