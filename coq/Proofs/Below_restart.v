(* Below_restart.v — C05 when members may also crash and come back under the same name.
   A restarted member starts again at incarnation 1 while claims from its earlier life are still held by
   others and still on the network, so "below the owner's current counter" is no longer an invariant.
   What stays true for every schedule: no claim about a member ever carries an incarnation above one that
   the member itself announced at some moment of the run (in this life or an earlier one); and a
   restarted member that hears such a claim jumps strictly above it. *)
From Coq Require Import List NArith ZArith Bool Lia.
Import ListNotations.
From VF Require Import Base Core Core_lemmas Core_inv Core_props Below_proofs Cluster Cluster_proofs Below_cluster.
Local Open Scope Z_scope.

Inductive ract :=
| RA (g : gact)
| RRestart (i : nat) (meta : N).       (* the process is replaced by a fresh one with the same configuration *)

Definition rstep (w : world) (a : ract) : world :=
  match a with
  | RA g => fst (gstep w g)
  | RRestart i meta =>
      match nth_error (wnodes w) i with
      | Some (c, _) => mkW (upd i (fun _ => (c, boot c meta)) (wnodes w)) (wpool w)
      | None => w
      end
  end.

(* the run, remembering every world it went through (newest first) *)
Fixpoint rrun (w : world) (tr : list world) (l : list ract) : world * list world :=
  match l with
  | [] => (w, tr)
  | a :: l' => let w' := rstep w a in rrun w' (w' :: tr) l'
  end.

(* member n's counter was v at some moment of the run *)
Definition announced (tr : list world) (n v : N) : Prop :=
  exists w c s, In w tr /\ In (c, s) (wnodes w) /\ self c = n /\ linc s = v.

Definition hle (tr : list world) (n inc : N) : Prop :=
  inc = 0%N \/ exists v, announced tr n v /\ (inc <= v)%N.

Lemma hle_mono tr w n inc : hle tr n inc -> hle (w :: tr) n inc.
Proof.
  intros [E|[v [[w0 [c [s [H1 H2]]]] Hv]]]; [left; exact E|].
  right. exists v. split; [|exact Hv]. exists w0, c, s. split; [right; exact H1 | exact H2].
Qed.

Record RW (tr : list world) (w : world) : Prop := mkRW {
  rw_here : In w tr;
  rw_nodes : forall c s, In (c, s) (wnodes w) -> good_cfg c /\ FInv c s /\ bounded c (hle tr) s;
  rw_pool : forall p, In p (wpool w) -> hle tr (pname p) (pinc p);
  rw_names : NoDup (names w) }.

(* what a node holds is within what its subject announced *)
Lemma ok_claim_hle tr w c s n inc :
  In w tr -> In (c, s) (wnodes w) -> ok_claim c (hle tr) (linc s) n inc -> hle tr n inc.
Proof.
  intros Hw Hin H. unfold ok_claim in H. destruct (N.eqb_spec n (self c)) as [E|Hne]; [|exact H].
  destruct H as [H|H]; [|exact H].
  right. exists (linc s). split; [|exact H]. exists w, c, s. auto.
Qed.

Lemma hle_ok_claim tr c l n inc : hle tr n inc -> ok_claim c (hle tr) l n inc.
Proof. intro H. unfold ok_claim. destruct (N.eqb n (self c)); [right; exact H | exact H]. Qed.

Lemma hle0 tr n : hle tr n 0%N.
Proof. left. reflexivity. Qed.

(* ---------- one Core operation at one node ---------- *)
Lemma at_node_RW tr w i o c s :
  RW tr w -> nth_error (wnodes w) i = Some (c, s) -> op_ok c s o -> op_claim_ok c (hle tr) s o ->
  RW (fst (at_node w i o) :: tr) (fst (at_node w i o)).
Proof.
  intros [Hh Hn Hp Hu] Hi Hok Hcl. unfold at_node. rewrite Hi.
  assert (Hin : In (c, s) (wnodes w)) by (eapply nth_error_In; exact Hi).
  destruct (Hn c s Hin) as [Hg [HF Hb]]. pose proof Hg as [Hf _].
  pose proof (step_bounded c Hf (hle tr) (hle0 tr) s o HF Hok Hb Hcl) as [Sb Sl].
  pose proof (step_FInv c Hf s o HF Hok) as SF.
  destruct (step c s o) as [s' evs]. cbn [fst] in *.
  set (w' := mkW (upd i (fun _ => (c, s')) (wnodes w)) (wpool w)).
  constructor.
  - left. reflexivity.
  - intros c0 s0 H0. destruct (In_upd (fun _ => (c, s')) (wnodes w) i (c0, s0) H0) as [K|[y [K1 K2]]].
    + destruct (Hn c0 s0 K) as [F0 [I0 B0]]. split; [exact F0|]. split; [exact I0|].
      apply (bounded_mono c0 (hle tr)); [intros n k; apply hle_mono | exact B0].
    + inversion K2; subst c0 s0. split; [exact Hg|]. split; [exact SF|].
      apply (bounded_mono c (hle tr)); [intros n k; apply hle_mono | exact Sb].
  - intros p Hp'. apply hle_mono. apply Hp. exact Hp'.
  - unfold names, w'; cbn [wnodes]. rewrite (names_upd (wnodes w) i c s s' Hi). exact Hu.
Qed.

Lemma RW_same tr w : RW tr w -> RW (w :: tr) w.
Proof.
  intros [Hh Hn Hp Hu]. constructor; [left; reflexivity | | | exact Hu].
  - intros c s Hin. destruct (Hn c s Hin) as [A [B C]]. split; [exact A|]. split; [exact B|].
    apply (bounded_mono c (hle tr)); [intros n k; apply hle_mono | exact C].
  - intros p Hin. apply hle_mono. apply Hp. exact Hin.
Qed.

Theorem gstep_RW tr w g : RW tr w -> gact_ok w g -> RW (fst (gstep w g) :: tr) (fst (gstep w g)).
Proof.
  intros HW Hok. pose proof HW as [Hh Hn Hp Hu]. unfold gact_ok in Hok.
  destruct (gact_op w g) as [[i o]|] eqn:Eop.
  - rewrite (gstep_at_node w g i o Eop).
    destruct (nth_error (wnodes w) i) as [[c s]|] eqn:Hi.
    2:{ unfold at_node. rewrite Hi. cbn [fst]. apply RW_same. exact HW. }
    assert (Hin : In (c, s) (wnodes w)) by (eapply nth_error_In; exact Hi).
    assert (Hcl : op_claim_ok c (hle tr) s o).
    { destruct g as [[j|j|j k|j meta wt|j wt|j dt|j]|j n]; cbn [gact_op] in Eop; try discriminate.
      - destruct (nth_error (wpool w) k) as [p|] eqn:Hk; [|discriminate]. inversion Eop; subst.
        pose proof (Hp p (nth_error_In _ _ Hk)) as Cp.
        destruct p as [[inc name addr meta vsn | inc name from | inc name from] | rs inc name addr meta vsn];
          cbn [op_of op_claim_ok pname pinc mname minc] in *; apply hle_ok_claim; assumption.
      - inversion Eop; subst. exact I.
      - inversion Eop; subst. exact I.
      - inversion Eop; subst. exact I.
      - inversion Eop; subst. exact I.
      - destruct (nth_error (wnodes w) j) as [[c1 s1]|] eqn:Hj; [|discriminate].
        destruct (alookup n (recs s1)) as [r|] eqn:L; [|discriminate].
        inversion Eop; subst. rewrite Hi in Hj. inversion Hj; subst c1 s1. cbn [op_claim_ok].
        destruct (Hn c s Hin) as [_ [_ Hb]]. apply (bd_recs _ _ _ Hb). apply alookup_some_in. exact L. }
    apply (at_node_RW tr w i o c s HW Hi Hok Hcl).
  - destruct g as [[j|j|j k|j meta wt|j wt|j dt|j]|j n]; cbn [gact_op] in Eop; try discriminate; cbn [gstep wstep].
    + destruct (nth_error (wnodes w) j) as [[c s]|] eqn:Hi; [|cbn [fst]; apply RW_same; exact HW].
      cbn [fst]. pose proof (nth_error_In _ _ Hi) as Hc. destruct (Hn c s Hc) as [_ [_ Hb]].
      set (w' := mkW _ _). constructor; [left; reflexivity | | | exact Hu].
      * intros c0 s0 H0. cbn [wnodes w'] in H0. destruct (Hn c0 s0 H0) as [A [B C]]. split; [exact A|]. split; [exact B|].
        apply (bounded_mono c0 (hle tr)); [intros n k; apply hle_mono | exact C].
      * intros p Hin. cbn [wpool w'] in Hin. apply hle_mono.
        apply in_app_or in Hin. destruct Hin as [Hin|Hin]; [|apply Hp; exact Hin].
        apply in_map_iff in Hin. destruct Hin as [[k m] [E Hin]]. subst p. cbn [pname pinc snd].
        apply (ok_claim_hle tr w c s); [exact Hh | exact Hc | apply (bd_bq _ _ _ Hb k m Hin)].
    + destruct (nth_error (wnodes w) j) as [[c s]|] eqn:Hi; [|cbn [fst]; apply RW_same; exact HW].
      cbn [fst]. pose proof (nth_error_In _ _ Hi) as Hc. destruct (Hn c s Hc) as [_ [_ Hb]].
      set (w' := mkW _ _). constructor; [left; reflexivity | | | exact Hu].
      * intros c0 s0 H0. cbn [wnodes w'] in H0. destruct (Hn c0 s0 H0) as [A [B C]]. split; [exact A|]. split; [exact B|].
        apply (bounded_mono c0 (hle tr)); [intros n k; apply hle_mono | exact C].
      * intros p Hin. cbn [wpool w'] in Hin. apply hle_mono.
        apply in_app_or in Hin. destruct Hin as [Hin|Hin]; [|apply Hp; exact Hin].
        unfold snapshot in Hin. apply in_map_iff in Hin. destruct Hin as [[n r] [E Hin]]. subst p. cbn [pname pinc fst snd].
        apply (ok_claim_hle tr w c s); [exact Hh | exact Hc | apply (bd_recs _ _ _ Hb n r Hin)].
    + destruct (nth_error (wpool w) k); [discriminate|]. cbn [fst]. apply RW_same. exact HW.
    + destruct (nth_error (wnodes w) j) as [[c s]|]; [|cbn [fst]; apply RW_same; exact HW].
      destruct (alookup n (recs s)); [discriminate|]. cbn [fst]. apply RW_same. exact HW.
Qed.

Lemma boot_bounded tr c meta : good_cfg c -> bounded c (hle tr) (boot c meta).
Proof.
  intros [F [V A]]. rewrite (boot_eq c meta A V). constructor; cbn [recs bq linc].
  - intros n r [E'|[]]. inversion E'; subst. unfold ok_claim. rewrite N.eqb_refl. left. cbn. lia.
  - intros k m [E'|[]]. inversion E'; subst. unfold ok_claim. cbn [mname minc]. rewrite N.eqb_refl. left. lia.
Qed.

Definition ract_ok (w : world) (a : ract) : Prop := match a with RA g => gact_ok w g | RRestart _ _ => True end.

Theorem rstep_RW tr w a : RW tr w -> ract_ok w a -> RW (rstep w a :: tr) (rstep w a).
Proof.
  intros HW Hok. destruct a as [g|i meta]; cbn [rstep ract_ok] in *.
  - apply gstep_RW; assumption.
  - pose proof HW as [Hh Hn Hp Hu].
    destruct (nth_error (wnodes w) i) as [[c s]|] eqn:Hi; [|apply RW_same; exact HW].
    assert (Hin : In (c, s) (wnodes w)) by (eapply nth_error_In; exact Hi).
    destruct (Hn c s Hin) as [Hg _].
    constructor; [left; reflexivity | | | ].
    + intros c0 s0 H0. cbn [wnodes] in H0.
      destruct (In_upd (fun _ => (c, boot c meta)) (wnodes w) i (c0, s0) H0) as [K|[y [K1 K2]]].
      * destruct (Hn c0 s0 K) as [F0 [I0 B0]]. split; [exact F0|]. split; [exact I0|].
        apply (bounded_mono c0 (hle tr)); [intros n k; apply hle_mono | exact B0].
      * inversion K2; subst c0 s0. split; [exact Hg|]. pose proof Hg as [F [V A]].
        split; [apply boot_FInv; assumption | apply boot_bounded; exact Hg].
    + intros p Hp'. apply hle_mono. apply Hp. exact Hp'.
    + unfold names; cbn [wnodes]. rewrite (names_upd (wnodes w) i c s (boot c meta) Hi). exact Hu.
Qed.

Fixpoint rrun_ok (w : world) (l : list ract) : Prop :=
  match l with
  | [] => True
  | a :: l' => ract_ok w a /\ rrun_ok (rstep w a) l'
  end.

Theorem rrun_RW : forall l tr w, RW tr w -> rrun_ok w l -> RW (snd (rrun w tr l)) (fst (rrun w tr l)).
Proof.
  induction l as [|a l IH]; intros tr w HW Hok; cbn [rrun fst snd]; [exact HW|].
  destruct Hok as [Ha Hl]. apply IH; [apply rstep_RW; assumption | exact Hl].
Qed.

Lemma boot_world_RW cs :
  Forall (fun cm => good_cfg (fst cm)) cs -> NoDup (map (fun cm => self (fst cm)) cs) ->
  RW [boot_world cs] (boot_world cs).
Proof.
  intros Hg Hu. constructor.
  - left. reflexivity.
  - intros c s Hin. unfold boot_world in Hin; cbn [wnodes] in Hin. apply in_map_iff in Hin.
    destruct Hin as [[c0 m0] [E Hin]]. cbn [fst snd] in E. inversion E; subst c s.
    rewrite Forall_forall in Hg. pose proof (Hg _ Hin) as G. cbn [fst] in G. pose proof G as [F [V A]].
    split; [exact G|]. split; [apply boot_FInv; assumption | apply boot_bounded; exact G].
  - intros p [].
  - unfold names, boot_world; cbn [wnodes]. rewrite map_map. cbn [fst]. exact Hu.
Qed.

(* C05 with restarts: in every reachable state, every claim about a member — held by any node, queued
   for gossip anywhere, or ever put on the network — carries an incarnation the member itself reached at
   some moment of the run, or a lower one *)
Theorem claims_below_history cs acts :
  Forall (fun cm => good_cfg (fst cm)) cs -> NoDup (map (fun cm => self (fst cm)) cs) ->
  rrun_ok (boot_world cs) acts ->
  let w := fst (rrun (boot_world cs) [boot_world cs] acts) in
  let tr := snd (rrun (boot_world cs) [boot_world cs] acts) in
  (forall c s n r, In (c, s) (wnodes w) -> lk s n = Some r -> hle tr n (rinc r)) /\
  (forall c s k m, In (c, s) (wnodes w) -> In (k, m) (bq s) -> hle tr (mname m) (minc m)) /\
  (forall p, In p (wpool w) -> hle tr (pname p) (pinc p)).
Proof.
  intros Hg Hu Hok w tr.
  pose proof (rrun_RW acts _ _ (boot_world_RW cs Hg Hu) Hok) as [Hh Hn Hp Hnames]. fold w tr in Hh, Hn, Hp, Hnames.
  split; [|split].
  - intros c s n r Hin L. destruct (Hn c s Hin) as [_ [_ Hb]].
    apply (ok_claim_hle tr w c s); [exact Hh | exact Hin |].
    apply (bd_recs _ _ _ Hb n r (alookup_some_in _ _ _ L)).
  - intros c s k m Hin Hm. destruct (Hn c s Hin) as [_ [_ Hb]].
    apply (ok_claim_hle tr w c s); [exact Hh | exact Hin | apply (bd_bq _ _ _ Hb k m Hm)].
  - exact Hp.
Qed.

(* a member — freshly restarted or not — that hears an accusation at or above its own record moves
   strictly above the accusation and queues its alive message *)
Theorem restarted_member_overtakes c s r inc from :
  Inv c s -> leaving s = false -> lk s (self c) = Some r -> rst r = Alive -> (rinc r <= inc)%N ->
  below_max inc -> below_max (linc s) ->
  let s' := fst (do_suspect c s inc (self c) from) in
  (inc < linc s')%N /\ (linc s < linc s')%N /\
  alookup (kaddr (raddr r)) (bq s') = Some (BAlive (linc s') (self c) (raddr r) (rmeta r) (rvsn r)).
Proof.
  intros HI Lv L A Ge Bi Bl. cbv zeta.
  rewrite (suspect_self_refuted c s inc from r HI Lv L A Ge). cbn [fst].
  pose proof (refute_effect c s r inc Bi Bl) as [R1 [R2 [R3 [R4 _]]]].
  split; [|split; [|exact R4]].
  - unfold refute. cbv zeta. fold (refute_inc s inc). cbn [linc set_bq]. apply (refute_outranks s inc Bi Bl).
  - unfold refute. cbv zeta. fold (refute_inc s inc). cbn [linc set_bq]. apply (refute_outranks s inc Bi Bl).
Qed.

(* ---------- decidable side condition (for examples) ---------- *)
Definition ract_okb (w : world) (a : ract) : bool := match a with RA g => gact_okb w g | RRestart _ _ => true end.
Fixpoint rrun_okb (w : world) (l : list ract) : bool :=
  match l with
  | [] => true
  | a :: l' => ract_okb w a && rrun_okb (rstep w a) l'
  end.
Lemma rrun_okb_ok : forall l w, rrun_okb w l = true -> rrun_ok w l.
Proof.
  induction l as [|a l IH]; intros w H; cbn in *; [exact I|].
  apply andb_true_iff in H. destruct H as [H1 H2]. split; [|apply IH; exact H2].
  destruct a as [g|i m]; cbn in *; [|exact I].
  pose proof (grun_okb_ok [g] w) as X. cbn in X. rewrite H1 in X. apply X. reflexivity.
Qed.
