(* Agree_proofs.v — C04, the health score.  One node: if every alive claim about the node itself that
   it is fed is an echo of its own record or older than it, the node never refutes, its health score does
   not move, and every alive claim it holds afterwards was held before, is the claim it was fed, or is
   the node's own new announcement (UpdateNode). *)
From Coq Require Import List NArith ZArith Bool Lia.
Import ListNotations.
From VF Require Import Base Core Core_lemmas Core_inv Healthy_proofs.
Local Open Scope Z_scope.

(* an alive claim: name, incarnation, address, metadata, version vector *)
Record aclaim := mkA { a_name : N; a_inc : N; a_addr : N; a_meta : N; a_vsn : list N }.
Definition rec_claim (n : N) (r : rec) : aclaim := mkA n (rinc r) (raddr r) (rmeta r) (rvsn r).

(* the claims a node holds: its Alive records and the alive messages in its broadcast queue *)
Definition holds (s : nstate) (a : aclaim) : Prop :=
  (exists r, In (a_name a, r) (recs s) /\ rst r = Alive /\ rec_claim (a_name a) r = a) \/
  (exists k, In (k, BAlive (a_inc a) (a_name a) (a_addr a) (a_meta a) (a_vsn a)) (bq s)).

(* an echo of the record r, or older *)
Definition eos (r : rec) (a : aclaim) : Prop :=
  (a_inc a < rinc r)%N \/ (a_inc a = rinc r /\ a_addr a = raddr r /\ a_meta a = rmeta r /\ a_vsn a = rvsn r).

Lemma In_aset {A} k (v : A) k0 v0 l : In (k, v) (aset k0 v0 l) -> (k, v) = (k0, v0) \/ In (k, v) l.
Proof.
  induction l as [|[k1 v1] l IH]; cbn.
  - intros [E|[]]. left. symmetry. exact E.
  - destruct (N.eqb k0 k1).
    + intros [E|H]; [left; symmetry; exact E | right; right; exact H].
    + intros [E|H]; [right; left; exact E|]. destruct (IH H) as [E|H']; [left; exact E | right; right; exact H'].
Qed.

Lemma holds_same s s' a : recs s' = recs s -> bq s' = bq s -> holds s' a -> holds s a.
Proof. unfold holds. intros -> ->. auto. Qed.

Lemma holds_set_bq s k m a :
  holds (set_bq s k m) a -> holds s a \/ m = BAlive (a_inc a) (a_name a) (a_addr a) (a_meta a) (a_vsn a).
Proof.
  intros [H|[k' H]]; [left; left; exact H|]. cbn [bq set_bq] in H. apply In_aset in H.
  destruct H as [E|H]; [right; inversion E; reflexivity | left; right; exists k'; exact H].
Qed.

Lemma holds_set_rec s n r a :
  holds (set_rec s n r) a -> holds s a \/ (rst r = Alive /\ a = rec_claim n r).
Proof.
  intros [[r' [H [A E]]]|H]; [|left; right; exact H]. cbn [recs set_rec] in H. apply In_aset in H.
  destruct H as [E'|H].
  - right. inversion E'; subst. split; [exact A | symmetry; exact E].
  - left. left. exists r'. auto.
Qed.

Section Node.
Variable dep : N -> bool.
Variable c : cfg.
Hypothesis Hfixed : fixed c = true.
Hypothesis Hvsn : length (self_vsn c) = 6%nat.

(* alive claims fed to the node: six version bytes; about the node itself only echoes or older ones *)
Definition alive_in (s : nstate) (name inc addr meta : N) (vsn : list N) : Prop :=
  length vsn = 6%nat /\
  (name = self c -> forall r, lk s (self c) = Some r -> eos r (mkA name inc addr meta vsn)).

Definition agreeable (s : nstate) (o : op) : Prop :=
  match o with
  | OAlive inc name addr meta vsn _ | OHandleAlive _ inc name addr meta vsn | OMerge Alive inc name addr meta vsn =>
      alive_in s name inc addr meta vsn
  | _ => True
  end.

Definition op_claim (o : op) : option aclaim :=
  match o with
  | OAlive inc name addr meta vsn _ | OHandleAlive _ inc name addr meta vsn | OMerge Alive inc name addr meta vsn =>
      Some (mkA name inc addr meta vsn)
  | _ => None
  end.

(* the node's own record never runs ahead of its counter *)
Definition own_inc (s : nstate) : Prop := forall r, lk s (self c) = Some r -> (rinc r <= linc s)%N.

(* a node that has called Leave holds itself Left (or Dead) *)
Definition left_inv (s : nstate) : Prop :=
  leaving s = true -> forall r, lk s (self c) = Some r -> dead_or_left (rst r) = true.

(* same announced fields *)
Definition same_fields (r r' : rec) : Prop :=
  rinc r' = rinc r /\ raddr r' = raddr r /\ rmeta r' = rmeta r /\ rvsn r' = rvsn r.

Record agree_step (s s' : nstate) (o : op) : Prop := mkAS {
  as_holds : forall a, holds s' a -> holds s a \/ op_claim o = Some a \/
               (* the node's own new announcement, which its own record now echoes *)
               (exists meta w r0 r', o = OUpdate meta w /\ lk s (self c) = Some r0 /\
                                     a = mkA (self c) (linc s + 1) (raddr r0) meta (self_vsn c) /\
                                     lk s' (self c) = Some r' /\ rec_claim (self c) r' = a);
  as_score : score s' = score s;
  as_own : forall r, lk s (self c) = Some r -> exists r', lk s' (self c) = Some r' /\
             (same_fields r r' \/
              (exists meta w, o = OUpdate meta w /\ (rinc r < rinc r')%N /\
                              rec_claim (self c) r' = mkA (self c) (linc s + 1) (raddr r) meta (self_vsn c)));
  as_own_inc : own_inc s';
  as_left : left_inv s' }.

Lemma same_fields_refl r : same_fields r r. Proof. repeat split. Qed.

(* ---------- aliveNode, never refuting ---------- *)
Lemma agree_alive s inc name addr meta vsn o :
  clean dep c s -> own_inc s -> left_inv s -> (0 < inc)%N -> alive_in s name inc addr meta vsn ->
  op_claim o = Some (mkA name inc addr meta vsn) -> (forall m w, o <> OUpdate m w) ->
  agree_step s (fst (do_alive c s inc name addr meta vsn false)) o.
Proof.
  intros Hc Hoi Hli Hinc [Hlen Heos] Hop Hnu. pose proof Hc as [H1 H2 HP H3 H4 H5 H6].
  assert (Same : agree_step s s o).
  { constructor; auto. intros r L. exists r. split; [exact L | left; apply same_fields_refl]. }
  unfold do_alive.
  destruct (leaving s && N.eqb name (self c)); [exact Same|].
  destruct (vsn_bad vsn); [exact Same|].
  pose proof (alive_find_spec c s name addr meta vsn) as FS.
  destruct (alive_find c s name addr meta vsn) as [|r|s1 r updates]; [exact Same | exact Same |].
  destruct FS as [L1 [Fr [E1 [E2 [E3 [E4 [E5 [E6 Hcase]]]]]]]].
  (* s1 holds what s holds: the placeholder it may have appended is a Dead record *)
  assert (Hs1 : forall a, holds s1 a -> holds s a).
  { destruct Hcase as [[_ [-> _]] | [Ln [Er [_ [_ [Erecs _]]]]]]; [auto|].
    intros a [[r' [Hin [A Ea]]]|[k Hin]].
    - rewrite Erecs in Hin. apply in_app_or in Hin. destruct Hin as [Hin|[E|[]]].
      + left. exists r'. auto.
      + inversion E; subst. cbn in A. discriminate.
    - right. exists k. rewrite E4 in Hin. exact Hin. }
  assert (Own1 : name <> self c -> lk s1 (self c) = lk s (self c)).
  { intro Hn. apply Fr. intro E; apply Hn; symmetry; exact E. }
  assert (OwnS : name = self c -> s1 = s /\ lk s (self c) = Some r).
  { intro En. destruct Hcase as [[Ls [-> _]] | [Ln _]]; [split; [reflexivity | rewrite <- En; exact Ls]|].
    destruct H5 as [r5 L5]. rewrite En in Ln. congruence. }
  assert (S1 : agree_step s s1 o).
  { constructor.
    - intros a Ha. left. apply Hs1. exact Ha.
    - exact E3.
    - intros r0 L0. destruct (N.eq_dec name (self c)) as [En|Hn].
      + destruct (OwnS En) as [-> _]. exists r0. split; [exact L0 | left; apply same_fields_refl].
      + exists r0. rewrite (Own1 Hn). split; [exact L0 | left; apply same_fields_refl].
    - intros r0 L0. rewrite E1. destruct (N.eq_dec name (self c)) as [En|Hn].
      + destruct (OwnS En) as [-> _]. apply Hoi; exact L0.
      + rewrite (Own1 Hn) in L0. apply Hoi. exact L0.
    - intros Lv r0 L0. rewrite E2 in Lv. destruct (N.eq_dec name (self c)) as [En|Hn].
      + destruct (OwnS En) as [-> _]. apply (Hli Lv r0 L0).
      + rewrite (Own1 Hn) in L0. apply (Hli Lv r0 L0). }
  unfold alive_apply.
  destruct ((inc <=? rinc r)%N && negb (N.eqb name (self c)) && negb updates); [exact S1|].
  destruct ((inc <? rinc r)%N && N.eqb name (self c)) eqn:G2; [exact S1|].
  assert (T1 : timers s1 = []) by congruence.
  rewrite (orphan_nil s1 name T1).
  destruct (negb false && N.eqb name (self c)) eqn:G3.
  - (* about the node itself: an echo, by hypothesis *)
    cbn [negb andb] in G3. apply N.eqb_eq in G3.
    destruct (OwnS G3) as [-> L0].
    destruct (Heos G3 r L0) as [Lt | [Ei [Ea [Em Ev]]]]; cbn [a_inc a_addr a_meta a_vsn] in *.
    + rewrite G3, N.eqb_refl, andb_true_r in G2. apply N.ltb_ge in G2. lia.
    + assert (X : N.eqb inc (rinc r) && N.eqb meta (rmeta r) && Nlist_eqb vsn (rvsn r) = true).
      { rewrite Ei, Em, Ev, !N.eqb_refl. cbn [andb]. unfold Nlist_eqb. apply (list_eqb_eq N.eqb N.eqb_eq). reflexivity. }
      rewrite X. exact Same.
  - (* about another member: accepted *)
    assert (Hn : name <> self c).
    { intro E. rewrite E, N.eqb_refl in G3. discriminate. }
    cbn [fst].
    assert (Ev : (if (6 <=? length vsn)%nat then firstn 6 vsn else rvsn r) = vsn).
    { rewrite Hlen. cbn [Nat.leb]. rewrite <- Hlen. apply firstn_all. }
    rewrite Ev.
    constructor.
    + intros a Ha. apply holds_set_rec in Ha. destruct Ha as [Ha|[_ Ea]].
      * apply holds_set_bq in Ha. destruct Ha as [Ha|Em].
        -- left. apply Hs1. exact Ha.
        -- right. left. rewrite Hop. inversion Em. destruct a; cbn in *; subst; reflexivity.
      * right. left. rewrite Hop, Ea. reflexivity.
    + cbn. exact E3.
    + intros r0 L0. exists r0. rewrite lk_set_rec_other by exact Hn. rewrite lk_set_bq. rewrite (Own1 Hn).
      split; [exact L0 | left; apply same_fields_refl].
    + intros r0 L0. rewrite lk_set_rec_other in L0 by exact Hn. rewrite lk_set_bq in L0. rewrite (Own1 Hn) in L0.
      cbn [linc set_rec set_bq]. rewrite E1. apply Hoi. exact L0.
    + intros Lv r0 L0. cbn [leaving set_rec set_bq] in Lv. rewrite E2 in Lv.
      rewrite lk_set_rec_other in L0 by exact Hn. rewrite lk_set_bq in L0. rewrite (Own1 Hn) in L0. apply (Hli Lv r0 L0).
Qed.

(* ---------- a self-announced departure ---------- *)
Lemma agree_leave_claim s inc name o :
  clean dep c s -> own_inc s -> (name <> self c -> left_inv s) -> op_claim o = None -> (forall m w, o <> OUpdate m w) ->
  (name = self c -> leaving s = true /\
     forall r, lk s (self c) = Some r -> dead_or_left (rst r) = false -> inc = rinc r) ->
  agree_step s (fst (do_dead c s inc name name)) o.
Proof.
  intros Hc Hoi Hli Hop Hnu Hself. pose proof Hc as [H1 H2 HP H3 H4 H5 H6].
  assert (Same : (name = self c -> forall r, lk s (self c) = Some r -> dead_or_left (rst r) = true) -> agree_step s s o).
  { intro Hx. constructor; auto.
    - intros r L. exists r. split; [exact L | left; apply same_fields_refl].
    - intros Lv r L. destruct (N.eq_dec name (self c)) as [En|Hn]; [apply (Hx En r L) | apply (Hli Hn Lv r L)]. }
  unfold do_dead. fold (lk s name). destruct (lk s name) as [r|] eqn:L.
  2:{ apply Same. intros En. rewrite En in L. destruct H5 as [r5 L5]. congruence. }
  destruct (N.ltb_spec inc (rinc r)) as [Lt|Ge].
  { apply Same. intros En r0 L0. rewrite En in L. rewrite L in L0. inversion L0; subst r0.
    destruct (dead_or_left (rst r)) eqn:DL; [reflexivity|].
    pose proof (proj2 (Hself En) r L DL). lia. }
  rewrite (clean_orphan dep c s name Hc).
  destruct (dead_or_left (rst r)) eqn:DL.
  { apply Same. intros En r0 L0. rewrite En in L. rewrite L in L0. inversion L0; subst r0. exact DL. }
  assert (Res : forall from', agree_step s (set_rec (set_bq s (kname name) (BDead inc name from')) name
                   (mkRec inc (if N.eqb name from' then Left else Dead) (raddr r) (rmeta r) (rvsn r) (now s))) o).
  { intro from'. constructor.
    - intros a Ha. apply holds_set_rec in Ha. destruct Ha as [Ha|[A _]].
      + apply holds_set_bq in Ha. destruct Ha as [Ha|Em]; [left; exact Ha | discriminate].
      + cbn in A. destruct (N.eqb name from'); discriminate.
    - reflexivity.
    - intros r0 L0. destruct (N.eq_dec name (self c)) as [En|Hn].
      + subst name. rewrite L in L0. inversion L0; subst r0.
        eexists. rewrite lk_set_rec_same. split; [reflexivity|]. left.
        unfold same_fields; cbn. repeat split. apply (proj2 (Hself eq_refl) r L DL).
      + exists r0. rewrite lk_set_rec_other by exact Hn. rewrite lk_set_bq. split; [exact L0 | left; apply same_fields_refl].
    - intros r0 L0. cbn [linc set_rec set_bq]. destruct (N.eq_dec name (self c)) as [En|Hn].
      + subst name. rewrite lk_set_rec_same in L0. inversion L0; subst r0. cbn.
        rewrite (proj2 (Hself eq_refl) r L DL). apply Hoi. exact L.
      + rewrite lk_set_rec_other in L0 by exact Hn. rewrite lk_set_bq in L0. apply Hoi. exact L0.
    - intros Lv r0 L0. cbn [leaving set_rec set_bq] in Lv. destruct (N.eq_dec name (self c)) as [En|Hn].
      + subst name. rewrite lk_set_rec_same in L0. inversion L0; subst r0. cbn. destruct (N.eqb (self c) from'); reflexivity.
      + rewrite lk_set_rec_other in L0 by exact Hn. rewrite lk_set_bq in L0. apply (Hli Hn Lv r0 L0). }
  destruct (N.eqb_spec name (self c)) as [E|Hne]; cbn [andb].
  - rewrite (proj1 (Hself E)). cbn [negb]. cbn [fst]. apply Res.
  - cbn [fst]. apply Res.
Qed.

Lemma agree_set_now s s0 t o : agree_step s s0 o -> agree_step s (set_now s0 t) o.
Proof.
  intros [A1 A2 A3 A4 A5]. constructor; auto.
Qed.

Lemma agree_wait s s0 evs w o : timers s0 = [] -> agree_step s s0 o -> agree_step s (fst (wait_bcast c w (s0, evs))) o.
Proof.
  intros T A. unfold wait_bcast. destruct (any_alive_other c s0); [|exact A].
  rewrite (fire_due_clean c _ _ s0 evs T). cbn [fst]. apply agree_set_now. exact A.
Qed.

(* ---------- one operation ---------- *)
Theorem step_agree s o :
  clean dep c s -> own_inc s -> left_inv s -> benign dep c s o -> agreeable s o ->
  agree_step s (fst (step c s o)) o.
Proof.
  intros Hc Hoi Hli [Bl Hb] Hag. pose proof Hc as [H1 H2 HP H3 H4 H5 H6].
  assert (Same : agree_step s s o).
  { constructor; auto. intros r L. exists r. split; [exact L | left; apply same_fields_refl]. }
  destruct o as [inc name addr meta vsn b | src inc name addr meta vsn | inc name from | inc name from
                | rs inc name addr meta vsn | dt | | | inc | | w | meta w]; cbn [step] in *.
  - destruct Hb as [-> [Hi Bi]]. apply agree_alive; auto. intros; discriminate.
  - destruct Hb as [Hi Bi].
    destruct (negb (is_allowed c src)); [exact Same|].
    destruct (negb (is_allowed c addr)); [exact Same|].
    apply agree_alive; auto. intros; discriminate.
  - contradiction.
  - destruct Hb as [-> [Hd Hs]]. apply agree_leave_claim; auto; try (intros; discriminate).
    intro En. split; [apply Hs; exact En|]. intros r L DL. rewrite (Hli (Hs En) r L) in DL. discriminate.
  - destruct rs; cbn [do_merge]; try contradiction.
    + destruct Hb as [Hi Bi]. apply agree_alive; auto. intros; discriminate.
    + destruct Hb as [Hd Hs]. apply agree_leave_claim; auto; try (intros; discriminate).
      intro En. split; [apply Hs; exact En|]. intros r L DL. rewrite (Hli (Hs En) r L) in DL. discriminate.
  - rewrite (fire_due_clean c _ _ s [] H1). cbn [fst]. apply agree_set_now. exact Same.
  - (* reaping *)
    cbn [fst]. unfold do_reap. rewrite Hfixed. constructor.
    + intros a [[r' [Hin [A Ea]]]|Hq]; [|left; right; exact Hq].
      cbn [recs] in Hin. apply filter_In in Hin. left. left. exists r'. tauto.
    + reflexivity.
    + intros r L. exists r. split; [|left; apply same_fields_refl].
      unfold lk; cbn [recs]. apply alookup_filter_keep; [exact L|]. cbn [fst snd andb]. rewrite N.eqb_refl. apply orb_true_r.
    + intros r L. unfold lk in L; cbn [recs] in L. apply alookup_filter_nodup in L; [|exact H6]. cbn [linc]. apply Hoi. apply L.
    + intros Lv r L. cbn [leaving] in Lv. unfold lk in L; cbn [recs] in L. apply alookup_filter_nodup in L; [|exact H6].
      apply (Hli Lv r (proj1 L)).
  - contradiction.
  - contradiction.
  - contradiction.
  - (* Leave *)
    destruct (leaving s) eqn:Lv; [exact Same|].
    assert (Hc1 : clean dep c (set_leaving s)).
    { constructor; cbn; auto. }
    destruct H5 as [r0 L0]. change (alookup (self c) (recs (set_leaving s))) with (lk s (self c)). rewrite L0.
    assert (A1 : agree_step (set_leaving s) (fst (do_dead c (set_leaving s) (rinc r0) (self c) (self c))) (OLeave w)).
    { apply agree_leave_claim; auto; try (intros; discriminate).
      - intro Hne. exfalso. apply Hne. reflexivity.
      - intros _. split; [reflexivity|]. intros r L _. change (lk (set_leaving s) (self c)) with (lk s (self c)) in L. congruence. }
    pose proof (clean_leave_claim dep c Hfixed (set_leaving s) (rinc r0) (self c) Hc1 Hb (fun _ => eq_refl)) as P.
    destruct (do_dead c (set_leaving s) (rinc r0) (self c) (self c)) as [s1 e1]. destruct P as [P1 _]. cbn [fst] in A1.
    assert (A2 : agree_step (set_leaving s) (fst (wait_bcast c w (s1, e1))) (OLeave w)).
    { apply agree_wait; [apply P1 | exact A1]. }
    destruct A2 as [B1 B2 B3 B4 B5]. constructor; auto.
  - (* UpdateNode *)
    assert (El : linc (bump_linc s) = (linc s + 1)%N).
    { unfold bump_linc; cbn [linc]. unfold below_max, two32 in *. rewrite N.mod_small by lia. reflexivity. }
    assert (Hc1 : clean dep c (bump_linc s)).
    { constructor; cbn; auto. }
    destruct H5 as [r0 L0]. change (alookup (self c) (recs (bump_linc s))) with (lk s (self c)). rewrite L0.
    pose proof (Hoi r0 L0) as Hr0.
    assert (Bump : agree_step s (bump_linc s) (OUpdate meta w)).
    { constructor; auto.
      - intros r L. exists r. split; [exact L | left; apply same_fields_refl].
      - intros r L. rewrite El. change (lk (bump_linc s) (self c)) with (lk s (self c)) in L. pose proof (Hoi r L). lia. }
    (* the node's own announcement *)
    rewrite El. set (i1 := (linc s + 1)%N). assert (Ei1 : i1 = (linc s + 1)%N) by reflexivity.
    assert (A1 : agree_step s (fst (do_alive c (bump_linc s) i1 (self c) (raddr r0) meta (self_vsn c) true)) (OUpdate meta w)
                 /\ timers (fst (do_alive c (bump_linc s) i1 (self c) (raddr r0) meta (self_vsn c) true)) = []).
    { unfold do_alive. change (leaving (bump_linc s)) with (leaving s). rewrite N.eqb_refl, andb_true_r.
      destruct (leaving s) eqn:Lv0; [split; [exact Bump | exact H1]|].
      destruct (vsn_bad (self_vsn c)); [split; [exact Bump | exact H1]|].
      unfold alive_find. change (alookup (self c) (recs (bump_linc s))) with (lk s (self c)). rewrite L0, N.eqb_refl.
      unfold alive_apply. rewrite N.eqb_refl. cbn [negb andb]. rewrite andb_false_r. cbn [andb]. rewrite andb_true_r.
      destruct (N.ltb_spec i1 (rinc r0)) as [Lt|Ge]; [lia|].
      rewrite (clean_orphan dep c _ (self c) Hc1). cbn [fst].
      assert (Ev : (if (6 <=? length (self_vsn c))%nat then firstn 6 (self_vsn c) else rvsn r0) = self_vsn c).
      { rewrite Hvsn. cbn [Nat.leb]. rewrite <- Hvsn. apply firstn_all. }
      rewrite Ev. split; [|exact H1].
      constructor.
      - intros a Ha. apply holds_set_rec in Ha. destruct Ha as [Ha|[_ Ea]].
        + apply holds_set_bq in Ha. destruct Ha as [Ha|Em]; [left; exact Ha|].
          right. right. eexists meta, w, r0, _. split; [reflexivity|]. split; [exact L0|].
          assert (Ea : a = mkA (self c) i1 (raddr r0) meta (self_vsn c)) by (inversion Em; destruct a; cbn in *; subst; reflexivity).
          split; [rewrite Ea, Ei1; reflexivity|]. split; [apply lk_set_rec_same | rewrite Ea; reflexivity].
        + right. right. eexists meta, w, r0, _. split; [reflexivity|]. split; [exact L0|].
          split; [rewrite Ea, Ei1; reflexivity|]. split; [apply lk_set_rec_same | rewrite Ea; reflexivity].
      - reflexivity.
      - intros r L. rewrite L0 in L. inversion L; subst r. eexists. rewrite lk_set_rec_same. split; [reflexivity|].
        right. exists meta, w. split; [reflexivity|]. split; [cbn; lia | rewrite Ei1; reflexivity].
      - intros r L. rewrite lk_set_rec_same in L. inversion L; subst r. cbn [linc set_rec set_bq rinc]. rewrite El. lia.
      - intros Lv r L. cbn [leaving set_rec set_bq bump_linc] in Lv. congruence. }
    destruct A1 as [A1 T1].
    destruct (do_alive c (bump_linc s) i1 (self c) (raddr r0) meta (self_vsn c) true) as [s1 e1]. cbn [fst] in *.
    apply agree_wait; assumption.
Qed.
End Node.
