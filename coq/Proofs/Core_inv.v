(* Core_inv.v — invariants of every reachable node state and the per-step theorems
   behind C01, C02, C07, C08, C18. *)
From Coq Require Import List NArith ZArith Bool Lia.
Import ListNotations.
From VF Require Import Base Core Core_lemmas.

Local Open Scope Z_scope.

Section WithCfg.
Variable c : cfg.
Hypothesis Hfixed : fixed c = true.

(* live suspicion timers exist only for suspected members *)
Definition TInv (s : nstate) : Prop :=
  forall t, In t (timers s) -> tlive t = true -> exists r, lk s (tname t) = Some r /\ rst r = Suspect.
(* C02: a running node lists itself alive, at an incarnation it has drawn *)
Definition SelfInv (s : nstate) : Prop :=
  leaving s = false -> exists r, lk s (self c) = Some r /\ rst r = Alive /\ (rinc r <= linc s)%N.
(* C18: every record carries an allowed address *)
Definition AllowedInv (s : nstate) : Prop :=
  forall n r, lk s n = Some r -> is_allowed c (raddr r) = true.

Record Inv (s : nstate) : Prop := mkInv { inv_t : TInv s; inv_self : SelfInv s; inv_allowed : AllowedInv s }.

Lemma live_timer_some n ts t : live_timer n ts = Some t -> In t ts /\ tname t = n /\ tlive t = true.
Proof.
  unfold live_timer. intro H. apply find_some in H. destruct H as [H1 H2].
  apply andb_true_iff in H2. destruct H2 as [H2 H3]. apply N.eqb_eq in H2. auto.
Qed.

Lemma live_timer_none n ts : live_timer n ts = None -> forall t, In t ts -> tname t = n -> tlive t = false.
Proof.
  unfold live_timer. intros H t Ht En. pose proof (find_none _ _ H t Ht) as F. cbn in F.
  rewrite En, N.eqb_refl in F. cbn in F. exact F.
Qed.

Lemma TInv_no_live s n r : TInv s -> lk s n = Some r -> rst r <> Suspect -> no_live n (timers s).
Proof.
  intros HT L Hs. unfold no_live. destruct (live_timer n (timers s)) as [t|] eqn:E; [|reflexivity].
  apply live_timer_some in E. destruct E as [E1 [E2 E3]]. destruct (HT t E1 E3) as [r' [L' S']].
  rewrite E2 in L'. rewrite L in L'. inversion L'; subst. contradiction.
Qed.

Lemma TInv_no_live_none s n : TInv s -> lk s n = None -> no_live n (timers s).
Proof.
  intros HT L. unfold no_live. destruct (live_timer n (timers s)) as [t|] eqn:E; [|reflexivity].
  apply live_timer_some in E. destruct E as [E1 [E2 E3]]. destruct (HT t E1 E3) as [r' [L' S']].
  rewrite E2 in L'. rewrite L in L'. discriminate.
Qed.

(* live timers after orphaning [name] are live timers of other names *)
Lemma orphan_live name ts t : In t (orphan name ts) -> tlive t = true -> In t ts /\ tname t <> name.
Proof.
  intros Ht Lv. apply orphan_spec in Ht. destruct Ht as [[H1 [H2|H2]]|[u [_ [_ [_ [H _]]]]]]; try congruence.
  split; assumption.
Qed.

(* ------------------------------------------------------------------ refute *)
Lemma refute_TInv s me acc : TInv s -> lk s (self c) = Some me -> TInv (refute c s me acc).
Proof.
  intros HT L. pose proof (refute_spec c s me acc) as RS. cbv zeta in RS.
  destruct RS as [R1 [R2 [R3 [R4 [R5 [R6 [R7 [R8 R9]]]]]]]].
  intros t Ht Lv. rewrite R5 in Ht. destruct (HT t Ht Lv) as [r [Lr Sr]].
  destruct (N.eq_dec (tname t) (self c)) as [E|N1].
  - rewrite E in *. rewrite L in Lr. inversion Lr; subst. eexists. split; [exact R1|]. exact Sr.
  - exists r. split; [|exact Sr]. unfold lk in *. rewrite R2 by exact N1. exact Lr.
Qed.

Lemma refute_AllowedInv s me acc : AllowedInv s -> lk s (self c) = Some me -> AllowedInv (refute c s me acc).
Proof.
  intros HA L. pose proof (refute_spec c s me acc) as RS. cbv zeta in RS.
  destruct RS as [R1 [R2 _]].
  intros n r Lr. destruct (N.eq_dec n (self c)) as [E|N1].
  - subst n. rewrite R1 in Lr. inversion Lr; subst. cbn. eapply HA. exact L.
  - unfold lk in *. rewrite R2 in Lr by exact N1. eapply HA. exact Lr.
Qed.

(* no-wrap side condition of C02: both incarnations below the largest representable one *)
Definition below_max (x : N) : Prop := (x < two32 - 1)%N.

Lemma refute_SelfInv s me acc :
  lk s (self c) = Some me -> rst me = Alive -> below_max acc -> below_max (linc s) ->
  SelfInv (refute c s me acc).
Proof.
  intros L A B1 B2 _. pose proof (refute_spec c s me acc) as RS. cbv zeta in RS.
  destruct RS as [R1 [R2 [R3 _]]].
  eexists. split; [exact R1|]. cbn [rst rinc]. split; [exact A|]. rewrite R3. lia.
Qed.

(* ------------------------------------------------------------------ deadNode *)
Definition claim_ok (s : nstate) (inc : N) : Prop := below_max inc /\ below_max (linc s).

Lemma set_timers_TInv_sub s ts : TInv s -> (forall t, In t ts -> tlive t = true -> In t (timers s)) -> TInv (set_timers s ts).
Proof.
  intros HT Hsub t Ht Lv. cbn in Ht. rewrite lk_set_timers. apply HT; auto.
Qed.

Lemma do_dead_Inv s inc name from :
  Inv s -> claim_ok s inc -> Inv (fst (do_dead c s inc name from)).
Proof.
  intros [HT HS HA] [B1 B2]. pose proof (do_dead_spec c s inc name from) as SP.
  destruct (do_dead c s inc name from) as [s' evs]. cbn [fst].
  destruct SP as [R [F [Lv [Nw [Nn _]]]]].
  destruct R as [Ev Hs' _ | r L Es Lf Ge DL Hs' Ev | r from' L Ge DL Hl Ef L' Ev Li Sc Bq Tm].
  - (* ignored *)
    destruct Hs' as [->|[-> [r [L DL]]]]; [split; assumption|].
    split.
    + apply set_timers_TInv_sub; [exact HT|]. intros t Ht Lt. apply orphan_live in Ht; [tauto | exact Lt].
    + intro Hl. apply HS. exact Hl.
    + exact HA.
  - (* refuted: we are the accused and we are not leaving *)
    subst s' name.
    assert (HT1 : TInv (set_timers s (orphan (self c) (timers s)))).
    { apply set_timers_TInv_sub; [exact HT|]. intros t Ht Lt. apply orphan_live in Ht; [tauto | exact Lt]. }
    destruct (HS Lf) as [r' [L2 [A2 I2]]]. rewrite L in L2. inversion L2; subst r'.
    split.
    + apply refute_TInv; [exact HT1 | exact L].
    + apply refute_SelfInv; auto.
    + apply refute_AllowedInv; [exact HA | exact L].
  - (* accepted *)
    split.
    + intros t Ht Lt. rewrite Tm in Ht. apply orphan_live in Ht; [|exact Lt]. destruct Ht as [Ht Nt].
      destruct (HT t Ht Lt) as [r' [Lr Sr]]. exists r'. split; [|exact Sr].
      unfold lk in *. rewrite F by exact Nt. exact Lr.
    + intro Hlv. rewrite Lv in Hlv. destruct (HS Hlv) as [r' [L2 [A2 I2]]].
      destruct (N.eq_dec name (self c)) as [E|N1].
      * specialize (Hl E). congruence.
      * exists r'. unfold lk in *. rewrite F by (intro E; apply N1; symmetry; exact E). rewrite Li. auto.
    + intros n r' Lr. destruct (N.eq_dec n name) as [E|N1].
      * subst n. rewrite L' in Lr. inversion Lr; subst. cbn. eapply HA. exact L.
      * unfold lk in *. rewrite F in Lr by exact N1. eapply HA. exact Lr.
Qed.


(* the timer callback *)
Lemma timer_fire_Inv s t : Inv s -> below_max (linc s) ->
  (forall r, lk s (tname t) = Some r -> below_max (rinc r)) ->
  Inv (fst (timer_fire c s t)).
Proof.
  intros HI B Hr. unfold timer_fire. fold (lk s (tname t)).
  destruct (lk s (tname t)) as [r|] eqn:L; [|exact HI].
  destruct (st_eqb (rst r) Suspect && Z.eqb (rsince r) (tct t)); [|exact HI].
  apply do_dead_Inv; [exact HI|]. split; [apply Hr; reflexivity | exact B].
Qed.

(* suspectNode *)
Lemma do_suspect_Inv s inc name from :
  Inv s -> claim_ok s inc -> (forall r, lk s name = Some r -> below_max (rinc r)) ->
  Inv (fst (do_suspect c s inc name from)).
Proof.
  intros HI [B1 B2] Hb. pose proof HI as [HT HS HA].
  pose proof (do_suspect_spec c s inc name from) as SP.
  destruct (do_suspect c s inc name from) as [s' evs]. cbn [fst].
  destruct SP as [R [F [Lv [Nw Nn]]]].
  destruct R as [-> Ev | r t sA L Ge LT Hk Hm FA NA LA LvA ScA NnA BqA TA Hfire
                | r L Es Ge A LT FL Hs' Ev | r L Ns Ge A LT L' Ev Li Sc Bq [t [Tm [Tn [Tl _]]]]].
  - exact HI.
  - (* confirmation of a running suspicion *)
    assert (HIA : Inv sA).
    { split.
      - intros u Hu Lu. destruct (TA u Hu Lu) as [Hin|En].
        + destruct (HT u Hin Lu) as [r' [Lr Sr]]. exists r'. rewrite FA. auto.
        + apply live_timer_some in LT. destruct LT as [T1 [T2 T3]].
          destruct (HT t T1 T3) as [r' [Lr Sr]]. exists r'. rewrite En, FA, <- T2. auto.
      - intro Hl. rewrite LvA in Hl. destruct (HS Hl) as [r' [L2 [A2 I2]]]. exists r'. rewrite FA, LA. auto.
      - intros n r' Lr. rewrite FA in Lr. eapply HA; exact Lr. }
    destruct Hfire as [[-> _]|[t' [E [Tn' _]]]]; [exact HIA|].
    pose proof (timer_fire_Inv sA t' HIA) as TF. rewrite <- E in TF. cbn [fst] in TF. apply TF.
    + rewrite LA. exact B2.
    + intros r' Lr. rewrite Tn', FA in Lr. apply Hb. exact Lr.
  - (* refuted *)
    subst s' name. split.
    + apply refute_TInv; [exact HT | exact L].
    + apply refute_SelfInv; auto.
    + apply refute_AllowedInv; [exact HA | exact L].
  - (* suspicion started *)
    split.
    + intros u Hu Lu. rewrite Tm in Hu. apply in_app_or in Hu. destruct Hu as [Hu|[<-|[]]].
      * destruct (HT u Hu Lu) as [r' [Lr Sr]].
        destruct (N.eq_dec (tname u) name) as [E|N1].
        -- rewrite E in *. rewrite L in Lr. inversion Lr; subst r'. rewrite A in Sr. discriminate.
        -- exists r'. unfold lk in *. rewrite F by exact N1. auto.
      * rewrite Tn. eexists. split; [exact L'|reflexivity].
    + intro Hl. rewrite Lv in Hl. destruct (HS Hl) as [r' [L2 [A2 I2]]]. exists r'.
      unfold lk in *. rewrite F by (intro E; apply Ns; symmetry; exact E). rewrite Li. auto.
    + intros n r' Lr. destruct (N.eq_dec n name) as [E|N1].
      * subst n. rewrite L' in Lr. inversion Lr; subst. cbn. eapply HA. exact L.
      * unfold lk in *. rewrite F in Lr by exact N1. eapply HA. exact Lr.
Qed.

(* aliveNode *)
Definition alive_wf (s : nstate) (inc name : N) (b : bool) : Prop :=
  b = true -> name = self c /\ (inc <= linc s)%N.

Lemma do_alive_Inv s inc name addr meta vsn b :
  Inv s -> claim_ok s inc -> alive_wf s inc name b ->
  Inv (fst (do_alive c s inc name addr meta vsn b)).
Proof.
  intros HI [B1 B2] WF. pose proof HI as [HT HS HA]. unfold do_alive.
  destruct (leaving s && N.eqb name (self c)) eqn:LS; [exact HI|].
  destruct (vsn_bad vsn); [exact HI|].
  pose proof (alive_find_spec c s name addr meta vsn) as FS.
  destruct (alive_find c s name addr meta vsn) as [|r|s1 r updates]; [exact HI | exact HI |].
  destruct FS as [L1 [F1 [Li1 [Lv1 [Sc1 [Bq1 [Nw1 [Tm1 Hcase]]]]]]]].
  (* the state after the lookup still satisfies the invariant *)
  assert (HI1 : Inv s1).
  { destruct Hcase as [[_ [-> _]]|[Ln [Er [_ [Al [Rc _]]]]]]; [exact HI|].
    split.
    - intros t Ht Lt. rewrite Tm1 in Ht. destruct (HT t Ht Lt) as [r' [Lr Sr]]. exists r'. split; [|exact Sr].
      rewrite F1; [exact Lr|]. intro E. rewrite E, Ln in Lr. discriminate.
    - intro Hl. rewrite Lv1 in Hl. destruct (HS Hl) as [r' [L2 [A2 I2]]]. exists r'. rewrite Li1. split; [|auto].
      rewrite F1; [exact L2|]. intro E. rewrite E, Ln in L2. discriminate.
    - intros n r' Lr. destruct (N.eq_dec n name) as [E|N1].
      + subst n. rewrite L1 in Lr. inversion Lr; subst r'. rewrite Er. cbn. exact Al.
      + rewrite F1 in Lr by exact N1. eapply HA. exact Lr. }
  assert (Hr_allowed : is_allowed c addr = true).
  { destruct Hcase as [[Ls [_ [[Ea _]|[_ [Al _]]]]]|[_ [_ [_ [Al _]]]]]; auto.
    rewrite <- Ea. eapply HA. exact Ls. }
  pose proof (alive_apply_spec c s1 r updates inc name addr meta vsn b) as AS.
  destruct (alive_apply c s1 r updates inc name addr meta vsn b) as [s' evs]. cbn [fst].
  destruct AS as [R [Lv' [Nw' Nn']]]. pose proof HI1 as [HT1 HS1 HA1].
  assert (HTo : TInv (set_timers s1 (orphan name (timers s1)))).
  { apply set_timers_TInv_sub; [exact HT1|]. intros t Ht Lt. apply orphan_live in Ht; [tauto | exact Lt]. }
  destruct R as [-> _ _ | Es Eb Ei Em -> _ | Es Eb Ge -> _ | D Hb L' Ev Li' Sc' Bq' Tm' F'].
  - exact HI1.
  - split; [exact HTo | exact HS1 | exact HA1].
  - (* refuted *)
    subst name.
    assert (Lf : leaving s1 = false).
    { rewrite Lv1. rewrite N.eqb_refl, andb_true_r in LS. exact LS. }
    destruct (HS1 Lf) as [r' [L2 [A2 I2]]]. rewrite L1 in L2. inversion L2; subst r'.
    split.
    + apply refute_TInv; [exact HTo | exact L1].
    + apply refute_SelfInv; auto. cbn. rewrite Li1. exact B2.
    + apply refute_AllowedInv; [exact HA1 | exact L1].
  - (* accepted *)
    split.
    + intros t Ht Lt. rewrite Tm' in Ht. apply orphan_live in Ht; [|exact Lt]. destruct Ht as [Ht Nt].
      destruct (HT1 t Ht Lt) as [r' [Lr Sr]]. exists r'. rewrite F' by exact Nt. auto.
    + intro Hl. rewrite Lv' in Hl. destruct (HS1 Hl) as [r' [L2 [A2 I2]]].
      destruct (N.eq_dec name (self c)) as [E|N1].
      * subst name. eexists. split; [exact L'|]. cbn [rst rinc]. split; [reflexivity|].
        rewrite Li'. destruct (WF (Hb eq_refl)) as [_ Hle]. rewrite Li1. exact Hle.
      * exists r'. rewrite F' by (intro E; apply N1; symmetry; exact E). rewrite Li'. auto.
    + intros n r' Lr. destruct (N.eq_dec n name) as [E|N1].
      * subst n. rewrite L' in Lr. inversion Lr; subst. cbn. exact Hr_allowed.
      * rewrite F' in Lr by exact N1. eapply HA1. exact Lr.
Qed.


(* reaping *)
Lemma do_reap_Inv s : keys_ok s -> Inv s -> Inv (do_reap c s).
Proof.
  intros K [HT HS HA]. unfold do_reap. rewrite Hfixed. cbn [andb].
  set (p := fun p0 : N * rec => negb (dead_or_left (rst (snd p0)) && (gtd c <? now s - rsince (snd p0))) || N.eqb (fst p0) (self c)).
  split.
  - intros t Ht Lt. cbn in Ht. destruct (HT t Ht Lt) as [r [Lr Sr]]. exists r. split; [|exact Sr].
    unfold lk; cbn [recs]. apply alookup_filter_keep; [exact Lr|]. unfold p. cbn. rewrite Sr. reflexivity.
  - intro Hl. cbn in Hl. destruct (HS Hl) as [r [Lr [Ar Ir]]]. exists r. split; [|auto].
    unfold lk; cbn [recs]. apply alookup_filter_keep; [exact Lr|]. unfold p. cbn. rewrite N.eqb_refl. apply orb_true_r.
  - intros n r Lr. unfold lk in Lr; cbn [recs] in Lr.
    apply alookup_filter_nodup in Lr; [|exact K]. destruct Lr as [Lr _]. eapply HA. exact Lr.
Qed.

Lemma do_reap_keys s : keys_ok s -> keys_ok (do_reap c s).
Proof. intro K. unfold keys_ok, do_reap; cbn [recs]. apply NoDup_map_filter. exact K. Qed.

(* all incarnations strictly below the largest representable value: the quantifier of C01/C02 *)
Definition all_below (s : nstate) : Prop :=
  below_max (linc s) /\ forall n r, lk s n = Some r -> below_max (rinc r).

Definition FInv (s : nstate) : Prop := Inv s /\ keys_ok s.

Lemma set_now_Inv s t : Inv s -> Inv (set_now s t).
Proof. intros [HT HS HA]. split; [exact HT | exact HS | exact HA]. Qed.

Lemma remove_timer_Inv s t : Inv s -> Inv (set_timers s (remove_timer t (timers s))).
Proof.
  intros [HT HS HA]. split; [|exact HS | exact HA].
  apply set_timers_TInv_sub; [exact HT|]. intros u Hu _. unfold remove_timer in Hu. apply filter_In in Hu. tauto.
Qed.

(* firing due timers: a sequence of timer callbacks.  [P] is any property of states that each
   callback preserves; used for the invariant and for the no-wrap side condition together. *)
Lemma fire_due_ind (P : nstate -> Prop) :
  (forall s t, P s -> P (set_now s t)) ->
  (forall s t, P s -> P (set_timers s (remove_timer t (timers s)))) ->
  (forall s t, P s -> P (fst (timer_fire c s t))) ->
  forall fuel target s evs, P s -> P (fst (fire_due fuel c target s evs)).
Proof.
  intros H1 H2 H3. induction fuel as [|fuel IH]; intros target s evs HP; cbn [fire_due].
  - cbn [fst]. apply H1. exact HP.
  - destruct (earliest_due target (timers s)) as [t|]; [|cbn [fst]; apply H1; exact HP].
    pose proof (H3 (set_now (set_timers s (remove_timer t (timers s))) (Z.max (now s) (tdeadline t))) t
                   (H1 _ _ (H2 _ t HP))) as HP'.
    destruct (timer_fire c (set_now (set_timers s (remove_timer t (timers s))) (Z.max (now s) (tdeadline t))) t) as [s2 e].
    cbn [fst] in HP'. apply IH. exact HP'.
Qed.

(* invariant + "all incarnations below the maximum stays true along timer callbacks":
   a timer callback only copies the suspect's own incarnation, so nothing grows *)
Definition GInv (s : nstate) : Prop := FInv s /\ all_below s.

Lemma do_dead_same_inc_below s name from r :
  lk s name = Some r -> name <> self c \/ leaving s = true ->
  all_below s -> all_below (fst (do_dead c s (rinc r) name from)).
Proof.
  intros L Hns [B1 B2]. pose proof (do_dead_spec c s (rinc r) name from) as SP.
  destruct (do_dead c s (rinc r) name from) as [s' evs]. cbn [fst].
  destruct SP as [R [F _]].
  destruct R as [Ev Hs' _ | r0 L0 Es Lf Ge DL Hs' Ev | r0 from' L0 Ge DL Hl Ef L' Ev Li Sc Bq Tm].
  - destruct Hs' as [->|[-> _]]; split; auto.
  - destruct Hns as [N1|Lt]; [contradiction | congruence].
  - split; [rewrite Li; exact B1|]. intros n r' Lr. destruct (N.eq_dec n name) as [E|N1].
    + subst n. rewrite L' in Lr. inversion Lr; subst. cbn. eapply B2. exact L.
    + unfold lk in *. rewrite F in Lr by exact N1. eapply B2. exact Lr.
Qed.

Lemma timer_fire_GInv s t : GInv s -> GInv (fst (timer_fire c s t)).
Proof.
  intros [[HI K] HB]. split; [split|].
  - apply timer_fire_Inv; [exact HI | apply HB | intros r Lr; eapply HB; exact Lr].
  - apply timer_fire_keys. exact K.
  - unfold timer_fire. fold (lk s (tname t)). destruct (lk s (tname t)) as [r|] eqn:L; [|exact HB].
    destruct (st_eqb (rst r) Suspect && Z.eqb (rsince r) (tct t)) eqn:E; [|exact HB].
    apply do_dead_same_inc_below; [exact L | | exact HB].
    (* a suspect is never the local node while it is running *)
    apply andb_true_iff in E. destruct E as [E _].
    destruct (N.eq_dec (tname t) (self c)) as [Es|Ns]; [|left; exact Ns].
    right. destruct (leaving s) eqn:Lv; [reflexivity|].
    destruct (inv_self _ HI Lv) as [r' [L2 [A2 _]]]. rewrite Es, L2 in L. inversion L; subst r'.
    rewrite A2 in E. discriminate.
Qed.

Lemma fire_due_GInv fuel target s evs : GInv s -> GInv (fst (fire_due fuel c target s evs)).
Proof.
  apply fire_due_ind.
  - intros s0 t [[HI K] HB]. split; [split; [apply set_now_Inv; exact HI | exact K] | exact HB].
  - intros s0 t [[HI K] HB]. split; [split; [apply remove_timer_Inv; exact HI | exact K] | exact HB].
  - intros s0 t. apply timer_fire_GInv.
Qed.

Lemma wait_bcast_GInv w s evs : GInv s -> GInv (fst (wait_bcast c w (s, evs))).
Proof.
  intro G. unfold wait_bcast. destruct (any_alive_other c s); [apply fire_due_GInv; exact G | exact G].
Qed.

Lemma alive_boot_below s inc name addr meta vsn :
  all_below s -> below_max inc -> all_below (fst (do_alive c s inc name addr meta vsn true)).
Proof.
  intros [B1 B2] Bi. unfold do_alive.
  destruct (leaving s && N.eqb name (self c)); [split; assumption|].
  destruct (vsn_bad vsn); [split; assumption|].
  pose proof (alive_find_spec c s name addr meta vsn) as FS.
  destruct (alive_find c s name addr meta vsn) as [|r|s1 r updates]; [split; assumption | split; assumption |].
  destruct FS as [L1 [F1 [Li1 [Lv1 [Sc1 [Bq1 [Nw1 [Tm1 Hcase]]]]]]]].
  assert (HB1 : all_below s1).
  { split; [rewrite Li1; exact B1|]. intros n r' Lr. destruct (N.eq_dec n name) as [E|N1].
    - subst n. rewrite L1 in Lr. inversion Lr; subst r'.
      destruct Hcase as [[Ls _]|[_ [-> _]]]; [eapply B2; exact Ls | cbn; unfold below_max, two32; lia].
    - rewrite F1 in Lr by exact N1. eapply B2. exact Lr. }
  pose proof (alive_apply_spec c s1 r updates inc name addr meta vsn true) as AS.
  destruct (alive_apply c s1 r updates inc name addr meta vsn true) as [s' evs]. cbn [fst].
  destruct AS as [R _]. destruct HB1 as [C1 C2].
  destruct R as [-> _ _ | Es Eb Ei Em -> _ | Es Eb Ge -> _ | D Hb L' Ev Li' Sc' Bq' Tm' F'];
    try discriminate; try (split; assumption).
  split; [rewrite Li'; exact C1|]. intros n r' Lr. destruct (N.eq_dec n name) as [E|N1].
  - subst n. rewrite L' in Lr. inversion Lr; subst r'. cbn. exact Bi.
  - rewrite F' in Lr by exact N1. eapply C2. exact Lr.
Qed.

Definition op_ok (s : nstate) (o : op) : Prop :=
  all_below s /\
  match o with
  | OAlive inc name _ _ _ b => below_max inc /\ alive_wf s inc name b
  | OHandleAlive _ inc _ _ _ _ | OSuspect inc _ _ | ODead inc _ _ | OMerge _ inc _ _ _ _ | OLeaveCommit inc => below_max inc
  | OUpdate _ _ => below_max (linc s + 1)
  | _ => True
  end.

Lemma bump_linc_Inv s : Inv s -> below_max (linc s) -> Inv (bump_linc s).
Proof.
  intros [HT HS HA] B. split; [exact HT | | exact HA].
  intro Hl. destruct (HS Hl) as [r [L [A I]]]. exists r. split; [exact L|]. split; [exact A|].
  unfold bump_linc; cbn [linc]. unfold below_max, two32 in *. rewrite N.mod_small by lia. lia.
Qed.

Lemma set_leaving_Inv s : Inv s -> Inv (set_leaving s).
Proof. intros [HT HS HA]. split; [exact HT | intro H; discriminate | exact HA]. Qed.

Theorem step_FInv s o : FInv s -> op_ok s o -> FInv (fst (step c s o)).
Proof.
  intros [HI K] [HB Hop]. pose proof HB as [B1 B2].
  destruct o as [inc name addr meta vsn b | src inc name addr meta vsn | inc name from | inc name from
                | rs inc name addr meta vsn | dt | | | inc | | w | meta w]; cbn [step].
  - destruct Hop as [Bi WF]. split; [apply do_alive_Inv; [exact HI | split; assumption | exact WF] | apply do_alive_keys; exact K].
  - destruct (negb (is_allowed c src)); [split; assumption|].
    destruct (negb (is_allowed c addr)); [split; assumption|].
    split; [apply do_alive_Inv; [exact HI | split; assumption | intro; discriminate] | apply do_alive_keys; exact K].
  - split; [apply do_suspect_Inv; [exact HI | split; assumption | intros r L; eapply B2; exact L] | apply do_suspect_keys; exact K].
  - split; [apply do_dead_Inv; [exact HI | split; assumption] | apply do_dead_keys; exact K].
  - unfold do_merge. destruct rs.
    + split; [apply do_alive_Inv; [exact HI | split; assumption | intro; discriminate] | apply do_alive_keys; exact K].
    + split; [apply do_suspect_Inv; [exact HI | split; assumption | intros r L; eapply B2; exact L] | apply do_suspect_keys; exact K].
    + split; [apply do_suspect_Inv; [exact HI | split; assumption | intros r L; eapply B2; exact L] | apply do_suspect_keys; exact K].
    + split; [apply do_dead_Inv; [exact HI | split; assumption] | apply do_dead_keys; exact K].
  - apply (proj1 (fire_due_GInv (S (length (timers s))) (now s + dt) s [] (conj (conj HI K) HB))).
  - split; [apply do_reap_Inv; assumption | apply do_reap_keys; exact K].
  - split; [apply set_leaving_Inv; exact HI | exact K].
  - split; [apply do_dead_Inv; [exact HI | split; assumption] | apply do_dead_keys; exact K].
  - split; [apply bump_linc_Inv; assumption | exact K].
  - destruct (leaving s) eqn:Lv; [split; assumption|].
    fold (lk (set_leaving s) (self c)). destruct (lk (set_leaving s) (self c)) as [r|] eqn:L.
    + assert (HB' : all_below (set_leaving s)) by (split; assumption).
      assert (G : GInv (fst (do_dead c (set_leaving s) (rinc r) (self c) (self c)))).
      { split; [split|].
        * apply do_dead_Inv; [apply set_leaving_Inv; exact HI | split; [eapply B2; exact L | exact B1]].
        * apply do_dead_keys. exact K.
        * apply do_dead_same_inc_below; [exact L | right; reflexivity | exact HB']. }
      destruct (do_dead c (set_leaving s) (rinc r) (self c) (self c)) as [sd ed]. cbn [fst] in G.
      apply (proj1 (wait_bcast_GInv w sd ed G)).
    + rewrite Hfixed. cbn [fst]. split; [apply set_leaving_Inv; exact HI | exact K].
  - fold (lk (bump_linc s) (self c)). destruct (lk (bump_linc s) (self c)) as [r|] eqn:L.
    + assert (El : linc (bump_linc s) = (linc s + 1)%N).
      { unfold bump_linc; cbn [linc]. unfold below_max, two32 in *. rewrite N.mod_small by lia. reflexivity. }
      assert (HB' : all_below (bump_linc s)).
      { split; [rewrite El; exact Hop | exact B2]. }
      assert (G : GInv (fst (do_alive c (bump_linc s) (linc (bump_linc s)) (self c) (raddr r) meta (self_vsn c) true))).
      { split; [split|].
        * apply do_alive_Inv; [apply bump_linc_Inv; assumption | split; [rewrite El; exact Hop | rewrite El; exact Hop] |].
          intros _. split; [reflexivity | lia].
        * apply do_alive_keys. exact K.
        * apply alive_boot_below; [exact HB' | rewrite El; exact Hop]. }
      destruct (do_alive c (bump_linc s) (linc (bump_linc s)) (self c) (raddr r) meta (self_vsn c) true) as [sd ed]. cbn [fst] in G.
      apply (proj1 (wait_bcast_GInv w sd ed G)).
    + cbn [fst]. split; [apply bump_linc_Inv; assumption | exact K].
Qed.


(* the state a node starts from (newMemberlist + setAlive) *)
Lemma boot_eq meta :
  is_allowed c (self_addr c) = true -> vsn_bad (self_vsn c) = false ->
  boot c meta =
  mkS [(self c, mkRec 1 Alive (self_addr c) meta
                      (if (6 <=? length (self_vsn c))%nat then firstn 6 (self_vsn c)
                       else (if (5 <? length (self_vsn c))%nat then firstn 6 (self_vsn c) else vsn0)) 0)]
      1 [] 1 false 0 [(kname (self c), BAlive 1 (self c) (self_addr c) meta (self_vsn c))] 0.
Proof.
  intros Al Vb. unfold boot, step, do_alive, alive_find, alive_apply, bump_linc, init.
  cbn [leaving andb recs alookup]. rewrite Vb, Al. cbn [rinc new_rec]. rewrite N.eqb_refl.
  unfold set_rec, set_bq, set_timers, orphan.
  cbn [recs nnodes timers linc leaving score bq now app map aset alookup fst snd rst rmeta rinc raddr rvsn rsince
       dead_or_left st_eqb negb andb orb].
  rewrite !N.eqb_refl. cbn [negb andb orb aset].
  change ((1 <=? 0)%N) with false. change ((1 <? 0)%N) with false. cbn [andb fst].
  unfold new_rec. cbn [rvsn rst rsince st_eqb]. reflexivity.
Qed.

Lemma boot_FInv meta :
  is_allowed c (self_addr c) = true -> vsn_bad (self_vsn c) = false -> FInv (boot c meta).
Proof.
  intros Al Vb. rewrite boot_eq by assumption. split; [split|].
  - intros t [].
  - intros _. eexists. unfold lk; cbn [recs alookup]. rewrite N.eqb_refl. split; [reflexivity|]. cbn. split; [reflexivity | lia].
  - intros n r L. unfold lk in L; cbn [recs alookup] in L. destruct (N.eqb n (self c)); [|discriminate].
    inversion L; subst. cbn. exact Al.
  - unfold keys_ok. cbn. constructor; [intros [] | constructor].
Qed.

(* every history whose states stay below the incarnation maximum keeps the invariant *)
Fixpoint run_ok (s : nstate) (ops : list op) : Prop :=
  match ops with
  | [] => True
  | o :: ops' => op_ok s o /\ run_ok (fst (step c s o)) ops'
  end.

Theorem run_FInv ops : forall s, FInv s -> run_ok s ops -> FInv (fst (run c s ops)).
Proof.
  induction ops as [|o ops IH]; intros s HI HR; cbn [run]; [exact HI|].
  destruct HR as [Ho HR]. pose proof (step_FInv s o HI Ho) as H1.
  destruct (step c s o) as [s1 e]. cbn [fst] in *. specialize (IH s1 H1 HR).
  destruct (run c s1 ops) as [s2 es]. exact IH.
Qed.

End WithCfg.
