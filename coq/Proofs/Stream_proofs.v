(* Stream_proofs.v — stream-path halves of C09, C12, C13, C14, C15. *)
From Coq Require Import List NArith ZArith Bool Lia.
Import ListNotations.
From Coq Require Import ZifyBool ZifyNat ZifyN.
From VF Require Import Base Label Label_proofs Wire Wire_proofs Stream.
Local Open Scope N_scope.
Ltac Zify.zify_post_hook ::= Z.div_mod_to_equations.

Lemma be32_length x : length (be32 x) = 4%nat. Proof. reflexivity. Qed.

Section RoundTrip.
Variable seal : N -> bytes -> bytes -> bytes -> bytes.
Variable open : N -> bytes -> bytes -> bytes -> option bytes.
Variable comp : bytes -> bytes.
Variable decomp : bytes -> option bytes.
Hypothesis open_seal : forall k n p ad, open k n (seal k n p ad) ad = Some p.
Hypothesis open_other_key : forall k k' n p ad, k <> k' -> open k' n (seal k n p ad) ad = None.
Hypothesis seal_length : forall k n p ad, length (seal k n p ad) = (length p + 16)%nat.
Hypothesis comp_ok : forall m, exists body, comp m = t_compress :: body /\ decomp body = Some m.

Lemma encrypt_payload_length vsn k nonce m aad : length nonce = 12%nat -> (vsn = 0 \/ vsn = 1) ->
  blen (encrypt_payload seal vsn k nonce m aad) = encrypted_length vsn (blen m).
Proof.
  intros Hn Hv. unfold encrypt_payload, blen. cbn [length]. rewrite app_length, seal_length, Hn.
  unfold encrypted_length. destruct Hv; subst vsn.
  - change (N.eqb 0 0) with true. change (1 <=? 0) with false. cbv iota.
    unfold pkcs7_pad. rewrite app_length, repeat_length. unfold blen.
    set (L := length m). pose proof (N.mod_upper_bound (N.of_nat L) 16 ltac:(lia)). lia.
  - change (N.eqb 1 0) with false. change (1 <=? 1) with true. cbv iota. lia.
Qed.

(* C12 (stream): a peer with a compatible configuration gets the message type and body back *)
Theorem stream_roundtrip cs cr label t body nonce :
  length nonce = 12%nat -> (encvsn cs = 0 \/ encvsn cs = 1) ->
  t <> t_compress -> t <> t_encrypt ->
  encrypted_length (encvsn cs) (blen (if compress_on cs then comp (t :: body) else t :: body)) <= max_push_state_bytes ->
  ((enc_on cs && verify_out cs = true /\ In (primary cs) (keys cr)) \/ (enc_on cs && verify_out cs = false /\ enc_on cr = false)) ->
  read_stream open decomp cr label (stream_frame seal comp cs label (t :: body) nonce) = SOk t body.
Proof.
  intros Hn Hv Hc He Hmax Hk. unfold stream_frame.
  set (s1 := if compress_on cs then comp (t :: body) else t :: body) in *.
  assert (Hcont : forall tt r, s1 = tt :: r ->
     (if N.eqb tt t_compress then match decomp r with Some [] => SErr 33 | Some (t' :: r') => SOk t' r' | None => SErr 32 end else SOk tt r) = SOk t body).
  { intros tt r E. unfold s1 in E. destruct (compress_on cs).
    - destruct (comp_ok (t :: body)) as [b [E1 D]]. rewrite E1 in E. inversion E; subst. rewrite N.eqb_refl, D. reflexivity.
    - inversion E as [[Et Er]]. rewrite <- Et, <- Er. destruct (N.eqb_spec t t_compress); [contradiction | reflexivity]. }
  assert (Hs1 : exists tt r, s1 = tt :: r).
  { unfold s1. destruct (compress_on cs); [destruct (comp_ok (t :: body)) as [b [E1 _]]; rewrite E1|]; eauto. }
  destruct Hs1 as [tt [r Es1]].
  destruct Hk as [[Hen Hin]|[Hen Hcr]]; rewrite Hen.
  - (* encrypted *)
    set (len := encrypted_length (encvsn cs) (blen s1)) in *.
    assert (Hcr : enc_on cr = true) by (unfold enc_on; destruct (keys cr); [destruct Hin | reflexivity]).
    unfold read_stream. cbn [app]. rewrite N.eqb_refl, Hcr. cbn [negb].
    pose proof (rd32_be32 len ltac:(unfold max_push_state_bytes in Hmax; lia)) as R. unfold be32 in *. cbn [app]. rewrite R.
    destruct (N.ltb_spec max_push_state_bytes len); [lia|].
    pose proof (encrypt_payload_length (encvsn cs) (primary cs) nonce s1
                  (t_encrypt :: [(len / 16777216) mod 256; (len / 65536) mod 256; (len / 256) mod 256; len mod 256] ++ label) Hn Hv) as EL.
    fold len in EL. cbn [app] in EL.
    set (ep := encrypt_payload seal (encvsn cs) (primary cs) nonce s1 _) in *.
    assert (Hl : length ep = N.to_nat len) by (unfold blen in EL; lia).
    rewrite Hl, Nat.ltb_irrefl. rewrite <- Hl, firstn_all.
    unfold ep. rewrite (decrypt_encrypt seal open comp decomp open_seal open_other_key seal_length comp_ok cr _ _ _ _ _ Hn Hv Hin).
    rewrite Es1. apply Hcont. exact Es1.
  - unfold read_stream. rewrite Es1. rewrite Hcr. cbn [andb].
    assert (Ne : N.eqb tt t_encrypt = false).
    { unfold s1 in Es1. destruct (compress_on cs).
      - destruct (comp_ok (t :: body)) as [b [E1 _]]. rewrite E1 in Es1. inversion Es1. reflexivity.
      - inversion Es1 as [[Et Er]]. rewrite <- Et. apply N.eqb_neq. exact He. }
    rewrite Ne. apply Hcont. exact Es1.
Qed.

(* C09 (encrypted streams): a stream cut at ANY byte is never mistaken for a message *)
Theorem cut_encrypted_is_error cs cr label payload nonce n :
  length nonce = 12%nat -> (encvsn cs = 0 \/ encvsn cs = 1) ->
  enc_on cs && verify_out cs = true -> enc_on cr = true ->
  encrypted_length (encvsn cs) (blen (if compress_on cs then comp payload else payload)) <= max_push_state_bytes ->
  (n < length (stream_frame seal comp cs label payload nonce))%nat ->
  read_stream open decomp cr label (firstn n (stream_frame seal comp cs label payload nonce)) = SNeedMore.
Proof.
  intros Hn Hv Hen Hcr Hmax Hlt. unfold stream_frame in *. rewrite Hen in *.
  set (s1 := if compress_on cs then comp payload else payload) in *.
  set (len := encrypted_length (encvsn cs) (blen s1)) in *.
  pose proof (encrypt_payload_length (encvsn cs) (primary cs) nonce s1 ((t_encrypt :: be32 len) ++ label) Hn Hv) as EL.
  fold len in EL. set (ep := encrypt_payload seal (encvsn cs) (primary cs) nonce s1 _) in *.
  assert (Hl : length ep = N.to_nat len) by (unfold blen in EL; lia).
  unfold be32 in *. cbn [app] in *. cbn [length] in Hlt.
  pose proof (rd32_be32 len ltac:(unfold max_push_state_bytes in Hmax; lia)) as R. unfold be32 in R.
  destruct n as [|[|[|[|[|n]]]]]; try reflexivity; cbn [firstn]; unfold read_stream; rewrite ?N.eqb_refl, ?Hcr; cbn [negb]; try reflexivity.
  rewrite R. destruct (N.ltb_spec max_push_state_bytes len); [lia|].
  rewrite firstn_length. destruct (Nat.ltb_spec (Nat.min n (length ep)) (N.to_nat len)); [reflexivity | lia].
Qed.

End RoundTrip.

Section Safety.
Variable seal : N -> bytes -> bytes -> bytes -> bytes.
Variable open : N -> bytes -> bytes -> bytes -> option bytes.
Variable comp : bytes -> bytes.
Variable decomp : bytes -> option bytes.

(* C13: a declared encrypted length beyond the cap is refused after the 5 header bytes, whatever follows *)
Theorem stream_cap_before_read c label l1 l2 l3 l4 rest :
  enc_on c = true -> max_push_state_bytes < rd32 l1 l2 l3 l4 ->
  read_stream open decomp c label (t_encrypt :: l1 :: l2 :: l3 :: l4 :: rest) = SErr 31.
Proof.
  intros He Hc. unfold read_stream. rewrite N.eqb_refl, He. cbn [negb].
  destruct (N.ltb_spec max_push_state_bytes (rd32 l1 l2 l3 l4)); [reflexivity | lia].
Qed.

(* C13: the repaired stream reader never panics, on any bytes *)
Theorem read_stream_no_panic c label b : fixed c = true -> read_stream open decomp c label b <> SPanic.
Proof.
  intro Hf. unfold read_stream. destruct b as [|t rest]; [discriminate|].
  destruct (N.eqb t t_encrypt).
  - destruct (negb (enc_on c)); [discriminate|].
    destruct rest as [|l1 [|l2 [|l3 [|l4 rest']]]]; try discriminate.
    destruct (max_push_state_bytes <? rd32 l1 l2 l3 l4); [discriminate|].
    destruct (length rest' <? N.to_nat (rd32 l1 l2 l3 l4))%nat; [discriminate|].
    pose proof (decrypt_no_panic open decomp c (firstn (N.to_nat (rd32 l1 l2 l3 l4)) rest') (t :: l1 :: l2 :: l3 :: l4 :: label) Hf) as NP.
    destruct (decrypt_payload open c _ _) as [[|t' r]|e|]; [rewrite Hf; discriminate | | discriminate | contradiction].
    destruct (N.eqb t' t_compress); [|discriminate]. destruct (decomp r) as [[|t2 r2]|]; discriminate.
  - destruct (enc_on c && verify_in c); [discriminate|].
    destruct (N.eqb t t_compress); [|discriminate]. destruct (decomp rest) as [[|t2 r2]|]; discriminate.
Qed.

(* C14: with a keyring and incoming verification on, a stream is only ever read through a successful
   authenticated decryption whose associated data is  encryptMsg || length || the node's label *)
Theorem stream_authenticated c label b t body :
  enc_on c = true -> verify_in c = true -> read_stream open decomp c label b = SOk t body ->
  exists l1 l2 l3 l4 rest plain, b = t_encrypt :: l1 :: l2 :: l3 :: l4 :: rest /\
    decrypt_payload open c (firstn (N.to_nat (rd32 l1 l2 l3 l4)) rest) (t_encrypt :: l1 :: l2 :: l3 :: l4 :: label) = Ok plain.
Proof.
  intros He Hv. unfold read_stream. destruct b as [|t0 rest]; [discriminate|].
  destruct (N.eqb_spec t0 t_encrypt) as [->|Hne].
  - rewrite He. cbn [negb]. destruct rest as [|l1 [|l2 [|l3 [|l4 rest']]]]; try discriminate.
    destruct (max_push_state_bytes <? rd32 l1 l2 l3 l4); [discriminate|].
    destruct (length rest' <? N.to_nat (rd32 l1 l2 l3 l4))%nat; [discriminate|].
    destruct (decrypt_payload open c _ _) as [plain|e|] eqn:D; [|discriminate|discriminate].
    intros _. exists l1, l2, l3, l4, rest', plain. split; [reflexivity | exact D].
  - rewrite He, Hv. cbn [andb]. discriminate.
Qed.

(* C15: with encryption enforced the stream writer emits  encryptMsg || length || version || nonce ||
   sealing under the primary key, with  encryptMsg || length || label  as associated data *)
Theorem stream_sealed c label payload nonce :
  enc_on c = true -> verify_out c = true ->
  exists s1, stream_frame seal comp c label payload nonce =
    let hdr := t_encrypt :: be32 (encrypted_length (encvsn c) (blen s1)) in
    hdr ++ encvsn c :: nonce ++ seal (primary c) nonce (if N.eqb (encvsn c) 0 then pkcs7_pad s1 else s1) (hdr ++ label).
Proof.
  intros He Hv. unfold stream_frame. rewrite He, Hv. cbn [andb]. eexists. reflexivity.
Qed.

End Safety.

(* the pinned reader indexed the decrypted plaintext without checking that it is not empty *)
Example empty_plain_panic_refuted :
  let open := fun (_ : N) (_ _ _ : bytes) => Some (@nil N) in
  read_stream open (fun _ => None) (mkP [] false [1] true true 1 false false) []
              (t_encrypt :: 0 :: 0 :: 0 :: 29 :: 1 :: repeat 0 28) = SPanic.
Proof. vm_compute. reflexivity. Qed.
