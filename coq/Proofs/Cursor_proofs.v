(* Cursor_proofs.v — the probe schedule: what a tick selects, coverage of every pass, exactness of
   a stable pass, and the number of ticks after which a given live peer has certainly been probed. *)
From VF Require Import Base Cursor.
From Coq Require Import Arith.

Definition skipped (el : N -> bool) (l : list N) (i j : nat) : Prop :=
  forall q, i <= q < j -> el (nth q l 0%N) = false.

Lemma skipped_refl el l i : skipped el l i i.
Proof. intros q Hq. lia. Qed.

Lemma skipped_cons el l i j : i <= j -> el (nth i l 0%N) = false -> skipped el l (S i) j -> skipped el l i j.
Proof.
  intros Hij Hi Hs q Hq. destruct (Nat.eq_dec q i) as [->|Hne]; [exact Hi|]. apply Hs. lia.
Qed.

(* ---------- the loop after resetNodes ran: it cannot wrap a second time ---------- *)
Lemma loop_phase2 el rs0 : forall f c l i s' sel w,
  loop f el rs0 c (mkC l i) true = (s', sel, w) -> i < c -> i <= length l ->
  w = true /\ order s' = l /\ exists j, i <= j /\ skipped el l i j /\
    ((j < length l /\ el (nth j l 0%N) = true /\ sel = Some (nth j l 0%N) /\ idx s' = S j)
     \/ (sel = None /\ idx s' = j /\ j <= length l)).
Proof.
  induction f as [|f IH]; intros c l i s' sel w E Hic Hil; cbn [loop] in E.
  - inversion E; subst. split; [reflexivity|]. split; [reflexivity|].
    exists i. split; [lia|]. split; [apply skipped_refl|]. right. auto.
  - cbn [order idx] in E.
    destruct (length l <=? c) eqn:E1.
    + inversion E; subst. split; [reflexivity|]. split; [reflexivity|].
      exists i. split; [lia|]. split; [apply skipped_refl|]. right. auto.
    + apply Nat.leb_gt in E1.
      destruct (length l <=? i) eqn:E2; [apply Nat.leb_le in E2; lia|].
      apply Nat.leb_gt in E2.
      destruct (el (nth i l 0%N)) eqn:E3.
      * inversion E; subst. split; [reflexivity|]. split; [reflexivity|].
        exists i. split; [lia|]. split; [apply skipped_refl|]. left. auto.
      * apply IH in E; [|lia|lia].
        destruct E as [Hw [Ho [j [Hj [Hs Hd]]]]].
        split; [exact Hw|]. split; [exact Ho|].
        exists j. split; [lia|]. split; [apply skipped_cons; [lia|exact E3|exact Hs]|].
        exact Hd.
Qed.

(* ---------- the loop before any wrap ---------- *)
Lemma loop_phase1 el rs : forall f c l i s' sel w,
  loop f el rs c (mkC l i) false = (s', sel, w) -> i <= length l ->
  (w = false /\ order s' = l /\ exists j, i <= j /\ skipped el l i j /\
     ((j < length l /\ el (nth j l 0%N) = true /\ sel = Some (nth j l 0%N) /\ idx s' = S j)
      \/ (sel = None /\ idx s' = j /\ j <= length l /\ (f <= j - i \/ length l <= c + (j - i)))))
  \/
  (w = true /\ skipped el l i (length l) /\ order s' = rs /\ exists j, skipped el rs 0 j /\
     ((j < length rs /\ el (nth j rs 0%N) = true /\ sel = Some (nth j rs 0%N) /\ idx s' = S j)
      \/ (sel = None /\ idx s' = j /\ j <= length rs))).
Proof.
  induction f as [|f IH]; intros c l i s' sel w E Hil; cbn [loop] in E.
  - inversion E; subst. left. split; [reflexivity|]. split; [reflexivity|].
    exists i. split; [lia|]. split; [apply skipped_refl|]. right.
    repeat split; auto. left. lia.
  - cbn [order idx] in E.
    destruct (length l <=? c) eqn:E1.
    + apply Nat.leb_le in E1. inversion E; subst. left. split; [reflexivity|]. split; [reflexivity|].
      exists i. split; [lia|]. split; [apply skipped_refl|]. right.
      repeat split; auto. right. lia.
    + apply Nat.leb_gt in E1.
      destruct (length l <=? i) eqn:E2.
      * apply Nat.leb_le in E2. assert (i = length l) by lia. subst i.
        apply loop_phase2 in E; [|lia|cbn; lia].
        destruct E as [Hw [Ho [j [Hj [Hs Hd]]]]].
        right. split; [exact Hw|]. split; [apply skipped_refl|]. split; [exact Ho|].
        exists j. split; [exact Hs|]. exact Hd.
      * apply Nat.leb_gt in E2.
        destruct (el (nth i l 0%N)) eqn:E3.
        -- inversion E; subst. left. split; [reflexivity|]. split; [reflexivity|].
           exists i. split; [lia|]. split; [apply skipped_refl|]. left. auto.
        -- apply IH in E; [|lia].
           destruct E as [[Hw [Ho [j [Hj [Hs Hd]]]]] | [Hw [Hs [Ho Hd]]]].
           ++ left. split; [exact Hw|]. split; [exact Ho|].
              exists j. split; [lia|]. split; [apply skipped_cons; [lia|exact E3|exact Hs]|].
              destruct Hd as [Hd|[H1 [H2 [H3 H4]]]]; [left; exact Hd|].
              right. repeat split; auto. destruct H4 as [H4|H4]; [left|right]; lia.
           ++ right. split; [exact Hw|]. split; [apply skipped_cons; [lia|exact E3|exact Hs]|].
              split; [exact Ho|]. exact Hd.
Qed.

(* ---------- what one call of probe() does ---------- *)
Theorem tick_spec el rs l i s' sel w :
  tick el rs (mkC l i) = (s', sel, w) -> i <= length l ->
  (w = false /\ order s' = l /\ exists j, i <= j /\ skipped el l i j /\
     ((j < length l /\ el (nth j l 0%N) = true /\ sel = Some (nth j l 0%N) /\ idx s' = S j)
      \/ (sel = None /\ idx s' = j /\ j = length l /\ i = 0)))
  \/
  (w = true /\ skipped el l i (length l) /\ order s' = rs /\ exists j, skipped el rs 0 j /\
     ((j < length rs /\ el (nth j rs 0%N) = true /\ sel = Some (nth j rs 0%N) /\ idx s' = S j)
      \/ (sel = None /\ idx s' = j /\ j <= length rs))).
Proof.
  unfold tick. cbn [order]. intros E Hil. apply loop_phase1 in E; [|exact Hil].
  destruct E as [[Hw [Ho [j [Hj [Hs Hd]]]]] | R]; [left|right; exact R].
  split; [exact Hw|]. split; [exact Ho|]. exists j. split; [exact Hj|]. split; [exact Hs|].
  destruct Hd as [Hd|[H1 [H2 [H3 H4]]]]; [left; exact Hd|].
  right. repeat split; auto; lia.
Qed.

Lemma tick_wf el rs s s' sel w :
  tick el rs s = (s', sel, w) -> idx s <= length (order s) -> idx s' <= length (order s').
Proof.
  destruct s as [l i]. cbn [order idx]. intros E H. apply tick_spec in E; [|exact H].
  destruct E as [[_ [Ho [j [_ [_ Hd]]]]] | [_ [_ [Ho [j [_ Hd]]]]]]; rewrite Ho;
    destruct Hd as [[H1 [_ [_ H4]]] | [_ [H2 H3]]]; lia.
Qed.

(* C03: the node handed to probeNode is never this node and never a Dead/Left one *)
Theorem tick_selects_eligible el rs s s' x w :
  tick el rs s = (s', Some x, w) -> idx s <= length (order s) ->
  el x = true /\ (In x (order s) \/ In x rs).
Proof.
  destruct s as [l i]. cbn [order idx]. intros E H. apply tick_spec in E; [|exact H].
  destruct E as [[_ [_ [j [_ [_ Hd]]]]] | [_ [_ [_ [j [_ Hd]]]]]];
    (destruct Hd as [[H1 [H2 [H3 _]]] | [H3 _]]; [|discriminate]); inversion H3; subst.
  - split; [exact H2|]. left. apply nth_In. exact H1.
  - split; [exact H2|]. right. apply nth_In. exact H1.
Qed.

(* ---------- insertion ---------- *)
Lemma set_nth_length n y l : length (set_nth n y l) = length l.
Proof. revert n. induction l as [|x l IH]; intros [|n]; cbn; auto. Qed.

Lemma set_nth_other n y l p : p <> n -> nth p (set_nth n y l) 0%N = nth p l 0%N.
Proof.
  revert n p. induction l as [|x l IH]; intros [|n] [|p] H; cbn; auto; try lia.
Qed.

Lemma insert_wf y off s : idx s <= length (order s) -> idx (insert y off s) <= length (order (insert y off s)).
Proof.
  unfold insert. intro H. destruct (off <? length (order s)); cbn [order idx];
    rewrite app_length, ?set_nth_length; cbn; lia.
Qed.

(* an entry at or after the cursor stays at or after the cursor *)
Lemma insert_keeps_ahead y off s p :
  idx s <= p < length (order s) ->
  exists p', idx (insert y off s) <= p' < length (order (insert y off s)) /\
             nth p' (order (insert y off s)) 0%N = nth p (order s) 0%N.
Proof.
  intros Hp. unfold insert. destruct (off <? length (order s)) eqn:E; cbn [order idx].
  - apply Nat.ltb_lt in E. destruct (Nat.eq_dec p off) as [->|Hne].
    + exists (length (order s)). rewrite app_length, set_nth_length. cbn. split; [lia|].
      rewrite app_nth2; rewrite set_nth_length; [|lia]. rewrite Nat.sub_diag. reflexivity.
    + exists p. rewrite app_length, set_nth_length. cbn. split; [lia|].
      rewrite app_nth1; [|rewrite set_nth_length; lia]. apply set_nth_other. exact Hne.
  - exists p. rewrite app_length. cbn. split; [lia|]. rewrite app_nth1; [reflexivity|lia].
Qed.

(* ---------- coverage of every pass ---------- *)
Definition GI (g : gst) : Prop :=
  idx (cs g) <= length (order (cs g)) /\
  forall x, In x (cand g) -> In x (seen g) \/
            exists p, idx (cs g) <= p < length (order (cs g)) /\ nth p (order (cs g)) 0%N = x.
Definition PassOK (g : gst) : Prop := forall c sn, In (c, sn) (passes g) -> incl c sn.

Lemma In_ocons x sel l : In x l -> In x (ocons sel l).
Proof. destruct sel; cbn; auto. Qed.

Lemma gstep_inv g a : GI g -> PassOK g -> GI (gstep g a) /\ PassOK (gstep g a).
Proof.
  intros [Hwf Hc] Hp. destruct a as [el rs | y off]; cbn [gstep].
  - destruct (tick el rs (cs g)) as [[s' sel] w] eqn:E.
    pose proof (tick_wf _ _ _ _ _ _ E Hwf) as Hwf'.
    destruct (cs g) as [l i] eqn:Ecs. cbn [order idx] in *.
    apply tick_spec in E; [|exact Hwf].
    destruct E as [[Hw [Ho [j [Hj [Hs Hd]]]]] | [Hw [Hs [Ho [j [Hs2 Hd]]]]]]; subst w.
    + split; [|exact Hp]. split; [exact Hwf'|]. cbn [cs seen cand].
      intros x Hx. apply filter_In in Hx. destruct Hx as [Hx Hel].
      destruct (Hc x Hx) as [Hsn | [p [Hp1 Hp2]]]; [left; apply In_ocons; exact Hsn|].
      destruct (Nat.lt_ge_cases p j) as [Hlt|Hge].
      { rewrite <- Hp2 in Hel. rewrite Hs in Hel; [discriminate|lia]. }
      destruct Hd as [[H1 [H2 [H3 H4]]] | [H1 [H2 [H3 H4]]]].
      * destruct (Nat.eq_dec p j) as [->|Hne].
        -- left. subst sel. cbn. left. exact Hp2.
        -- right. exists p. rewrite Ho, H4. split; [lia|exact Hp2].
      * right. exists p. rewrite Ho, H2. split; [lia|exact Hp2].
    + split.
      * split; [exact Hwf'|]. cbn [cs seen cand].
        intros x Hx. apply filter_In in Hx. destruct Hx as [Hx Hel].
        destruct (In_nth _ _ 0%N Hx) as [p [Hp1 Hp2]].
        destruct (Nat.lt_ge_cases p j) as [Hlt|Hge].
        { rewrite <- Hp2 in Hel. rewrite Hs2 in Hel; [discriminate|lia]. }
        destruct Hd as [[H1 [H2 [H3 H4]]] | [H1 [H2 H3]]].
        -- destruct (Nat.eq_dec p j) as [->|Hne].
           ++ left. subst sel. cbn. left. exact Hp2.
           ++ right. exists p. rewrite Ho, H4. split; [lia|exact Hp2].
        -- right. exists p. rewrite Ho, H2. split; [lia|exact Hp2].
      * intros c sn [Hin|Hin]; [|apply Hp; exact Hin]. inversion Hin; subst c sn.
        intros x Hx. apply filter_In in Hx. destruct Hx as [Hx Hel].
        destruct (Hc x Hx) as [Hsn | [p [Hp1 Hp2]]]; [exact Hsn|].
        rewrite <- Hp2 in Hel. rewrite Hs in Hel; [discriminate|lia].
  - split; [|exact Hp]. split; [apply insert_wf; exact Hwf|]. cbn [cs seen cand].
    intros x Hx. destruct (Hc x Hx) as [Hsn | [p [Hp1 Hp2]]]; [left; exact Hsn|].
    right. destruct (insert_keeps_ahead y off (cs g) p Hp1) as [p' [H1 H2]].
    exists p'. split; [exact H1|]. rewrite H2. exact Hp2.
Qed.

Lemma grun_inv l : forall g, GI g -> PassOK g -> GI (grun g l) /\ PassOK (grun g l).
Proof.
  induction l as [|a l IH]; intros g H1 H2; cbn; [auto|].
  destruct (gstep_inv g a H1 H2) as [H3 H4]. apply IH; assumption.
Qed.

Definition ginit0 (o : list N) : gst := mkG (mkC o 0) [] o [] [].

Lemma ginit0_inv o : GI (ginit0 o) /\ PassOK (ginit0 o).
Proof.
  split.
  - split; [cbn; lia|]. cbn. intros x Hx. right. destruct (In_nth _ _ 0%N Hx) as [p [H1 H2]].
    exists p. split; [lia|exact H2].
  - intros c sn [].
Qed.

(* C03: in every completed pass (between two runs of resetNodes), whatever was inserted, whatever
   statuses changed and whatever the shuffles did, every name that was in the list when the pass
   began and could be probed at every tick of the pass was handed to probeNode during the pass *)
Theorem pass_visits_all o acts c sn :
  In (c, sn) (passes (grun (ginit0 o) acts)) -> incl c sn.
Proof.
  destruct (ginit0_inv o) as [H1 H2]. destruct (grun_inv acts _ H1 H2) as [_ H]. apply H.
Qed.

(* ---------- a stable pass is exact ---------- *)
Lemma firstn_S_nth (l : list N) : forall j, j < length l -> firstn (S j) l = firstn j l ++ [nth j l 0%N].
Proof.
  induction l as [|x l IHl]; intros j Hj; cbn [length] in Hj; [lia|].
  destruct j as [|j]; [reflexivity|].
  change (x :: firstn (S j) l = x :: (firstn j l ++ [nth j l 0%N])).
  rewrite IHl; [reflexivity|lia].
Qed.

Lemma filter_firstn_skipped el l : forall i j, i <= j -> j <= length l -> skipped el l i j ->
  filter el (firstn j l) = filter el (firstn i l).
Proof.
  intros i j Hij. induction Hij as [|j Hij IH]; intros Hj Hs; [reflexivity|].
  rewrite firstn_S_nth, filter_app by lia. cbn [filter]. rewrite (Hs j); [|lia]. rewrite app_nil_r.
  apply IH; [lia|]. intros q Hq. apply Hs. lia.
Qed.

Lemma filter_idem (el : N -> bool) l : filter el (filter el l) = filter el l.
Proof.
  induction l as [|x l IH]; cbn; [reflexivity|]. destruct (el x) eqn:E; cbn; rewrite ?E, IH; reflexivity.
Qed.

Section Stable.
Variable el : N -> bool.

Definition only_ticks (a : act) : Prop := exists rs, a = ATick el rs.

Definition SI (g : gst) : Prop :=
  idx (cs g) <= length (order (cs g)) /\
  filter el (cand g) = filter el (order (cs g)) /\
  rev (seen g) = filter el (firstn (idx (cs g)) (order (cs g))) /\
  forall c sn, In (c, sn) (passes g) -> rev sn = c.

Lemma sstep_inv g a : only_ticks a -> SI g -> SI (gstep g a).
Proof.
  intros [rs ->] [Hwf [Hc [Hs Hp]]]. cbn [gstep].
  destruct (tick el rs (cs g)) as [[s' sel] w] eqn:E.
  pose proof (tick_wf _ _ _ _ _ _ E Hwf) as Hwf'.
  destruct (cs g) as [l i] eqn:Ecs. cbn [order idx] in *.
  apply tick_spec in E; [|exact Hwf].
  destruct E as [[Hw [Ho [j [Hj [Hsk Hd]]]]] | [Hw [Hsk [Ho [j [Hsk2 Hd]]]]]]; subst w.
  - split; [exact Hwf'|]. cbn [cs seen cand passes]. rewrite Ho.
    split; [rewrite filter_idem; exact Hc|]. split; [|exact Hp].
    destruct Hd as [[H1 [H2 [H3 H4]]] | [H1 [H2 [H3 H4]]]]; subst sel; cbn [ocons].
    + rewrite H4, firstn_S_nth, filter_app by exact H1. cbn. rewrite H2. cbn [rev].
      rewrite Hs. f_equal. symmetry. apply filter_firstn_skipped; [exact Hj|lia|exact Hsk].
    + rewrite H2, Hs. symmetry. apply filter_firstn_skipped; [exact Hj|lia|exact Hsk].
  - split; [exact Hwf'|]. cbn [cs seen cand passes]. rewrite Ho.
    split; [apply filter_idem|]. split.
    + destruct Hd as [[H1 [H2 [H3 H4]]] | [H1 [H2 H3]]]; subst sel; cbn [ocons].
      * rewrite H4, firstn_S_nth, filter_app by exact H1. cbn. rewrite H2.
        rewrite (filter_firstn_skipped el rs 0 j); [reflexivity|lia|lia|exact Hsk2].
      * rewrite H2. rewrite (filter_firstn_skipped el rs 0 j); [reflexivity|lia|exact H3|exact Hsk2].
    + intros c sn [Hin|Hin]; [|apply Hp; exact Hin]. inversion Hin; subst c sn.
      rewrite Hs, Hc. rewrite <- (filter_firstn_skipped el l i (length l)); [|exact Hwf|lia|exact Hsk].
      rewrite firstn_all. reflexivity.
Qed.

(* C03: while membership is stable (no insertion, no status change) every pass hands exactly the
   probe-able names to probeNode, once each, in list order *)
Theorem stable_pass_exact o acts c sn :
  Forall only_ticks acts -> In (c, sn) (passes (grun (ginit0 o) acts)) -> rev sn = c.
Proof.
  intros Hall. assert (H : SI (grun (ginit0 o) acts)).
  { assert (H0 : SI (ginit0 o)).
    { split; [cbn; lia|]. split; [reflexivity|]. split; [reflexivity|]. intros ? ? []. }
    revert H0. generalize (ginit0 o). induction Hall as [|a l Ha Hl IH]; intros g Hg; cbn; [exact Hg|].
    apply IH. apply sstep_inv; assumption. }
  destruct H as [_ [_ [_ H]]]. apply H.
Qed.
End Stable.

(* ---------- how many ticks until a given live peer is probed ---------- *)
Lemma find_from_spec v : forall l i,
  match find_from v l i with
  | Some p => i <= p < length l /\ nth p l 0%N = v /\ (forall q, i <= q < p -> nth q l 0%N <> v)
  | None => forall q, i <= q < length l -> nth q l 0%N <> v
  end.
Proof.
  induction l as [|x l IH]; intros i; cbn [find_from].
  - intros q Hq. cbn in Hq. lia.
  - destruct i as [|i].
    + destruct (N.eqb x v) eqn:E.
      * apply N.eqb_eq in E. cbn. split; [lia|]. split; [exact E|]. intros q Hq. lia.
      * apply N.eqb_neq in E. specialize (IH 0). destruct (find_from v l 0) as [p|]; cbn [option_map].
        -- destruct IH as [H1 [H2 H3]]. cbn [length nth]. split; [lia|]. split; [exact H2|].
           intros [|q] Hq; cbn; [exact E|]. apply H3. lia.
        -- intros [|q] Hq; cbn; [exact E|]. apply IH. cbn in Hq. lia.
    + specialize (IH i). destruct (find_from v l i) as [p|]; cbn [option_map].
      * destruct IH as [H1 [H2 H3]]. cbn [length nth]. split; [lia|]. split; [exact H2|].
        intros [|q] Hq; [lia|]. cbn. apply H3. lia.
      * intros [|q] Hq; [lia|]. cbn. apply IH. cbn in Hq. lia.
Qed.

Section Reach.
Variable v : N.
Variable n : nat.

Definition mu (s : cst) : nat :=
  match find_from v (order s) (idx s) with
  | Some p => p - idx s + 1
  | None => (length (order s) - idx s) + 1 + n
  end.

Definition RI (s : cst) : Prop :=
  idx s <= length (order s) /\ length (order s) <= n /\ In v (order s).

Lemma mu_bound s : RI s -> 1 <= mu s <= 2 * n.
Proof.
  intros [H1 [H2 H3]]. unfold mu. pose proof (find_from_spec v (order s) (idx s)) as F.
  destruct (find_from v (order s) (idx s)) as [p|].
  - lia.
  - destruct (In_nth _ _ 0%N H3) as [q [Hq1 Hq2]].
    assert (idx s <> 0). { intro E. apply (F q); [lia|exact Hq2]. }
    lia.
Qed.

(* one tick either probes v or brings the cursor strictly closer *)
Lemma tick_progress el rs s s' sel w :
  tick el rs s = (s', sel, w) -> RI s -> el v = true -> In v rs -> length rs <= n ->
  RI s' /\ (sel = Some v \/ mu s' < mu s).
Proof.
  intros E [Hwf [Hn Hin]] Hel Hrs Hrn.
  pose proof (tick_wf _ _ _ _ _ _ E Hwf) as Hwf'.
  destruct s as [l i]. cbn [order idx] in *.
  apply tick_spec in E; [|exact Hwf].
  pose proof (find_from_spec v l i) as F.
  destruct E as [[Hw [Ho [j [Hj [Hsk Hd]]]]] | [Hw [Hsk [Ho [j [Hsk2 Hd]]]]]].
  - assert (HRI : RI s'). { split; [exact Hwf'|]. rewrite Ho. split; assumption. }
    split; [exact HRI|].
    pose proof (find_from_spec v (order s') (idx s')) as F'. rewrite Ho in F'.
    unfold mu. cbn [order idx]. rewrite Ho.
    destruct (find_from v l i) as [p|].
    + destruct F as [F1 [F2 F3]].
      assert (Hjp : j <= p).
      { destruct (Nat.lt_ge_cases p j) as [Hlt|]; [|assumption].
        rewrite <- F2 in Hel. rewrite Hsk in Hel; [discriminate|lia]. }
      destruct Hd as [[H1 [H2 [H3 H4]]] | [H1 [H2 [H3 H4]]]]; [|lia].
      destruct (Nat.eq_dec j p) as [->|Hne]; [left; rewrite H3, F2; reflexivity|].
      right. rewrite H4 in *. destruct (find_from v l (S j)) as [p'|].
      * destruct F' as [G1 [G2 G3]].
        assert (p' = p).
        { destruct (Nat.lt_trichotomy p' p) as [L|[L|L]]; [|exact L|].
          - exfalso. apply (F3 p'); [lia|exact G2].
          - exfalso. apply (G3 p); [lia|exact F2]. }
        lia.
      * exfalso. apply (F' p); [lia|exact F2].
    + destruct Hd as [[H1 [H2 [H3 H4]]] | [H1 [H2 [H3 H4]]]].
      * right. rewrite H4 in *. destruct (find_from v l (S j)) as [p'|].
        -- destruct F' as [G1 [G2 G3]]. exfalso. apply (F p'); [lia|exact G2].
        -- lia.
      * exfalso. subst i. destruct (In_nth _ _ 0%N Hin) as [q [Hq1 Hq2]]. apply (F q); [lia|exact Hq2].
  - assert (HRI : RI s'). { split; [exact Hwf'|]. rewrite Ho. split; assumption. }
    split; [exact HRI|].
    pose proof (find_from_spec v (order s') (idx s')) as F'. rewrite Ho in F'.
    (* v was not skipped before the wrap, so it was behind the cursor *)
    assert (FN : find_from v l i = None).
    { destruct (find_from v l i) as [p|]; [|reflexivity]. destruct F as [F1 [F2 F3]].
      rewrite <- F2 in Hel. rewrite Hsk in Hel; [discriminate|lia]. }
    unfold mu at 2. cbn [order idx]. rewrite FN.
    destruct (In_nth _ _ 0%N Hrs) as [q [Hq1 Hq2]].
    assert (Hjq : j <= q).
    { destruct (Nat.lt_ge_cases q j) as [Hlt|]; [|assumption].
      rewrite <- Hq2 in Hel. rewrite Hsk2 in Hel; [discriminate|lia]. }
    unfold mu. rewrite Ho.
    destruct Hd as [[H1 [H2 [H3 H4]]] | [H1 [H2 H3]]].
    + destruct (N.eq_dec (nth j rs 0%N) v) as [Ev|Ev]; [left; rewrite H3, Ev; reflexivity|].
      right. rewrite H4 in *. destruct (find_from v rs (S j)) as [p'|].
      * destruct F' as [G1 [G2 G3]]. lia.
      * exfalso. apply (F' q); [|exact Hq2]. destruct (Nat.eq_dec q j) as [->|]; [congruence|lia].
    + right. rewrite H2 in *. destruct (find_from v rs j) as [p'|].
      * destruct F' as [G1 [G2 G3]]. lia.
      * exfalso. apply (F' q); [lia|exact Hq2].
Qed.

(* a run of ticks only; [sel_list] lists the selections in order *)
Fixpoint tick_run (s : cst) (ts : list ((N -> bool) * list N)) : list (option N) :=
  match ts with
  | [] => []
  | (el, rs) :: ts' => let '(s', sel, _) := tick el rs s in sel :: tick_run s' ts'
  end.

Definition tick_ok (t : (N -> bool) * list N) : Prop :=
  fst t v = true /\ In v (snd t) /\ length (snd t) <= n.

Lemma ticks_reach : forall ts s, RI s -> Forall tick_ok ts -> mu s <= length ts ->
  exists k, k < mu s /\ nth_error (tick_run s ts) k = Some (Some v).
Proof.
  induction ts as [|[el rs] ts IH]; intros s HR Hall Hlen.
  - pose proof (mu_bound s HR). cbn in Hlen. lia.
  - inversion Hall as [|? ? [H1 [H2 H3]] Hall']; subst. cbn [fst snd] in *.
    cbn [tick_run]. destruct (tick el rs s) as [[s' sel] w] eqn:E.
    destruct (tick_progress _ _ _ _ _ _ E HR H1 H2 H3) as [HR' [Hs|Hlt]].
    + exists 0. pose proof (mu_bound s HR). split; [lia|]. cbn. rewrite Hs. reflexivity.
    + cbn [length] in Hlen. destruct (IH s' HR' Hall') as [k [Hk1 Hk2]]; [lia|].
      exists (S k). split; [lia|]. exact Hk2.
Qed.

(* C03: at most two passes.  With at most n entries in the list, a peer that stays in the list and
   probe-able is handed to probeNode within the next 2n ticks, whatever the statuses of the others
   do and however the list is reaped and shuffled in between *)
Theorem ticks_until_selected ts s :
  RI s -> Forall tick_ok ts -> 2 * n <= length ts ->
  exists k, k < 2 * n /\ nth_error (tick_run s ts) k = Some (Some v).
Proof.
  intros HR Hall Hlen. pose proof (mu_bound s HR) as Hb.
  destruct (ticks_reach ts s HR Hall) as [k [Hk1 Hk2]]; [lia|].
  exists k. split; [lia|exact Hk2].
Qed.
End Reach.

(* ---------- the detection bound (arithmetic composition) ---------- *)
Local Open Scope Z_scope.

(* two full passes at the slowest awareness-scaled pace plus the maximum suspicion timeout *)
Definition detect_bound (n : Z) (pi awmax smax : Z) : Z := pi + 2 * n * (awmax * pi) + smax.

(* start times of consecutive ticks are at most D apart *)
Fixpoint paced (D : Z) (prev : Z) (starts : list Z) : Prop :=
  match starts with
  | [] => True
  | t :: ts => t <= prev + D /\ paced D t ts
  end.

Lemma paced_nth D : forall starts prev k t, paced D prev starts -> 0 <= D ->
  nth_error starts k = Some t -> t <= prev + (Z.of_nat k + 1) * D.
Proof.
  induction starts as [|t0 ts IH]; intros prev k t Hp HD Hk; [destruct k; discriminate|].
  destruct Hp as [H1 H2]. destruct k as [|k]; cbn in Hk.
  - inversion Hk; subst. lia.
  - specialize (IH _ _ _ H2 HD Hk). lia.
Qed.

(* C03 (composition): the crash is at tc; the tick in progress ends and the next one starts by
   tc + pi - D + D; every tick lasts at most D = awmax*pi and the next starts at most D after it;
   the probe of the crashed peer fails at its end; the suspicion it starts lasts at most smax.
   Then the peer is declared dead by tc + detect_bound. *)
Theorem detection_composes (n : nat) pi awmax smax tc (starts : list Z) k tk e dl :
  0 <= pi -> 1 <= awmax ->
  paced (awmax * pi) (tc + pi - awmax * pi) starts ->
  (k < 2 * n)%nat -> nth_error starts k = Some tk ->
  e <= tk + awmax * pi -> dl <= e + smax ->
  dl <= tc + detect_bound (Z.of_nat n) pi awmax smax.
Proof.
  intros Hpi Haw Hp Hk Hn He Hdl. unfold detect_bound.
  assert (HD : 0 <= awmax * pi) by nia.
  pose proof (paced_nth _ _ _ _ _ Hp HD Hn) as Ht.
  assert (Z.of_nat k + 1 <= 2 * Z.of_nat n) by lia.
  nia.
Qed.
