(* Heal_cluster.v — a push/pull exchange is a schedule of the cluster model (two snapshots, then the
   deliveries of their entries in order), so everything proved about every schedule of the cluster
   (C05_claims_below_owner, ...) holds across exchanges, and the pairwise healing theorem applies inside any
   reachable cluster state. *)
From Coq Require Import List NArith ZArith Bool Lia.
Import ListNotations.
From VF Require Import Base Core Core_lemmas Core_inv Core_props Cluster Cluster_proofs Below_proofs Below_cluster Exchange Heal_proofs.
Local Open Scope Z_scope.

Lemma wrun_app l1 : forall l2 w, fst (wrun w (l1 ++ l2)) = fst (wrun (fst (wrun w l1)) l2).
Proof.
  induction l1 as [|a l1 IH]; intros l2 w; cbn [app wrun]; [reflexivity|].
  destruct (wstep w a) as [w1 e1]. specialize (IH l2 w1).
  destruct (wrun w1 (l1 ++ l2)) as [w2 e2]. destruct (wrun w1 l1) as [w3 e3]. cbn [fst] in *. exact IH.
Qed.

Lemma upd_upd_const {A} (x y : A) : forall l i, upd i (fun _ => x) (upd i (fun _ => y) l) = upd i (fun _ => x) l.
Proof. induction l as [|a l IH]; intros [|i]; cbn [upd]; [reflexivity | reflexivity | reflexivity | rewrite IH; reflexivity]. Qed.

Lemma upd_same {A} (x : A) : forall l i, nth_error l i = Some x -> upd i (fun _ => x) l = l.
Proof.
  induction l as [|a l IH]; intros [|i] H; cbn [upd nth_error] in *; try discriminate; [inversion H; reflexivity|].
  rewrite IH by exact H. reflexivity.
Qed.

Lemma nth_error_upd_other {A} (f : A -> A) : forall l i k, i <> k -> nth_error (upd i f l) k = nth_error l k.
Proof.
  induction l as [|a l IH]; intros [|i] [|k] H; cbn [upd nth_error]; try reflexivity; [contradiction|].
  apply IH. intro E; apply H; f_equal; exact E.
Qed.

(* delivering a stretch of the pool, in order, to node i = node i merges those entries *)
Lemma deliver_stretch entries : forall pre post w i c s,
  wpool w = pre ++ entries ++ post -> nth_error (wnodes w) i = Some (c, s) ->
  fst (wrun w (deliver_all i (length pre) (length entries))) =
  mkW (upd i (fun _ => (c, merge_all c s entries)) (wnodes w)) (wpool w).
Proof.
  induction entries as [|e es IH]; intros pre post w i c s Hp Hn.
  - cbn. rewrite (upd_same (c, s)) by exact Hn. destruct w; reflexivity.
  - unfold deliver_all. cbn [length seq map wrun]. cbn [wstep].
    assert (E : nth_error (wpool w) (length pre) = Some e).
    { rewrite Hp. rewrite nth_error_app2 by lia. rewrite Nat.sub_diag. reflexivity. }
    rewrite E. unfold at_node. rewrite Hn.
    destruct (step c s (op_of e)) as [s1 ev1] eqn:Es.
    set (w1 := mkW (upd i (fun _ => (c, s1)) (wnodes w)) (wpool w)).
    assert (Hp1 : wpool w1 = (pre ++ [e]) ++ es ++ post) by (cbn [w1 wpool]; rewrite Hp, <- app_assoc; reflexivity).
    assert (Hn1 : nth_error (wnodes w1) i = Some (c, s1)).
    { cbn [w1 wnodes]. rewrite (nth_error_upd (fun _ => (c, s1)) _ _ _ Hn). reflexivity. }
    pose proof (IH (pre ++ [e]) post w1 i c s1 Hp1 Hn1) as R.
    rewrite app_length in R. cbn [length] in R. rewrite Nat.add_1_r in R. unfold deliver_all in R.
    destruct (wrun w1 (map (WDeliver i) (seq (S (length pre)) (length es)))) as [w2 e2]. cbn [fst] in *.
    rewrite R. cbn [w1 wnodes wpool]. rewrite upd_upd_const.
    cbn [merge_all fold_left]. rewrite Es. reflexivity.
Qed.

(* one exchange between the nodes at positions i <> j *)
Theorem exchange_is_a_schedule w i j ci si cj sj :
  i <> j -> nth_error (wnodes w) i = Some (ci, si) -> nth_error (wnodes w) j = Some (cj, sj) ->
  let w' := fst (wrun w (exchange_sched w i j)) in
  nth_error (wnodes w') i = Some (ci, fst (pushpull ci si cj sj)) /\
  nth_error (wnodes w') j = Some (cj, snd (pushpull ci si cj sj)) /\
  (forall k, k <> i -> k <> j -> nth_error (wnodes w') k = nth_error (wnodes w) k) /\
  wpool w' = snapshot sj ++ snapshot si ++ wpool w.
Proof.
  intros Hij Hi Hj. cbv zeta. unfold exchange_sched. rewrite Hi, Hj.
  change ([WSnapshot i; WSnapshot j] ++ deliver_all i 0 (length (recs sj)) ++ deliver_all j (length (recs sj)) (length (recs si)))
    with ([WSnapshot i; WSnapshot j] ++ (deliver_all i 0 (length (recs sj)) ++ deliver_all j (length (recs sj)) (length (recs si)))).
  set (w0 := mkW (wnodes w) (snapshot sj ++ snapshot si ++ wpool w)).
  assert (E0 : fst (wrun w [WSnapshot i; WSnapshot j]) = w0).
  { cbn [wrun wstep]. rewrite Hi. cbn [wnodes]. rewrite Hj. cbn [fst wnodes wpool app]. unfold w0. try rewrite <- app_assoc. reflexivity. }
  rewrite wrun_app, E0, wrun_app.
  assert (L1 : length (snapshot sj) = length (recs sj)) by (unfold snapshot; apply map_length).
  assert (L2 : length (snapshot si) = length (recs si)) by (unfold snapshot; apply map_length).
  pose proof (deliver_stretch (snapshot sj) [] (snapshot si ++ wpool w) w0 i ci si eq_refl Hi) as R1.
  cbn [length] in R1. rewrite L1 in R1. rewrite R1.
  set (w1 := mkW (upd i (fun _ => (ci, merge_all ci si (snapshot sj))) (wnodes w0)) (wpool w0)).
  assert (Hj1 : nth_error (wnodes w1) j = Some (cj, sj)).
  { cbn [w1 wnodes w0]. rewrite nth_error_upd_other by exact Hij. exact Hj. }
  pose proof (deliver_stretch (snapshot si) (snapshot sj) (wpool w) w1 j cj sj eq_refl Hj1) as R2.
  rewrite L1, L2 in R2. rewrite R2. cbn [wnodes wpool w1 w0].
  unfold pushpull. cbn [fst snd]. repeat split.
  - rewrite nth_error_upd_other by (intro E; apply Hij; symmetry; exact E).
    rewrite (nth_error_upd (fun _ => (ci, merge_all ci si (snapshot sj))) _ _ _ Hi). reflexivity.
  - assert (Hj2 : nth_error (upd i (fun _ => (ci, merge_all ci si (snapshot sj))) (wnodes w)) j = Some (cj, sj))
      by (rewrite nth_error_upd_other by exact Hij; exact Hj).
    rewrite (nth_error_upd (fun _ => (cj, merge_all cj sj (snapshot si))) _ _ _ Hj2). reflexivity.
  - intros k Hki Hkj. rewrite nth_error_upd_other by (intro E; apply Hkj; symmetry; exact E).
    rewrite nth_error_upd_other by (intro E; apply Hki; symmetry; exact E). reflexivity.
Qed.

(* a schedule of the healthy-cluster actions is a schedule of the general cluster *)
Lemma grun_GA l : forall w, grun w (map GA l) = wrun w l.
Proof.
  induction l as [|a l IH]; intros w; cbn [map grun wrun]; [reflexivity|]. cbn [gstep].
  destruct (wstep w a) as [w1 e1]. rewrite IH. reflexivity.
Qed.

(* two exchanges in a row, inside the cluster *)
Definition exchange2_sched (w : world) (i j : nat) : list wact :=
  exchange_sched w i j ++ exchange_sched (fst (wrun w (exchange_sched w i j))) i j.

(* in a cluster state whose nodes satisfy the node invariant (every reachable state: BW), two members that have
   not called Leave, after the two-exchange schedule, list each other alive with current metadata *)
Theorem heal_in_cluster w i j ci si cj sj :
  i <> j -> nth_error (wnodes w) i = Some (ci, si) -> nth_error (wnodes w) j = Some (cj, sj) ->
  fixed ci = true -> fixed cj = true -> FInv ci si -> FInv cj sj -> self ci <> self cj ->
  leaving si = false -> leaving sj = false ->
  forall ri rj, lk si (self ci) = Some ri -> lk sj (self cj) = Some rj ->
  (0 < rinc ri)%N -> (0 < rinc rj)%N -> vsn_bad (rvsn ri) = false -> vsn_bad (rvsn rj) = false ->
  below_max (linc si) -> below_max (linc sj) ->
  heal_prior cj sj ci ri -> heal_prior ci si cj rj ->
  let w' := fst (wrun w (exchange2_sched w i j)) in
  exists si' sj', nth_error (wnodes w') i = Some (ci, si') /\ nth_error (wnodes w') j = Some (cj, sj') /\
    listed sj' (self ci) = Some (raddr ri, rmeta ri) /\ listed si' (self cj) = Some (raddr rj, rmeta rj) /\
    listed si' (self ci) = Some (raddr ri, rmeta ri) /\ listed sj' (self cj) = Some (raddr rj, rmeta rj).
Proof.
  intros Hij Hi Hj Fi Fj [Ii Ki] [Ij Kj] Hn Li Lj ri rj Lri Lrj Pi Pj Vi Vj Bi Bj Hpj Hpi. cbv zeta.
  unfold exchange2_sched. rewrite wrun_app.
  destruct (exchange_is_a_schedule w i j ci si cj sj Hij Hi Hj) as [A1 [A2 _]].
  set (w1 := fst (wrun w (exchange_sched w i j))) in *.
  destruct (exchange_is_a_schedule w1 i j ci _ cj _ Hij A1 A2) as [B1 [B2 _]].
  set (w2 := fst (wrun w1 (exchange_sched w1 i j))) in *.
  (* the node invariant gives what the pairwise theorem asks of each node *)
  assert (SGi : SelfGood ci si ri).
  { destruct (inv_self ci si Ii Li) as [r [L [A _]]]. rewrite Lri in L. inversion L; subst r.
    unfold SelfGood. repeat split; auto. eapply self_no_live; eauto. }
  assert (SGj : SelfGood cj sj rj).
  { destruct (inv_self cj sj Ij Lj) as [r [L [A _]]]. rewrite Lrj in L. inversion L; subst r.
    unfold SelfGood. repeat split; auto. eapply self_no_live; eauto. }
  pose proof (two_pushpulls_heal_mutual ci si cj sj ri rj Hn
                (conj Ki (conj SGi (conj Pi (conj Vi Bi)))) (conj Kj (conj SGj (conj Pj (conj Vj Bj)))) Hpj Hpi) as H.
  unfold pushpull2 in H. destruct (pushpull ci si cj sj) as [sx1 sy1] eqn:E1. cbn [fst snd] in *.
  destruct (pushpull ci sx1 cj sy1) as [sx2 sy2] eqn:E2. cbn [fst snd] in *.
  exists sx2, sy2. destruct H as [H1 [H2 [H3 H4]]]. repeat split; assumption.
Qed.

Lemma NoDup_map_nth {A B} (f : A -> B) : forall l i j a b,
  NoDup (map f l) -> nth_error l i = Some a -> nth_error l j = Some b -> i <> j -> f a <> f b.
Proof.
  induction l as [|x l IH]; intros [|i] [|j] a b ND Hi Hj Hij; cbn [nth_error map] in *; try discriminate.
  - contradiction.
  - inversion Hi; subst x. inversion ND as [|? ? Hn _]; subst. intro E. apply Hn. rewrite E.
    apply in_map. eapply nth_error_In. exact Hj.
  - inversion Hj; subst x. inversion ND as [|? ? Hn _]; subst. intro E. apply Hn. rewrite <- E.
    apply in_map. eapply nth_error_In. exact Hi.
  - inversion ND; subst. eapply IH; eauto.
Qed.

(* the same in any state the cluster can reach (BW is the invariant of C05_claims_below_owner: every state
   reached from booted nodes with distinct names under every schedule satisfies it) *)
Theorem heal_in_reachable w i j ci si cj sj :
  BW w -> i <> j -> nth_error (wnodes w) i = Some (ci, si) -> nth_error (wnodes w) j = Some (cj, sj) ->
  leaving si = false -> leaving sj = false ->
  forall ri rj, lk si (self ci) = Some ri -> lk sj (self cj) = Some rj ->
  (0 < rinc ri)%N -> (0 < rinc rj)%N -> vsn_bad (rvsn ri) = false -> vsn_bad (rvsn rj) = false ->
  below_max (linc si) -> below_max (linc sj) ->
  heal_prior cj sj ci ri -> heal_prior ci si cj rj ->
  let w' := fst (wrun w (exchange2_sched w i j)) in
  exists si' sj', nth_error (wnodes w') i = Some (ci, si') /\ nth_error (wnodes w') j = Some (cj, sj') /\
    listed sj' (self ci) = Some (raddr ri, rmeta ri) /\ listed si' (self cj) = Some (raddr rj, rmeta rj) /\
    listed si' (self ci) = Some (raddr ri, rmeta ri) /\ listed sj' (self cj) = Some (raddr rj, rmeta rj).
Proof.
  intros [Hn _ Hnames] Hij Hi Hj. 
  destruct (Hn ci si (nth_error_In _ _ Hi)) as [Fi [Ii _]].
  destruct (Hn cj sj (nth_error_In _ _ Hj)) as [Fj [Ij _]].
  assert (Hne : self ci <> self cj).
  { unfold names in Hnames. apply (NoDup_map_nth (fun cs : cfg * nstate => self (fst cs)) (wnodes w) i j (ci, si) (cj, sj) Hnames Hi Hj Hij). }
  intros. eapply heal_in_cluster; eauto.
Qed.
