(* Below_cluster.v — C05 for the whole cluster, every schedule (failed probes, suspicion timers,
   accusations, refutations, gossip, push/pull, duplication, reordering, loss, UpdateNode, Leave):
   no claim anywhere — in a node's records, in a broadcast queue, on the network — carries an incarnation
   above the counter of the member it is about.  Hence a refutation outranks every claim in the system,
   and whoever processes it lists the member alive with its latest metadata. *)
From Coq Require Import List NArith ZArith Bool Lia.
Import ListNotations.
From VF Require Import Base Core Core_lemmas Core_inv Core_props Below_proofs Cluster Cluster_proofs.
Local Open Scope Z_scope.

Definition owner_le (w : world) (n inc : N) : Prop :=
  forall c s, In (c, s) (wnodes w) -> self c = n -> (inc <= linc s)%N.

Definition pname (p : pmsg) : N := match p with PB m => mname m | PS _ _ n _ _ _ => n end.
Definition pinc (p : pmsg) : N := match p with PB m => minc m | PS _ i _ _ _ _ => i end.

Record BW (w : world) : Prop := mkBW {
  bw_nodes : forall c s, In (c, s) (wnodes w) -> fixed c = true /\ FInv c s /\ bounded c (owner_le w) s;
  bw_pool : forall p, In p (wpool w) -> owner_le w (pname p) (pinc p);
  bw_names : NoDup (names w) }.

Lemma bounded_mono c (P P' : N -> N -> Prop) s : (forall n i, P n i -> P' n i) -> bounded c P s -> bounded c P' s.
Proof.
  intros M [H1 H2]. constructor.
  - intros n r Hin. specialize (H1 n r Hin). unfold ok_claim in *. destruct (N.eqb n (self c)); [destruct H1; auto | auto].
  - intros k m Hin. specialize (H2 k m Hin). unfold ok_claim in *. destruct (N.eqb (mname m) (self c)); [destruct H2; auto | auto].
Qed.

(* a claim a node holds is within the owner's counter *)
Lemma ok_claim_owner w c s n inc :
  NoDup (names w) -> In (c, s) (wnodes w) -> ok_claim c (owner_le w) (linc s) n inc -> owner_le w n inc.
Proof.
  intros Hu Hin H. unfold ok_claim in H. destruct (N.eqb_spec n (self c)) as [E|Hne]; [|exact H].
  destruct H as [H|H]; [|exact H].
  intros c0 s0 H0 E0. assert (X : (c0, s0) = (c, s)) by (apply (unique_node w); auto; congruence).
  inversion X; subst. exact H.
Qed.

Lemma owner_ok_claim w c s n inc :
  In (c, s) (wnodes w) -> owner_le w n inc -> ok_claim c (owner_le w) (linc s) n inc.
Proof.
  intros Hin H. unfold ok_claim. destruct (N.eqb_spec n (self c)) as [E|Hne]; [|exact H].
  left. apply (H c s Hin). symmetry. exact E.
Qed.

Lemma names_upd (l : list (cfg * nstate)) : forall i c s s', nth_error l i = Some (c, s) ->
  map (fun cs => self (fst cs)) (upd i (fun _ => (c, s')) l) = map (fun cs => self (fst cs)) l.
Proof.
  induction l as [|y l IH]; intros [|i] c s s' Hi; cbn in *; try discriminate; try reflexivity.
  - inversion Hi; subst. reflexivity.
  - rewrite (IH i c s s' Hi). reflexivity.
Qed.

Lemma nth_error_upd {A} (f : A -> A) : forall l i y, nth_error l i = Some y -> nth_error (upd i f l) i = Some (f y).
Proof.
  induction l as [|z l IH]; intros [|i] y Hi; cbn in *; try discriminate.
  - inversion Hi; subst. reflexivity.
  - apply IH. exact Hi.
Qed.

(* ---------- one Core operation at one node ---------- *)
Lemma at_node_BW w i o c s :
  BW w -> nth_error (wnodes w) i = Some (c, s) -> op_ok c s o -> op_claim_ok c (owner_le w) s o ->
  BW (fst (at_node w i o)) /\ (forall n inc, owner_le w n inc -> owner_le (fst (at_node w i o)) n inc)
  /\ exists s', nth_error (wnodes (fst (at_node w i o))) i = Some (c, s') /\ s' = fst (step c s o).
Proof.
  intros [Hn Hp Hu] Hi Hok Hcl. unfold at_node. rewrite Hi.
  assert (Hin : In (c, s) (wnodes w)) by (eapply nth_error_In; exact Hi).
  destruct (Hn c s Hin) as [Hf [HF Hb]].
  pose proof (step_bounded c Hf (owner_le w) (fun n c0 s0 _ _ => N.le_0_l _) s o HF Hok Hb Hcl) as [Sb Sl].
  pose proof (step_FInv c Hf s o HF Hok) as SF.
  destruct (step c s o) as [s' evs]. cbn [fst] in *.
  set (w' := mkW (upd i (fun _ => (c, s')) (wnodes w)) (wpool w)).
  assert (Mono : forall n inc, owner_le w n inc -> owner_le w' n inc).
  { intros n inc H c0 s0 H0 E0. destruct (In_upd (fun _ => (c, s')) (wnodes w) i (c0, s0) H0) as [K|[y [K1 K2]]].
    - apply (H c0 s0 K E0).
    - inversion K2; subst c0 s0. pose proof (H c s Hin E0). lia. }
  split; [|split; [exact Mono|]].
  - constructor.
    + intros c0 s0 H0. destruct (In_upd (fun _ => (c, s')) (wnodes w) i (c0, s0) H0) as [K|[y [K1 K2]]].
      * destruct (Hn c0 s0 K) as [F0 [I0 B0]]. split; [exact F0|]. split; [exact I0|].
        apply (bounded_mono c0 (owner_le w)); [exact Mono | exact B0].
      * inversion K2; subst c0 s0. split; [exact Hf|]. split; [exact SF|].
        apply (bounded_mono c (owner_le w)); [exact Mono | exact Sb].
    + intros p Hp'. apply Mono. apply Hp. exact Hp'.
    + unfold names, w'; cbn [wnodes]. rewrite (names_upd (wnodes w) i c s s' Hi). exact Hu.
  - exists s'. split; [|reflexivity]. cbn [wnodes]. apply (nth_error_upd (fun _ => (c, s')) _ _ _ Hi).
Qed.

(* the operation a cluster action makes its node execute *)
Definition gact_op (w : world) (g : gact) : option (nat * op) :=
  match g with
  | GA (WGossip _) | GA (WSnapshot _) => None
  | GA (WDeliver i k) => match nth_error (wpool w) k with Some p => Some (i, op_of p) | None => None end
  | GA (WUpdate i meta wt) => Some (i, OUpdate meta wt)
  | GA (WLeave i wt) => Some (i, OLeave wt)
  | GA (WAdvance i dt) => Some (i, OAdvance dt)
  | GA (WReap i) => Some (i, OReap)
  | GProbeFail i n => match nth_error (wnodes w) i with
                      | Some (c, s) => match alookup n (recs s) with
                                       | Some r => Some (i, OSuspect (rinc r) n (self c))
                                       | None => None
                                       end
                      | None => None
                      end
  end.

(* incarnations stay below the largest representable value (Core_inv.op_ok) *)
Definition gact_ok (w : world) (g : gact) : Prop :=
  match gact_op w g with
  | Some (i, o) => match nth_error (wnodes w) i with Some (c, s) => op_ok c s o | None => True end
  | None => True
  end.

Lemma gstep_at_node w g i o : gact_op w g = Some (i, o) -> gstep w g = at_node w i o.
Proof.
  destruct g as [[j|j|j k|j meta wt|j wt|j dt|j]|j n]; cbn [gact_op gstep wstep]; try discriminate.
  - destruct (nth_error (wpool w) k); [|discriminate]. intro E; inversion E; subst. reflexivity.
  - intro E; inversion E; subst. reflexivity.
  - intro E; inversion E; subst. reflexivity.
  - intro E; inversion E; subst. reflexivity.
  - intro E; inversion E; subst. reflexivity.
  - destruct (nth_error (wnodes w) j) as [[c s]|]; [|discriminate].
    destruct (alookup n (recs s)); [|discriminate]. intro E; inversion E; subst. reflexivity.
Qed.

Theorem gstep_BW w g :
  BW w -> gact_ok w g ->
  BW (fst (gstep w g)) /\ (forall n inc, owner_le w n inc -> owner_le (fst (gstep w g)) n inc).
Proof.
  intros HW Hok. pose proof HW as [Hn Hp Hu]. unfold gact_ok in Hok.
  destruct (gact_op w g) as [[i o]|] eqn:Eop.
  - rewrite (gstep_at_node w g i o Eop).
    destruct (nth_error (wnodes w) i) as [[c s]|] eqn:Hi.
    2:{ unfold at_node. rewrite Hi. cbn [fst]. split; [exact HW | auto]. }
    assert (Hin : In (c, s) (wnodes w)) by (eapply nth_error_In; exact Hi).
    assert (Hcl : op_claim_ok c (owner_le w) s o).
    { destruct g as [[j|j|j k|j meta wt|j wt|j dt|j]|j n]; cbn [gact_op] in Eop; try discriminate.
      - destruct (nth_error (wpool w) k) as [p|] eqn:Hk; [|discriminate]. inversion Eop; subst.
        pose proof (Hp p (nth_error_In _ _ Hk)) as Cp.
        destruct p as [[inc name addr meta vsn | inc name from | inc name from] | rs inc name addr meta vsn];
          cbn [op_of op_claim_ok pname pinc mname minc] in *; apply (owner_ok_claim w); assumption.
      - inversion Eop; subst. exact I.
      - inversion Eop; subst. exact I.
      - inversion Eop; subst. exact I.
      - inversion Eop; subst. exact I.
      - destruct (nth_error (wnodes w) j) as [[c1 s1]|] eqn:Hj; [|discriminate].
        destruct (alookup n (recs s1)) as [r|] eqn:L; [|discriminate].
        inversion Eop; subst. rewrite Hi in Hj. inversion Hj; subst c1 s1. cbn [op_claim_ok].
        destruct (Hn c s Hin) as [_ [_ Hb]]. apply (bd_recs _ _ _ Hb). apply alookup_some_in. exact L. }
    destruct (at_node_BW w i o c s HW Hi Hok Hcl) as [A [B _]]. split; assumption.
  - (* gossip, snapshot, or an action that does nothing *)
    destruct g as [[j|j|j k|j meta wt|j wt|j dt|j]|j n]; cbn [gact_op] in Eop; try discriminate; cbn [gstep wstep].
    + destruct (nth_error (wnodes w) j) as [[c s]|] eqn:Hi; [|cbn [fst]; split; [exact HW | auto]].
      cbn [fst]. split; [|auto]. constructor; cbn [wnodes wpool]; auto.
      intros p Hin. apply in_app_or in Hin. destruct Hin as [Hin|Hin]; [|apply Hp; exact Hin].
      apply in_map_iff in Hin. destruct Hin as [[k m] [E Hin]]. subst p. cbn [pname pinc snd].
      pose proof (nth_error_In _ _ Hi) as Hc. destruct (Hn c s Hc) as [_ [_ Hb]].
      apply (ok_claim_owner w c s); [exact Hu | exact Hc | apply (bd_bq _ _ _ Hb k m Hin)].
    + destruct (nth_error (wnodes w) j) as [[c s]|] eqn:Hi; [|cbn [fst]; split; [exact HW | auto]].
      cbn [fst]. split; [|auto]. constructor; cbn [wnodes wpool]; auto.
      intros p Hin. apply in_app_or in Hin. destruct Hin as [Hin|Hin]; [|apply Hp; exact Hin].
      unfold snapshot in Hin. apply in_map_iff in Hin. destruct Hin as [[n r] [E Hin]]. subst p. cbn [pname pinc fst snd].
      pose proof (nth_error_In _ _ Hi) as Hc. destruct (Hn c s Hc) as [_ [_ Hb]].
      apply (ok_claim_owner w c s); [exact Hu | exact Hc | apply (bd_recs _ _ _ Hb n r Hin)].
    + destruct (nth_error (wpool w) k); [discriminate|]. cbn [fst]. split; [exact HW | auto].
    + destruct (nth_error (wnodes w) j) as [[c s]|]; [|cbn [fst]; split; [exact HW | auto]].
      destruct (alookup n (recs s)); [discriminate|]. cbn [fst]. split; [exact HW | auto].
Qed.

Fixpoint grun_ok (w : world) (l : list gact) : Prop :=
  match l with
  | [] => True
  | g :: l' => gact_ok w g /\ grun_ok (fst (gstep w g)) l'
  end.

Theorem grun_BW : forall l w, BW w -> grun_ok w l -> BW (fst (grun w l)).
Proof.
  induction l as [|g l IH]; intros w HW Hok; cbn [grun]; [exact HW|].
  destruct Hok as [Hg Hl]. pose proof (gstep_BW w g HW Hg) as [P _].
  destruct (gstep w g) as [w1 e1]. cbn [fst] in *. specialize (IH w1 P Hl).
  destruct (grun w1 l) as [w2 e2]. exact IH.
Qed.

Lemma boot_world_BW cs :
  Forall (fun cm => good_cfg (fst cm)) cs -> NoDup (map (fun cm => self (fst cm)) cs) -> BW (boot_world cs).
Proof.
  intros Hg Hu. constructor.
  - intros c s Hin. unfold boot_world in Hin; cbn [wnodes] in Hin. apply in_map_iff in Hin.
    destruct Hin as [[c0 m0] [E Hin]]. cbn [fst snd] in E. inversion E; subst c s.
    rewrite Forall_forall in Hg. pose proof (Hg _ Hin) as [F [V A]]. cbn [fst] in *.
    split; [exact F|]. split; [apply boot_FInv; assumption|].
    rewrite (boot_eq c0 m0 A V). constructor; cbn [recs bq linc].
    + intros n r [E'|[]]. inversion E'; subst. unfold ok_claim. rewrite N.eqb_refl. left. cbn. lia.
    + intros k m [E'|[]]. inversion E'; subst. unfold ok_claim. cbn [mname minc]. rewrite N.eqb_refl. left. lia.
  - intros p [].
  - unfold names, boot_world; cbn [wnodes]. rewrite map_map. cbn [fst]. exact Hu.
Qed.

(* C05: in every reachable state of the cluster, every claim about a member — held by any node, queued
   for gossip anywhere, or ever put on the network — carries at most that member's own counter *)
Theorem claims_below_owner cs acts :
  Forall (fun cm => good_cfg (fst cm)) cs -> NoDup (map (fun cm => self (fst cm)) cs) ->
  grun_ok (boot_world cs) acts ->
  let w := fst (grun (boot_world cs) acts) in
  forall cx sx, In (cx, sx) (wnodes w) ->
    (forall c s n r, In (c, s) (wnodes w) -> lk s n = Some r -> n = self cx -> (rinc r <= linc sx)%N) /\
    (forall c s k m, In (c, s) (wnodes w) -> In (k, m) (bq s) -> mname m = self cx -> (minc m <= linc sx)%N) /\
    (forall p, In p (wpool w) -> pname p = self cx -> (pinc p <= linc sx)%N).
Proof.
  intros Hg Hu Hok w cx sx Hx.
  pose proof (grun_BW acts _ (boot_world_BW cs Hg Hu) Hok) as [Hn Hp Hnames]. fold w in Hn, Hp, Hnames.
  split; [|split].
  - intros c s n r Hin L En. destruct (Hn c s Hin) as [_ [_ Hb]].
    pose proof (bd_recs _ _ _ Hb n r (alookup_some_in _ _ _ L)) as H.
    apply (ok_claim_owner w c s n _ Hnames Hin H cx sx Hx). symmetry. exact En.
  - intros c s k m Hin Hm En. destruct (Hn c s Hin) as [_ [_ Hb]].
    pose proof (bd_bq _ _ _ Hb k m Hm) as H.
    apply (ok_claim_owner w c s _ _ Hnames Hin H cx sx Hx). symmetry. exact En.
  - intros p Hin En. apply (Hp p Hin cx sx Hx). symmetry. exact En.
Qed.

(* ---------- the refutation wins ---------- *)
(* a member that is running and hears an accusation at (or above) its record's incarnation moves its
   counter strictly above every claim in the system and queues its alive message *)
Theorem refutation_outranks_all w i c s r inc from :
  BW w -> nth_error (wnodes w) i = Some (c, s) -> leaving s = false ->
  lk s (self c) = Some r -> rst r = Alive -> (rinc r <= inc)%N -> below_max inc -> below_max (linc s) ->
  let s' := fst (do_suspect c s inc (self c) from) in
  s' = refute c s r inc /\
  alookup (kaddr (raddr r)) (bq s') = Some (BAlive (linc s') (self c) (raddr r) (rmeta r) (rvsn r)) /\
  (* above every record of it held anywhere ... *)
  (forall cj sj rj, In (cj, sj) (wnodes w) -> lk sj (self c) = Some rj -> (rinc rj < linc s')%N) /\
  (* ... every queued broadcast about it ... *)
  (forall cj sj k m, In (cj, sj) (wnodes w) -> In (k, m) (bq sj) -> mname m = self c -> (minc m < linc s')%N) /\
  (* ... and everything ever put on the network about it *)
  (forall p, In p (wpool w) -> pname p = self c -> (pinc p < linc s')%N).
Proof.
  intros [Hn Hp Hu] Hi Lv L A Ge Bi Bl. cbv zeta.
  assert (Hin : In (c, s) (wnodes w)) by (eapply nth_error_In; exact Hi).
  destruct (Hn c s Hin) as [Hf [[HI K] Hb]].
  rewrite (suspect_self_refuted c s inc from r HI Lv L A Ge). cbn [fst].
  pose proof (refute_effect c s r inc Bi Bl) as [R1 [R2 [R3 [R4 _]]]].
  split; [reflexivity|]. split; [exact R4|].
  assert (Own : forall k, owner_le w (self c) k -> (k < linc (refute c s r inc))%N).
  { intros k Hk. pose proof (Hk c s Hin eq_refl). lia. }
  split; [|split].
  - intros cj sj rj Hj Lj. apply Own. destruct (Hn cj sj Hj) as [_ [_ Bj]].
    apply (ok_claim_owner w cj sj); [exact Hu | exact Hj |].
    apply (bd_recs _ _ _ Bj). apply alookup_some_in. exact Lj.
  - intros cj sj k m Hj Hm En. apply Own. destruct (Hn cj sj Hj) as [_ [_ Bj]].
    rewrite <- En. apply (ok_claim_owner w cj sj); [exact Hu | exact Hj | apply (bd_bq _ _ _ Bj k m Hm)].
  - intros p Hin' En. apply Own. rewrite <- En. apply Hp. exact Hin'.
Qed.

(* whoever then processes that alive message, holding any older record of the member at the same
   address, lists it alive with the metadata the message carries *)
Theorem newer_alive_accepted c s inc name addr meta vsn r :
  lk s name = Some r -> name <> self c -> raddr r = addr -> (rinc r < inc)%N -> vsn_bad vsn = false ->
  let s' := fst (do_alive c s inc name addr meta vsn false) in
  exists r', lk s' name = Some r' /\ rst r' = Alive /\ rinc r' = inc /\ raddr r' = addr /\ rmeta r' = meta.
Proof.
  intros L Hn Ea Lt Vb. cbv zeta. unfold do_alive.
  assert (E0 : N.eqb name (self c) = false) by (apply N.eqb_neq; exact Hn).
  rewrite E0, andb_false_r, Vb. unfold alive_find. fold (lk s name). rewrite L.
  assert (E1 : N.eqb (raddr r) addr = true) by (apply N.eqb_eq; exact Ea). rewrite E1.
  unfold alive_apply. rewrite E0. cbn [negb andb].
  assert (E2 : (inc <=? rinc r)%N = false) by (apply N.leb_gt; exact Lt). rewrite E2. cbn [andb].
  rewrite andb_false_r. cbn [andb fst].
  eexists. split; [apply lk_set_rec_same|]. cbn. auto.
Qed.

(* ---------- a decidable version of the no-wrap side condition (for examples) ---------- *)
Definition below_maxb (x : N) : bool := (x <? two32 - 1)%N.
Definition all_belowb (s : nstate) : bool :=
  below_maxb (linc s) && forallb (fun p => below_maxb (rinc (snd p))) (recs s).
Definition op_okb (c : cfg) (s : nstate) (o : op) : bool :=
  all_belowb s &&
  match o with
  | OAlive inc name _ _ _ b => below_maxb inc && (negb b || (N.eqb name (self c) && (inc <=? linc s)%N))
  | OHandleAlive _ inc _ _ _ _ | OSuspect inc _ _ | ODead inc _ _ | OMerge _ inc _ _ _ _ | OLeaveCommit inc => below_maxb inc
  | OUpdate _ _ => below_maxb (linc s + 1)
  | _ => true
  end.
Definition gact_okb (w : world) (g : gact) : bool :=
  match gact_op w g with
  | Some (i, o) => match nth_error (wnodes w) i with Some (c, s) => op_okb c s o | None => true end
  | None => true
  end.
Fixpoint grun_okb (w : world) (l : list gact) : bool :=
  match l with
  | [] => true
  | g :: l' => gact_okb w g && grun_okb (fst (gstep w g)) l'
  end.

Lemma below_maxb_ok x : below_maxb x = true -> below_max x.
Proof. unfold below_maxb, below_max. apply N.ltb_lt. Qed.

Lemma all_belowb_ok s : all_belowb s = true -> all_below s.
Proof.
  unfold all_belowb. intro H. apply andb_true_iff in H. destruct H as [H1 H2]. split; [apply below_maxb_ok; exact H1|].
  intros n r L. rewrite forallb_forall in H2. apply below_maxb_ok. apply (H2 (n, r)). apply alookup_some_in. exact L.
Qed.

Lemma op_okb_ok c s o : op_okb c s o = true -> op_ok c s o.
Proof.
  unfold op_okb, op_ok. intro H. apply andb_true_iff in H. destruct H as [H1 H2]. split; [apply all_belowb_ok; exact H1|].
  destruct o; auto; try (apply below_maxb_ok; exact H2).
  apply andb_true_iff in H2. destruct H2 as [H2 H3]. split; [apply below_maxb_ok; exact H2|].
  intro Eb. subst. cbn in H3. apply andb_true_iff in H3. destruct H3 as [H3 H4].
  split; [apply N.eqb_eq; exact H3 | apply N.leb_le; exact H4].
Qed.

Lemma grun_okb_ok : forall l w, grun_okb w l = true -> grun_ok w l.
Proof.
  induction l as [|g l IH]; intros w H; cbn in *; [exact I|].
  apply andb_true_iff in H. destruct H as [H1 H2]. split; [|apply IH; exact H2].
  unfold gact_okb in H1. unfold gact_ok. destruct (gact_op w g) as [[i o]|]; [|exact I].
  destruct (nth_error (wnodes w) i) as [[c s]|]; [|exact I]. apply op_okb_ok. exact H1.
Qed.
