(* Heal_proofs.v — anti-entropy heals a pair: whatever two running nodes hold about each other
   (nothing, a stale incarnation, Suspect, Dead, Left, an incarnation from a future the member never
   reached, stale metadata), two complete push/pull exchanges between them leave each listing the other
   alive with the other's current address and metadata.  No cluster invariant is needed: the proof is a
   case analysis on the two node states, carried through the entry-by-entry merge. *)
From Coq Require Import List NArith ZArith Bool Lia.
Import ListNotations.
From VF Require Import Base Core Core_lemmas Core_inv Core_props Cluster Exchange.
Local Open Scope Z_scope.

Definition ent (p : N * rec) : pmsg :=
  PS (rst (snd p)) (rinc (snd p)) (fst p) (raddr (snd p)) (rmeta (snd p)) (rvsn (snd p)).

Lemma snapshot_ent s : snapshot s = map ent (recs s).
Proof. reflexivity. Qed.

Section OneNode.
Variable c : cfg.

(* ---------------------------------------------------------------- locality of one merged entry *)
Definition loc (n : N) (s s' : nstate) : Prop :=
  (forall t, t <> n -> lk s' t = lk s t) /\ leaving s' = leaving s /\
  (n <> self c -> linc s' = linc s) /\
  (forall u, In u (timers s') -> tlive u = true -> In u (timers s) \/ tname u = n).

Lemma loc_refl n s : loc n s s.
Proof. unfold loc. spl; auto. Qed.

Lemma frame_lk name s s' : frame name s s' -> forall t, t <> name -> lk s' t = lk s t.
Proof. intros F t Ht. unfold lk. apply F. exact Ht. Qed.

Lemma do_dead_loc s inc name from : loc name s (fst (do_dead c s inc name from)).
Proof.
  pose proof (do_dead_spec c s inc name from) as H. destruct (do_dead c s inc name from) as [s' evs]. cbn [fst].
  destruct H as [R [F [Lv [_ [_ T]]]]]. unfold loc. spl.
  - apply frame_lk. exact F.
  - exact Lv.
  - intro Hn. destruct R as [_ [E|[E _]] _ | r L Es | r from' _ _ _ _ _ _ _ Li _ _ _].
    + subst s'. reflexivity.
    + subst s'. reflexivity.
    + contradiction.
    + exact Li.
  - intros u Hu Lu. destruct (T u Hu) as [I|[w [_ [_ [Fl _]]]]]; [left; exact I | congruence].
Qed.

Lemma timer_fire_loc s t : loc (tname t) s (fst (timer_fire c s t)).
Proof.
  unfold timer_fire. destruct (alookup (tname t) (recs s)) as [r|]; [|apply loc_refl].
  destruct (st_eqb (rst r) Suspect && Z.eqb (rsince r) (tct t)); [apply do_dead_loc | apply loc_refl].
Qed.

Lemma loc_trans n s1 s2 s3 : loc n s1 s2 -> loc n s2 s3 -> loc n s1 s3.
Proof.
  intros [A1 [A2 [A3 A4]]] [B1 [B2 [B3 B4]]]. unfold loc. spl.
  - intros t Ht. rewrite B1 by exact Ht. apply A1. exact Ht.
  - congruence.
  - intro Hn. rewrite B3 by exact Hn. apply A3. exact Hn.
  - intros u Hu Lu. destruct (B4 u Hu Lu) as [I|E]; [apply A4; assumption | right; exact E].
Qed.

Lemma do_suspect_loc s inc name from : loc name s (fst (do_suspect c s inc name from)).
Proof.
  pose proof (do_suspect_spec c s inc name from) as H. destruct (do_suspect c s inc name from) as [s' evs]. cbn [fst].
  destruct H as [R [F [Lv _]]].
  destruct R as [E _ | r t sA L Ge LT Hk Hm FA NA LA LvA ScA NnA BqA TA D | r L Es Ge A LT FL E _ | r L Ns Ge A LT L' _ Li _ _ [t [ET [Tn _]]]].
  - subst s'. apply loc_refl.
  - assert (LA0 : loc name s sA).
    { unfold loc. spl; auto; try (intros t0 _; apply FA). }
    destruct D as [[E _]|[t' [E [Tn _]]]].
    + subst s'. exact LA0.
    + eapply loc_trans; [exact LA0|]. pose proof (timer_fire_loc sA t') as TL. rewrite <- E in TL. cbn [fst] in TL.
      rewrite Tn in TL. exact TL.
  - subst s'. pose proof (refute_spec c s r inc) as RS. cbv zeta in RS.
    destruct RS as [_ [R2 [_ [R4 [R5 _]]]]]. unfold loc. spl.
    + subst name. apply frame_lk. exact R2.
    + exact R4.
    + intro Hn. contradiction.
    + intros u Hu _. left. rewrite R5 in Hu. exact Hu.
  - unfold loc. spl.
    + apply frame_lk. exact F.
    + exact Lv.
    + intros _. exact Li.
    + intros u Hu _. rewrite ET in Hu. apply in_app_or in Hu. destruct Hu as [I|[E|[]]]; [left; exact I | right; subst u; exact Tn].
Qed.

Lemma orphan_live_in name ts u : In u (orphan name ts) -> tlive u = true -> In u ts.
Proof.
  intros Hu Lu. destruct (orphan_spec name ts u Hu) as [[I _]|[w [_ [_ [_ [Fl _]]]]]]; [exact I | congruence].
Qed.

Lemma do_alive_loc s inc name addr meta vsn b : loc name s (fst (do_alive c s inc name addr meta vsn b)).
Proof.
  unfold do_alive.
  destruct (leaving s && N.eqb name (self c)); [apply loc_refl|].
  destruct (vsn_bad vsn); [apply loc_refl|].
  pose proof (alive_find_spec c s name addr meta vsn) as FS.
  destruct (alive_find c s name addr meta vsn) as [|r|s1 r updates]; [apply loc_refl | apply loc_refl |].
  destruct FS as [L1 [F1 [Li1 [Lv1 [_ [_ [_ [T1 _]]]]]]]].
  pose proof (alive_apply_spec c s1 r updates inc name addr meta vsn b) as AS.
  destruct (alive_apply c s1 r updates inc name addr meta vsn b) as [s' evs]. cbn [fst].
  destruct AS as [R [Lv2 _]].
  assert (L01 : loc name s s1).
  { unfold loc. spl; auto. intros u Hu _. left. rewrite T1 in Hu. exact Hu. }
  eapply loc_trans; [exact L01|].
  destruct R as [E _ _ | Es _ _ _ E _ | Es _ _ E _ | _ _ L' _ Li _ _ T F].
  - subst s'. apply loc_refl.
  - subst s'. unfold loc. spl; auto. intros u Hu Lu. left. cbn [set_timers timers] in Hu. eapply orphan_live_in; eassumption.
  - subst s'. pose proof (refute_spec c (set_timers s1 (orphan name (timers s1))) r inc) as RS. cbv zeta in RS.
    destruct RS as [_ [R2 [_ [R4 [R5 _]]]]]. unfold loc. spl.
    + intros t Ht. subst name. rewrite (frame_lk _ _ _ R2 t Ht). reflexivity.
    + rewrite R4. reflexivity.
    + intro Hn. contradiction.
    + intros u Hu Lu. left. rewrite R5 in Hu. cbn [set_timers timers] in Hu. eapply orphan_live_in; eassumption.
  - unfold loc. spl; auto.
    intros u Hu Lu. left. rewrite T in Hu. eapply orphan_live_in; eassumption.
Qed.

Lemma do_merge_loc s rs inc name addr meta vsn : loc name s (fst (do_merge c s rs inc name addr meta vsn)).
Proof. destruct rs; cbn [do_merge]; [apply do_alive_loc | apply do_suspect_loc | apply do_suspect_loc | apply do_dead_loc]. Qed.

Lemma do_merge_keys s rs inc name addr meta vsn : keys_ok s -> keys_ok (fst (do_merge c s rs inc name addr meta vsn)).
Proof.
  intro K. destruct rs; cbn [do_merge];
    [apply do_alive_keys | apply do_suspect_keys | apply do_suspect_keys | apply do_dead_keys]; exact K.
Qed.

Lemma merge_all_keys l : forall s, keys_ok s -> keys_ok (merge_all c s (map ent l)).
Proof.
  induction l as [|p l IH]; intros s K; [exact K|]. cbn [map merge_all fold_left]. apply IH.
  cbn [ent op_of step]. apply do_merge_keys. exact K.
Qed.

(* ---------------------------------------------------------------- the node whose state is being reported (x) *)
Definition SelfGood (s : nstate) (r : rec) : Prop :=
  leaving s = false /\ lk s (self c) = Some r /\ rst r = Alive /\ no_live (self c) (timers s).

Lemma no_live_loc n s s' t : loc n s s' -> t <> n -> no_live t (timers s) -> no_live t (timers s').
Proof.
  intros [_ [_ [_ T]]] Ht NL. unfold no_live in *.
  destruct (live_timer t (timers s')) as [u|] eqn:E; [|reflexivity].
  apply live_timer_some in E. destruct E as [Iu [Tn Lu]].
  destruct (T u Iu Lu) as [I|E2]; [|congruence].
  pose proof (live_timer_none t (timers s) NL u I Tn). congruence.
Qed.

Lemma SelfGood_other s r n s' : SelfGood s r -> n <> self c -> loc n s s' -> SelfGood s' r /\ linc s' = linc s.
Proof.
  intros [Lv [L [A NL]]] Hn LC. pose proof LC as [F [Lv' [Li _]]]. split; [|apply Li; exact Hn].
  unfold SelfGood. spl; auto.
  - congruence.
  - rewrite F by (intro E; apply Hn; symmetry; exact E). exact L.
  - eapply no_live_loc; [exact LC | intro E; apply Hn; symmetry; exact E | exact NL].
Qed.

Lemma suspect_self_nl s j from r :
  leaving s = false -> lk s (self c) = Some r -> rst r = Alive -> no_live (self c) (timers s) ->
  do_suspect c s j (self c) from = if (j <? rinc r)%N then (s, []) else (refute c s r j, []).
Proof.
  intros Lv L A NL. unfold do_suspect. fold (lk s (self c)). rewrite L.
  destruct (j <? rinc r)%N; [reflexivity|].
  unfold no_live in NL. rewrite NL. rewrite A. cbn [st_eqb negb]. rewrite N.eqb_refl, Lv, andb_false_r. reflexivity.
Qed.

Lemma dead_self_nl s j from r :
  leaving s = false -> lk s (self c) = Some r -> rst r = Alive -> no_live (self c) (timers s) ->
  do_dead c s j (self c) from = if (j <? rinc r)%N then (s, []) else (refute c s r j, []).
Proof.
  intros Lv L A NL. unfold do_dead. fold (lk s (self c)). rewrite L.
  destruct (j <? rinc r)%N; [reflexivity|].
  rewrite (orphan_no_live _ _ NL), set_timers_same. rewrite A. cbn [dead_or_left]. rewrite N.eqb_refl, Lv. reflexivity.
Qed.

(* an entry about the node itself: ignored, or refuted *)
Lemma self_entry s r rs j a m v :
  SelfGood s r ->
  let s' := fst (do_merge c s rs j (self c) a m v) in
  (s' = s \/ s' = refute c s r j) /\
  ((rinc r <= j)%N -> a = raddr r -> vsn_bad v = false ->
   (rs = Alive /\ j = rinc r /\ m = rmeta r) \/ s' = refute c s r j).
Proof.
  intros [Lv [L [A NL]]]. cbv zeta.
  assert (OS : set_timers s (orphan (self c) (timers s)) = s) by (rewrite (orphan_no_live _ _ NL); apply set_timers_same).
  destruct rs; cbn [do_merge].
  - (* Alive *)
    unfold do_alive. rewrite Lv. cbn [andb].
    destruct (vsn_bad v) eqn:Vb.
    { split; [left; reflexivity | intros _ _ Hv; discriminate]. }
    unfold alive_find. fold (lk s (self c)). rewrite L.
    destruct (N.eqb_spec (raddr r) a) as [Ea|Na].
    + unfold alive_apply. rewrite N.eqb_refl. cbn [negb andb]. rewrite andb_false_r. cbn [andb]. rewrite andb_true_r.
      destruct (N.ltb_spec j (rinc r)) as [Lt|Ge].
      { split; [left; reflexivity | intros G; lia]. }
      rewrite OS. rewrite A. cbn [dead_or_left].
      destruct (N.eqb j (rinc r) && N.eqb m (rmeta r) && Nlist_eqb v (rvsn r)) eqn:Same.
      * apply andb_true_iff in Same. destruct Same as [Same _]. apply andb_true_iff in Same. destruct Same as [S1 S2].
        apply N.eqb_eq in S1. apply N.eqb_eq in S2. cbn [fst].
        split; [left; reflexivity | intros _ _ _; left; auto].
      * cbn [fst]. split; [right; reflexivity | intros _ _ _; right; reflexivity].
    + assert (CR : can_replace c s r = false) by (unfold can_replace; rewrite A; reflexivity).
      rewrite CR. destruct (is_allowed c a); cbn [fst]; (split; [left; reflexivity | intros _ E; congruence]).
  - (* Suspect *)
    rewrite (suspect_self_nl s j (self c) r Lv L A NL).
    destruct (N.ltb_spec j (rinc r)); cbn [fst]; [split; [left; reflexivity | intros; lia] | split; [right; reflexivity | intros; right; reflexivity]].
  - (* Dead *)
    rewrite (suspect_self_nl s j (self c) r Lv L A NL).
    destruct (N.ltb_spec j (rinc r)); cbn [fst]; [split; [left; reflexivity | intros; lia] | split; [right; reflexivity | intros; right; reflexivity]].
  - (* Left *)
    rewrite (dead_self_nl s j (self c) r Lv L A NL).
    destruct (N.ltb_spec j (rinc r)); cbn [fst]; [split; [left; reflexivity | intros; lia] | split; [right; reflexivity | intros; right; reflexivity]].
Qed.

Definition bumped (r : rec) (i : N) : rec := mkRec i (rst r) (raddr r) (rmeta r) (rvsn r) (rsince r).

Lemma SelfGood_refute s r j : SelfGood s r -> SelfGood (refute c s r j) (bumped r (refute_inc s j)).
Proof.
  intros [Lv [L [A NL]]]. pose proof (refute_spec c s r j) as RS. cbv zeta in RS.
  destruct RS as [R1 [_ [_ [R4 [R5 _]]]]]. unfold SelfGood. spl.
  - congruence.
  - exact R1.
  - exact A.
  - rewrite R5. exact NL.
Qed.

(* x merges a whole state list: it stays a running, self-listing node with the same address and
   metadata, and every entry about itself at or above its incarnation that is not an exact echo of its
   own record has been outranked *)
Lemma x_merges l : NoDup (map fst l) -> forall s r, SelfGood s r ->
  (forall q, In (self c, q) l -> below_max (rinc q) /\ below_max (linc s)) ->
  exists r', SelfGood (merge_all c s (map ent l)) r' /\ raddr r' = raddr r /\ rmeta r' = rmeta r /\ rvsn r' = rvsn r
    /\ (rinc r <= rinc r')%N
    /\ (forall q, In (self c, q) l -> raddr q = raddr r -> vsn_bad (rvsn q) = false -> (rinc r <= rinc q)%N ->
          (rst q = Alive /\ rinc q = rinc r /\ rmeta q = rmeta r) \/ (rinc q < rinc r')%N).
Proof.
  induction l as [|[n q] l IH]; intros ND s r SG HB.
  - exists r. cbn. spl; auto; try lia; try (intros q []).
  - cbn [map merge_all fold_left]. cbn [ent op_of step fst snd].
    inversion ND as [|? ? Hnotin ND']; subst.
    destruct (N.eq_dec n (self c)) as [En|Nn].
    + subst n.
      assert (NoSelf : forall q', ~ In (self c, q') l).
      { intros q' Hin. apply Hnotin. apply in_map_iff. exists (self c, q'). split; [reflexivity | exact Hin]. }
      destruct (HB q (or_introl eq_refl)) as [Bq Bl].
      pose proof (self_entry s r (rst q) (rinc q) (raddr q) (rmeta q) (rvsn q) SG) as SE. cbv zeta in SE.
      destruct SE as [Cases Out].
      set (s1 := fst (do_merge c s (rst q) (rinc q) (self c) (raddr q) (rmeta q) (rvsn q))) in *.
      destruct Cases as [E1|E1].
      * (* ignored *)
        rewrite E1 in *.
        destruct (IH ND' s r SG) as [r' [SG' [Ea [Em [Ev [Li Cl]]]]]].
        { intros q' Hin. exfalso. eapply NoSelf; exact Hin. }
        exists r'. spl; auto.
        intros q0 [E0|Hin] Eaddr Vb Ge; [|exfalso; eapply NoSelf; exact Hin].
        inversion E0; subst q0. destruct (Out Ge Eaddr Vb) as [Echo|Ref]; [left; exact Echo|].
        (* s = refute c s r j is impossible: the incarnation counter moves *)
        exfalso. pose proof (refute_spec c s r (rinc q)) as RS. cbv zeta in RS. destruct RS as [_ [_ [R3 _]]].
        rewrite <- Ref in R3. destruct (refute_outranks s (rinc q) Bq Bl) as [_ O2]. lia.
      * (* refuted *)
        rewrite E1 in *.
        pose proof (SelfGood_refute s r (rinc q) SG) as SG1.
        destruct (IH ND' (refute c s r (rinc q)) _ SG1) as [r' [SG' [Ea [Em [Ev [Li Cl]]]]]].
        { intros q' Hin. exfalso. eapply NoSelf; exact Hin. }
        cbn [bumped raddr rmeta rvsn rinc] in *.
        destruct (refute_outranks s (rinc q) Bq Bl) as [O1 O2].
        assert (SI : (rinc r <= linc s)%N -> True) by auto.
        exists r'. spl; auto.
        -- (* rinc r <= rinc r' : the new incarnation is above the accusation, which is ... *)
           destruct (N.le_gt_cases (rinc r) (rinc r')) as [H|H]; [exact H|].
           (* only possible when the entry was below our record — but then it would have been ignored *)
           destruct (N.lt_ge_cases (rinc q) (rinc r)) as [Lt|Ge0]; [|lia].
           exfalso.
           (* entry below our record: do_merge ignores it, so s1 = s, contradiction with the counter moving *)
           assert (Ig : s1 = s).
           { unfold s1. destruct SG as [Lv [L [A NL]]]. destruct (rst q); cbn [do_merge].
             - unfold do_alive. rewrite Lv. cbn [andb]. destruct (vsn_bad (rvsn q)); [reflexivity|].
               unfold alive_find. fold (lk s (self c)). rewrite L.
               destruct (N.eqb_spec (raddr r) (raddr q)).
               + unfold alive_apply. rewrite N.eqb_refl. cbn [negb andb]. rewrite andb_false_r. cbn [andb]. rewrite andb_true_r.
                 destruct (N.ltb_spec (rinc q) (rinc r)); [reflexivity | lia].
               + assert (CR : can_replace c s r = false) by (unfold can_replace; rewrite A; reflexivity).
                 rewrite CR. destruct (is_allowed c (raddr q)); reflexivity.
             - rewrite (suspect_self_nl s (rinc q) (self c) r Lv L A NL). destruct (N.ltb_spec (rinc q) (rinc r)); [reflexivity | lia].
             - rewrite (suspect_self_nl s (rinc q) (self c) r Lv L A NL). destruct (N.ltb_spec (rinc q) (rinc r)); [reflexivity | lia].
             - rewrite (dead_self_nl s (rinc q) (self c) r Lv L A NL). destruct (N.ltb_spec (rinc q) (rinc r)); [reflexivity | lia]. }
           pose proof (refute_spec c s r (rinc q)) as RS. cbv zeta in RS. destruct RS as [_ [_ [R3 _]]].
           rewrite <- E1, Ig in R3. lia.
        -- intros q0 [E0|Hin] Eaddr Vb Ge; [|exfalso; eapply NoSelf; exact Hin].
           inversion E0; subst q0. right. lia.
    + (* an entry about somebody else *)
      pose proof (do_merge_loc s (rst q) (rinc q) n (raddr q) (rmeta q) (rvsn q)) as LC.
      destruct (SelfGood_other s r n _ SG Nn LC) as [SG1 Li1].
      destruct (IH ND' _ r SG1) as [r' [SG' [Ea [Em [Ev [Li Cl]]]]]].
      { intros q' Hin. rewrite Li1. apply HB. right. exact Hin. }
      exists r'. spl; auto.
      intros q0 [E0|Hin] Eaddr Vb Ge; [inversion E0; congruence|]. apply Cl; assumption.
Qed.

(* without any bound on the incarnations: x stays a running, self-listing node with the same address and metadata *)
Lemma x_merges_weak l : forall s r, SelfGood s r ->
  exists r', SelfGood (merge_all c s (map ent l)) r' /\ raddr r' = raddr r /\ rmeta r' = rmeta r /\ rvsn r' = rvsn r.
Proof.
  induction l as [|[n q] l IH]; intros s r SG.
  - exists r. cbn. auto.
  - cbn [map merge_all fold_left]. cbn [ent op_of step fst snd].
    destruct (N.eq_dec n (self c)) as [En|Nn].
    + subst n. pose proof (self_entry s r (rst q) (rinc q) (raddr q) (rmeta q) (rvsn q) SG) as SE. cbv zeta in SE.
      destruct SE as [[E1|E1] _]; rewrite E1.
      * apply IH. exact SG.
      * destruct (IH _ _ (SelfGood_refute s r (rinc q) SG)) as [r' [SG' [Ea [Em Ev]]]].
        exists r'. cbn [bumped raddr rmeta rvsn] in *. auto.
    + pose proof (do_merge_loc s (rst q) (rinc q) n (raddr q) (rmeta q) (rvsn q)) as LC.
      destruct (SelfGood_other s r n _ SG Nn LC) as [SG1 _]. apply IH. exact SG1.
Qed.

(* ---------------------------------------------------------------- the node that receives the report (y) *)
(* entries about other names do not touch the record of X; the entry about X acts on a state whose record
   of X is still the original one *)
Lemma y_merges_none l X : (forall q, ~ In (X, q) l) -> forall s, lk (merge_all c s (map ent l)) X = lk s X.
Proof.
  induction l as [|[n q] l IH]; intros NI s; [reflexivity|].
  cbn [map merge_all fold_left]. cbn [ent op_of step fst snd].
  transitivity (lk (fst (do_merge c s (rst q) (rinc q) n (raddr q) (rmeta q) (rvsn q))) X).
  { apply IH. intros q' Hin; apply (NI q'); right; exact Hin. }
  pose proof (do_merge_loc s (rst q) (rinc q) n (raddr q) (rmeta q) (rvsn q)) as [F _].
  apply F. intro E. subst n. apply (NI q). left. reflexivity.
Qed.

Lemma y_merges_some l X q : NoDup (map fst l) -> In (X, q) l -> forall s,
  exists s0, lk s0 X = lk s X /\
    lk (merge_all c s (map ent l)) X = lk (fst (do_merge c s0 (rst q) (rinc q) X (raddr q) (rmeta q) (rvsn q))) X.
Proof.
  induction l as [|[n q'] l IH]; intros ND Hin s; [destruct Hin|].
  cbn [map merge_all fold_left]. cbn [ent op_of step fst snd].
  inversion ND as [|? ? Hnotin ND']; subst.
  destruct Hin as [E|Hin].
  - inversion E; subst n q'. exists s. split; [reflexivity|].
    apply y_merges_none. intros q0 Hq. apply Hnotin. apply in_map_iff. exists (X, q0). split; [reflexivity | exact Hq].
  - assert (Nn : X <> n).
    { intro E. subst n. apply Hnotin. apply in_map_iff. exists (X, q). split; [reflexivity | exact Hin]. }
    destruct (IH ND' Hin (fst (do_merge c s (rst q') (rinc q') n (raddr q') (rmeta q') (rvsn q')))) as [s0 [E0 E1]].
    exists s0. split; [|exact E1]. rewrite E0.
    pose proof (do_merge_loc s (rst q') (rinc q') n (raddr q') (rmeta q') (rvsn q')) as [F _]. apply F. exact Nn.
Qed.

(* the entry "X is Alive at incarnation i, address a, metadata m" at a node that holds nothing about X
   (and admits a), or any record of X at the same address *)
Lemma y_entry s0 X i a m v :
  X <> self c -> vsn_bad v = false -> (0 < i)%N ->
  (lk s0 X = None /\ is_allowed c a = true) \/ (exists ry, lk s0 X = Some ry /\ raddr ry = a) ->
  exists r', lk (fst (do_alive c s0 i X a m v false)) X = Some r' /\
    ((exists ry, lk s0 X = Some ry /\ (i <= rinc ry)%N /\ r' = ry) \/
     (rst r' = Alive /\ rinc r' = i /\ raddr r' = a /\ rmeta r' = m /\
      (lk s0 X = None \/ exists ry, lk s0 X = Some ry /\ (rinc ry < i)%N))).
Proof.
  intros Hn Vb Hi Prior.
  assert (E0 : N.eqb X (self c) = false) by (apply N.eqb_neq; exact Hn).
  unfold do_alive. rewrite E0, andb_false_r, Vb. unfold alive_find. fold (lk s0 X).
  destruct Prior as [[LN Al]|[ry [L Ea]]].
  - rewrite LN, Al. unfold alive_apply. rewrite E0. cbn [negb andb new_rec rinc].
    assert (E2 : (i <=? 0)%N = false) by (apply N.leb_gt; exact Hi). rewrite E2. cbn [andb].
    rewrite andb_false_r. cbn [andb fst].
    eexists. split; [apply lk_set_rec_same|]. right. cbn. spl; auto.
  - rewrite L. assert (E1 : N.eqb (raddr ry) a = true) by (apply N.eqb_eq; exact Ea). rewrite E1.
    unfold alive_apply. rewrite E0. cbn [negb andb].
    destruct (N.leb_spec i (rinc ry)) as [Le|Gt]; cbn [andb].
    + cbn [fst]. exists ry. split; [exact L|]. left. exists ry. auto.
    + rewrite andb_false_r. cbn [andb fst].
      eexists. split; [apply lk_set_rec_same|]. right. cbn. spl; auto. right. exists ry. auto.
Qed.

End OneNode.

(* ---------------------------------------------------------------- two nodes *)
Definition good_listing (r' : rec) (a m : N) : Prop := rst r' = Alive /\ raddr r' = a /\ rmeta r' = m.

Theorem two_pushpulls_heal cx sx cy sy rx :
  keys_ok sx -> keys_ok sy -> self cx <> self cy ->
  SelfGood cx sx rx -> (0 < rinc rx)%N -> vsn_bad (rvsn rx) = false -> below_max (linc sx) ->
  ((lk sy (self cx) = None /\ is_allowed cy (raddr rx) = true) \/
   (exists ry, lk sy (self cx) = Some ry /\ raddr ry = raddr rx /\ vsn_bad (rvsn ry) = false /\ below_max (rinc ry))) ->
  let '(sx2, sy2) := pushpull2 cx sx cy sy in
  (exists r', lk sy2 (self cx) = Some r' /\ good_listing r' (raddr rx) (rmeta rx)) /\
  (exists rx2, SelfGood cx sx2 rx2 /\ raddr rx2 = raddr rx /\ rmeta rx2 = rmeta rx).
Proof.
  intros Kx Ky Hxy SG Hi Vb Bl Prior.
  unfold pushpull2, pushpull. rewrite !snapshot_ent.
  (* exchange 1, x's side *)
  destruct (x_merges cx (recs sy) Ky sx rx SG) as [rx1 [SG1 [Ea1 [Em1 [Ev1 [Li1 Cl1]]]]]].
  { intros q Hin. split; [|exact Bl].
    destruct Prior as [[LN _]|[ry [L [_ [_ B]]]]].
    - apply (in_alookup_nodup _ _ _ Ky) in Hin. unfold lk in LN. congruence.
    - apply (in_alookup_nodup _ _ _ Ky) in Hin. unfold lk in L. rewrite L in Hin. inversion Hin; subst. exact B. }
  set (sx1 := merge_all cx sx (map ent (recs sy))) in *.
  (* exchange 1, y's side *)
  assert (InX : In ((self cx), rx) (recs sx)) by (destruct SG as [_ [L _]]; apply alookup_some_in; exact L).
  destruct (y_merges_some cy (recs sx) (self cx) rx Kx InX sy) as [s0 [E0 E1]].
  assert (RA : rst rx = Alive) by (destruct SG as [_ [_ [A _]]]; exact A).
  rewrite RA in E1. cbn [do_merge] in E1.
  assert (Prior0 : (lk s0 (self cx) = None /\ is_allowed cy (raddr rx) = true) \/ (exists ry, lk s0 (self cx) = Some ry /\ raddr ry = raddr rx)).
  { rewrite E0. destruct Prior as [P|[ry [L [Ea _]]]]; [left; exact P | right; exists ry; auto]. }
  destruct (y_entry cy s0 (self cx) (rinc rx) (raddr rx) (rmeta rx) (rvsn rx) Hxy Vb Hi Prior0) as [ry1 [Ly1 Cases1]].
  rewrite <- E1 in Ly1.
  set (sy1 := merge_all cy sy (map ent (recs sx))) in *.
  (* exchange 2, y's side *)
  assert (Kx1 : keys_ok sx1) by (apply merge_all_keys; exact Kx).
  assert (InX1 : In ((self cx), rx1) (recs sx1)) by (destruct SG1 as [_ [L _]]; apply alookup_some_in; exact L).
  destruct (y_merges_some cy (recs sx1) (self cx) rx1 Kx1 InX1 sy1) as [s2 [E2 E3]].
  assert (RA1 : rst rx1 = Alive) by (destruct SG1 as [_ [_ [A _]]]; exact A).
  rewrite RA1 in E3. cbn [do_merge] in E3.
  assert (Ay1 : raddr ry1 = raddr rx).
  { destruct Cases1 as [[ry [L [_ E]]]|[_ [_ [A _]]]]; [|exact A].
    subst ry1. rewrite E0 in L. destruct Prior as [[LN _]|[ry' [L' [Ea _]]]]; [congruence|]. rewrite L in L'. inversion L'; subst. exact Ea. }
  assert (Prior2 : (lk s2 (self cx) = None /\ is_allowed cy (raddr rx1) = true) \/ (exists ry, lk s2 (self cx) = Some ry /\ raddr ry = raddr rx1)).
  { right. exists ry1. rewrite E2. split; [exact Ly1 | congruence]. }
  assert (Hi1 : (0 < rinc rx1)%N) by lia.
  assert (Vb1 : vsn_bad (rvsn rx1) = false) by (rewrite Ev1; exact Vb).
  destruct (y_entry cy s2 (self cx) (rinc rx1) (raddr rx1) (rmeta rx1) (rvsn rx1) Hxy Vb1 Hi1 Prior2) as [ry2 [Ly2 Cases2]].
  rewrite <- E3 in Ly2.
  (* exchange 2, x's side: x stays a running node with the same address and metadata *)
  assert (Ky1 : keys_ok sy1) by (apply merge_all_keys; exact Ky).
  split.
  - exists ry2. split; [exact Ly2|]. unfold good_listing.
    destruct Cases2 as [[ry [L [Le E]]]|[A2 [_ [Ad2 [M2 _]]]]].
    2:{ spl; auto; congruence. }
    subst ry2. rewrite E2, Ly1 in L. inversion L; subst ry. clear L.
    (* y kept ry1 because it is at or above x's incarnation after exchange 1 *)
    destruct Cases1 as [[ry [L [Le1 E]]]|[A1 [_ [Ad1 [M1 _]]]]].
    2:{ spl; auto. }
    subst ry1. rewrite E0 in L.
    destruct Prior as [[LN _]|[ry' [L' [Ea [Vby By]]]]]; [congruence|]. rewrite L in L'. inversion L'; subst ry'. clear L'.
    assert (InY : In ((self cx), ry) (recs sy)) by (apply alookup_some_in; exact L).
    destruct (Cl1 ry InY Ea Vby Le1) as [[A [_ M]]|Lt]; [spl; auto | lia].
  - (* x after the second merge *)
    destruct (x_merges_weak cx (recs sy1) sx1 rx1 SG1) as [rx2 [SG2 [Ea2 [Em2 _]]]].
    exists rx2. spl; [exact SG2 | congruence | congruence].
Qed.

Lemma pushpull2_sym cx sx cy sy :
  pushpull2 cy sy cx sx = (snd (pushpull2 cx sx cy sy), fst (pushpull2 cx sx cy sy)).
Proof. unfold pushpull2, pushpull. reflexivity. Qed.

(* what one node must hold about the other for the theorem to apply: nothing (and its allow-list admits the
   address), or any record at the same address with a well-formed version vector *)
Definition heal_prior (cy : cfg) (sy : nstate) (cx : cfg) (rx : rec) : Prop :=
  (lk sy (self cx) = None /\ is_allowed cy (raddr rx) = true) \/
  (exists ry, lk sy (self cx) = Some ry /\ raddr ry = raddr rx /\ vsn_bad (rvsn ry) = false /\ below_max (rinc ry)).

Definition heal_self (cx : cfg) (sx : nstate) (rx : rec) : Prop :=
  keys_ok sx /\ SelfGood cx sx rx /\ (0 < rinc rx)%N /\ vsn_bad (rvsn rx) = false /\ below_max (linc sx).

(* both directions at once *)
Theorem two_pushpulls_heal_mutual cx sx cy sy rx ry :
  self cx <> self cy -> heal_self cx sx rx -> heal_self cy sy ry ->
  heal_prior cy sy cx rx -> heal_prior cx sx cy ry ->
  let '(sx2, sy2) := pushpull2 cx sx cy sy in
  listed sy2 (self cx) = Some (raddr rx, rmeta rx) /\ listed sx2 (self cy) = Some (raddr ry, rmeta ry) /\
  listed sx2 (self cx) = Some (raddr rx, rmeta rx) /\ listed sy2 (self cy) = Some (raddr ry, rmeta ry).
Proof.
  intros Hxy [Kx [SGx [Ix [Vx Bx]]]] [Ky [SGy [Iy [Vy By]]]] Py Px.
  pose proof (two_pushpulls_heal cx sx cy sy rx Kx Ky Hxy SGx Ix Vx Bx Py) as H1.
  assert (Hyx : self cy <> self cx) by (intro E; apply Hxy; symmetry; exact E).
  pose proof (two_pushpulls_heal cy sy cx sx ry Ky Kx Hyx SGy Iy Vy By Px) as H2.
  rewrite pushpull2_sym in H2.
  destruct (pushpull2 cx sx cy sy) as [sx2 sy2]. cbn [fst snd] in H2.
  destruct H1 as [[r1 [L1 [A1 [Ad1 M1]]]] [rx2 [[_ [Lx2 [Ax2 _]]] [Adx Mx]]]].
  destruct H2 as [[r2 [L2 [A2 [Ad2 M2]]]] [ry2 [[_ [Ly2 [Ay2 _]]] [Ady My]]]].
  unfold listed. unfold lk in *. rewrite L1, L2, Lx2, Ly2, A1, A2, Ax2, Ay2. cbn [dead_or_left].
  repeat split; congruence.
Qed.
