(* Below_proofs.v — C05, one node: no claim a node holds or queues carries an incarnation above
   what the member it is about has announced.  [P n inc] says "inc is not above what the member
   named n has announced" for the other members; for the node itself the bound is its own counter. *)
From Coq Require Import List NArith ZArith Bool Lia.
Import ListNotations.
From VF Require Import Base Core Core_lemmas Core_inv.
Local Open Scope Z_scope.

Definition mname (m : bmsg) : N := match m with BAlive _ n _ _ _ | BSuspect _ n _ | BDead _ n _ => n end.
Definition minc (m : bmsg) : N := match m with BAlive i _ _ _ _ | BSuspect i _ _ | BDead i _ _ => i end.

Section Node.
Variable c : cfg.
Hypothesis Hfixed : fixed c = true.
Variable P : N -> N -> Prop.
Hypothesis P0 : forall n, P n 0%N.

(* a claim about the node itself is within its counter, or within what P allows (what it announced in
   an earlier life, when the cluster model lets members restart) *)
Definition ok_claim (l : N) (n inc : N) : Prop := if N.eqb n (self c) then (inc <= l)%N \/ P n inc else P n inc.

Record bounded (s : nstate) : Prop := mkBd {
  bd_recs : forall n r, In (n, r) (recs s) -> ok_claim (linc s) n (rinc r);
  bd_bq : forall k m, In (k, m) (bq s) -> ok_claim (linc s) (mname m) (minc m) }.

Lemma ok_claim_le l l' n i : (l <= l')%N -> ok_claim l n i -> ok_claim l' n i.
Proof. unfold ok_claim. destruct (N.eqb n (self c)); [intros L [H|H]; [left; lia | right; exact H] | auto]. Qed.

Lemma In_aset {A} k (v : A) k0 v0 l : In (k, v) (aset k0 v0 l) -> (k, v) = (k0, v0) \/ In (k, v) l.
Proof.
  induction l as [|[k1 v1] l IH]; cbn.
  - intros [E|[]]. left. symmetry. exact E.
  - destruct (N.eqb k0 k1).
    + intros [E|H]; [left; symmetry; exact E | right; right; exact H].
    + intros [E|H]; [right; left; exact E|]. destruct (IH H) as [E|H']; [left; exact E | right; right; exact H'].
Qed.

Lemma lk_In s n r : lk s n = Some r -> In (n, r) (recs s).
Proof. apply alookup_some_in. Qed.

(* states with the same claims and a counter that did not go down *)
Lemma bounded_frame s s' : recs s' = recs s -> bq s' = bq s -> (linc s <= linc s')%N -> bounded s -> bounded s'.
Proof.
  intros E1 E2 Hl [H1 H2]. constructor.
  - intros n r Hin. rewrite E1 in Hin. eapply ok_claim_le; [exact Hl | eapply H1; exact Hin].
  - intros k m Hin. rewrite E2 in Hin. eapply ok_claim_le; [exact Hl | eapply H2; exact Hin].
Qed.

Lemma bounded_set_bq s k m : bounded s -> ok_claim (linc s) (mname m) (minc m) -> bounded (set_bq s k m).
Proof.
  intros [H1 H2] Hm. constructor; cbn [recs bq linc set_bq].
  - exact H1.
  - intros k' m' Hin. apply In_aset in Hin. destruct Hin as [E|Hin]; [inversion E; subst; exact Hm | eapply H2; exact Hin].
Qed.

Lemma bounded_set_rec s n r : bounded s -> ok_claim (linc s) n (rinc r) -> bounded (set_rec s n r).
Proof.
  intros [H1 H2] Hr. constructor; cbn [recs bq linc set_rec].
  - intros n' r' Hin. apply In_aset in Hin. destruct Hin as [E|Hin]; [inversion E; subst; exact Hr | eapply H1; exact Hin].
  - exact H2.
Qed.

Lemma bounded_set_timers s ts : bounded s -> bounded (set_timers s ts).
Proof. apply bounded_frame; reflexivity || cbn; lia. Qed.

Lemma bounded_refute s me acc :
  bounded s -> below_max acc -> below_max (linc s) ->
  bounded (refute c s me acc) /\ (linc s <= linc (refute c s me acc))%N.
Proof.
  intros [H1 H2] Ba Bl. pose proof (refute_outranks s acc Ba Bl) as [_ Hgt].
  unfold refute. cbv zeta. fold (refute_inc s acc). cbn [linc set_bq].
  split; [|lia].
  apply bounded_set_bq.
  - constructor; cbn [recs bq linc].
    + intros n r Hin. apply In_aset in Hin. destruct Hin as [E|Hin].
      * inversion E; subst. unfold ok_claim. rewrite N.eqb_refl. left. cbn. lia.
      * eapply ok_claim_le; [|eapply H1; exact Hin]. lia.
    + intros k m Hin. eapply ok_claim_le; [|eapply H2; exact Hin]. lia.
  - cbn [linc mname minc]. unfold ok_claim. rewrite N.eqb_refl. left. lia.
Qed.

(* ---------- deadNode ---------- *)
Lemma bounded_dead s inc name from :
  bounded s -> ok_claim (linc s) name inc -> below_max inc -> below_max (linc s) ->
  bounded (fst (do_dead c s inc name from)) /\ (linc s <= linc (fst (do_dead c s inc name from)))%N.
Proof.
  intros Hb Hc Bi Bl. unfold do_dead.
  destruct (alookup name (recs s)) as [r|]; [|split; [exact Hb | cbn; lia]].
  destruct (inc <? rinc r)%N; [split; [exact Hb | cbn; lia]|].
  destruct (dead_or_left (rst r)); [split; [apply bounded_set_timers; exact Hb | cbn; lia]|].
  destruct (N.eqb name (self c) && negb (leaving s)).
  - cbn [fst]. pose proof (bounded_refute (set_timers s (orphan name (timers s))) r inc (bounded_set_timers s _ Hb) Bi Bl) as [R1 R2].
    split; [exact R1 | exact R2].
  - cbn [fst]. split; [|cbn; lia].
    apply bounded_set_rec; [apply bounded_set_bq; [apply bounded_set_timers; exact Hb | exact Hc] | exact Hc].
Qed.

Lemma bounded_timer_fire s t :
  bounded s -> all_below s ->
  bounded (fst (timer_fire c s t)) /\ (linc s <= linc (fst (timer_fire c s t)))%N.
Proof.
  intros Hb [B1 B2]. unfold timer_fire. fold (lk s (tname t)).
  destruct (lk s (tname t)) as [r|] eqn:L; [|split; [exact Hb | cbn; lia]].
  destruct (st_eqb (rst r) Suspect && Z.eqb (rsince r) (tct t)); [|split; [exact Hb | cbn; lia]].
  apply bounded_dead; [exact Hb | apply (bd_recs s Hb); apply lk_In; exact L | eapply B2; exact L | exact B1].
Qed.

(* ---------- suspectNode ---------- *)
Lemma bounded_suspect s inc name from :
  bounded s -> all_below s -> ok_claim (linc s) name inc -> below_max inc ->
  bounded (fst (do_suspect c s inc name from)) /\ (linc s <= linc (fst (do_suspect c s inc name from)))%N.
Proof.
  intros Hb HB Hc Bi. pose proof HB as [B1 B2]. unfold do_suspect. fold (lk s name).
  destruct (lk s name) as [r|] eqn:L; [|split; [exact Hb | cbn; lia]].
  destruct (inc <? rinc r)%N; [split; [exact Hb | cbn; lia]|].
  destruct (live_timer name (timers s)) as [t|].
  - destruct ((tk t <=? tn t) || Nmem from (tconfs t)); [split; [exact Hb | cbn; lia]|].
    set (t' := mkT _ _ _ _ _ _ _ _).
    set (s1 := set_bq (set_timers s _) (kname name) (BSuspect inc name from)).
    assert (Hb1 : bounded s1) by (apply bounded_set_bq; [apply bounded_set_timers; exact Hb | exact Hc]).
    destruct (0 <? _); [split; [exact Hb1 | cbn; lia]|].
    set (s2 := set_timers s1 _).
    assert (Hb2 : bounded s2) by (apply bounded_set_timers; exact Hb1).
    assert (HB2 : all_below s2) by (split; [exact B1 | exact B2]).
    apply (bounded_timer_fire s2 t' Hb2 HB2).
  - destruct (negb (st_eqb (rst r) Alive)); [split; [exact Hb | cbn; lia]|].
    destruct (N.eqb name (self c)).
    + destruct (fixed c && leaving s); [split; [exact Hb | cbn; lia]|].
      apply bounded_refute; assumption.
    + cbn [fst]. split; [|cbn; lia].
      apply bounded_set_timers. apply bounded_set_rec; [apply bounded_set_bq; [exact Hb | exact Hc] | exact Hc].
Qed.

(* ---------- aliveNode ---------- *)
Lemma bounded_alive s inc name addr meta vsn b :
  bounded s -> ok_claim (linc s) name inc -> below_max inc -> below_max (linc s) ->
  bounded (fst (do_alive c s inc name addr meta vsn b)) /\ (linc s <= linc (fst (do_alive c s inc name addr meta vsn b)))%N.
Proof.
  intros Hb Hc Bi Bl. unfold do_alive.
  destruct (leaving s && N.eqb name (self c)); [split; [exact Hb | cbn; lia]|].
  destruct (vsn_bad vsn); [split; [exact Hb | cbn; lia]|].
  unfold alive_find.
  assert (Apply : forall s1 r updates, bounded s1 -> linc s1 = linc s ->
            bounded (fst (alive_apply c s1 r updates inc name addr meta vsn b)) /\
            (linc s <= linc (fst (alive_apply c s1 r updates inc name addr meta vsn b)))%N).
  { intros s1 r updates Hb1 El. unfold alive_apply.
    destruct ((inc <=? rinc r)%N && negb (N.eqb name (self c)) && negb updates); [split; [exact Hb1 | cbn; lia]|].
    destruct ((inc <? rinc r)%N && N.eqb name (self c)); [split; [exact Hb1 | cbn; lia]|].
    destruct (negb b && N.eqb name (self c)).
    - destruct (N.eqb inc (rinc r) && N.eqb meta (rmeta r) && Nlist_eqb vsn (rvsn r)).
      + split; [apply bounded_set_timers; exact Hb1 | cbn; lia].
      + cbn [fst]. pose proof (bounded_refute (set_timers s1 (orphan name (timers s1))) r inc
                                 (bounded_set_timers s1 _ Hb1) Bi) as R.
        cbn [linc set_timers] in R. rewrite El in R. specialize (R Bl). destruct R as [R1 R2].
        split; [exact R1 | exact R2].
    - cbn [fst]. split; [|cbn; lia].
      apply bounded_set_rec; cbn [linc set_bq set_timers rinc]; rewrite ?El.
      + apply bounded_set_bq; [apply bounded_set_timers; exact Hb1 | cbn [linc set_timers mname minc]; rewrite El; exact Hc].
      + exact Hc. }
  destruct (alookup name (recs s)) as [r|].
  - destruct (N.eqb (raddr r) addr); [apply Apply; [exact Hb | reflexivity]|].
    destruct (is_allowed c addr); [|split; [exact Hb | cbn; lia]].
    destruct (can_replace c s r); [apply Apply; [exact Hb | reflexivity]|].
    split; [exact Hb | cbn; lia].
  - destruct (is_allowed c addr); [|split; [exact Hb | cbn; lia]].
    apply Apply; [|reflexivity].
    destruct Hb as [H1 H2]. constructor; cbn [recs bq linc].
    + intros n r Hin. apply in_app_or in Hin. destruct Hin as [Hin|[E|[]]]; [apply H1; exact Hin|].
      inversion E; subst. unfold new_rec, ok_claim; cbn [rinc]. destruct (N.eqb n (self c)); [left; lia | apply P0].
    + exact H2.
Qed.

(* ---------- timers due ---------- *)
Lemma bounded_fire_due fuel target s evs :
  GInv c s -> bounded s ->
  bounded (fst (fire_due fuel c target s evs)) /\ (linc s <= linc (fst (fire_due fuel c target s evs)))%N.
Proof.
  intros G Hb.
  pose proof (fire_due_ind c (fun s0 => GInv c s0 /\ bounded s0 /\ (linc s <= linc s0)%N)) as Ind.
  assert (R : GInv c (fst (fire_due fuel c target s evs)) /\ bounded (fst (fire_due fuel c target s evs))
              /\ (linc s <= linc (fst (fire_due fuel c target s evs)))%N).
  { apply Ind.
    - intros s0 t [[[HI K] HB] [B L]]. split; [split; [split; [apply set_now_Inv; exact HI | exact K] | exact HB]|].
      split; [apply (bounded_frame s0); auto; cbn; lia | exact L].
    - intros s0 t [[[HI K] HB] [B L]]. split; [split; [split; [apply remove_timer_Inv; exact HI | exact K] | exact HB]|].
      split; [apply bounded_set_timers; exact B | exact L].
    - intros s0 t [G0 [B L]]. split; [apply timer_fire_GInv; solve [exact Hfixed | exact G0]|].
      destruct (bounded_timer_fire s0 t B (proj2 G0)) as [R1 R2]. split; [exact R1 | lia].
    - split; [exact G | split; [exact Hb | lia]]. }
  destruct R as [_ [R1 R2]]. split; assumption.
Qed.

Lemma bounded_reap s : bounded s -> bounded (do_reap c s).
Proof.
  intros [H1 H2]. unfold do_reap. constructor; cbn [recs bq linc].
  - intros n r Hin. apply filter_In in Hin. apply H1. apply Hin.
  - exact H2.
Qed.

(* what the operation claims *)
Definition op_claim_ok (s : nstate) (o : op) : Prop :=
  match o with
  | OAlive inc name _ _ _ _ | OHandleAlive _ inc name _ _ _ | OSuspect inc name _ | ODead inc name _
  | OMerge _ inc name _ _ _ => ok_claim (linc s) name inc
  | OLeaveCommit inc => (inc <= linc s)%N
  | _ => True
  end.

(* C05 (one node): every operation keeps every claim within the announced incarnations, and the
   node's own counter never goes down *)
Theorem step_bounded s o :
  FInv c s -> op_ok c s o -> bounded s -> op_claim_ok s o ->
  bounded (fst (step c s o)) /\ (linc s <= linc (fst (step c s o)))%N.
Proof.
  intros HF [HB Hop] Hb Hc. pose proof HB as [B1 B2]. pose proof HF as [HI K].
  destruct o as [inc name addr meta vsn b | src inc name addr meta vsn | inc name from | inc name from
                | rs inc name addr meta vsn | dt | | | inc | | w | meta w]; cbn [step op_claim_ok] in *.
  - destruct Hop as [Bi _]. apply bounded_alive; assumption.
  - destruct (negb (is_allowed c src)); [split; [exact Hb | cbn; lia]|].
    destruct (negb (is_allowed c addr)); [split; [exact Hb | cbn; lia]|].
    apply bounded_alive; assumption.
  - apply bounded_suspect; assumption.
  - apply bounded_dead; assumption.
  - destruct rs; cbn [do_merge].
    + apply bounded_alive; assumption.
    + apply bounded_suspect; assumption.
    + apply bounded_suspect; assumption.
    + apply bounded_dead; assumption.
  - apply bounded_fire_due; [split; [exact HF | exact HB] | exact Hb].
  - split; [apply bounded_reap; exact Hb | cbn; lia].
  - split; [apply (bounded_frame s); auto; cbn; lia | cbn; lia].
  - apply bounded_dead; [exact Hb | unfold ok_claim; rewrite N.eqb_refl; left; exact Hc | exact Hop | exact B1].
  - assert (El : linc (bump_linc s) = (linc s + 1)%N).
    { unfold bump_linc; cbn [linc]. unfold below_max, two32 in *. rewrite N.mod_small by lia. reflexivity. }
    cbn [fst]. split; [apply (bounded_frame s); auto; rewrite El; lia | rewrite El; lia].
  - destruct (leaving s) eqn:Lv; [split; [exact Hb | cbn; lia]|].
    fold (lk (set_leaving s) (self c)). destruct (lk (set_leaving s) (self c)) as [r|] eqn:L.
    + assert (Hb' : bounded (set_leaving s)) by (apply (bounded_frame s); auto; cbn; lia).
      assert (HB' : all_below (set_leaving s)) by (split; assumption).
      assert (Hr : ok_claim (linc (set_leaving s)) (self c) (rinc r)).
      { apply (bd_recs _ Hb'). apply lk_In. exact L. }
      pose proof (bounded_dead (set_leaving s) (rinc r) (self c) (self c) Hb' Hr (B2 _ _ L) B1) as [D1 D2].
      assert (G : GInv c (fst (do_dead c (set_leaving s) (rinc r) (self c) (self c)))).
      { split; [split|].
        * apply do_dead_Inv; try exact Hfixed; [apply set_leaving_Inv; exact HI | split; [eapply B2; exact L | exact B1]].
        * apply do_dead_keys. exact K.
        * apply do_dead_same_inc_below; [exact L | right; reflexivity | exact HB']. }
      destruct (do_dead c (set_leaving s) (rinc r) (self c) (self c)) as [sd ed]. cbn [fst] in *.
      cbn [linc set_leaving] in D2.
      unfold wait_bcast. destruct (any_alive_other c sd).
      * destruct (bounded_fire_due (S (length (timers sd))) (now sd + w) sd ed G D1) as [F1 F2]. split; [exact F1 | lia].
      * cbn [fst]. split; [exact D1 | exact D2].
    + rewrite Hfixed. cbn [fst]. split; [apply (bounded_frame s); auto; cbn; lia | cbn; lia].
  - assert (El : linc (bump_linc s) = (linc s + 1)%N).
    { unfold bump_linc; cbn [linc]. unfold below_max, two32 in *. rewrite N.mod_small by lia. reflexivity. }
    assert (Hb' : bounded (bump_linc s)) by (apply (bounded_frame s); auto; rewrite El; lia).
    fold (lk (bump_linc s) (self c)). destruct (lk (bump_linc s) (self c)) as [r|] eqn:L.
    + assert (HB' : all_below (bump_linc s)) by (split; [rewrite El; exact Hop | exact B2]).
      assert (Hr : ok_claim (linc (bump_linc s)) (self c) (linc (bump_linc s))).
      { unfold ok_claim. rewrite N.eqb_refl. lia. }
      assert (Bl' : below_max (linc (bump_linc s))) by (rewrite El; exact Hop).
      pose proof (bounded_alive (bump_linc s) (linc (bump_linc s)) (self c) (raddr r) meta (self_vsn c) true Hb' Hr Bl' Bl') as [D1 D2].
      assert (G : GInv c (fst (do_alive c (bump_linc s) (linc (bump_linc s)) (self c) (raddr r) meta (self_vsn c) true))).
      { split; [split|].
        * apply do_alive_Inv; try exact Hfixed; [apply bump_linc_Inv; assumption | split; [rewrite El; exact Hop | rewrite El; exact Hop] |].
          intros _. split; [reflexivity | lia].
        * apply do_alive_keys. exact K.
        * apply alive_boot_below; [exact HB' | rewrite El; exact Hop]. }
      destruct (do_alive c (bump_linc s) (linc (bump_linc s)) (self c) (raddr r) meta (self_vsn c) true) as [sd ed]. cbn [fst] in *.
      rewrite El in D2.
      unfold wait_bcast. destruct (any_alive_other c sd).
      * destruct (bounded_fire_due (S (length (timers sd))) (now sd + w) sd ed G D1) as [F1 F2]. split; [exact F1 | lia].
      * cbn [fst]. split; [exact D1 | lia].
    + cbn [fst]. split; [exact Hb' | rewrite El; lia].
Qed.
End Node.
