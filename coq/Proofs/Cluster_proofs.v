(* Cluster_proofs.v — C04 for the whole cluster: from booted nodes and an empty network, under every
   interleaving of gossip, push/pull snapshots, deliveries (with duplication, reordering and loss),
   UpdateNode, Leave, the passage of time and reaping — and no failed probe — no node ever holds a
   suspicion timer or a Suspect/Dead record, no suspect message and no dead message signed by somebody
   else is ever queued or on the network, and the only leave events are for members that called Leave. *)
From Coq Require Import List NArith ZArith Bool Lia.
Import ListNotations.
From VF Require Import Base Core Core_lemmas Core_inv Healthy_proofs Cluster.
Local Open Scope Z_scope.

Definition clean_pmsg (dep : N -> bool) (p : pmsg) : Prop :=
  match p with
  | PB m => clean_msg dep m
  | PS Alive inc _ _ _ _ => (0 < inc)%N
  | PS Left _ n _ _ _ => dep n = true
  | PS _ _ _ _ _ _ => False
  end.

Definition names (w : world) : list N := map (fun cs => self (fst cs)) (wnodes w).

Record WI (w : world) : Prop := mkWI {
  wi_nodes : forall c s, In (c, s) (wnodes w) -> fixed c = true /\ clean (departed w) c s;
  wi_pool : forall p, In p (wpool w) -> clean_pmsg (departed w) p;
  wi_names : NoDup (names w) }.

(* incarnations stay below the largest representable value at the acting node and in the claim it
   processes (the bound in the statements of C02/C05; at 2^32-1 the counter wraps) *)
Definition act_ok (w : world) (a : wact) : Prop :=
  match a with
  | WDeliver i k =>
      match nth_error (wnodes w) i, nth_error (wpool w) k with
      | Some (_, s), Some p =>
          below_max (linc s) /\
          match p with
          | PB (BAlive inc _ _ _ _) | PS Alive inc _ _ _ _ => below_max inc
          | _ => True
          end
      | _, _ => True
      end
  | WUpdate i _ _ | WLeave i _ | WAdvance i _ | WReap i =>
      match nth_error (wnodes w) i with Some (_, s) => below_max (linc s) | None => True end
  | WGossip _ | WSnapshot _ => True
  end.

(* ---------- list plumbing ---------- *)
Lemma In_upd {A} (f : A -> A) : forall l i x, In x (upd i f l) ->
  In x l \/ exists y, nth_error l i = Some y /\ x = f y.
Proof.
  induction l as [|y l IH]; intros i x H; cbn in H; [destruct i; contradiction|].
  destruct i as [|i]; cbn in H.
  - destruct H as [<-|H]; [right; exists y; split; reflexivity | left; right; exact H].
  - destruct H as [<-|H]; [left; left; reflexivity|].
    destruct (IH i x H) as [H'|[z [H1 H2]]]; [left; right; exact H' | right; exists z; split; assumption].
Qed.

Lemma map_upd_same {A B} (g : A -> B) (f : A -> A) : (forall x, g (f x) = g x) ->
  forall l i, map g (upd i f l) = map g l.
Proof.
  intros H. induction l as [|y l IH]; intros [|i]; cbn; try reflexivity.
  - rewrite H. reflexivity.
  - rewrite IH. reflexivity.
Qed.

Lemma departed_spec w n : departed w n = true <-> exists c s, In (c, s) (wnodes w) /\ self c = n /\ leaving s = true.
Proof.
  unfold departed. rewrite existsb_exists. split.
  - intros [[c s] [Hin H]]. cbn in H. apply andb_true_iff in H. destruct H as [H1 H2].
    apply N.eqb_eq in H1. exists c, s. auto.
  - intros [c [s [Hin [H1 H2]]]]. exists (c, s). split; [exact Hin|]. cbn. rewrite H1, N.eqb_refl, H2. reflexivity.
Qed.

(* the node named n, if there is one, is unique *)
Lemma unique_node w c1 s1 c2 s2 :
  NoDup (names w) -> In (c1, s1) (wnodes w) -> In (c2, s2) (wnodes w) -> self c1 = self c2 -> (c1, s1) = (c2, s2).
Proof.
  unfold names. generalize (wnodes w). induction l as [|[c s] l IH]; intros ND H1 H2 E; [contradiction|].
  cbn in ND. inversion ND as [|? ? Hnotin ND']; subst.
  destruct H1 as [H1|H1], H2 as [H2|H2].
  - congruence.
  - inversion H1; subst. exfalso. apply Hnotin. rewrite E. apply (in_map (fun cs => self (fst cs)) l (c2, s2) H2).
  - inversion H2; subst. exfalso. apply Hnotin. rewrite <- E. apply (in_map (fun cs => self (fst cs)) l (c1, s1) H1).
  - apply IH; assumption.
Qed.

Lemma In_upd_keep {A} (f : A -> A) : forall l i x, In x l -> In x (upd i f l) \/ nth_error l i = Some x.
Proof.
  induction l as [|y l IH]; intros i x H; [contradiction|].
  destruct i as [|i]; cbn.
  - destruct H as [<-|H]; [right; reflexivity | left; right; exact H].
  - destruct H as [<-|H]; [left; left; reflexivity|].
    destruct (IH i x H) as [H'|H']; [left; right; exact H' | right; exact H'].
Qed.

Lemma In_upd_new {A} (f : A -> A) : forall l i y, nth_error l i = Some y -> In (f y) (upd i f l).
Proof.
  induction l as [|z l IH]; intros [|i] y H; cbn in *; try discriminate.
  - inversion H; subst. left. reflexivity.
  - right. apply IH. exact H.
Qed.

Lemma clean_pmsg_mono (dep dep' : N -> bool) p :
  (forall n, dep n = true -> dep' n = true) -> clean_pmsg dep p -> clean_pmsg dep' p.
Proof.
  intros M H. destruct p as [[| |]|[] ]; cbn in *; auto. destruct H as [E D]. split; [exact E | apply M; exact D].
Qed.

(* ---------- one Core operation at one node ---------- *)
Lemma at_node_WI w i o c s :
  WI w -> nth_error (wnodes w) i = Some (c, s) ->
  (* the operation is benign once the node's own departure (if this is Leave) is counted *)
  (forall dep', (forall n, departed w n = true -> dep' n = true) ->
                (match o with OLeave _ => dep' (self c) = true | _ => True end) ->
                benign dep' c s o) ->
  let '(w', evs) := at_node w i o in
  WI w' /\ Forall (ev_quiet (departed w')) evs /\ (forall n, departed w n = true -> departed w' n = true).
Proof.
  intros [Hn Hp Hu] Hi Hb. unfold at_node. rewrite Hi.
  destruct (step c s o) as [s' evs] eqn:Est.
  set (w' := mkW (upd i (fun _ => (c, s')) (wnodes w)) (wpool w)).
  assert (Hin : In (c, s) (wnodes w)) by (eapply nth_error_In; exact Hi).
  destruct (Hn c s Hin) as [Hf Hc].
  assert (Hin' : In (c, s') (wnodes w')) by (apply (In_upd_new (fun _ => (c, s')) _ _ _ Hi)).
  (* a departure is for ever, provided this step keeps the flag; proved below from step_clean *)
  assert (Mono : (leaving s = true -> leaving s' = true) -> forall n, departed w n = true -> departed w' n = true).
  { intros Lm n Hd. apply departed_spec in Hd. destruct Hd as [c0 [s0 [H0 [E0 L0]]]].
    apply departed_spec.
    destruct (In_upd_keep (fun _ => (c, s')) (wnodes w) i (c0, s0) H0) as [K|K].
    - exists c0, s0. auto.
    - rewrite Hi in K. inversion K; subst c0 s0. exists c, s'. auto. }
  assert (Names : names w' = names w).
  { unfold names, w'; cbn [wnodes]. clear - Hi. revert i Hi. induction (wnodes w) as [|y l IH]; intros [|i] Hi; cbn in *; try discriminate; try reflexivity.
    - inversion Hi; subst. reflexivity.
    - rewrite (IH i Hi). reflexivity. }
  (* decide the step with the departures as they will be afterwards *)
  set (dep' := departed w').
  assert (Leave' : match o with OLeave _ => leaving s' = true | _ => True end /\ (leaving s = true -> leaving s' = true)
                   -> forall n, departed w n = true -> dep' n = true).
  { intros [_ Lm]. apply Mono. exact Lm. }
  (* first with the weakest admissible set, to learn the two facts about the leave flag *)
  pose (dep0 := fun n => departed w n || N.eqb n (self c)).
  assert (M0 : forall n, departed w n = true -> dep0 n = true) by (intros n H; unfold dep0; rewrite H; reflexivity).
  assert (B0 : benign dep0 c s o).
  { apply Hb; [exact M0|]. destruct o; auto. unfold dep0. rewrite N.eqb_refl. apply orb_true_r. }
  pose proof (step_clean dep0 c Hf s o (clean_mono _ _ c s M0 Hc) B0) as P0. rewrite Est in P0.
  destruct P0 as [_ [_ [Lm Lo]]].
  assert (M' : forall n, departed w n = true -> dep' n = true) by (apply Mono; exact Lm).
  assert (B' : benign dep' c s o).
  { apply Hb; [exact M'|]. destruct o; auto. apply departed_spec. exists c, s'. auto. }
  pose proof (step_clean dep' c Hf s o (clean_mono _ _ c s M' Hc) B') as P. rewrite Est in P.
  destruct P as [Pc [Pe _]].
  split; [|split; [exact Pe | exact M']].
  constructor.
  - intros c0 s0 H0. destruct (In_upd (fun _ => (c, s')) (wnodes w) i (c0, s0) H0) as [K|[y [K1 K2]]].
    + destruct (Hn c0 s0 K) as [F0 C0]. split; [exact F0 | apply (clean_mono _ _ c0 s0 M' C0)].
    + inversion K2; subst c0 s0. split; [exact Hf | exact Pc].
  - intros p Hp'. apply (clean_pmsg_mono _ _ p M'). apply Hp. exact Hp'.
  - rewrite Names. exact Hu.
Qed.

(* ---------- every action ---------- *)
Lemma In_recs_lk s n r : keys_ok s -> In (n, r) (recs s) -> lk s n = Some r.
Proof. intros K H. apply in_alookup_nodup; assumption. Qed.

Theorem wstep_WI w a :
  WI w -> act_ok w a ->
  let '(w', evs) := wstep w a in
  WI w' /\ Forall (ev_quiet (departed w')) evs /\ (forall n, departed w n = true -> departed w' n = true).
Proof.
  intros HW Hok. pose proof HW as [Hn Hp Hu].
  assert (Triv : WI w /\ Forall (ev_quiet (departed w)) [] /\ (forall n, departed w n = true -> departed w n = true))
    by (split; [exact HW | split; [constructor | auto]]).
  destruct a as [i | i | i k | i meta wt | i wt | i dt | i]; cbn [wstep act_ok] in *.
  - (* gossip *)
    destruct (nth_error (wnodes w) i) as [[c s]|] eqn:Hi; [|exact Triv].
    split; [|split; [constructor | auto]]. constructor; cbn [wnodes wpool]; auto.
    intros p Hin. apply in_app_or in Hin. destruct Hin as [Hin|Hin]; [|apply Hp; exact Hin].
    apply in_map_iff in Hin. destruct Hin as [[k m] [E Hin]]. subst p. cbn.
    destruct (Hn c s (nth_error_In _ _ Hi)) as [_ Hc]. eapply cl_bq; [exact Hc | exact Hin].
  - (* snapshot *)
    destruct (nth_error (wnodes w) i) as [[c s]|] eqn:Hi; [|exact Triv].
    split; [|split; [constructor | auto]]. constructor; cbn [wnodes wpool]; auto.
    intros p Hin. apply in_app_or in Hin. destruct Hin as [Hin|Hin]; [|apply Hp; exact Hin].
    unfold snapshot in Hin. apply in_map_iff in Hin. destruct Hin as [[n r] [E Hin]]. subst p. cbn [fst snd].
    destruct (Hn c s (nth_error_In _ _ Hi)) as [_ Hc].
    pose proof (In_recs_lk s n r (cl_keys _ _ _ Hc) Hin) as L.
    destruct (cl_recs _ _ _ Hc n r L) as [A|[A D]]; rewrite A; cbn.
    + eapply cl_pos; [exact Hc | exact L | exact A].
    + exact D.
  - (* delivery *)
    destruct (nth_error (wpool w) k) as [p|] eqn:Hk; [|exact Triv].
    destruct (nth_error (wnodes w) i) as [[c s]|] eqn:Hi.
    2:{ unfold at_node. rewrite Hi. exact Triv. }
    destruct Hok as [Bl Bp].
    pose proof (Hp p (nth_error_In _ _ Hk)) as Cp.
    apply (at_node_WI w i (op_of p) c s HW Hi).
    intros dep' M _.
    (* a departure notice about this very node: it is the node that left *)
    assert (Own : forall n, departed w n = true -> n = self c -> leaving s = true).
    { intros n Hd En. apply departed_spec in Hd. destruct Hd as [c0 [s0 [H0 [E0 L0]]]].
      assert (E : (c0, s0) = (c, s)).
      { apply (unique_node w); [exact Hu | exact H0 | eapply nth_error_In; exact Hi | congruence]. }
      inversion E; subst. exact L0. }
    split; [exact Bl|].
    destruct p as [[inc name addr meta vsn | inc name from | inc name from] | rs inc name addr meta vsn]; cbn [op_of clean_pmsg clean_msg] in *.
    + split; [reflexivity|]. split; assumption.
    + contradiction.
    + destruct Cp as [-> D]. split; [reflexivity|]. split; [apply M; exact D | apply Own; exact D].
    + destruct rs; try contradiction.
      * split; assumption.
      * split; [apply M; exact Cp | apply Own; exact Cp].
  - destruct (nth_error (wnodes w) i) as [[c s]|] eqn:Hi.
    2:{ unfold at_node. rewrite Hi. exact Triv. }
    apply (at_node_WI w i (OUpdate meta wt) c s HW Hi). intros dep' _ _. split; [exact Hok | exact I].
  - destruct (nth_error (wnodes w) i) as [[c s]|] eqn:Hi.
    2:{ unfold at_node. rewrite Hi. exact Triv. }
    apply (at_node_WI w i (OLeave wt) c s HW Hi). intros dep' _ D. split; [exact Hok | exact D].
  - destruct (nth_error (wnodes w) i) as [[c s]|] eqn:Hi.
    2:{ unfold at_node. rewrite Hi. exact Triv. }
    apply (at_node_WI w i (OAdvance dt) c s HW Hi). intros dep' _ _. split; [exact Hok | exact I].
  - destruct (nth_error (wnodes w) i) as [[c s]|] eqn:Hi.
    2:{ unfold at_node. rewrite Hi. exact Triv. }
    apply (at_node_WI w i OReap c s HW Hi). intros dep' _ _. split; [exact Hok | exact I].
Qed.

(* ---------- every schedule ---------- *)
Fixpoint run_ok (w : world) (l : list wact) : Prop :=
  match l with
  | [] => True
  | a :: l' => act_ok w a /\ run_ok (fst (wstep w a)) l'
  end.

Lemma ev_quiet_mono (dep dep' : N -> bool) e :
  (forall n, dep n = true -> dep' n = true) -> ev_quiet dep e -> ev_quiet dep' e.
Proof. intros M H. destruct e; cbn in *; auto. Qed.

Theorem wrun_WI : forall l w, WI w -> run_ok w l ->
  let '(w', evs) := wrun w l in
  WI w' /\ Forall (ev_quiet (departed w')) evs /\ (forall n, departed w n = true -> departed w' n = true).
Proof.
  induction l as [|a l IH]; intros w HW Hok; cbn [wrun].
  - split; [exact HW | split; [constructor | auto]].
  - destruct Hok as [Ha Hl]. pose proof (wstep_WI w a HW Ha) as P.
    destruct (wstep w a) as [w1 e1]. cbn [fst] in Hl. destruct P as [P1 [P2 P3]].
    pose proof (IH w1 P1 Hl) as Q. destruct (wrun w1 l) as [w2 e2]. destruct Q as [Q1 [Q2 Q3]].
    split; [exact Q1|]. split.
    + apply Forall_app. split; [|exact Q2].
      eapply Forall_impl; [|exact P2]. intros e He. eapply ev_quiet_mono; [exact Q3 | exact He].
    + intros n Hn. apply Q3. apply P3. exact Hn.
Qed.

(* ---------- from the start ---------- *)
Definition good_cfg (c : cfg) : Prop :=
  fixed c = true /\ vsn_bad (self_vsn c) = false /\ is_allowed c (self_addr c) = true.

Definition boot_world (cs : list (cfg * N)) : world :=
  mkW (map (fun cm => (fst cm, boot (fst cm) (snd cm))) cs) [].

Lemma boot_leaving c meta : good_cfg c -> leaving (boot c meta) = false.
Proof.
  intros [_ [Hv A]]. unfold boot. cbn [step]. unfold do_alive, init, bump_linc. cbn [leaving andb].
  rewrite Hv. unfold alive_find. cbn [recs alookup]. rewrite A.
  unfold alive_apply, new_rec. cbn [rinc rst]. rewrite N.eqb_refl. cbn [negb andb].
  rewrite andb_false_r. cbn [andb fst]. reflexivity.
Qed.

Lemma boot_world_WI cs :
  Forall (fun cm => good_cfg (fst cm)) cs -> NoDup (map (fun cm => self (fst cm)) cs) -> WI (boot_world cs).
Proof.
  intros Hg Hu. constructor.
  - intros c s Hin. unfold boot_world in Hin; cbn [wnodes] in Hin. apply in_map_iff in Hin.
    destruct Hin as [[c0 m0] [E Hin]]. cbn [fst snd] in E. inversion E; subst c s.
    rewrite Forall_forall in Hg. pose proof (Hg _ Hin) as [F [V A]]. cbn [fst] in *.
    split; [exact F | apply boot_clean; assumption].
  - intros p [].
  - unfold names, boot_world; cbn [wnodes]. rewrite map_map. cbn [fst]. exact Hu.
Qed.

Definition accusation (p : pmsg) : bool :=
  match p with
  | PB (BSuspect _ _ _) => true
  | PB (BDead _ n f) => negb (N.eqb n f)
  | PS Suspect _ _ _ _ _ | PS Dead _ _ _ _ _ => true
  | _ => false
  end.

(* C04: the statement for the whole cluster *)
Theorem no_accusation_ever cs acts :
  Forall (fun cm => good_cfg (fst cm)) cs -> NoDup (map (fun cm => self (fst cm)) cs) ->
  run_ok (boot_world cs) acts ->
  let '(w, evs) := wrun (boot_world cs) acts in
  (forall c s, In (c, s) (wnodes w) ->
      timers s = [] /\
      (forall n r, lk s n = Some r -> rst r <> Suspect /\ rst r <> Dead) /\
      (forall k m, In (k, m) (bq s) -> accusation (PB m) = false)) /\
  (forall p, In p (wpool w) -> accusation p = false) /\
  (forall e, In e evs -> match e with
                         | EvLeave n _ _ => departed w n = true   (* only for a member that called Leave *)
                         | EvPanic => False
                         | _ => True
                         end).
Proof.
  intros Hg Hu Hok. pose proof (wrun_WI acts _ (boot_world_WI cs Hg Hu) Hok) as P.
  destruct (wrun (boot_world cs) acts) as [w evs]. destruct P as [[Hn Hp _] [He _]].
  split; [|split].
  - intros c s Hin. destruct (Hn c s Hin) as [_ Hc].
    destruct (clean_no_accusation _ _ _ Hc) as [T [R B]]. split; [exact T|]. split; [exact R|].
    intros k m Hm. specialize (B k m Hm). destruct m; cbn in *; auto; try contradiction.
    subst. rewrite N.eqb_refl. reflexivity.
  - intros p Hin. specialize (Hp p Hin). destruct p as [[| |]|[]]; cbn in *; auto; try contradiction.
    destruct Hp as [-> _]. rewrite N.eqb_refl. reflexivity.
  - intros e Hin. rewrite Forall_forall in He. specialize (He e Hin). destruct e; cbn in *; auto.
Qed.
