From Coq Require Import List NArith ZArith Bool Lia.
Import ListNotations.
From VF Require Import Base Probe.
Local Open Scope Z_scope.

(* the health score always stays within [0, max-1] *)
Theorem score_range mx score delta : 1 <= mx -> 0 <= apply_delta mx score delta <= mx - 1.
Proof.
  intro H. unfold apply_delta. destruct (Z.ltb_spec (score + delta) 0); [lia|].
  destruct (Z.ltb_spec (mx - 1) (score + delta)); lia.
Qed.

(* it rises only with a positive delta and falls only with a negative one *)
Theorem score_direction mx score delta : 0 <= score <= mx - 1 ->
  (score < apply_delta mx score delta -> 0 < delta) /\ (apply_delta mx score delta < score -> delta < 0).
Proof.
  intro H. unfold apply_delta. destruct (Z.ltb_spec (score + delta) 0); [lia|].
  destruct (Z.ltb_spec (mx - 1) (score + delta)); lia.
Qed.

(* the deltas a probe can produce: -1 only when answered after a ping that went out; positive only
   when it failed *)
Theorem delta_sign pi :
  (probe_delta pi < 0 -> probe_outcome pi = Answered /\ p_send pi = 0) /\
  (0 < probe_delta pi -> probe_outcome pi = Failed).
Proof.
  unfold probe_delta. destruct (probe_outcome pi); split; intro H; try lia; auto.
  - destruct (Z.eqb_spec (p_send pi) 0); [auto | lia].
  - destruct (Z.eqb_spec (p_send pi) 0); lia.
  - destruct (0 <? p_expected_nacks pi); lia.
Qed.

(* answered iff an ack carrying the probe's OWN sequence number arrives strictly before the
   deadline, or the TCP fallback round-trips a matching ack in time *)
Theorem answered_iff pi : p_send pi <> 2 ->
  (probe_outcome pi = Answered <->
   (exists t, In (Ack (p_seq pi) t) (p_arrivals pi) /\ t < p_interval pi) \/ tcp_contact pi = true).
Proof.
  intro Hs. unfold probe_outcome. destruct (Z.eqb_spec (p_send pi) 2); [contradiction|].
  assert (M : matching_ack_before pi (p_interval pi) = true <-> exists t, In (Ack (p_seq pi) t) (p_arrivals pi) /\ t < p_interval pi).
  { unfold matching_ack_before. rewrite existsb_exists. split.
    - intros [a [Hin Ha]]. destruct a as [s t|s t]; [|discriminate]. apply andb_true_iff in Ha. destruct Ha as [E L].
      apply Z.eqb_eq in E. apply Z.ltb_lt in L. subst. exists t. auto.
    - intros [t [Hin L]]. exists (Ack (p_seq pi) t). split; [exact Hin|]. rewrite Z.eqb_refl. apply Z.ltb_lt in L. rewrite L. reflexivity. }
  destruct (matching_ack_before pi (p_interval pi)) eqn:E; cbn [orb].
  - split; [intros _; left; apply M; reflexivity | reflexivity].
  - destruct (tcp_contact pi) eqn:T.
    + split; [intros _; right; reflexivity | reflexivity].
    + split; [discriminate|]. intros [H|H]; [apply M in H; discriminate | discriminate].
Qed.

(* acks / nacks carrying any other sequence number do not change the verdict or the delta *)
Theorem foreign_arrivals_irrelevant pi extra :
  Forall (fun a => match a with Ack s _ | Nack s _ => s <> p_seq pi end) extra ->
  let pi' := mkPI (p_seq pi) (p_interval pi) (p_timeout pi) (p_send pi) (p_arrivals pi ++ extra)
                  (p_expected_nacks pi) (p_tcp pi) (p_tcp_enabled pi) in
  probe_outcome pi' = probe_outcome pi /\ probe_delta pi' = probe_delta pi.
Proof.
  intro HF. cbv zeta.
  assert (A : forall d, existsb (fun a => match a with Ack s t => Z.eqb s (p_seq pi) && (t <? d) | _ => false end) (p_arrivals pi ++ extra)
                      = existsb (fun a => match a with Ack s t => Z.eqb s (p_seq pi) && (t <? d) | _ => false end) (p_arrivals pi)).
  { intro d. rewrite existsb_app. replace (existsb _ extra) with false; [apply orb_false_r|].
    symmetry. apply not_true_iff_false. intro H. apply existsb_exists in H. destruct H as [a [Hin Ha]].
    rewrite Forall_forall in HF. specialize (HF a Hin). destruct a; [|discriminate].
    apply andb_true_iff in Ha. destruct Ha as [E _]. apply Z.eqb_eq in E. contradiction. }
  assert (B : forall d, filter (fun a => match a with Nack s t => Z.eqb s (p_seq pi) && (t <? d) | _ => false end) (p_arrivals pi ++ extra)
                      = filter (fun a => match a with Nack s t => Z.eqb s (p_seq pi) && (t <? d) | _ => false end) (p_arrivals pi)).
  { intro d. rewrite filter_app. replace (filter _ extra) with (@nil arrival); [apply app_nil_r|].
    symmetry. clear A. induction extra as [|a ex IH]; [reflexivity|]. inversion HF as [|? ? Ha Hex]; subst. cbn [filter].
    destruct a as [s t|s t]; [apply IH; exact Hex|].
    destruct (Z.eqb_spec s (p_seq pi)); [contradiction|]. cbn [andb]. apply IH. exact Hex. }
  unfold probe_delta, probe_outcome, tcp_contact, phase2, matching_ack_before, nacks_before. cbn [p_seq p_interval p_timeout p_send p_arrivals p_expected_nacks p_tcp p_tcp_enabled].
  rewrite !A, !B. split; reflexivity.
Qed.

(* pending-probe records: an ack or nack for an unknown or expired number finds nothing; every record
   is gone once its deadline has passed *)
Theorem foreign_ack_noop h seq now : (forall e, In e h -> fst e <> seq) -> h_ack h seq now = (false, h_advance h now).
Proof.
  intro H. unfold h_ack. replace (existsb _ (h_advance h now)) with false; [reflexivity|].
  symmetry. apply not_true_iff_false. intro E. apply existsb_exists in E. destruct E as [e [Hin He]].
  unfold h_advance in Hin. apply filter_In in Hin. destruct Hin as [Hin _]. apply Z.eqb_eq in He. apply (H e Hin). exact He.
Qed.

Theorem expired_ack_noop h seq now : (forall e, In e h -> fst e = seq -> snd e <= now) -> fst (h_ack h seq now) = false.
Proof.
  intro H. unfold h_ack. destruct (existsb _ (h_advance h now)) eqn:E; [|reflexivity].
  apply existsb_exists in E. destruct E as [e [Hin He]]. unfold h_advance in Hin. apply filter_In in Hin.
  destruct Hin as [Hin L]. apply Z.eqb_eq in He. apply Z.ltb_lt in L. specialize (H e Hin He). lia.
Qed.

Theorem handlers_reaped h now : (forall e, In e h -> snd e <= now) -> h_advance h now = [].
Proof.
  intro H. unfold h_advance. induction h as [|e h IH]; [reflexivity|]. cbn [filter].
  destruct (Z.ltb_spec now (snd e)); [specialize (H e (or_introl eq_refl)); lia|]. apply IH. intros e' Hin. apply H. right. exact Hin.
Qed.

Theorem ack_consumes_record h seq now : fst (h_ack h seq now) = true ->
  forall e, In e (snd (h_ack h seq now)) -> fst e <> seq.
Proof.
  unfold h_ack. destruct (existsb _ (h_advance h now)); [|discriminate]. intros _ e Hin. cbn [snd] in Hin.
  apply filter_In in Hin. destruct Hin as [_ Hn]. apply negb_true_iff in Hn. apply Z.eqb_neq in Hn. exact Hn.
Qed.

(* relay: at most one ack is relayed and at most one nack is sent, never both; a nack goes out iff
   one was asked for and no matching ack came in time *)
Theorem relay_exclusive ri :
  let '(a, n) := relay_result ri in
  0 <= a <= 1 /\ 0 <= n <= 1 /\ a + n <= 1 /\ (n = 1 <-> (r_want_nack ri = true /\ a = 0)).
Proof.
  unfold relay_result. destruct (existsb _ (r_arrivals ri)); destruct (r_want_nack ri); cbn; repeat split; try lia; try discriminate; intuition (try discriminate; try lia).
Qed.
