(* Leave_proofs.v — C08 over whole histories: once a node has left (flag set, own record Left), no
   operation whatsoever — claims about itself or others by any path, timers, reaping, further API calls —
   changes its own record or clears the flag; it never lists itself again. *)
From Coq Require Import List NArith ZArith Bool Lia.
Import ListNotations.
From VF Require Import Base Core Core_lemmas Core_inv Core_props Cluster Exchange Heal_proofs Below_proofs Below_cluster.
Local Open Scope Z_scope.

Section Leave.
Variable c : cfg.
Hypothesis Hfixed : fixed c = true.

Definition Gone (s : nstate) (r : rec) : Prop :=
  leaving s = true /\ lk s (self c) = Some r /\ rst r = Left /\ no_live (self c) (timers s).

Lemma gone_other n s s' r : loc c n s s' -> n <> self c -> Gone s r -> Gone s' r.
Proof.
  intros LC Hn [Lv [L [A NL]]]. pose proof LC as [F [Lv' _]]. unfold Gone. spl.
  - congruence.
  - rewrite F by (intro E; apply Hn; symmetry; exact E). exact L.
  - exact A.
  - eapply no_live_loc; [exact LC | intro E; apply Hn; symmetry; exact E | exact NL].
Qed.

Lemma gone_alive s r inc name addr meta vsn b : Gone s r -> Gone (fst (do_alive c s inc name addr meta vsn b)) r.
Proof.
  intro G. destruct (N.eq_dec name (self c)) as [E|Nn].
  - subst name. destruct G as [Lv G']. rewrite (leaving_alive_dropped c s inc addr meta vsn b Lv). cbn [fst]. split; assumption.
  - eapply gone_other; [apply do_alive_loc | exact Nn | exact G].
Qed.

Lemma gone_suspect s r inc name from : Gone s r -> Gone (fst (do_suspect c s inc name from)) r.
Proof.
  intro G. destruct (N.eq_dec name (self c)) as [E|Nn].
  - subst name. pose proof G as [Lv [L [A NL]]]. unfold do_suspect. fold (lk s (self c)). rewrite L.
    destruct (inc <? rinc r)%N; [exact G|]. unfold no_live in NL. rewrite NL. rewrite A. cbn [st_eqb negb fst]. exact G.
  - eapply gone_other; [apply do_suspect_loc | exact Nn | exact G].
Qed.

Lemma gone_dead s r inc name from : Gone s r -> Gone (fst (do_dead c s inc name from)) r.
Proof.
  intro G. destruct (N.eq_dec name (self c)) as [E|Nn].
  - subst name. pose proof G as [Lv [L [A NL]]]. unfold do_dead. fold (lk s (self c)). rewrite L.
    destruct (inc <? rinc r)%N; [exact G|]. rewrite (orphan_no_live _ _ NL), set_timers_same. rewrite A. cbn [dead_or_left fst]. exact G.
  - eapply gone_other; [apply do_dead_loc | exact Nn | exact G].
Qed.

Lemma gone_timer_fire s r t : Gone s r -> Gone (fst (timer_fire c s t)) r.
Proof.
  intro G. unfold timer_fire. destruct (alookup (tname t) (recs s)) as [q|]; [|exact G].
  destruct (st_eqb (rst q) Suspect && Z.eqb (rsince q) (tct t)); [apply gone_dead; exact G | exact G].
Qed.

Lemma no_live_filter n f ts : no_live n ts -> no_live n (filter f ts).
Proof.
  unfold no_live, live_timer. induction ts as [|t ts IH]; cbn [filter find]; [auto|].
  destruct (N.eqb (tname t) n && tlive t) eqn:E; [discriminate|]. intro H.
  destruct (f t); cbn [find]; [rewrite E|]; apply IH; exact H.
Qed.

Lemma gone_fire_due fuel target s evs r : Gone s r -> Gone (fst (fire_due fuel c target s evs)) r.
Proof.
  apply (fire_due_ind c (fun s0 => Gone s0 r)).
  - intros s0 t G. exact G.
  - intros s0 t [Lv [L [A NL]]]. unfold Gone. spl; auto. cbn [set_timers timers]. apply no_live_filter. exact NL.
  - intros s0 t G. apply gone_timer_fire. exact G.
Qed.

Lemma gone_reap s r : Gone s r -> Gone (do_reap c s) r.
Proof.
  intros [Lv [L [A NL]]]. unfold Gone. spl; auto.
  unfold do_reap, lk; cbn [recs]. apply alookup_filter_keep; [exact L|].
  cbn [fst snd]. rewrite Hfixed, N.eqb_refl. cbn [andb]. apply orb_true_r.
Qed.

Lemma gone_wait w s evs r : Gone s r -> Gone (fst (wait_bcast c w (s, evs))) r.
Proof.
  intro G. unfold wait_bcast. destruct (any_alive_other c s); [apply gone_fire_due; exact G | exact G].
Qed.

(* one operation: nothing changes the record of a node that has left, nor clears the flag *)
Theorem gone_step s r o : Gone s r -> Gone (fst (step c s o)) r.
Proof.
  intro G. destruct o as [inc name addr meta vsn b | src inc name addr meta vsn | inc name from | inc name from
                         | rs inc name addr meta vsn | dt | | | inc | | w | meta w]; cbn [step].
  - apply gone_alive. exact G.
  - destruct (negb (is_allowed c src)); [exact G|]. destruct (negb (is_allowed c addr)); [exact G|]. apply gone_alive. exact G.
  - apply gone_suspect. exact G.
  - apply gone_dead. exact G.
  - destruct rs; cbn [do_merge]; [apply gone_alive | apply gone_suspect | apply gone_suspect | apply gone_dead]; exact G.
  - apply gone_fire_due. exact G.
  - cbn [fst]. apply gone_reap. exact G.
  - destruct G as [Lv [L [A NL]]]. unfold Gone. cbn. auto.
  - apply gone_dead. exact G.
  - destruct G as [Lv [L [A NL]]]. unfold Gone. cbn. auto.
  - destruct G as [Lv G']. rewrite Lv. cbn [fst]. split; assumption.
  - assert (G1 : Gone (bump_linc s) r) by (destruct G as [Lv [L [A NL]]]; unfold Gone; cbn; auto).
    pose proof G1 as [Lv1 [L1 _]]. unfold lk in L1. rewrite L1.
    rewrite (leaving_alive_dropped c (bump_linc s) (linc (bump_linc s)) (raddr r) meta (self_vsn c) true Lv1).
    apply gone_wait. exact G1.
Qed.

(* every history *)
Theorem gone_run ops : forall s r, Gone s r ->
  Gone (fst (run c s ops)) r /\ listed (fst (run c s ops)) (self c) = None.
Proof.
  induction ops as [|o ops IH]; intros s r G; cbn [run].
  - cbn [fst]. split; [exact G|]. destruct G as [_ [L [A _]]]. unfold listed. unfold lk in L. rewrite L, A. reflexivity.
  - pose proof (gone_step s r o G) as G1. destruct (step c s o) as [s1 e]. cbn [fst] in G1.
    specialize (IH s1 r G1). destruct (run c s1 ops) as [s2 es]. exact IH.
Qed.

(* Leave on a running node that lists itself produces exactly such a state (whatever else it holds) *)
Theorem leave_is_gone s r w : Inv c s -> leaving s = false -> lk s (self c) = Some r -> rst r = Alive ->
  exists r', Gone (fst (step c s (OLeave w))) r' /\ rinc r' = rinc r.
Proof.
  intros HI Lv L A. cbn [step]. rewrite Lv.
  assert (L1 : alookup (self c) (recs (set_leaving s)) = Some r) by exact L. rewrite L1.
  assert (NL : no_live (self c) (timers s)) by (eapply self_no_live; eassumption).
  set (r' := mkRec (rinc r) Left (raddr r) (rmeta r) (rvsn r) (now s)).
  assert (G0 : Gone (fst (do_dead c (set_leaving s) (rinc r) (self c) (self c))) r').
  { unfold do_dead. fold (lk (set_leaving s) (self c)). unfold lk. rewrite L1. rewrite N.ltb_irrefl.
    assert (OS : set_timers (set_leaving s) (orphan (self c) (timers (set_leaving s))) = set_leaving s).
    { cbn [set_leaving timers]. rewrite (orphan_no_live _ _ NL). reflexivity. }
    rewrite OS. rewrite A. cbn [dead_or_left]. rewrite N.eqb_refl. cbn [set_leaving leaving negb andb].
    rewrite Hfixed. cbn [andb]. rewrite N.eqb_refl. cbn [fst]. unfold Gone. spl.
    - reflexivity.
    - apply lk_set_rec_same.
    - reflexivity.
    - exact NL. }
  exists r'. split; [|reflexivity].
  destruct (do_dead c (set_leaving s) (rinc r) (self c) (self c)) as [sd ed]. cbn [fst] in G0.
  apply gone_wait. exact G0.
Qed.


(* ---------------------------------------------------------------- the leaver's own queued alive messages *)
(* every alive message about the node itself that sits in its broadcast queue carries at most the
   incarnation of its own record — in particular, once that record is the departure (Left at i), no queued
   alive message of its own is newer than the departure, so by C08_no_resurrection_alive none of them,
   delivered in whatever order, brings it back on a peer that recorded the departure *)
Definition QInv (s : nstate) : Prop :=
  forall k i a m v, In (k, BAlive i (self c) a m v) (bq s) -> exists r, lk s (self c) = Some r /\ (i <= rinc r)%N.

Lemma Q_same s s' : bq s' = bq s -> lk s' (self c) = lk s (self c) -> QInv s -> QInv s'.
Proof. intros E1 E2 Q k i a m v Hin. rewrite E1 in Hin. rewrite E2. eapply Q; exact Hin. Qed.

Lemma Q_set_bq s k m : QInv s ->
  (forall i a mm v, m = BAlive i (self c) a mm v -> exists r, lk s (self c) = Some r /\ (i <= rinc r)%N) ->
  QInv (set_bq s k m).
Proof.
  intros Q Hm k' i a mm v Hin. cbn [set_bq bq] in Hin. apply In_aset in Hin. destruct Hin as [E|Hin].
  - inversion E; subst. rewrite lk_set_bq. eapply Hm. reflexivity.
  - rewrite lk_set_bq. eapply Q; exact Hin.
Qed.

Lemma Q_set_rec s n r : QInv s ->
  (n = self c -> forall r0, lk s (self c) = Some r0 -> (rinc r0 <= rinc r)%N) -> QInv (set_rec s n r).
Proof.
  intros Q Hr k i a m v Hin. cbn [set_rec bq] in Hin. destruct (Q k i a m v Hin) as [r0 [L0 Le]].
  destruct (N.eq_dec n (self c)) as [E|Nn].
  - subst n. exists r. rewrite lk_set_rec_same. split; [reflexivity|]. pose proof (Hr eq_refl r0 L0). lia.
  - exists r0. rewrite lk_set_rec_other by exact Nn. auto.
Qed.

Lemma Q_refute s me acc : QInv s -> lk s (self c) = Some me -> (rinc me <= linc s)%N ->
  below_max acc -> below_max (linc s) -> QInv (refute c s me acc).
Proof.
  intros Q L Le Ba Bl. pose proof (refute_outranks s acc Ba Bl) as [_ Hgt].
  pose proof (refute_spec c s me acc) as RS. cbv zeta in RS. destruct RS as [R1 _].
  intros k i a m v Hin. unfold refute in Hin. cbv zeta in Hin. fold (refute_inc s acc) in Hin.
  cbn [set_bq bq] in Hin. apply In_aset in Hin. rewrite R1. eexists. split; [reflexivity|]. cbn [rinc].
  destruct Hin as [E|Hin].
  - inversion E; subst. lia.
  - destruct (Q k i a m v Hin) as [r0 [L0 Le0]]. rewrite L in L0. inversion L0; subst r0. lia.
Qed.

Lemma Q_dead s inc name from : SelfInv c s -> all_below s -> below_max inc -> QInv s -> QInv (fst (do_dead c s inc name from)).
Proof.
  intros HI [B1 B2] Bi Q. unfold do_dead. fold (lk s name).
  destruct (lk s name) as [r|] eqn:L; [|exact Q].
  destruct (N.ltb_spec inc (rinc r)) as [Lt|Ge]; [exact Q|].
  destruct (dead_or_left (rst r)); [eapply Q_same; [| |exact Q]; reflexivity|].
  destruct (N.eqb_spec name (self c)) as [Es|Ns]; cbn [andb].
  - destruct (leaving s) eqn:Lv; cbn [negb fst].
    + apply Q_set_rec.
      * apply Q_set_bq; [eapply Q_same; [| |exact Q]; reflexivity|]. intros i a mm v E. destruct (fixed c); discriminate.
      * intros _ r0 L0. cbn [rinc]. unfold set_bq, set_timers, lk in L0; cbn [recs] in L0. subst name. unfold lk in L. rewrite L in L0. inversion L0; subst. exact Ge.
    + subst name. destruct (HI Lv) as [r' [L' [_ Le]]]. rewrite L in L'. inversion L'; subst r'.
      apply Q_refute; auto.
  - cbn [fst]. apply Q_set_rec; [|intro; contradiction].
    apply Q_set_bq; [eapply Q_same; [| |exact Q]; reflexivity|]. intros i a mm v E. discriminate.
Qed.

Lemma Q_timer_fire s t : SelfInv c s -> all_below s -> QInv s -> QInv (fst (timer_fire c s t)).
Proof.
  intros HI HB Q. unfold timer_fire. fold (lk s (tname t)). destruct (lk s (tname t)) as [r|] eqn:L; [|exact Q].
  destruct (st_eqb (rst r) Suspect && Z.eqb (rsince r) (tct t)); [|exact Q].
  apply Q_dead; auto. destruct HB as [_ B2]. eapply B2. exact L.
Qed.

Lemma Q_suspect s inc name from : Inv c s -> all_below s -> below_max inc -> QInv s -> QInv (fst (do_suspect c s inc name from)).
Proof.
  intros HI HB Bi Q. pose proof HB as [B1 B2]. unfold do_suspect. fold (lk s name).
  destruct (lk s name) as [r|] eqn:L; [|exact Q].
  destruct (inc <? rinc r)%N; [exact Q|].
  destruct (live_timer name (timers s)) as [t|] eqn:LT.
  - destruct ((tk t <=? tn t) || Nmem from (tconfs t)); [exact Q|].
    set (t' := mkT _ _ _ _ _ _ _ _).
    set (s1 := set_bq (set_timers s _) (kname name) (BSuspect inc name from)).
    assert (Q1 : QInv s1).
    { apply Q_set_bq; [eapply Q_same; [| |exact Q]; reflexivity|]. intros i a mm v E. discriminate. }
    destruct (0 <? _); [exact Q1|].
    set (s2 := set_timers s1 _).
    assert (Q2 : QInv s2) by (eapply Q_same; [| |exact Q1]; reflexivity).
    assert (HI2 : SelfInv c s2) by (exact (inv_self c s HI)).
    apply Q_timer_fire; [exact HI2 | split; [exact B1 | exact B2] | exact Q2].
  - destruct (negb (st_eqb (rst r) Alive)); [exact Q|].
    destruct (N.eqb_spec name (self c)) as [Es|Ns].
    + destruct (fixed c && leaving s) eqn:FL; [exact Q|]. cbn [fst].
      rewrite Hfixed in FL. cbn [andb] in FL. subst name.
      destruct (inv_self c s HI FL) as [r' [L' [_ Le]]]. rewrite L in L'. inversion L'; subst r'.
      apply Q_refute; auto.
    + cbn [fst]. eapply Q_same; [reflexivity | | ].
      2:{ apply Q_set_rec; [|intro; contradiction]. apply Q_set_bq; [exact Q|]. intros i a mm v E. discriminate. }
      reflexivity.
Qed.

Lemma Q_alive_commit s k i a m v r' : QInv s ->
  (forall r0, lk s (self c) = Some r0 -> (rinc r0 <= rinc r')%N) -> (i <= rinc r')%N ->
  QInv (set_rec (set_bq s k (BAlive i (self c) a m v)) (self c) r').
Proof.
  intros Q Hr Hi k' i' a' m' v' Hin. cbn [set_rec set_bq bq] in Hin. exists r'. rewrite lk_set_rec_same. split; [reflexivity|].
  apply In_aset in Hin. destruct Hin as [E|Hin].
  - inversion E; subst. exact Hi.
  - destruct (Q k' i' a' m' v' Hin) as [r0 [L0 Le]]. pose proof (Hr r0 L0). lia.
Qed.

Lemma Q_alive s inc name addr meta vsn b : Inv c s -> all_below s -> below_max inc -> QInv s ->
  QInv (fst (do_alive c s inc name addr meta vsn b)).
Proof.
  intros HI [B1 B2] Bi Q. unfold do_alive.
  destruct (N.eqb_spec name (self c)) as [Es|Ns].
  - (* about the node itself *)
    subst name. rewrite andb_true_r. destruct (leaving s) eqn:Lv; [exact Q|].
    destruct (vsn_bad vsn); [exact Q|].
    destruct (inv_self c s HI Lv) as [r0 [L0 [A0 Le0]]].
    unfold alive_find. fold (lk s (self c)). rewrite L0.
    destruct (N.eqb (raddr r0) addr).
    + unfold alive_apply. rewrite N.eqb_refl. cbn [negb andb]. rewrite andb_false_r. cbn [andb]. rewrite andb_true_r.
      destruct (N.ltb_spec inc (rinc r0)) as [Lt|Ge]; [exact Q|].
      destruct (negb b).
      * destruct (N.eqb inc (rinc r0) && N.eqb meta (rmeta r0) && Nlist_eqb vsn (rvsn r0)); cbn [fst]; [exact Q|].
        apply Q_refute; auto.
      * cbn [fst]. apply Q_alive_commit; [exact Q | | cbn [rinc]; lia].
        intros r1 L1. cbn [rinc]. unfold lk, set_timers in L1; cbn [recs] in L1. unfold lk in L0. rewrite L0 in L1. inversion L1; subst. exact Ge.
    + assert (CR : can_replace c s r0 = false) by (unfold can_replace; rewrite A0; reflexivity).
      rewrite CR. destruct (is_allowed c addr); exact Q.
  - (* about somebody else: nothing about the node itself is queued or recorded *)
    rewrite andb_false_r. destruct (vsn_bad vsn); [exact Q|].
    assert (Apply : forall s1 r updates, QInv s1 -> QInv (fst (alive_apply c s1 r updates inc name addr meta vsn b))).
    { intros s1 r updates Q1. unfold alive_apply.
      destruct (N.eqb_spec name (self c)) as [E|_]; [contradiction|]. cbn [negb andb]. rewrite !andb_false_r. rewrite andb_true_r.
      destruct ((inc <=? rinc r)%N && negb updates); [exact Q1|]. cbn [fst].
      apply Q_set_rec; [|intro; contradiction]. apply Q_set_bq; [exact Q1|].
      intros i a mm v E. inversion E; subst. contradiction. }
    unfold alive_find. fold (lk s name). destruct (lk s name) as [r|] eqn:L.
    + destruct (N.eqb (raddr r) addr); [apply Apply; exact Q|].
      destruct (is_allowed c addr); [|exact Q]. destruct (can_replace c s r); [apply Apply; exact Q | exact Q].
    + destruct (is_allowed c addr); [|exact Q]. apply Apply.
      intros k i a m v Hin. cbn [bq] in Hin. destruct (Q k i a m v Hin) as [r0 [L0 Le]]. exists r0. split; [|exact Le].
      unfold lk; cbn [recs]. rewrite alookup_app_other by exact Ns. exact L0.
Qed.

Lemma Q_fire_due fuel target s evs : GInv c s -> QInv s -> QInv (fst (fire_due fuel c target s evs)).
Proof.
  intros G Q.
  assert (R : GInv c (fst (fire_due fuel c target s evs)) /\ QInv (fst (fire_due fuel c target s evs))).
  { apply (fire_due_ind c (fun s0 => GInv c s0 /\ QInv s0)).
    - intros s0 t [[[HI K] HB] Q0]. split; [split; [split; [apply set_now_Inv; exact HI | exact K] | exact HB] | exact Q0].
    - intros s0 t [[[HI K] HB] Q0]. split; [split; [split; [apply remove_timer_Inv; exact HI | exact K] | exact HB] | exact Q0].
    - intros s0 t [G0 Q0]. split; [apply timer_fire_GInv; solve [exact Hfixed | exact G0]|].
      destruct G0 as [[HI K] HB]. apply Q_timer_fire; [apply HI | exact HB | exact Q0].
    - split; assumption. }
  apply R.
Qed.

Lemma Q_wait w s evs : GInv c s -> QInv s -> QInv (fst (wait_bcast c w (s, evs))).
Proof. intros G Q. unfold wait_bcast. destruct (any_alive_other c s); [apply Q_fire_due; assumption | exact Q]. Qed.

Theorem Q_step s o : FInv c s -> op_ok c s o -> QInv s -> QInv (fst (step c s o)).
Proof.
  intros [HI K] [HB Hop] Q. pose proof HB as [B1 B2].
  destruct o as [inc name addr meta vsn b | src inc name addr meta vsn | inc name from | inc name from
                | rs inc name addr meta vsn | dt | | | inc | | w | meta w]; cbn [step].
  - destruct Hop as [Bi _]. apply Q_alive; auto.
  - destruct (negb (is_allowed c src)); [exact Q|]. destruct (negb (is_allowed c addr)); [exact Q|]. apply Q_alive; auto.
  - apply Q_suspect; auto.
  - apply Q_dead; auto. apply HI.
  - destruct rs; cbn [do_merge]; [apply Q_alive | apply Q_suspect | apply Q_suspect | apply Q_dead]; auto. apply HI.
  - apply Q_fire_due; [split; [split|]; assumption | exact Q].
  - cbn [fst]. intros k i a m v Hin. cbn [do_reap bq] in Hin. destruct (Q k i a m v Hin) as [r0 [L0 Le]]. exists r0. split; [|exact Le].
    unfold do_reap, lk; cbn [recs]. apply alookup_filter_keep; [exact L0|]. cbn [fst snd]. rewrite Hfixed, N.eqb_refl. cbn [andb]. apply orb_true_r.
  - exact Q.
  - apply Q_dead; auto. apply HI.
  - exact Q.
  - destruct (leaving s) eqn:Lv; [exact Q|].
    destruct (inv_self c s HI Lv) as [r [L [A Le]]].
    assert (L1 : alookup (self c) (recs (set_leaving s)) = Some r) by exact L. rewrite L1.
    assert (HI' : Inv c (set_leaving s)) by (apply set_leaving_Inv; exact HI).
    assert (HB' : all_below (set_leaving s)) by (split; assumption).
    assert (Q' : QInv (fst (do_dead c (set_leaving s) (rinc r) (self c) (self c)))).
    { apply Q_dead; auto. apply HI'. eapply B2; exact L. }
    assert (G : GInv c (fst (do_dead c (set_leaving s) (rinc r) (self c) (self c)))).
    { split; [split; [apply do_dead_Inv; auto; split; [eapply B2; exact L | exact B1] | apply do_dead_keys; exact K]|].
      apply do_dead_same_inc_below with (r := r); auto. }
    destruct (do_dead c (set_leaving s) (rinc r) (self c) (self c)) as [sd ed]. cbn [fst] in *.
    apply Q_wait; assumption.
  - fold (lk (bump_linc s) (self c)). destruct (lk (bump_linc s) (self c)) as [r0|] eqn:L0; [|exact Q].
    assert (El : linc (bump_linc s) = (linc s + 1)%N).
    { unfold bump_linc; cbn [linc]. unfold below_max, two32 in *. rewrite N.mod_small by lia. reflexivity. }
    assert (HB' : all_below (bump_linc s)) by (split; [rewrite El; exact Hop | exact B2]).
    assert (HIb : Inv c (bump_linc s)) by (apply bump_linc_Inv; assumption).
    assert (WF : alive_wf c (bump_linc s) (linc (bump_linc s)) (self c) true) by (intros _; split; [reflexivity | lia]).
    assert (CO : claim_ok (bump_linc s) (linc (bump_linc s))) by (split; rewrite El; exact Hop).
    assert (G : GInv c (fst (do_alive c (bump_linc s) (linc (bump_linc s)) (self c) (raddr r0) meta (self_vsn c) true))).
    { split; [split|].
      * apply do_alive_Inv; assumption.
      * apply do_alive_keys. exact K.
      * apply alive_boot_below; [exact HB' | rewrite El; exact Hop]. }
    assert (Q' : QInv (fst (do_alive c (bump_linc s) (linc (bump_linc s)) (self c) (raddr r0) meta (self_vsn c) true))).
    { apply Q_alive; auto. rewrite El. exact Hop. }
    destruct (do_alive c (bump_linc s) (linc (bump_linc s)) (self c) (raddr r0) meta (self_vsn c) true) as [sd ed]. cbn [fst] in *.
    apply Q_wait; assumption.
Qed.

(* every history from the booted node *)
Theorem Q_run ops : forall s, FInv c s -> run_ok c s ops -> QInv s -> QInv (fst (run c s ops)).
Proof.
  induction ops as [|o ops IH]; intros s HI HR Q; cbn [run]; [exact Q|].
  destruct HR as [Ho HR]. pose proof (step_FInv c Hfixed s o HI Ho) as H1. pose proof (Q_step s o HI Ho Q) as Q1.
  destruct (step c s o) as [s1 e]. cbn [fst] in *. specialize (IH s1 H1 HR Q1).
  destruct (run c s1 ops) as [s2 es]. exact IH.
Qed.

Lemma Q_boot meta : is_allowed c (self_addr c) = true -> vsn_bad (self_vsn c) = false -> QInv (boot c meta).
Proof.
  intros Al Vb k i a m v Hin. rewrite boot_eq in Hin by assumption. rewrite boot_eq by assumption. cbn in Hin.
  destruct Hin as [E|[]]. inversion E; subst. eexists. split; [unfold lk; cbn; rewrite N.eqb_refl; reflexivity|]. cbn. lia.
Qed.

End Leave.

(* a decidable version of [run_ok] for examples *)
Fixpoint run_okb (c : cfg) (s : nstate) (ops : list op) : bool :=
  match ops with
  | [] => true
  | o :: ops' => Below_cluster.op_okb c s o && run_okb c (fst (step c s o)) ops'
  end.
Lemma run_okb_ok c : forall ops s, run_okb c s ops = true -> run_ok c s ops.
Proof.
  induction ops as [|o ops IH]; intros s H; cbn [run_okb run_ok] in *; [exact I|].
  apply andb_true_iff in H. destruct H as [H1 H2]. split; [apply Below_cluster.op_okb_ok; exact H1 | apply IH; exact H2].
Qed.
