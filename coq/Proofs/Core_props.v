(* Core_props.v — the per-step and per-history theorems behind C01, C02, C07, C08, C18. *)
From Coq Require Import List NArith ZArith Bool Lia.
Import ListNotations.
From VF Require Import Base Core Core_lemmas Core_inv.

Local Open Scope Z_scope.

Section WithCfg.
Variable c : cfg.
Hypothesis Hfixed : fixed c = true.

(* ------------------------------------------------------------------ precedence order *)
Definition key_le (a b : rec) : Prop :=
  (rinc a < rinc b)%N \/ (rinc a = rinc b /\ (rank (rst a) <= rank (rst b))%N).

Lemma key_le_refl a : key_le a a.
Proof. right. split; [reflexivity | lia]. Qed.
Lemma key_le_trans a b d : key_le a b -> key_le b d -> key_le a d.
Proof. unfold key_le. intros [H1|[H1 H2]] [H3|[H3 H4]]; [left|left|left|right]; try lia. Qed.

Definition mono (s s' : nstate) : Prop :=
  forall n r, lk s n = Some r -> exists r', lk s' n = Some r' /\ key_le r r'.

Lemma mono_refl s : mono s s.
Proof. intros n r L. exists r. split; [exact L | apply key_le_refl]. Qed.
Lemma mono_trans s1 s2 s3 : mono s1 s2 -> mono s2 s3 -> mono s1 s3.
Proof.
  intros H1 H2 n r L. destruct (H1 n r L) as [r2 [L2 K2]]. destruct (H2 n r2 L2) as [r3 [L3 K3]].
  exists r3. split; [exact L3 | eapply key_le_trans; eassumption].
Qed.
Lemma mono_same_lk s s' : (forall n, lk s' n = lk s n) -> mono s s'.
Proof. intros H n r L. exists r. rewrite H. split; [exact L | apply key_le_refl]. Qed.

(* a frame plus a monotone change of one name *)
Lemma mono_frame s s' name :
  frame name s s' ->
  (forall r, lk s name = Some r -> exists r', lk s' name = Some r' /\ key_le r r') ->
  mono s s'.
Proof.
  intros F H n r L. destruct (N.eq_dec n name) as [E|N1].
  - subst n. apply H. exact L.
  - exists r. unfold lk in *. rewrite F by exact N1. split; [exact L | apply key_le_refl].
Qed.

Lemma refute_mono s me acc :
  lk s (self c) = Some me -> (rinc me <= linc s)%N -> below_max acc -> below_max (linc s) ->
  mono s (refute c s me acc).
Proof.
  intros L Hle B1 B2. pose proof (refute_spec c s me acc) as RS. cbv zeta in RS.
  destruct RS as [R1 [R2 _]]. apply mono_frame with (name := self c); [exact R2|].
  intros r Lr. rewrite L in Lr. inversion Lr; subst r. eexists. split; [exact R1|].
  left. cbn. destruct (refute_outranks s acc B1 B2) as [_ H]. lia.
Qed.

(* ------------------------------------------------------------------ C01: monotonicity of each handler *)
Lemma set_timers_mono s ts : mono s (set_timers s ts).
Proof. apply mono_same_lk. intro n. reflexivity. Qed.

Lemma do_dead_mono s inc name from :
  Inv c s -> claim_ok s inc -> mono s (fst (do_dead c s inc name from)).
Proof.
  intros [HT HS HA] [B1 B2]. pose proof (do_dead_spec c s inc name from) as SP.
  destruct (do_dead c s inc name from) as [s' evs]. cbn [fst].
  destruct SP as [R [F [Lv _]]].
  destruct R as [Ev Hs' _ | r L Es Lf Ge DL Hs' Ev | r from' L Ge DL Hl Ef L' Ev Li Sc Bq Tm].
  - destruct Hs' as [->|[-> _]]; [apply mono_refl | apply set_timers_mono].
  - subst s' name. destruct (HS Lf) as [r' [L2 [A2 I2]]]. rewrite L in L2. inversion L2; subst r'.
    eapply mono_trans; [apply set_timers_mono|]. apply refute_mono; auto.
  - apply mono_frame with (name := name); [exact F|]. intros r0 L0. rewrite L in L0. inversion L0; subst r0.
    eexists. split; [exact L'|]. unfold key_le. cbn [rinc rst].
    destruct (N.eq_dec (rinc r) inc) as [E|N1]; [right | left; lia].
    split; [exact E|]. destruct (N.eqb name from'); cbn; destruct (rst r); cbn; lia.
Qed.

Lemma timer_fire_mono s t : Inv c s -> all_below s -> mono s (fst (timer_fire c s t)).
Proof.
  intros HI [B1 B2]. unfold timer_fire. fold (lk s (tname t)).
  destruct (lk s (tname t)) as [r|] eqn:L; [|apply mono_refl].
  destruct (st_eqb (rst r) Suspect && Z.eqb (rsince r) (tct t)); [|apply mono_refl].
  apply do_dead_mono; [exact HI | split; [eapply B2; exact L | exact B1]].
Qed.

Lemma do_suspect_mono s inc name from :
  Inv c s -> claim_ok s inc -> all_below s -> mono s (fst (do_suspect c s inc name from)).
Proof.
  intros HI [B1 B2] HB. pose proof HI as [HT HS HA].
  pose proof (do_suspect_spec c s inc name from) as SP.
  destruct (do_suspect c s inc name from) as [s' evs]. cbn [fst].
  destruct SP as [R [F [Lv [Nw Nn]]]].
  destruct R as [-> Ev | r t sA L Ge LT Hk Hm FA NA LA LvA ScA NnA BqA TA Hfire
                | r L Es Ge A LT FL Hs' Ev | r L Ns Ge A LT L' Ev Li Sc Bq _].
  - apply mono_refl.
  - assert (M1 : mono s sA) by (apply mono_same_lk; exact FA).
    destruct Hfire as [[-> _]|[t' [E [Tn' _]]]]; [exact M1|].
    eapply mono_trans; [exact M1|].
    assert (HIA : Inv c sA).
    { split.
      - intros u Hu Lu. destruct (TA u Hu Lu) as [Hin|En].
        + destruct (HT u Hin Lu) as [r' [Lr Sr]]. exists r'. rewrite FA. auto.
        + apply live_timer_some in LT. destruct LT as [T1 [T2 T3]].
          destruct (HT t T1 T3) as [r' [Lr Sr]]. exists r'. rewrite En, FA, <- T2. auto.
      - intro Hl. rewrite LvA in Hl. destruct (HS Hl) as [r' [L2 [A2 I2]]]. exists r'. rewrite FA, LA. auto.
      - intros n r' Lr. rewrite FA in Lr. eapply HA; exact Lr. }
    pose proof (timer_fire_mono sA t' HIA) as TF. rewrite <- E in TF. cbn [fst] in TF. apply TF.
    destruct HB as [C1 C2]. split; [rewrite LA; exact C1 | intros n r' Lr; rewrite FA in Lr; eapply C2; exact Lr].
  - subst s' name. destruct HB as [C1 C2].
    assert (Lf : leaving s = false) by (rewrite Hfixed in FL; exact FL).
    destruct (HS Lf) as [r' [L2 [A2 I2]]]. rewrite L in L2. inversion L2; subst r'.
    apply refute_mono; auto.
  - apply mono_frame with (name := name); [exact F|]. intros r0 L0. rewrite L in L0. inversion L0; subst r0.
    eexists. split; [exact L'|]. unfold key_le. cbn [rinc rst]. rewrite A.
    destruct (N.eq_dec (rinc r) inc) as [E|N1]; [right; split; [exact E | cbn; lia] | left; lia].
Qed.

(* the one permitted regression: a different address reclaiming a left / long-dead name *)
Definition reclaim_step (s s' : nstate) (name addr : N) : Prop :=
  exists r r', lk s name = Some r /\ lk s' name = Some r' /\ raddr r <> addr /\ raddr r' = addr
               /\ is_allowed c addr = true /\ can_replace c s r = true.

Lemma do_alive_mono s inc name addr meta vsn b :
  Inv c s -> claim_ok s inc -> alive_wf c s inc name b ->
  let s' := fst (do_alive c s inc name addr meta vsn b) in
  (forall n r, lk s n = Some r -> n <> name -> lk s' n = Some r) /\
  (forall r, lk s name = Some r ->
     exists r', lk s' name = Some r' /\ (key_le r r' \/ reclaim_step s s' name addr)).
Proof.
  intros HI [B1 B2] WF. pose proof HI as [HT HS HA]. cbv zeta. unfold do_alive.
  assert (Same : forall (s0 : nstate), s0 = s ->
     (forall n r, lk s n = Some r -> n <> name -> lk s0 n = Some r) /\
     (forall r, lk s name = Some r -> exists r', lk s0 name = Some r' /\ (key_le r r' \/ reclaim_step s s0 name addr))).
  { intros s0 ->. split; [auto|]. intros r L. exists r. split; [exact L | left; apply key_le_refl]. }
  destruct (leaving s && N.eqb name (self c)) eqn:LS; [apply Same; reflexivity|].
  destruct (vsn_bad vsn); [apply Same; reflexivity|].
  pose proof (alive_find_spec c s name addr meta vsn) as FS.
  destruct (alive_find c s name addr meta vsn) as [|r|s1 r updates]; [apply Same; reflexivity | apply Same; reflexivity |].
  destruct FS as [L1 [F1 [Li1 [Lv1 [Sc1 [Bq1 [Nw1 [Tm1 Hcase]]]]]]]].
  pose proof (alive_apply_spec c s1 r updates inc name addr meta vsn b) as AS.
  destruct (alive_apply c s1 r updates inc name addr meta vsn b) as [s' evs]. cbn [fst].
  destruct AS as [R [Lv' [Nw' Nn']]].
  (* other names are never touched *)
  assert (Fr : forall n, n <> name -> lk s' n = lk s n).
  { intros n Hn. rewrite <- (F1 n Hn).
    destruct R as [-> _ _ | Es Eb Ei Em -> _ | Es Eb Ge -> _ | D Hb L' Ev Li' Sc' Bq' Tm' F']; auto.
    pose proof (refute_spec c (set_timers s1 (orphan name (timers s1))) r inc) as RS. cbv zeta in RS.
    destruct RS as [_ [R2 _]]. subst name. unfold lk. rewrite R2 by exact Hn. reflexivity. }
  split; [intros n r0 L0 Hn; rewrite Fr by exact Hn; exact L0|].
  intros r0 L0.
  assert (Er : r = r0 /\ s1 = s).
  { destruct Hcase as [[Ls [Es1 _]]|[Ln _]]; [rewrite L0 in Ls; inversion Ls; auto | rewrite L0 in Ln; discriminate]. }
  destruct Er as [-> ->].
  destruct R as [-> _ _ | Es Eb Ei Em -> _ | Es Eb Ge -> _ | D Hb L' Ev Li' Sc' Bq' Tm' F'].
  - exists r0. split; [exact L0 | left; apply key_le_refl].
  - exists r0. split; [exact L0 | left; apply key_le_refl].
  - subst name.
    assert (Lf : leaving s = false) by (rewrite N.eqb_refl, andb_true_r in LS; exact LS).
    destruct (HS Lf) as [r' [L2 [A2 I2]]]. rewrite L0 in L2. inversion L2; subst r'.
    pose proof (refute_mono (set_timers s (orphan (self c) (timers s))) r0 inc L0 I2 B1 B2 (self c) r0 L0) as [r' [Lr Kr]].
    exists r'. split; [exact Lr | left; exact Kr].
  - eexists. split; [exact L'|].
    destruct D as [D|[[Es D]|D]].
    + left. left. cbn. exact D.
    + (* about ourselves: we are running, hence alive *)
      subst name.
      assert (Lf : leaving s = false) by (rewrite N.eqb_refl, andb_true_r in LS; exact LS).
      destruct (HS Lf) as [r' [L2 [A2 I2]]]. rewrite L0 in L2. inversion L2; subst r'.
      left. unfold key_le. cbn [rinc rst]. rewrite A2.
      destruct (N.eq_dec (rinc r0) inc); [right; split; [assumption | cbn; lia] | left; lia].
    + subst updates. right. exists r0. eexists. split; [exact L0|]. split; [exact L'|].
      destruct Hcase as [[_ [_ [[_ Hu]|[Na [Al [Cr _]]]]]]|[Ln _]]; [discriminate | | rewrite L0 in Ln; discriminate].
      cbn [raddr]. auto.
Qed.


(* ------------------------------------------------------------------ timers firing in sequence *)
Lemma fire_due_mono fuel : forall target s evs, GInv c s -> mono s (fst (fire_due fuel c target s evs)).
Proof.
  induction fuel as [|fuel IH]; intros target s evs G; cbn [fire_due].
  - cbn [fst]. apply mono_same_lk. intro; reflexivity.
  - destruct (earliest_due target (timers s)) as [t|]; [|cbn [fst]; apply mono_same_lk; intro; reflexivity].
    set (s1 := set_now (set_timers s (remove_timer t (timers s))) (Z.max (now s) (tdeadline t))).
    assert (G1 : GInv c s1).
    { destruct G as [[HI K] HB]. split; [split|].
      - apply set_now_Inv. apply remove_timer_Inv. exact HI.
      - exact K.
      - exact HB. }
    pose proof (timer_fire_mono s1 t (proj1 (proj1 G1)) (proj2 G1)) as M1.
    pose proof (timer_fire_GInv c s1 t G1) as G2.
    destruct (timer_fire c s1 t) as [s2 e]. cbn [fst] in *.
    eapply mono_trans; [|apply IH; exact G2].
    eapply mono_trans; [|exact M1]. apply mono_same_lk. intro; reflexivity.
Qed.

Lemma wait_bcast_mono w s evs : GInv c s -> mono s (fst (wait_bcast c w (s, evs))).
Proof.
  intro G. unfold wait_bcast. destruct (any_alive_other c s); [apply fire_due_mono; exact G | apply mono_refl].
Qed.

(* ------------------------------------------------------------------ C01: one step never moves a member backwards *)
Definition reapable (s : nstate) (r : rec) : Prop :=
  dead_or_left (rst r) = true /\ gtd c < now s - rsince r.

Theorem step_monotone s o : FInv c s -> op_ok c s o ->
  forall n r, lk s n = Some r ->
    let s' := fst (step c s o) in
    (exists r', lk s' n = Some r' /\
        (key_le r r' \/ (exists addr, reclaim_step s s' n addr /\
                          match o with OAlive _ n' a _ _ _ | OHandleAlive _ _ n' a _ _ | OMerge Alive _ n' a _ _ => n' = n /\ a = addr | _ => False end)))
    \/ (o = OReap /\ lk s' n = None /\ reapable s r /\ n <> self c).
Proof.
  intros [HI K] [HB Hop] n r L. pose proof HB as [B1 B2]. cbv zeta.
  assert (FromMono : forall s', mono s s' -> exists r', lk s' n = Some r' /\
        (key_le r r' \/ (exists addr, reclaim_step s s' n addr /\
                          match o with OAlive _ n' a _ _ _ | OHandleAlive _ _ n' a _ _ | OMerge Alive _ n' a _ _ => n' = n /\ a = addr | _ => False end))).
  { intros s' M. destruct (M n r L) as [r' [L' K']]. exists r'. split; [exact L' | left; exact K']. }
  assert (FromAlive : forall inc name addr meta vsn b, claim_ok s inc -> alive_wf c s inc name b ->
     exists r', lk (fst (do_alive c s inc name addr meta vsn b)) n = Some r' /\
        (key_le r r' \/ (name = n /\ reclaim_step s (fst (do_alive c s inc name addr meta vsn b)) n addr))).
  { intros inc name addr meta vsn b CO WF.
    destruct (do_alive_mono s inc name addr meta vsn b HI CO WF) as [A1 A2].
    destruct (N.eq_dec n name) as [E|N1].
    - subst n. destruct (A2 r L) as [r' [L' [K'|Rc]]]; exists r'; split; auto.
    - exists r. split; [apply A1; assumption | left; apply key_le_refl]. }
  destruct o as [inc name addr meta vsn b | src inc name addr meta vsn | inc name from | inc name from
                | rs inc name addr meta vsn | dt | | | inc | | w | meta w]; cbn [step].
  - left. destruct Hop as [Bi WF]. destruct (FromAlive inc name addr meta vsn b (conj Bi B1) WF) as [r' [L' [K'|[E Rc]]]];
      exists r'; split; auto. right. exists addr. auto.
  - left. destruct (negb (is_allowed c src)); [apply FromMono, mono_refl|].
    destruct (negb (is_allowed c addr)); [apply FromMono, mono_refl|].
    destruct (FromAlive inc name addr meta vsn false (conj Hop B1) ltac:(intro; discriminate)) as [r' [L' [K'|[E Rc]]]];
      exists r'; split; auto. right. exists addr. auto.
  - left. apply FromMono. apply do_suspect_mono; [exact HI | split; assumption | exact HB].
  - left. apply FromMono. apply do_dead_mono; [exact HI | split; assumption].
  - left. unfold do_merge. destruct rs.
    + destruct (FromAlive inc name addr meta vsn false (conj Hop B1) ltac:(intro; discriminate)) as [r' [L' [K'|[E Rc]]]];
        exists r'; split; auto. right. exists addr. auto.
    + apply FromMono. apply do_suspect_mono; [exact HI | split; assumption | exact HB].
    + apply FromMono. apply do_suspect_mono; [exact HI | split; assumption | exact HB].
    + apply FromMono. apply do_dead_mono; [exact HI | split; assumption].
  - left. apply FromMono. apply fire_due_mono. split; [split; assumption | exact HB].
  - (* reaping *)
    unfold do_reap. rewrite Hfixed. cbn [andb fst].
    set (p := fun p0 : N * rec => negb (dead_or_left (rst (snd p0)) && (gtd c <? now s - rsince (snd p0))) || N.eqb (fst p0) (self c)).
    destruct (p (n, r)) eqn:Hp.
    + left. exists r. split; [|left; apply key_le_refl]. unfold lk; cbn [recs]. apply alookup_filter_keep; assumption.
    + right. unfold p in Hp. cbn in Hp. apply orb_false_iff in Hp. destruct Hp as [H1 H2].
      apply negb_false_iff in H1. apply andb_true_iff in H1. destruct H1 as [H1 H3].
      split; [reflexivity|]. split; [|split; [split; [exact H1 | apply Z.ltb_lt; exact H3] | apply N.eqb_neq; exact H2]].
      unfold lk; cbn [recs]. destruct (alookup n (filter p (recs s))) as [r2|] eqn:E; [|reflexivity].
      apply alookup_filter_nodup in E; [|exact K]. destruct E as [E1 E2]. unfold lk in L. rewrite L in E1. inversion E1; subst r2.
      unfold p in E2. cbn in E2. rewrite H1, H2 in E2. cbn in E2.
      apply Z.ltb_lt in H3. destruct (Z.ltb_spec (gtd c) (now s - rsince r)); [discriminate | lia].
  - left. apply FromMono. apply mono_same_lk. intro; reflexivity.
  - left. apply FromMono. apply do_dead_mono; [exact HI | split; assumption].
  - left. apply FromMono. apply mono_same_lk. intro; reflexivity.
  - left. apply FromMono.
    destruct (leaving s) eqn:Lv; [apply mono_refl|].
    fold (lk (set_leaving s) (self c)). destruct (lk (set_leaving s) (self c)) as [r0|] eqn:L0.
    + assert (HB' : all_below (set_leaving s)) by (split; assumption).
      assert (HIl : Inv c (set_leaving s)) by (apply set_leaving_Inv; exact HI).
      assert (G : GInv c (fst (do_dead c (set_leaving s) (rinc r0) (self c) (self c)))).
      { split; [split|].
        * apply do_dead_Inv; [exact HIl | split; [eapply B2; exact L0 | exact B1]].
        * apply do_dead_keys. exact K.
        * apply do_dead_same_inc_below; [exact L0 | right; reflexivity | exact HB']. }
      assert (M1 : mono s (fst (do_dead c (set_leaving s) (rinc r0) (self c) (self c)))).
      { eapply mono_trans; [apply mono_same_lk with (s' := set_leaving s); intro; reflexivity|].
        apply do_dead_mono; [exact HIl | split; [eapply B2; exact L0 | exact B1]]. }
      destruct (do_dead c (set_leaving s) (rinc r0) (self c) (self c)) as [sd ed]. cbn [fst] in *.
      eapply mono_trans; [exact M1 | apply wait_bcast_mono; exact G].
    + rewrite Hfixed. cbn [fst]. apply mono_same_lk. intro; reflexivity.
  - left.
    fold (lk (bump_linc s) (self c)). destruct (lk (bump_linc s) (self c)) as [r0|] eqn:L0;
      [|cbn [fst]; apply FromMono; apply mono_same_lk; intro; reflexivity].
    assert (El : linc (bump_linc s) = (linc s + 1)%N).
    { unfold bump_linc; cbn [linc]. unfold below_max, two32 in *. rewrite N.mod_small by lia. reflexivity. }
    assert (HB' : all_below (bump_linc s)) by (split; [rewrite El; exact Hop | exact B2]).
    assert (HIb : Inv c (bump_linc s)) by (apply bump_linc_Inv; assumption).
    assert (WF : alive_wf c (bump_linc s) (linc (bump_linc s)) (self c) true) by (intros _; split; [reflexivity | lia]).
    assert (CO : claim_ok (bump_linc s) (linc (bump_linc s))) by (split; rewrite El; exact Hop).
    assert (G : GInv c (fst (do_alive c (bump_linc s) (linc (bump_linc s)) (self c) (raddr r0) meta (self_vsn c) true))).
    { split; [split|].
      * apply do_alive_Inv; assumption.
      * apply do_alive_keys. exact K.
      * apply alive_boot_below; [exact HB' | rewrite El; exact Hop]. }
    (* the announcement carries our own current address: never a reclaim *)
    destruct (do_alive_mono (bump_linc s) (linc (bump_linc s)) (self c) (raddr r0) meta (self_vsn c) true HIb CO WF) as [A1 A2].
    assert (M1 : mono s (fst (do_alive c (bump_linc s) (linc (bump_linc s)) (self c) (raddr r0) meta (self_vsn c) true))).
    { intros n0 r1 L1. destruct (N.eq_dec n0 (self c)) as [E|N1].
      - subst n0. assert (r1 = r0) by (unfold lk, bump_linc in *; cbn [recs] in *; congruence). subst r1.
        destruct (A2 r0 L0) as [r' [L' [K'|[ra [rb [La [Lb [Na _]]]]]]]].
        + exists r'. split; assumption.
        + exfalso. rewrite L0 in La. inversion La; subst ra. apply Na. reflexivity.
      - exists r1. split; [apply A1; assumption | apply key_le_refl]. }
    destruct (do_alive c (bump_linc s) (linc (bump_linc s)) (self c) (raddr r0) meta (self_vsn c) true) as [sd ed]. cbn [fst] in *.
    apply FromMono. eapply mono_trans; [exact M1 | apply wait_bcast_mono; exact G].
Qed.


(* ------------------------------------------------------------------ C02: refutation outranks every accusation *)
Definition refutation_of (s s' : nstate) (r : rec) (accused : N) : Prop :=
  (accused < linc s')%N /\ (linc s < linc s')%N
  /\ lk s' (self c) = Some (mkRec (linc s') (rst r) (raddr r) (rmeta r) (rvsn r) (rsince r))
  /\ alookup (kaddr (raddr r)) (bq s') = Some (BAlive (linc s') (self c) (raddr r) (rmeta r) (rvsn r))
  /\ score s' = clamp_score c (score s + 1)
  /\ leaving s' = leaving s.

Lemma refute_effect s r accused :
  below_max accused -> below_max (linc s) -> refutation_of s (refute c s r accused) r accused.
Proof.
  intros B1 B2. pose proof (refute_spec c s r accused) as RS. cbv zeta in RS.
  destruct RS as [R1 [R2 [R3 [R4 [R5 [R6 [R7 [R8 R9]]]]]]]].
  destruct (refute_outranks s accused B1 B2) as [O1 O2].
  unfold refutation_of. rewrite R3. spl; auto.
Qed.

Lemma self_no_live s r : Inv c s -> lk s (self c) = Some r -> rst r = Alive -> no_live (self c) (timers s).
Proof. intros HI L A. eapply TInv_no_live; [apply HI | exact L | rewrite A; discriminate]. Qed.

Theorem suspect_self_refuted s inc from r :
  Inv c s -> leaving s = false -> lk s (self c) = Some r -> rst r = Alive -> (rinc r <= inc)%N ->
  do_suspect c s inc (self c) from = (refute c s r inc, []).
Proof.
  intros HI Lf L A Ge. unfold do_suspect. fold (lk s (self c)). rewrite L.
  destruct (N.ltb_spec inc (rinc r)); [lia|].
  pose proof (self_no_live s r HI L A) as NL. unfold no_live in NL. rewrite NL.
  rewrite A. cbn [st_eqb negb]. rewrite N.eqb_refl, Lf, andb_false_r. reflexivity.
Qed.

Theorem dead_self_refuted s inc from r :
  Inv c s -> leaving s = false -> lk s (self c) = Some r -> rst r = Alive -> (rinc r <= inc)%N ->
  do_dead c s inc (self c) from = (refute c s r inc, []).
Proof.
  intros HI Lf L A Ge. unfold do_dead. fold (lk s (self c)). rewrite L.
  destruct (N.ltb_spec inc (rinc r)); [lia|].
  rewrite (orphan_no_live _ _ (self_no_live s r HI L A)), set_timers_same.
  rewrite A. cbn [dead_or_left]. rewrite N.eqb_refl, Lf. reflexivity.
Qed.

Theorem alive_self_refuted s inc meta vsn r :
  Inv c s -> leaving s = false -> lk s (self c) = Some r -> rst r = Alive -> vsn_bad vsn = false ->
  ((rinc r < inc)%N \/ (inc = rinc r /\ (N.eqb meta (rmeta r) && Nlist_eqb vsn (rvsn r)) = false)) ->
  do_alive c s inc (self c) (raddr r) meta vsn false = (refute c s r inc, []).
Proof.
  intros HI Lf L A Vb D. unfold do_alive, alive_find, alive_apply. fold (lk s (self c)). rewrite L, Lf, Vb.
  cbn [andb]. rewrite !N.eqb_refl. cbn [negb andb].
  rewrite andb_false_r. cbn [andb].
  rewrite (orphan_no_live _ _ (self_no_live s r HI L A)), set_timers_same. rewrite A. cbn [dead_or_left].
  destruct D as [D|[E D]].
  - destruct (N.ltb_spec inc (rinc r)); [lia|]. destruct (N.eqb_spec inc (rinc r)); [lia|]. reflexivity.
  - subst inc. rewrite N.ltb_irrefl, N.eqb_refl. cbn [andb]. rewrite D. reflexivity.
Qed.

(* the running node is listed *)
Lemma lk_members s n r : lk s n = Some r -> dead_or_left (rst r) = false -> In (n, (raddr r, rmeta r)) (members s).
Proof.
  intros L D. unfold members. apply in_map_iff. exists (n, r). split; [reflexivity|].
  apply filter_In. split; [apply alookup_some_in; exact L | cbn; rewrite D; reflexivity].
Qed.

Theorem self_listed ops s : FInv c s -> run_ok c s ops ->
  let s' := fst (run c s ops) in
  leaving s' = false ->
  exists r, lk s' (self c) = Some r /\ rst r = Alive /\ In (self c, (raddr r, rmeta r)) (members s').
Proof.
  intros HI HR. cbv zeta. pose proof (run_FInv c Hfixed ops s HI HR) as [[_ HS _] _]. intro Lf.
  destruct (HS Lf) as [r [L [A _]]]. exists r. split; [exact L|]. split; [exact A|].
  apply lk_members; [exact L | rewrite A; reflexivity].
Qed.


(* ------------------------------------------------------------------ C07: the event stream is a faithful log of Members() *)
Definition view_t := N -> option (N * N).
Definition view (s : nstate) : view_t :=
  fun n => match lk s n with
           | Some r => if dead_or_left (rst r) then None else Some (raddr r, rmeta r)
           | None => None
           end.
Definition upd (v : view_t) (n : N) (x : option (N * N)) : view_t := fun k => if N.eqb k n then x else v k.

(* [ev_ok v evs v']: starting from the member set [v], every event is legal when it is
   delivered (join only of an absent member; leave/update only of a present one; a leave names
   the member as currently listed) and replaying them all yields exactly [v'] *)
Fixpoint ev_ok (v : view_t) (evs : list event) (v' : view_t) : Prop :=
  match evs with
  | [] => forall n, v n = v' n
  | EvJoin n a m :: es => v n = None /\ ev_ok (upd v n (Some (a, m))) es v'
  | EvLeave n a m :: es => v n = Some (a, m) /\ ev_ok (upd v n None) es v'
  | EvUpdate n a m :: es => (exists old, v n = Some old /\ old <> (a, m)) /\ ev_ok (upd v n (Some (a, m))) es v'
  | _ :: es => ev_ok v es v'
  end.

Lemma ev_ok_ext evs : forall v0 v v', (forall n, v0 n = v n) -> ev_ok v evs v' -> ev_ok v0 evs v'.
Proof.
  induction evs as [|e es IH]; intros v0 v v' E H; cbn [ev_ok] in *.
  - intro n. rewrite E. apply H.
  - destruct e as [n a m|n a m|n a m|n a b|]; try (eapply IH; eassumption).
    + destruct H as [H1 H2]. split; [rewrite E; exact H1|]. eapply IH; [|exact H2]. intro k. unfold upd. destruct (N.eqb k n); auto.
    + destruct H as [H1 H2]. split; [rewrite E; exact H1|]. eapply IH; [|exact H2]. intro k. unfold upd. destruct (N.eqb k n); auto.
    + destruct H as [[old [H1 H1']] H2]. split; [exists old; rewrite E; auto|]. eapply IH; [|exact H2]. intro k. unfold upd. destruct (N.eqb k n); auto.
Qed.

Lemma ev_ok_app e1 : forall v v1 e2 v2, ev_ok v e1 v1 -> ev_ok v1 e2 v2 -> ev_ok v (e1 ++ e2) v2.
Proof.
  induction e1 as [|e es IH]; intros v v1 e2 v2 H1 H2; cbn [app].
  - eapply ev_ok_ext; [|exact H2]. exact H1.
  - cbn [ev_ok] in *. destruct e as [n a m|n a m|n a m|n a b|]; try (eapply IH; eassumption);
      destruct H1 as [Ha Hb]; (split; [exact Ha | eapply IH; eassumption]).
Qed.

Lemma ev_ok_nil_same s s' : (forall n, lk s' n = lk s n) -> ev_ok (view s) [] (view s').
Proof. intros H n. unfold view. rewrite H. reflexivity. Qed.

Lemma view_frame s s' name : frame name s s' -> forall n, n <> name -> view s n = view s' n.
Proof. intros F n Hn. unfold view, lk. rewrite F by exact Hn. reflexivity. Qed.

Lemma refute_view s me acc : lk s (self c) = Some me -> forall n, view s n = view (refute c s me acc) n.
Proof.
  intros L n. pose proof (refute_spec c s me acc) as RS. cbv zeta in RS. destruct RS as [R1 [R2 _]].
  destruct (N.eq_dec n (self c)) as [E|N1].
  - subst n. unfold view. rewrite R1, L. reflexivity.
  - apply view_frame with (name := self c); assumption.
Qed.

Lemma do_dead_events s inc name from :
  let '(s', evs) := do_dead c s inc name from in ev_ok (view s) evs (view s').
Proof.
  pose proof (do_dead_spec c s inc name from) as SP.
  destruct (do_dead c s inc name from) as [s' evs].
  destruct SP as [R [F _]].
  destruct R as [Ev Hs' _ | r L Es Lf Ge DL Hs' Ev | r from' L Ge DL Hl Ef L' Ev Li Sc Bq Tm].
  - subst evs. destruct Hs' as [->|[-> _]]; apply ev_ok_nil_same; intro; reflexivity.
  - subst evs s' name. cbn [ev_ok]. intro n.
    rewrite <- (refute_view (set_timers s (orphan (self c) (timers s))) r inc L n). reflexivity.
  - subst evs. cbn [ev_ok]. split.
    + unfold view. rewrite L, DL. reflexivity.
    + intro n. unfold upd. destruct (N.eqb_spec n name) as [E|N1].
      * subst n. unfold view. rewrite L'. cbn [rst]. destruct (N.eqb name from'); reflexivity.
      * apply view_frame with (name := name); assumption.
Qed.

Lemma timer_fire_events s t :
  let '(s', evs) := timer_fire c s t in ev_ok (view s) evs (view s').
Proof.
  unfold timer_fire. destruct (alookup (tname t) (recs s)) as [r|]; [|apply ev_ok_nil_same; intro; reflexivity].
  destruct (st_eqb (rst r) Suspect && Z.eqb (rsince r) (tct t)); [|apply ev_ok_nil_same; intro; reflexivity].
  apply do_dead_events.
Qed.

Lemma do_suspect_events s inc name from :
  let '(s', evs) := do_suspect c s inc name from in ev_ok (view s) evs (view s').
Proof.
  pose proof (do_suspect_spec c s inc name from) as SP.
  destruct (do_suspect c s inc name from) as [s' evs].
  destruct SP as [R [F _]].
  destruct R as [-> -> | r t sA L Ge LT Hk Hm FA NA LA LvA ScA NnA BqA TA Hfire
                | r L Es Ge A LT FL Hs' Ev | r L Ns Ge A LT L' Ev Li Sc Bq _].
  - apply ev_ok_nil_same. intro; reflexivity.
  - destruct Hfire as [[-> ->]|[t' [E _]]]; [apply ev_ok_nil_same; exact FA|].
    pose proof (timer_fire_events sA t') as TF. rewrite <- E in TF.
    eapply ev_ok_ext; [|exact TF]. intro n. unfold view. rewrite FA. reflexivity.
  - subst evs s' name. cbn [ev_ok]. apply refute_view. exact L.
  - subst evs. cbn [ev_ok]. intro n. destruct (N.eq_dec n name) as [E|N1].
    + subst n. unfold view. rewrite L, L', A. reflexivity.
    + apply view_frame with (name := name); assumption.
Qed.

Definition SelfAlive (s : nstate) : Prop :=
  leaving s = false -> exists r, lk s (self c) = Some r /\ rst r = Alive.

Lemma Inv_SelfAlive s : Inv c s -> SelfAlive s.
Proof. intros [_ HS _] Hl. destruct (HS Hl) as [r [L [A _]]]. exists r. auto. Qed.

Lemma do_alive_events s inc name addr meta vsn b :
  SelfAlive s ->
  let '(s', evs) := do_alive c s inc name addr meta vsn b in
  ev_ok (view s) (filter (fun e => match e with EvConflict _ _ _ => false | _ => true end) evs) (view s').
Proof.
  intros HS. unfold do_alive.
  destruct (leaving s && N.eqb name (self c)) eqn:LS; [apply ev_ok_nil_same; intro; reflexivity|].
  destruct (vsn_bad vsn); [apply ev_ok_nil_same; intro; reflexivity|].
  pose proof (alive_find_spec c s name addr meta vsn) as FS.
  destruct (alive_find c s name addr meta vsn) as [|r|s1 r updates];
    [apply ev_ok_nil_same; intro; reflexivity | destruct (has_conflict c); apply ev_ok_nil_same; intro; reflexivity |].
  destruct FS as [L1 [F1 [Li1 [Lv1 [Sc1 [Bq1 [Nw1 [Tm1 Hcase]]]]]]]].
  (* the lookup (with a possible insertion of a Dead record) does not change the member set *)
  assert (V1 : forall n, view s n = view s1 n).
  { intro n. destruct Hcase as [[_ [-> _]]|[Ln [Er _]]]; [reflexivity|].
    destruct (N.eq_dec n name) as [E|N1].
    - subst n. unfold view. rewrite Ln, L1, Er. reflexivity.
    - unfold view. rewrite F1 by exact N1. reflexivity. }
  pose proof (alive_apply_spec c s1 r updates inc name addr meta vsn b) as AS.
  destruct (alive_apply c s1 r updates inc name addr meta vsn b) as [s' evs].
  destruct AS as [R _].
  eapply ev_ok_ext; [exact V1|].
  destruct R as [-> -> _ | Es Eb Ei Em -> -> | Es Eb Ge -> -> | D Hb L' -> Li' Sc' Bq' Tm' F'].
  - apply ev_ok_nil_same. intro; reflexivity.
  - apply ev_ok_nil_same. intro; reflexivity.
  - (* refuted: we are running, hence our record is alive and no event is due *)
    subst name.
    assert (Lf : leaving s = false) by (rewrite N.eqb_refl, andb_true_r in LS; exact LS).
    assert (Ar : rst r = Alive).
    { destruct Hcase as [[Ls _]|[Ln _]].
      - destruct (HS Lf) as [r' [L2 A2]]. rewrite Ls in L2. inversion L2; subst; exact A2.
      - destruct (HS Lf) as [r' [L2 _]]. rewrite Ln in L2. discriminate. }
    rewrite Ar. cbn [dead_or_left filter ev_ok].
    intro n. rewrite <- (refute_view (set_timers s1 (orphan (self c) (timers s1))) r inc L1 n). reflexivity.
  - destruct (dead_or_left (rst r)) eqn:DL; cbn [filter ev_ok].
    + split; [unfold view; rewrite L1, DL; reflexivity|].
      intro n. unfold upd. destruct (N.eqb_spec n name) as [E|N1].
      * subst n. unfold view. rewrite L'. reflexivity.
      * unfold view. rewrite F' by exact N1. reflexivity.
    + (* a listed member: the address cannot change, only the metadata *)
      assert (Ea : raddr r = addr).
      { destruct Hcase as [[Ls [_ [[Ea _]|[_ [_ [Cr _]]]]]]|[_ [Er _]]]; [exact Ea | | rewrite Er in DL; discriminate].
        unfold can_replace in Cr. destruct (rst r); cbn in Cr, DL; discriminate. }
      destruct (N.eqb_spec (rmeta r) meta) as [Em|Nm]; cbn [negb filter ev_ok].
      * intro n. destruct (N.eq_dec n name) as [E|N1].
        -- subst n. unfold view. rewrite L1, L', DL. cbn. rewrite Ea, Em. reflexivity.
        -- unfold view. rewrite F' by exact N1. reflexivity.
      * split.
        -- exists (raddr r, rmeta r). split; [unfold view; rewrite L1, DL; reflexivity|].
           intro E. inversion E. contradiction.
        -- intro n. unfold upd. destruct (N.eqb_spec n name) as [E|N1].
           ++ subst n. unfold view. rewrite L'. reflexivity.
           ++ unfold view. rewrite F' by exact N1. reflexivity.
Qed.

Definition no_conflict (evs : list event) : list event :=
  filter (fun e => match e with EvConflict _ _ _ => false | _ => true end) evs.

Lemma no_conflict_app a b : no_conflict (a ++ b) = no_conflict a ++ no_conflict b.
Proof. unfold no_conflict. apply filter_app. Qed.

Lemma ev_ok_no_conflict evs : forall v v', ev_ok v evs v' <-> ev_ok v (no_conflict evs) v'.
Proof.
  induction evs as [|e es IH]; intros v v'; [reflexivity|].
  destruct e; cbn [no_conflict filter ev_ok]; fold (no_conflict es); try (rewrite IH; reflexivity); apply IH.
Qed.

Lemma fire_due_events fuel : forall target s evs0,
  exists new, snd (fire_due fuel c target s evs0) = evs0 ++ new
              /\ ev_ok (view s) new (view (fst (fire_due fuel c target s evs0))).
Proof.
  induction fuel as [|fuel IH]; intros target s evs0; cbn [fire_due].
  - exists []. rewrite app_nil_r. split; [reflexivity | apply ev_ok_nil_same; intro; reflexivity].
  - destruct (earliest_due target (timers s)) as [t|].
    2:{ exists []. rewrite app_nil_r. split; [reflexivity | apply ev_ok_nil_same; intro; reflexivity]. }
    set (s1 := set_now (set_timers s (remove_timer t (timers s))) (Z.max (now s) (tdeadline t))).
    pose proof (timer_fire_events s1 t) as TF. destruct (timer_fire c s1 t) as [s2 e].
    destruct (IH target s2 (evs0 ++ e)) as [new [E1 E2]].
    exists (e ++ new). rewrite E1, app_assoc. split; [reflexivity|].
    eapply ev_ok_app; [|exact E2]. eapply ev_ok_ext; [|exact TF]. intro; reflexivity.
Qed.

Lemma wait_bcast_events w s evs0 :
  exists new, snd (wait_bcast c w (s, evs0)) = evs0 ++ new
              /\ ev_ok (view s) new (view (fst (wait_bcast c w (s, evs0)))).
Proof.
  unfold wait_bcast. destruct (any_alive_other c s); [apply fire_due_events|].
  exists []. rewrite app_nil_r. split; [reflexivity | apply ev_ok_nil_same; intro; reflexivity].
Qed.

Theorem step_events s o : FInv c s ->
  ev_ok (view s) (no_conflict (snd (step c s o))) (view (fst (step c s o))).
Proof.
  intros [HI K]. pose proof (Inv_SelfAlive s HI) as SA.
  assert (FromPair : forall (se : nstate * list event),
            (let '(s', evs) := se in ev_ok (view s) evs (view s')) ->
            ev_ok (view s) (no_conflict (snd se)) (view (fst se))).
  { intros [s' evs] H. cbn [fst snd]. apply (proj1 (ev_ok_no_conflict _ _ _)). exact H. }
  assert (FromAlive : forall inc name addr meta vsn b,
            ev_ok (view s) (no_conflict (snd (do_alive c s inc name addr meta vsn b))) (view (fst (do_alive c s inc name addr meta vsn b)))).
  { intros. pose proof (do_alive_events s inc name addr meta vsn b SA) as H.
    destruct (do_alive c s inc name addr meta vsn b) as [s' evs]. exact H. }
  destruct o as [inc name addr meta vsn b | src inc name addr meta vsn | inc name from | inc name from
                | rs inc name addr meta vsn | dt | | | inc | | w | meta w]; cbn [step].
  - apply FromAlive.
  - destruct (negb (is_allowed c src)); [apply ev_ok_nil_same; intro; reflexivity|].
    destruct (negb (is_allowed c addr)); [apply ev_ok_nil_same; intro; reflexivity|].
    apply FromAlive.
  - apply FromPair. apply do_suspect_events.
  - apply FromPair. apply do_dead_events.
  - unfold do_merge. destruct rs.
    + apply FromAlive.
    + apply FromPair. apply do_suspect_events.
    + apply FromPair. apply do_suspect_events.
    + apply FromPair. apply do_dead_events.
  - destruct (fire_due_events (S (length (timers s))) (now s + dt) s []) as [new [E1 E2]].
    rewrite E1. cbn [app]. apply (proj1 (ev_ok_no_conflict _ _ _)). exact E2.
  - (* reaping only drops records that are not members *)
    cbn [fst snd no_conflict filter ev_ok]. intro n. unfold view, do_reap, lk; cbn [recs].
    set (p := fun p0 : N * rec => negb (dead_or_left (rst (snd p0)) && (gtd c <? now s - rsince (snd p0))) || fixed c && N.eqb (fst p0) (self c)).
    destruct (alookup n (recs s)) as [r|] eqn:L.
    + destruct (p (n, r)) eqn:Hp.
      * rewrite (alookup_filter_keep p n (recs s) r L Hp). reflexivity.
      * assert (DL : dead_or_left (rst r) = true).
        { unfold p in Hp. cbn in Hp. apply orb_false_iff in Hp. destruct Hp as [H1 _].
          apply negb_false_iff in H1. apply andb_true_iff in H1. tauto. }
        rewrite DL. destruct (alookup n (filter p (recs s))) as [r2|] eqn:E; [|reflexivity].
        apply alookup_filter_nodup in E; [|exact K]. destruct E as [E1 E2]. rewrite L in E1. inversion E1; subst. congruence.
    + destruct (alookup n (filter p (recs s))) as [r2|] eqn:E; [|reflexivity].
      apply alookup_filter_some in E. destruct E as [w E]. congruence.
  - apply ev_ok_nil_same. intro; reflexivity.
  - apply FromPair. apply do_dead_events.
  - apply ev_ok_nil_same. intro; reflexivity.
  - destruct (leaving s); [apply ev_ok_nil_same; intro; reflexivity|].
    fold (lk (set_leaving s) (self c)). destruct (lk (set_leaving s) (self c)) as [r0|].
    + pose proof (do_dead_events (set_leaving s) (rinc r0) (self c) (self c)) as H.
      destruct (do_dead c (set_leaving s) (rinc r0) (self c) (self c)) as [sd ed].
      destruct (wait_bcast_events w sd ed) as [new [E1 E2]]. rewrite E1.
      apply (proj1 (ev_ok_no_conflict _ _ _)). eapply ev_ok_app; [|exact E2].
      eapply ev_ok_ext; [|exact H]. intro; reflexivity.
    + rewrite Hfixed. apply ev_ok_nil_same. intro; reflexivity.
  - fold (lk (bump_linc s) (self c)). destruct (lk (bump_linc s) (self c)) as [r0|].
    2:{ cbn [fst snd no_conflict filter ev_ok]. intro; reflexivity. }
    pose proof (do_alive_events (bump_linc s) (linc (bump_linc s)) (self c) (raddr r0) meta (self_vsn c) true SA) as H.
    destruct (do_alive c (bump_linc s) (linc (bump_linc s)) (self c) (raddr r0) meta (self_vsn c) true) as [sd ed].
    destruct (wait_bcast_events w sd ed) as [new [E1 E2]]. rewrite E1.
    rewrite no_conflict_app. eapply ev_ok_app; [|apply (proj1 (ev_ok_no_conflict _ _ _)); exact E2].
    eapply ev_ok_ext; [|exact H]. intro; reflexivity.
Qed.

(* over whole histories: replaying every event delivered so far gives exactly the member set *)
Theorem run_events ops : forall s, FInv c s -> run_ok c s ops ->
  ev_ok (view s) (no_conflict (concat (snd (run c s ops)))) (view (fst (run c s ops))).
Proof.
  induction ops as [|o ops IH]; intros s HI HR; cbn [run].
  - cbn. intro; reflexivity.
  - destruct HR as [Ho HR]. pose proof (step_events s o HI) as H1. pose proof (step_FInv c Hfixed s o HI Ho) as HI1.
    destruct (step c s o) as [s1 e]. cbn [fst snd] in *. specialize (IH s1 HI1 HR).
    destruct (run c s1 ops) as [s2 es]. cbn [fst snd concat] in *. rewrite no_conflict_app.
    eapply ev_ok_app; eassumption.
Qed.

(* Members() is the list form of the view *)
Lemma members_view s n a m : keys_ok s -> (In (n, (a, m)) (members s) <-> view s n = Some (a, m)).
Proof.
  intro K. unfold members, view. split.
  - intro H. apply in_map_iff in H. destruct H as [[k r] [E Hin]]. apply filter_In in Hin. destruct Hin as [Hin Hd].
    cbn in E, Hd. inversion E; subst. unfold lk. rewrite (in_alookup_nodup _ _ _ K Hin).
    apply negb_true_iff in Hd. rewrite Hd. reflexivity.
  - intro H. destruct (lk s n) as [r|] eqn:L; [|discriminate]. destruct (dead_or_left (rst r)) eqn:D; [discriminate|].
    inversion H; subst. apply lk_members; assumption.
Qed.


(* ------------------------------------------------------------------ C18: events only ever announce allowed addresses *)
Definition ev_allowed (e : event) : Prop :=
  match e with
  | EvJoin _ a _ | EvLeave _ a _ | EvUpdate _ a _ => is_allowed c a = true
  | _ => True
  end.

Lemma do_dead_ev_allowed s inc name from : AllowedInv c s -> Forall ev_allowed (snd (do_dead c s inc name from)).
Proof.
  intro HA. pose proof (do_dead_spec c s inc name from) as SP.
  destruct (do_dead c s inc name from) as [s' evs]. cbn [snd]. destruct SP as [R _].
  destruct R as [-> _ _ | r L Es Lf Ge DL Hs' -> | r from' L Ge DL Hl Ef L' -> Li Sc Bq Tm]; try constructor; [|constructor].
  cbn. eapply HA. exact L.
Qed.

Lemma timer_fire_ev_allowed s t : AllowedInv c s -> Forall ev_allowed (snd (timer_fire c s t)).
Proof.
  intro HA. unfold timer_fire. destruct (alookup (tname t) (recs s)) as [r|]; [|constructor].
  destruct (st_eqb (rst r) Suspect && Z.eqb (rsince r) (tct t)); [|constructor]. apply do_dead_ev_allowed. exact HA.
Qed.

Lemma do_suspect_ev_allowed s inc name from : AllowedInv c s -> Forall ev_allowed (snd (do_suspect c s inc name from)).
Proof.
  intro HA. pose proof (do_suspect_spec c s inc name from) as SP.
  destruct (do_suspect c s inc name from) as [s' evs]. cbn [snd]. destruct SP as [R _].
  destruct R as [_ -> | r t sA L Ge LT Hk Hm FA NA LA LvA ScA NnA BqA TA Hfire
                | r L Es Ge A LT FL Hs' -> | r L Ns Ge A LT L' -> Li Sc Bq _]; try constructor.
  destruct Hfire as [[_ ->]|[t' [E _]]]; [constructor|].
  assert (HAA : AllowedInv c sA) by (intros n r' Lr; rewrite FA in Lr; eapply HA; exact Lr).
  pose proof (timer_fire_ev_allowed sA t' HAA) as TF. rewrite <- E in TF. exact TF.
Qed.

Lemma do_alive_ev_allowed s inc name addr meta vsn b : AllowedInv c s -> Forall ev_allowed (snd (do_alive c s inc name addr meta vsn b)).
Proof.
  intro HA. unfold do_alive.
  destruct (leaving s && N.eqb name (self c)); [constructor|].
  destruct (vsn_bad vsn); [constructor|].
  pose proof (alive_find_spec c s name addr meta vsn) as FS.
  destruct (alive_find c s name addr meta vsn) as [|r|s1 r updates]; [constructor | destruct (has_conflict c); repeat constructor |].
  destruct FS as [L1 [F1 [Li1 [Lv1 [Sc1 [Bq1 [Nw1 [Tm1 Hcase]]]]]]]].
  assert (Al : is_allowed c addr = true /\ is_allowed c (raddr r) = true).
  { destruct Hcase as [[Ls [_ [[Ea _]|[_ [Al _]]]]]|[_ [Er [_ [Al _]]]]].
    - split; [rewrite <- Ea|]; eapply HA; exact Ls.
    - split; [exact Al | eapply HA; exact Ls].
    - split; [exact Al | rewrite Er; exact Al]. }
  destruct Al as [Al1 Al2].
  pose proof (alive_apply_spec c s1 r updates inc name addr meta vsn b) as AS.
  destruct (alive_apply c s1 r updates inc name addr meta vsn b) as [s' evs]. cbn [snd].
  destruct AS as [R _].
  destruct R as [_ -> _ | Es Eb Ei Em _ -> | Es Eb Ge _ -> | D Hb L' -> Li' Sc' Bq' Tm' F']; try constructor.
  - destruct (dead_or_left (rst r)); repeat constructor. exact Al2.
  - destruct (dead_or_left (rst r)); [repeat constructor; exact Al1|].
    destruct (negb (N.eqb (rmeta r) meta)); repeat constructor. exact Al1.
Qed.

Lemma fire_due_ev_allowed fuel : forall target s evs0, GInv c s -> Forall ev_allowed evs0 ->
  Forall ev_allowed (snd (fire_due fuel c target s evs0)).
Proof.
  induction fuel as [|fuel IH]; intros target s evs0 G H0; cbn [fire_due]; [exact H0|].
  destruct (earliest_due target (timers s)) as [t|]; [|exact H0].
  set (s1 := set_now (set_timers s (remove_timer t (timers s))) (Z.max (now s) (tdeadline t))).
  assert (G1 : GInv c s1).
  { destruct G as [[HI K] HB]. split; [split|]; [apply set_now_Inv, remove_timer_Inv; exact HI | exact K | exact HB]. }
  pose proof (timer_fire_ev_allowed s1 t (inv_allowed _ _ (proj1 (proj1 G1)))) as E1.
  pose proof (timer_fire_GInv c s1 t G1) as G2.
  destruct (timer_fire c s1 t) as [s2 e]. cbn [fst snd] in *. apply IH; [exact G2|].
  apply Forall_app. split; assumption.
Qed.

Theorem step_ev_allowed s o : FInv c s -> op_ok c s o -> Forall ev_allowed (snd (step c s o)).
Proof.
  intros [HI K] [HB Hop]. pose proof (inv_allowed _ _ HI) as HA. pose proof HB as [B1 B2].
  destruct o as [inc name addr meta vsn b | src inc name addr meta vsn | inc name from | inc name from
                | rs inc name addr meta vsn | dt | | | inc | | w | meta w]; cbn [step]; try (cbn [snd]; constructor).
  - apply do_alive_ev_allowed. exact HA.
  - destruct (negb (is_allowed c src)); [constructor|]. destruct (negb (is_allowed c addr)); [constructor|].
    apply do_alive_ev_allowed. exact HA.
  - apply do_suspect_ev_allowed. exact HA.
  - apply do_dead_ev_allowed. exact HA.
  - unfold do_merge. destruct rs; [apply do_alive_ev_allowed | apply do_suspect_ev_allowed | apply do_suspect_ev_allowed | apply do_dead_ev_allowed]; exact HA.
  - apply fire_due_ev_allowed; [split; [split; assumption | exact HB] | constructor].
  - apply do_dead_ev_allowed. exact HA.
  - destruct (leaving s) eqn:Lv; [constructor|].
    fold (lk (set_leaving s) (self c)). destruct (lk (set_leaving s) (self c)) as [r0|] eqn:L0.
    + assert (HB' : all_below (set_leaving s)) by (split; assumption).
      assert (HIl : Inv c (set_leaving s)) by (apply set_leaving_Inv; exact HI).
      assert (G : GInv c (fst (do_dead c (set_leaving s) (rinc r0) (self c) (self c)))).
      { split; [split|].
        * apply do_dead_Inv; [exact HIl | split; [eapply B2; exact L0 | exact B1]].
        * apply do_dead_keys. exact K.
        * apply do_dead_same_inc_below; [exact L0 | right; reflexivity | exact HB']. }
      pose proof (do_dead_ev_allowed (set_leaving s) (rinc r0) (self c) (self c) HA) as E0.
      destruct (do_dead c (set_leaving s) (rinc r0) (self c) (self c)) as [sd ed]. cbn [fst snd] in *.
      unfold wait_bcast. destruct (any_alive_other c sd); [apply fire_due_ev_allowed; assumption | exact E0].
    + rewrite Hfixed. constructor.
  - fold (lk (bump_linc s) (self c)). destruct (lk (bump_linc s) (self c)) as [r0|] eqn:L0; [|cbn [snd]; repeat constructor].
    assert (El : linc (bump_linc s) = (linc s + 1)%N).
    { unfold bump_linc; cbn [linc]. unfold below_max, two32 in *. rewrite N.mod_small by lia. reflexivity. }
    assert (HB' : all_below (bump_linc s)) by (split; [rewrite El; exact Hop | exact B2]).
    assert (HIb : Inv c (bump_linc s)) by (apply bump_linc_Inv; assumption).
    assert (WF : alive_wf c (bump_linc s) (linc (bump_linc s)) (self c) true) by (intros _; split; [reflexivity | lia]).
    assert (CO : claim_ok (bump_linc s) (linc (bump_linc s))) by (split; rewrite El; exact Hop).
    assert (G : GInv c (fst (do_alive c (bump_linc s) (linc (bump_linc s)) (self c) (raddr r0) meta (self_vsn c) true))).
    { split; [split|].
      * apply do_alive_Inv; assumption.
      * apply do_alive_keys. exact K.
      * apply alive_boot_below; [exact HB' | rewrite El; exact Hop]. }
    pose proof (do_alive_ev_allowed (bump_linc s) (linc (bump_linc s)) (self c) (raddr r0) meta (self_vsn c) true HA) as E0.
    destruct (do_alive c (bump_linc s) (linc (bump_linc s)) (self c) (raddr r0) meta (self_vsn c) true) as [sd ed]. cbn [fst snd] in *.
    unfold wait_bcast. destruct (any_alive_other c sd); [apply fire_due_ev_allowed; assumption | exact E0].
Qed.

(* alive gossip from a disallowed source, or claiming a disallowed address, is ignored entirely *)
Theorem handle_alive_gate s src inc name addr meta vsn :
  is_allowed c src = false \/ is_allowed c addr = false ->
  step c s (OHandleAlive src inc name addr meta vsn) = (s, []).
Proof.
  intros [H|H]; cbn [step]; rewrite H; cbn [negb]; [reflexivity|]. destruct (negb (is_allowed c src)); reflexivity.
Qed.

(* ------------------------------------------------------------------ C08 *)
(* a member recorded as left stays left under every claim that is not a strictly newer alive
   (or an alive from another address, which may reuse the name) *)
Theorem left_absorbing_alive s inc name meta vsn b r :
  lk s name = Some r -> rst r = Left -> (inc <= rinc r)%N -> name <> self c ->
  do_alive c s inc name (raddr r) meta vsn b = (s, []).
Proof. intros L _ Hi Hn. eapply alive_stale_other; eauto. Qed.

Theorem left_absorbing_suspect s inc name from r :
  Inv c s -> lk s name = Some r -> rst r = Left -> do_suspect c s inc name from = (s, []).
Proof.
  intros HI L A. apply suspect_stale.
  - left. eapply TInv_no_live; [apply HI | exact L | rewrite A; discriminate].
  - unfold lk in L. rewrite L. right. right. exact A.
Qed.

Theorem left_absorbing_dead s inc name from r :
  Inv c s -> lk s name = Some r -> rst r = Left -> do_dead c s inc name from = (s, []).
Proof.
  intros HI L A. apply dead_stale.
  - left. eapply TInv_no_live; [apply HI | exact L | rewrite A; discriminate].
  - unfold lk in L. rewrite L. right. right. exact A.
Qed.

(* the leaver itself: once leaving, every claim about itself is dropped or is its departure *)
Theorem leaving_alive_dropped s inc addr meta vsn b :
  leaving s = true -> do_alive c s inc (self c) addr meta vsn b = (s, []).
Proof. intro H. unfold do_alive. rewrite H, N.eqb_refl. reflexivity. Qed.

Theorem leaving_suspect_dropped s inc from r :
  Inv c s -> leaving s = true -> lk s (self c) = Some r -> rst r <> Suspect ->
  do_suspect c s inc (self c) from = (s, []).
Proof.
  intros HI Lv L A. unfold do_suspect. fold (lk s (self c)). rewrite L.
  destruct (inc <? rinc r)%N; [reflexivity|].
  assert (NL : no_live (self c) (timers s)) by (eapply TInv_no_live; [apply HI | exact L | exact A]).
  unfold no_live in NL. rewrite NL.
  destruct (negb (st_eqb (rst r) Alive)); [reflexivity|]. rewrite N.eqb_refl, Hfixed, Lv. reflexivity.
Qed.

(* whoever signed it, a dead claim about a leaving node that it accepts is announced and recorded
   as the node's own departure *)
Theorem leaving_dead_is_departure s inc from r :
  Inv c s -> leaving s = true -> lk s (self c) = Some r -> dead_or_left (rst r) = false -> (rinc r <= inc)%N ->
  let '(s', evs) := do_dead c s inc (self c) from in
  lk s' (self c) = Some (mkRec inc Left (raddr r) (rmeta r) (rvsn r) (now s))
  /\ alookup (kname (self c)) (bq s') = Some (BDead inc (self c) (self c))
  /\ evs = [EvLeave (self c) (raddr r) (rmeta r)].
Proof.
  intros HI Lv L DL Ge. unfold do_dead. fold (lk s (self c)). rewrite L.
  destruct (N.ltb_spec inc (rinc r)); [lia|]. rewrite DL, N.eqb_refl, Lv, Hfixed. cbn [negb andb].
  rewrite N.eqb_refl. spl.
  - rewrite lk_set_rec_same. reflexivity.
  - unfold set_rec, set_bq; cbn [bq]. apply alookup_aset_same.
  - reflexivity.
Qed.

(* a peer that lists x and does not remember a newer incarnation records the departure as "left" *)
Theorem peer_records_left s inc name r :
  name <> self c -> lk s name = Some r -> dead_or_left (rst r) = false -> (rinc r <= inc)%N ->
  let '(s', evs) := do_dead c s inc name name in
  lk s' name = Some (mkRec inc Left (raddr r) (rmeta r) (rvsn r) (now s))
  /\ evs = [EvLeave name (raddr r) (rmeta r)].
Proof.
  intros Hn L DL Ge. unfold do_dead. fold (lk s name). rewrite L.
  destruct (N.ltb_spec inc (rinc r)); [lia|]. rewrite DL.
  destruct (N.eqb_spec name (self c)); [contradiction|]. cbn [andb].
  rewrite N.eqb_refl. split; [rewrite lk_set_rec_same; reflexivity | reflexivity].
Qed.

(* name reuse: immediately after a graceful leave, after a failure only once the reclaim time elapsed *)
Theorem reclaim_accepted s inc name addr meta vsn r :
  name <> self c -> vsn_bad vsn = false -> lk s name = Some r -> raddr r <> addr -> is_allowed c addr = true ->
  can_replace c s r = true ->
  let '(s', evs) := do_alive c s inc name addr meta vsn false in
  lk s' name = Some (mkRec inc Alive addr meta (if (6 <=? length vsn)%nat then firstn 6 vsn else rvsn r) (now s))
  /\ evs = [EvJoin name addr meta].
Proof.
  intros Hn Vb L Na Al Cr. unfold do_alive, alive_find, alive_apply. fold (lk s name). rewrite L, Vb.
  destruct (N.eqb_spec name (self c)); [contradiction|]. rewrite andb_false_r.
  destruct (N.eqb_spec (raddr r) addr); [contradiction|]. rewrite Al, Cr.
  cbn [negb andb]. rewrite !andb_false_r. cbn [andb].
  assert (DL : dead_or_left (rst r) = true /\ st_eqb (rst r) Alive = false).
  { unfold can_replace in Cr. destruct (rst r); cbn in *; try discriminate; auto. }
  destruct DL as [D1 D2]. rewrite D1, D2. split; [rewrite lk_set_rec_same; reflexivity | reflexivity].
Qed.

End WithCfg.

(* C09: a peer's claim that a third member is dead or suspect (push/pull hearsay) never removes the
   member: it is either ignored or starts a local suspicion; the member stays listed, no event fires *)
Theorem hearsay_keeps_member c s rs inc n addr meta vsn r :
  Inv c s -> lk s n = Some r -> rst r = Alive -> n <> self c -> (rs = Dead \/ rs = Suspect) ->
  let '(s', evs) := do_merge c s rs inc n addr meta vsn in
  evs = [] /\ view s' n = view s n.
Proof.
  intros HI L A Hn Hrs.
  assert (E : do_merge c s rs inc n addr meta vsn = do_suspect c s inc n (self c)) by (destruct Hrs; subst; reflexivity).
  rewrite E. pose proof (do_suspect_spec c s inc n (self c)) as SP.
  destruct (do_suspect c s inc n (self c)) as [s' evs]. destruct SP as [R _].
  assert (NL : live_timer n (timers s) = None).
  { eapply TInv_no_live; [apply HI | exact L | rewrite A; discriminate]. }
  destruct R as [-> -> | r0 t sA L0 Ge LT _ _ _ _ _ _ _ _ _ _ _
                | r0 L0 Es _ _ _ _ _ _ | r0 L0 Ns Ge A0 LT L' Ev _ _ _ _].
  - split; reflexivity.
  - congruence.
  - contradiction.
  - split; [exact Ev|]. unfold view. rewrite L', L. rewrite L in L0. inversion L0; subst r0. rewrite A. reflexivity.
Qed.

(* a concrete configuration used by the non-vacuity examples (SuspicionMult 4, 1 s probe interval) *)
Definition cfg_ex : cfg :=
  mkCfg 0 0 [1;5;2;0;0;0]%N 0 30000000000 2 4000000000 6 [24000000000;11381000000;4000000000]%Z 8 true false [] true.
