(* Wire_proofs.v — packet-path theorems behind C11, C12, C13, C14, C15, C16. *)
From Coq Require Import List NArith ZArith Bool Lia.
Import ListNotations.
From Coq Require Import ZifyBool ZifyNat ZifyN.
From VF Require Import Base Label Label_proofs Wire.
Local Open Scope N_scope.
Ltac Zify.zify_post_hook ::= Z.div_mod_to_equations.

(* ------------------------------------------------------------------ compound codec *)
Lemma rd16_be16 l : l < 65536 -> match be16 l with [a; b] => rd16 a b = l | _ => False end.
Proof.
  intro H. unfold be16, rd16. rewrite (N.mod_small (l / 256) 256).
  - pose proof (N.div_mod l 256 ltac:(lia)). lia.
  - apply N.div_lt_upper_bound; lia.
Qed.

Lemma read_lengths_ok : forall (lens : list N) rest,
  Forall (fun l => l < 65536) lens ->
  read_lengths (length lens) (flat_map be16 lens ++ rest) = lens.
Proof.
  induction lens as [|l lens IH]; intros rest HF; [reflexivity|].
  inversion HF; subst. cbn [length flat_map]. pose proof (rd16_be16 l H1) as R. unfold be16 in *. cbn [app read_lengths].
  rewrite R. f_equal. apply IH. assumption.
Qed.

Lemma flat_map_be16_length (lens : list N) : length (flat_map be16 lens) = (2 * length lens)%nat.
Proof. induction lens as [|l lens IH]; cbn; [reflexivity|]. rewrite IH. lia. Qed.

Lemma split_parts_ok : forall msgs : list bytes,
  split_parts (map blen msgs) (concat msgs) = (O, msgs).
Proof.
  induction msgs as [|m msgs IH]; [reflexivity|]. cbn [map concat split_parts].
  assert (Eb : N.to_nat (blen m) = length m) by (unfold blen; apply Nat2N.id). rewrite !Eb.
  assert (E : (length (m ++ concat msgs) <? length m)%nat = false) by (apply Nat.ltb_ge; rewrite app_length; lia).
  rewrite E. rewrite skipn_app_exact, IH, firstn_app_exact. reflexivity.
Qed.

Definition small_parts (msgs : list bytes) : Prop := Forall (fun m => blen m < 65536) msgs.

(* C11: a compound of at most 255 parts, each shorter than 64 KiB, decodes to exactly those parts *)
Theorem compound_roundtrip msgs : (length msgs <= 255)%nat -> small_parts msgs ->
  match make_compound msgs with
  | t :: body => t = t_compound /\ decode_compound body = Ok (O, msgs)
  | [] => False
  end.
Proof.
  intros Hn Hs. unfold make_compound. split; [reflexivity|]. unfold decode_compound.
  assert (Ek : N.to_nat (N.of_nat (length msgs) mod 256) = length msgs).
  { rewrite N.mod_small by lia. apply Nat2N.id. }
  rewrite Ek.
  assert (El : flat_map (fun m => be16 (blen m mod 65536)) msgs = flat_map be16 (map blen msgs)).
  { clear - Hs. induction msgs as [|m msgs IH]; [reflexivity|]. inversion Hs; subst. cbn [flat_map map].
    rewrite N.mod_small by assumption. f_equal. apply IH. assumption. }
  rewrite El.
  assert (Len : length (flat_map be16 (map blen msgs)) = (2 * length msgs)%nat) by (rewrite flat_map_be16_length, map_length; reflexivity).
  assert (E1 : (length (flat_map be16 (map blen msgs) ++ concat msgs) <? 2 * length msgs)%nat = false).
  { apply Nat.ltb_ge. rewrite app_length. lia. }
  rewrite E1. f_equal.
  replace (length msgs) with (length (map blen msgs)) at 1 by apply map_length.
  rewrite read_lengths_ok.
  - rewrite <- Len, skipn_app_exact. apply split_parts_ok.
  - clear - Hs. induction msgs; cbn; constructor; inversion Hs; subst; auto.
Qed.

(* the count byte wraps: 300 parts in ONE compound are announced as 44 (the pinned sendMsg did this) *)
Example single_compound_wraps :
  nth 1 (make_compound (repeat [1] 300)) 0 = 44.
Proof. vm_compute. reflexivity. Qed.

(* chunking: the chunks, concatenated, are the input and none exceeds 255 parts *)
Lemma chunk255_spec : forall fuel msgs, (length msgs < fuel)%nat ->
  concat (chunk255 fuel msgs) = msgs /\ Forall (fun c => (length c <= 255)%nat /\ c <> []) (chunk255 fuel msgs).
Proof.
  induction fuel as [|fuel IH]; intros msgs Hf; [lia|]. cbn [chunk255].
  destruct msgs as [|m msgs]; [split; [reflexivity | constructor]|].
  destruct (Nat.ltb_spec 255 (length (m :: msgs))) as [Hl|Hl].
  - destruct (IH (skipn 255 (m :: msgs))) as [I1 I2].
    { rewrite skipn_length. cbn [length] in *. lia. }
    split.
    + cbn [concat]. rewrite I1. apply firstn_skipn.
    + constructor; [|exact I2]. split; [rewrite firstn_length; lia | cbn; discriminate].
  - split; [cbn [concat]; apply app_nil_r|]. constructor; [|constructor]. split; [exact Hl | discriminate].
Qed.

Definition decode_all (pkts : list bytes) : list bytes :=
  flat_map (fun p => match p with
                     | _ :: body => match decode_compound body with Ok (_, parts) => parts | _ => [] end
                     | [] => [] end) pkts.

(* C11: whatever the number of parts, the receiver unpacks exactly the messages that were packed *)
Theorem compounds_roundtrip msgs : small_parts msgs -> decode_all (make_compounds msgs) = msgs.
Proof.
  intro Hs. unfold make_compounds, decode_all.
  destruct (chunk255_spec (S (length msgs)) msgs ltac:(lia)) as [C1 C2].
  revert C1 C2. generalize (chunk255 (S (length msgs)) msgs). intros chunks C1 C2.
  assert (Hsm : Forall small_parts chunks).
  { subst msgs. clear C2. induction chunks as [|c cs IH]; [constructor|]. cbn [concat] in Hs.
    unfold small_parts in Hs. apply Forall_app in Hs. destruct Hs. constructor; [assumption | apply IH; assumption]. }
  rewrite <- C1. clear C1. induction chunks as [|c cs IH]; [reflexivity|].
  inversion C2 as [|? ? [H1 H2] C2']; subst. inversion Hsm; subst.
  cbn [map flat_map concat]. pose proof (compound_roundtrip c H1 H3) as R.
  destruct (make_compound c) as [|t body]; [contradiction|]. destruct R as [_ R]. rewrite R.
  f_equal. apply IH; assumption.
Qed.

(* ------------------------------------------------------------------ small codec facts *)
Lemma rd32_be32 x : x < 4294967296 -> match be32 x with [a; b; c; d] => rd32 a b c d = x | _ => False end.
Proof.
  intro H. unfold be32, rd32.
  pose proof (N.div_mod x 256 ltac:(lia)).
  pose proof (N.div_mod (x / 256) 256 ltac:(lia)).
  pose proof (N.div_mod (x / 256 / 256) 256 ltac:(lia)).
  assert (E2 : x / 65536 = x / 256 / 256) by (rewrite N.div_div by lia; reflexivity).
  assert (E3 : x / 16777216 = x / 256 / 256 / 256) by (rewrite !N.div_div by lia; reflexivity).
  rewrite E2, E3.
  assert (x / 256 / 256 / 256 < 256).
  { apply N.div_lt_upper_bound; [lia|]. apply N.div_lt_upper_bound; [lia|]. apply N.div_lt_upper_bound; lia. }
  rewrite (N.mod_small (x / 256 / 256 / 256) 256) by assumption.
  set (q1 := x / 256) in *. set (q2 := q1 / 256) in *. set (q3 := q2 / 256) in *.
  set (r0 := x mod 256) in *. set (r1 := q1 mod 256) in *. set (r2 := q2 mod 256) in *.
  clear E2 E3. clearbody r0 r1 r2 q3. clearbody q2. clearbody q1. lia.
Qed.

Lemma crc32_bound b : crc32 b < 4294967296.
Proof. unfold crc32. apply N.mod_upper_bound. lia. Qed.

(* PKCS7: what the sender pads, the receiver (raw or validating) strips *)
Lemma pad_amount (b : bytes) : let n := 16 - (blen b mod 16) in 1 <= n <= 16.
Proof. cbv zeta. pose proof (N.mod_upper_bound (blen b) 16 ltac:(lia)) as H. set (r := blen b mod 16) in *. clearbody r. lia. Qed.

Lemma last_app_repeat (b : bytes) x n : (0 < n)%nat -> last (b ++ repeat x n) 0 = x.
Proof.
  intro H. destruct n as [|n]; [lia|]. replace (S n) with (n + 1)%nat by lia. rewrite repeat_app.
  cbn [repeat]. rewrite app_assoc. apply last_last.
Qed.

Lemma unpad_raw_nonempty (l : bytes) : l <> [] ->
  pkcs7_unpad_raw l = if blen l <? last l 0 then Panic else Ok (firstn (length l - N.to_nat (last l 0)) l).
Proof. destruct l; [contradiction | reflexivity]. Qed.
Lemma valid_nonempty (l : bytes) : l <> [] ->
  pkcs7_valid l = (N.eqb (blen l mod 16) 0 && (1 <=? last l 0) && (last l 0 <=? 16) && (last l 0 <=? blen l)
                   && forallb (N.eqb (last l 0)) (skipn (length l - N.to_nat (last l 0)) l)).
Proof. destruct l; [contradiction | reflexivity]. Qed.

Lemma pkcs7_roundtrip (b : bytes) : pkcs7_unpad_raw (pkcs7_pad b) = Ok b /\ pkcs7_valid (pkcs7_pad b) = true.
Proof.
  unfold pkcs7_pad. pose proof (pad_amount b) as Hn. cbv zeta in Hn.
  assert (M : (blen b + (16 - blen b mod 16)) mod 16 = 0).
  { pose proof (N.div_mod (blen b) 16 ltac:(lia)) as DM.
    pose proof (N.mod_upper_bound (blen b) 16 ltac:(lia)) as MB.
    replace (blen b + (16 - blen b mod 16)) with ((blen b / 16 + 1) * 16) by lia.
    apply N.mod_mul. lia. }
  set (n := 16 - blen b mod 16) in *. clearbody n.
  assert (Hlen : length (b ++ repeat n (N.to_nat n)) = (length b + N.to_nat n)%nat) by (rewrite app_length, repeat_length; reflexivity).
  assert (Hlast : last (b ++ repeat n (N.to_nat n)) 0 = n) by (apply last_app_repeat; lia).
  assert (Hne : b ++ repeat n (N.to_nat n) <> []).
  { intro E. apply (f_equal (@length N)) in E. rewrite Hlen in E. cbn [length] in E. lia. }
  assert (Hb : blen (b ++ repeat n (N.to_nat n)) = blen b + n) by (unfold blen; rewrite Hlen; lia).
  split.
  - rewrite unpad_raw_nonempty by exact Hne. rewrite Hlast, Hb, Hlen.
    destruct (N.ltb_spec (blen b + n) n); [lia|].
    f_equal. replace (length b + N.to_nat n - N.to_nat n)%nat with (length b) by lia. apply firstn_app_exact.
  - rewrite valid_nonempty by exact Hne. rewrite Hlast, Hb, Hlen, M.
    replace (length b + N.to_nat n - N.to_nat n)%nat with (length b) by lia. rewrite skipn_app_exact.
    cbn [N.eqb andb].
    destruct (N.leb_spec 1 n); [|lia]. destruct (N.leb_spec n 16); [|lia].
    destruct (N.leb_spec n (blen b + n)); [|lia]. cbn [andb].
    apply forallb_forall. intros y Hy. apply repeat_spec in Hy. subst. apply N.eqb_refl.
Qed.

Lemma pkcs7_pad_length (b : bytes) : (16 <= length (pkcs7_pad b))%nat.
Proof.
  unfold pkcs7_pad. pose proof (pad_amount b) as Hn. cbv zeta in Hn.
  rewrite app_length, repeat_length.
  pose proof (N.div_mod (blen b) 16 ltac:(lia)) as DM. pose proof (N.mod_upper_bound (blen b) 16 ltac:(lia)) as MB.
  unfold blen in *. set (L := length b) in *.
  assert (N.of_nat L + (16 - N.of_nat L mod 16) >= 16) by lia. lia.
Qed.

(* ------------------------------------------------------------------ the packet pipeline *)
Section Pipeline.
Variable seal : N -> bytes -> bytes -> bytes -> bytes.
Variable open : N -> bytes -> bytes -> bytes -> option bytes.
Variable comp : bytes -> bytes.
Variable decomp : bytes -> option bytes.

(* hypotheses about code memberlist does not own (validated on recorded values every run) *)
Hypothesis open_seal : forall k n p ad, open k n (seal k n p ad) ad = Some p.
Hypothesis open_other_key : forall k k' n p ad, k <> k' -> open k' n (seal k n p ad) ad = None.
Hypothesis seal_length : forall k n p ad, length (seal k n p ad) = (length p + 16)%nat.
Hypothesis comp_ok : forall m, exists body, comp m = t_compress :: body /\ decomp body = Some m.

Notation send_packet := (send_packet seal comp).
Notation ingest := (ingest open decomp).
Notation handle_command := (handle_command decomp).
Notation decrypt_payload := (decrypt_payload open).

Lemma try_keys_finds ks k n p ad : In k ks -> try_keys open ks n (seal k n p ad) ad = Some p.
Proof.
  induction ks as [|k0 ks IH]; intro Hin; [destruct Hin|]. cbn [try_keys].
  destruct (N.eq_dec k k0) as [->|Hne]; [rewrite open_seal; reflexivity|].
  rewrite open_other_key by exact Hne. apply IH. destruct Hin as [E|Hin]; [congruence | exact Hin].
Qed.

(* C12/C14 crypto layer: what encryptPayload produced, decryptPayload with a ring holding the key returns *)
Lemma decrypt_encrypt c vsn k nonce m aad :
  length nonce = 12%nat -> (vsn = 0 \/ vsn = 1) -> In k (keys c) ->
  decrypt_payload c (encrypt_payload seal vsn k nonce m aad) aad = Ok m.
Proof.
  intros Hn Hv Hk. unfold decrypt_payload, encrypt_payload.
  set (pl := if N.eqb vsn 0 then pkcs7_pad m else m).
  assert (V1 : (1 <? vsn) = false) by (destruct Hv; subst; reflexivity). rewrite V1.
  assert (Len : blen (vsn :: nonce ++ seal k nonce pl aad) = 1 + 12 + N.of_nat (length pl) + 16).
  { unfold blen. cbn [length]. rewrite app_length, seal_length, Hn. set (L := length pl). clearbody L. lia. }
  assert (Big : (blen (vsn :: nonce ++ seal k nonce pl aad) <? encrypted_length vsn 0) = false).
  { apply N.ltb_ge. rewrite Len. unfold encrypted_length, pl. destruct Hv; subst vsn.
    - change (N.eqb 0 0) with true. change (1 <=? 0) with false. cbv iota.
      pose proof (pkcs7_pad_length m) as PL. set (L := length (pkcs7_pad m)) in *. clearbody L.
      change (0 mod 16) with 0. lia.
    - change (N.eqb 1 0) with false. change (1 <=? 1) with true. cbv iota. set (L := length m). clearbody L. lia. }
  rewrite Big.
  change (skipn 1 (vsn :: nonce ++ seal k nonce pl aad)) with (nonce ++ seal k nonce pl aad).
  assert (E1 : firstn 12 (nonce ++ seal k nonce pl aad) = nonce) by (rewrite <- Hn; apply firstn_app_exact).
  assert (E2 : skipn 12 (nonce ++ seal k nonce pl aad) = seal k nonce pl aad) by (rewrite <- Hn; apply skipn_app_exact).
  change (skipn 13 (vsn :: nonce ++ seal k nonce pl aad)) with (skipn 12 (nonce ++ seal k nonce pl aad)).
  rewrite E1, E2, (try_keys_finds _ _ _ _ _ Hk).
  unfold pl. destruct Hv; subst vsn; cbn [N.eqb].
  - destruct (pkcs7_roundtrip m) as [R1 R2]. rewrite R1, R2. destruct (fixed c); reflexivity.
  - reflexivity.
Qed.

(* compressed messages are transparently unwrapped, one level of dispatch deeper *)
Lemma handle_compressed fuel m : handle_command (S fuel) (comp m) = handle_command fuel m.
Proof.
  destruct (comp_ok m) as [body [E D]]. rewrite E. cbn [Wire.handle_command].
  change (N.eqb t_compress t_compound) with false. change (N.eqb t_compress t_compress) with true. cbn iota.
  rewrite D. reflexivity.
Qed.

(* the message types that may open a packet body *)
Definition msg_start_ok (m : bytes) : Prop :=
  match m with [] => True | t :: _ => t <> t_hascrc /\ t <> has_label_msg end.

Lemma crc_layer fuel m1 : msg_start_ok m1 ->
  forall pm, let m2 := match pm with Some p => if 5 <=? p then t_hascrc :: be32 (crc32 m1) ++ m1 else m1 | None => m1 end in
  (match m2 with
   | t :: c1 :: c2 :: c3 :: c4 :: rest =>
       if N.eqb t t_hascrc then
         if N.eqb (crc32 rest) (rd32 c1 c2 c3 c4) then Ok (handle_command fuel rest) else Ok []
       else Ok (handle_command fuel m2)
   | _ => Ok (handle_command fuel m2)
   end) = Ok (handle_command fuel m1).
Proof.
  intros Hs pm. cbv zeta.
  assert (Plain : (match m1 with
   | t :: c1 :: c2 :: c3 :: c4 :: rest =>
       if N.eqb t t_hascrc then
         if N.eqb (crc32 rest) (rd32 c1 c2 c3 c4) then Ok (handle_command fuel rest) else Ok []
       else Ok (handle_command fuel m1)
   | _ => Ok (handle_command fuel m1)
   end) = Ok (handle_command fuel m1)).
  { destruct m1 as [|t [|c1 [|c2 [|c3 [|c4 rest]]]]]; try reflexivity.
    destruct Hs as [H1 _]. destruct (N.eqb_spec t t_hascrc); [contradiction | reflexivity]. }
  destruct pm as [p|]; [|exact Plain]. destruct (5 <=? p); [|exact Plain].
  pose proof (rd32_be32 (crc32 m1) (crc32_bound m1)) as R. unfold be32 in *. cbn [app].
  rewrite N.eqb_refl, R, N.eqb_refl. reflexivity.
Qed.

Definition label_ok (l : bytes) : Prop := (length l <= 255)%nat.

(* sender and receiver agree on label and keys *)
Definition compatible (cs cr : pcfg) : Prop :=
  plabel cs = plabel cr /\ skip_label cr = false /\ label_ok (plabel cs)
  /\ (encvsn cs = 0 \/ encvsn cs = 1)
  /\ ((enc_on cs && verify_out cs = true /\ In (primary cs) (keys cr))
      \/ (enc_on cs && verify_out cs = false /\ enc_on cr = false)).

(* C12: a peer with a compatible configuration hands exactly the sender's message to its handlers,
   whatever the compression, checksum, encryption version and label settings *)
Theorem packet_roundtrip_pipeline cs cr pm msg nonce fuel :
  compatible cs cr -> length nonce = 12%nat -> msg_start_ok msg ->
  (msg <> [] ) ->
  exists pkt, send_packet cs pm msg nonce = Ok pkt /\
    exists f', (f' = fuel \/ f' = S fuel) /\ ingest (S fuel) cr pkt = Ok (handle_command f' msg)
               /\ (compress_on cs = false -> f' = S fuel).
Proof.
  intros [Hl [Hs [Hlo [Hv Hk]]]] Hn Hm Hne. unfold send_packet, Wire.send_packet.
  (* layer 1: compression *)
  set (m1 := if compress_on cs then let z := comp msg in if (length z <? length msg)%nat then z else msg else msg).
  assert (H1 : exists f', (f' = fuel \/ f' = S fuel) /\ handle_command (S fuel) m1 = handle_command f' msg
                          /\ msg_start_ok m1 /\ (compress_on cs = false -> f' = S fuel)).
  { unfold m1. destruct (compress_on cs).
    - cbv zeta. destruct (Nat.ltb_spec (length (comp msg)) (length msg)).
      + exists fuel. split; [left; reflexivity|]. split; [apply handle_compressed|]. split; [|discriminate].
        destruct (comp_ok msg) as [body [E _]]. rewrite E. cbn. split; discriminate.
      + exists (S fuel). repeat split; auto.
    - exists (S fuel). repeat split; auto. }
  destruct H1 as [f' [Hf [Hh [Hm1 Hnc]]]].
  (* layer 2: checksum *)
  set (m2 := match pm with Some p => if 5 <=? p then t_hascrc :: be32 (crc32 m1) ++ m1 else m1 | None => m1 end).
  pose proof (crc_layer (S fuel) m1 Hm1 pm) as Hcrc. cbv zeta in Hcrc. fold m2 in Hcrc.
  (* layer 3: encryption, layer 4: label *)
  set (m3 := if enc_on cs && verify_out cs then encrypt_payload seal (encvsn cs) (primary cs) nonce m2 (plabel cs) else m2).
  assert (Hm3 : forall b r, m3 = b :: r -> b <> has_label_msg).
  { intros b r E. unfold m3 in E. destruct (enc_on cs && verify_out cs).
    - unfold encrypt_payload in E. inversion E. destruct Hv as [-> | ->]; discriminate.
    - unfold m2 in E. destruct pm as [p|].
      + destruct (5 <=? p); [inversion E; discriminate|]. destruct m1; [discriminate|]. inversion E; subst. apply Hm1.
      + destruct m1; [discriminate|]. inversion E; subst. apply Hm1. }
  assert (Hrl : exists pkt, add_label m3 (plabel cs) = Ok pkt /\ remove_label pkt = Ok (m3, plabel cs)).
  { destruct (plabel cs) as [|l0 ls] eqn:El.
    - exists m3. split; [reflexivity|]. apply no_header_passthrough. exact Hm3.
    - pose proof (packet_roundtrip (l0 :: ls) m3 ltac:(discriminate) Hlo) as R.
      destruct (add_label m3 (l0 :: ls)) as [pkt| |]; try contradiction. exists pkt. auto. }
  destruct Hrl as [pkt [Ha Hr]]. exists pkt. split; [exact Ha|].
  exists f'. split; [exact Hf|]. split; [|exact Hnc].
  unfold ingest, Wire.ingest. rewrite Hr, Hs. cbn [andb]. rewrite <- Hl.
  assert (Eq : list_eqb N.eqb (plabel cs) (plabel cs) = true) by (apply list_eqb_eq; [apply N.eqb_eq | reflexivity]).
  rewrite Eq. cbn [negb].
  destruct Hk as [[He Hin]|[He Hcr]].
  - (* encrypted *)
    assert (Hcr : enc_on cr = true) by (unfold enc_on; destruct (keys cr); [destruct Hin | reflexivity]).
    rewrite Hcr. unfold m3. rewrite He.
    rewrite (decrypt_encrypt cr (encvsn cs) (primary cs) nonce m2 (plabel cs) Hn Hv Hin).
    rewrite Hcrc, Hh. reflexivity.
  - rewrite Hcr. unfold m3. rewrite He. rewrite Hcrc, Hh. reflexivity.
Qed.

End Pipeline.

(* ------------------------------------------------------------------ safety: no assumption on the oracles *)
Section Safety.
Variable open : N -> bytes -> bytes -> bytes -> option bytes.
Variable decomp : bytes -> option bytes.
Notation ingest := (ingest open decomp).
Notation decrypt_payload := (decrypt_payload open).

(* C13: no byte string makes the packet path of the repaired code panic *)
Lemma unpad_valid_no_panic plain : pkcs7_valid plain = true -> pkcs7_unpad_raw plain <> Panic.
Proof.
  intro V. destruct plain as [|x l]; [discriminate|].
  rewrite valid_nonempty in V by discriminate. rewrite unpad_raw_nonempty by discriminate.
  repeat (apply andb_true_iff in V; destruct V as [V ?]).
  match goal with H : (last (x :: l) 0 <=? blen (x :: l)) = true |- _ => apply N.leb_le in H end.
  destruct (N.ltb_spec (blen (x :: l)) (last (x :: l) 0)); [lia | discriminate].
Qed.

Theorem decrypt_no_panic c msg aad : fixed c = true -> decrypt_payload c msg aad <> Panic.
Proof.
  intro Hf. unfold decrypt_payload, Wire.decrypt_payload. rewrite Hf.
  destruct msg as [|vsn rest]; [discriminate|].
  repeat match goal with
         | |- (if ?b then _ else _) <> Panic => destruct b eqn:?
         | |- (match ?x with Some _ => _ | None => _ end) <> Panic => destruct x eqn:?
         end; try discriminate.
  apply unpad_valid_no_panic. assumption.
Qed.

Theorem ingest_no_panic fuel c pkt : fixed c = true -> ingest fuel c pkt <> Panic.
Proof.
  intro Hf. unfold ingest, Wire.ingest.
  destruct (remove_label pkt) as [[buf lab]| |]; try discriminate.
  set (lab' := if skip_label c then plabel c else lab).
  pose proof (decrypt_no_panic c buf lab' Hf) as NP.
  destruct (decrypt_payload c buf lab') as [p|e|]; [| |contradiction];
  repeat (cbn beta iota; match goal with
         | |- (if ?b then _ else _) <> Panic => destruct b eqn:?
         | |- (match (if ?b then _ else _) with Ok _ => _ | Err _ => _ | Panic => _ end) <> Panic => destruct b eqn:?
         | |- (match ?x with [] => _ | _ :: _ => _ end) <> Panic => destruct x eqn:?
         end); try discriminate.
Qed.

(* C16: a packet is acted on only if it carries exactly the node's label (or, when the check is
   delegated, no label header at all) *)
Theorem ingest_label_isolation fuel c pkt ds :
  ingest fuel c pkt = Ok ds -> ds <> [] ->
  exists buf lab, remove_label pkt = Ok (buf, lab) /\
    ((skip_label c = false /\ lab = plabel c) \/ (skip_label c = true /\ lab = [])).
Proof.
  unfold ingest, Wire.ingest. intros H Hne. destruct (remove_label pkt) as [[buf lab]| |]; [| inversion H; subst; contradiction | inversion H; subst; contradiction].
  exists buf, lab. split; [reflexivity|].
  destruct (skip_label c) eqn:Sk; cbn [andb] in H.
  - right. split; [reflexivity|]. destruct lab; [reflexivity|]. cbn in H. inversion H; subst. contradiction.
  - left. split; [reflexivity|].
    destruct (list_eqb N.eqb (plabel c) lab) eqn:E; cbn [negb] in H.
    + symmetry. apply (list_eqb_eq N.eqb N.eqb_eq). exact E.
    + inversion H; subst. contradiction.
Qed.


(* ---- C14: inbound authentication, assuming an ideal AEAD: [open] only succeeds on genuine sealings ---- *)
Variable genuine : N -> bytes -> bytes -> bytes -> bytes -> Prop.   (* key nonce plaintext aad ct||tag *)
Hypothesis open_sound : forall k n ct ad p, open k n ct ad = Some p -> genuine k n p ad ct.

Lemma try_keys_sound ks n ct ad p : try_keys open ks n ct ad = Some p -> exists k, In k ks /\ genuine k n p ad ct.
Proof.
  induction ks as [|k ks IH]; cbn [try_keys]; [discriminate|].
  destruct (open k n ct ad) as [p'|] eqn:E.
  - intro H. inversion H; subst. exists k. split; [left; reflexivity | apply open_sound; exact E].
  - intro H. destruct (IH H) as [k' [Hin G]]. exists k'. split; [right; exact Hin | exact G].
Qed.

(* what decryptPayload accepts is a genuine sealing under an INSTALLED key with the given associated
   data, of exactly the received nonce and ciphertext; the plaintext handed on is that sealing's
   plaintext -- except that the (unauthenticated) version byte decides whether PKCS7 padding is
   stripped from it: the known finding D-C14 *)
Theorem decrypt_accepts_only_genuine c msg aad p :
  decrypt_payload c msg aad = Ok p ->
  exists vsn k p0, hd_error msg = Some vsn /\ (vsn = 0 \/ vsn = 1) /\ In k (keys c)
    /\ genuine k (firstn 12 (skipn 1 msg)) p0 aad (skipn 13 msg)
    /\ ((vsn = 1 /\ p = p0) \/ (vsn = 0 /\ pkcs7_unpad_raw p0 = Ok p /\ (fixed c = true -> pkcs7_valid p0 = true))).
Proof.
  unfold decrypt_payload, Wire.decrypt_payload. destruct msg as [|vsn rest]; [discriminate|].
  destruct (N.ltb_spec 1 vsn) as [Hv|Hv]; [discriminate|].
  destruct (blen (vsn :: rest) <? encrypted_length vsn 0); [discriminate|].
  destruct (try_keys open (keys c) (firstn 12 (skipn 1 (vsn :: rest))) (skipn 13 (vsn :: rest)) aad) as [plain|] eqn:T; [|discriminate].
  destruct (try_keys_sound _ _ _ _ _ T) as [k [Hin G]].
  assert (Hv' : vsn = 0 \/ vsn = 1) by lia.
  intro H. exists vsn, k, plain. split; [reflexivity|]. split; [exact Hv'|]. split; [exact Hin|]. split; [exact G|].
  destruct (N.eqb_spec vsn 0) as [E0|N0].
  - right. split; [exact E0|]. destruct (fixed c).
    + destruct (pkcs7_valid plain) eqn:V; [|discriminate]. split; [exact H | reflexivity].
    + split; [exact H | discriminate].
  - left. split; [lia|]. inversion H. reflexivity.
Qed.

(* with a keyring and incoming verification on, a packet has an effect only through that *)
Theorem ingest_authenticated fuel c pkt ds :
  enc_on c = true -> verify_in c = true -> ingest fuel c pkt = Ok ds -> ds <> [] ->
  exists buf lab p, remove_label pkt = Ok (buf, lab) /\
    decrypt_payload c buf (if skip_label c then plabel c else lab) = Ok p /\
    list_eqb N.eqb (plabel c) (if skip_label c then plabel c else lab) = true.
Proof.
  intros He Hv. unfold ingest, Wire.ingest. intros H Hne.
  destruct (remove_label pkt) as [[buf lab]| |]; [| inversion H; subst; contradiction | inversion H; subst; contradiction].
  destruct (skip_label c && negb match lab with [] => true | _ => false end); [inversion H; subst; contradiction|].
  set (lab' := if skip_label c then plabel c else lab) in *.
  destruct (list_eqb N.eqb (plabel c) lab') eqn:El; cbn [negb] in H; [|inversion H; subst; contradiction].
  rewrite He in H. destruct (decrypt_payload c buf lab') as [p|e|] eqn:D.
  - exists buf, lab, p. auto.
  - rewrite Hv in H. cbn [negb] in H. inversion H; subst. contradiction.
  - discriminate.
Qed.

End Safety.

Section Sealed.
Variable seal : N -> bytes -> bytes -> bytes -> bytes.
Variable comp : bytes -> bytes.
Notation send_packet := (send_packet seal comp).

(* C15: with encryption enforced, what reaches the transport is the cleartext label header followed
   by version, nonce and the AEAD sealing, under the PRIMARY key with the label as associated data,
   of the (padded) payload -- nothing else *)
Theorem packet_sealed c pm msg nonce :
  enc_on c = true -> verify_out c = true -> label_ok (plabel c) ->
  exists body, send_packet c pm msg nonce =
    Ok (label_header (plabel c) ++ encvsn c :: nonce ++
        seal (primary c) nonce (if N.eqb (encvsn c) 0 then pkcs7_pad body else body) (plabel c)).
Proof.
  intros He Hv Hl. unfold send_packet, Wire.send_packet. rewrite He, Hv. cbn [andb].
  eexists. unfold add_label, encrypt_payload, label_header. destruct (plabel c) as [|l0 ls] eqn:E; [reflexivity|].
  assert (Hb : (255 <? blen (l0 :: ls)) = false) by (apply N.ltb_ge; unfold blen, label_ok in *; lia).
  rewrite Hb. cbn [app]. reflexivity.
Qed.

End Sealed.



(* ------------------------------------------------------------------ C11: the packet budget *)
Definition label_overhead (l : bytes) : N := match l with [] => 0 | _ => 2 + blen l end.

(* bytes on the wire for a packet carrying [n] message bytes before encryption (CRC header counted
   in n when present): label header + encryption framing (version, nonce, padding, tag) *)
Definition wire_len (c : pcfg) (n : N) : N :=
  label_overhead (plabel c) + (if enc_on c && verify_out c then encrypted_length (encvsn c) n else n).

Lemma encrypted_length_bound vsn n : (vsn = 0 \/ vsn = 1) -> encrypted_length vsn n <= n + enc_overhead vsn.
Proof.
  intros [-> | ->]; unfold encrypted_length, enc_overhead.
  - change (1 <=? 0) with false. change (N.eqb 0 0) with true. cbv iota.
    pose proof (N.mod_upper_bound n 16 ltac:(lia)). set (r := n mod 16) in *. clearbody r. lia.
  - change (1 <=? 1) with true. change (N.eqb 1 0) with false. cbv iota. lia.
Qed.

Fixpoint parts_size (msgs : list bytes) : N := match msgs with [] => 0 | m :: l => 2 + blen m + parts_size l end.

Lemma compound_length msgs : (length msgs <= 255)%nat ->
  blen (make_compound msgs) = 2 + parts_size msgs.
Proof.
  intros _. unfold make_compound.
  assert (E1 : forall l : list bytes, length (flat_map (fun m => be16 (blen m mod 65536)) l) = (2 * length l)%nat).
  { induction l as [|m l IH]; cbn [flat_map length]; [reflexivity|]. rewrite app_length, IH. cbn. lia. }
  assert (E2 : forall l : list bytes, N.of_nat (length (concat l)) + 2 * N.of_nat (length l) = parts_size l).
  { induction l as [|m l IH]; cbn [concat length parts_size]; [reflexivity|].
    rewrite app_length. unfold blen. lia. }
  unfold blen at 1. cbn [length]. rewrite app_length, E1. specialize (E2 msgs). lia.
Qed.

(* sendMsg (repaired): msg plus the piggy-backed selection, whose sizes the queues guarantee to fit
   [avail] (C10_get_fits with overhead 2), in ONE compound of at most 255 parts *)
Theorem sendmsg_budget c udp msg extra :
  (encvsn c = 0 \/ encvsn c = 1) ->
  let avail := udp - blen msg - 2 - 2 - 5 - label_overhead (plabel c)
               - (if enc_on c && verify_out c then enc_overhead (encvsn c) else 0) in
  blen msg + 2 + 2 + 5 + label_overhead (plabel c) + (if enc_on c && verify_out c then enc_overhead (encvsn c) else 0) <= udp ->
  parts_size extra <= avail -> (length (msg :: extra) <= 255)%nat ->
  wire_len c (5 + blen (make_compound (msg :: extra))) <= udp.
Proof.
  intros Hv avail Hpos Hfit Hn. rewrite compound_length by exact Hn. cbn [parts_size].
  unfold wire_len. destruct (enc_on c && verify_out c).
  - pose proof (encrypted_length_bound (encvsn c) (5 + (2 + (2 + blen msg + parts_size extra))) Hv). unfold avail in Hfit. lia.
  - unfold avail in Hfit. lia.
Qed.

(* gossip (repaired): the selection alone *)
Theorem gossip_budget c udp msgs :
  (encvsn c = 0 \/ encvsn c = 1) ->
  let avail := udp - 2 - 5 - label_overhead (plabel c) - (if enc_on c then enc_overhead (encvsn c) else 0) in
  2 + 5 + label_overhead (plabel c) + (if enc_on c then enc_overhead (encvsn c) else 0) <= udp ->
  parts_size msgs <= avail -> (length msgs <= 255)%nat ->
  wire_len c (5 + blen (make_compound msgs)) <= udp.
Proof.
  intros Hv avail Hpos Hfit Hn. rewrite compound_length by exact Hn.
  unfold wire_len. destruct (enc_on c); cbn [andb].
  - destruct (verify_out c).
    + pose proof (encrypted_length_bound (encvsn c) (5 + (2 + parts_size msgs)) Hv). unfold avail in Hfit. lia.
    + unfold avail in Hfit. lia.
  - unfold avail in Hfit. lia.
Qed.

(* the pinned budget is too small by the first part's 2-byte length slot and the 5-byte CRC header *)
Example sendmsg_budget_pinned_refuted :
  let c := mkP [97;98;99] false [1] true true 1 false false in
  let udp := 1400 in let msg := repeat 0 20 in
  let avail_pinned := udp - blen msg - 2 - label_overhead (plabel c) - enc_overhead 1 in
  let extra := [repeat 0 (N.to_nat (avail_pinned - 2))] in
  parts_size extra <= avail_pinned /\ wire_len c (5 + blen (make_compound (msg :: extra))) = 1407.
Proof. vm_compute. split; [discriminate | reflexivity]. Qed.
