(* Susp_proofs.v — the Lifeguard bounds and confirmation rules of the suspicion timer. *)
From Coq Require Import List NArith ZArith Bool Lia.
Import ListNotations.
From VF Require Import Base Susp.
Local Open Scope Z_scope.

Section WithTable.
Variable T : Z -> Z.
Variables k mn mx : Z.

(* what the float formula must satisfy (validated on the code's own table on every run) *)
Definition T_ok : Prop :=
  mn <= mx /\
  (forall n, 1 <= n <= k -> mn <= T n <= mx) /\
  (forall n m, 1 <= n <= m -> m <= k -> T m <= T n).

Hypothesis HT : T_ok.

(* invariant of a suspicion started at [st] *)
Record SInv (st : Z) (s : susp) : Prop := mkSInv {
  si_k : sk s = k; si_start : sstart s = st;
  si_n0 : 0 <= sn s; si_nk : 1 <= k -> sn s <= k;
  si_lo : st + mn <= sdeadline s; si_hi : sdeadline s <= st + mx;
  si_first : sfired s = false -> sn s = 0 -> 1 <= k -> sdeadline s = st + mx;
  si_T : sfired s = false -> 1 <= sn s -> st + T (sn s) <= sdeadline s;
  si_k0 : k < 1 -> sdeadline s = st + mn /\ sn s = 0 }.

Lemma snew_inv from st : SInv st (snew from k mn mx st).
Proof.
  destruct HT as [H1 _]. unfold snew. split; cbn; try lia; destruct (Z.ltb_spec k 1); try lia; intros; lia.
Qed.

Lemma stick_fields s now :
  sk (stick s now) = sk s /\ sstart (stick s now) = sstart s /\ sn (stick s now) = sn s
  /\ sconfs (stick s now) = sconfs s /\ sdeadline (stick s now) = sdeadline s
  /\ sfired (stick s now) = (sfired s || (sdeadline s <=? now)).
Proof.
  unfold stick. destruct (sfired s) eqn:F; cbn [negb andb orb]; [repeat split; auto|].
  destruct (sdeadline s <=? now); cbn; repeat split; auto.
Qed.

Lemma stick_inv st s now : SInv st s -> SInv st (stick s now).
Proof.
  intros [A B C D E F G H I]. destruct (stick_fields s now) as [F1 [F2 [F3 [F4 [F5 F6]]]]].
  split; rewrite ?F1, ?F2, ?F3, ?F5; auto.
  - rewrite F6. intro X. apply orb_false_iff in X. destruct X as [X _]. auto.
  - rewrite F6. intro X. apply orb_false_iff in X. destruct X as [X _]. auto.
Qed.

(* one confirmation at time [now] *)
Lemma sconfirm_spec st s from now :
  SInv st s -> st <= now ->
  let '(s', b) := sconfirm T s from now in
  SInv st s'
  /\ sdeadline s' <= sdeadline s                                  (* only ever shortens *)
  /\ (sfired (stick s now) = true -> sdeadline s' = sdeadline s)  (* nothing moves after firing *)
  /\ (b = true -> Nmem from (sconfs s) = false /\ sn s < k /\ sn s' = sn s + 1 /\ sconfs s' = from :: sconfs s)
  /\ (b = false -> sn s' = sn s /\ sconfs s' = sconfs s /\ sdeadline s' = sdeadline s)
  /\ (b = true -> sfired (stick s now) = false ->
        sdeadline s' = Z.max now (st + T (sn s + 1)) /\ sfired s' = (st + T (sn s + 1) <=? now)).
Proof.
  intros H Hnow. pose proof (stick_inv st s now H) as H1.
  destruct (stick_fields s now) as [F1 [F2 [F3 [F4 [F5 F6]]]]].
  unfold sconfirm. set (s1 := stick s now) in *.
  destruct H1 as [A B C D E F G I J].
  destruct (Z.leb_spec (sk s1) (sn s1)) as [Hk|Hk].
  { split; [split; auto|]. repeat split; try lia; try congruence; intro; discriminate. }
  destruct (Nmem from (sconfs s1)) eqn:Hm.
  { split; [split; auto|]. repeat split; try lia; try congruence; intro; discriminate. }
  destruct HT as [T1 [T2 T3]].
  assert (K1 : 1 <= k) by lia.
  assert (Hn' : 1 <= sn s1 + 1 <= k) by lia.
  pose proof (T2 _ Hn') as TB.
  assert (Hpend : sfired s1 = false -> now < sdeadline s1).
  { intro X. rewrite F6 in X. apply orb_false_iff in X. destruct X as [_ X]. rewrite F5. apply Z.leb_gt in X. exact X. }
  destruct (sfired s1) eqn:Fd; cbn [orb].
  - (* already fired: the deadline is history *)
    split; [split; cbn; auto; try lia; intro; discriminate|].
    cbn. repeat split; try lia; try congruence; try (intro; discriminate); try (rewrite <- F4; exact Hm).
  - (* still pending: now < deadline *)
    assert (Hlt : now < sdeadline s1) by (apply Hpend; reflexivity).
    assert (Old : st + T (sn s1 + 1) <= sdeadline s1).
    { destruct (Z.eq_dec (sn s1) 0) as [Z0|NZ].
      - rewrite (G eq_refl Z0 K1). lia.
      - assert (1 <= sn s1) by lia. specialize (I eq_refl H0).
        assert (T (sn s1 + 1) <= T (sn s1)) by (apply T3; lia). lia. }
    destruct (Z.ltb_spec 0 (T (sn s1 + 1) - (now - sstart s1))) as [Hr|Hr]; cbn [negb].
    + (* the timer is reset to start + T(n+1) *)
      assert (Eq : now + (T (sn s1 + 1) - (now - sstart s1)) = st + T (sn s1 + 1)) by lia.
      split; [split; cbn; auto; try lia; try (rewrite Eq; lia); try (intros; rewrite ?Eq; lia)|].
      cbn. rewrite Eq. repeat split; try lia; try congruence; try (intro; discriminate);
          try (rewrite <- F4; exact Hm); try (rewrite <- F3; lia);
          try (rewrite <- F3; symmetry; apply Z.leb_gt; lia).
    + (* no time left: fires at once *)
      split; [split; cbn; auto; try lia; intro; discriminate|].
      cbn. repeat split; try lia; try congruence; try (intro; discriminate);
        try (rewrite <- F4; exact Hm); try (rewrite <- F3; lia);
        try (rewrite <- F3; symmetry; apply Z.leb_le; lia).
Qed.

(* a timed sequence of confirmations with non-decreasing times *)
Fixpoint times_ok (t0 : Z) (cs : list (N * Z)) : Prop :=
  match cs with [] => True | (_, t) :: cs' => t0 <= t /\ times_ok t cs' end.

(* C06_bounds + C06_only_shortens over every schedule: the deadline stays inside
   [start+min, start+max] and never moves later *)
Theorem srun_bounds : forall cs st s t0, SInv st s -> st <= t0 -> times_ok t0 cs ->
  let s' := fst (srun T s cs) in
  SInv st s' /\ st + mn <= sdeadline s' <= st + mx /\ sdeadline s' <= sdeadline s.
Proof.
  induction cs as [|[from t] cs IH]; intros st s t0 H Ht0 Hts; cbn [srun].
  - cbn [fst]. split; [exact H|]. split; [split; [apply (si_lo _ _ H) | apply (si_hi _ _ H)] | lia].
  - destruct Hts as [Ht Hts]. pose proof (sconfirm_spec st s from t H ltac:(lia)) as SP.
    destruct (sconfirm T s from t) as [s1 b]. destruct SP as [H1 [Hd _]].
    specialize (IH st s1 t H1 ltac:(lia) Hts). destruct (srun T s1 cs) as [s2 bs]. cbn [fst] in *.
    destruct IH as [I1 [I2 I3]]. split; [exact I1|]. split; [exact I2 | lia].
Qed.

(* each accepted confirmation comes from a distinct node that is not the accuser, and at most k are accepted *)
Theorem srun_confirmers : forall cs st s t0, SInv st s -> st <= t0 -> times_ok t0 cs ->
  let '(s', bs) := srun T s cs in
  sn s' - sn s = Z.of_nat (length (filter (fun b => b) bs))
  /\ (forall x, Nmem x (sconfs s) = true -> Nmem x (sconfs s') = true)
  /\ Forall2 (fun c b => b = true -> Nmem (fst c) (sconfs s') = true) cs bs
  /\ (1 <= k -> sn s' <= k) /\ (k < 1 -> Forall (fun b => b = false) bs).
Proof.
  induction cs as [|[from t] cs IH]; intros st s t0 H Ht0 Hts; cbn [srun].
  - split; [cbn; lia|]. split; [auto|]. split; [constructor|]. split; [apply (si_nk _ _ H) | intro; constructor].
  - destruct Hts as [Ht Hts]. pose proof (sconfirm_spec st s from t H ltac:(lia)) as SP.
    destruct (sconfirm T s from t) as [s1 b]. destruct SP as [H1 [_ [_ [Hb1 [Hb0 _]]]]].
    specialize (IH st s1 t H1 ltac:(lia) Hts). destruct (srun T s1 cs) as [s2 bs].
    destruct IH as [I1 [I2 [I3 [I4 I5]]]].
    assert (Hsub : forall x, Nmem x (sconfs s) = true -> Nmem x (sconfs s1) = true).
    { intros x Hx. destruct b.
      - destruct (Hb1 eq_refl) as [_ [_ [_ E]]]. rewrite E. unfold Nmem in *. cbn. rewrite Hx. apply orb_true_r.
      - destruct (Hb0 eq_refl) as [_ [E _]]. rewrite E. exact Hx. }
    split; [|split; [|split; [|split]]].
    + cbn [filter length]. destruct b; cbn [length].
      * destruct (Hb1 eq_refl) as [_ [_ [E _]]]. lia.
      * destruct (Hb0 eq_refl) as [E _]. lia.
    + intros x Hx. apply I2. apply Hsub. exact Hx.
    + constructor; [|exact I3]. cbn [fst]. intro Eb. subst b. destruct (Hb1 eq_refl) as [_ [_ [_ E]]].
      apply I2. rewrite E. unfold Nmem. cbn. rewrite N.eqb_refl. reflexivity.
    + exact I4.
    + intro Hk. constructor; [|apply I5; exact Hk]. destruct b; [|reflexivity].
      destruct (Hb1 eq_refl) as [_ [Hlt _]]. pose proof (si_n0 _ _ H). lia.
Qed.

(* an accepted confirmation is from a node not counted before (in particular never the accuser,
   who is in the set from the start) *)
Theorem sconfirm_fresh st s from now : SInv st s -> st <= now ->
  snd (sconfirm T s from now) = true -> Nmem from (sconfs s) = false.
Proof.
  intros H Hn E. pose proof (sconfirm_spec st s from now H Hn) as SP.
  destruct (sconfirm T s from now) as [s' b]. cbn in E. subst b. destruct SP as [_ [_ [_ [Hb _]]]]. apply Hb. reflexivity.
Qed.

(* with too few peers to confirm (k < 1) the minimum timeout is used from the start *)
Theorem k0_min from st : k < 1 -> sdeadline (snew from k mn mx st) = st + mn.
Proof. intro H. unfold snew; cbn. destruct (Z.ltb_spec k 1); [reflexivity | lia]. Qed.

End WithTable.
