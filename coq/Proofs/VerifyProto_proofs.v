From Coq Require Import List NArith ZArith Bool Lia.
Import ListNotations.
From VF Require Import Base VerifyProto.
Local Open Scope N_scope.

Definition byte_ok (x : N) : Prop := x <= 255.

(* folding max/min over a list of ranges *)
Definition acc_range (a : N * N * N * N) (r : N * N * N * N) : N * N * N * N :=
  let '(a1, a2, a3, a4) := a in let '(r1, r2, r3, r4) := r in (N.max a1 r1, N.min a2 r2, N.max a3 r3, N.min a4 r4).

Lemma fold_remote_ranges remote : forall a,
  fold_left acc_remote remote a =
  fold_left acc_range (map (fun r => (vnth (rn_vsn r) 0, vnth (rn_vsn r) 1, vnth (rn_vsn r) 3, vnth (rn_vsn r) 4))
                           (filter (fun r => rn_alive r && negb (length (rn_vsn r) <? 5)%nat) remote)) a.
Proof.
  induction remote as [|r rs IH]; intro a; [reflexivity|]. cbn [fold_left filter].
  destruct a as [[[a1 a2] a3] a4]. unfold acc_remote at 2.
  destruct (rn_alive r); cbn [negb andb]; [|apply IH].
  destruct (length (rn_vsn r) <? 5)%nat; cbn [negb]; [apply IH|]. cbn [map fold_left]. apply IH.
Qed.

Lemma fold_local_ranges local : forall a,
  fold_left acc_local local a =
  fold_left acc_range (map (fun n => (ln_pmin n, ln_pmax n, ln_dmin n, ln_dmax n)) (filter ln_alive local)) a.
Proof.
  induction local as [|n ns IH]; intro a; [reflexivity|]. cbn [fold_left filter].
  destruct a as [[[a1 a2] a3] a4]. unfold acc_local at 2.
  destruct (ln_alive n); cbn [negb]; [cbn [map fold_left]; apply IH | apply IH].
Qed.

Lemma in_range_fold rs : forall a pc dc,
  in_range (fold_left acc_range rs a) pc dc = true <->
  in_range a pc dc = true /\ forall r, In r rs -> in_range r pc dc = true.
Proof.
  induction rs as [|r rs IH]; intros a pc dc; cbn [fold_left].
  - split; [intro H; split; [exact H | intros r []] | intros [H _]; exact H].
  - rewrite IH. destruct a as [[[a1 a2] a3] a4]. destruct r as [[[r1 r2] r3] r4]. unfold acc_range, in_range.
    rewrite !andb_true_iff, !N.leb_le. split.
    + intros [[[[H1 H2] H3] H4] Hr]. split; [lia|]. intros r' [<-|Hin]; [|apply Hr; exact Hin].
      rewrite !andb_true_iff, !N.leb_le. lia.
    + intros [[[[H1 H2] H3] H4] Hr]. split.
      * specialize (Hr (r1, r2, r3, r4) (or_introl eq_refl)). rewrite !andb_true_iff, !N.leb_le in Hr. lia.
      * intros r' Hin. apply Hr. right. exact Hin.
Qed.

(* C09: verifyProtocol accepts iff every speaker (all remote entries, current versions taken as 0
   when the vector is short; all local nodes) lies within every ALIVE node's advertised protocol
   and delegate ranges; versions are bytes *)
Theorem verify_spec remote local :
  (forall s, In s (speakers remote local) -> byte_ok (fst s) /\ byte_ok (snd s)) ->
  (verify_protocol remote local = true <->
   forall s, In s (speakers remote local) -> forall r, In r (ranges remote local) -> in_range r (fst s) (snd s) = true).
Proof.
  intro Hb. unfold verify_protocol. rewrite fold_local_ranges, fold_remote_ranges, <- fold_left_app.
  fold (ranges remote local). rewrite andb_true_iff, !forallb_forall.
  unfold speakers. split.
  - intros [H1 H2] s Hs r Hr. apply in_app_or in Hs. destruct Hs as [Hs|Hs].
    + apply in_map_iff in Hs. destruct Hs as [x [<- Hx]]. specialize (H1 x Hx). destruct (remote_cur x) as [pc dc].
      apply in_range_fold in H1. destruct H1 as [_ H1]. apply H1. exact Hr.
    + apply in_map_iff in Hs. destruct Hs as [x [<- Hx]]. specialize (H2 x Hx).
      apply in_range_fold in H2. destruct H2 as [_ H2]. apply H2. exact Hr.
  - intro H. split.
    + intros x Hx. destruct (remote_cur x) as [pc dc] eqn:E. apply in_range_fold. split.
      * assert (Hin : In (pc, dc) (map remote_cur remote ++ map (fun n => (ln_pcur n, ln_dcur n)) local)).
        { apply in_or_app. left. apply in_map_iff. exists x. split; assumption. }
        destruct (Hb _ Hin) as [B1 B2]. unfold in_range, byte_ok in *. cbn in *. rewrite !andb_true_iff, !N.leb_le. lia.
      * intros r Hr. apply (H (pc, dc)); [|exact Hr]. apply in_or_app. left. apply in_map_iff. exists x. split; assumption.
    + intros x Hx. apply in_range_fold. split.
      * assert (Hin : In (ln_pcur x, ln_dcur x) (map remote_cur remote ++ map (fun n => (ln_pcur n, ln_dcur n)) local)).
        { apply in_or_app. right. apply in_map_iff. exists x. split; [reflexivity | assumption]. }
        destruct (Hb _ Hin) as [B1 B2]. unfold in_range, byte_ok in *. cbn in *. rewrite !andb_true_iff, !N.leb_le. lia.
      * intros r Hr. apply (H (ln_pcur x, ln_dcur x)); [|exact Hr]. apply in_or_app. right. apply in_map_iff. exists x. split; [reflexivity | assumption].
Qed.
