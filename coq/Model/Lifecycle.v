(* Lifecycle.v — abstract model of the public API across a node's lifecycle stages
   (memberlist.go Leave / Shutdown / LocalNode / UpdateNode / Members / Send* / Join / Ping;
   the reaping pass; the transport's willingness to dial).  [lfixed = false] is the pinned tree:
   the reaping pass removes the node's own departed record, and the default transport still
   dials after Shutdown. *)
From VF Require Import Base.

Record lstate := mkL { shut : bool; left_ : bool; self_present : bool; aged : bool (* own record older than GossipToTheDeadTime *);
                       transport_open : bool }.
Definition l0 : lstate := mkL false false true false true.

Inductive lcall :=
| LMembers | LNumMembers | LLocalNode | LUpdateNode | LLeave | LShutdown | LHealth
| LSendBestEffort | LSendReliable | LPing | LJoin
| LAdvance   (* enough time passes for the own departed record to age out *)
| LReap.     (* a background reaping pass *)

(* result of a call: 0 returns (value or error), 1 panics; plus whether it used the network *)
Record lres := mkLR { lpanic : bool; lsent : bool }.

Definition lstep (lfixed : bool) (s : lstate) (c : lcall) : lstate * lres :=
  match c with
  | LMembers | LNumMembers | LHealth => (s, mkLR false false)
  | LLocalNode => (s, mkLR (negb (self_present s)) false)
  | LUpdateNode => (s, mkLR (negb (self_present s)) (self_present s && transport_open s))
  | LLeave =>
      if shut s then (s, mkLR true false)                       (* documented: Leave after Shutdown panics *)
      else if left_ s then (s, mkLR false false)
      else if self_present s then (mkL (shut s) true true false (transport_open s), mkLR false (transport_open s))
      else (mkL (shut s) true false (aged s) (transport_open s), mkLR (negb lfixed) false)
  | LShutdown => (mkL true (left_ s) (self_present s) (aged s) (if lfixed then false else transport_open s), mkLR false false)
  | LSendBestEffort | LSendReliable | LPing | LJoin => (s, mkLR false (transport_open s))
  | LAdvance => (mkL (shut s) (left_ s) (self_present s) (left_ s) (transport_open s), mkLR false false)
  | LReap =>
      if shut s then (s, mkLR false false)
      else (mkL (shut s) (left_ s) (self_present s && (lfixed || negb (left_ s && aged s))) (aged s) (transport_open s), mkLR false false)
  end.

Fixpoint lrun (lfixed : bool) (s : lstate) (cs : list lcall) : lstate * list lres :=
  match cs with
  | [] => (s, [])
  | c :: cs' => let '(s1, r) := lstep lfixed s c in let '(s2, rs) := lrun lfixed s1 cs' in (s2, r :: rs)
  end.

(* the documented exception *)
Fixpoint allowed_seq (sh : bool) (cs : list lcall) : bool :=
  match cs with
  | [] => true
  | LLeave :: cs' => negb sh && allowed_seq sh cs'
  | LShutdown :: cs' => allowed_seq true cs'
  | _ :: cs' => allowed_seq sh cs'
  end.
