(* Cursor.v — executable model of the probe schedule (state.go probe(): the round-robin cursor
   probeIndex over the node list, the numCheck guard, the wrap into resetNodes; aliveNode's
   insertion of a new node at a random offset).

   Names are N.  Whether a name may be probed at the moment of a tick ("not this node, not
   Dead/Left") is the function [el] supplied with every tick, so status changes between ticks are
   arbitrary.  The list resetNodes leaves behind (expired dead entries reaped, the rest shuffled)
   is the tick's second parameter [rs]: it is only used when the tick wraps. *)
From VF Require Import Base.

Record cst := mkC { order : list N; idx : nat }.

(* one call of probe(): returns the new cursor, the node handed to probeNode (if any) and whether
   resetNodes ran *)
Fixpoint loop (fuel : nat) (el : N -> bool) (rs : list N) (numCheck : nat) (s : cst) (wrapped : bool)
  : cst * option N * bool :=
  match fuel with
  | O => (s, None, wrapped)
  | S f =>
      if (length (order s) <=? numCheck)%nat then (s, None, wrapped)
      else if (length (order s) <=? idx s)%nat then loop f el rs (S numCheck) (mkC rs 0) true
      else let x := nth (idx s) (order s) 0%N in
           let s' := mkC (order s) (S (idx s)) in
           if el x then (s', Some x, wrapped) else loop f el rs (S numCheck) s' wrapped
  end.

Definition tick (el : N -> bool) (rs : list N) (s : cst) : cst * option N * bool :=
  loop (length (order s) + length rs + 2) el rs 0 s false.

(* aliveNode for an unknown name: append, then swap with the entry at [off] (off < length, or the
   list is empty) *)
Fixpoint set_nth (n : nat) (y : N) (l : list N) : list N :=
  match l, n with
  | [], _ => []
  | _ :: l', O => y :: l'
  | x :: l', S n' => x :: set_nth n' y l'
  end.

Definition insert (y : N) (off : nat) (s : cst) : cst :=
  if (off <? length (order s))%nat
  then mkC (set_nth off y (order s) ++ [nth off (order s) 0%N]) (idx s)
  else mkC (order s ++ [y]) (idx s).

(* ---------- runs, with the bookkeeping the theorems talk about ---------- *)
Inductive act := ATick (el : N -> bool) (rs : list N) | AInsert (y : N) (off : nat).

(* [seen]: names handed to probeNode since the last resetNodes (latest first);
   [cand]: names that were in the list at the last resetNodes and probe-able at every tick since;
   [passes]: one record (cand, seen) per completed pass, latest first;
   [sels]: every tick's selection, latest first *)
Record gst := mkG { cs : cst; seen : list N; cand : list N;
                    passes : list (list N * list N); sels : list (option N) }.

Definition ocons (o : option N) (l : list N) : list N := match o with Some x => x :: l | None => l end.

Definition gstep (g : gst) (a : act) : gst :=
  match a with
  | AInsert y off => mkG (insert y off (cs g)) (seen g) (cand g) (passes g) (sels g)
  | ATick el rs =>
      let '(s', sel, w) := tick el rs (cs g) in
      if w then mkG s' (ocons sel []) (filter el rs) ((filter el (cand g), seen g) :: passes g) (sel :: sels g)
      else mkG s' (ocons sel (seen g)) (filter el (cand g)) (passes g) (sel :: sels g)
  end.

Definition ginit (o : list N) (i : nat) : gst := mkG (mkC o i) [] [] [] [].
Definition grun (g : gst) (l : list act) : gst := fold_left gstep l g.

(* position of the first occurrence of v at or after index i *)
Fixpoint find_from (v : N) (l : list N) (i : nat) : option nat :=
  match l with
  | [] => None
  | x :: l' => match i with
               | O => if N.eqb x v then Some O else option_map S (find_from v l' O)
               | S i' => option_map S (find_from v l' i')
               end
  end.

(* ticks that certainly suffice to reach v (see Cursor_proofs.ticks_until_selected) *)
Definition reach_bound (v : N) (s : cst) : nat :=
  match find_from v (order s) (idx s) with
  | Some p => p - idx s + 1
  | None => (length (order s) - idx s) + 1 + length (order s)
  end.
