(* Label.v — executable model of label.go: the packet label header and the stream label header
   read through a bufio.Reader (4096-byte buffer) and handed on as a peekedConn.
   Bytes are N (< 256, [wf_bytes]).  A connection is the list of fragments its Read calls will
   deliver (each non-empty); a Read with room for c bytes returns at most c bytes of the first. *)
From VF Require Import Base.

Definition bytes := list N.
Definition wf_bytes (b : bytes) : bool := forallb (fun x => (x <? 256)%N) b.
Definition has_label_msg : N := 244.
Definition blen (b : bytes) : N := N.of_nat (length b).

(* AddLabelHeaderToPacket *)
Definition add_label (buf label : bytes) : outcome bytes :=
  match label with
  | [] => Ok buf
  | _ => if (255 <? blen label)%N then Err 1 else Ok (has_label_msg :: blen label :: label ++ buf)
  end.

(* RemoveLabelHeaderFromPacket: (rest, label) *)
Definition remove_label (buf : bytes) : outcome (bytes * bytes) :=
  match buf with
  | [] => Ok (buf, [])
  | b0 :: rest =>
      if negb (N.eqb b0 has_label_msg) then Ok (buf, [])
      else match rest with
           | [] => Err 2
           | sz :: rest' =>
               if (sz <? 1)%N then Err 3
               else if (length rest' <? N.to_nat sz)%nat then Err 2
               else Ok (skipn (N.to_nat sz) rest', firstn (N.to_nat sz) rest')
           end
  end.

(* ---- streams ---- *)
Definition bufsize : nat := 4096.

(* bufio.Reader.Peek(n): fill the buffer from the connection until it holds n bytes, is full, or
   the connection is exhausted *)
Fixpoint fill_until (n : nat) (buf : bytes) (frags : list bytes) : bytes * list bytes :=
  if (n <=? length buf)%nat then (buf, frags)
  else match frags with
       | [] => (buf, [])
       | f :: frags' =>
           let room := (bufsize - length buf)%nat in
           if (length f <=? room)%nat then fill_until n (buf ++ f) frags'
           else (buf ++ firstn room f, skipn room f :: frags')
       end.

(* what the caller continues with: the bytes still buffered (peekedConn.Peeked) and the connection *)
Record pconn := mkPC { peeked : bytes; rest_frags : list bytes }.
Definition drain (p : pconn) : bytes := peeked p ++ concat (rest_frags p).

(* RemoveLabelHeaderFromStream: (label, continuation) *)
Definition remove_label_stream (frags : list bytes) : outcome (bytes * pconn) :=
  let '(b1, f1) := fill_until 1 [] frags in
  match b1 with
  | [] => Ok ([], mkPC [] f1)                               (* EOF at once: unlabeled, empty *)
  | b0 :: _ =>
      if negb (N.eqb b0 has_label_msg) then Ok ([], mkPC b1 f1)
      else
        let '(b2, f2) := fill_until 2 b1 f1 in
        match b2 with
        | _ :: sz :: _ =>
            if (sz <? 1)%N then Err 3
            else
              let n := (2 + N.to_nat sz)%nat in
              let '(b3, f3) := fill_until n b2 f2 in
              if (length b3 <? n)%nat then Err 2
              else Ok (firstn (N.to_nat sz) (skipn 2 b3), mkPC (skipn n b3) f3)
        | _ => Err 2
        end
  end.

(* AddLabelHeaderToStream followed by the payload written in any chunks: the byte stream *)
Definition label_header (label : bytes) : bytes :=
  match label with [] => [] | _ => has_label_msg :: blen label :: label end.
