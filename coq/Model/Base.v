(* Base.v — shared small definitions for all models (stdlib only, all computable). *)
From Coq Require Export List NArith ZArith Bool Lia.
Export ListNotations.

(* Outcome of a modelled call: a Go panic is an ordinary value. *)
Inductive outcome (A : Type) := Ok (a : A) | Err (e : N) | Panic.
Arguments Ok {A} _. Arguments Err {A} _. Arguments Panic {A}.

Definition is_panic {A} (o : outcome A) : bool :=
  match o with Panic => true | _ => false end.

(* association lists keyed by N *)
Fixpoint alookup {A} (k : N) (l : list (N * A)) : option A :=
  match l with
  | [] => None
  | (k', v) :: l' => if N.eqb k k' then Some v else alookup k l'
  end.

Fixpoint aremove {A} (k : N) (l : list (N * A)) : list (N * A) :=
  match l with
  | [] => []
  | (k', v) :: l' => if N.eqb k k' then aremove k l' else (k', v) :: aremove k l'
  end.

(* replace in place when present (keeps position), append otherwise *)
Fixpoint aset {A} (k : N) (v : A) (l : list (N * A)) : list (N * A) :=
  match l with
  | [] => [(k, v)]
  | (k', v') :: l' => if N.eqb k k' then (k, v) :: l' else (k', v') :: aset k v l'
  end.

Definition akeys {A} (l : list (N * A)) : list N := map fst l.

Fixpoint list_eqb {A} (eqb : A -> A -> bool) (a b : list A) : bool :=
  match a, b with
  | [], [] => true
  | x :: a', y :: b' => eqb x y && list_eqb eqb a' b'
  | _, _ => false
  end.

Lemma list_eqb_eq {A} (eqb : A -> A -> bool)
      (H : forall x y, eqb x y = true <-> x = y) :
  forall a b, list_eqb eqb a b = true <-> a = b.
Proof.
  induction a as [|x a IH]; destruct b as [|y b]; simpl; split; intro E; try congruence; try discriminate.
  - apply andb_true_iff in E. destruct E as [E1 E2]. apply H in E1. apply IH in E2. congruence.
  - inversion E; subst. apply andb_true_iff. split; [apply H; reflexivity | apply IH; reflexivity].
Qed.

Definition Nmem (x : N) (l : list N) : bool := existsb (N.eqb x) l.

Lemma Nmem_In x l : Nmem x l = true <-> In x l.
Proof.
  unfold Nmem. rewrite existsb_exists. split.
  - intros [y [Hy E]]. apply N.eqb_eq in E. subst. exact Hy.
  - intro H. exists x. split; [exact H | apply N.eqb_refl].
Qed.

Fixpoint count_N (x : N) (l : list N) : nat :=
  match l with [] => 0 | y :: l' => (if N.eqb x y then 1 else 0) + count_N x l' end.
