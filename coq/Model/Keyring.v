(* Keyring.v — executable model of keyring.go, with the Go slice aliasing made explicit:
   the ring is the content of a backing array; GetKeys hands out that array; the pinned
   RemoveKey shifts the array in place (append(k.keys[:i], k.keys[i+1:]...)) before installing a
   fresh one, the repaired RemoveKey builds the shortened list in fresh storage and guards the
   empty ring.  Keys are numbers; [valid] says which have a length of 16, 24 or 32 bytes. *)
From VF Require Import Base.

Record kstate := mkK { arrs : list (list N); (* every backing array ever allocated, as visible now *)
                       cur : nat }.          (* index of the array k.keys points to *)

Definition ring (s : kstate) : list N := nth (cur s) (arrs s) [].

Inductive kop := KAdd (k : N) | KUse (k : N) | KRemove (k : N) | KGetKeys | KGetPrimary.
(* result: 0 ok, 1 error, 2 panic; plus the value returned (list of keys / primary as a list) and,
   for GetKeys, the handle (array index) *)
Record kout := mkKO { kres : N; kval : list N; khandle : option nat }.

Section WithValid.
Variable valid : N -> bool.
Variable fixed : bool.

(* installKeysLocked(keys, primary): fresh array *)
Definition install (s : kstate) (keys : list N) (primary : N) : kstate :=
  let nw := primary :: filter (fun k => negb (N.eqb k primary)) keys in
  mkK (arrs s ++ [nw]) (length (arrs s)).

Fixpoint set_nth {A} (n : nat) (x : A) (l : list A) : list A :=
  match n, l with
  | O, _ :: l' => x :: l'
  | S n', y :: l' => y :: set_nth n' x l'
  | _, [] => []
  end.

(* in-place shift: content of the array after append(a[:i], a[i+1:]...) as seen through a slice of
   the ORIGINAL length *)
Fixpoint remove_at {A} (i : nat) (l : list A) : list A :=
  match i, l with
  | O, _ :: l' => l'
  | S i', x :: l' => x :: remove_at i' l'
  | _, [] => []
  end.
Definition shift_in_place (i : nat) (l : list N) : list N :=
  match l with
  | [] => []
  | _ => remove_at i l ++ [last l 0%N]
  end.

Fixpoint index_of (k : N) (l : list N) : option nat :=
  match l with
  | [] => None
  | x :: l' => if N.eqb k x then Some O else option_map S (index_of k l')
  end.

Definition kstep (s : kstate) (o : kop) : kstate * kout :=
  match o with
  | KAdd k =>
      if negb (valid k) then (s, mkKO 1 [] None)
      else if Nmem k (ring s) then (s, mkKO 0 [] None)
      else let primary := match ring s with [] => k | p :: _ => p end in
           (install s (ring s ++ [k]) primary, mkKO 0 [] None)
  | KUse k =>
      if Nmem k (ring s) then (install s (ring s) k, mkKO 0 [] None)
      else (s, mkKO 1 [] None)
  | KRemove k =>
      match ring s with
      | [] => (s, if fixed then mkKO 0 [] None else mkKO 2 [] None)
      | p :: _ =>
          if N.eqb k p then (s, mkKO 1 [] None)
          else match index_of k (ring s) with
               | None => (s, mkKO 0 [] None)
               | Some i =>
                   let shortened := remove_at i (ring s) in
                   let s1 := if fixed then s
                             else mkK (set_nth (cur s) (shift_in_place i (ring s)) (arrs s)) (cur s) in
                   (install s1 shortened p, mkKO 0 [] None)
               end
      end
  | KGetKeys => (s, mkKO 0 (ring s) (Some (cur s)))
  | KGetPrimary => (s, mkKO 0 (match ring s with [] => [] | p :: _ => [p] end) None)
  end.

Fixpoint krun (s : kstate) (ops : list kop) : kstate * list kout :=
  match ops with
  | [] => (s, [])
  | o :: ops' =>
      let '(s1, x) := kstep s o in
      if N.eqb (kres x) 2 then (s1, [x])
      else let '(s2, xs) := krun s1 ops' in (s2, x :: xs)
  end.

(* NewKeyring(keys, primary): None = error *)
Definition knew (keys : list N) (primary : option N) : option kstate :=
  let s0 := mkK [[]] 0 in
  match keys, primary with
  | [], None => Some s0
  | _, None => None
  | _, Some p =>
      if negb (valid p) then None
      else
        let s1 := fst (kstep s0 (KAdd p)) in
        fold_left (fun acc k => match acc with
                                | None => None
                                | Some s => if negb (valid k) then None else Some (fst (kstep s (KAdd k)))
                                end) keys (Some s1)
  end.
End WithValid.
