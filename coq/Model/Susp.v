(* Susp.v — executable model of the suspicion timer (suspicion.go: newSuspicion, Confirm, the
   AfterFunc deadline).  [T n] is remainingSuspicionTime(n, k, 0, min, max): the timeout after n
   confirmations; it is float64 arithmetic in the code and enters the model as a table. *)
From VF Require Import Base.
Local Open Scope Z_scope.

Record susp := mkSusp { sk : Z; smin : Z; smax : Z; sstart : Z; sn : Z; sconfs : list N;
                        sdeadline : Z; sfired : bool }.

Definition snew (from : N) (k mn mx now : Z) : susp :=
  mkSusp k mn mx now 0 [from] (now + (if k <? 1 then mn else mx)) false.

(* time passes: the Go timer fires at its deadline *)
Definition stick (s : susp) (now : Z) : susp :=
  if negb (sfired s) && (sdeadline s <=? now)
  then mkSusp (sk s) (smin s) (smax s) (sstart s) (sn s) (sconfs s) (sdeadline s) true
  else s.

Section WithTable.
Variable T : Z -> Z.

(* Confirm(from) called at time [now] *)
Definition sconfirm (s0 : susp) (from : N) (now : Z) : susp * bool :=
  let s := stick s0 now in
  if sk s <=? sn s then (s, false)
  else if Nmem from (sconfs s) then (s, false)
  else
    let n' := sn s + 1 in
    let rem := T n' - (now - sstart s) in
    let dl := if sfired s then sdeadline s
              else if 0 <? rem then now + rem else now in
    (mkSusp (sk s) (smin s) (smax s) (sstart s) n' (from :: sconfs s) dl
            (sfired s || negb (0 <? rem)), true).

(* a timed sequence of confirmations: (sender, absolute time) *)
Fixpoint srun (s : susp) (cs : list (N * Z)) : susp * list bool :=
  match cs with
  | [] => (s, [])
  | (from, t) :: cs' =>
      let '(s1, b) := sconfirm s from t in
      let '(s2, bs) := srun s1 cs' in
      (s2, b :: bs)
  end.
End WithTable.

(* the table as a list, index n (entry 0 unused) *)
Fixpoint tnth (l : list Z) (n : nat) (d : Z) : Z :=
  match l, n with x :: _, O => x | _ :: l', S n' => tnth l' n' d | [], _ => d end.
Definition T_of (tab : list Z) (mn : Z) (n : Z) : Z := tnth tab (Z.to_nat n) mn.
