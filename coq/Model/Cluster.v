(* Cluster.v — N nodes (each a Core state machine with its own configuration) and the messages
   between them.  The pool holds everything that was ever put on the network; delivering a message
   does not remove it, so duplication and reordering are every schedule's right, and loss is a message
   that is never delivered.  There is no failed-probe step: this is the healthy cluster of C04
   (a probe of a responsive member within the latency bound succeeds — Probe.v — and a successful
   probe changes no membership state). *)
From VF Require Import Base Core.
Local Open Scope Z_scope.

Inductive pmsg :=
| PB (m : bmsg)                                           (* a gossiped broadcast *)
| PS (rs : st) (inc name addr meta : N) (vsn : list N).   (* one entry of a push/pull state snapshot *)

Record world := mkW { wnodes : list (cfg * nstate); wpool : list pmsg }.

Inductive wact :=
| WGossip (i : nat)                  (* node i transmits every queued broadcast *)
| WSnapshot (i : nat)                (* node i writes its whole state to a stream (either half of a push/pull, a join) *)
| WDeliver (i : nat) (k : nat)       (* node i processes pool message k *)
| WUpdate (i : nat) (meta : N) (w : Z)
| WLeave (i : nat) (w : Z)
| WAdvance (i : nat) (dt : Z)
| WReap (i : nat).

Definition op_of (p : pmsg) : op :=
  match p with
  | PB (BAlive inc name addr meta vsn) => OAlive inc name addr meta vsn false
  | PB (BSuspect inc name from) => OSuspect inc name from
  | PB (BDead inc name from) => ODead inc name from
  | PS rs inc name addr meta vsn => OMerge rs inc name addr meta vsn
  end.

Definition snapshot (s : nstate) : list pmsg :=
  map (fun p => PS (rst (snd p)) (rinc (snd p)) (fst p) (raddr (snd p)) (rmeta (snd p)) (rvsn (snd p))) (recs s).

Fixpoint upd {A} (i : nat) (f : A -> A) (l : list A) : list A :=
  match l, i with
  | [], _ => []
  | x :: l', O => f x :: l'
  | x :: l', S i' => x :: upd i' f l'
  end.

(* run one Core operation at node i; the events are returned with the node's index *)
Definition at_node (w : world) (i : nat) (o : op) : world * list event :=
  match nth_error (wnodes w) i with
  | None => (w, [])
  | Some (c, s) => let '(s', evs) := step c s o in
                   (mkW (upd i (fun _ => (c, s')) (wnodes w)) (wpool w), evs)
  end.

Definition wstep (w : world) (a : wact) : world * list event :=
  match a with
  | WGossip i => match nth_error (wnodes w) i with
                 | Some (_, s) => (mkW (wnodes w) (map (fun e => PB (snd e)) (bq s) ++ wpool w), [])
                 | None => (w, [])
                 end
  | WSnapshot i => match nth_error (wnodes w) i with
                   | Some (_, s) => (mkW (wnodes w) (snapshot s ++ wpool w), [])
                   | None => (w, [])
                   end
  | WDeliver i k => match nth_error (wpool w) k with
                    | Some p => at_node w i (op_of p)
                    | None => (w, [])
                    end
  | WUpdate i meta wt => at_node w i (OUpdate meta wt)
  | WLeave i wt => at_node w i (OLeave wt)
  | WAdvance i dt => at_node w i (OAdvance dt)
  | WReap i => at_node w i OReap
  end.

Fixpoint wrun (w : world) (l : list wact) : world * list event :=
  match l with
  | [] => (w, [])
  | a :: l' => let '(w1, e1) := wstep w a in let '(w2, e2) := wrun w1 l' in (w2, e1 ++ e2)
  end.

(* names of members that have called Leave *)
Definition departed (w : world) (n : N) : bool :=
  existsb (fun cs => N.eqb (self (fst cs)) n && leaving (snd cs)) (wnodes w).

(* ---------- the general cluster: probes may fail ---------- *)
(* [GProbeFail i n]: node i's probe of the member it knows as n failed (no ack, no nack-free relay, no
   TCP contact — Probe.v): it suspects n at the incarnation it holds, with itself as the accuser.
   Timers fire inside [WAdvance].  With these the cluster can accuse, declare dead, refute. *)
Inductive gact :=
| GA (a : wact)
| GProbeFail (i : nat) (n : N).

Definition gstep (w : world) (g : gact) : world * list event :=
  match g with
  | GA a => wstep w a
  | GProbeFail i n =>
      match nth_error (wnodes w) i with
      | Some (c, s) => match alookup n (recs s) with
                       | Some r => at_node w i (OSuspect (rinc r) n (self c))
                       | None => (w, [])
                       end
      | None => (w, [])
      end
  end.

Fixpoint grun (w : world) (l : list gact) : world * list event :=
  match l with
  | [] => (w, [])
  | a :: l' => let '(w1, e1) := gstep w a in let '(w2, e2) := grun w1 l' in (w2, e1 ++ e2)
  end.
