(* Queue.v — executable model of TransmitLimitedQueue (queue.go).
   Definitions only.  The btree is a list kept sorted by [less] with
   ReplaceOrInsert / Delete-by-key semantics, which is what google/btree
   provides for items compared with Less.  [fixed = false] selects the
   behaviour of the pinned (unrepaired) tree: the id generator restarts inside
   deleteItem as soon as the tree is empty, and Prune dereferences a nil tree.
   [fixed = true] is the repaired code: the generator restarts only once the
   queue is idle after Get/Prune, Prune is nil-safe. *)
From VF Require Import Base.

Inductive kind := Named (n : N) | Unique | Plain (g : N).
(* Named 0 stands for a NamedBroadcast whose Name() is "" (treated by the code
   like a plain broadcast with the slow invalidation path skipped: see
   queueBroadcast: [lb.name != ""] fails and [!unique] holds, so the slow path
   runs, but the switch only lets non-Named, non-Unique items be invalidated,
   and the harness' named broadcast never invalidates). *)

Record item := mkItem { uid : N; tr : N; len : N; id : N; kd : kind }.

Definition less (a b : item) : bool :=
  if (tr a <? tr b)%N then true
  else if (tr b <? tr a)%N then false
  else if (len b <? len a)%N then true
  else if (len a <? len b)%N then false
  else (id b <? id a)%N.

Definition key_eq (a b : item) : bool := negb (less a b) && negb (less b a).

(* btree.ReplaceOrInsert *)
Fixpoint insert (x : item) (l : list item) : list item :=
  match l with
  | [] => [x]
  | y :: l' => if less x y then x :: l
               else if less y x then y :: insert x l'
               else x :: l'
  end.

(* btree.Delete: removes the item that compares equal *)
Fixpoint delete (x : item) (l : list item) : list item :=
  match l with
  | [] => []
  | y :: l' => if key_eq x y then l' else y :: delete x l'
  end.

Record qstate := mkQ { items : list item; idgen : N; inited : bool }.
Definition q0 : qstate := mkQ [] 0 false.

Inductive op :=
| Queue (u l : N) (k : kind)
| Get (overhead limit tlimit : Z)
| Prune (k : Z)
| Reset.

Record out := mkOut { ret : list N; fin : list N; nq : N; pan : bool }.

Definition qlen (s : qstate) : N := N.of_nat (length (items s)).

(* deleteItem *)
Definition delete_item (fixed : bool) (x : item) (s : qstate) : qstate :=
  let its := delete x (items s) in
  mkQ its (if fixed then idgen s else match its with [] => 0%N | _ => idgen s end) (inited s).

(* resetIDGenIfIdle (repaired code only) *)
Definition reset_if_idle (fixed : bool) (s : qstate) : qstate :=
  if fixed then match items s with [] => mkQ [] 0 (inited s) | _ => s end else s.

Definition is_named (n : N) (x : item) : bool :=
  match kd x with Named m => N.eqb n m | _ => false end.

(* the harness' plain broadcast of group g invalidates the queued plain broadcasts of the same group and, when
   g is 6..8, those of groups 0..5 with the same residue mod 3 (several at once) *)
Definition is_plain_grp (g : N) (x : item) : bool :=
  match kd x with
  | Plain h => N.eqb g h || ((6 <=? g)%N && (h <? 6)%N && N.eqb (g mod 3) (h mod 3))
  | _ => false
  end.

Fixpoint delete_all (fixed : bool) (xs : list item) (s : qstate) : qstate :=
  match xs with [] => s | x :: xs' => delete_all fixed xs' (delete_item fixed x s) end.

Definition do_queue (fixed : bool) (u l : N) (k : kind) (s : qstate) : qstate * list N :=
  let idg := (idgen s + 1)%N in
  let lb := mkItem u 0 l idg k in
  let s1 := mkQ (items s) idg true in
  let '(s2, f) :=
    match k with
    | Named 0 => (s1, [])
    | Named n =>
        match find (is_named n) (items s1) with
        | Some old => (delete_item fixed old s1, [uid old])
        | None => (s1, [])
        end
    | Unique => (s1, [])
    | Plain g =>
        let rm := filter (is_plain_grp g) (items s1) in
        (delete_all fixed rm s1, map uid rm)
    end in
  (mkQ (insert lb (items s2)) (idgen s2) true, f).

Definition fits (t : N) (free : Z) (x : item) : bool :=
  N.eqb (tr x) t && (Z.of_N (len x) <=? free)%Z.

Definition bump (x : item) : item := mkItem (uid x) (tr x + 1) (len x) (id x) (kd x).

(* the tier loop of GetBroadcasts; None = out of fuel *)
Fixpoint get_loop (fixed : bool) (fuel : nat) (ov lim tl : Z) (t maxT : N) (used : Z)
         (s : qstate) (r f : list N) (re : list item)
  : option (qstate * list N * list N * list item) :=
  match fuel with
  | O => None
  | S fuel' =>
      if (maxT <? t)%N then Some (s, r, f, re)
      else
        let free := (lim - used - ov)%Z in
        if (free <=? 0)%Z then Some (s, r, f, re)
        else match find (fits t free) (items s) with
             | None => get_loop fixed fuel' ov lim tl (t + 1) maxT used s r f re
             | Some keep =>
                 let s1 := delete_item fixed keep s in
                 let used' := (used + ov + Z.of_N (len keep))%Z in
                 if (tl <=? Z.of_N (tr keep) + 1)%Z
                 then get_loop fixed fuel' ov lim tl t maxT used' s1 (r ++ [uid keep]) (f ++ [uid keep]) re
                 else get_loop fixed fuel' ov lim tl t maxT used' s1 (r ++ [uid keep]) f (re ++ [bump keep])
             end
  end.

Definition min_tr (l : list item) : N := match l with [] => 0%N | x :: _ => tr x end.
Definition max_tr (l : list item) : N := tr (last l (mkItem 0 0 0 0 Unique)).

Definition get_fuel (l : list item) : nat :=
  length l + N.to_nat (max_tr l - min_tr l) + 2.

Definition do_get (fixed : bool) (ov lim tl : Z) (s : qstate) : option (qstate * list N * list N) :=
  match items s with
  | [] => Some (s, [], [])
  | _ =>
      match get_loop fixed (get_fuel (items s)) ov lim tl (min_tr (items s)) (max_tr (items s)) 0 s [] [] [] with
      | None => None
      | Some (s1, r, f, re) =>
          let s2 := mkQ (fold_left (fun l x => insert x l) re (items s1)) (idgen s1) (inited s1) in
          Some (reset_if_idle fixed s2, r, f)
      end
  end.

(* Prune: while Len > k: finish and delete Max *)
Fixpoint prune_loop (fixed : bool) (fuel : nat) (k : Z) (s : qstate) (f : list N) : qstate * list N :=
  match fuel with
  | O => (s, f)
  | S fuel' =>
      if (k <? Z.of_nat (length (items s)))%Z then
        match items s with
        | [] => (s, f)
        | x0 :: _ => let m := last (items s) x0 in
                     prune_loop fixed fuel' k (delete_item fixed m s) (f ++ [uid m])
        end
      else (s, f)
  end.

Definition step (fixed : bool) (s : qstate) (o : op) : option (qstate * out) :=
  match o with
  | Queue u l k =>
      let '(s', f) := do_queue fixed u l k s in
      Some (s', mkOut [] f (qlen s') false)
  | Get ov lim tl =>
      match do_get fixed ov lim tl s with
      | None => None
      | Some (s', r, f) => Some (s', mkOut r f (qlen s') false)
      end
  | Prune k =>
      if negb fixed && negb (inited s) then Some (s, mkOut [] [] (qlen s) true)
      else let '(s', f) := prune_loop fixed (length (items s)) k s [] in
           let s'' := reset_if_idle fixed s' in
           Some (s'', mkOut [] f (qlen s'') false)
  | Reset =>
      Some (mkQ [] 0 false, mkOut [] (map uid (items s)) 0 false)
  end.

(* a run stops at the first panic (the harness stops there too) *)
Fixpoint run (fixed : bool) (s : qstate) (ops : list op) : option (qstate * list out) :=
  match ops with
  | [] => Some (s, [])
  | o :: ops' =>
      match step fixed s o with
      | None => None
      | Some (s', x) =>
          if pan x then Some (s', [x])
          else match run fixed s' ops' with
               | None => None
               | Some (s'', xs) => Some (s'', x :: xs)
               end
      end
  end.

(* ---------- the readable selection spec: one pass over the sorted queue ---------- *)
Fixpoint greedy (ov lim used : Z) (l : list item) : list item :=
  match l with
  | [] => []
  | x :: l' =>
      let free := (lim - used - ov)%Z in
      if (free <=? 0)%Z then []
      else if (Z.of_N (len x) <=? free)%Z
           then x :: greedy ov lim (used + ov + Z.of_N (len x)) l'
           else greedy ov lim used l'
  end.
