(* Stream.v — executable model of the stream framing: net.go rawSendMsgStream / encryptLocalState
   (sender) and readStream / decryptRemoteState (receiver).  The payload (message type byte followed
   by msgpack) is opaque here; the compress wrapper is the oracle pair [comp]/[decomp] as on the
   packet path.  A reader that runs out of bytes returns [SNeedMore] (an io error in the code). *)
From VF Require Import Base Label Wire.
Local Open Scope N_scope.

Definition max_push_state_bytes : N := 20971520.

Inductive sres := SOk (t : N) (body : bytes) | SErr (e : N) | SNeedMore | SPanic.

Section Oracles.
Variable seal : N -> bytes -> bytes -> bytes -> bytes.
Variable open : N -> bytes -> bytes -> bytes -> option bytes.
Variable comp : bytes -> bytes.
Variable decomp : bytes -> option bytes.

(* rawSendMsgStream: what is written to the connection (after the label header the dialling
   transport wrote, if any).  [label] is the stream label used as associated data. *)
Definition stream_frame (c : pcfg) (label payload nonce : bytes) : bytes :=
  let s1 := if compress_on c then comp payload else payload in
  if enc_on c && verify_out c then
    let hdr := t_encrypt :: be32 (encrypted_length (encvsn c) (blen s1)) in
    hdr ++ encrypt_payload seal (encvsn c) (primary c) nonce s1 (hdr ++ label)
  else s1.

(* readStream (+ decryptRemoteState) on the bytes available so far *)
Definition read_stream (c : pcfg) (label : bytes) (b : bytes) : sres :=
  let continue (t : N) (r : bytes) : sres :=
    if N.eqb t t_compress then
      match decomp r with
      | Some [] => SErr 33
      | Some (t' :: r') => SOk t' r'
      | None => SErr 32
      end
    else SOk t r in
  match b with
  | [] => SNeedMore
  | t :: rest =>
      if N.eqb t t_encrypt then
        if negb (enc_on c) then SErr 30
        else match rest with
             | l1 :: l2 :: l3 :: l4 :: rest' =>
                 let more := rd32 l1 l2 l3 l4 in
                 if max_push_state_bytes <? more then SErr 31
                 else if (length rest' <? N.to_nat more)%nat then SNeedMore
                 else match decrypt_payload open c (firstn (N.to_nat more) rest') (t :: l1 :: l2 :: l3 :: l4 :: label) with
                      | Ok [] => if fixed c then SErr 34 else SPanic
                      | Ok (t' :: r) => continue t' r
                      | Err e => SErr e
                      | Panic => SPanic
                      end
             | _ => SNeedMore
             end
      else if enc_on c && verify_in c then SErr 35
      else continue t rest
  end.
End Oracles.
