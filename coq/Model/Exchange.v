(* Exchange.v — one complete push/pull between two nodes, as a function of the two node states.
   net.go/state.go: the initiator sends its whole state (sendLocalState), the handler reads it, replies
   with ITS whole state — taken before it merges anything (handleConn: sendLocalState, then
   mergeRemoteState) — and then both sides merge what they received, entry by entry
   (mergeState: one nodeLock critical section per entry = one Core step per entry).
   Definitions only. *)
From VF Require Import Base Core Cluster.

(* a node merges a whole received state list, in the order it was written *)
Definition merge_all (c : cfg) (s : nstate) (snap : list pmsg) : nstate :=
  fold_left (fun s0 p => fst (step c s0 (op_of p))) snap s.

(* the events it delivers while doing so *)
Definition merge_all_events (c : cfg) (s : nstate) (snap : list pmsg) : list event :=
  snd (fold_left (fun se p => let '(s1, e) := step c (fst se) (op_of p) in (s1, snd se ++ e)) snap (s, [])).

(* one push/pull between x and y: both snapshots are the pre-merge states *)
Definition pushpull (cx : cfg) (sx : nstate) (cy : cfg) (sy : nstate) : nstate * nstate :=
  (merge_all cx sx (snapshot sy), merge_all cy sy (snapshot sx)).

(* two in a row (the periodic anti-entropy of pushPull(), or a Join followed by one periodic exchange) *)
Definition pushpull2 (cx : cfg) (sx : nstate) (cy : cfg) (sy : nstate) : nstate * nstate :=
  let '(sx1, sy1) := pushpull cx sx cy sy in pushpull cx sx1 cy sy1.

(* what Members() shows about one name: address and metadata of a record that is neither Dead nor Left *)
Definition listed (s : nstate) (n : N) : option (N * N) :=
  match alookup n (recs s) with
  | Some r => if dead_or_left (rst r) then None else Some (raddr r, rmeta r)
  | None => None
  end.

(* ---------- the same exchange as a schedule of the cluster model ---------- *)
(* both nodes write their state (two snapshots put on the network), then each processes the other's entries
   in order: pool positions 0 .. |recs sj|-1 hold j's snapshot, the next |recs si| positions hold i's *)
Definition deliver_all (i : nat) (from len : nat) : list wact := map (WDeliver i) (seq from len).

Definition exchange_sched (w : world) (i j : nat) : list wact :=
  match nth_error (wnodes w) i, nth_error (wnodes w) j with
  | Some (_, si), Some (_, sj) =>
      [WSnapshot i; WSnapshot j] ++ deliver_all i 0 (length (recs sj)) ++ deliver_all j (length (recs sj)) (length (recs si))
  | _, _ => []
  end.
