(* Core.v — executable model of one node's SWIM membership state machine
   (state.go: aliveNode / suspectNode / deadNode / mergeState / refute / resetNodes /
   the suspicion-timer callback; memberlist.go: Leave / UpdateNode halves;
   net.go: the allow-list front end of handleAlive).
   One operation = one nodeLock critical section (DESIGN.md §3).  Definitions only.

   Identifiers (names, addresses, metadata) are numbers: only equality matters.
   Name 0 is never special; the local node's name is [self c].
   Time is Z (nanoseconds since the start of the case); the zero time.Time of a
   freshly inserted record is [zero_time]. *)
From VF Require Import Base.

Local Open Scope Z_scope.

Inductive st := Alive | Suspect | Dead | Left.
Definition st_eqb (a b : st) : bool :=
  match a, b with Alive, Alive | Suspect, Suspect | Dead, Dead | Left, Left => true | _, _ => false end.
Definition dead_or_left (s : st) : bool := match s with Dead | Left => true | _ => false end.

Record rec := mkRec { rinc : N; rst : st; raddr : N; rmeta : N; rvsn : list N; rsince : Z }.

Definition zero_time : Z := - 9223372036854775808.
Definition vsn0 : list N := [0; 0; 0; 0; 0; 0]%N.

(* a Go *time.Timer created by suspectNode, together with the suspicion it belongs to.
   [tlive] = still registered in nodeTimers; an orphan keeps running and fires later. *)
Record ptimer := mkT { tname : N; tct : Z; tk : Z; tn : Z; tconfs : list N;
                       tstart : Z; tdeadline : Z; tlive : bool }.

Inductive bmsg :=
| BAlive (inc name addr meta : N) (vsn : list N)
| BSuspect (inc name from : N)
| BDead (inc name from : N).

(* broadcast-queue keys: node name, or (refute) the node's address string *)
Definition kname (n : N) : N := (2 * n)%N.
Definition kaddr (a : N) : N := (2 * a + 1)%N.

Record cfg := mkCfg {
  self : N; self_addr : N; self_vsn : list N;
  reclaim : Z;              (* DeadNodeReclaimTime *)
  gtd : Z;                  (* GossipToTheDeadTime *)
  kcfg : Z;                 (* SuspicionMult - 2 *)
  smin : Z;                 (* suspicionTimeout(mult, n, interval), n <= 10 *)
  smaxmult : Z;             (* SuspicionMaxTimeoutMult *)
  ttab : list Z;            (* n |-> remainingSuspicionTime(n, k, 0, min, max) for k = kcfg *)
  awmax : Z;                (* AwarenessMaxMultiplier *)
  has_conflict : bool;
  must_check : bool;        (* len(CIDRsAllowed) > 0 *)
  allowed : list N;         (* addresses inside the allow-list *)
  fixed : bool              (* repaired behaviour (see DESIGN §8) vs pinned tree *)
}.

Record nstate := mkS {
  recs : list (N * rec);
  nnodes : Z;
  timers : list ptimer;
  linc : N;
  leaving : bool;
  score : Z;
  bq : list (N * bmsg);
  now : Z }.

Inductive event :=
| EvJoin (name addr meta : N)
| EvLeave (name addr meta : N)
| EvUpdate (name addr meta : N)
| EvConflict (name addr_mine addr_theirs : N)
| EvPanic.

Inductive op :=
| OAlive (inc name addr meta : N) (vsn : list N) (bootstrap : bool)
| OHandleAlive (src : N) (inc name addr meta : N) (vsn : list N)
| OSuspect (inc name from : N)
| ODead (inc name from : N)
| OMerge (rs : st) (inc name addr meta : N) (vsn : list N)
| OAdvance (dt : Z)
| OReap
| OLeaveBegin
| OLeaveCommit (inc : N)
| OIncBegin
| OLeave (w : Z)               (* Leave(w): LeaveBegin ; LeaveCommit (own incarnation) ; wait for the broadcast up to w *)
| OUpdate (meta : N) (w : Z).  (* UpdateNode(w): IncBegin ; alive(self, linc, bootstrap) ; wait up to w *)

Definition init (c : cfg) : nstate := mkS [] 0 [] 0 false 0 [] 0.

Definition is_allowed (c : cfg) (a : N) : bool := negb (must_check c) || Nmem a (allowed c).

Definition two32 : N := 4294967296%N.

Definition clamp_score (c : cfg) (x : Z) : Z :=
  if x <? 0 then 0 else if awmax c - 1 <? x then awmax c - 1 else x.

Definition set_rec (s : nstate) (n : N) (r : rec) : nstate :=
  mkS (aset n r (recs s)) (nnodes s) (timers s) (linc s) (leaving s) (score s) (bq s) (now s).
Definition set_bq (s : nstate) (k : N) (m : bmsg) : nstate :=
  mkS (recs s) (nnodes s) (timers s) (linc s) (leaving s) (score s) (aset k m (bq s)) (now s).
Definition set_timers (s : nstate) (ts : list ptimer) : nstate :=
  mkS (recs s) (nnodes s) ts (linc s) (leaving s) (score s) (bq s) (now s).

(* delete(m.nodeTimers, name): the Go timer keeps running as an orphan *)
Definition orphan (n : N) (ts : list ptimer) : list ptimer :=
  map (fun t => if N.eqb (tname t) n && tlive t
                then mkT (tname t) (tct t) (tk t) (tn t) (tconfs t) (tstart t) (tdeadline t) false
                else t) ts.
Definition live_timer (n : N) (ts : list ptimer) : option ptimer :=
  find (fun t => N.eqb (tname t) n && tlive t) ts.

(* refute(me, accused) *)
Definition refute (c : cfg) (s : nstate) (me : rec) (accused : N) : nstate :=
  let i0 := ((linc s + 1) mod two32)%N in
  let i := if (i0 <=? accused)%N then ((i0 + (accused - i0 + 1)) mod two32)%N else i0 in
  let me' := mkRec i (rst me) (raddr me) (rmeta me) (rvsn me) (rsince me) in
  let s1 := mkS (aset (self c) me' (recs s)) (nnodes s) (timers s) i (leaving s)
                (clamp_score c (score s + 1)) (bq s) (now s) in
  set_bq s1 (kaddr (raddr me)) (BAlive i (self c) (raddr me) (rmeta me) (rvsn me)).

Definition vsn_bad (v : list N) : bool :=
  match v with
  | pmin :: pmax :: _ :: _ => N.eqb pmin 0 || N.eqb pmax 0 || (pmax <? pmin)%N
  | _ => false
  end.

Definition Nlist_eqb := list_eqb N.eqb.

(* first half of aliveNode: find the record the claim is about (inserting a fresh
   Dead@0 record for an unknown, allowed member), or stop *)
Inductive alive_found :=
| AFIgnore
| AFConflict (r : rec)
| AFProceed (s1 : nstate) (r : rec) (updates : bool).

Definition new_rec (addr meta : N) (vsn : list N) : rec :=
  mkRec 0 Dead addr meta (if (5 <? length vsn)%nat then firstn 6 vsn else vsn0) zero_time.

Definition can_replace (c : cfg) (s : nstate) (r : rec) : bool :=
  st_eqb (rst r) Left || (st_eqb (rst r) Dead && ((0 <? reclaim c) && (reclaim c <? now s - rsince r))).

Definition alive_find (c : cfg) (s : nstate) (name addr meta : N) (vsn : list N) : alive_found :=
  match alookup name (recs s) with
  | None =>
      if is_allowed c addr
      then AFProceed (mkS (recs s ++ [(name, new_rec addr meta vsn)]) (nnodes s + 1) (timers s) (linc s)
                          (leaving s) (score s) (bq s) (now s))
                     (new_rec addr meta vsn) false
      else AFIgnore
  | Some r =>
      if N.eqb (raddr r) addr then AFProceed s r false
      else if is_allowed c addr
           then if can_replace c s r then AFProceed s r true else AFConflict r
           else AFIgnore
  end.

(* second half: the incarnation gates and the update itself *)
Definition alive_apply (c : cfg) (s1 : nstate) (r : rec) (updates : bool)
           (inc name addr meta : N) (vsn : list N) (bootstrap : bool) : nstate * list event :=
  let is_self := N.eqb name (self c) in
  if (inc <=? rinc r)%N && negb is_self && negb updates then (s1, [])
  else if (inc <? rinc r)%N && is_self then (s1, [])
  else
    let s2 := set_timers s1 (orphan name (timers s1)) in
    if negb bootstrap && is_self then
      if N.eqb inc (rinc r) && N.eqb meta (rmeta r) && Nlist_eqb vsn (rvsn r)
      then (s2, [])
      else (refute c s2 r inc,
            if dead_or_left (rst r) then [EvJoin name (raddr r) (rmeta r)] else [])
    else
      let r' := mkRec inc Alive addr meta
                      (if (6 <=? length vsn)%nat then firstn 6 vsn else rvsn r)
                      (if st_eqb (rst r) Alive then rsince r else now s2) in
      (set_rec (set_bq s2 (kname name) (BAlive inc name addr meta vsn)) name r',
       if dead_or_left (rst r) then [EvJoin name addr meta]
       else if negb (N.eqb (rmeta r) meta) then [EvUpdate name addr meta]
       else []).

Definition do_alive (c : cfg) (s : nstate) (inc name addr meta : N) (vsn : list N) (bootstrap : bool)
  : nstate * list event :=
  if leaving s && N.eqb name (self c) then (s, [])
  else if vsn_bad vsn then (s, [])
  else match alive_find c s name addr meta vsn with
       | AFIgnore => (s, [])
       | AFConflict r => (s, if has_conflict c then [EvConflict name (raddr r) addr] else [])
       | AFProceed s1 r updates => alive_apply c s1 r updates inc name addr meta vsn bootstrap
       end.

(* deadNode *)
Definition do_dead (c : cfg) (s : nstate) (inc name from : N) : nstate * list event :=
  match alookup name (recs s) with
  | None => (s, [])
  | Some r =>
      if (inc <? rinc r)%N then (s, [])
      else
        let s1 := set_timers s (orphan name (timers s)) in
        if dead_or_left (rst r) then (s1, [])
        else
          let is_self := N.eqb name (self c) in
          if is_self && negb (leaving s) then (refute c s1 r inc, [])
          else
            let from' := if is_self && fixed c then name else from in
            let s2 := set_bq s1 (kname name) (BDead inc name from') in
            let r' := mkRec inc (if N.eqb name from' then Left else Dead) (raddr r) (rmeta r) (rvsn r) (now s) in
            (set_rec s2 name r', [EvLeave name (raddr r) (rmeta r)])
  end.

Fixpoint tnth (l : list Z) (n : nat) (d : Z) : Z :=
  match l, n with x :: _, O => x | _ :: l', S n' => tnth l' n' d | [], _ => d end.

(* the timer callback: section 1 (check) and section 2 (deadNode) *)
Definition timer_fire (c : cfg) (s : nstate) (t : ptimer) : nstate * list event :=
  match alookup (tname t) (recs s) with
  | Some r => if st_eqb (rst r) Suspect && Z.eqb (rsince r) (tct t)
              then do_dead c s (rinc r) (tname t) (self c)
              else (s, [])
  | None => (s, [])
  end.

Definition remove_timer (t : ptimer) (ts : list ptimer) : list ptimer :=
  filter (fun u => negb (N.eqb (tname u) (tname t) && Z.eqb (tstart u) (tstart t) && Bool.eqb (tlive u) (tlive t)
                         && Z.eqb (tdeadline u) (tdeadline t))) ts.

(* suspectNode; returns also the timer that must fire immediately (Confirm with no time left) *)
Definition do_suspect (c : cfg) (s : nstate) (inc name from : N) : nstate * list event :=
  match alookup name (recs s) with
  | None => (s, [])
  | Some r =>
      if (inc <? rinc r)%N then (s, [])
      else
        match live_timer name (timers s) with
        | Some t =>
            if (tk t <=? tn t) || Nmem from (tconfs t) then (s, [])
            else
              let n' := tn t + 1 in
              let remaining := tnth (ttab c) (Z.to_nat n') (smin c) - (now s - tstart t) in
              let t' := mkT (tname t) (tct t) (tk t) n' (from :: tconfs t) (tstart t)
                            (if 0 <? remaining then now s + remaining else now s) true in
              let ts' := map (fun u => if N.eqb (tname u) name && tlive u then t' else u) (timers s) in
              let s1 := set_bq (set_timers s ts') (kname name) (BSuspect inc name from) in
              if 0 <? remaining then (s1, [])
              else (* go s.timeoutFn(): fires at once *)
                timer_fire c (set_timers s1 (remove_timer t' (timers s1))) t'
        | None =>
            if negb (st_eqb (rst r) Alive) then (s, [])
            else if N.eqb name (self c) then
                   if fixed c && leaving s then (s, []) else (refute c s r inc, [])
            else
              let s1 := set_bq s (kname name) (BSuspect inc name from) in
              let r' := mkRec inc Suspect (raddr r) (rmeta r) (rvsn r) (now s) in
              let k := if nnodes s - 2 <? kcfg c then 0 else kcfg c in
              let mx := smaxmult c * smin c in
              let t := mkT name (now s) k 0 [from] (now s) (now s + (if k <? 1 then smin c else mx)) true in
              (set_timers (set_rec s1 name r') (timers s1 ++ [t]), [])
        end
  end.

Definition do_merge (c : cfg) (s : nstate) (rs : st) (inc name addr meta : N) (vsn : list N) :=
  match rs with
  | Alive => do_alive c s inc name addr meta vsn false
  | Left => do_dead c s inc name name
  | Dead | Suspect => do_suspect c s inc name (self c)
  end.

(* fire all pending timers whose deadline has passed, earliest first *)
Definition earliest_due (nw : Z) (ts : list ptimer) : option ptimer :=
  fold_left (fun acc t =>
               if tdeadline t <=? nw
               then match acc with
                    | None => Some t
                    | Some u => if tdeadline t <? tdeadline u then Some t else acc
                    end
               else acc) ts None.

Definition set_now (s : nstate) (t : Z) : nstate :=
  mkS (recs s) (nnodes s) (timers s) (linc s) (leaving s) (score s) (bq s) t.

(* fire every pending timer due by [target], earliest first, each at its own deadline instant *)
Fixpoint fire_due (fuel : nat) (c : cfg) (target : Z) (s : nstate) (evs : list event) : nstate * list event :=
  match fuel with
  | O => (set_now s target, evs)
  | S fuel' =>
      match earliest_due target (timers s) with
      | None => (set_now s target, evs)
      | Some t =>
          let s1 := set_now (set_timers s (remove_timer t (timers s))) (Z.max (now s) (tdeadline t)) in
          let '(s2, e) := timer_fire c s1 t in
          fire_due fuel' c target s2 (evs ++ e)
      end
  end.

Definition do_reap (c : cfg) (s : nstate) : nstate :=
  let keep := filter (fun p => negb (dead_or_left (rst (snd p)) && (gtd c <? now s - rsince (snd p)))
                               || (fixed c && N.eqb (fst p) (self c))) (recs s) in
  mkS keep (Z.of_nat (length keep)) (timers s) (linc s) (leaving s) (score s) (bq s) (now s).

Definition set_leaving (s : nstate) : nstate :=
  mkS (recs s) (nnodes s) (timers s) (linc s) true (score s) (bq s) (now s).
Definition bump_linc (s : nstate) : nstate :=
  mkS (recs s) (nnodes s) (timers s) ((linc s + 1) mod two32)%N (leaving s) (score s) (bq s) (now s).

Definition any_alive_other (c : cfg) (s : nstate) : bool :=
  existsb (fun p => negb (N.eqb (fst p) (self c)) && negb (dead_or_left (rst (snd p)))) (recs s).

(* the caller blocks for the completion signal of its broadcast; in a direct-drive run
   nobody transmits, so it waits out the timeout while timers keep firing *)
Definition wait_bcast (c : cfg) (w : Z) (se : nstate * list event) : nstate * list event :=
  let '(s, evs) := se in
  if any_alive_other c s then
    fire_due (S (length (timers s))) c (now s + w) s evs
  else (s, evs).

Definition step (c : cfg) (s : nstate) (o : op) : nstate * list event :=
  match o with
  | OAlive inc name addr meta vsn b => do_alive c s inc name addr meta vsn b
  | OHandleAlive src inc name addr meta vsn =>
      if negb (is_allowed c src) then (s, [])
      else if negb (is_allowed c addr) then (s, [])
      else do_alive c s inc name addr meta vsn false
  | OSuspect inc name from => do_suspect c s inc name from
  | ODead inc name from => do_dead c s inc name from
  | OMerge rs inc name addr meta vsn => do_merge c s rs inc name addr meta vsn
  | OAdvance dt =>
      fire_due (S (length (timers s))) c (now s + dt) s []
  | OReap => (do_reap c s, [])
  | OLeaveBegin => (set_leaving s, [])
  | OLeaveCommit inc => do_dead c s inc (self c) (self c)
  | OIncBegin => (bump_linc s, [])
  | OLeave w =>
      if leaving s then (s, [])
      else
        let s1 := set_leaving s in
        match alookup (self c) (recs s1) with
        | None => (s1, if fixed c then [] else [EvPanic])
        | Some r => wait_bcast c w (do_dead c s1 (rinc r) (self c) (self c))
        end
  | OUpdate meta w =>
      let s1 := bump_linc s in
      match alookup (self c) (recs s1) with
      | None => (s1, [EvPanic])
      | Some r => wait_bcast c w (do_alive c s1 (linc s1) (self c) (raddr r) meta (self_vsn c) true)
      end
  end.

Fixpoint run (c : cfg) (s : nstate) (ops : list op) : nstate * list (list event) :=
  match ops with
  | [] => (s, [])
  | o :: ops' =>
      let '(s1, e) := step c s o in
      let '(s2, es) := run c s1 ops' in
      (s2, e :: es)
  end.

(* the state every case starts from: newMemberlist + setAlive() *)
Definition boot (c : cfg) (meta : N) : nstate :=
  fst (step c (bump_linc (init c)) (OAlive 1 (self c) (self_addr c) meta (self_vsn c) true)).

(* ---------- views ---------- *)
Definition members (s : nstate) : list (N * (N * N)) :=
  map (fun p => (fst p, (raddr (snd p), rmeta (snd p))))
      (filter (fun p => negb (dead_or_left (rst (snd p)))) (recs s)).

Definition rank (x : st) : N := match x with Alive => 0 | Suspect => 1 | Dead | Left => 2 end%N.
