(* Probe.v — executable model of the probe bookkeeping (state.go probeNode, setProbeChannels,
   setAckHandler, invokeAckHandler, invokeNackHandler; net.go handleIndirectPing; awareness.go).
   Time is Z (any unit).  A probe is described by what arrives when: the model says what the probe
   concludes, how the health score moves and which pending-probe records exist. *)
From VF Require Import Base.
Local Open Scope Z_scope.

(* ---------- awareness ---------- *)
Definition apply_delta (mx score delta : Z) : Z :=
  let s := score + delta in if s <? 0 then 0 else if mx - 1 <? s then mx - 1 else s.

(* ---------- pending-probe records (ackHandlers): seq -> deadline ---------- *)
Definition handlers := list (Z * Z).
Definition h_register (h : handlers) (seq deadline : Z) : handlers := (seq, deadline) :: filter (fun e => negb (Z.eqb (fst e) seq)) h.
(* the timer of a record fires at its deadline and deletes it *)
Definition h_advance (h : handlers) (now : Z) : handlers := filter (fun e => now <? snd e) h.
(* invokeAckHandler: the record is found (and deleted) only if it still exists *)
Definition h_ack (h : handlers) (seq now : Z) : bool * handlers :=
  let h' := h_advance h now in
  if existsb (fun e => Z.eqb (fst e) seq) h' then (true, filter (fun e => negb (Z.eqb (fst e) seq)) h') else (false, h').
(* invokeNackHandler: found, not deleted *)
Definition h_nack (h : handlers) (seq now : Z) : bool * handlers :=
  let h' := h_advance h now in (existsb (fun e => Z.eqb (fst e) seq) h', h').

(* ---------- one probe ---------- *)
(* what happens after the ping went out at time 0 *)
Inductive arrival := Ack (seq at_ : Z) | Nack (seq at_ : Z).
Record probe_in := mkPI {
  p_seq : Z;                 (* the probe's own sequence number *)
  p_interval : Z;            (* ProbeInterval scaled by (score+1), read at entry *)
  p_timeout : Z;             (* ProbeTimeout *)
  p_send : Z;                (* 0 sent, 1 send failed with a remote-failure error, 2 other send error *)
  p_arrivals : list arrival; (* acks / nacks delivered to this node, any sequence numbers *)
  p_expected_nacks : Z;      (* indirect peers asked that speak protocol >= 4 *)
  p_tcp : option Z;          (* Some t: the TCP fallback got a matching ack at time t (after the ping) *)
  p_tcp_enabled : bool }.

Inductive outcome_t := Answered | Aborted | Failed.

Definition matching_ack_before (pi : probe_in) (deadline : Z) : bool :=
  existsb (fun a => match a with Ack s t => Z.eqb s (p_seq pi) && (t <? deadline) | _ => false end) (p_arrivals pi).
Definition nacks_before (pi : probe_in) (deadline : Z) : Z :=
  Z.of_nat (length (filter (fun a => match a with Nack s t => Z.eqb s (p_seq pi) && (t <? deadline) | _ => false end) (p_arrivals pi))).

Definition phase2 (pi : probe_in) : bool :=
  Z.eqb (p_send pi) 1 || negb (matching_ack_before pi (Z.min (p_timeout pi) (p_interval pi))).
Definition tcp_contact (pi : probe_in) : bool :=
  phase2 pi && p_tcp_enabled pi && match p_tcp pi with Some t => t <? p_interval pi | None => false end.

Definition probe_outcome (pi : probe_in) : outcome_t :=
  if Z.eqb (p_send pi) 2 then Aborted
  else if matching_ack_before pi (p_interval pi) || tcp_contact pi then Answered
  else Failed.

(* awareness delta of the probe *)
Definition probe_delta (pi : probe_in) : Z :=
  match probe_outcome pi with
  | Aborted => 0
  | Answered => if Z.eqb (p_send pi) 0 then -1 else 0
  | Failed => if 0 <? p_expected_nacks pi
              then Z.max 0 (p_expected_nacks pi - nacks_before pi (p_interval pi))
              else 1
  end.

(* ---------- a node asked to probe on another's behalf (handleIndirectPing at time 0) ---------- *)
Record relay_in := mkRI {
  r_req_seq : Z;            (* the requester's sequence number *)
  r_local_seq : Z;          (* the fresh local one *)
  r_timeout : Z;            (* ProbeTimeout *)
  r_want_nack : bool;
  r_arrivals : list arrival }.
(* (acks relayed under the requester's number, nacks sent) *)
Definition relay_result (ri : relay_in) : Z * Z :=
  let got := existsb (fun a => match a with Ack s t => Z.eqb s (r_local_seq ri) && (t <? r_timeout ri) | _ => false end) (r_arrivals ri) in
  (if got then 1 else 0, if r_want_nack ri && negb got then 1 else 0).
