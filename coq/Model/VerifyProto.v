(* VerifyProto.v — executable model of verifyProtocol (state.go): the version compatibility check
   a push/pull state must pass before it is merged. *)
From VF Require Import Base.
Local Open Scope N_scope.

(* a remote push/pull entry: alive?, version vector *)
Record rnode := mkRN { rn_alive : bool; rn_vsn : list N }.
(* a local node: alive?, pmin pmax pcur dmin dmax dcur *)
Record lnode := mkLN { ln_alive : bool; ln_pmin : N; ln_pmax : N; ln_pcur : N; ln_dmin : N; ln_dmax : N; ln_dcur : N }.

Definition vnth (v : list N) (i : nat) : N := nth i v 0.

(* (maxpmin, minpmax, maxdmin, mindmax) after the two accumulation loops *)
Definition acc_remote (a : N * N * N * N) (r : rnode) : N * N * N * N :=
  let '(a1, a2, a3, a4) := a in
  if negb (rn_alive r) then a
  else if (length (rn_vsn r) <? 5)%nat then a
  else (N.max a1 (vnth (rn_vsn r) 0), N.min a2 (vnth (rn_vsn r) 1), N.max a3 (vnth (rn_vsn r) 3), N.min a4 (vnth (rn_vsn r) 4)).
Definition acc_local (a : N * N * N * N) (n : lnode) : N * N * N * N :=
  let '(a1, a2, a3, a4) := a in
  if negb (ln_alive n) then a
  else (N.max a1 (ln_pmin n), N.min a2 (ln_pmax n), N.max a3 (ln_dmin n), N.min a4 (ln_dmax n)).

Definition remote_cur (r : rnode) : N * N :=
  if (6 <=? length (rn_vsn r))%nat then (vnth (rn_vsn r) 2, vnth (rn_vsn r) 5) else (0, 0).

Definition in_range (a : N * N * N * N) (pc dc : N) : bool :=
  let '(a1, a2, a3, a4) := a in (a1 <=? pc) && (pc <=? a2) && (a3 <=? dc) && (dc <=? a4).

Definition verify_protocol (remote : list rnode) (local : list lnode) : bool :=
  let a := fold_left acc_local local (fold_left acc_remote remote (0, 255, 0, 255)) in
  forallb (fun r => let '(pc, dc) := remote_cur r in in_range a pc dc) remote
  && forallb (fun n => in_range a (ln_pcur n) (ln_dcur n)) local.

(* ---- the readable specification: every speaker's current versions lie inside every alive
        node's advertised ranges ---- *)
Definition ranges (remote : list rnode) (local : list lnode) : list (N * N * N * N) :=
  map (fun r => (vnth (rn_vsn r) 0, vnth (rn_vsn r) 1, vnth (rn_vsn r) 3, vnth (rn_vsn r) 4))
      (filter (fun r => rn_alive r && negb (length (rn_vsn r) <? 5)%nat) remote)
  ++ map (fun n => (ln_pmin n, ln_pmax n, ln_dmin n, ln_dmax n)) (filter ln_alive local).
Definition speakers (remote : list rnode) (local : list lnode) : list (N * N) :=
  map remote_cur remote ++ map (fun n => (ln_pcur n, ln_dcur n)) local.
