(* Wire.v — executable model of the packet path:
   util.go makeCompoundMessage(s)/decodeCompoundMessage, net.go rawSendMsgPacket / ingestPacket /
   handleCommand dispatch, security.go framing (PKCS7, encryptedLength, encryptPayload layout,
   decryptPayload), the CRC header.  AES-GCM and the compress wrapper (LZW + msgpack) are not
   memberlist's own: they are Section variables (validated per run on recorded values).
   A Go panic is the outcome [Panic]. *)
From VF Require Import Base Label.
Local Open Scope N_scope.

(* ---------- big-endian integers ---------- *)
Definition be16 (x : N) : bytes := [(x / 256) mod 256; x mod 256].
Definition be32 (x : N) : bytes := [(x / 16777216) mod 256; (x / 65536) mod 256; (x / 256) mod 256; x mod 256].
Definition rd16 (a b : N) : N := a * 256 + b.
Definition rd32 (a b c d : N) : N := ((a * 256 + b) * 256 + c) * 256 + d.

(* ---------- message types ---------- *)
Definition t_ping := 0. Definition t_indirect := 1. Definition t_ack := 2. Definition t_suspect := 3.
Definition t_alive := 4. Definition t_dead := 5. Definition t_pushpull := 6. Definition t_compound := 7.
Definition t_user := 8. Definition t_compress := 9. Definition t_encrypt := 10. Definition t_nack := 11.
Definition t_hascrc := 12. Definition t_err := 13.

(* ---------- compound messages ---------- *)
(* makeCompoundMessage: type, count as uint8, lengths as uint16, bodies *)
Definition make_compound (msgs : list bytes) : bytes :=
  t_compound :: (N.of_nat (length msgs) mod 256) :: flat_map (fun m => be16 (blen m mod 65536)) msgs ++ concat msgs.

(* makeCompoundMessages: at most 255 parts each *)
Fixpoint chunk255 (fuel : nat) (msgs : list bytes) : list (list bytes) :=
  match fuel with
  | O => []
  | S fuel' =>
      match msgs with
      | [] => []
      | _ => if (255 <? length msgs)%nat then firstn 255 msgs :: chunk255 fuel' (skipn 255 msgs)
             else [msgs]
      end
  end.
Definition make_compounds (msgs : list bytes) : list bytes := map make_compound (chunk255 (S (length msgs)) msgs).

(* decodeCompoundMessage on the bytes AFTER the type byte: (truncated count, parts) *)
Fixpoint read_lengths (n : nat) (buf : bytes) : list N :=
  match n, buf with
  | S n', a :: b :: rest => rd16 a b :: read_lengths n' rest
  | _, _ => []
  end.
Fixpoint split_parts (lens : list N) (buf : bytes) : nat * list bytes :=
  match lens with
  | [] => (O, [])
  | l :: lens' =>
      if (length buf <? N.to_nat l)%nat then (length lens, [])
      else let '(t, ps) := split_parts lens' (skipn (N.to_nat l) buf) in (t, firstn (N.to_nat l) buf :: ps)
  end.
Definition decode_compound (buf : bytes) : outcome (nat * list bytes) :=
  match buf with
  | [] => Err 10
  | n :: rest =>
      let k := N.to_nat n in
      if (length rest <? 2 * k)%nat then Err 11
      else Ok (split_parts (read_lengths k rest) (skipn (2 * k) rest))
  end.

(* ---------- CRC-32 (IEEE, reflected 0xEDB88320) ---------- *)
Definition crc_step (c : N) : N := if N.odd c then N.lxor (N.shiftr c 1) 3988292384 else N.shiftr c 1.
Definition crc_entry (i : N) : N := crc_step (crc_step (crc_step (crc_step (crc_step (crc_step (crc_step (crc_step i))))))).
Definition crc_table : list N := Eval vm_compute in map (fun i => crc_entry (N.of_nat i)) (seq 0 256).
Definition crc32 (b : bytes) : N :=
  (* the Go value is a uint32; the fold never leaves 32 bits, the final [mod] makes that evident *)
  N.modulo (N.lxor (fold_left (fun c x => N.lxor (nth (N.to_nat (N.land (N.lxor c x) 255)) crc_table 0) (N.shiftr c 8)) b 4294967295) 4294967295) 4294967296.

(* ---------- security.go framing ---------- *)
Definition pkcs7_pad (b : bytes) : bytes :=
  let n := 16 - (blen b mod 16) in b ++ repeat n (N.to_nat n).
(* pkcs7decode as written: n := len - int(last); buf[:n] -- panics when last > len (or len = 0) *)
Definition pkcs7_unpad_raw (b : bytes) : outcome bytes :=
  match b with
  | [] => Panic
  | _ => let l := last b 0 in
         if (blen b <? l) then Panic else Ok (firstn (length b - N.to_nat l) b)
  end.
(* validPKCS7 of the repaired code *)
Definition pkcs7_valid (b : bytes) : bool :=
  match b with
  | [] => false
  | _ => let l := last b 0 in
         N.eqb (blen b mod 16) 0 && (1 <=? l) && (l <=? 16) && (l <=? blen b)
         && forallb (N.eqb l) (skipn (length b - N.to_nat l) b)
  end.
Definition enc_overhead (vsn : N) : N := if N.eqb vsn 0 then 45 else 29.
Definition encrypted_length (vsn inp : N) : N :=
  if 1 <=? vsn then 1 + 12 + inp + 16 else 1 + 12 + inp + (16 - inp mod 16) + 16.

Record pcfg := mkP {
  plabel : bytes; skip_label : bool;
  keys : list N;                 (* installed keys, primary first; [] = no encryption *)
  verify_out : bool; verify_in : bool;
  encvsn : N;                    (* 0 for protocol version 1, else 1 *)
  compress_on : bool;
  fixed : bool }.
Definition enc_on (c : pcfg) : bool := match keys c with [] => false | _ => true end.
Definition primary (c : pcfg) : N := hd 0 (keys c).

Section Oracles.
Variable seal : N -> bytes -> bytes -> bytes -> bytes.            (* key nonce plaintext aad -> ct||tag *)
Variable open : N -> bytes -> bytes -> bytes -> option bytes.     (* key nonce ct||tag aad *)
Variable comp : bytes -> bytes.                                   (* compressPayload: type byte 9 + msgpack{Algo,Buf} *)
Variable decomp : bytes -> option bytes.                          (* decompressPayload on the bytes after the type byte *)

(* encryptPayload: vsn || nonce || seal(key, nonce, [pad] msg, aad) *)
Definition encrypt_payload (vsn key : N) (nonce msg aad : bytes) : bytes :=
  vsn :: nonce ++ seal key nonce (if N.eqb vsn 0 then pkcs7_pad msg else msg) aad.

(* rawSendMsgPacket + the label-wrapping transport: the bytes handed to the network *)
Definition send_packet (c : pcfg) (peer_pmax : option N) (msg nonce : bytes) : outcome bytes :=
  let m1 := if compress_on c then let z := comp msg in if (length z <? length msg)%nat then z else msg else msg in
  let m2 := match peer_pmax with
            | Some p => if 5 <=? p then t_hascrc :: be32 (crc32 m1) ++ m1 else m1
            | None => m1
            end in
  let m3 := if enc_on c && verify_out c then encrypt_payload (encvsn c) (primary c) nonce m2 (plabel c) else m2 in
  add_label m3 (plabel c).

(* decryptPayload *)
Fixpoint try_keys (ks : list N) (nonce ct aad : bytes) : option bytes :=
  match ks with
  | [] => None
  | k :: ks' => match open k nonce ct aad with Some p => Some p | None => try_keys ks' nonce ct aad end
  end.
Definition decrypt_payload (c : pcfg) (msg aad : bytes) : outcome bytes :=
  match msg with
  | [] => Err 20
  | vsn :: _ =>
      if 1 <? vsn then Err 21
      else if blen msg <? encrypted_length vsn 0 then Err 22
      else match try_keys (keys c) (firstn 12 (skipn 1 msg)) (skipn 13 msg) aad with
           | None => Err 23
           | Some plain =>
               if N.eqb vsn 0 then
                 if fixed c then (if pkcs7_valid plain then pkcs7_unpad_raw plain else Err 24)
                 else pkcs7_unpad_raw plain
               else Ok plain
           end
  end.

(* what reaches the handlers: (message type, body) in order *)
Definition delivery := (N * bytes)%type.

Fixpoint handle_command (fuel : nat) (buf : bytes) : list delivery :=
  match fuel with
  | O => []
  | S fuel' =>
      match buf with
      | [] => []
      | t :: body =>
          if N.eqb t t_compound then
            match decode_compound body with
            | Ok (_, parts) => flat_map (handle_command fuel') parts
            | _ => []
            end
          else if N.eqb t t_compress then
            match decomp body with
            | Some p => handle_command fuel' p
            | None => []
            end
          else if N.eqb t t_ping || N.eqb t t_indirect || N.eqb t t_ack || N.eqb t t_nack
                  || N.eqb t t_suspect || N.eqb t t_alive || N.eqb t t_dead || N.eqb t t_user
          then [(t, body)]
          else []
      end
  end.

(* ingestPacket: Ok deliveries (possibly none: dropped) or Panic *)
Definition ingest (fuel : nat) (c : pcfg) (pkt : bytes) : outcome (list delivery) :=
  match remove_label pkt with
  | Ok (buf, lab) =>
      if skip_label c && negb (match lab with [] => true | _ => false end) then Ok []
      else
        let lab' := if skip_label c then plabel c else lab in
        if negb (list_eqb N.eqb (plabel c) lab') then Ok []
        else
          let after_crypto : outcome bytes :=
            if enc_on c then
              match decrypt_payload c buf lab' with
              | Ok p => Ok p
              | Panic => Panic
              | Err e => if negb (verify_in c) then Ok buf else Err e
              end
            else Ok buf in
          match after_crypto with
          | Ok b =>
              match b with
              | t :: c1 :: c2 :: c3 :: c4 :: rest =>
                  if N.eqb t t_hascrc then
                    if N.eqb (crc32 rest) (rd32 c1 c2 c3 c4) then Ok (handle_command fuel rest) else Ok []
                  else Ok (handle_command fuel b)
              | _ => Ok (handle_command fuel b)
              end
          | Panic => Panic
          | Err _ => Ok []
          end
  | _ => Ok []
  end.
End Oracles.
