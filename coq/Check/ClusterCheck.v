(* ClusterCheck.v — judgements on the records of the cluster simulations (C03, C04, C05).
   The harness records facts only; everything that decides a property is computed here.
   Rows (all numbers, times in ms since the start of the case):
     [t;1;node;subject]                    NotifyLeave at node for subject
     [t;2;sender;subject;inc;kind;from]    suspect (kind 0) / dead (kind 1, not self-announced) message put on the wire
     [t;3;node;score]                      polled health score <> 0
     [t;4;node;subject;state]              polled record not Alive (1 suspect, 2 dead, 3 left)
     [t;5;node;target;idx;len;name0;dead0;...]  direct ping of a probe with the prober's list and cursor
     [t;6;victim]                          crash
     [t;7;node;victim]                     node listed victim in Members() at the crash
     [t;8;node;subject;state;inc]          view when faults stop
     [t;9;node;own_inc;meta;left]          live node when faults stop
     [t;10;node;member;meta]               Members() at the end
     [t;11;node;subject]                   NotifyJoin at node for subject (kind-1 cases only)
     [t;12;node;score]                     health score at the end
     [t;13;node]                           node leaves
     [t;14;node]                           node restarted
     [t;15;a;b]                            Join failed
     [t;16]                                the healthy period ends: faults begin *)
From Coq Require Import List NArith ZArith Bool Uint63.
Import ListNotations.
From VF Require Import Base Core Cursor Cursor_proofs Raw.
Local Open Scope Z_scope.

Definition row := list Z.
Definition dec_rows (l : list (list int)) : list row := map (map zi) l.

Definition rkind (r : row) : Z := nth 1 r (-1).
Definition rt (r : row) : Z := nth 0 r 0.
Definition rget (k : nat) (r : row) : Z := nth k r (-1).
Definition of_kind (k : Z) (rs : list row) : list row := filter (fun r => Z.eqb (rkind r) k) rs.

Fixpoint zmem (x : Z) (l : list Z) : bool := match l with [] => false | y :: l' => Z.eqb x y || zmem x l' end.
Fixpoint zins (x : Z) (l : list Z) : list Z :=
  match l with [] => [x] | y :: l' => if x <=? y then x :: l else y :: zins x l' end.
Definition zsort (l : list Z) : list Z := fold_right zins [] l.
Fixpoint zlist_eqb (a b : list Z) : bool :=
  match a, b with [], [] => true | x :: a', y :: b' => Z.eqb x y && zlist_eqb a' b' | _, _ => false end.
Fixpoint first_some {A} (f : A -> verdict) (l : list A) : verdict :=
  match l with [] => vok | x :: l' => let v := f x in if N.eqb (vcode v) 0 then first_some f l' else v end.
Definition vthen (v : verdict) (w : verdict) : verdict := if N.eqb (vcode v) 0 then w else v.

(* ---------- configuration ---------- *)
Record ccfg := mkCC { c_kind : Z; c_n : Z; c_pi : Z; c_awmax : Z; c_smm : Z; c_nodes : list (Z * Z) }.
Fixpoint pairs (l : list Z) : list (Z * Z) := match l with a :: b :: l' => (a, b) :: pairs l' | _ => [] end.
Definition dec_cfg (c : list Z) : option ccfg :=
  match c with
  | k :: n :: pi :: _ :: _ :: _ :: aw :: smm :: _ :: rest => Some (mkCC k n pi aw smm (pairs rest))
  | _ => None
  end.
(* the recorded suspicionTimeout(mult, N, PI) must be what util.go computes: mult * max(1, log10 N) * PI,
   exactly mult*PI up to ten nodes and between mult*PI and 2*mult*PI up to a hundred *)
Definition smin_ok (c : ccfg) (p : Z * Z) : bool :=
  let '(mult, smin) := p in
  if c_n c <=? 10 then Z.eqb smin (mult * c_pi c)
  else (mult * c_pi c <=? smin) && (smin <=? 2 * mult * c_pi c) && (c_n c <=? 100).
Definition node_bound (c : ccfg) (j : Z) : Z :=
  let '(_, smin) := nth (Z.to_nat (j mod 16)) (c_nodes c) (0, 0) in   (* a process that took over an address has id + 16 *)
  detect_bound (c_n c) (c_pi c) (c_awmax c) (c_smm c * smin).

(* ---------- C04 ---------- *)
(* the healthy period ends with the first injected fault or crash *)
Definition first_crash (rs : list row) : option Z :=
  match filter (fun r => Z.eqb (rkind r) 6 || Z.eqb (rkind r) 16) rs with r :: _ => Some (rt r) | [] => None end.
Definition before (lim : option Z) (t : Z) : bool := match lim with Some c => t <? c | None => true end.
Definition left_by (rs : list row) (x t : Z) : bool :=
  existsb (fun r => Z.eqb (rget 2 r) x && (rt r <=? t)) (of_kind 13 rs).

Definition mon_C04 (rs : list row) : verdict :=
  let lim := first_crash rs in
  first_some (fun r =>
    if negb (before lim (rt r)) then vok
    else if Z.eqb (rkind r) 2 then mkV 540 (Z.to_N (rt r))
    else if Z.eqb (rkind r) 1 then (if left_by rs (rget 3 r) (rt r) then vok else mkV 541 (Z.to_N (rt r)))
    else if Z.eqb (rkind r) 3 then mkV 542 (Z.to_N (rt r))
    else if Z.eqb (rkind r) 4 then
      (if left_by rs (rget 3 r) (rt r) then
         (if Z.eqb (rget 4 r) 3 then vok
          else if Z.eqb (rget 4 r) 0 then
            (* held Alive: fine while the node has not heard of the departure; but once it held the member Left,
               the member must not come back *)
            (if existsb (fun q => Z.eqb (rkind q) 4 && Z.eqb (rget 2 q) (rget 2 r) && Z.eqb (rget 3 q) (rget 3 r)
                                  && Z.eqb (rget 4 q) 3 && (rt q <? rt r)) rs
             then mkV 545 (Z.to_N (rt r)) else vok)
          else mkV 543 (Z.to_N (rt r)))
       else mkV 543 (Z.to_N (rt r)))
    else vok) rs.

(* ---------- C03: detection in time ---------- *)
Definition crashed (rs : list row) (x : Z) : bool := existsb (fun r => Z.eqb (rget 2 r) x) (of_kind 6 rs).
Definition mon_C03_detect (c : ccfg) (rs : list row) : verdict :=
  first_some (fun l =>
    let tc := rt l in let j := rget 2 l in let v := rget 3 l in
    if crashed rs j || left_by rs j (tc + node_bound c j) then vok
    else if negb (existsb (fun r => Z.eqb (rget 2 r) j && Z.eqb (rget 3 r) v && (tc <=? rt r) && (rt r <=? tc + node_bound c j)) (of_kind 1 rs))
         then mkV 530 (Z.to_N j)
    else if existsb (fun r => Z.eqb (rget 2 r) j && Z.eqb (rget 3 r) v) (of_kind 10 rs) then mkV 531 (Z.to_N j)
    else vok) (of_kind 7 rs).

(* ---------- C03: the probe schedule ---------- *)
Record prow := mkP { p_t : Z; p_target : Z; p_idx : Z; p_snap : list (Z * Z) }.
Definition dec_prow (r : row) : prow := mkP (rt r) (rget 3 r) (rget 4 r) (pairs (skipn 6 r)).

(* membership events at node j (join = a new or resurrected member, leave = dead or left): the only
   moments at which a peer's probe-ability changes in j's eyes.  (time, subject) *)
Definition mem_events (rs : list row) (j : Z) : list (Z * Z) :=
  map (fun r => (rt r, rget 3 r)) (filter (fun r => (Z.eqb (rkind r) 1 || Z.eqb (rkind r) 11) && Z.eqb (rget 2 r) j) rs).
Definition quiet (ev : list (Z * Z)) (t1 t2 : Z) : bool :=
  negb (existsb (fun e => (t1 <=? fst e) && (fst e <=? t2)) ev).
Definition quiet_for (ev : list (Z * Z)) (x t1 t2 : Z) : bool :=
  negb (existsb (fun e => Z.eqb (snd e) x && (t1 <=? fst e) && (fst e <=? t2)) ev).
Definition probes_of (rs : list row) (j : Z) : list prow :=
  map dec_prow (filter (fun r => Z.eqb (rget 2 r) j) (of_kind 5 rs)).

Definition snap_dead (s : list (Z * Z)) (x : Z) : option bool :=
  match filter (fun p => Z.eqb (fst p) x) s with (_, d) :: _ => Some (negb (Z.eqb d 0)) | [] => None end.
Definition snap_key (s : list (Z * Z)) : list Z := zsort (map (fun p => fst p * 2 + (if Z.eqb (snd p) 0 then 0 else 1)) s).
Definition snap_same (a b : list (Z * Z)) : bool := zlist_eqb (snap_key a) (snap_key b).

(* passes.  resetNodes ran between two consecutive probes when the cursor did not advance, or when
   (membership and statuses being the same in both records) every entry before the probed one is not
   probe-able: the earlier probe of this pass (of a peer still probe-able in its own record) would be
   among them.  When statuses moved in between, a
   wrap may go unnoticed; the passes below are then unions of real passes, which the rules tolerate. *)
Definition all_before_skipped (j : Z) (p : prow) : bool :=
  forallb (fun e => Z.eqb (fst e) j || negb (Z.eqb (snd e) 0)) (firstn (Z.to_nat (p_idx p - 1)) (p_snap p)).
Definition wrapped_between (ev : list (Z * Z)) (j : Z) (q p : prow) : bool :=
  (p_idx p <=? p_idx q) ||
  (snap_same (p_snap q) (p_snap p) && quiet ev (p_t q) (p_t p) && all_before_skipped j p &&
   match snap_dead (p_snap q) (p_target q) with Some false => true | _ => false end).
Fixpoint split_passes (ev : list (Z * Z)) (j : Z) (prev : option prow) (cur : list prow) (l : list prow) : list (list prow) :=
  match l with
  | [] => [rev cur]
  | p :: l' => match prev with
               | Some q => if wrapped_between ev j q p then rev cur :: split_passes ev j (Some p) [p] l'
                           else split_passes ev j (Some p) (p :: cur) l'
               | None => split_passes ev j (Some p) (p :: cur) l'
               end
  end.

Definition alive_throughout (x : Z) (ps : list prow) : bool :=
  forallb (fun p => match snap_dead (p_snap p) x with Some false => true | _ => false end) ps.
(* the candidates: whoever is in the first record of the previous pass (a peer missing there was not present throughout) *)
Definition names_of (ps : list prow) : list Z := match ps with p :: _ => map fst (p_snap p) | [] => [] end.

Fixpoint mon_passes (ev : list (Z * Z)) (j : Z) (prev : option (list prow)) (l : list (list prow)) : verdict :=
  match l with
  | cur :: ((nxt :: _) :: _ as rest) =>
      (* [cur] is a completed pass (another one follows) *)
      let v :=
        match prev with
        | None => vok
        | Some pv =>
            let tg := map p_target cur in
            (* coverage: in the list and probe-able throughout the previous and this pass (including the tick that
               ended it, whose record opens the next pass) => probed in this pass *)
            let v1 := first_some (fun x => if Z.eqb x j then vok
                                            else if alive_throughout x (pv ++ cur ++ [nxt]) && quiet_for ev x (match pv with p0 :: _ => p_t p0 | [] => 0 end) (p_t nxt)
                                                    && negb (zmem x tg) then mkV 534 (Z.to_N j) else vok)
                                 (names_of pv) in
            (* exactness: membership and statuses stable from the previous pass to the start of the next one *)
            let all := pv ++ cur ++ [nxt] in
            let v2 := match all with
                      | p0 :: _ =>
                          if forallb (fun p => snap_same (p_snap p0) (p_snap p)) all && quiet ev (p_t p0) (p_t nxt)
                          then let want := zsort (map fst (filter (fun q => negb (Z.eqb (fst q) j) && Z.eqb (snd q) 0) (p_snap p0))) in
                               if zlist_eqb (zsort tg) want then vok else mkV 535 (Z.to_N j)
                          else vok
                      | [] => vok
                      end in
            vthen v1 v2
        end in
      vthen v (mon_passes ev j (Some cur) rest)
  | _ => vok
  end.

(* never this node; never a peer that was already Dead/Left at the previous probe and still is *)
Fixpoint mon_targets (ev : list (Z * Z)) (j : Z) (prev : option prow) (l : list prow) : verdict :=
  match l with
  | [] => vok
  | p :: l' =>
      if Z.eqb (p_target p) j then mkV 532 (Z.to_N j)
      else match prev, snap_dead (p_snap p) (p_target p) with
           | Some q, Some true => match snap_dead (p_snap q) (p_target p) with
                                  | Some true => if quiet_for ev (p_target p) (p_t q) (p_t p) then mkV 533 (Z.to_N j)
                                                 else mon_targets ev j (Some p) l'
                                  | _ => mon_targets ev j (Some p) l'
                                  end
           | _, _ => mon_targets ev j (Some p) l'
           end
  end.

(* the Cursor model on consecutive probes with the same membership and statuses and no membership
   event at the prober in between *)
Definition el_of (j : Z) (s : list (Z * Z)) (x : N) : bool :=
  negb (Z.eqb (Z.of_N x) j) && match snap_dead s (Z.of_N x) with Some false => true | _ => false end.
Fixpoint next_sel (fuel : nat) (el : N -> bool) (rs : list N) (s : cst) (w : bool) : option (N * nat * bool) :=
  match fuel with
  | O => None
  | S f => let '(s', sel, w') := tick el rs s in
           match sel with Some x => Some (x, idx s', w || w') | None => next_sel f el rs s' (w || w') end
  end.
Fixpoint mon_model (ev : list (Z * Z)) (j : Z) (l : list prow) : verdict :=
  match l with
  | p :: ((q :: _) as l') =>
      let v :=
        if snap_same (p_snap p) (p_snap q) && quiet ev (p_t p) (p_t q) then
          let o1 := map (fun e => Z.to_N (fst e)) (p_snap p) in
          let o2 := map (fun e => Z.to_N (fst e)) (p_snap q) in
          match next_sel 3 (el_of j (p_snap p)) o2 (mkC o1 (Z.to_nat (p_idx p))) false with
          | Some (x, i', w) =>
              if negb (Z.eqb (Z.of_N x) (p_target q) && Z.eqb (Z.of_nat i') (p_idx q)) then mkV 60 (Z.to_N j)
              else if negb w && negb (list_eqb N.eqb o1 o2) then mkV 61 (Z.to_N j) else vok
          | None => mkV 62 (Z.to_N j)
          end
        else vok in
      vthen v (mon_model ev j l')
  | _ => vok
  end.

Definition node_ids (c : ccfg) : list Z := map Z.of_nat (seq 0 (Z.to_nat (c_n c))).
Definition mon_C03_sched (c : ccfg) (rs : list row) : verdict :=
  first_some (fun j => let ps := probes_of rs j in let ev := mem_events rs j in
                       vthen (mon_targets ev j None ps) (mon_passes ev j None (split_passes ev j None [] ps))) (node_ids c).
Definition corr_sched (c : ccfg) (rs : list row) : verdict :=
  first_some (fun j => mon_model (mem_events rs j) j (probes_of rs j)) (node_ids c).

(* ---------- C05 ---------- *)
(* live, not departed nodes when faults stop: (node, own incarnation, meta) *)
Definition live_set (rs : list row) : list (Z * Z * Z) :=
  map (fun r => (rget 2 r, rget 3 r, rget 4 r)) (filter (fun r => Z.eqb (rget 5 r) 0) (of_kind 9 rs)).
Definition live_ids (rs : list row) : list Z := map (fun p => fst (fst p)) (live_set rs).

(* graph search on at most |ids| nodes *)
Fixpoint reach (fuel : nat) (edge : Z -> Z -> bool) (ids : list Z) (seen : list Z) : list Z :=
  match fuel with
  | O => seen
  | S f => let more := filter (fun y => negb (zmem y seen) && existsb (fun x => edge x y || edge y x) seen) ids in
           match more with [] => seen | _ => reach f edge ids (more ++ seen) end
  end.
Definition connected (edge : Z -> Z -> bool) (ids : list Z) : bool :=
  match ids with
  | [] => true
  | x :: _ => let r := reach (length ids) edge ids [x] in forallb (fun y => zmem y r) ids
  end.

(* i lists j in Members(): a record that is neither Dead nor Left *)
Definition lists (rs : list row) (i j : Z) : bool :=
  existsb (fun r => Z.eqb (rget 2 r) i && Z.eqb (rget 3 r) j && (rget 4 r <? 2)) (of_kind 8 rs).
(* i holds j Alive at j's current incarnation *)
Definition fresh_alive (rs : list row) (i j : Z) : bool :=
  existsb (fun r => Z.eqb (rget 2 r) i && Z.eqb (rget 3 r) j && Z.eqb (rget 4 r) 0 &&
                    existsb (fun p => Z.eqb (fst (fst p)) j && (snd (fst p) <=? rget 5 r)) (live_set rs)) (of_kind 8 rs).

Definition view_ok (rs : list row) (i : Z) : bool :=
  let want := zsort (map (fun p => fst (fst p) * 10000000000 + snd p) (live_set rs)) in
  let got := zsort (map (fun r => rget 3 r * 10000000000 + rget 4 r) (filter (fun r => Z.eqb (rget 2 r) i) (of_kind 10 rs))) in
  zlist_eqb want got.

(* the invariants of C05_claims_below_owner and C05_claims_below_history, looked for on the implementation:
   when faults stop, no live node holds a record of a member at an incarnation above every counter that member
   itself reached — its current one if it is running (kind 9 rows), and the one each of its earlier lives ended
   with (kind 17 rows: node, incarnation when the process was stopped) *)
Definition reached (rs : list row) (x : Z) : list Z :=
  map (rget 3) (filter (fun r => Z.eqb (rget 2 r) x) (of_kind 9 rs ++ of_kind 17 rs)).
Definition mon_below_owner (rs : list row) : verdict :=
  first_some (fun r =>
    match reached rs (rget 3 r) with
    | b :: bs => if fold_left Z.max bs b <? rget 5 r then mkV 522 (Z.to_N (rget 2 r)) else vok
    | [] => vok
    end) (of_kind 8 rs).

Definition mon_C05 (rs : list row) : verdict :=
  let ids := live_ids rs in
  if negb (connected (lists rs) ids) then vok      (* the property's precondition does not hold *)
  else match filter (fun i => negb (view_ok rs i)) ids with
       | [] => vok
       | i :: _ => if connected (fresh_alive rs) ids then mkV 520 (Z.to_N i) else mkV 521 (Z.to_N i)
       end.

(* a stream write to a frozen host that was still blocked after every deadline the code can have set (kind 18
   rows: node, milliseconds): the goroutine that wrote — the periodic push/pull, or the probe's TCP fallback —
   is stuck for good, so that node's anti-entropy (or failure detector) has stopped *)
Definition mon_stuck (kind : Z) (code : N) (rs : list row) : verdict :=
  first_some (fun r => mkV code (Z.to_N (rget 2 r))) (of_kind kind rs).

(* ---------- a node's own operation log, replayed through Core ---------- *)
(* kind 20 rows: [_; 20; node; t_ns; leaving; op; name; inc; addr|from; meta; bootstrap] in the order in which the
   operations took effect (written under the node lock by the instrumented aliveNode / suspectNode / deadNode /
   resetNodes); kind 21 rows: the node's records when the log ends; kind 22: [_; 22; node; counter; leaving; unusable].
   Timers never fire inside the replay (their callbacks are in the log as dead claims signed by the node itself),
   so the suspicion timeouts are set beyond any horizon. *)
Definition far : Z := 1000000000000000000.
Definition hvsn : list N := [1; 5; 2; 0; 0; 0]%N.
Definition log_cfg (c : ccfg) (i : Z) (addr : N) : cfg :=
  let mult := fst (nth (Z.to_nat (i mod 16)) (c_nodes c) (4, 0)) in
  mkCfg (Z.to_N i) addr hvsn 0 (150 * c_pi c * 1000000) (mult - 2) far (c_smm c)
        [far; far; far; far; far; far; far; far; far; far] (c_awmax c) false false [] true.
Definition with_now (s : nstate) (t : Z) (lv : bool) : nstate :=
  mkS (recs s) (nnodes s) (timers s) (linc s) lv (score s) (bq s) t.
Definition with_linc (s : nstate) (l : N) : nstate :=
  mkS (recs s) (nnodes s) (timers s) l (leaving s) (score s) (bq s) (now s).
Definition log_op (cf : cfg) (s : nstate) (r : row) : nstate :=
  let s1 := with_now s (rget 3 r) (Z.eqb (rget 4 r) 1) in
  let k := rget 5 r in
  let name := Z.to_N (rget 6 r) in let inc := Z.to_N (rget 7 r) in
  if Z.eqb k 0 then
    let b := Z.eqb (rget 10 r) 1 in
    (* setAlive / UpdateNode drew the incarnation before taking the lock *)
    let s2 := if b then with_linc s1 (N.max (linc s1) inc) else s1 in
    fst (step cf s2 (OAlive inc name (Z.to_N (rget 8 r)) (Z.to_N (rget 9 r)) hvsn b))
  else if Z.eqb k 1 then fst (step cf s1 (OSuspect inc name (Z.to_N (rget 8 r))))
  else if Z.eqb k 2 then fst (step cf s1 (ODead inc name (Z.to_N (rget 8 r))))
  else fst (step cf s1 OReap).
Fixpoint zrins (r : list Z) (l : list (list Z)) : list (list Z) :=
  match l with
  | [] => [r]
  | q :: l' => if nth 0 r 0 <=? nth 0 q 0 then r :: l else q :: zrins r l'
  end.
Definition st_num (x : st) : Z := match x with Alive => 0 | Suspect => 1 | Dead => 2 | Left => 3 end.
Definition corr_log_node (c : ccfg) (rs : list row) (i : Z) : verdict :=
  let ops := filter (fun r => Z.eqb (rget 2 r) i) (of_kind 20 rs) in
  match ops, filter (fun r => Z.eqb (rget 2 r) i) (of_kind 22 rs) with
  | first :: _, [fin] =>
      if Z.eqb (rget 5 fin) 1 then vok
      else if negb (Z.eqb (rget 5 first) 0 && Z.eqb (rget 10 first) 1) then vok   (* the log does not start at setAlive *)
      else
        let cf := log_cfg c i (Z.to_N (rget 8 first)) in
        let s := fold_left (log_op cf) ops (init cf) in
        let got := fold_right zrins [] (map (fun p => [Z.of_N (fst p); Z.of_N (rinc (snd p)); st_num (rst (snd p)); Z.of_N (raddr (snd p)); Z.of_N (rmeta (snd p))]) (recs s)) in
        let want := fold_right zrins [] (map (fun r => skipn 3 r) (filter (fun r => Z.eqb (rget 2 r) i) (of_kind 21 rs))) in
        if list_eqb zlist_eqb got want && Z.eqb (Z.of_N (linc s)) (rget 3 fin) then vok
        else mkV 63 (Z.to_N i)
  | _, _ => vok
  end.
Definition corr_logs (c : ccfg) (rs : list row) : verdict :=
  first_some (corr_log_node c rs) [0; 1; 2].

(* ---------- entry ---------- *)
(* sel: 0 everything; 3 / 4 / 5 only that property's monitors (plus the correspondence) *)
Definition check_case (sel : Z) (cs : list int * (list (list int) * list (list int))) : verdict :=
  match dec_cfg (map zi (fst cs)) with
  | None => mkV 1 0
  | Some c =>
      let rs := dec_rows (snd (snd cs)) in
      if negb (forallb (smin_ok c) (c_nodes c)) then mkV 2 0
      else
        let on (p : Z) := Z.eqb sel 0 || Z.eqb sel p in
        if Z.eqb (c_kind c) 3 then
          (* contention in real time: a worker that never came back (kind 19 row) *)
          (if on 4 then mon_stuck 19 546 rs else vok)
        else if Z.eqb (c_kind c) 1 then
          (* the property monitors first: a violation is reported as such even when the probe records
             no longer match the cursor model *)
          vthen (if on 4 then mon_C04 rs else vok)
          (vthen (if on 3 then mon_C03_detect c rs else vok)
          (vthen (if on 3 then mon_C03_sched c rs else vok)
          (vthen (if on 3 then mon_stuck 18 536 rs else vok)
          (* C05 rests on it too: a member held Suspect keeps being probed (the ping carries the suspicion, the
             ack carries the refutation), so the coverage rule is also judged under C05 *)
          (vthen (if Z.eqb sel 5 then (let v := mon_C03_sched c rs in if N.eqb (vcode v) 534 then mkV 524 (vstep v) else vok) else vok)
          (vthen (corr_sched c rs) (corr_logs c rs))))))
        else if on 5 then vthen (mon_stuck 18 523 rs) (vthen (mon_below_owner rs) (vthen (mon_C05 rs) (corr_logs c rs))) else vok
  end.
