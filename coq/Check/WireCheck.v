(* WireCheck.v — correspondence + monitors for the packet path (C11 C12 C13 C14 C15 C16). *)
From Coq Require Import List NArith ZArith Bool Uint63.
Import ListNotations.
From VF Require Import Base Label Wire Raw Keyring.
Local Open Scope N_scope.

Definition bytes_of (v : list int) : bytes := map ni v.
Definition beq := list_eqb N.eqb.

(* cfg: kind sel udp skipS skipR vout vinR encvsn compress fixed pm class | nkS keysS | nkR keysR | nlS labS | nlR labR
        | 2*nops (op key)*   -- the receiver's key history after it was set up with keysR: op 0 AddKey, 1 UseKey, 2 RemoveKey *)
Record wcase := mkW {
  w_kind : N; w_udp : N; w_class : N; w_pm : option N;
  w_s : pcfg; w_r : pcfg }.

Definition take_counted (l : list int) : list N * list int :=
  match l with
  | n :: rest => (map ni (take (nati n) rest), drop (nati n) rest)
  | [] => ([], [])
  end.

(* the keys installed after a history of keyring calls, primary first: the Keyring model (every key of the harness pool
   has a valid length) *)
Fixpoint dec_kops (l : list N) : list kop :=
  match l with
  | op :: k :: l' => (if N.eqb op 0 then KAdd k else if N.eqb op 1 then KUse k else KRemove k) :: dec_kops l'
  | _ => []
  end.
Definition ring_after (ks : list N) (hist : list N) : list N :=
  match hist with
  | [] => ks
  | _ => ring (fst (krun (fun _ => true) true (mkK [ks] 0) (dec_kops hist)))
  end.

Definition dec_cfg (v : list int) : option wcase :=
  match v with
  | kind :: _ :: udp :: skS :: skR :: vout :: vinR :: ev :: cm :: fx :: pm :: cls :: rest =>
      let '(kS, r1) := take_counted rest in
      let '(kR, r2) := take_counted r1 in
      let '(lS, r3) := take_counted r2 in
      let '(lR, r4) := take_counted r3 in
      let '(hist, _) := take_counted r4 in
      Some (mkW (ni kind) (ni udp) (ni cls) (if Uint63.eqb pm 0 then None else Some (ni pm - 1))
                (mkP lS (bi skS) kS (bi vout) true (ni ev) (bi cm) (bi fx))
                (mkP lR (bi skR) (ring_after kR hist) true (bi vinR) (ni ev) false (bi fx)))
  | _ => None
  end.

(* oracle tables *)
Record aead_e := mkAE { ae_key : N; ae_nonce : bytes; ae_aad : bytes; ae_plain : bytes; ae_ct : bytes }.
Record dec_e := mkDE { de_body : bytes; de_ok : bool; de_out : bytes }.

Definition parse_entry (v : list int) : option aead_e + option dec_e + option bytes :=
  match v with
  | tag :: rest =>
      if Uint63.eqb tag 1 then
        match rest with
        | k :: r1 =>
            let nonce := map ni (take 12 r1) in
            let '(aad, r3) := take_counted (drop 12 r1) in
            let '(plain, r4) := take_counted r3 in
            inl (inl (Some (mkAE (ni k) nonce aad plain (map ni r4))))
        | [] => inl (inl None)
        end
      else if Uint63.eqb tag 2 then
        match rest with
        | ok :: r1 => let '(body, r2) := take_counted r1 in inl (inr (Some (mkDE body (bi ok) (map ni r2))))
        | [] => inl (inr None)
        end
      else if Uint63.eqb tag 3 then inr (Some (map ni rest))
      else inr None
  | [] => inr None
  end.

Fixpoint split_entries (l : list (list int)) : list aead_e * list dec_e * list bytes :=
  match l with
  | [] => ([], [], [])
  | v :: l' =>
      let '(a, d, p) := split_entries l' in
      match parse_entry v with
      | inl (inl (Some e)) => (e :: a, d, p)
      | inl (inr (Some e)) => (a, e :: d, p)
      | inr (Some b) => (a, d, b :: p)
      | _ => (a, d, p)
      end
  end.

Definition open_tab (t : list aead_e) (k : N) (n ct ad : bytes) : option bytes :=
  match find (fun e => N.eqb (ae_key e) k && beq (ae_nonce e) n && beq (ae_ct e) ct && beq (ae_aad e) ad) t with
  | Some e => Some (ae_plain e) | None => None end.
Definition seal_tab (t : list aead_e) (k : N) (n p ad : bytes) : bytes :=
  match find (fun e => N.eqb (ae_key e) k && beq (ae_nonce e) n && beq (ae_plain e) p && beq (ae_aad e) ad) t with
  | Some e => ae_ct e | None => [] end.
Definition decomp_tab (t : list dec_e) (body : bytes) : option bytes :=
  match find (fun e => beq (de_body e) body) t with
  | Some e => if de_ok e then Some (de_out e) else None | None => None end.

(* observed deliveries: [queue; type; body...]; inline types (ping, indirect ping, ack, nack) are
   observed through their effect only, so their bodies are not compared *)
Definition inline_t (t : N) : bool := N.eqb t t_ping || N.eqb t t_indirect || N.eqb t t_ack || N.eqb t t_nack.
Definition proj_delivery (d : delivery) : N * bytes := (fst d, if inline_t (fst d) then [] else snd d).
Definition dec_delivery (v : list int) : option (N * bytes) :=
  match v with
  | _ :: t :: body => Some (ni t, if inline_t (ni t) then [] else map ni body)
  | _ => None
  end.
Definition dl_eqb (a b : list (N * bytes)) : bool :=
  list_eqb (fun x y => N.eqb (fst x) (fst y) && beq (snd x) (snd y)) a b.
(* the two hand-off queues are independent: compare alive (high priority) and the rest separately *)
Definition cls_of (d : N * bytes) : N := if N.eqb (fst d) t_alive then 1 else if inline_t (fst d) then 2 else 0.
Definition of_cls (c : N) (l : list (N * bytes)) := filter (fun d => N.eqb (cls_of d) c) l.
(* inline deliveries are observed through their effects, without order: compare the multiset of types *)
Definition dl_equiv (a b : list (N * bytes)) : bool :=
  dl_eqb (of_cls 0 a) (of_cls 0 b) && dl_eqb (of_cls 1 a) (of_cls 1 b)
  && list_eqb N.eqb (sortN (map fst (of_cls 2 a))) (sortN (map fst (of_cls 2 b))).

Fixpoint dec_all {A} (f : list int -> option A) (l : list (list int)) : list A :=
  match l with [] => [] | v :: l' => match f v with Some x => x :: dec_all f l' | None => dec_all f l' end end.

(* deliveries of a plain (uncompressed, non-compound) message *)
Definition own_delivery (m : bytes) : list (N * bytes) :=
  match m with
  | [] => []
  | t :: body => if N.eqb t t_compound then [] else [proj_delivery (t, body)]
  end.

Definition fuel0 : nat := 12.

Definition check_case (sel : N) (cs : list int * (list (list int) * list (list int))) : verdict :=
  match dec_cfg (fst cs) with
  | None => mkV 1 0
  | Some w =>
      let ops := fst (snd cs) in
      let obs := snd (snd cs) in
      let msg := bytes_of (nth 0 ops []) in
      let wire := bytes_of (nth 1 ops []) in
      let compm := bytes_of (nth 2 ops []) in
      let '(aes, des, parts) := split_entries (drop 3 ops) in
      let nobs := length obs in
      let final := nth (nobs - 1) obs [] in
      let obs_d := dec_all dec_delivery (take (nobs - 1) obs) in
      let pan := match final with p :: _ => bi p | [] => false end in
      let sealed_ok := match final with [_; _; s; _] => bi s | _ => true end in
      let leak := match final with [_; _; _; l] => bi l | _ => false end in
      let seal := seal_tab aes in let open := open_tab aes in
      let comp := fun _ : bytes => compm in let decomp := decomp_tab des in
      let want (c : N) := N.eqb sel 0 || N.eqb sel c in
      let model_in := ingest open decomp fuel0 (w_r w) wire in
      (* whether an inline handler (ping, ack, ...) acts depends on its msgpack body decoding, which
         the packet model does not look into: on arbitrary bytes only the queued deliveries are compared *)
      let same (a b : list (N * bytes)) :=
        if N.eqb (w_kind w) 1 then dl_equiv a b
        else dl_eqb (of_cls 0 a) (of_cls 0 b) && dl_eqb (of_cls 1 a) (of_cls 1 b) in
      let corr_in :=
        match model_in with
        | Ok ds => if pan then mkV 43 0 else if same (map proj_delivery ds) obs_d then vok else mkV 41 0
        | Panic => if pan then vok else mkV 43 0
        | Err _ => mkV 42 0
        end in
      if N.eqb (w_kind w) 1 then
        (* ---- genuine send, compatible receiver ---- *)
        let expected := flat_map own_delivery parts in
        if want 13 && pan then mkV 240 0
        else if want 12 && negb (dl_equiv expected obs_d) then mkV 200 0
        (* C16: a packet carrying the receiver's own label (1..255 bytes) must get through *)
        else if want 16 && negb (match plabel (w_s w) with [] => true | _ => false end) && negb (dl_equiv expected obs_d) then mkV 221 0
        else if want 15 && negb sealed_ok then mkV 210 0
        else if want 15 && leak then mkV 211 0
        else
          let nonce := if enc_on (w_s w) && verify_out (w_s w)
                       then take 12 (drop (1 + length (label_header (plabel (w_s w)))) wire) else [] in
          match send_packet seal comp (w_s w) (w_pm w) msg nonce with
          | Ok b => if beq b wire then corr_in else mkV 40 0
          | _ => mkV 40 1
          end
      else if N.eqb (w_kind w) 2 then
        (* ---- tampered / replayed copy of genuine traffic; [parts] = what the genuine packet delivers ---- *)
        let original := flat_map own_delivery parts in
        let unchanged := dl_equiv original obs_d in
        let nothing := match obs_d with [] => true | _ => false end in
        if want 13 && pan then mkV 240 0
        (* the packet was sealed under a key that is not among the receiver's installed keys when it arrives (never
           installed, or removed since -- however often it had been added before): nothing may come of it *)
        else if want 14 && verify_in (w_r w) && negb (Nmem (primary (w_s w)) (keys (w_r w))) && negb nothing then mkV 234 0
        else if want 16 && N.eqb (w_class w) 20 && negb nothing then mkV 220 0
        else if want 14 && N.eqb (w_class w) 20 && negb nothing then mkV 232 0
        else if want 14 && negb (N.eqb (w_class w) 20) && negb (nothing || unchanged) then
               (if N.eqb (w_class w) 1 then
                  (* the version byte is outside the authenticated data (known finding D-C14): a flipped copy is
                     acted on when the plaintext happens to carry a well-formed padding under the other version.
                     That is what the model of the repaired code does too; anything the model rejects and the
                     implementation accepts (e.g. a padding that is not well-formed) is a new violation *)
                  match model_in with
                  | Ok ds => if same (map proj_delivery ds) obs_d then mkV 231 0 else mkV 233 0
                  | _ => mkV 233 0
                  end
                else mkV 230 0)
        else corr_in
      else if N.eqb (w_kind w) 5 then
        (* ---- encryption enforced but it failed: whatever left must still be sealed ---- *)
        let nsent := match final with [_; n; _; _] => ni n | _ => 0 end in
        if want 15 && negb (N.eqb nsent 0) && negb sealed_ok then mkV 210 0
        else if want 15 && leak then mkV 211 0 else vok
      else if N.eqb (w_kind w) 3 then
        (* ---- hostile bytes ---- *)
        if want 13 && pan then mkV 240 0 else corr_in
      else vok
  end.

(* budget cases (kind 4): ops = the packets one sendMsg / gossip call produced; cfg carries the
   configured packet size; obs = [sent message hashes...] [received message hashes...] *)
Definition check_budget (cs : list int * (list (list int) * list (list int))) : verdict :=
  match fst cs with
  | _ :: _ :: udp :: _ =>
      let pk := fst (snd cs) in
      let over := existsb (fun p => match p with [l; nq] => (ni udp <? ni l) && negb (Uint63.eqb nq 0) | _ => false end) pk in
      match snd (snd cs) with
      | [sent; recv] =>
          if over then mkV 250 0
          else if negb (list_eqb N.eqb (sortN (map ni sent)) (sortN (map ni recv))) then mkV 251 0
          else vok
      | _ => mkV 1 1
      end
  | _ => mkV 1 0
  end.

(* flood cases (kind 6): more decodable messages than the hand-off queues may hold are ingested while nobody
   drains them; obs = [[high-priority queue length; low-priority queue length; HandoffQueueDepth]] *)
Definition check_flood (sel : N) (cs : list int * (list (list int) * list (list int))) : verdict :=
  match snd (snd cs) with
  | [[hi; lo; d]] => if (N.eqb sel 0 || N.eqb sel 13) && ((ni d <? ni hi) || (ni d <? ni lo)) then mkV 241 0 else vok
  | _ => mkV 1 0
  end.

Definition check_any (sel : N) (cs : list int * (list (list int) * list (list int))) : verdict :=
  match fst cs with
  | kind :: _ => if Uint63.eqb kind 4 then (if N.eqb sel 0 || N.eqb sel 11 then check_budget cs else vok)
                 else if Uint63.eqb kind 6 then check_flood sel cs else check_case sel cs
  | [] => mkV 1 0
  end.
