(* StreamCheck.v — correspondence + monitors for the stream path and join (C09; stream halves of
   C12 C13 C14 C15 C16). *)
From Coq Require Import List NArith ZArith Bool Uint63.
Import ListNotations.
From VF Require Import Base Label Wire Stream VerifyProto Raw WireCheck.
Local Open Scope N_scope.

(* ---- kind 10: verifyProtocol.  ops: [0; alive; vsn...] remote entry, [1; alive; pmin pmax pcur dmin dmax dcur] local; obs: [[accepted]] ---- *)
Definition dec_vp (ops : list (list int)) : list rnode * list lnode :=
  fold_right (fun v acc =>
    match v with
    | tag :: al :: rest =>
        if Uint63.eqb tag 0 then (mkRN (bi al) (map ni rest) :: fst acc, snd acc)
        else match rest with
             | [a; b; c; d; e; f] => (fst acc, mkLN (bi al) (ni a) (ni b) (ni c) (ni d) (ni e) (ni f) :: snd acc)
             | _ => acc
             end
    | _ => acc
    end) ([], []) ops.

Definition vp_spec (remote : list rnode) (local : list lnode) : bool :=
  forallb (fun s => forallb (fun r => in_range r (fst s) (snd s)) (ranges remote local)) (speakers remote local).

Definition check_vp (sel : N) (cs : list int * (list (list int) * list (list int))) : verdict :=
  let '(remote, local) := dec_vp (fst (snd cs)) in
  match snd (snd cs) with
  | [[acc]] =>
      if (N.eqb sel 0 || N.eqb sel 9) && negb (Bool.eqb (bi acc) (vp_spec remote local)) then mkV 320 0
      else if negb (Bool.eqb (bi acc) (verify_protocol remote local)) then mkV 61 0
      else vok
  | _ => mkV 1 0
  end.

(* ---- kind 11: bytes one stream write produced.  cfg as in WireCheck; ops: [wire], [plain payload
        as opened by the harness (or the wire itself when not encrypted)], aead entries;
        obs: [[sealed_ok; leak]] ---- *)
Definition check_frame (sel : N) (w : wcase) (cs : list int * (list (list int) * list (list int))) : verdict :=
  let ops := fst (snd cs) in
  let wire := bytes_of (nth 0 ops []) in
  let plain := bytes_of (nth 1 ops []) in
  let '(aes, _, _) := split_entries (drop 2 ops) in
  let final := nth 0 (snd (snd cs)) [] in
  let sealed_ok := match final with [s; _] => bi s | _ => true end in
  let leak := match final with [_; l] => bi l | _ => false end in
  let want (c : N) := N.eqb sel 0 || N.eqb sel c in
  if want 15 && negb sealed_ok then mkV 330 0
  else if want 15 && leak then mkV 331 0
  else
    let c := w_s w in
    let c' := mkP (plabel c) (skip_label c) (keys c) (verify_out c) (verify_in c) (encvsn c) false (fixed c) in
    let nonce := if enc_on c && verify_out c then take 12 (drop 6 wire) else [] in
    if beq (stream_frame (seal_tab aes) (fun x => x) c' (plabel c) plain nonce) wire then vok else mkV 62 0.

(* ---- kind 12: a byte stream fed to handleConn (or a response fed to the initiator).
        cfg as WireCheck (+ class); ops: [stream bytes after the label header], aead entries, decomp entries;
        obs: [[pan; changed; delegate_calls; wrote; closed; expected_effect_ok; consumed; label_ok]] ---- *)
Definition check_feed (sel : N) (w : wcase) (cs : list int * (list (list int) * list (list int))) : verdict :=
  let ops := fst (snd cs) in
  let sbytes := bytes_of (nth 0 ops []) in
  let '(aes, des, _) := split_entries (drop 1 ops) in
  match nth 0 (snd (snd cs)) [] with
  | [pan; changed; dcalls; wrote; closed; effok; consumed; labok] =>
      let want (c : N) := N.eqb sel 0 || N.eqb sel c in
      let effect := bi changed || negb (Uint63.eqb dcalls 0) in
      let cls := w_class w in
      (* classes: 1 genuine complete; 2 strict prefix (cut); 3 tampered ciphertext; 4 hostile bytes;
                  5 other label; 6 declared size beyond a cap; 7 foreign / removed key; 8 reply undeliverable;
                  9 sent in clear to a node that authenticates;
                  10 the peer stalls with the connection held open ([closed] = the handler gave up by TCPTimeout);
                11 a compressed exchange, small on the wire and with node count / user-state length inside their
                   limits, that inflates beyond the cap on decompressed data *)
      if want 13 && bi pan then mkV 302 0
      else if want 13 && negb (bi closed) then mkV 304 0
      else if want 9 && N.eqb cls 2 && effect then mkV 300 0
      else if want 12 && N.eqb cls 1 && negb (bi effok) then mkV 301 0
      else if want 16 && N.eqb cls 1 && negb (bi effok) && negb (match plabel (w_r w) with [] => true | _ => false end) then mkV 308 0
      else if want 9 && N.eqb cls 8 && effect then mkV 300 0
      else if want 14 && (N.eqb cls 3 || N.eqb cls 7 || N.eqb cls 9) && effect then mkV 306 0
      else if want 9 && (N.eqb cls 3 || N.eqb cls 7 || N.eqb cls 9) && effect then mkV 315 0
      else if want 16 && N.eqb cls 5 && (effect || bi wrote) then mkV 307 0
      else if want 9 && N.eqb cls 5 && effect then mkV 314 0
      else if want 13 && N.eqb cls 6 && (effect || (65536 <? ni consumed)) then mkV 305 0
      else if want 9 && N.eqb cls 11 && effect then mkV 318 0
      else if want 13 && N.eqb cls 11 && effect then mkV 340 0
      (* class 12: a 256 MiB bomb; [consumed] = MiB allocated while the receiver handled it (cap: 40 MiB) *)
      else if want 13 && N.eqb cls 12 && (effect || (240 <? ni consumed)%N) then mkV 341 0
      else if want 13 && N.eqb cls 4 && effect && negb (bi effok) then mkV 303 0
      else
        (* model: when the encrypted layer does not yield a message there must be no effect *)
        if bi labok && enc_on (w_r w) then
          match read_stream (open_tab aes) (decomp_tab des) (w_r w) (plabel (w_r w)) sbytes with
          | SOk _ _ => vok
          | SPanic => if bi pan then vok else mkV 63 0
          | _ => if effect then mkV 60 0 else vok
          end
        else vok
  | _ => mkV 1 0
  end.

(* ---- kind 13: Join between two real nodes.  cfg: [13; joiner_veto; host_veto; incompatible];
        obs: [[join_ok; joiner_lists_host; host_lists_joiner; joiner_lists_hosts_members; joiner_changed; host_changed]] ---- *)
Definition check_join (sel : N) (cs : list int * (list (list int) * list (list int))) : verdict :=
  match fst cs, snd (snd cs) with
  | _ :: jv :: hv :: inc :: _, [[ok; jl; hl; jm; jc; hc; jd; hd]] =>
      if negb (N.eqb sel 0 || N.eqb sel 9) then vok
      else if bi jd || bi hd then mkV 313 0
      else if bi ok && negb (bi jl && bi jm) then mkV 310 0
      else if bi ok && negb (bi hl) then (if bi hv || bi inc then mkV 311 0 else mkV 310 0)
      else if negb (bi ok) && bi jc then mkV 312 0
      else vok
  | _, _ => mkV 1 0
  end.

(* ---- kind 14: a periodic (non-join) push/pull between two real nodes.  cfg: [14; incompatible];
        obs: [[ok; initiator_changed; host_changed; initiator_delegate_calls; host_delegate_calls; initiator_lists_host_side; host_lists_initiator_side]] ---- *)
Definition check_exchange (sel : N) (cs : list int * (list (list int) * list (list int))) : verdict :=
  match fst cs, snd (snd cs) with
  | _ :: inc :: _, [[ok; ic; hc; idc; hdc; il; hl]] =>
      if negb (N.eqb sel 0 || N.eqb sel 9) then vok
      else if bi inc && (bi ic || bi hc || negb (Uint63.eqb idc 0) || negb (Uint63.eqb hdc 0)) then mkV 316 0
      else if negb (bi inc) && bi ok && negb (bi il && bi hl) then mkV 317 0
      else if negb (bi inc) && negb (bi ok) then mkV 64 0
      else vok
  | _, _ => mkV 1 0
  end.

(* ---- kind 15: AddLabelHeaderToStream + payload written in fragments, then RemoveLabelHeaderFromStream and the
        rest read with buffers of every size.  ops: the fragments; obs: [[error]; label returned; bytes read] ---- *)
(* one stream: [mon] is the code reported when what came back, with its header put in front again, is not the
   stream that was sent *)
Definition check_one_ls (want16 : bool) (mon : N) (frags : list bytes) (e : int) (lab got : list int) : verdict :=
  match remove_label_stream frags with
  | Ok (l, pc) =>
      if bi e then mkV 65 0
      (* what came back, with its header put in front again, is the stream that was sent *)
      else if want16 && negb (beq (label_header (bytes_of lab) ++ bytes_of got) (concat frags)) then mkV mon 0
      else if beq l (bytes_of lab) && beq (drain pc) (bytes_of got) then vok else mkV 65 0
  | Err _ => if bi e then vok else mkV 65 0
  | Panic => mkV 65 0
  end.

Definition check_labelstream (sel : N) (cs : list int * (list (list int) * list (list int))) : verdict :=
  match snd (snd cs) with
  | [[e]; lab; got] => check_one_ls (N.eqb sel 0 || N.eqb sel 16) 309 (map bytes_of (fst (snd cs))) e lab got
  | _ => mkV 1 0
  end.

(* ---- kind 16: several labelled streams open at once: the header is removed from each in turn, only then the rest
        of each is read (reads interleaved).  ops: [stream index; fragment bytes...]; obs: per stream [error], label
        returned, bytes read.  Every stream is judged on its own, exactly as in kind 15: what the others carried must
        not show (step = index of the offending stream) ---- *)
Definition frags_of (i : N) (ops : list (list int)) : list bytes :=
  flat_map (fun v => match v with s :: b => if N.eqb (ni s) i then [bytes_of b] else [] | [] => [] end) ops.

Fixpoint check_ls_multi (want16 : bool) (ops : list (list int)) (i : N) (obs : list (list int)) : verdict :=
  match obs with
  | [] => vok
  | [e] :: lab :: got :: obs' =>
      let v := check_one_ls want16 345 (frags_of i ops) e lab got in
      if N.eqb (vcode v) 0 then check_ls_multi want16 ops (i + 1) obs' else mkV (vcode v) i
  | _ => mkV 1 0
  end.

Definition check_labelstreams (sel : N) (cs : list int * (list (list int) * list (list int))) : verdict :=
  match fst cs with
  | [_; k] =>
      if negb (N.eqb (N.of_nat (length (snd (snd cs)))) (3 * ni k)) then mkV 1 0
      else check_ls_multi (N.eqb sel 0 || N.eqb sel 16) (fst (snd cs)) 0 (snd (snd cs))
  | _ => mkV 1 0
  end.

Definition check_any (sel : N) (cs : list int * (list (list int) * list (list int))) : verdict :=
  match fst cs with
  | kind :: _ =>
      if Uint63.eqb kind 10 then check_vp sel cs
      else if Uint63.eqb kind 13 then check_join sel cs
      else if Uint63.eqb kind 14 then check_exchange sel cs
      else if Uint63.eqb kind 15 then check_labelstream sel cs
      else if Uint63.eqb kind 16 then check_labelstreams sel cs
      else match dec_cfg (fst cs) with
           | Some w => if Uint63.eqb kind 11 then check_frame sel w cs else check_feed sel w cs
           | None => mkV 1 0
           end
  | [] => mkV 1 0
  end.
