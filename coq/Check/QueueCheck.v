(* QueueCheck.v — correspondence + property monitor for C10.
   [monitor] looks only at the operations and at what the IMPLEMENTATION did;
   [compare] runs the model on the same operations. *)
From Coq Require Import List NArith ZArith Bool Uint63.
Import ListNotations.
From VF Require Import Base Queue Raw.

(* ---------- decoding ---------- *)
Definition dec_kind (t a : int) : kind :=
  if Uint63.eqb t 0 then Plain (ni a) else if Uint63.eqb t 1 then Named (ni a) else Unique.

Definition dec_op (v : list int) : option op :=
  match v with
  | [c; u; l; t; a] => if Uint63.eqb c 0 then Some (Queue (ni u) (ni l) (dec_kind t a)) else None
  | [c; ov; lim; tl] => if Uint63.eqb c 1 then Some (Get (szi ov) (szi lim) (szi tl)) else None
  | [c; k] => if Uint63.eqb c 2 then Some (Prune (szi k)) else None
  | [c] => if Uint63.eqb c 3 then Some Reset else None
  | _ => None
  end.

Definition dec_out (v : list int) : option out :=
  match v with
  | p :: q :: n :: rest =>
      Some (mkOut (map ni (take (nati n) rest)) (map ni (drop (nati n) rest)) (ni q) (bi p))
  | _ => None
  end.

Fixpoint dec_list {A B} (f : A -> option B) (l : list A) : option (list B) :=
  match l with
  | [] => Some []
  | x :: l' => match f x, dec_list f l' with Some y, Some ys => Some (y :: ys) | _, _ => None end
  end.

(* ---------- monitor: the property, evaluated on an observed trace ---------- *)
Definition sort_items (l : list item) : list item := fold_left (fun acc x => insert x acc) l [].

Definition has_uid (u : N) (l : list item) : bool := existsb (fun x => N.eqb (uid x) u) l.
Definition remove_uids (us : list N) (l : list item) : list item :=
  filter (fun x => negb (Nmem (uid x) us)) l.
Fixpoint nodupb (l : list N) : bool :=
  match l with [] => true | x :: l' => negb (Nmem x l') && nodupb l' end.
Definition sum_sizes (ov : Z) (us : list N) (l : list item) : Z :=
  fold_left (fun a x => if Nmem (uid x) us then (a + ov + Z.of_N (len x))%Z else a) l 0%Z.
Definition Nlist_eqb := list_eqb N.eqb.

Record mstate := mkM { live : list item; seq : N }.

(* returns error code (0 = fine) and the next monitor state *)
Definition mon_step (m : mstate) (o : op) (x : out) : N * mstate :=
  if pan x then (100%N, m) else
  if negb (nodupb (fin x)) then (102%N, m) else
  if negb (forallb (fun u => has_uid u (live m)) (fin x)) then (103%N, m) else
  let '(code, live') :=
    match o with
    | Queue u l k =>
        let E := match k with
                 | Named 0 => []
                 | Named n => filter (is_named n) (live m)
                 | Unique => []
                 | Plain g => filter (is_plain_grp g) (live m)
                 end in
        let new := mkItem u 0 l (seq m + 1) k in
        if negb (Nlist_eqb (sortN (fin x)) (sortN (map uid E)))
        then ((if (length (fin x) <? length E)%nat then 106 else 107)%N, live m)
        else if negb (match ret x with [] => true | _ => false end) then (110%N, live m)
        else (0%N, remove_uids (fin x) (live m) ++ [new])
    | Get ov lim tl =>
        let sorted := sort_items (live m) in
        if negb (forallb (fun u => has_uid u (live m)) (ret x)) || negb (nodupb (ret x)) then (109%N, live m)
        else if match ret x with [] => false | _ => (lim <? sum_sizes ov (ret x) (live m))%Z end then (104%N, live m)
        else if (0 <=? ov)%Z && negb (Nlist_eqb (ret x) (map uid (greedy ov lim 0 sorted))) then (105%N, live m)
        else
          let due := filter (fun y => Nmem (uid y) (ret x) && (tl <=? Z.of_N (tr y) + 1)%Z) (live m) in
          if negb (Nlist_eqb (sortN (fin x)) (sortN (map uid due)))
          then ((if (length (fin x) <? length due)%nat then 108 else 107)%N, live m)
          else (0%N, remove_uids (fin x)
                      (map (fun y => if Nmem (uid y) (ret x) then bump y else y) (live m)))
    | Prune k =>
        let keep := Z.to_nat (Z.max k 0) in
        let l' := remove_uids (fin x) (live m) in
        if negb (Nat.eqb (length l') (Nat.min (length (live m)) keep)) then (111%N, live m)
        else if negb (match ret x with [] => true | _ => false end) then (110%N, live m)
        else (0%N, l')
    | Reset =>
        if negb (Nlist_eqb (sortN (fin x)) (sortN (map uid (live m)))) then (112%N, live m)
        else (0%N, [])
    end in
  if negb (N.eqb code 0) then (code, m)
  else if negb (N.eqb (nq x) (N.of_nat (length live'))) then (101%N, m)
  else (0%N, mkM live' (match o with Queue _ _ _ => seq m + 1 | _ => seq m end)%N).

Fixpoint monitor_from (i : N) (m : mstate) (ops : list op) (xs : list out) : verdict :=
  match ops, xs with
  | o :: ops', x :: xs' =>
      let '(c, m') := mon_step m o x in
      if N.eqb c 0 then monitor_from (i + 1) m' ops' xs' else mkV c i
  | _, _ => vok
  end.
Definition monitor (ops : list op) (xs : list out) : verdict := monitor_from 0 (mkM [] 0) ops xs.

(* ---------- correspondence: model vs implementation ---------- *)
Definition out_code (a b : out) : N :=
  if negb (Bool.eqb (pan a) (pan b)) then 23
  else if pan a then 0
  else if negb (Nlist_eqb (ret a) (ret b)) then 20
  else if negb (Nlist_eqb (sortN (fin a)) (sortN (fin b))) then 21
  else if negb (N.eqb (nq a) (nq b)) then 22
  else 0.

Fixpoint compare_from (i : N) (ms xs : list out) : verdict :=
  match ms, xs with
  | [], [] => vok
  | a :: ms', b :: xs' =>
      let c := out_code a b in
      if N.eqb c 0 then compare_from (i + 1) ms' xs' else mkV c i
  | _, _ => mkV 24 i
  end.

Definition check_case (fixed : bool) (c : rawcase) : verdict :=
  match dec_list dec_op (fst c), dec_list dec_out (snd c) with
  | Some ops, Some xs =>
      let v := monitor ops xs in
      if negb (N.eqb (vcode v) 0) then v
      else match run fixed q0 ops with
           | None => mkV 10 0
           | Some (_, ms) => compare_from 0 ms xs
           end
  | _, _ => mkV 1 0
  end.
