(* CoreCheck.v — correspondence + property monitors for the Core family
   (C01, C02, C07, C08, C18, and the Core parts of C06 / C09). *)
From Coq Require Import List NArith ZArith Bool Uint63.
Import ListNotations.
From VF Require Import Base Core Raw.

Local Open Scope Z_scope.

(* ---------------------------------------------------------------- decoding *)
Definition vsn_table : list (list N) :=
  [[]; [1;5;2]; [1;5;2;0;0;0]; [0;5;2;0;0;0]; [1;5;3;0;0;0]; [2;5;2;1;1;1]; [6;5;2;0;0;0]; [1;5;2;0;0;0;9]]%N.
Definition vsn_of (i : int) : list N := nth (nati i) vsn_table [].

Definition st_of (i : int) : st :=
  let n := ni i in
  if N.eqb n 0 then Alive else if N.eqb n 1 then Suspect else if N.eqb n 2 then Dead else Left.

Definition ms (i : int) : Z := zi i * 1000000.

Definition dec_op (v : list int) : option op :=
  match v with
  | [c; a1] =>
      if Uint63.eqb c 13 then Some (OAdvance 0)   (* the delegate's metadata changed, UpdateNode not called: no effect *)
      else if Uint63.eqb c 5 then Some (OAdvance (ms a1 + 1))
      else if Uint63.eqb c 8 then Some (OLeaveCommit (ni a1))
      else if Uint63.eqb c 11 then Some (OUpdate (ni a1) 1000000) else None
  | [c] =>
      if Uint63.eqb c 6 then Some OReap
      else if Uint63.eqb c 7 then Some OLeaveBegin
      else if Uint63.eqb c 9 then Some OIncBegin
      else if Uint63.eqb c 10 then Some (OLeave 1000000)
      (* Shutdown: membership processing, timers and callbacks go on exactly as before *)
      else if Uint63.eqb c 12 then Some (OAdvance 0) else None
  | [c; a1; a2; a3] =>
      if Uint63.eqb c 2 then Some (OSuspect (ni a1) (ni a2) (ni a3))
      else if Uint63.eqb c 3 then Some (ODead (ni a1) (ni a2) (ni a3)) else None
  | [c; a1; a2; a3; a4; a5; a6] =>
      if Uint63.eqb c 0 then Some (OAlive (ni a1) (ni a2) (ni a3) (ni a4) (vsn_of a5) (bi a6))
      else if Uint63.eqb c 1 then Some (OHandleAlive (ni a1) (ni a2) (ni a3) (ni a4) (ni a5) (vsn_of a6))
      else if Uint63.eqb c 4 then Some (OMerge (st_of a1) (ni a2) (ni a3) (ni a4) (ni a5) (vsn_of a6)) else None
  | _ => None
  end.

Fixpoint dec_list {A B} (f : A -> option B) (l : list A) : option (list B) :=
  match l with
  | [] => Some []
  | x :: l' => match f x, dec_list f l' with Some y, Some ys => Some (y :: ys) | _, _ => None end
  end.

(* cfg vector: reclaim_ms gtd_ms mult interval_ms maxmult awmax conflict cidr bootmeta v0..v5 nallowed a.. smin ntab t.. *)
Definition dec_cfg (v : list int) : option (cfg * N) :=
  match v with
  | rc :: gt :: mult :: iv :: mm :: aw :: cf :: cd :: bm :: v0 :: v1 :: v2 :: v3 :: v4 :: v5 :: na :: rest =>
      let al := map ni (take (nati na) rest) in
      match drop (nati na) rest with
      | sm :: nt :: tab =>
          Some (mkCfg 0 0 (map ni [v0; v1; v2; v3; v4; v5]) (ms rc) (ms gt) (zi mult - 2) (zi sm) (zi mm)
                      (map zi (take (nati nt) tab)) (zi aw) (bi cf) (bi cd) al true, ni bm)
      | _ => None
      end
  | _ => None
  end.

(* observed snapshot *)
Record orec := mkOR { or_name : N; or_rec : rec; or_timer : bool }.
Record osnap := mkO {
  o_pan : bool; o_linc : N; o_leaving : bool; o_score : Z; o_nn : Z;
  o_recs : list orec; o_orph : N; o_bq : list (N * bmsg); o_nq : N;
  o_evs : list event; o_members : list (N * (N * N)); o_now : Z; o_conc : bool; o_chan : bool; o_lvbad : bool }.

Definition since_of (i : int) : Z := if Uint63.eqb i 0 then zero_time else zi i - 1.

Fixpoint dec_recs (n : nat) (l : list int) : option (list orec * list int) :=
  match n with
  | O => Some ([], l)
  | S n' =>
      match l with
      | nm :: inc :: stt :: ad :: me :: v0 :: v1 :: v2 :: v3 :: v4 :: v5 :: sc :: tm :: rest =>
          match dec_recs n' rest with
          | Some (rs, r') =>
              Some (mkOR (ni nm) (mkRec (ni inc) (st_of stt) (ni ad) (ni me) (map ni [v0; v1; v2; v3; v4; v5]) (since_of sc)) (bi tm) :: rs, r')
          | None => None
          end
      | _ => None
      end
  end.

Fixpoint dec_bq (n : nat) (l : list int) : option (list (N * bmsg) * list int) :=
  match n with
  | O => Some ([], l)
  | S n' =>
      match l with
      | key :: ty :: a :: b :: c :: d :: e :: f0 :: f1 :: f2 :: f3 :: f4 :: f5 :: f6 :: rest =>
          let m := if Uint63.eqb ty 4 then BAlive (ni a) (ni b) (ni c) (ni d) (map ni (take (nati e) [f0; f1; f2; f3; f4; f5; f6]))
                   else if Uint63.eqb ty 3 then BSuspect (ni a) (ni b) (ni c)
                   else BDead (ni a) (ni b) (ni c) in
          match dec_bq n' rest with
          | Some (bs, r') => Some ((ni key, m) :: bs, r')
          | None => None
          end
      | _ => None
      end
  end.

Fixpoint dec_evs (n : nat) (l : list int) : option (list event * list int) :=
  match n with
  | O => Some ([], l)
  | S n' =>
      match l with
      | k :: a :: b :: c :: rest =>
          let e := if Uint63.eqb k 0 then EvJoin (ni a) (ni b) (ni c)
                   else if Uint63.eqb k 1 then EvLeave (ni a) (ni b) (ni c)
                   else if Uint63.eqb k 2 then EvUpdate (ni a) (ni b) (ni c)
                   else EvConflict (ni a) (ni b) (ni c) in
          match dec_evs n' rest with Some (es, r') => Some (e :: es, r') | None => None end
      | _ => None
      end
  end.

Fixpoint dec_mem (n : nat) (l : list int) : option (list (N * (N * N)) * list int) :=
  match n with
  | O => Some ([], l)
  | S n' =>
      match l with
      | a :: b :: c :: rest =>
          match dec_mem n' rest with Some (ms, r') => Some ((ni a, (ni b, ni c)) :: ms, r') | None => None end
      | _ => None
      end
  end.

Definition dec_obs (v : list int) : option osnap :=
  match v with
  | pan :: li :: lv :: sc :: nn :: nr :: rest =>
      match dec_recs (nati nr) rest with
      | Some (rs, orph :: nb :: rest2) =>
          match dec_bq (nati nb) rest2 with
          | Some (bs, nq :: ne :: rest3) =>
              match dec_evs (nati ne) rest3 with
              | Some (es, nm :: rest4) =>
                  match dec_mem (nati nm) rest4 with
                  | Some (mems, [nw; cc]) =>
                      Some (mkO (bi pan) (ni li) (bi lv) (zi sc) (zi nn) rs (ni orph) bs (ni nq) es mems (zi nw) (Z.odd (zi cc)) (Z.odd (zi cc / 2)) (Z.odd (zi cc / 4)))
                  | _ => None
                  end
              | _ => None
              end
          | _ => None
          end
      | _ => None
      end
  | _ => None
  end.

(* ---------------------------------------------------------------- equality helpers *)
Definition rec_eqb (a b : rec) : bool :=
  N.eqb (rinc a) (rinc b) && st_eqb (rst a) (rst b) && N.eqb (raddr a) (raddr b) && N.eqb (rmeta a) (rmeta b)
  && Nlist_eqb (rvsn a) (rvsn b) && Z.eqb (rsince a) (rsince b).
Definition orec_eqb (a b : orec) : bool :=
  N.eqb (or_name a) (or_name b) && rec_eqb (or_rec a) (or_rec b) && Bool.eqb (or_timer a) (or_timer b).
Definition bmsg_eqb (a b : bmsg) : bool :=
  match a, b with
  | BAlive i n ad m v, BAlive i' n' ad' m' v' => N.eqb i i' && N.eqb n n' && N.eqb ad ad' && N.eqb m m' && Nlist_eqb v v'
  | BSuspect i n f, BSuspect i' n' f' => N.eqb i i' && N.eqb n n' && N.eqb f f'
  | BDead i n f, BDead i' n' f' => N.eqb i i' && N.eqb n n' && N.eqb f f'
  | _, _ => false
  end.
Definition bq_eqb (a b : list (N * bmsg)) : bool :=
  list_eqb (fun x y => N.eqb (fst x) (fst y) && bmsg_eqb (snd x) (snd y)) a b.
Definition event_eqb (a b : event) : bool :=
  match a, b with
  | EvJoin x y z, EvJoin x' y' z' | EvLeave x y z, EvLeave x' y' z'
  | EvUpdate x y z, EvUpdate x' y' z' | EvConflict x y z, EvConflict x' y' z' => N.eqb x x' && N.eqb y y' && N.eqb z z'
  | EvPanic, EvPanic => true
  | _, _ => false
  end.
Definition mem_eqb (a b : list (N * (N * N))) : bool :=
  list_eqb (fun x y => N.eqb (fst x) (fst y) && N.eqb (fst (snd x)) (fst (snd y)) && N.eqb (snd (snd x)) (snd (snd y))) a b.

(* sort association lists by key (insertion sort) *)
Fixpoint ins_by {A} (key : A -> N) (x : A) (l : list A) : list A :=
  match l with [] => [x] | y :: l' => if N.leb (key x) (key y) then x :: l else y :: ins_by key x l' end.
Definition sort_by {A} (key : A -> N) (l : list A) : list A := fold_right (ins_by key) [] l.

(* event order inside one step is only compared up to permutation of different names *)
Definition ev_key (e : event) : N :=
  match e with
  | EvJoin n _ _ => 10 * n | EvLeave n _ _ => 10 * n + 1 | EvUpdate n _ _ => 10 * n + 2
  | EvConflict n _ _ => 10 * n + 3 | EvPanic => 9999
  end%N.

(* projection of a model state to the observed shape *)
Definition snap_of (s : nstate) (evs : list event) : osnap :=
  mkO (existsb (fun e => match e with EvPanic => true | _ => false end) evs)
      (linc s) (leaving s) (score s) (nnodes s)
      (sort_by or_name (map (fun p => mkOR (fst p) (snd p) (match live_timer (fst p) (timers s) with Some _ => true | None => false end)) (recs s)))
      0 (sort_by fst (bq s)) (N.of_nat (length (bq s)))
      (filter (fun e => match e with EvPanic => false | _ => true end) evs)
      (sort_by fst (members s)) (now s) false false false.

(* first differing field: 0 = equal *)
Definition snap_diff (m o : osnap) : N :=
  if negb (Bool.eqb (o_pan m) (o_pan o)) then 30
  else if o_pan o then 0
  else if negb (N.eqb (o_linc m) (o_linc o)) then 20
  else if negb (Bool.eqb (o_leaving m) (o_leaving o)) then 21
  else if negb (Z.eqb (o_score m) (o_score o)) then 22
  else if negb (Z.eqb (o_nn m) (o_nn o)) then 23
  else if negb (list_eqb (fun a b => N.eqb (or_name a) (or_name b) && rec_eqb (or_rec a) (or_rec b)) (o_recs m) (o_recs o)) then 24
  else if negb (list_eqb orec_eqb (o_recs m) (o_recs o)) then 25
  else if negb (bq_eqb (o_bq m) (o_bq o)) then 26
  else if negb (list_eqb event_eqb (sort_by ev_key (o_evs m)) (sort_by ev_key (o_evs o))) then 27
  else if negb (mem_eqb (o_members m) (o_members o)) then 28
  else if negb (Z.eqb (o_now m) (o_now o)) then 29
  else 0%N.

(* ---------------------------------------------------------------- monitors (on OBSERVED snapshots only) *)
Definition ofind (n : N) (o : osnap) : option orec := find (fun r => N.eqb (or_name r) n) (o_recs o).
Definition in_members (n : N) (o : osnap) : bool := existsb (fun p => N.eqb (fst p) n) (o_members o).

(* everything a no-op must leave alone *)
Definition same_state (a b : osnap) : bool :=
  N.eqb (o_linc a) (o_linc b) && Bool.eqb (o_leaving a) (o_leaving b) && Z.eqb (o_score a) (o_score b)
  && list_eqb orec_eqb (o_recs a) (o_recs b) && bq_eqb (o_bq a) (o_bq b) && mem_eqb (o_members a) (o_members b)
  && N.eqb (o_nq a) (o_nq b).

Definition key_le (a b : rec) : bool :=
  (rinc a <? rinc b)%N || (N.eqb (rinc a) (rinc b) && (rank (rst a) <=? rank (rst b))%N).

Definition no_events (o : osnap) : bool := match o_evs o with [] => true | _ => false end.
Definition only_conflicts (o : osnap) : bool :=
  forallb (fun e => match e with EvConflict _ _ _ => true | _ => false end) (o_evs o).

(* the claim an operation makes about a member, if any:
   (kind 0 alive / 1 suspect / 2 dead, inc, name, addr, from, bootstrap, src_ok) *)
Inductive claim := CAlive (inc name addr meta : N) (vsn : list N) (boot : bool) | CSuspect (inc name : N) | CDead (inc name from : N).
Definition claim_of (c : cfg) (o : op) : option claim :=
  match o with
  | OAlive i n a m v b => Some (CAlive i n a m v b)
  | OHandleAlive src i n a m v => if is_allowed c src && is_allowed c a then Some (CAlive i n a m v false) else None
  | OSuspect i n _ => Some (CSuspect i n)
  | ODead i n f => Some (CDead i n f)
  | OMerge Alive i n a m v => Some (CAlive i n a m v false)
  | OMerge Left i n _ _ _ => Some (CDead i n n)
  | OMerge _ i n _ _ _ => Some (CSuspect i n)
  | OLeaveCommit i => Some (CDead i (self c) (self c))
  | _ => None
  end.

Definition reclaimable (c : cfg) (pre : osnap) (r : rec) : bool :=
  st_eqb (rst r) Left || (st_eqb (rst r) Dead && (0 <? reclaim c) && (reclaim c <? o_now pre - rsince r)).

(* C01: is the claim stale w.r.t. the held record? *)
Definition stale (c : cfg) (pre : osnap) (cl : claim) : bool :=
  match cl with
  | CAlive i n a _ _ _ =>
      match ofind n pre with
      | Some r => N.eqb (raddr (or_rec r)) a &&
                  (if N.eqb n (self c) then (i <? rinc (or_rec r))%N else (i <=? rinc (or_rec r))%N)
      | None => false
      end
  | CSuspect i n | CDead i n _ =>
      match ofind n pre with
      | Some r => (i <? rinc (or_rec r))%N || dead_or_left (rst (or_rec r))
      | None => true
      end
  end.

Definition mon_C01 (c : cfg) (pre : osnap) (o : op) (post : osnap) : N :=
  let is_claim := match o with OAdvance _ | OReap | OLeaveBegin | OIncBegin | OLeave _ | OUpdate _ _ => false | _ => true end in
  if negb is_claim then
    match o with
    | OReap =>
        (* only old dead/left records may disappear *)
        if forallb (fun r => match ofind (or_name r) post with
                             | Some _ => true
                             | None => dead_or_left (rst (or_rec r)) && (gtd c <? o_now pre - rsince (or_rec r))
                             end) (o_recs pre) then 0%N else 112%N
    | _ => 0%N
    end
  else
    let st_code :=
      match claim_of c o with
      | Some cl => if stale c pre cl && negb (same_state pre post && no_events post) then 110%N else 0%N
      | None => (* blocked by the allow-list front end *)
          if same_state pre post && no_events post then 0%N else 110%N
      end in
    if negb (N.eqb st_code 0) then st_code
    else if forallb (fun r => match ofind (or_name r) post with
                              | None => false
                              | Some r' =>
                                  key_le (or_rec r) (or_rec r')
                                  || (reclaimable c pre (or_rec r) && negb (N.eqb (raddr (or_rec r)) (raddr (or_rec r'))))
                              end) (o_recs pre) then 0%N else 111%N.

(* C02 *)
Definition self_ok (c : cfg) (o : osnap) : bool :=
  o_leaving o ||
  match ofind (self c) o with
  | Some r => st_eqb (rst (or_rec r)) Alive && (rinc (or_rec r) <=? o_linc o)%N && in_members (self c) o
  | None => false
  end.

Definition max32 : N := 4294967295%N.

Definition accusation (c : cfg) (pre : osnap) (cl : claim) : option N :=
  match ofind (self c) pre with
  | None => None
  | Some r =>
      let me := or_rec r in
      match cl with
      | CSuspect i n | CDead i n _ =>
          if N.eqb n (self c) && (rinc me <=? i)%N && st_eqb (rst me) Alive then Some i else None
      | CAlive i n a m v b =>
          if N.eqb n (self c) && negb b && N.eqb a (raddr me) && negb (vsn_bad v) &&
             ((rinc me <? i)%N || (N.eqb i (rinc me) && negb (N.eqb m (rmeta me) && Nlist_eqb v (rvsn me))))
          then Some i else None
      end
  end.

Definition mon_C02 (c : cfg) (pre : osnap) (o : op) (post : osnap) : N :=
  if negb (self_ok c post) then 120%N
  else if o_leaving pre then 0%N
  else match claim_of c o with
       | None => 0%N
       | Some cl =>
           match accusation c pre cl with
           | None => 0%N
           | Some i =>
               if (i <? max32)%N && (o_linc pre <? max32)%N then
                 match ofind (self c) post with
                 | None => 120%N
                 | Some r =>
                     let me := or_rec r in
                     if negb ((i <? o_linc post)%N && N.eqb (rinc me) (o_linc post)) then 121%N
                     else if negb (existsb (fun kb => match snd kb with
                                                      | BAlive bi bn ba bm bv =>
                                                          N.eqb bi (o_linc post) && N.eqb bn (self c) && N.eqb ba (raddr me)
                                                          && N.eqb bm (rmeta me) && Nlist_eqb bv (rvsn me)
                                                      | _ => false end) (o_bq post)) then 122%N
                     else if negb (Z.eqb (o_score post) (clamp_score c (o_score pre + 1))) then 123%N
                     else 0%N
                 end
               else 0%N
           end
       end.

(* C07: replay of the event log *)
Fixpoint view_set (n : N) (v : N * N) (l : list (N * (N * N))) : list (N * (N * N)) :=
  match l with
  | [] => [(n, v)]
  | (k, w) :: l' => if N.eqb k n then (n, v) :: l' else (k, w) :: view_set n v l'
  end.
Definition view_del (n : N) (l : list (N * (N * N))) : list (N * (N * N)) :=
  filter (fun p => negb (N.eqb (fst p) n)) l.
Definition view_has (n : N) (l : list (N * (N * N))) : bool := existsb (fun p => N.eqb (fst p) n) l.

(* returns (grammar ok, new view) *)
Fixpoint replay (evs : list event) (v : list (N * (N * N))) : bool * list (N * (N * N)) :=
  match evs with
  | [] => (true, v)
  | e :: evs' =>
      match e with
      | EvJoin n a m => if view_has n v then (false, v) else replay evs' (view_set n (a, m) v)
      | EvLeave n _ _ => if view_has n v then replay evs' (view_del n v) else (false, v)
      | EvUpdate n a m => if view_has n v then replay evs' (view_set n (a, m) v) else (false, v)
      | _ => replay evs' v
      end
  end.

(* C08 *)
Definition mon_C08 (c : cfg) (pre : osnap) (o : op) (post : osnap) (leave_inc : option N) : N :=
  (* Leave reported success although a peer that is neither dead nor gone was listed and the departure had not
     been handed out to a single packet *)
  if o_lvbad post then 148%N else
  (* address changes only for left / reclaimable dead records *)
  if negb (forallb (fun r => match ofind (or_name r) post with
                             | Some r' => N.eqb (raddr (or_rec r)) (raddr (or_rec r')) || reclaimable c pre (or_rec r)
                             | None => true end) (o_recs pre)) then 141%N
  else
    let c1 :=
      match claim_of c o with
      | Some (CAlive i n a m v b) =>
          match ofind n pre with
          | Some r =>
              let held := or_rec r in
              if negb (N.eqb (raddr held) a) && is_allowed c a && negb (vsn_bad v) && negb (o_leaving pre && N.eqb n (self c)) then
                if reclaimable c pre held then
                  (* the name is reusable from the new address at once *)
                  if N.eqb n (self c) && negb b then 0%N
                  else match ofind n post with
                       | Some r' => if N.eqb (raddr (or_rec r')) a && st_eqb (rst (or_rec r')) Alive && N.eqb (rinc (or_rec r')) i then 0%N else 143%N
                       | None => 143%N
                       end
                else
                  if negb (same_state pre post) then 142%N
                  else if has_conflict c && negb (list_eqb event_eqb (o_evs post) [EvConflict n (raddr held) a]) then 142%N
                  else if negb (has_conflict c) && negb (no_events post) then 142%N
                  else 0%N
              else 0%N
          | None => 0%N
          end
      | _ => 0%N
      end in
    let c1 := if negb (N.eqb c1 0) then c1 else
      (* an accepted departure / death is remembered at the incarnation it carried: later alive
         messages no newer than it must find it in the record *)
      match claim_of c o with
      | Some (CDead i n f) =>
          match ofind n pre with
          | Some r =>
              let held := or_rec r in
              if negb (dead_or_left (rst held)) && (rinc held <=? i)%N && negb (N.eqb n (self c) && negb (o_leaving pre)) then
                match ofind n post with
                | Some r' =>
                    if N.eqb (rinc (or_rec r')) i && st_eqb (rst (or_rec r')) (if N.eqb n f || N.eqb n (self c) then Left else Dead) then 0%N else 147%N
                | None => 147%N
                end
              else 0%N
          | None => 0%N
          end
      | _ => 0%N
      end in
    if negb (N.eqb c1 0) then c1
    else
      (* left is absorbing for every record: alive <= departure, suspect, dead change nothing (covered by C01 110);
         here: a record that is Left never becomes a member again without a newer alive *)
      let c2 :=
        if forallb (fun r => if st_eqb (rst (or_rec r)) Left then
                               match ofind (or_name r) post with
                               | Some r' => st_eqb (rst (or_rec r')) Left || (rinc (or_rec r) <? rinc (or_rec r'))%N
                                            || negb (N.eqb (raddr (or_rec r)) (raddr (or_rec r')))
                               | None => true
                               end
                             else true) (o_recs pre) then 0%N else 140%N in
      if negb (N.eqb c2 0) then c2
      else
        (* completing the departure: Leave (or its second half with the incarnation read in the first) *)
        let completes :=
          match o with
          | OLeave _ => negb (o_leaving pre)
          | OLeaveCommit i => o_leaving pre && match leave_inc with Some j => N.eqb i j | None => false end
          | _ => false
          end in
        if completes then
          match ofind (self c) pre, ofind (self c) post with
          | Some r, Some r' =>
              if negb (dead_or_left (rst (or_rec r))) then
                if negb (st_eqb (rst (or_rec r')) Left) then 144%N
                else if negb (existsb (fun kb => N.eqb (fst kb) (kname (self c)) &&
                                       match snd kb with BDead _ n f => N.eqb n (self c) && N.eqb f (self c) | _ => false end) (o_bq post)) then 145%N
                else 0%N
              else 0%N
          | _, _ => 0%N
          end
        else
          (* once the leaver is Left, none of its own queued alive messages is newer than the departure *)
          match ofind (self c) post with
          | Some r' =>
              if st_eqb (rst (or_rec r')) Left &&
                 existsb (fun kb => match snd kb with BAlive bi bn _ _ _ => N.eqb bn (self c) && (rinc (or_rec r') <? bi)%N | _ => false end) (o_bq post)
              then 146%N else 0%N
          | None => 0%N
          end.

(* C18 *)
Definition mon_C18 (c : cfg) (pre : osnap) (o : op) (post : osnap) : N :=
  if negb (must_check c) then 0%N
  else if negb (forallb (fun r => Nmem (raddr (or_rec r)) (allowed c)) (o_recs post)) then 150%N
  else if negb (forallb (fun e => match e with
                                  | EvJoin _ a _ | EvLeave _ a _ | EvUpdate _ a _ => Nmem a (allowed c)
                                  | _ => true end) (o_evs post)) then 152%N
  else if negb (forallb (fun p => Nmem (fst (snd p)) (allowed c)) (o_members post)) then 153%N
  else match o with
       | OHandleAlive src _ _ a _ _ =>
           if negb (Nmem src (allowed c)) && negb (same_state pre post && no_events post) then 151%N else 0%N
       | _ => 0%N
       end.

(* C06 on the node: timer <-> suspect; member until min; dead by max *)
Definition mon_C06 (c : cfg) (pre : osnap) (o : op) (post : osnap) : N :=
  if negb (forallb (fun r => Bool.eqb (or_timer r) (st_eqb (rst (or_rec r)) Suspect)) (o_recs post)) || negb (N.eqb (o_orph post) 0) then 160%N
  else
    let smax := smaxmult c * smin c in
    if negb (forallb (fun r =>
         if st_eqb (rst (or_rec r)) Suspect then
           match ofind (or_name r) post with
           | Some r' =>
               if st_eqb (rst (or_rec r')) Suspect && Z.eqb (rsince (or_rec r')) (rsince (or_rec r))
               then (* still the same suspicion: must not have outlived the maximum *)
                 o_now post <=? rsince (or_rec r) + Z.max smax (smin c)
               else if st_eqb (rst (or_rec r')) Dead && match o with OAdvance _ => true | _ => false end
               then (* declared dead by the timer during this advance: not before the minimum *)
                 rsince (or_rec r) + smin c <=? rsince (or_rec r')
               else true
           | None => true
           end
         else true) (o_recs pre)) then 161%N
    else 0%N.

(* C09: hearsay never kills *)
Definition mon_C09 (c : cfg) (pre : osnap) (o : op) (post : osnap) : N :=
  match o with
  | OMerge rs _ n _ _ _ =>
      match rs with
      | Dead | Suspect =>
          match ofind n pre with
          | Some r => if st_eqb (rst (or_rec r)) Alive && in_members n pre && negb (in_members n post) then 170%N else 0%N
          | None => 0%N
          end
      | _ => 0%N
      end
  | _ => 0%N
  end.

(* C06 on the node, schedule part: the monitor follows every running suspicion
   (start, effective k, accuser, senders of later suspect claims) and checks that the member is not
   declared dead earlier than the schedule allows for the confirmations that can have counted *)
Definition strack := list (N * (Z * Z * N * list N)).

Definition suspect_from (c : cfg) (o : op) : option (N * N) :=
  match o with
  | OSuspect _ n f => Some (n, f)
  | OMerge Dead _ n _ _ _ | OMerge Suspect _ n _ _ _ => Some (n, self c)
  | _ => None
  end.

Definition track_step (c : cfg) (pre : osnap) (o : op) (post : osnap) (tr : strack) : strack :=
  let tr1 := filter (fun e => match ofind (fst e) post with
                              | Some r => st_eqb (rst (or_rec r)) Suspect && Z.eqb (rsince (or_rec r)) (fst (fst (fst (snd e))))
                              | None => false end) tr in
  match suspect_from c o with
  | Some (n, f) =>
      match ofind n post with
      | Some r =>
          if st_eqb (rst (or_rec r)) Suspect then
            if existsb (fun e => N.eqb (fst e) n) tr1
            then map (fun e => if N.eqb (fst e) n
                               then let '(a, b, acc, fs) := snd e in (fst e, (a, b, acc, f :: fs)) else e) tr1
            else (n, (rsince (or_rec r), (if o_nn pre - 2 <? kcfg c then 0 else kcfg c), f, [])) :: tr1
          else tr1
      | None => tr1
      end
  | None => tr1
  end.

Definition mon_C06_sched (c : cfg) (pre : osnap) (o : op) (post : osnap) (tr : strack) : N :=
  match o with
  | OAdvance _ =>
      if forallb (fun e =>
           let '(since, k, acc, fs) := snd e in
           match ofind (fst e) pre, ofind (fst e) post with
           | Some r, Some r' =>
               if st_eqb (rst (or_rec r)) Suspect && Z.eqb (rsince (or_rec r)) since && st_eqb (rst (or_rec r')) Dead then
                 let ds := nodup N.eq_dec (filter (fun x => negb (N.eqb x acc)) fs) in
                 let n := Z.min (Z.of_nat (length ds)) (Z.max k 0) in
                 let bound := since + (if n =? 0 then (if k <? 1 then smin c else smaxmult c * smin c)
                                       else tnth (ttab c) (Z.to_nat n) (smin c)) in
                 bound <=? rsince (or_rec r')
               else true
           | _, _ => true
           end) tr then 0%N else 162%N
  | _ => 0%N
  end.

Definition first_nz (l : list N) : N := fold_right (fun x acc => if N.eqb x 0 then acc else x) 0%N l.

(* which property a monitor code belongs to: 110.. C01, 120.. C02, 130.. C07, 140.. C08, 150.. C18, 160.. C06, 170.. C09.
   [sel] = 0 evaluates every monitor; otherwise only the selected property's monitor decides, so that
   one property's violation cannot hide another's *)
Definition code_sel (sel code : N) : N :=
  if N.eqb sel 0 then code
  else if N.eqb (code / 10) sel then code
  (* C01 also owns "an accepted death/departure is recorded at the incarnation it carried" (147): the view
     must move forward to the claim, or older claims get through afterwards *)
  else if N.eqb sel 11 && N.eqb code 147 then code
  else 0%N.

(* walk the observed trace *)
Fixpoint monitor_from (sel : N) (c : cfg) (i : N) (pre : osnap) (view : list (N * (N * N))) (linc_leave : option N) (tr : strack)
         (ops : list op) (obs : list osnap) : verdict :=
  match ops, obs with
  | o :: ops', post :: obs' =>
      if o_pan post then mkV 100 i
      else if (o_linc post <? o_linc pre)%N || (max32 <=? o_linc post)%N
              || existsb (fun r => (max32 <=? rinc (or_rec r))%N) (o_recs post)
      then vok (* the 32-bit incarnation wrapped or reached its largest value: outside the quantifier of C01/C02 *)
      else
        let '(gok, view') := replay (o_evs post) view in
        let c7 := if o_conc post then 132%N
                  else if o_chan post then 133%N
                  else if negb gok then 131%N
                  else if negb (mem_eqb (sort_by fst view') (o_members post)) then 130%N else 0%N in
        let code := first_nz (map (code_sel sel)
                             [mon_C01 c pre o post; mon_C02 c pre o post; c7; mon_C08 c pre o post linc_leave;
                              mon_C18 c pre o post; mon_C06 c pre o post; mon_C06_sched c pre o post tr; mon_C09 c pre o post]) in
        if negb (N.eqb code 0) then mkV code i
        else
          let ll := match o with
                    | OLeaveBegin => if o_leaving pre then linc_leave
                                     else match ofind (self c) pre with Some r => Some (rinc (or_rec r)) | None => None end
                    | _ => linc_leave end in
          monitor_from sel c (i + 1) post view' ll (track_step c pre o post tr) ops' obs'
  | _, _ => vok
  end.

Fixpoint compare_from (c : cfg) (i : N) (s : nstate) (ops : list op) (obs : list osnap) : verdict :=
  match ops, obs with
  | o :: ops', ob :: obs' =>
      let '(s', evs) := step c s o in
      let d := snap_diff (snap_of s' evs) ob in
      if negb (N.eqb d 0) then mkV d i
      else if o_pan ob then vok
      else compare_from c (i + 1) s' ops' obs'
  | _, _ => vok
  end.

(* a case with configuration [99] is the callback-serialisation scenario: two goroutines, one of them
   inside a slow leave callback; the observation is whether a second callback ran meanwhile *)
Definition check_serial (sel : N) (cs : list int * (list (list int) * list (list int))) : verdict :=
  match snd (snd cs) with
  | [[f]] => if bi f && (N.eqb sel 0 || N.eqb sel 13) then mkV 132 0 else vok
  | _ => mkV 1 0
  end.

(* a case with configuration [98]: a claim is processed between the two halves of the suspicion timeout callback
   (timer_fire: the check, then deadNode at the incarnation that was checked).  ops: [[k]] with k = 0 the
   member's refutation (alive, incarnation 2), 1 a stale alive, 2 somebody else's death claim, 3 a newer suspicion;
   obs: [[interposed; state; incarnation; listed; leave events]] *)
Definition split_cfg : cfg :=
  mkCfg 0 100 [1;5;2;0;0;0]%N 0 30000000000 2 4000000000 6 [24000000000;11381000000;4000000000] 8 true false [] true.
Definition split_claim (k : N) : op :=
  if N.eqb k 0 then OAlive 2 1 101 0 [1;5;2;0;0;0]%N false
  else if N.eqb k 1 then OAlive 1 1 101 0 [1;5;2;0;0;0]%N false
  else if N.eqb k 2 then ODead 1 1 7
  else OSuspect 2 1 7.
Definition check_split (sel : N) (cs : list int * (list (list int) * list (list int))) : verdict :=
  match fst (snd cs), snd (snd cs) with
  | [[k]], [[fired; state; inc; listed; nleave]] =>
      if negb (N.eqb sel 0 || N.eqb sel 16) then vok
      else if negb (bi fired) then mkV 66 0
      else
        let c := split_cfg in
        let s1 := boot c 0 in
        let s2 := fst (step c s1 (OAlive 1 1 101 0 [1;5;2;0;0;0]%N false)) in
        let s3 := fst (step c s2 (OSuspect 1 1 0)) in
        match alookup 1%N (recs s3) with
        | Some r3 =>
            if negb (st_eqb (rst r3) Suspect) then mkV 66 1
            else
              let '(s4, e4) := step c s3 (split_claim (ni k)) in
              let '(s5, e5) := do_dead c s4 (rinc r3) 1 (self c) in
              let leaves := length (filter (fun e => match e with EvLeave n _ _ => N.eqb n 1 | _ => false end) (e4 ++ e5)) in
              (* C06: "... unless it first accepts a refutation (the peer stays)" *)
              if N.eqb (ni k) 0 && negb (st_eqb (st_of state) Alive && bi listed && Uint63.eqb nleave 0) then mkV 163 0
              else match alookup 1%N (recs s5) with
                   | Some r5 =>
                       if st_eqb (rst r5) (st_of state) && N.eqb (rinc r5) (ni inc)
                          && Bool.eqb (bi listed) (negb (dead_or_left (rst r5))) && Nat.eqb leaves (nati nleave)
                       then vok else mkV 66 2
                   | None => mkV 66 3
                   end
        | None => mkV 66 1
        end
  | _, _ => mkV 1 0
  end.

Definition check_case (sel : N) (cs : list int * (list (list int) * list (list int))) : verdict :=
  match fst cs with [k] => if Uint63.eqb k 98 then check_split sel cs else check_serial sel cs | _ =>
  match dec_cfg (fst cs), dec_list dec_op (fst (snd cs)), dec_list dec_obs (snd (snd cs)) with
  | Some (c, bm), Some ops, Some (ob0 :: obs) =>
      (* boot *)
      let s0 := boot c bm in
      let ev0 := [EvJoin (self c) (self_addr c) bm] in
      let d0 := snap_diff (snap_of s0 ev0) ob0 in
      let '(_, view0) := replay (o_evs ob0) [] in
      if negb (mem_eqb (sort_by fst view0) (o_members ob0)) && (N.eqb sel 0 || N.eqb sel 13) then mkV 130 0
      else
        let v := monitor_from sel c 1 ob0 view0 None [] ops obs in
        if negb (N.eqb (vcode v) 0) then v
        else if negb (N.eqb d0 0) then mkV d0 0
        else compare_from c 1 s0 ops obs
  | _, _, _ => mkV 1 0
  end end.
