(* KeyringCheck.v — correspondence + monitor for C17. *)
From Coq Require Import List NArith ZArith Bool Uint63.
Import ListNotations.
From VF Require Import Base Keyring Raw.

(* keys 1..4 have a valid length, everything else does not *)
Definition valid_pool (k : N) : bool := (1 <=? k)%N && (k <=? 4)%N.

(* cfg: [npre; pre keys...; primary (0 = empty)] ; ops: [code; key] ; [0; key; n] = AddKey key from n goroutines at once: must
   leave what one AddKey key leaves ;
   obs per op: [res; nret; ret...; nheld; (len; keys...) per previously returned slice] ; obs 0: constructor result *)
Definition dec_op (v : list int) : option kop :=
  match v with
  | [c; k] => if Uint63.eqb c 0 then Some (KAdd (ni k)) else if Uint63.eqb c 1 then Some (KUse (ni k))
              else if Uint63.eqb c 2 then Some (KRemove (ni k)) else None
  | [c; k; _] => if Uint63.eqb c 0 then Some (KAdd (ni k)) else None
  | [c] => if Uint63.eqb c 3 then Some KGetKeys else if Uint63.eqb c 4 then Some KGetPrimary else None
  | _ => None
  end.

Fixpoint dec_held (n : nat) (l : list int) : list (list N) :=
  match n with
  | O => []
  | S n' => match l with
            | len :: rest => map ni (take (nati len) rest) :: dec_held n' (drop (nati len) rest)
            | [] => []
            end
  end.

Record kobs := mkKObs { ko_res : N; ko_ret : list N; ko_held : list (list N) }.
Definition dec_obs (v : list int) : option kobs :=
  match v with
  | r :: n :: rest =>
      let ret := map ni (take (nati n) rest) in
      match drop (nati n) rest with
      | nh :: rest2 => Some (mkKObs (ni r) ret (dec_held (nati nh) rest2))
      | [] => None
      end
  | _ => None
  end.

Fixpoint dec_list {A B} (f : A -> option B) (l : list A) : option (list B) :=
  match l with
  | [] => Some []
  | x :: l' => match f x, dec_list f l' with Some y, Some ys => Some (y :: ys) | _, _ => None end
  end.

Definition Nll_eqb := list_eqb (list_eqb N.eqb).
Fixpoint nodupb (l : list N) : bool := match l with [] => true | x :: l' => negb (Nmem x l') && nodupb l' end.

(* monitor on the implementation's trace: [ring] = last GetKeys result known, [held] = the slices
   as they looked when they were returned *)
Fixpoint monitor_from (i : N) (held : list (list N)) (ops : list kop) (obs : list kobs) : verdict :=
  match ops, obs with
  | o :: ops', x :: obs' =>
      if N.eqb (ko_res x) 2 then mkV 180 i
      else if negb (Nll_eqb (ko_held x) held) then mkV 181 i
      else
        let held' := match o with KGetKeys => held ++ [ko_ret x] | _ => held end in
        let bad :=
          match o with
          | KGetKeys =>
              if negb (nodupb (ko_ret x)) then 182%N
              else if negb (forallb valid_pool (ko_ret x)) then 183%N else 0%N
          | KAdd k => if negb (valid_pool k) && negb (N.eqb (ko_res x) 1) then 183%N else 0%N
          | _ => 0%N
          end in
        if negb (N.eqb bad 0) then mkV bad i else monitor_from (i + 1) held' ops' obs'
  | _, _ => vok
  end.

(* ring-level checks need consecutive GetKeys/GetPrimary results: done through the model comparison *)
Fixpoint compare_from (fixed : bool) (i : N) (s : kstate) (handles : list nat) (ops : list kop) (obs : list kobs) : verdict :=
  match ops, obs with
  | o :: ops', x :: obs' =>
      let '(s', m) := kstep valid_pool fixed s o in
      if negb (N.eqb (kres m) (ko_res x)) then mkV 50 i
      else if N.eqb (kres m) 2 then vok
      else if negb (list_eqb N.eqb (kval m) (ko_ret x)) then mkV 51 i
      else
        let handles' := match khandle m with Some h => handles ++ [h] | None => handles end in
        if negb (Nll_eqb (map (fun h => nth h (arrs s') []) handles) (ko_held x)) then mkV 52 i
        else compare_from fixed (i + 1) s' handles' ops' obs'
  | _, _ => vok
  end.

Definition check_case (fixed : bool) (cs : list int * (list (list int) * list (list int))) : verdict :=
  match fst cs with
  | npre :: rest =>
      let pre := map ni (take (nati npre) rest) in
      let prim := match drop (nati npre) rest with [p] => if Uint63.eqb p 6 then None else Some (ni p) | _ => None end in
      match dec_list dec_op (fst (snd cs)), dec_list dec_obs (snd (snd cs)) with
      | Some ops, Some (c0 :: obs) =>
          match knew valid_pool fixed pre prim with
          | None => if N.eqb (ko_res c0) 1 then vok else mkV 53 0
          | Some s0 =>
              if negb (N.eqb (ko_res c0) 0) then mkV 53 0
              else
                let v := monitor_from 1 [] ops obs in
                if negb (N.eqb (vcode v) 0) then v else compare_from fixed 1 s0 [] ops obs
          end
      | _, _ => mkV 1 0
      end
  | _ => mkV 1 0
  end.
