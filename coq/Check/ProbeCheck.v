(* ProbeCheck.v — correspondence + monitors for C19. *)
From Coq Require Import List NArith ZArith Bool Uint63.
Import ListNotations.
From VF Require Import Base Probe Raw.
Local Open Scope Z_scope.

(* probe case. cfg: [1; score0; awmax; interval; timeout; send; expected_nacks; tcp_enabled; tcp_mode(0 none,1 ok); tcp_at; seq]
   ops: arrivals [kind(0 ack/1 nack); seq; at]; obs: [[suspected; score; handlers_left; aborted; probe duration]] *)
Definition dec_arr (v : list int) : option arrival :=
  match v with [k; s; t] => Some (if Uint63.eqb k 0 then Ack (zi s) (zi t) else Nack (zi s) (zi t)) | _ => None end.
Fixpoint dec_all {A} (f : list int -> option A) (l : list (list int)) : list A :=
  match l with [] => [] | v :: l' => match f v with Some x => x :: dec_all f l' | None => dec_all f l' end end.

Definition check_probe (cs : list int * (list (list int) * list (list int))) : verdict :=
  match fst cs, snd (snd cs) with
  | [_; score0; awmax; itv; tmo; snd_; expn; tcpen; tcpm; tcpat; seq], [[susp; score; hleft; _; dur]] =>
      let i := (zi score0 + 1) * zi itv in
      let pi := mkPI (zi seq) i (zi tmo) (zi snd_) (dec_all dec_arr (fst (snd cs))) (zi expn)
                     (if Uint63.eqb tcpm 1 then Some (zi tcpat) else None) (bi tcpen) in
      (* monitors on the implementation's own observations *)
      if negb ((0 <=? zi score) && (zi score <=? zi awmax - 1)) then mkV 400 0
      else if negb (Uint63.eqb hleft 0) then mkV 401 0
      (* the probe loop is sequential: one probe may keep it busy for its awareness-scaled interval, no longer *)
      else if i <? zi dur then mkV 409 0
      else
        (* the verdict must be "answered" exactly when a matching ack came in time (spec = answered_iff) *)
        let answered := match probe_outcome pi with Answered => true | _ => false end in
        let aborted := match probe_outcome pi with Aborted => true | _ => false end in
        if negb aborted && Bool.eqb (bi susp) answered then mkV 402 0
        else if aborted && bi susp then mkV 402 1
        else if negb (Z.eqb (zi score) (apply_delta (zi awmax) (zi score0) (probe_delta pi))) then mkV 403 0
        else vok
  | _, _ => mkV 1 0
  end.

(* relay case. cfg: [2; req_seq; timeout; want_nack]; ops: arrivals relative to the relay's own ping, with
   seq 0 = the local sequence number the relay chose, anything else foreign;
   obs: [[acks_relayed (attempts); nacks_sent; acks_with_requesters_seq; local_seq_differs; handlers_left; handler_panicked]] *)
Definition check_relay (cs : list int * (list (list int) * list (list int))) : verdict :=
  match fst cs, snd (snd cs) with
  | [_; rseq; tmo; wn], [[acks; nacks; acksok; fresh; hleft; pan]] =>
      let ri := mkRI (zi rseq) 0 (zi tmo) (bi wn) (dec_all dec_arr (fst (snd cs))) in
      let '(ma, mn) := relay_result ri in
      if bi pan then mkV 408 0
      else if negb (Uint63.eqb hleft 0) then mkV 401 1
      else if negb (Uint63.eqb acks acksok) then mkV 404 0
      else if negb (bi fresh) then mkV 405 0
      else if (1 <? zi acks) || (1 <? zi nacks) || (1 <? zi acks + zi nacks) then mkV 406 0
      else if negb (Z.eqb (zi acks) ma && Z.eqb (zi nacks) mn) then mkV 407 0
      else vok
  | _, _ => mkV 1 0
  end.

Definition check_any (cs : list int * (list (list int) * list (list int))) : verdict :=
  match fst cs with
  | k :: _ => if Uint63.eqb k 1 then check_probe cs else check_relay cs
  | [] => mkV 1 0
  end.
