(* ProbeCheck.v — correspondence + monitors for C19 (409 also C03; 410/411 also C13). *)
From Coq Require Import List NArith ZArith Bool Uint63.
Import ListNotations.
From VF Require Import Base Probe Raw.
Local Open Scope Z_scope.

(* probe case. cfg: [1; score0; awmax; interval; timeout; send; expected_nacks; tcp_enabled; tcp_mode(0 none,1 ok); tcp_at; seq]
   ops: arrivals [kind(0 ack/1 nack); seq; at]; obs: [[suspected; score; handlers_left; aborted; probe duration]] *)
Definition dec_arr (v : list int) : option arrival :=
  match v with [k; s; t] => Some (if Uint63.eqb k 0 then Ack (zi s) (zi t) else Nack (zi s) (zi t)) | _ => None end.
Fixpoint dec_all {A} (f : list int -> option A) (l : list (list int)) : list A :=
  match l with [] => [] | v :: l' => match f v with Some x => x :: dec_all f l' | None => dec_all f l' end end.

(* one probe's observations against the model. [st] = step reported (sub-step added for 402's second form);
   [vobs]: the target was alive when the probe began, so the verdict shows in its state afterwards *)
Definition probe_verdict (st : N) (awmax score0 itv tmo snd_ expn seq : Z) (tcpen : bool) (tcp : option Z)
           (arr : list arrival) (vobs susp : bool) (score : Z) (hclean : bool) (dur : Z) (live : bool) : verdict :=
  let i := (score0 + 1) * itv in
  let pi := mkPI seq i tmo snd_ arr expn tcp tcpen in
  (* C13: whatever packets the probe drew, the packet listener must still be taking packets afterwards *)
  if negb live then mkV 410 st
  (* monitors on the implementation's own observations *)
  else if negb ((0 <=? score) && (score <=? awmax - 1)) then mkV 400 st
  else if negb hclean then mkV 401 st
  (* the probe loop is sequential: one probe may keep it busy for its awareness-scaled interval, no longer *)
  else if i <? dur then mkV 409 st
  else
    (* the verdict must be "answered" exactly when a matching ack came in time (spec = answered_iff) *)
    let answered := match probe_outcome pi with Answered => true | _ => false end in
    let aborted := match probe_outcome pi with Aborted => true | _ => false end in
    if vobs && negb aborted && Bool.eqb susp answered then mkV 402 st
    else if vobs && aborted && susp then mkV 402 (st + 1)
    else if negb (Z.eqb score (apply_delta awmax score0 (probe_delta pi))) then mkV 403 st
    else vok.

(* single probe on a fresh node. obs: [[suspected; score; handlers_left; aborted; probe duration; listener_alive; shutdown_returned]] *)
Definition check_probe (cs : list int * (list (list int) * list (list int))) : verdict :=
  match fst cs, snd (snd cs) with
  | [_; score0; awmax; itv; tmo; snd_; expn; tcpen; tcpm; tcpat; seq], [[susp; score; hleft; _; dur; live; shut]] =>
      let v := probe_verdict 0 (zi awmax) (zi score0) (zi itv) (zi tmo) (zi snd_) (zi expn) (zi seq) (bi tcpen)
                             (if Uint63.eqb tcpm 1 then Some (zi tcpat) else None)
                             (dec_all dec_arr (fst (snd cs))) true (bi susp) (zi score) (Uint63.eqb hleft 0) (zi dur) (bi live) in
      if negb (N.eqb (vcode v) 0) then v
      else if negb (bi shut) then mkV 411 0
      else vok
  | _, _ => mkV 1 0
  end.

(* chain of probes on one node. cfg: [3; awmax; interval; timeout; score0; shutdown_returned]
   ops: every arrival of the case [kind; seq; at], at measured from the start of the case;
   obs: one row per probe, in order:
     [suspected; score; handlers_left; aborted; duration; start; send; expected_nacks; tcp_enabled; tcp_mode; tcp_at (from the
      probe's start); seq; target alive at entry; listener_alive]
   Each probe sees ALL arrivals of the case from its start on, under whatever number they carry (the answers to an
   earlier probe included: the model ignores them because their number is not the probe's); the score the probe
   starts from is the one observed after the previous probe. Steps: 10 * (probe index, from 1) (+1). *)
Definition dec_arr_from (start : Z) (v : list int) : option arrival :=
  match v with
  | [k; s; t] => if zi t <? start then None
                 else Some (if Uint63.eqb k 0 then Ack (zi s) (zi t - start) else Nack (zi s) (zi t - start))
  | _ => None
  end.
Fixpoint check_chain_rows (awmax itv tmo : Z) (ops : list (list int)) (score0 : Z) (st : N) (rows : list (list int)) : verdict :=
  match rows with
  | [] => vok
  | [susp; score; hleft; _; dur; start; snd_; expn; tcpen; tcpm; tcpat; seq; vobs; live] :: rest =>
      let v := probe_verdict st awmax score0 itv tmo (zi snd_) (zi expn) (zi seq) (bi tcpen)
                             (if Uint63.eqb tcpm 1 then Some (zi tcpat) else None)
                             (dec_all (dec_arr_from (zi start)) ops) (bi vobs) (bi susp) (zi score) (Uint63.eqb hleft 0) (zi dur) (bi live) in
      if negb (N.eqb (vcode v) 0) then v
      else check_chain_rows awmax itv tmo ops (zi score) (st + 10) rest
  | _ :: _ => mkV 1 st
  end.
Definition check_chain (cs : list int * (list (list int) * list (list int))) : verdict :=
  match fst cs with
  | [_; awmax; itv; tmo; score0; shut] =>
      let v := check_chain_rows (zi awmax) (zi itv) (zi tmo) (fst (snd cs)) (zi score0) 10 (snd (snd cs)) in
      if negb (N.eqb (vcode v) 0) then v
      else if negb (bi shut) then mkV 411 0
      else vok
  | _ => mkV 1 0
  end.

(* relay case. cfg: [2; req_seq; timeout; want_nack]; ops: arrivals relative to the relay's own ping, with
   seq 0 = the local sequence number the relay chose, anything else foreign;
   obs: [[acks_relayed (attempts); nacks_sent; acks_with_requesters_seq; local_seq_differs; handlers_left; handler_panicked;
          listener_alive; shutdown_returned]] *)
Definition check_relay (cs : list int * (list (list int) * list (list int))) : verdict :=
  match fst cs, snd (snd cs) with
  | [_; rseq; tmo; wn], [[acks; nacks; acksok; fresh; hleft; pan; live; shut]] =>
      let ri := mkRI (zi rseq) 0 (zi tmo) (bi wn) (dec_all dec_arr (fst (snd cs))) in
      let '(ma, mn) := relay_result ri in
      if bi pan then mkV 408 0
      else if negb (bi live) then mkV 410 1
      else if negb (bi shut) then mkV 411 1
      else if negb (Uint63.eqb hleft 0) then mkV 401 1
      else if negb (Uint63.eqb acks acksok) then mkV 404 0
      else if negb (bi fresh) then mkV 405 0
      else if (1 <? zi acks) || (1 <? zi nacks) || (1 <? zi acks + zi nacks) then mkV 406 0
      else if negb (Z.eqb (zi acks) ma && Z.eqb (zi nacks) mn) then mkV 407 0
      else vok
  | _, _ => mkV 1 0
  end.

Definition check_any (cs : list int * (list (list int) * list (list int))) : verdict :=
  match fst cs with
  | k :: _ => if Uint63.eqb k 1 then check_probe cs else if Uint63.eqb k 3 then check_chain cs else check_relay cs
  | [] => mkV 1 0
  end.
